---------------------------- MODULE TraceAttest ----------------------------
(***************************************************************************)
(* C18 verdict: ONLY the declarative Rule of Attest.tla evaluated on the   *)
(* outcomes recorded from the real pcs.QuoteBundle.Verify.  Each "case"    *)
(* event carries the abstract case (ground truth computed by the harness   *)
(* independently of the code under test) and what the code did:            *)
(*   accepted, same_id / same_rd (verified identity / report data equal    *)
(*   the original's), mutated (some input byte differs), panic.            *)
(* Nothing of the operational model (order of checks, expected label) is   *)
(* consulted: "model accepts, code rejects" is drift, never a violation.   *)
(*                                                                         *)
(* `bad` names the first broken clause; invariants RuleHolds / BlacklistHolds.*)
(***************************************************************************)
EXTENDS Attest, Json

Trace == ndJsonDeserialize("trace.ndjson")

VARIABLES l, bad, badbl
tvars == <<l, bad, badbl>>

SeqSet(s) == {s[i] : i \in DOMAIN s}

IsEvent(e) == l <= Len(Trace) /\ Trace[l].ev = e /\ l' = l + 1

TraceInit == l = 1 /\ bad = "none" /\ badbl = "none"

\* a new segment (one scenario x blacklist class); verdicts are per segment
TrBegin == IsEvent("begin") /\ bad' = "none" /\ badbl' = "none"

CaseOf(e) == [tee |-> e.tee, mut |-> SeqSet(e.mut), pos |-> e.pos, nu |-> e.nu, pol |-> e.pol, coll |-> e.coll, st |-> e.st]

Verdict(e) ==
    LET c == CaseOf(e) IN
    IF e.panic THEN "panic"                                          \* the verifier must not crash on any input
    ELSE IF ~e.accepted THEN "none"                                  \* a rejection never violates the property
    ELSE IF ~(e.same_id /\ e.same_rd) THEN "identity"                \* accepted, but identity / report data are not the signed ones
    ELSE IF ~RContent(c) THEN "content"                              \* accepted although a signed / bound region was modified
    ELSE IF ~RTime(c) THEN "time"                                    \* accepted outside a validity window
    ELSE IF ~RStatus(c) THEN "tcbstatus"                             \* accepted with a TCB status that is not allowed
    ELSE IF ~RPolicy(c) THEN "policy"                                \* accepted against the policy
    ELSE IF ~RBelongs(c) THEN "collateral"                           \* accepted with collateral of another platform
    ELSE "none"

TrCase ==
    /\ IsEvent("case")
    /\ LET e == Trace[l]
           v == Verdict(e) IN
       /\ bad' = IF bad = "none" THEN v ELSE bad
       /\ badbl' = IF badbl = "none" /\ e.accepted /\ ~RBlacklist(CaseOf(e)) THEN "blacklist" ELSE badbl

TraceNext == TrBegin \/ TrCase
TraceSpec == TraceInit /\ [][TraceNext]_tvars

RuleHolds == bad = "none"
BlacklistHolds == badbl = "none"

TraceAccepted == TLCGet("stats").diameter - 1 = Len(Trace)
=============================================================================
