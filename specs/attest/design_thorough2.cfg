SPECIFICATION Spec
CONSTANTS
  StrictNextUpdate = FALSE
  MaxMut = 1
  MaxTimeDev = 4
  MaxPolDev = 1
  MaxTruthDev = 2
  BlClasses = {"miss", "hit"}
INVARIANTS TypeOK Sound Identical Complete NoAccept
CHECK_DEADLOCK FALSE
