------------------------------ MODULE TraceQE ------------------------------
(***************************************************************************)
(* C18, Quoting Enclave identity: the report of the enclave that signed a  *)
(* quote must be the one Intel's signed QE identity describes.  Events of  *)
(* `vh attest-qe`: the genuine QE report of a vector (field "none") and    *)
(* the same report with one bit of MISCSELECT / ATTRIBUTES flags / XFRM /  *)
(* MRSIGNER / ISVPRODID flipped, or another ISVSVN, given to the exported  *)
(* TCBBundle.Verify with the genuine platform data.  `masked` (the bit is  *)
(* bound by the identity's mask; always for MRSIGNER and ISVPRODID) and    *)
(* `below` (the ISVSVN is below every TCB level of the identity) are read  *)
(* from the identity document by the harness, not by the code under test.  *)
(*                                                                         *)
(*   Q1  a report that differs from the identity in a bound bit is never   *)
(*       accepted (a debug-mode or foreign quoting enclave)                *)
(*   Q2  a report whose ISVSVN is below every TCB level is never accepted  *)
(*   Q3  verification never panics                                         *)
(*   Q4  (events "tcb": the platform's SGX components, PCE SVN and TDX     *)
(*       components varied around the TCB levels) a platform is accepted   *)
(*       only if Intel's level selection - first level all of whose        *)
(*       components it reaches; all sixteen TDX components for module      *)
(*       version 0, components 2..15 plus the module identity from         *)
(*       version 1 on - yields an acceptable status (`truth`, computed by  *)
(*       the harness from the TCB info document)                           *)
(* A rejected change of an unbound bit, or of the genuine report, is drift *)
(* (reported by the check, not a violation of "accepted only as signed").  *)
(***************************************************************************)
EXTENDS Integers, Sequences, TLC, Json

Trace == ndJsonDeserialize("trace.ndjson")
VARIABLES l, bad
tvars == <<l, bad>>
Ev == Trace[l]

TraceInit == l = 1 /\ bad = "none"

Verdict(e) ==
    IF e.panic THEN "Q3: verification of a Quoting Enclave report panicked"
    ELSE IF e.accepted /\ e.field \in {"miscselect", "flags", "xfrm", "mrsigner", "isvprodid"} /\ e.masked
    THEN "Q1: a Quoting Enclave report that differs from the signed identity in a bound bit was accepted"
    ELSE IF e.accepted /\ e.field = "isvsvn" /\ e.below
    THEN "Q2: a Quoting Enclave report with an ISVSVN below every TCB level was accepted"
    ELSE "none"

TrBegin == l <= Len(Trace) /\ Ev.ev = "begin" /\ l' = l + 1 /\ UNCHANGED bad
TrQE == /\ l <= Len(Trace) /\ Ev.ev = "qe" /\ l' = l + 1
        /\ bad' = IF bad = "none" THEN Verdict(Ev) ELSE bad
TrTCB == /\ l <= Len(Trace) /\ Ev.ev = "tcb" /\ l' = l + 1
         /\ bad' = IF bad # "none" THEN bad
                   ELSE IF Ev.panic THEN "Q3: TCB bundle verification panicked"
                   ELSE IF Ev.accepted /\ ~Ev.truth THEN "Q4: a platform below every acceptable TCB level was accepted"
                   ELSE "none"
TraceNext == TrBegin \/ TrQE \/ TrTCB
TraceSpec == TraceInit /\ [][TraceNext]_tvars
RuleHolds == bad = "none"
TraceAccepted == TLCGet("stats").diameter - 1 = Len(Trace)
=============================================================================
