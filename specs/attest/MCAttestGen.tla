---------------------------- MODULE MCAttestGen ----------------------------
(***************************************************************************)
(* Case generation for C18.  The scenario table scen.json is written by    *)
(* the harness (vh attest-vectors) from the repository's test vectors: per *)
(* scenario (a known-good quote with its own or with foreign collateral)   *)
(* the ground truth (coll, st), the realisable time classes (one concrete  *)
(* instant each), the minimum-evaluation-number classes and the regions    *)
(* that exist in the vector.  TLC enumerates every case with               *)
(*      |mut| <= MaxMut   and   |mut| + Dev <= Budget                      *)
(* where Dev counts the deviations from the all-good case (foreign/        *)
(* out-of-date collateral, a time class not inside every window, each      *)
(* policy field off the permissive base), and prints it together with the  *)
(* outcome set of the operational model (exp).                             *)
(***************************************************************************)
EXTENDS Attest, Json

CONSTANTS Budget, MaxMut, BlGen

Scen == JsonDeserialize("scen.json")

VARIABLE c

SeqSet(s) == {s[i] : i \in DOMAIN s}

MutsOf(R, n) == IF n <= 0 THEN {{}}
                ELSE IF n = 1 THEN {{}} \cup {{r} : r \in R}
                ELSE {{}} \cup {{r} : r \in R} \cup {{r, q} : r, q \in R}

B2N(b) == IF b THEN 1 ELSE 0

TdxBase(tee) == IF tee = "tdx" THEN "any" ELSE "nil"

Init ==
    \E i \in DOMAIN Scen :
      LET s  == Scen[i]
          b0 == Budget - s.cdev
      IN  /\ b0 >= 0
          /\ \E m \in MutsOf(SeqSet(s.regions), IF b0 < MaxMut THEN b0 ELSE MaxMut) :
             LET b1 == b0 - Cardinality(m) IN
             \E ti \in DOMAIN s.times :
             LET tm == s.times[ti]
                 b2 == b1 - B2N(tm.dev > 0 \/ tm.alt) IN
             /\ b2 >= 0
             /\ \E ei \in DOMAIN s.evals :
                LET ev == s.evals[ei]
                    b3 == b2 - ev.dev IN
                /\ b3 >= 0
                /\ \E dis \in BOOLEAN, bl \in BlGen, wl \in WlClasses, tdx \in TdxClasses :
                   LET dev == s.cdev + B2N(tm.dev > 0 \/ tm.alt) + ev.dev + B2N(dis) + B2N(bl # "miss")
                              + B2N(wl # "none") + B2N(tdx # TdxBase(s.tee)) IN
                   /\ Cardinality(m) + dev <= Budget
                   /\ (bl = "hit_case" => s.blcase)
                   /\ c = [sid |-> s.sid, tid |-> tm.tid, eid |-> ev.eid, tee |-> s.tee, mut |-> m,
                           pos |-> tm.pos, nu |-> tm.nu,
                           pol |-> [disabled |-> dis, evqe |-> ev.qe, evtcb |-> ev.tcb, bl |-> bl, wl |-> wl, tdx |-> tdx],
                           coll |-> s.coll, st |-> s.st, dev |-> dev]

Next == UNCHANGED c
Spec == Init /\ [][Next]_c

EmitInv == PrintT(ToJson([sid |-> c.sid, tid |-> c.tid, eid |-> c.eid, tee |-> c.tee, mut |-> c.mut, pos |-> c.pos,
                          nu |-> c.nu, pol |-> c.pol, coll |-> c.coll, st |-> c.st, dev |-> c.dev,
                          exp |-> Outcomes(c)]))
=============================================================================
