SPECIFICATION Spec
CONSTANTS
  StrictNextUpdate = FALSE
  MaxMut = 0
  MaxTimeDev = 0
  MaxPolDev = 1
  MaxTruthDev = 0
  BlClasses = {"miss", "hit", "hit_case"}
INVARIANTS Sound
CHECK_DEADLOCK FALSE
