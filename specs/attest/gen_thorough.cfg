SPECIFICATION Spec
CONSTANTS
  StrictNextUpdate = FALSE
  Budget = 3
  MaxMut = 2
  BlGen = {"miss", "hit", "hit_case"}
INVARIANTS EmitInv
CHECK_DEADLOCK FALSE
