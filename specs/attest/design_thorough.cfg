SPECIFICATION Spec
CONSTANTS
  StrictNextUpdate = FALSE
  MaxMut = 2
  MaxTimeDev = 2
  MaxPolDev = 1
  MaxTruthDev = 1
  BlClasses = {"miss", "hit"}
INVARIANTS TypeOK Sound Identical Complete NoAccept
CHECK_DEADLOCK FALSE
