SPECIFICATION TraceSpec
CONSTANTS
  StrictNextUpdate = TRUE
INVARIANTS RuleHolds
POSTCONDITION TraceAccepted
CHECK_DEADLOCK FALSE
