SPECIFICATION TraceSpec
CONSTANTS
  StrictNextUpdate = FALSE
INVARIANTS RuleHolds
POSTCONDITION TraceAccepted
CHECK_DEADLOCK FALSE
