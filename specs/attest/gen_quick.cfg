SPECIFICATION Spec
CONSTANTS
  StrictNextUpdate = FALSE
  Budget = 2
  MaxMut = 2
  BlGen = {"miss", "hit", "hit_case"}
INVARIANTS EmitInv
CHECK_DEADLOCK FALSE
