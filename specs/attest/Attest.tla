------------------------------- MODULE Attest -------------------------------
(***************************************************************************)
(* C18 - attestation quotes are accepted only as signed and within policy. *)
(*                                                                         *)
(* A *case* is one call of pcs.QuoteBundle.Verify(policy, ts):             *)
(*                                                                         *)
(*   tee   "sgx" | "tdx"                  TEE type of the quote            *)
(*   mut   SUBSET Regions                 regions that differ from the     *)
(*                                        known-good original (Mut); all   *)
(*                                        other regions are Orig           *)
(*   pos   [Windows -> Pos]               where the verification time lies *)
(*                                        relative to each validity window *)
(*   nu    [{"qe","tcb"} -> {"le","gt"}]  ts <= / > the nextUpdate field   *)
(*   pol   policy class (see PolicyClasses)                                *)
(*   coll  ground truth about the supplied collateral: does the TCB info   *)
(*         have the TEE's id, the PCK certificate's FMSPC; does the QE     *)
(*         identity have the TEE's id                                      *)
(*   st    ground truth TCB status of the platform / of the QE ("ok" =     *)
(*         UpToDate or SWHardeningNeeded for the platform, UpToDate for    *)
(*         the QE and the TDX module; "bad" = anything else, incl. no      *)
(*         matching level)                                                 *)
(*                                                                         *)
(* Op   = Outcomes(c): the set of results the Go code can produce for the  *)
(*        case, transcribing the ORDER of checks in quote.go / tcb.go /    *)
(*        pcs.go (first failing check wins).  A result is "accept" or the  *)
(*        name of the failing check.  For mutated regions whose effect     *)
(*        depends on the concrete bytes (a header bit may or may not break *)
(*        parsing, a signature value may be malleable) a stage "may" fail. *)
(* Rule = RuleAccept(c): what the property demands of an accepted case,    *)
(*        stated without reference to the order of checks.                 *)
(***************************************************************************)
EXTENDS Naturals, FiniteSets, Sequences, TLC

CONSTANT StrictNextUpdate   \* Rule option: treat ts > nextUpdate as expired (the code never looks at nextUpdate)

Windows == {"pck", "sign", "qe", "tcb"}
    \* pck  : intersection of the validity periods of the PCK chain in the quote
    \* sign : intersection of the validity periods of the TCB signing chain
    \* qe   : [QE identity issueDate, issueDate + policy.TCBValidityPeriod days]
    \* tcb  : [TCB info   issueDate, issueDate + policy.TCBValidityPeriod days]
Pos == {"before", "start", "inside", "end", "after"}

(***************************************************************************)
(* Regions.  Content = bytes whose meaning is covered by a signature or a  *)
(* hash that chains up to Intel's root; Sig = signature values; Struct =   *)
(* length / type fields that no signature covers; Slack = bytes that are   *)
(* not interpreted (encoding slack, trailing padding).                     *)
(***************************************************************************)
QContent == {"hdr", "body_id", "body_rd", "body_attr", "body_other",
             "attkey", "qerep", "qerep_rd", "authdata", "pck_tbs"}
QSig     == {"qsig", "qesig", "pck_sig"}
QStruct  == {"siglen", "certhdr"}
QSlack   == {"pck_enc", "pad"}
CContent == {"tcb_dates", "tcb_eval", "tcb_fmspc", "tcb_levels", "tcb_other",
             "qeid_dates", "qeid_eval", "qeid_other", "sign_tbs"}
CSig     == {"tcbsig_val", "qeidsig_val", "sign_sig"}
CSlack   == {"tcbsig_enc", "qeidsig_enc", "sign_enc"}

Content == QContent \cup CContent
SigVal  == QSig \cup CSig
Struct  == QStruct
Slack   == QSlack \cup CSlack
Regions == Content \cup SigVal \cup Struct \cup Slack

BodyRegions == {"body_id", "body_rd", "body_attr", "body_other"}
TcbBody  == {"tcb_dates", "tcb_eval", "tcb_fmspc", "tcb_levels", "tcb_other"}
QeidBody == {"qeid_dates", "qeid_eval", "qeid_other"}

EvalRel == {"lt", "eq", "gt"}     \* policy minimum <, =, > the collateral's tcbEvaluationDataNumber
BlClassesAll == {"miss", "hit", "hit_case"}   \* hit_case: the platform's FMSPC listed in the other letter case
WlClasses == {"none", "hit", "miss"}
TdxClasses == {"nil", "any", "allowed", "notallowed"}

Labels == {"accept", "parse", "disabled", "debug", "tdx_nil", "tdx_module", "pck", "qesig", "qebind",
           "signchain", "qeid_sig", "qeid_id", "qeid_time", "qeid_eval", "qeid_match",
           "tcb_sig", "tcb_id", "tcb_time", "tcb_eval", "tcb_wl", "tcb_bl", "fmspc", "tcb_level", "qsig"}

---------------------------------------------------------------------------
(***************************************************************************)
(* Op: the checks in the order of the code.  Each stage is                 *)
(*   [lab |-> label, fail |-> the stage can fail, pass |-> it can pass].   *)
(* The code's time comparisons are inclusive on both ends:                 *)
(*   x509: !(now.Before(NotBefore)) /\ !(now.After(NotAfter))              *)
(*   tcb : !issueDate.After(ts) /\ ts-issueDate <= period                  *)
(***************************************************************************)
InWin(p) == p \in {"start", "inside", "end"}

St(lab, must, may) == [lab |-> lab, fail |-> (must \/ may), pass |-> ~must]

Stages(c) ==
    LET M(r)  == r \in c.mut
        MA(S) == (c.mut \cap S) # {}
        tdx   == c.tee = "tdx"
    IN <<
    \* --- Quote.UnmarshalBinary ------------------------------------------------
    St("parse", M("siglen"),
                M("hdr") \/ M("certhdr") \/ M("pck_tbs") \/ (tdx /\ M("body_attr"))),
    \* --- Quote.Verify ---------------------------------------------------------
    St("disabled", c.pol.disabled, FALSE),
    St("debug", FALSE, M("body_attr")),
    St("tdx_nil", tdx /\ c.pol.tdx = "nil", FALSE),
    St("tdx_module", tdx /\ c.pol.tdx = "notallowed" /\ ~M("body_other"),
                     tdx /\ M("body_other")),
    \* --- QuoteSignatureECDSA_P256.Verify -> qe.verify -> verifyPCK(ts) ---------
    \* a changed chain is rejected here unless it is another chain that Intel signed (then its key differs and
    \* the QE report signature fails next)
    \* (and its validity period is its own, not the original window pos["pck"] speaks about)
    St("pck", ~InWin(c.pos["pck"]) /\ ~M("pck_tbs"), M("pck_tbs") \/ M("pck_sig") \/ M("certhdr")),
    St("qesig", M("qerep") \/ M("qerep_rd") \/ M("pck_tbs"), M("qesig")),
    St("qebind", M("attkey") \/ M("authdata"), M("certhdr")),
    \* --- TCBBundle.Verify: getPublicKey(ts) ------------------------------------
    St("signchain", ~InWin(c.pos["sign"]) \/ M("sign_tbs"), M("sign_sig")),
    \* --- verifyQEIdentity: open (signature, then validate), then verify(report) -
    St("qeid_sig", MA(QeidBody), M("qeidsig_val")),
    St("qeid_id", ~c.coll.qeid, FALSE),
    St("qeid_time", ~InWin(c.pos["qe"]), FALSE),
    St("qeid_eval", c.pol.evqe = "gt", FALSE),
    St("qeid_match", c.st.qe = "bad", FALSE),
    \* --- verifyTCBInfo: open (signature, validate), validateFMSPC, validateTCBLevel
    St("tcb_sig", MA(TcbBody), M("tcbsig_val")),
    St("tcb_id", ~c.coll.tcbid, FALSE),
    St("tcb_time", ~InWin(c.pos["tcb"]), FALSE),
    St("tcb_eval", c.pol.evtcb = "gt", FALSE),
    St("tcb_wl", c.pol.wl = "miss", FALSE),
    St("tcb_bl", c.pol.bl = "hit", FALSE),       \* slices.Contains on the string: "hit_case" is not found
    St("fmspc", ~c.coll.fmspc, FALSE),
    St("tcb_level", c.st.platform = "bad", tdx /\ M("body_other")),   \* the TD report's TEE TCB SVNs select the level
    \* --- quote signature over header || report body with the attestation key ----
    St("qsig", M("hdr") \/ MA(BodyRegions), M("qsig"))
    >>

Outcomes(c) ==
    LET s == Stages(c)
        Reach(i) == \A j \in 1..(i - 1) : s[j].pass
    IN  {s[i].lab : i \in {k \in DOMAIN s : s[k].fail /\ Reach(k)}}
        \cup (IF Reach(Len(s) + 1) THEN {"accept"} ELSE {})

\* The verified result returned on acceptance is read from the report body.
Result(c) == [id |-> IF "body_id" \in c.mut THEN "Mut" ELSE "Orig",
              rd |-> IF "body_rd" \in c.mut THEN "Mut" ELSE "Orig"]

---------------------------------------------------------------------------
(***************************************************************************)
(* Rule (declarative).  Boundary instants ("start", "end") are left to the *)
(* implementation; strictly outside a window is never acceptable.          *)
(***************************************************************************)
Outside(p) == p \in {"before", "after"}

RContent(c)  == c.mut \cap Content = {}               \* every signed / bound region is the original
RTime(c)     == /\ \A w \in Windows : ~Outside(c.pos[w])
                /\ StrictNextUpdate => (c.nu["qe"] = "le" /\ c.nu["tcb"] = "le")
RStatus(c)   == c.st.platform = "ok" /\ c.st.qe = "ok"
RPolicy(c)   == /\ ~c.pol.disabled
                /\ c.pol.evqe # "gt" /\ c.pol.evtcb # "gt"
                /\ c.pol.wl # "miss"
                /\ (c.tee = "tdx" => c.pol.tdx \in {"any", "allowed"})
RBlacklist(c) == c.pol.bl = "miss"                      \* a blacklisted platform is never accepted
RBelongs(c)  == c.coll.tcbid /\ c.coll.fmspc /\ c.coll.qeid
RResult(c)   == Result(c) = [id |-> "Orig", rd |-> "Orig"]

RuleAccept(c) == RContent(c) /\ RTime(c) /\ RStatus(c) /\ RPolicy(c) /\ RBlacklist(c) /\ RBelongs(c) /\ RResult(c)

\* A case in which nothing deviates (used for the converse sanity check: the model accepts it and only it).
AllGood(c) == /\ c.mut = {}
              /\ \A w \in Windows : InWin(c.pos[w])
              /\ RStatus(c) /\ RPolicy(c) /\ RBlacklist(c) /\ RBelongs(c)

Expect(c) == LET o == Outcomes(c) IN
             IF o = {"accept"} THEN "accept" ELSE IF "accept" \in o THEN "either" ELSE "reject"
=============================================================================
