SPECIFICATION TraceSpec
INVARIANTS RuleHolds
POSTCONDITION TraceAccepted
CHECK_DEADLOCK FALSE
