SPECIFICATION TraceSpec
CONSTANTS
  StrictNextUpdate = FALSE
INVARIANTS BlacklistHolds
POSTCONDITION TraceAccepted
CHECK_DEADLOCK FALSE
