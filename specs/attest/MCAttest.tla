------------------------------ MODULE MCAttest ------------------------------
(***************************************************************************)
(* Design run for C18: Op (Outcomes) satisfies Rule (RuleAccept) for every *)
(* case within the bound                                                   *)
(*   |mut| <= MaxMut, at most MaxTimeDev windows not "inside",             *)
(*   at most MaxPolDev policy fields off the permissive base,              *)
(*   every collateral ground truth and TCB status combination.             *)
(* One initial state per case; one successor per outcome of the case.      *)
(***************************************************************************)
EXTENDS Attest

CONSTANTS MaxMut, MaxTimeDev, MaxPolDev, MaxTruthDev, BlClasses

VARIABLES c, out
vars == <<c, out>>

SubsetsUpTo(S, n) == {T \in SUBSET S : Cardinality(T) <= n}

\* constructive enumeration (a filter over SUBSET Regions with 32 elements would not terminate)
Muts == IF MaxMut = 0 THEN {{}}
        ELSE IF MaxMut = 1 THEN {{}} \cup {{r} : r \in Regions}
        ELSE {{}} \cup {{r} : r \in Regions} \cup {{r, s} : r, s \in Regions}

AllInside == [w \in Windows |-> "inside"]
PosDev(n) == IF n = 0 THEN {AllInside}
             ELSE IF n = 1 THEN {AllInside} \cup {[AllInside EXCEPT ![w] = p] : w \in Windows, p \in Pos}
             ELSE {AllInside} \cup {[AllInside EXCEPT ![w] = p, ![v] = q] : w, v \in Windows, p, q \in Pos}
Positions == IF MaxTimeDev >= 4 THEN [Windows -> Pos] ELSE PosDev(MaxTimeDev)

Nus == IF StrictNextUpdate THEN [{"qe", "tcb"} -> {"le", "gt"}] ELSE {[x \in {"qe", "tcb"} |-> "le"]}

PolBase == [disabled |-> FALSE, evqe |-> "lt", evtcb |-> "lt", bl |-> "miss", wl |-> "none", tdx |-> "any"]
PolAll == [disabled : BOOLEAN, evqe : EvalRel, evtcb : EvalRel, bl : BlClasses, wl : WlClasses, tdx : TdxClasses]
PolDev(p) == Cardinality({f \in DOMAIN p : p[f] # PolBase[f]})
Policies == {p \in PolAll : PolDev(p) <= MaxPolDev}

\* ground truth about the collateral and the TCB status: at most MaxTruthDev facts off the good value
Truths == {t \in [tcbid : BOOLEAN, fmspc : BOOLEAN, qeid : BOOLEAN, platform : {"ok", "bad"}, qe : {"ok", "bad"}] :
             Cardinality({f \in {"tcbid", "fmspc", "qeid"} : ~t[f]} \cup {f \in {"platform", "qe"} : t[f] = "bad"}) <= MaxTruthDev}

Init ==
    /\ \E tee \in {"sgx", "tdx"}, m \in Muts, ps \in Positions, nu \in Nus, p \in Policies, t \in Truths :
          c = [tee |-> tee, mut |-> m, pos |-> ps, nu |-> nu, pol |-> p,
               coll |-> [tcbid |-> t.tcbid, fmspc |-> t.fmspc, qeid |-> t.qeid],
               st |-> [platform |-> t.platform, qe |-> t.qe]]
    /\ out = "none"

Next == /\ out = "none"
        /\ out' \in Outcomes(c)
        /\ UNCHANGED c

Spec == Init /\ [][Next]_vars

(***************************************************************************)
(* Anti-vacuity, evaluated once at start-up: every outcome class of the    *)
(* model (every check of the code, and acceptance) is the outcome of some  *)
(* case with at most one deviation per dimension; every Rule clause is     *)
(* falsified by some case.                                                 *)
(***************************************************************************)
Witnesses ==
    {[tee |-> tee, mut |-> m, pos |-> ps, nu |-> [x \in {"qe", "tcb"} |-> "le"], pol |-> p,
      coll |-> [tcbid |-> t.tcbid, fmspc |-> t.fmspc, qeid |-> t.qeid], st |-> [platform |-> t.platform, qe |-> t.qe]] :
        tee \in {"sgx", "tdx"}, m \in {{}} \cup {{r} : r \in Regions}, ps \in PosDev(1),
        p \in {q \in PolAll : PolDev(q) <= 1},
        t \in {u \in [tcbid : BOOLEAN, fmspc : BOOLEAN, qeid : BOOLEAN, platform : {"ok", "bad"}, qe : {"ok", "bad"}] :
                 Cardinality({f \in {"tcbid", "fmspc", "qeid"} : ~u[f]} \cup {f \in {"platform", "qe"} : u[f] = "bad"}) <= 1}}

ASSUME LET W == Witnesses IN
       /\ \A lab \in Labels : \E w \in W : lab \in Outcomes(w)
       /\ \E w \in W : ~RContent(w)
       /\ \E w \in W : ~RTime(w)
       /\ \E w \in W : ~RStatus(w)
       /\ \E w \in W : ~RPolicy(w)
       /\ \E w \in W : ~RBlacklist(w)
       /\ \E w \in W : ~RBelongs(w)
       /\ \E w \in W : Outcomes(w) = {"accept"}
       /\ \E w \in W : Expect(w) = "either"

TypeOK == out \in Labels \cup {"none"}

\* Op => Rule
Sound == (out = "accept") => RuleAccept(c)
\* the verified result of an accepted case is the original's, whatever unbound region was mutated
Identical == (out = "accept") => Result(c) = [id |-> "Orig", rd |-> "Orig"]
\* converse sanity: the all-good case (boundary instants included) is accepted and nothing else can happen to it
Complete == (out = "none" /\ AllGood(c)) => Outcomes(c) = {"accept"}
\* a case that breaks a Rule clause is never accepted by the model either (same as Sound, stated on the initial state)
NoAccept == (out = "none" /\ ~RuleAccept(c)) => "accept" \notin Outcomes(c)
=============================================================================
