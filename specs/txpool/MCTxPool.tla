------------------------------ MODULE MCTxPool ------------------------------
(* Model-checking instance of TxPool: design run and behaviour generation. *)
EXTENDS TxPool, Json

Free == {<<>>}
\* pairwise distinct priorities for up to 4 added transactions: a few order types
Perms3 == {<<1, 2, 3>>, <<3, 2, 1>>, <<2, 3, 1>>, <<2, 1, 3>>}
Perms4 == {<<1, 2, 3, 4>>, <<4, 3, 2, 1>>, <<2, 4, 1, 3>>, <<3, 1, 4, 2>>, <<1, 4, 2, 3>>, <<4, 1, 3, 2>>}
Perms5 == {<<1, 2, 3, 4, 5>>, <<5, 4, 3, 2, 1>>, <<2, 4, 1, 5, 3>>, <<3, 1, 5, 2, 4>>, <<5, 1, 4, 2, 3>>, <<1, 5, 2, 4, 3>>}
PermsQuick == {<<1, 2, 3>>, <<3, 1, 2>>}
PermsThorough == {<<1, 2, 3, 4>>, <<4, 3, 2, 1>>, <<2, 4, 1, 3>>}

\* Emit the (shortest, BFS) history of every distinct (operation, resulting state) pair as one JSON line.
EmitInv == (hist # <<>>) => PrintT(ToJson([cap |-> cap, top |-> top, ops |-> hist]))
=============================================================================
