SPECIFICATION Spec
CONSTANTS
  Senders = {"a", "b"}
  MaxSeq = 3
  Tops = {3, 4}
  Prios = {1, 2}
  Caps = {1, 2}
  MaxLimit = 2
  MaxAdds = 3
  MaxOps = 100
  StAhead = 2
  PrioMaps <- Free
VIEW view
INVARIANTS TypeOK CapacityInv NoExpiredInv UniqueSeqInv UniqueIdInv
PROPERTIES PassOrder ReplaceStrict
CHECK_DEADLOCK FALSE
