SPECIFICATION Spec
CONSTANTS
  Senders = {"a", "b"}
  MaxSeq = 3
  Tops = {3, 4}
  Prios = {1, 2, 3}
  Caps = {1, 2, 3}
  MaxLimit = 3
  MaxAdds = 4
  MaxOps = 100
  StAhead = 2
  PrioMaps <- Free
VIEW view
INVARIANTS TypeOK CapacityInv NoExpiredInv UniqueSeqInv UniqueIdInv
PROPERTIES PassOrder ReplaceStrict
CHECK_DEADLOCK FALSE
