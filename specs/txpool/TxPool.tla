------------------------------- MODULE TxPool -------------------------------
(***************************************************************************)
(* Reference model of the runtime transaction pool's main queue            *)
(* (go/runtime/txpool: mainQueue + mainQueueScheduler).                    *)
(*                                                                         *)
(* The property (C20) is a refinement statement: after any sequence of     *)
(* add / schedule / schedule-extra / reset / transaction-used / forward /  *)
(* drain operations the real queue's contents and schedules equal those    *)
(* of this "straightforward reference model".  The model has no heaps: a   *)
(* set of transactions, the current sequence number of every sender and    *)
(* the set of sequence numbers scheduled in the running pass.              *)
(*                                                                         *)
(* One action per public call of mainQueue (each runs under its mutex):    *)
(*   Add       = mainQueue.Add       (forward(stateSeq) ; scheduler.add)   *)
(*   Schedule  = mainQueue.Schedule  (reset ; schedule(limit))             *)
(*   Extra     = mainQueue.ScheduleExtra                                   *)
(*   Reset     = scheduler.reset                                           *)
(*   Used      = mainQueue.HandleTxsUsed([h])                              *)
(*   Forward   = scheduler.forward                                         *)
(*   Drain     = mainQueue.Drain                                           *)
(*                                                                         *)
(* Sequence numbers are abstract 0..MaxSeq; the harness maps i to base+i   *)
(* for several uint64 bases.  `top` is the abstract number that maps to    *)
(* 2^64-1 (or MaxSeq+1 when the window does not contain it).               *)
(* Scope restriction (stated in DESIGN.md): the state sequence number      *)
(* passed to Add never regresses below what the queue was already told     *)
(* about the sender (st >= cur[s]).                                        *)
(***************************************************************************)
EXTENDS Integers, Sequences, FiniteSets, TLC

CONSTANTS Senders,    \* set of sender names
          MaxSeq,     \* abstract sequence numbers 0..MaxSeq
          Tops,       \* candidate values of `top` (subset of {MaxSeq, MaxSeq+1})
          Prios,      \* set of priorities (naturals)
          Caps,       \* candidate capacities
          MaxLimit,   \* schedule limits 0..MaxLimit
          MaxAdds,    \* at most this many Add operations (= transaction ids 1..MaxAdds)
          MaxOps,     \* behaviours have at most this many operations
          StAhead,    \* Add passes a state seq in cur[s]..cur[s]+StAhead
          PrioMaps    \* set of sequences: a behaviour either fixes the priority of the i-th added
                      \* transaction to pm[i] (replay with pairwise distinct priorities) or, for
                      \* pm = <<>>, leaves priorities free (ties allowed)

VARIABLES cap,     \* capacity of the queue (fixed per behaviour)
          top,     \* abstract image of the largest uint64
          pool,    \* set of transactions [id, s, seq, p]
          cur,     \* cur[s]: current (confirmed) sequence number of sender s
          done,    \* done[s]: sequence numbers of s scheduled in the running pass
          nadds,   \* number of Add operations so far (next id = nadds+1)
          pm,      \* priority assignment of this behaviour (element of PrioMaps)
          ret,     \* result of the last operation (observable)
          hist     \* history of operations with expected observations (generation only)

vars == <<cap, top, pm, pool, cur, done, nadds, ret, hist>>
view == <<cap, top, pm, pool, cur, done, nadds>>
\* generation view: one emitted behaviour per distinct (operation, resulting state) pair
LastOp == IF hist = <<>> THEN <<>> ELSE hist[Len(hist)]
genview == <<view, LastOp>>

Seqs == 0..MaxSeq
Ids  == 1..MaxAdds

Tx(id, s, q, p) == [id |-> id, s |-> s, seq |-> q, p |-> p]

IdsOf(P) == {t.id : t \in P}

(* Transactions that survive when the senders' current numbers are c. *)
Expire(P, c) == {t \in P : t.seq >= c[t.s]}

(* A transaction is ready iff it has not been scheduled in this pass and   *)
(* every lower sequence number from the sender's current one onward has.   *)
Ready(P, c, d) ==
    {t \in P : /\ t.seq \notin d[t.s]
               /\ \A q \in c[t.s]..(t.seq - 1) : q \in d[t.s]}

Best(R)  == {t \in R : \A u \in R : u.p <= t.p}
Worst(R) == {t \in R : \A u \in R : u.p >= t.p}

(* All <<schedule, done'>> pairs obtainable by repeatedly taking a         *)
(* highest-priority ready transaction, at most n times.                    *)
RECURSIVE Sched(_, _, _, _)
Sched(P, c, d, n) ==
    IF n = 0 THEN {<<<<>>, d>>}
    ELSE LET R == Ready(P, c, d) IN
         IF R = {} THEN {<<<<>>, d>>}
         ELSE UNION { { <<<<t.id>> \o r[1], r[2]>> :
                          r \in Sched(P, c, [d EXCEPT ![t.s] = @ \cup {t.seq}], n - 1) }
                      : t \in Best(R) }

NoDone == [s \in Senders |-> {}]

Log(op) == hist' = Append(hist, op)

Init ==
    /\ cap \in Caps
    /\ top \in Tops
    /\ pm \in PrioMaps
    /\ pool = {}
    /\ cur = [s \in Senders |-> 0]
    /\ done = NoDone
    /\ nadds = 0
    /\ ret = [k |-> "init", v |-> 0]
    /\ hist = <<>>

CurMax == IF top <= MaxSeq THEN top ELSE MaxSeq + 1

(***************************************************************************)
(* Add: forward the sender to st, reject expired, replace same-sequence    *)
(* only by strictly higher priority, insert, evict lowest if over capacity.*)
(***************************************************************************)
AddTo(id, s, q, p, st) ==
    LET c1  == [cur EXCEPT ![s] = st]
        P1  == Expire(pool, c1)
        new == Tx(id, s, q, p)
        old == {t \in P1 : t.s = s /\ t.seq = q}
    IN  /\ st >= cur[s]
        /\ cur' = c1
        /\ IF q < st THEN /\ pool' = P1 /\ ret' = [k |-> "add", v |-> "expired"]
           ELSE IF old # {} THEN
                LET o == CHOOSE t \in old : TRUE IN
                IF o.p >= p THEN /\ pool' = P1 /\ ret' = [k |-> "add", v |-> "replacement_underpriced"]
                ELSE /\ pool' = (P1 \ {o}) \cup {new} /\ ret' = [k |-> "add", v |-> "ok"]
           ELSE LET P2 == P1 \cup {new} IN
                IF Cardinality(P2) <= cap THEN /\ pool' = P2 /\ ret' = [k |-> "add", v |-> "ok"]
                ELSE \E v \in Worst(P2) :
                        /\ pool' = P2 \ {v}
                        /\ ret' = [k |-> "add", v |-> IF v = new THEN "underpriced" ELSE "ok"]
        /\ UNCHANGED <<cap, top, pm, done>>

UsedPrios == {t.p : t \in pool}

Add ==
    /\ nadds < MaxAdds
    /\ \E s \in Senders, q \in Seqs, p \in Prios :
       \E st \in cur[s]..(IF cur[s] + StAhead <= CurMax THEN cur[s] + StAhead ELSE CurMax) :
          /\ q <= top
          /\ pm # <<>> => p = pm[nadds + 1]
          /\ AddTo(nadds + 1, s, q, p, st)
          /\ nadds' = nadds + 1
          /\ Log([a |-> "add", id |-> nadds + 1, s |-> s, seq |-> q, p |-> p, st |-> st,
                  ret |-> ret'.v, all |-> IdsOf(pool')])

UsedOp(id) ==
    /\ IF \E t \in pool : t.id = id
       THEN LET t  == CHOOSE u \in pool : u.id = id
                c1 == IF t.seq < top /\ t.seq + 1 > cur[t.s]
                      THEN [cur EXCEPT ![t.s] = t.seq + 1] ELSE cur
            IN  /\ cur' = c1
                /\ pool' = Expire(pool \ {t}, c1)
       ELSE UNCHANGED <<pool, cur>>
    /\ ret' = [k |-> "none", v |-> 0]
    /\ UNCHANGED <<cap, top, pm, done, nadds>>

Used ==
    \E id \in 1..nadds :
       /\ UsedOp(id)
       /\ Log([a |-> "used", id |-> id, all |-> IdsOf(pool')])

ForwardOp(s, q) ==
    /\ IF q > cur[s]
       THEN LET c1 == [cur EXCEPT ![s] = q] IN /\ cur' = c1 /\ pool' = Expire(pool, c1)
       ELSE UNCHANGED <<pool, cur>>
    /\ ret' = [k |-> "none", v |-> 0]
    /\ UNCHANGED <<cap, top, pm, done, nadds>>

Forward ==
    \E s \in Senders, q \in Seqs \cup {MaxSeq + 1} :
       /\ q <= CurMax
       /\ q > cur[s]            \* a forward to a number not above the current one is a no-op
       /\ ForwardOp(s, q)
       /\ Log([a |-> "fwd", s |-> s, seq |-> q, all |-> IdsOf(pool')])

SchedOp(limit, d0) ==
    \E r \in Sched(pool, cur, d0, limit) :
       /\ ret' = [k |-> "sched", v |-> r[1]]
       /\ done' = r[2]
       /\ UNCHANGED <<cap, top, pm, pool, cur, nadds>>

Schedule ==
    \E limit \in 0..MaxLimit :
       /\ SchedOp(limit, NoDone)
       /\ Log([a |-> "sched", limit |-> limit, ret |-> ret'.v, all |-> IdsOf(pool)])

Extra ==
    \E limit \in 1..MaxLimit :
       /\ SchedOp(limit, done)
       /\ Log([a |-> "extra", limit |-> limit, ret |-> ret'.v, all |-> IdsOf(pool)])

ResetOp ==
    /\ done' = NoDone
    /\ ret' = [k |-> "none", v |-> 0]
    /\ UNCHANGED <<cap, top, pm, pool, cur, nadds>>

Reset ==
    /\ done # NoDone
    /\ ResetOp
    /\ Log([a |-> "reset", all |-> IdsOf(pool)])

DrainOp ==
    /\ pool' = {}
    /\ ret' = [k |-> "drain", v |-> IdsOf(pool)]
    /\ UNCHANGED <<cap, top, pm, cur, done, nadds>>

Drain ==
    /\ pool # {}
    /\ DrainOp
    /\ Log([a |-> "drain", ret |-> IdsOf(pool), all |-> {}])

Next ==
    /\ Len(hist) < MaxOps
    /\ (Add \/ Used \/ Forward \/ Schedule \/ Extra \/ Reset \/ Drain)

Spec == Init /\ [][Next]_vars

-----------------------------------------------------------------------------
(* Invariants of the reference model (design-level sanity of the model).   *)

TypeOK ==
    /\ \A t \in pool : t.id \in Ids /\ t.s \in Senders /\ t.seq \in Seqs /\ t.p \in Prios
    /\ \A s \in Senders : cur[s] \in 0..(MaxSeq + 1) /\ done[s] \subseteq Seqs

CapacityInv == Cardinality(pool) <= cap

NoExpiredInv == \A t \in pool : t.seq >= cur[t.s]

UniqueSeqInv == \A t, u \in pool : (t.s = u.s /\ t.seq = u.seq) => t = u

UniqueIdInv == \A t, u \in pool : t.id = u.id => t = u

(* Pass order, as an action property on schedule results: every id in a    *)
(* schedule result was ready when taken, i.e. preceded by all lower        *)
(* numbers from the sender's current one; no id appears twice.             *)
NoDupSeq(sq) == \A i, j \in DOMAIN sq : i # j => sq[i] # sq[j]

SchedResultOK ==
    (ret'.k = "sched") =>
        /\ NoDupSeq(ret'.v)
        /\ \A i \in DOMAIN ret'.v :
             LET t == CHOOSE u \in pool : u.id = ret'.v[i] IN
             /\ t.seq \in done'[t.s]
             /\ \A q \in cur[t.s]..(t.seq - 1) : q \in done'[t.s]

PassOrder == [][ SchedResultOK ]_vars

(* A replacement only ever substitutes a strictly higher priority.         *)
ReplaceStrict ==
    [][ \A t \in pool, u \in pool' :
           (t.s = u.s /\ t.seq = u.seq /\ t.id # u.id) => u.p > t.p ]_vars

=============================================================================
