---------------------------- MODULE TraceTxPool ----------------------------
(***************************************************************************)
(* Trace validation for C20: an ndjson trace recorded from the real main   *)
(* queue (harness `vh txpool-trace`, priorities with ties) is accepted iff *)
(* it is a behaviour of the reference model TxPool; TLC picks the          *)
(* tie-breaks.  Every event carries its arguments, its observed result and *)
(* the observed contents, so the search is linear in the trace length.     *)
(* Several traces are concatenated; a "begin" event resets the model.      *)
(***************************************************************************)
EXTENDS TxPool, Json, SequencesExt

Trace == ndJsonDeserialize("trace.ndjson")

VARIABLE l    \* next line of Trace to consume

tvars == <<vars, l>>

Has(f) == f \in DOMAIN Trace[l]

(* a recorded panic of the real code matches no action: the trace is rejected at that event *)
IsEvent(e) == l <= Len(Trace) /\ Trace[l].ev = e /\ ~Has("panic") /\ l' = l + 1

TraceInit ==
    /\ l = 1
    /\ cap = 1 /\ top = MaxSeq + 1 /\ pm = <<>>
    /\ pool = {} /\ cur = [s \in Senders |-> 0] /\ done = NoDone
    /\ nadds = 0 /\ ret = [k |-> "init", v |-> 0] /\ hist = <<>>

TrBegin ==
    /\ IsEvent("begin")
    /\ cap' = Trace[l].cap /\ top' = Trace[l].top /\ pm' = <<>>
    /\ pool' = {} /\ cur' = [s \in Senders |-> 0] /\ done' = NoDone
    /\ nadds' = 0 /\ ret' = [k |-> "init", v |-> 0] /\ hist' = <<>>

Obs == /\ Has("all") /\ ~Has("panic")
       /\ IdsOf(pool') = ToSet(Trace[l].all)

TrAdd ==
    /\ IsEvent("add")
    /\ LET e == Trace[l] IN
         /\ AddTo(e.id, e.s, e.seq, e.p, e.st)
         /\ ret'.v = e.ret
    /\ nadds' = nadds + 1
    /\ Obs
    /\ UNCHANGED hist

TrUsed ==
    /\ IsEvent("used")
    /\ UsedOp(Trace[l].id)
    /\ Obs
    /\ UNCHANGED hist

TrFwd ==
    /\ IsEvent("fwd")
    /\ ForwardOp(Trace[l].s, Trace[l].seq)
    /\ Obs
    /\ UNCHANGED hist

TrSched ==
    /\ IsEvent("sched")
    /\ SchedOp(Trace[l].limit, NoDone)
    /\ Has("ret") /\ ret'.v = Trace[l].ret
    /\ Obs
    /\ UNCHANGED hist

TrExtra ==
    /\ IsEvent("extra")
    /\ SchedOp(Trace[l].limit, done)
    /\ Has("ret") /\ ret'.v = Trace[l].ret
    /\ Obs
    /\ UNCHANGED hist

TrReset ==
    /\ IsEvent("reset")
    /\ ResetOp
    /\ Obs
    /\ UNCHANGED hist

TrDrain ==
    /\ IsEvent("drain")
    /\ DrainOp
    /\ Has("ret") /\ ret'.v = ToSet(Trace[l].ret)
    /\ Obs
    /\ UNCHANGED hist

TraceNext == TrBegin \/ TrAdd \/ TrUsed \/ TrFwd \/ TrSched \/ TrExtra \/ TrReset \/ TrDrain

TraceSpec == TraceInit /\ [][TraceNext]_tvars

(* The rule invariants are evaluated on every recorded state. *)
TraceAccepted == TLCGet("stats").diameter - 1 = Len(Trace)
=============================================================================
