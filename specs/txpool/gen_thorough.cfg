SPECIFICATION Spec
CONSTANTS
  Senders = {"a", "b"}
  MaxSeq = 3
  Tops = {3, 4}
  Prios = {1, 2, 3, 4}
  Caps = {1, 2, 3}
  MaxLimit = 3
  MaxAdds = 4
  MaxOps = 9
  StAhead = 2
  PrioMaps <- PermsThorough
VIEW genview
INVARIANTS EmitInv
CHECK_DEADLOCK FALSE
