SPECIFICATION Spec
CONSTANTS
  Senders = {"a", "b"}
  MaxSeq = 3
  Tops = {3, 4}
  Prios = {1, 2, 3}
  Caps = {1, 2}
  MaxLimit = 2
  MaxAdds = 3
  MaxOps = 8
  StAhead = 1
  PrioMaps <- PermsQuick
VIEW genview
INVARIANTS EmitInv
CHECK_DEADLOCK FALSE
