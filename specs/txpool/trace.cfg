SPECIFICATION TraceSpec
CONSTANTS
  Senders = {"a", "b", "c"}
  MaxSeq = 5
  Tops = {5, 6}
  Prios = {0, 1, 2}
  Caps = {1, 2, 3, 4}
  MaxLimit = 3
  MaxAdds = 12
  MaxOps = 1000000
  StAhead = 6
  PrioMaps <- Free
INVARIANTS CapacityInv NoExpiredInv UniqueSeqInv UniqueIdInv
PROPERTIES PassOrder ReplaceStrict
POSTCONDITION TraceAccepted
CHECK_DEADLOCK FALSE
