--------------------------- MODULE TracePoolRule ---------------------------
(***************************************************************************)
(* C11 verdict: the declarative rule PoolRule evaluated over traces        *)
(* recorded from the real commitment.Pool.  The trace spec keeps only the  *)
(* history the rule speaks about (accepted commitments, discrepancy        *)
(* declared) - it contains no model of the pool's internals - and sets     *)
(* `bad` to the name of the broken clause.  Invariant: bad = "none".       *)
(***************************************************************************)
EXTENDS PoolRule, Json, TLC

Trace == ndJsonDeserialize("trace.ndjson")

VARIABLES l, W, B, S, round, acc, declared, bad

tvars == <<l, W, B, S, round, acc, declared, bad>>

IsEvent(e) == l <= Len(Trace) /\ Trace[l].ev = e /\ l' = l + 1

TraceInit ==
    /\ l = 1 /\ W = <<>> /\ B = <<>> /\ S = 0 /\ round = 0
    /\ acc = {} /\ declared = FALSE /\ bad = "none"

TrBegin ==
    /\ IsEvent("begin")
    /\ W' = Trace[l].w /\ B' = Trace[l].b /\ S' = Trace[l].s /\ round' = Trace[l].round
    /\ acc' = {} /\ declared' = FALSE
    /\ UNCHANGED bad

TrAdd ==
    /\ IsEvent("add")
    /\ "panic" \notin DOMAIN Trace[l]
    /\ LET e == Trace[l] IN
       IF e.ret = "ok"
       THEN /\ acc' = acc \cup {[n |-> e.n, sched |-> e.sched, vote |-> e.vote]}
            /\ bad' = IF AcceptOK(acc, W, B, e.n, e.sched) THEN bad ELSE "accept"
       ELSE UNCHANGED <<acc, bad>>
    /\ UNCHANGED <<W, B, S, round, declared>>

TrProcess ==
    /\ IsEvent("process")
    /\ "panic" \notin DOMAIN Trace[l]
    /\ LET e == Trace[l] IN
       /\ e.ret \in Outcomes
       /\ declared' = (declared \/ e.ret = "discrepancy")
       /\ bad' = IF e.ret = "final" /\ ~FinalOK(acc, declared, W, B, S, round, e.sched, e.res) THEN "final"
                 ELSE IF ~TimeoutOK(e.timeout, e.ret) THEN "timeout"
                 ELSE bad
    /\ UNCHANGED <<W, B, S, round, acc>>

TraceNext == TrBegin \/ TrAdd \/ TrProcess

TraceSpec == TraceInit /\ [][TraceNext]_tvars

RuleHolds == bad = "none"

TraceAccepted == TLCGet("stats").diameter - 1 = Len(Trace)
=============================================================================
