SPECIFICATION Spec
CONSTANTS
  Nodes <- NodesDef
  Committees <- CommitteesFull
  Rounds = {0, 1, 2}
  Stragglers = {0, 1, 2}
  Results = {"A", "B"}
  MaxAdds = 5
  MaxProc = 3
VIEW view
INVARIANTS TypeOK HighestRankIsBestCommitted
PROPERTIES RuleFinal RuleAccept RuleTimeout
CHECK_DEADLOCK FALSE
