------------------------------- MODULE PoolOp -------------------------------
(***************************************************************************)
(* C11, operational model: transcription of roothash/api/commitment.Pool   *)
(* (pool.go, votes.go) and scheduler/api Committee rank arithmetic.        *)
(*                                                                         *)
(*   Add(n, sched, vote)  = Pool.AddVerifiedExecutorCommitment             *)
(*   Process(timeout)     = Pool.ProcessCommitments                        *)
(*                                                                         *)
(* The committee, the round and the straggler allowance are chosen in Init *)
(* and fixed during a behaviour (one runtime round).  History variables    *)
(* `acc` (accepted commitments) and `declared` exist only to state         *)
(* PoolRule over the behaviour; the pool itself is (hr, sc, disc).         *)
(***************************************************************************)
EXTENDS PoolRule, TLC

CONSTANTS Nodes,        \* node names, including non-members
          Committees,   \* set of [w |-> <<workers>>, b |-> <<backups>>]
          Rounds,       \* set of round numbers
          Stragglers,   \* set of allowed-straggler values
          Results,      \* result hashes, e.g. {"A", "B"}
          MaxAdds,      \* bound on accepted + rejected add calls
          MaxProc       \* bound on processing calls

VARIABLES W, B, S, round,   \* configuration (fixed)
          hr,               \* Pool.HighestRank (NoRank = math.MaxUint64)
          sc,               \* Pool.SchedulerCommitments: rank -> [on, commit, votes]
          disc,             \* Pool.Discrepancy
          acc, declared,    \* history: accepted commitments, discrepancy declared
          nadd, nproc,      \* counters bounding the behaviour
          ret,              \* observable result of the last call
          hist              \* generation only

cfgvars == <<W, B, S, round>>
vars == <<W, B, S, round, hr, sc, disc, acc, declared, nadd, nproc, ret, hist>>
view == <<W, B, S, round, hr, sc, disc, acc, declared, nadd, nproc>>
LastOp == IF hist = <<>> THEN <<>> ELSE hist[Len(hist)]
genview == <<view, LastOp>>

NoRank == 99
MaxRank == 3
Ranks == 0..(MaxRank - 1)
Votes == Results \cup {"F"}

EmptySC == [on |-> FALSE, commit |-> "none", votes |-> [n \in Nodes |-> "none"]]

Init ==
    /\ \E c \in Committees : W = c.w /\ B = c.b
    /\ S \in Stragglers
    /\ S < Len(W) + 1
    /\ round \in Rounds
    /\ hr = NoRank
    /\ sc = [r \in Ranks |-> EmptySC]
    /\ disc = FALSE
    /\ acc = {}
    /\ declared = FALSE
    /\ nadd = 0 /\ nproc = 0
    /\ ret = [k |-> "init", v |-> "none"]
    /\ hist = <<>>

IsMember(n) == n \in Members(W, B)
IsBackup(n) == n \in SeqSet(B)
IsWorker(n) == n \in SeqSet(W)

(***************************************************************************)
(* AddVerifiedExecutorCommitment: returns the error class and updates the  *)
(* pool.  Note the code's order: role check, scheduler rank, prioritise    *)
(* (which may already lower hr and drop worse ranks), then the single-vote *)
(* check inside SchedulerCommitment.Add.                                   *)
(***************************************************************************)
AddOp(n, sched, vote) ==
    IF ~disc /\ ~IsMember(n) THEN
        /\ ret' = [k |-> "add", v |-> "not_in_committee"] /\ UNCHANGED <<hr, sc, acc>>
    ELSE IF disc /\ ~IsBackup(n) THEN
        /\ ret' = [k |-> "add", v |-> "bad_commitment"] /\ UNCHANGED <<hr, sc, acc>>
    ELSE IF ~IsWorker(sched) THEN
        /\ ret' = [k |-> "add", v |-> "bad_commitment"] /\ UNCHANGED <<hr, sc, acc>>
    ELSE LET rank == RankOf(W, round, sched) IN
        IF rank > hr THEN
            /\ ret' = [k |-> "add", v |-> "bad_commitment"] /\ UNCHANGED <<hr, sc, acc>>
        ELSE IF rank # hr /\ disc THEN
            /\ ret' = [k |-> "add", v |-> "bad_commitment"] /\ UNCHANGED <<hr, sc, acc>>
        ELSE LET promote == rank < hr /\ n = sched
                 hr1 == IF promote THEN rank ELSE hr
                 sc1 == IF promote THEN [r \in Ranks |-> IF r > rank THEN EmptySC ELSE sc[r]] ELSE sc
             IN  IF sc1[rank].votes[n] # "none" THEN
                     /\ ret' = [k |-> "add", v |-> "already_committed"]
                     /\ hr' = hr1
                     /\ sc' = [sc1 EXCEPT ![rank].on = TRUE]
                     /\ UNCHANGED acc
                 ELSE
                     /\ ret' = [k |-> "add", v |-> "ok"]
                     /\ hr' = hr1
                     /\ sc' = [sc1 EXCEPT ![rank] = [on |-> TRUE,
                                                    commit |-> IF n = sched THEN vote ELSE @.commit,
                                                    votes |-> [@.votes EXCEPT ![n] = vote]]]
                     /\ acc' = acc \cup {[n |-> n, sched |-> sched, vote |-> vote]}

Add ==
    /\ nadd < MaxAdds
    /\ \E n \in Nodes, sched \in Nodes, vote \in Votes :
          /\ ~(n = sched /\ vote = "F")     \* VerifyExecutorCommitment rejects a scheduler's own failure
          /\ AddOp(n, sched, vote)
          /\ nadd' = nadd + 1
          /\ hist' = Append(hist, [a |-> "add", n |-> n, sched |-> sched, vote |-> vote, ret |-> ret'.v])
    /\ UNCHANGED <<cfgvars, disc, declared, nproc>>

(***************************************************************************)
(* processCommitments.  The code iterates over the members and returns     *)
(* ErrDiscrepancyDetected as soon as the discrepancy condition holds; the  *)
(* condition is monotone in the iteration, so it is evaluated on totals.   *)
(***************************************************************************)
Count(f, dom, v) == Cardinality({n \in dom : f[n] = v})

ProcessOutcome(timeout) ==
    IF hr = NoRank \/ ~sc[hr].on THEN (IF timeout THEN "no_scheduler" ELSE "waiting")
    ELSE LET s      == sc[hr]
             group  == IF disc THEN SeqSet(B) ELSE SeqSet(W)
             total  == Cardinality(group)
             voted  == {n \in group : s.votes[n] # "none"}
             fails  == Count(s.votes, group, "F")
             hashes == {s.votes[n] : n \in voted} \ {"F"}
         IN  IF ~disc THEN
                 LET D == Cardinality(hashes) > 1 \/ fails > S IN
                 IF D /\ (hr = 0 \/ timeout) THEN "discrepancy"
                 ELSE IF D THEN "waiting"
                 ELSE LET got == IF hashes = {} THEN 0 ELSE Count(s.votes, group, CHOOSE h \in hashes : TRUE)
                          required == total - S - got
                      IN  IF required > 0 /\ timeout THEN "discrepancy"
                          ELSE IF required > 0 THEN "waiting"
                          ELSE "final"
             ELSE
                 LET required  == (total \div 2) + 1
                     remaining == total - Cardinality(voted)
                     best == IF hashes = {} THEN 0
                             ELSE CHOOSE b \in 0..total :
                                    /\ \E h \in hashes : Count(s.votes, group, h) = b
                                    /\ \A h \in hashes : Count(s.votes, group, h) <= b
                 IN  IF best + remaining < required THEN "insufficient"
                     ELSE IF best < required /\ timeout THEN "insufficient"
                     ELSE IF best < required THEN "waiting"
                     ELSE LET top == CHOOSE h \in hashes : Count(s.votes, group, h) = best IN
                          IF top # s.commit THEN "bad_scheduler" ELSE "final"

ProcessOp(timeout) ==
    LET out == ProcessOutcome(timeout) IN
    /\ ret' = [k |-> "process", v |-> out, timeout |-> timeout,
               sched |-> IF out = "final" THEN W[CHOOSE i \in DOMAIN W : RankOf(W, round, W[i]) = hr] ELSE "none",
               res |-> IF out = "final" THEN sc[hr].commit ELSE "none"]
    /\ IF out = "discrepancy"
       THEN /\ disc' = TRUE /\ declared' = TRUE
            /\ sc' = [r \in Ranks |-> IF r # hr THEN EmptySC ELSE sc[r]]
       ELSE UNCHANGED <<disc, declared, sc>>
    /\ UNCHANGED <<hr, acc>>

Process ==
    /\ nproc < MaxProc
    /\ \E timeout \in BOOLEAN :
          /\ ProcessOp(timeout)
          /\ nproc' = nproc + 1
          /\ hist' = Append(hist, [a |-> "process", timeout |-> timeout, ret |-> ret'.v,
                                   sched |-> ret'.sched, res |-> ret'.res])
    /\ UNCHANGED <<cfgvars, nadd>>

Next == Add \/ Process

Spec == Init /\ [][Next]_vars

-----------------------------------------------------------------------------
(* PoolOp => PoolRule, as action properties over every step.               *)

RuleFinal ==
    [][ (ret'.k = "process" /\ ret'.v = "final") =>
            FinalOK(acc, declared, W, B, S, round, ret'.sched, ret'.res) ]_vars

RuleAccept ==
    [][ (ret'.k = "add" /\ ret'.v = "ok") =>
            \E c \in acc' \ acc : AcceptOK(acc, W, B, c.n, c.sched) ]_vars

RuleTimeout ==
    [][ (ret'.k = "process") => TimeoutOK(ret'.timeout, ret'.v) ]_vars

(* The pool never forgets an accepted vote for the rank it is collecting.  *)
TypeOK ==
    /\ hr \in Ranks \cup {NoRank}
    /\ disc \in BOOLEAN
    /\ \A r \in Ranks : sc[r].on \in BOOLEAN

HighestRankIsBestCommitted ==
    LET own == {c \in acc : c.n = c.sched} IN
    IF own = {} THEN hr = NoRank
    ELSE \E c \in own : /\ hr = RankOf(W, round, c.sched)
                        /\ \A d \in own : hr <= RankOf(W, round, d.sched)
=============================================================================
