------------------------------ MODULE PoolRule ------------------------------
(***************************************************************************)
(* C11, declarative rule: when may a runtime round be finalized.           *)
(*                                                                         *)
(* Stated only over observables: the committee (ordered primary workers W, *)
(* ordered backup workers B, possibly overlapping), the round number, the  *)
(* straggler allowance S, the set `acc` of commitments the pool ACCEPTED   *)
(* (add returned no error) as records [n, sched, vote] with                *)
(* vote \in Results \cup {"F"}, whether a discrepancy has been declared,   *)
(* and the outcome of a processing call.                                   *)
(* Nothing here refers to how the pool stores votes.                       *)
(***************************************************************************)
EXTENDS Integers, Sequences, FiniteSets

SeqSet(s) == {s[i] : i \in DOMAIN s}

IndexOf(s, x) == CHOOSE i \in DOMAIN s : s[i] = x

(* Scheduler rank of worker n in round r: (r + position) mod |W|.          *)
RankOf(W, round, n) == (round + IndexOf(W, n) - 1) % Len(W)

Members(W, B) == SeqSet(W) \cup SeqSet(B)

Outcomes == {"final", "waiting", "discrepancy", "no_scheduler", "bad_scheduler", "insufficient"}

(* Finalizing result h proposed by scheduler `sched` is permitted iff ...  *)
FinalOK(acc, declared, W, B, S, round, sched, h) ==
    LET PV  == {c \in acc : c.sched = sched /\ c.n \in SeqSet(W)}
        BV  == {c \in acc : c.sched = sched /\ c.n \in SeqSet(B)}
        own == {c \in acc : c.n = c.sched}
    IN  /\ h # "F"
        /\ sched \in SeqSet(W)
        \* h is what the chosen scheduler itself committed to
        /\ \E c \in acc : c.n = sched /\ c.sched = sched /\ c.vote = h
        /\ \/ \* unanimity of the primary workers, allowing stragglers
              /\ \A c \in PV : c.vote \in {h, "F"}
              /\ Cardinality({c \in PV : c.vote = "F"}) <= S
              /\ Cardinality({c \in PV : c.vote = h}) >= Len(W) - S
           \/ \* after a declared discrepancy: strict majority of the backup workers
              /\ declared
              /\ 2 * Cardinality({c \in BV : c.vote = h}) > Len(B)
        \* no committed scheduler of better rank was passed over
        /\ \A c \in own : RankOf(W, round, sched) <= RankOf(W, round, c.sched)

(* An accepted commitment comes from a committee member, names a primary   *)
(* worker as scheduler, and is the node's first for that scheduler.        *)
AcceptOK(acc, W, B, n, sched) ==
    /\ n \in Members(W, B)
    /\ sched \in SeqSet(W)
    /\ ~\E c \in acc : c.n = n /\ c.sched = sched

(* A processing call with the round timer expired never just waits.        *)
TimeoutOK(timeout, outcome) == timeout => outcome # "waiting"

=============================================================================
