SPECIFICATION Spec
CONSTANTS
  Nodes <- NodesDef
  Committees <- CommitteesFull
  Rounds = {0, 1}
  Stragglers = {0, 1}
  Results = {"A", "B"}
  MaxAdds = 3
  MaxProc = 3
VIEW genview
INVARIANTS EmitInv
CHECK_DEADLOCK FALSE
