SPECIFICATION Spec
CONSTANTS
  Nodes <- NodesDef
  Committees <- CommitteesQuick
  Rounds = {0, 1}
  Stragglers = {0, 1}
  Results = {"A", "B"}
  MaxAdds = 4
  MaxProc = 3
VIEW view
INVARIANTS TypeOK HighestRankIsBestCommitted
PROPERTIES RuleFinal RuleAccept RuleTimeout
CHECK_DEADLOCK FALSE
