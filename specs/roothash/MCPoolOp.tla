------------------------------ MODULE MCPoolOp ------------------------------
EXTENDS PoolOp, Json

NodesDef == {"n1", "n2", "n3", "n4", "x"}

C(w, b) == [w |-> w, b |-> b]

\* committee shapes: primary 1..3, backup 0..3, overlapping roles (n3 / n2 both worker and backup)
CommitteesQuick == {
    C(<<"n1">>, <<>>), C(<<"n1">>, <<"n2">>),
    C(<<"n1", "n2">>, <<"n3">>), C(<<"n1", "n2">>, <<"n2", "n3">>) }

CommitteesFull == CommitteesQuick \cup {
    C(<<"n1", "n2">>, <<>>),
    C(<<"n1", "n2", "n3">>, <<"n4">>),
    C(<<"n1", "n2", "n3">>, <<"n3", "n4">>),
    C(<<"n1", "n2", "n3">>, <<"n2", "n3", "n4">>),
    C(<<"n1", "n2">>, <<"n3", "n4", "n1">>) }

EmitInv == (hist # <<>>) =>
    PrintT(ToJson([w |-> W, b |-> B, s |-> S, round |-> round, ops |-> hist]))
=============================================================================
