SPECIFICATION Spec
CONSTANTS
  NodeSeq <- N3
  Ents <- E2
  GroupSizes <- G02
  MaxNodesVals <- M01
  MinPoolVals <- P02
INVARIANTS SomeRefused
CHECK_DEADLOCK FALSE
