---- MODULE MCElection ----
EXTENDS Election
E3 == {"e1", "e2", "e3"}
N4 == {"n1", "n2", "n3", "n4"}
====
