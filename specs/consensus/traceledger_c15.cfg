SPECIFICATION TraceSpec
CONSTANTS
  Props = {"C15"}
INVARIANTS RuleHolds
POSTCONDITION TraceAccepted
CHECK_DEADLOCK FALSE
