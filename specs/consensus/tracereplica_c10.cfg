SPECIFICATION TraceSpec
CONSTANTS
  Props = {"C10"}
INVARIANTS RuleHolds
POSTCONDITION TraceAccepted
CHECK_DEADLOCK FALSE
