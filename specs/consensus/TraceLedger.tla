---------------------------- MODULE TraceLedger ----------------------------
(***************************************************************************)
(* Trace validation of the observer replica's record (harness `cons-run`)  *)
(* against the rules of C05 (conservation, share sums, monotone supply),   *)
(* C08 (a failed transaction changes fee and nonce only), C09 (only        *)
(* authentic, correctly sequenced transactions execute, once) and C15      *)
(* (share fairness, debonding timing) evaluated on the REAL recorded       *)
(* states.  `bad` names the first broken clause; `drift` counts successful *)
(* transactions whose post-state differs from the transcribed Op.          *)
(*                                                                         *)
(* Events: begin_chain | block | begin (state after BeginBlock) | tx       *)
(* (state after DeliverTx, raw-key diff size, independent envelope         *)
(* verdict) | end (state after EndBlock) | everything else is skipped.     *)
(***************************************************************************)
EXTENDS Ledger, Json

CONSTANT Props   \* the properties whose clauses are evaluated, e.g. {"C05"} or {"C05", "C08", "C09", "C15"}

Trace == ndJsonDeserialize("trace.ndjson")

VARIABLES l, L, haveL, fees, executed, epoch, bad, drift,
          echg,     \* the epoch changed in the block being processed
          rejfee,   \* the block contains a transaction rejected at authentication that declared a non-zero fee
          dbi       \* the chain's debonding interval (epochs), from its begin_chain event

tvars == <<l, L, haveL, fees, executed, epoch, bad, drift, echg, rejfee, dbi>>

Relevant == {"begin_chain", "begin", "tx", "end"}

Empty == [supply |-> 0, common |-> 0, lastfees |-> 0, govdep |-> 0, acc |-> <<>>, del |-> <<>>, deb |-> <<>>]

TraceInit ==
    /\ l = 1 /\ L = Empty /\ haveL = FALSE /\ fees = 0 /\ executed = {} /\ epoch = 0
    /\ bad = "none" /\ drift = 0 /\ echg = FALSE /\ rejfee = FALSE /\ dbi = 1

Ev == Trace[l]
Is(e) == l <= Len(Trace) /\ Ev.ev = e /\ l' = l + 1

Flag(cond, name) == IF bad = "none" /\ ~cond THEN name ELSE bad

(* first failing clause of a list of <<condition, name>> pairs *)
RECURSIVE FirstBad(_)
FirstBad(cs) == IF cs = <<>> THEN "none"
                ELSE IF Head(cs)[2] \in Props /\ ~Head(cs)[1] THEN Head(cs)[2] \o ": " \o Head(cs)[3]
                ELSE FirstBad(Tail(cs))

SetBad(cs) == bad' = IF bad # "none" THEN bad ELSE FirstBad(cs)

TrSkip ==
    /\ l <= Len(Trace) /\ Ev.ev \notin Relevant /\ l' = l + 1
    /\ UNCHANGED <<L, haveL, fees, executed, epoch, bad, drift, echg, rejfee, dbi>>

TrChain ==
    /\ Is("begin_chain")
    /\ L' = Empty /\ haveL' = FALSE /\ fees' = 0 /\ executed' = {} /\ epoch' = 0 /\ echg' = FALSE /\ rejfee' = FALSE
    /\ dbi' = IF "debond" \in DOMAIN Ev THEN Ev.debond ELSE 1
    /\ UNCHANGED <<bad, drift>>

DebSet(M) == {M.deb[i] : i \in DOMAIN M.deb}
(* entry x (delegator, escrow, shares, end) is still queued in M, possibly merged with a later reclaim for the same end epoch *)
StillQueued(x, M) == \E y \in DebSet(M) : y[1] = x[1] /\ y[2] = x[2] /\ y[4] = x[4] /\ y[3] >= x[3]

(* state after BeginBlock: fee disbursement, rewards, slashing, debonding all happen here *)
TrBegin ==
    /\ Is("begin")
    /\ LET M == Ev.state IN
       /\ L' = M /\ haveL' = TRUE /\ fees' = 0 /\ epoch' = Ev.epoch
       /\ SetBad(<<
            <<ConservedMid(M, 0), "C05", "conservation after BeginBlock">>,
            <<SharesOK(M), "C05", "share sums after BeginBlock">>,
            <<NonNegative(M), "C05", "negative balance after BeginBlock">>,
            <<haveL => M.supply = L.supply, "C05", "supply changed in BeginBlock">>,
            <<haveL => DebSet(M) = DebSet(L), "C15", "debonding queue changed in BeginBlock">>,
            \* C15 F5: share prices fall only when misbehaviour was slashed in this block
            <<(haveL /\ ~Ev.slashed) => PriceNotFalling(L, M), "C15", "share price fell without slashing">>
          >>)
    /\ rejfee' = FALSE
    /\ echg' = (haveL /\ Ev.epoch # epoch)
    /\ UNCHANGED <<executed, drift, dbi>>

Nonce(M, a) == IF a \in DOMAIN M.acc THEN M.acc[a].n ELSE 0
Gen(M, a) == IF a \in DOMAIN M.acc THEN M.acc[a].g ELSE 0

(* everything of M equals L except the general balance and nonce of account a *)
OnlyFeeAndNonce(M, a) ==
    /\ M.supply = L.supply /\ M.common = L.common /\ M.govdep = L.govdep /\ M.lastfees = L.lastfees
    /\ M.del = L.del /\ M.deb = L.deb
    /\ DOMAIN M.acc = DOMAIN L.acc \cup {a}
    /\ \A x \in DOMAIN L.acc \ {a} : M.acc[x] = L.acc[x]
    /\ (a \in DOMAIN L.acc) => [M.acc[a] EXCEPT !.g = 0, !.n = 0] = [L.acc[a] EXCEPT !.g = 0, !.n = 0]

TrTx ==
    /\ Is("tx")
    /\ LET M    == Ev.state
           sys  == Ev.spec.kind = "system"
           dec  == Ev.env.decodable
           s    == IF dec THEN Ev.env.signer ELSE "none"
           fee  == IF dec THEN Ev.env.fee ELSE 0
           adv  == dec /\ Nonce(M, s) = Nonce(L, s) + 1          \* authentication passed: nonce consumed
           same == dec => Nonce(M, s) = Nonce(L, s)
           ok   == Ev.code = 0
           paid == IF adv THEN fee ELSE 0
           burn == IF ok /\ ~sys /\ Ev.spec.kind = "burn" THEN Ev.spec.amount ELSE 0
       IN
       /\ L' = M
       /\ fees' = fees + paid
       /\ executed' = IF adv THEN executed \cup {Ev.id} ELSE executed
       /\ SetBad(<<
            <<ConservedMid(M, fees + paid), "C05", "conservation after transaction">>,
            <<SharesOK(M), "C05", "share sums after transaction">>,
            <<NonNegative(M), "C05", "negative balance after transaction">>,
            <<M.supply = L.supply - burn, "C05", "supply changed by other than the burned amount">>,
            \* C09
            <<sys \/ ~ok \/ (dec /\ Ev.env.sig_ok), "C09", "executed without a valid signature for this chain and domain">>,
            <<sys \/ ~ok \/ (dec /\ Ev.env.nonce_tx = Nonce(L, s)), "C09", "executed with a nonce other than the account's current one">>,
            <<sys \/ ~ok \/ adv, "C09", "executed without advancing the nonce by one">>,
            <<sys \/ adv \/ same, "C09", "nonce changed by other than one">>,
            <<\A a \in DOMAIN L.acc \ {s} : Nonce(M, a) = Nonce(L, a), "C09", "nonce of another account changed">>,
            <<(dec /\ ~Ev.env.sig_ok) => Ev.nraw = 0, "C09", "unauthentic bytes changed the state">>,
            <<(~dec) => Ev.nraw = 0, "C09", "undecodable bytes changed the state">>,
            \* the same bytes on the replicas that proposed / validated the proposal / replayed / restarted
            <<("codes_other" \in DOMAIN Ev /\ (~dec \/ ~Ev.env.sig_ok)) => \A i \in DOMAIN Ev.codes_other : Ev.codes_other[i] # 0,
              "C09", "unauthentic or undecodable bytes executed on a replica that took another execution path">>,
            <<adv => Ev.id \notin executed, "C09", "the same signed bytes took effect twice">>,
            <<(~sys /\ Ev.nraw > 0) => adv, "C09", "bytes changed the state without consuming the signer's nonce (they stay replayable)">>,
            \* C08
            <<(~ok /\ ~adv) => Ev.nraw = 0, "C08", "transaction rejected at authentication changed the state">>,
            <<(~ok /\ adv) => (Ev.nraw = 1 /\ OnlyFeeAndNonce(M, s) /\ Gen(M, s) = Gen(L, s) - fee),
              "C08", "failed transaction changed more than fee and nonce">>,
            \* C15
            <<(ok /\ ~sys /\ Ev.spec.kind = "escrow" /\ Ev.spec.to \in DOMAIN L.acc) =>
                 DepositFair(L, M, s, Ev.spec.to, Ev.spec.amount), "C15", "deposit not fair">>,
            <<(ok /\ ~sys /\ Ev.spec.kind = "reclaim" /\ Ev.spec.to \in DOMAIN L.acc) =>
                 ReclaimFair(L, M, s, Ev.spec.to, Ev.spec.amount), "C15", "reclaim not fair">>,
            \* (runtime equivocation evidence slashes an escrow inside a transaction)
            <<sys \/ (ok /\ Ev.spec.kind = "rhevidence") \/ (ok /\ Ev.spec.kind = "mutated" /\ Ev.spec.gov = "roothash.Evidence")
                 \/ PriceNotFalling(L, M), "C15", "share price fell in a transaction">>,
            <<\A x \in DebSet(L) : StillQueued(x, M), "C15", "debonding entry removed by a transaction">>,
            \* a reclaim queues its claim until the epoch in which it runs + the debonding interval (the epoch of the block as the
            \* beacon reports it after BeginBlock: a reclaim in the first block of an epoch belongs to the new epoch)
            <<(ok /\ ~sys /\ Ev.spec.kind = "reclaim") =>
                 \A y \in DebSet(M) : (y[1] = s /\ y \notin DebSet(L)) => y[4] = epoch + dbi,
              "C15", "a reclaim queued its claim for another epoch than the current one plus the debonding interval">>
          >>)
       \* Op refinement (drift only)
       /\ drift' = drift +
            (IF ok /\ ~sys /\ dec /\ Ev.spec.kind = "transfer" /\ Ev.spec.to \in DOMAIN L.acc /\ s \in DOMAIN L.acc
             THEN (IF M = [Transfer(L, s, Ev.spec.to, Ev.spec.amount) EXCEPT !.acc[s].n = @ + 1, !.acc[s].g = @ - fee] THEN 0 ELSE 1)
             ELSE IF ok /\ ~sys /\ dec /\ Ev.spec.kind = "burn" /\ s \in DOMAIN L.acc
             THEN (IF M = [Burn(L, s, Ev.spec.amount) EXCEPT !.acc[s].n = @ + 1, !.acc[s].g = @ - fee] THEN 0 ELSE 1)
             ELSE 0)
    /\ rejfee' = (rejfee \/ (Ev.env.decodable /\ Ev.env.fee > 0 /\ Ev.code # 0
                              /\ Nonce(Ev.state, Ev.env.signer) = Nonce(L, Ev.env.signer)))
    /\ UNCHANGED <<haveL, epoch, echg, dbi>>

TrEnd ==
    /\ Is("end")
    /\ LET M == Ev.state IN
       /\ L' = M /\ fees' = 0
       /\ SetBad(<<
            <<Conserved(M, 0), "C05", "conservation at block boundary">>,
            \* C08: the fee of a transaction rejected before execution is charged to nobody, so it may not be paid out either:
            \* the accumulator lives in the block context, so this only shows when the block's fees are persisted
            <<rejfee => Conserved(M, 0), "C08",
              "conservation broken at the end of a block that carries a transaction rejected at authentication with a non-zero fee">>,
            \* the proposer's share is paid out in EndBlock, the rest is carried to the next block
            <<M.lastfees <= fees, "C05", "fees carried to the next block exceed the fees charged">>,
            <<SharesOK(M), "C05", "share sums at block boundary">>,
            <<NonNegative(M), "C05", "negative balance at block boundary">>,
            <<M.supply = L.supply, "C05", "supply changed in EndBlock">>,
            \* C15 F6: debonding completes in EndBlock: an entry leaves the queue exactly in the first block whose epoch >= its end
            \* (with a debonding interval of 0 an entry created during epoch e ends at e and is due at the NEXT transition)
            <<\A x \in DebSet(M) : x[4] >= epoch /\ (echg => x[4] > epoch), "C15",
              "debonding entry not paid at the first epoch transition at or after its end epoch">>,
            <<\A x \in DebSet(L) : StillQueued(x, M) \/ x[4] <= epoch, "C15", "debonding entry paid before its end epoch">>,
            \* C15 F7: a delegator whose debonding entries complete in this EndBlock is credited at least their value at the
            \* price of the pools before EndBlock, rounded down per entry (withdrawals one after the other never lower a pool's
            \* price; fee shares and returned deposits only add).  Not judged when an active pool shrank in EndBlock (a slash by
            \* another application may precede the payout) or an escrow account of a completed entry has no active pool.
            <<LET done == {x \in DebSet(L) : ~StillQueued(x, M)}
                  ok(x) == x[1] \in DOMAIN L.acc /\ x[2] \in DOMAIN L.acc /\ x[1] \in DOMAIN M.acc /\ L.acc[x[2]].ds > 0 /\ L.acc[x[2]].ab > 0
                  val(x) == (x[3] * L.acc[x[2]].db) \div L.acc[x[2]].ds
                  quiet == \A a \in DOMAIN L.acc : a \in DOMAIN M.acc /\ M.acc[a].ab >= L.acc[a].ab
              IN (quiet /\ \A x \in done : ok(x)) =>
                     \A d \in {x[1] : x \in done} :
                         Gen(M, d) - Gen(L, d) >= FoldSet(LAMBDA x, t : t + val(x), 0, {x \in done : x[1] = d}),
              "C15", "a delegator whose debonding completed was credited less than the entries were worth">>
          >>)
    /\ UNCHANGED <<haveL, executed, epoch, drift, echg, rejfee, dbi>>

TraceNext == TrSkip \/ TrChain \/ TrBegin \/ TrTx \/ TrEnd
TraceSpec == TraceInit /\ [][TraceNext]_tvars

RuleHolds == bad = "none"
TraceAccepted == TLCGet("stats").diameter - 1 = Len(Trace)
=============================================================================
