SPECIFICATION TraceSpec
CONSTANTS
  Props = {"C08"}
INVARIANTS RuleHolds
POSTCONDITION TraceAccepted
CHECK_DEADLOCK FALSE
