----------------------------- MODULE Committee -----------------------------
(***************************************************************************)
(* C14, runtime committees: transcription of electCommitteeMembers          *)
(* (go/consensus/cometbft/apps/scheduler/shuffle.go, the entropy path used  *)
(* with the insecure beacon: pre-election filter, per-entity de-duplication *)
(* in node-list order, minimum pool size, permutation by per-epoch entropy, *)
(* traversal with the per-entity counter) checked against the declarative   *)
(* committee rule that TraceElection evaluates on real elections:           *)
(*   CM1 every member is an eligible node for its role                      *)
(*   CM2 a committee has exactly GroupSize workers and GroupBackupSize      *)
(*       backup workers - or there is no committee at all                   *)
(*   CM3 no entity has more members in a role than MaxNodes allows          *)
(*   CM4 a committee exists only if every role's candidate pool (after      *)
(*       per-entity de-duplication) reaches MinPoolSize                     *)
(*   CM5 no node is elected twice into the same role                        *)
(* The entropy is abstracted to "any permutation": the rule must hold for   *)
(* every one (determinism for a given entropy is checked on real replicas). *)
(***************************************************************************)
EXTENDS Integers, Sequences, FiniteSets, TLC

CONSTANTS NodeSeq,      \* the registry's node list, in its (deterministic) iteration order
          Ents,         \* entities
          GroupSizes,   \* candidate committee sizes per role, e.g. 0..2
          MaxNodesVals, \* MaxNodes limits (0 = constraint not set)
          MinPoolVals   \* MinPoolSize limits

Nodes == {NodeSeq[i] : i \in DOMAIN NodeSeq}
Roles == <<"worker", "backup">>
RoleSet == {"worker", "backup"}

VARIABLES w,      \* the world: registry, staking and runtime descriptor as the election reads them
          stage,  \* "init" | "worker" | "backup" | "done"
          res     \* [role -> <<elected sequence>>] so far, or failed = TRUE
vars == <<w, stage, res>>

(* first-occurrence canonical entity assignment: entity names are interchangeable *)
EntOrder == CHOOSE s \in [1..Cardinality(Ents) -> Ents] : \A i, j \in DOMAIN s : i # j => s[i] # s[j]
Canonical(ent) ==
    \A i \in DOMAIN NodeSeq :
        LET e == ent[NodeSeq[i]]
            k == CHOOSE x \in DOMAIN EntOrder : EntOrder[x] = e
        IN  \A x \in 1..(k - 1) : \E j \in 1..(i - 1) : ent[NodeSeq[j]] = EntOrder[x]

InitWorld ==
    \E ent \in {f \in [Nodes -> Ents] : Canonical(f)},
       suit \in [Nodes -> BOOLEAN],           \* compute role, runtime + active version listed, not frozen / expired / suspended, TEE ok
       stake \in [Ents -> BOOLEAN],           \* the entity's escrow covers all its stake claims
       isval \in [Ents -> BOOLEAN],           \* the entity has a node in the validator set just elected
       size \in [RoleSet -> GroupSizes],
       maxn \in [RoleSet -> MaxNodesVals],
       minp \in [RoleSet -> MinPoolVals],
       vs \in [RoleSet -> BOOLEAN] :
         w = [ent |-> ent, suit |-> suit, stake |-> stake, isval |-> isval, size |-> size, maxn |-> maxn, minp |-> minp, vs |-> vs]

-----------------------------------------------------------------------------
(* OP: the transcription *)

(* pre-election eligibility of node n for role r *)
PreEligible(W, n, r) ==
    /\ W.stake[W.ent[n]]
    /\ W.suit[n]
    /\ W.size[r] # 0
    /\ (W.vs[r] => W.isval[W.ent[n]])

NodesPerRole(W, r) == SelectSeq(NodeSeq, LAMBDA n : PreEligible(W, n, r))

(* dedupEntityNodesTrivial: the first `limit` nodes of every entity, in list order *)
RECURSIVE Dedup(_, _, _, _)
Dedup(W, s, limit, cnt) ==
    IF s = <<>> THEN <<>>
    ELSE LET n == Head(s) e == W.ent[n] IN
         IF cnt[e] >= limit THEN Dedup(W, Tail(s), limit, cnt)
         ELSE <<n>> \o Dedup(W, Tail(s), limit, [cnt EXCEPT ![e] = @ + 1])

Pool(W, r) ==
    LET s == NodesPerRole(W, r) IN
    IF W.maxn[r] > 0 THEN Dedup(W, s, W.maxn[r], [e \in Ents |-> 0]) ELSE s

(* traversal of the permuted candidate list with the per-entity counter; "fail" if a candidate exceeds MaxNodes *)
RECURSIVE Traverse(_, _, _, _, _, _)
Traverse(W, r, cand, idxs, elected, cnt) ==
    IF idxs = <<>> \/ Len(elected) >= W.size[r] THEN [ok |-> TRUE, el |-> elected]
    ELSE LET n == cand[Head(idxs)] e == W.ent[n] IN
         IF W.maxn[r] > 0 /\ cnt[e] >= W.maxn[r] THEN [ok |-> FALSE, el |-> <<>>]
         ELSE Traverse(W, r, cand, Tail(idxs), Append(elected, n),
                       IF W.maxn[r] > 0 THEN [cnt EXCEPT ![e] = @ + 1] ELSE cnt)

Perms(k) == {p \in [1..k -> 1..k] : \A i, j \in 1..k : i # j => p[i] # p[j]}

(* one role: <<ok, elected>> for permutation p of the pool *)
ElectRole(W, r, p) ==
    LET cand == Pool(W, r)
        nr == Len(cand)
    IN  IF nr < W.minp[r] THEN [ok |-> FALSE, el |-> <<>>]
        ELSE IF W.size[r] > nr THEN [ok |-> FALSE, el |-> <<>>]
        ELSE LET t == Traverse(W, r, cand, p, <<>>, [e \in Ents |-> 0]) IN
             IF ~t.ok \/ Len(t.el) # W.size[r] THEN [ok |-> FALSE, el |-> <<>>] ELSE t

NoCommittee == [failed |-> TRUE, worker |-> <<>>, backup |-> <<>>]

Init == InitWorld /\ stage = "init" /\ res = [failed |-> FALSE, worker |-> <<>>, backup |-> <<>>]

Start ==
    /\ stage = "init"
    /\ IF w.size["worker"] = 0 THEN res' = NoCommittee /\ stage' = "done"      \* "empty committee not allowed"
       ELSE res' = res /\ stage' = "worker"
    /\ UNCHANGED w

Role(r, nxt) ==
    /\ stage = r
    /\ IF w.size[r] = 0 THEN res' = res /\ stage' = nxt                        \* role skipped
       ELSE \E p \in Perms(Len(Pool(w, r))) :
              LET x == ElectRole(w, r, p) IN
              IF x.ok THEN res' = [res EXCEPT ![r] = x.el] /\ stage' = nxt
              ELSE res' = NoCommittee /\ stage' = "done"
    /\ UNCHANGED w

Next == Start \/ Role("worker", "backup") \/ Role("backup", "done")
Spec == Init /\ [][Next]_vars

-----------------------------------------------------------------------------
(* RULE (the clauses of TraceElection, stated over the world and the outcome) *)

SeqSet(s) == {s[i] : i \in DOMAIN s}

Eligible(W, n, r) == W.suit[n] /\ W.stake[W.ent[n]] /\ (W.vs[r] => W.isval[W.ent[n]])

PoolSize(W, r) ==
    LET el == {n \in Nodes : Eligible(W, n, r)}
        per(e) == Cardinality({n \in el : W.ent[n] = e})
        capped(e) == IF W.maxn[r] > 0 /\ per(e) > W.maxn[r] THEN W.maxn[r] ELSE per(e)
        RECURSIVE Sum(_)
        Sum(S) == IF S = {} THEN 0 ELSE LET e == CHOOSE x \in S : TRUE IN capped(e) + Sum(S \ {e})
    IN  Sum(Ents)

RuleHolds(W, R) ==
    IF R.failed THEN R.worker = <<>> /\ R.backup = <<>>
    ELSE \A r \in RoleSet :
           LET el == R[r] IN
           /\ \A i \in DOMAIN el : Eligible(W, el[i], r)                                         \* CM1
           /\ Len(el) = W.size[r]                                                                 \* CM2
           /\ W.maxn[r] > 0 => \A e \in Ents : Cardinality({i \in DOMAIN el : W.ent[el[i]] = e}) <= W.maxn[r]   \* CM3
           /\ W.size[r] > 0 => PoolSize(W, r) >= W.minp[r]                                        \* CM4
           /\ Cardinality(SeqSet(el)) = Len(el)                                                   \* CM5

Rule == stage = "done" => RuleHolds(w, res)

(* the code's second MaxNodes check inside the traversal can never fire after the de-duplication *)
TraverseNeverFails ==
    \A r \in RoleSet : (stage = r /\ w.size[r] # 0) =>
        \A p \in Perms(Len(Pool(w, r))) :
            LET cand == Pool(w, r) IN
            (Len(cand) >= w.minp[r] /\ w.size[r] <= Len(cand)) => Traverse(w, r, cand, p, <<>>, [e \in Ents |-> 0]).ok

(* a committee is refused only for a stated reason: pool below MinPoolSize or smaller than the group *)
RefusedOnlyForCause ==
    (stage = "done" /\ res.failed) =>
        \/ w.size["worker"] = 0
        \/ \E r \in RoleSet : w.size[r] > 0 /\ (PoolSize(w, r) < w.minp[r] \/ PoolSize(w, r) < w.size[r])

(* anti-vacuity: committees with two roles are elected, refusals happen *)
SomeFull == ~(stage = "done" /\ ~res.failed /\ Len(res.worker) = 2 /\ Len(res.backup) = 2)
SomeRefused == ~(stage = "done" /\ res.failed /\ w.size["worker"] > 0)
=============================================================================
