SPECIFICATION Spec
CONSTANTS
  NodeSeq <- N4
  Ents <- E3
  GroupSizes <- G02
  MaxNodesVals <- M012
  MinPoolVals <- P03
INVARIANTS Rule TraverseNeverFails RefusedOnlyForCause
CHECK_DEADLOCK FALSE
