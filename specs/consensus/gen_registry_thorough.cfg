SPECIFICATION Spec
CONSTANTS
  Nodes <- N2
  KeyOrder <- K7
  UpdateOrder = "remove_then_insert"
  MaxOps = 5
VIEW genview
INVARIANTS EmitInv
CHECK_DEADLOCK FALSE
