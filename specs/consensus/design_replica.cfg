SPECIFICATION Spec
CONSTANTS
  Replicas <- R3
  MaxH = 2
INVARIANTS Agreement
CHECK_DEADLOCK FALSE
