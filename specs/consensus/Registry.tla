------------------------------ MODULE Registry ------------------------------
(***************************************************************************)
(* C17: node registration and the key index of the registry application    *)
(* (go/consensus/cometbft/apps/registry/state: SetNode / RemoveNode, and   *)
(* registry/api VerifyRegisterNodeArgs / VerifyNodeUpdate).                *)
(*                                                                         *)
(* A node has a fixed identity and consensus key and three rotatable keys  *)
(* (P2P, VRF, TLS).  keyMap maps every consensus/P2P/VRF/TLS key to the    *)
(* node it belongs to (NodeBySubKey).                                      *)
(*                                                                         *)
(* Op: Register(n, p2p, vrf, tls) with the code's admission check (each    *)
(* key unknown or already this node's; the four keys pairwise distinct;    *)
(* consensus key unchanged) and the index update.  UpdateOrder selects the *)
(* transcription: "code_at_pin" updates one key kind at a time - remove    *)
(* the old key if it changed, then insert the new one - in the order       *)
(* consensus, P2P, VRF, TLS (what the pinned tree does);                   *)
(* "remove_then_insert" removes all changed old keys first.                *)
(* Rule: K1 no key belongs to two registered nodes; K2 every registered     *)
(* node is found under each of its current keys.                           *)
(***************************************************************************)
EXTENDS Integers, Sequences, FiniteSets, TLC, Json

CONSTANTS Nodes,        \* node names
          KeyOrder,     \* sequence of the rotatable keys (fixes an order for symmetry breaking)
          UpdateOrder,  \* "code_at_pin" | "remove_then_insert"
          MaxOps

VARIABLES nodes,   \* nodes[n] = [reg, p2p, vrf, tls]   (consensus key of n is the constant <<"cons", n>>)
          keyMap,  \* key -> node or "none"
          hist,
          used,    \* keys used so far (symmetry breaking: fresh keys are taken in KeyOrder)
          prev     \* nodes before the last operation (generation: one behaviour per distinct (pre-state, operation) pair)
vars == <<nodes, keyMap, hist, used, prev>>

RotKeys == {KeyOrder[i] : i \in DOMAIN KeyOrder}
Cons(n) == "cons-" \o n
AllKeys == RotKeys \cup {Cons(n) : n \in Nodes}

Init ==
    /\ nodes = [n \in Nodes |-> [reg |-> FALSE, p2p |-> "none", vrf |-> "none", tls |-> "none"]]
    /\ keyMap = [k \in AllKeys |-> "none"]
    /\ hist = <<>>
    /\ prev = nodes
    /\ used = {}

(* key names are interchangeable: the fresh keys of one registration are the first unused ones, assigned in order *)
Canonical(p2p, vrf, tls) ==
    LET fresh == <<p2p, vrf, tls>>
        fidx == {i \in 1..3 : fresh[i] \notin used}
        unused == SelectSeq(KeyOrder, LAMBDA k : k \notin used)
        rank(i) == Cardinality({j \in fidx : j < i}) + 1
    IN \A i \in fidx : fresh[i] = unused[rank(i)]

Admissible(n, p2p, vrf, tls) ==
    /\ Cardinality({Cons(n), p2p, vrf, tls}) = 4
    /\ \A k \in {Cons(n), p2p, vrf, tls} : keyMap[k] \in {"none", n}

(* one key kind: remove the old mapping if the key changed, insert the new one *)
StepKind(km, n, old, new) ==
    LET km1 == IF old # "none" /\ old # new THEN [km EXCEPT ![old] = "none"] ELSE km
    IN [km1 EXCEPT ![new] = n]

SetNode(n, p2p, vrf, tls) ==
    LET o == nodes[n]
        oc == IF o.reg THEN Cons(n) ELSE "none"
    IN  IF UpdateOrder = "code_at_pin" THEN
            StepKind(StepKind(StepKind(StepKind(keyMap, n, oc, Cons(n)), n, o.p2p, p2p), n, o.vrf, vrf), n, o.tls, tls)
        ELSE
            LET olds == {o.p2p, o.vrf, o.tls} \ {"none"}
                km1 == [k \in AllKeys |-> IF k \in olds THEN "none" ELSE keyMap[k]]
            IN  [k \in AllKeys |-> IF k \in {Cons(n), p2p, vrf, tls} THEN n ELSE km1[k]]

Register(n, p2p, vrf, tls) ==
    /\ Admissible(n, p2p, vrf, tls)
    /\ Canonical(p2p, vrf, tls)
    /\ used' = used \cup {p2p, vrf, tls}
    /\ keyMap' = SetNode(n, p2p, vrf, tls)
    /\ nodes' = [nodes EXCEPT ![n] = [reg |-> TRUE, p2p |-> p2p, vrf |-> vrf, tls |-> tls]]
    /\ hist' = Append(hist, [a |-> "register", n |-> n, p2p |-> p2p, vrf |-> vrf, tls |-> tls])
    /\ prev' = nodes

(* expiry + removal (RemoveNode): all four index entries of the node go *)
Remove(n) ==
    /\ nodes[n].reg
    /\ keyMap' = [k \in AllKeys |-> IF k \in {Cons(n), nodes[n].p2p, nodes[n].vrf, nodes[n].tls} THEN "none" ELSE keyMap[k]]
    /\ nodes' = [nodes EXCEPT ![n] = [reg |-> FALSE, p2p |-> "none", vrf |-> "none", tls |-> "none"]]
    /\ hist' = Append(hist, [a |-> "remove", n |-> n])
    /\ prev' = nodes
    /\ UNCHANGED used

Next ==
    /\ Len(hist) < MaxOps
    /\ \/ \E n \in Nodes, p2p, vrf, tls \in RotKeys : Register(n, p2p, vrf, tls)
       \/ \E n \in Nodes : Remove(n)

Spec == Init /\ [][Next]_vars

KeysOf(n) == IF nodes[n].reg THEN {Cons(n), nodes[n].p2p, nodes[n].vrf, nodes[n].tls} ELSE {}

K1 == \A n, m \in Nodes : n # m => KeysOf(n) \cap KeysOf(m) = {}
K2 == \A n \in Nodes : \A k \in KeysOf(n) : keyMap[k] = n
K2b == \A k \in AllKeys : keyMap[k] # "none" => k \in KeysOf(keyMap[k])     \* no stale index entry

view == <<nodes, keyMap, used>>
LastOp == IF hist = <<>> THEN <<>> ELSE hist[Len(hist)]
genview == <<nodes, keyMap, LastOp, prev, used>>
EmitInv == (hist # <<>>) => PrintT(ToJson([ops |-> hist, expect |-> [nodes |-> nodes, keymap |-> keyMap]]))
=============================================================================
