SPECIFICATION Spec
CONSTANTS
  Nodes <- N2
  KeyOrder <- K7
  UpdateOrder = "remove_then_insert"
  MaxOps = 4
VIEW genview
INVARIANTS EmitInv
CHECK_DEADLOCK FALSE
