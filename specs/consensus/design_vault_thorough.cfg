SPECIFICATION MSpec
CONSTANTS
  Accts <- A2
  MaxH = 4
  Limits <- L3
  Intervals <- I3
  MaxNonce = 3
INVARIANTS VQuota PendingAtNonce
PROPERTIES VAuth VSusp VNonceStep
CHECK_DEADLOCK FALSE
