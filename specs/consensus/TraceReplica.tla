---------------------------- MODULE TraceReplica ----------------------------
(***************************************************************************)
(* C01 / C10 verdict over recorded runs: for every height the `agree`      *)
(* event lists, per replica, the ABCI path it took and what it reported    *)
(* (application state root, per-transaction results, validator updates as a *)
(* sorted set).  Rule C01: all replicas report the same.  Rule C10: no      *)
(* panic, no rejected honest proposal, PrepareProposal never fails.         *)
(***************************************************************************)
EXTENDS Integers, Sequences, FiniteSets, TLC, Json

CONSTANT Props

Trace == ndJsonDeserialize("trace.ndjson")

VARIABLES l, bad, lastH
tvars == <<l, bad, lastH>>

Ev == Trace[l]
TraceInit == l = 1 /\ bad = "none" /\ lastH = 0

Flag(prop, cond, name) == IF bad = "none" /\ prop \in Props /\ ~cond THEN prop \o ": " \o name ELSE bad

TrAgree ==
    /\ l <= Len(Trace) /\ Ev.ev = "agree" /\ l' = l + 1
    /\ LET rs == Ev.replicas
           same == \A i, j \in DOMAIN rs : /\ rs[i].apphash = rs[j].apphash
                                           /\ rs[i].txs = rs[j].txs
                                           /\ rs[i].valupd = rs[j].valupd
           nopanic == \A i \in DOMAIN rs : ~rs[i].panic
       IN bad' = IF bad # "none" THEN bad
                 ELSE IF "C10" \in Props /\ ~nopanic THEN "C10: a replica panicked while executing an accepted block"
                 ELSE IF "C01" \in Props /\ ~same THEN "C01: replicas disagree on state root / results / validator updates"
                 ELSE "none"
    /\ lastH' = Ev.h

TrBad(e, name) ==
    /\ l <= Len(Trace) /\ Ev.ev = e /\ l' = l + 1
    /\ bad' = Flag("C10", FALSE, name)
    /\ UNCHANGED lastH

(* a replica that joined by state sync (snapshot served by another replica, chunks in any order, possibly after a corrupted copy  *)
(* or with duplicates) and then executed the blocks decided since: same application hash at every height (C01), the restored     *)
(* state is the snapshot's (C12 at the consensus level), a corrupted chunk is never accepted, nothing panics (C10)               *)
SeqSet(s) == {s[i] : i \in DOMAIN s}
TrSync ==
    /\ l <= Len(Trace) /\ Ev.ev = "statesync" /\ l' = l + 1
    /\ LET e == Ev
           problem == "problem" \in DOMAIN e
           panicked == "panic" \in DOMAIN e
           accepted == e.offer = "ACCEPT"
           res == IF "results" \in DOMAIN e THEN SeqSet(e.results) ELSE {}
       IN bad' = IF bad # "none" \/ problem THEN bad
                 ELSE IF "C10" \in Props /\ panicked THEN "C10: state sync or catching up panicked"
                 ELSE IF "C01" \in Props /\ ~accepted THEN "C01: a snapshot of a decided height offered with its application hash was not accepted"
                 ELSE IF "C01" \in Props /\ "corrupt:ACCEPT" \in res THEN "C01: a corrupted snapshot chunk was accepted"
                 ELSE IF "C01" \in Props /\ \E r \in res : r \notin {"ACCEPT", "dup:ACCEPT", "corrupt:RETRY", "corrupt:REJECT_SNAPSHOT"}
                      THEN "C01: a genuine snapshot chunk was refused"
                 ELSE IF "C01" \in Props /\ ~panicked /\ (e.restored_height # e.snapshot \/ ~e.restored_app_ok)
                      THEN "C01: the state restored from the snapshot is not the snapshot's state"
                 ELSE IF "C01" \in Props /\ ~panicked /\ ~e.agree THEN "C01: a replica that joined by state sync computes another state than the others"
                 ELSE "none"
    /\ UNCHANGED lastH

(* An honest proposer's block was rejected by a replica: the proposer's execution of the block (which fixed the state root in  *)
(* the block metadata) and the replica's execution of the same block differ - a disagreement between replicas on identical     *)
(* input (C01), and a block that cannot be decided (C10).                                                                       *)
TrReject ==
    /\ l <= Len(Trace) /\ Ev.ev = "reject" /\ l' = l + 1
    /\ bad' = IF bad # "none" THEN bad
              ELSE IF "C10" \in Props THEN "C10: an honestly built proposal was rejected"
              ELSE IF "C01" \in Props THEN "C01: a replica rejected an honestly built proposal: its execution of the block differs from the proposer's"
              ELSE "none"
    /\ UNCHANGED lastH

TrChain == l <= Len(Trace) /\ Ev.ev = "begin_chain" /\ l' = l + 1 /\ lastH' = 0 /\ UNCHANGED bad

Known == {"agree", "panic", "reject", "prepare_failed", "begin_chain", "statesync"}
TrSkip == l <= Len(Trace) /\ Ev.ev \notin Known /\ l' = l + 1 /\ UNCHANGED <<bad, lastH>>

TraceNext ==
    \/ TrAgree \/ TrChain \/ TrSkip \/ TrSync
    \/ TrBad("panic", "block execution panicked")
    \/ TrReject
    \/ TrBad("prepare_failed", "PrepareProposal could not build a block from the submitted transactions")

TraceSpec == TraceInit /\ [][TraceNext]_tvars
RuleHolds == bad = "none"
TraceAccepted == TLCGet("stats").diameter - 1 = Len(Trace)
=============================================================================
