------------------------------- MODULE Replica -------------------------------
(***************************************************************************)
(* C01: the ABCI multiplexer's proposal cache (go/consensus/cometbft/abci/  *)
(* mux.go, state.go).  Every replica executes the decided block of each    *)
(* height along one of several paths and must report the results of         *)
(* executing exactly that block on exactly its own previous state:          *)
(*                                                                         *)
(*   propose             PrepareProposal (executes with an empty hash,      *)
(*                       caches) ; ProcessProposal (isEqual -> reuse, hash   *)
(*                       recorded) ; BeginBlock..Commit (cached results)      *)
(*   process             ProcessProposal (executes, caches) ; Begin..Commit *)
(*   replay              Begin..Commit without a proposal phase             *)
(*   other_then_process  ProcessProposal of a failed round's proposal, then  *)
(*                       ProcessProposal of the decided one                   *)
(*   other_then_begin    ProcessProposal of a failed round's proposal, then  *)
(*                       BeginBlock of the decided one (resetProposalIf-      *)
(*                       Changed must discard the cache)                      *)
(*   prepared_then_process / prepared_then_begin                            *)
(*                       the replica was the proposer of a failed round: it *)
(*                       ran PrepareProposal for its OWN block (executed    *)
(*                       with an empty hash and cached), then the decided   *)
(*                       block of a later round is somebody else's and      *)
(*                       reaches it as a proposal to validate, or directly  *)
(*                       as a block to execute (it learned of the decision  *)
(*                       without validating the proposal): the cache with   *)
(*                       the empty hash must not be taken for the decided   *)
(*                       block                                              *)
(*   restart_*           volatile state lost before the height, reload from  *)
(*                       disk                                                 *)
(* Exec(base, blk) is an uninterpreted deterministic function; a cached      *)
(* result remembers the (base, blk) it was computed from.                    *)
(***************************************************************************)
EXTENDS Integers, Sequences, FiniteSets, TLC, Json

CONSTANTS Replicas,     \* sequence of replica names (validators, each may propose)
          MaxH

Paths == {"process", "replay", "other_then_process", "other_then_begin", "prepared_then_process", "prepared_then_begin",
          "restart_process", "restart_replay"}

VARIABLES h,        \* height being executed (1..MaxH), MaxH+1 = done
          canon,    \* canon[r]: sequence of blocks applied by r
          cache,    \* cache[r]: <<>> or [hash, blk, base]   (proposalState)
          out,      \* out[r]: result reported for the last height
          rows      \* history: per height the row of paths (generation)

vars == <<h, canon, cache, out, rows>>

Rs == {Replicas[i] : i \in DOMAIN Replicas}

Exec(base, blk) == <<"result-of", base, blk>>

Block(hh, round) == <<"block", hh, round>>

Init ==
    /\ h = 1
    /\ canon = [r \in Rs |-> <<>>]
    /\ cache = [r \in Rs |-> <<>>]
    /\ out = [r \in Rs |-> <<>>]
    /\ rows = <<>>

(* what one replica does at height h with decided block d, failed-round block o, along path p *)
RunPath(r, p, d, o) ==
    LET c0 == IF p \in {"restart_process", "restart_replay"} THEN <<>> ELSE cache[r]     \* restart drops the cache
        \* ProcessProposal(b): reuse an executed proposal iff it is equal, else execute and cache
        Proc(c, b) == IF c # <<>> /\ c.blk = b /\ c.base = canon[r] THEN [c EXCEPT !.hash = b]
                      ELSE [hash |-> b, blk |-> b, base |-> canon[r]]
        c1 == CASE p = "propose" -> Proc([hash |-> <<>>, blk |-> d, base |-> canon[r]], d)
                [] p \in {"process", "restart_process"} -> Proc(c0, d)
                [] p = "other_then_process" -> Proc(Proc(c0, o), d)
                [] p = "other_then_begin" -> Proc(c0, o)
                [] p = "prepared_then_process" -> Proc([hash |-> <<>>, blk |-> o, base |-> canon[r]], d)
                [] p = "prepared_then_begin" -> [hash |-> <<>>, blk |-> o, base |-> canon[r]]
                [] OTHER -> c0
        \* BeginBlock(hash d): resetProposalIfChanged - cached results are used iff the cache is for this hash
        res == IF c1 # <<>> /\ c1.hash = d THEN Exec(c1.base, c1.blk) ELSE Exec(canon[r], d)
    IN res

Step ==
    /\ h <= MaxH
    /\ \E pi \in DOMAIN Replicas : \E f \in [Rs \ {Replicas[pi]} -> Paths] :
         LET d == Block(h, 0)
             o == Block(h, 1)
             path == [r \in Rs |-> IF r = Replicas[pi] THEN "propose" ELSE f[r]]
         IN /\ out' = [r \in Rs |-> RunPath(r, path[r], d, o)]
            /\ canon' = [r \in Rs |-> Append(canon[r], d)]
            /\ cache' = [r \in Rs |-> <<>>]          \* Commit closes the proposal
            /\ rows' = Append(rows, [i \in DOMAIN Replicas |-> path[Replicas[i]]])
    /\ h' = h + 1

Spec == Init /\ [][Step]_vars

(* R1: every replica reports the result of executing the decided block on its own previous state, and all agree *)
Agreement ==
    h > 1 =>
       /\ \A r \in Rs : out[r] = Exec(SubSeq(canon[r], 1, Len(canon[r]) - 1), canon[r][Len(canon[r])])
       /\ \A r, s \in Rs : out[r] = out[s] /\ canon[r] = canon[s]

view == <<h, canon, cache, out>>
genview == <<h, IF rows = <<>> THEN <<>> ELSE rows[Len(rows)]>>
EmitInv == (rows # <<>>) => PrintT(ToJson([row |-> rows[Len(rows)]]))
=============================================================================
