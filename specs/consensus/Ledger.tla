------------------------------- MODULE Ledger -------------------------------
(***************************************************************************)
(* The staking ledger of the consensus layer (go/consensus/cometbft/apps/  *)
(* staking), as a record                                                   *)
(*   [supply, common, lastfees, govdep,                                    *)
(*    acc : name -> [g (general balance), n (nonce), ab/as (active escrow  *)
(*                   balance / total shares), db/ds (debonding pool),      *)
(*                   allow : name -> amount],                              *)
(*    del : sequence of <<delegator, escrow account, shares>>,             *)
(*    deb : sequence of <<delegator, escrow account, shares, end epoch>>]  *)
(* which is exactly the projection the harness reads through the exported  *)
(* ImmutableState readers.                                                 *)
(*                                                                         *)
(* Rule operators (declarative, over observable state only):               *)
(*   Conserved(L, f)   I1: supply = all balances + pools + fee holdings    *)
(*   SharesOK(L)       I2: pool shares = sum of (debonding) delegations    *)
(* Op operators (transcriptions of transactions.go, exact floor division): *)
(*   Transfer, Burn, AddEscrow, ReclaimEscrow                              *)
(* SharePool fairness inequalities (C15): F1 - F5.                         *)
(***************************************************************************)
EXTENDS Integers, Sequences, FiniteSets, FiniteSetsExt, TLC

Names(L) == DOMAIN L.acc

RECURSIVE SumSeq(_, _)
SumSeq(s, i) == IF s = <<>> THEN 0 ELSE Head(s)[i] + SumSeq(Tail(s), i)

AccTotal(L) ==
    FoldSet(LAMBDA a, t : t + L.acc[a].g + L.acc[a].ab + L.acc[a].db, 0, Names(L))

(* I1 at a block boundary: everything is in the state, including the fees carried to the next block *)
Conserved(L, f) == L.supply = AccTotal(L) + L.common + L.govdep + L.lastfees + f

(* I1 inside a block: BeginBlock has disbursed the carried fees completely (the stored figure is only rewritten *)
(* by EndBlock), and f = fees collected so far in the running block, held in the block context.               *)
ConservedMid(L, f) == L.supply = AccTotal(L) + L.common + L.govdep + f

DelInto(L, e) == SelectSeq(L.del, LAMBDA x : x[2] = e)
DebInto(L, e) == SelectSeq(L.deb, LAMBDA x : x[2] = e)

SharesOK(L) ==
    \A e \in Names(L) :
        /\ L.acc[e].as = SumSeq(DelInto(L, e), 3)
        /\ L.acc[e].ds = SumSeq(DebInto(L, e), 3)

NonNegative(L) ==
    /\ L.supply >= 0 /\ L.common >= 0 /\ L.govdep >= 0 /\ L.lastfees >= 0
    /\ \A a \in Names(L) : L.acc[a].g >= 0 /\ L.acc[a].ab >= 0 /\ L.acc[a].db >= 0 /\ L.acc[a].as >= 0 /\ L.acc[a].ds >= 0

Shares(L, d, e) == LET xs == SelectSeq(L.del, LAMBDA x : x[1] = d /\ x[2] = e) IN IF xs = <<>> THEN 0 ELSE xs[1][3]

(* redeemable value of delegator d in the active pool of e: floor(sh * B / T) *)
Worth(L, d, e) == IF L.acc[e].as = 0 THEN 0 ELSE (Shares(L, d, e) * L.acc[e].ab) \div L.acc[e].as

Delegators(L, e) == {x[1] : x \in {L.del[i] : i \in DOMAIN L.del}}

-----------------------------------------------------------------------------
(* C15 fairness of one deposit of `a` base units by d into pool e, between ledgers L (before) and M (after). *)
DepositFair(L, M, d, e, a) ==
    LET B == L.acc[e].ab   T == L.acc[e].as
        s == M.acc[e].as - T
    IN  /\ M.acc[e].ab = B + a
        /\ s >= 0
        /\ IF T = 0 THEN s = a ELSE s * B <= a * T                                  \* F1 mint at most pro rata
        /\ \A o \in Delegators(L, e) \ {d} : Worth(M, o, e) >= Worth(L, o, e)       \* F3 nobody else loses
        /\ Worth(M, d, e) <= Worth(L, d, e) + a                                      \* F4 the depositor gains nothing

(* debonding shares queued for delegator d in pool e (all end epochs) *)
DebShares(L, d, e) == SumSeq(SelectSeq(L.deb, LAMBDA x : x[1] = d /\ x[2] = e), 3)
DebDelegators(L, e) == {L.deb[i][1] : i \in {j \in DOMAIN L.deb : L.deb[j][2] = e}}

(* C15 fairness of one reclaim of s shares by d from pool e (value moves to e's debonding pool). *)
ReclaimFair(L, M, d, e, s) ==
    LET B == L.acc[e].ab   T == L.acc[e].as
        p == B - M.acc[e].ab                       \* base units leaving the active pool
        DB == L.acc[e].db  DT == L.acc[e].ds
        ds == M.acc[e].ds - DT                     \* debonding shares minted
    IN  /\ M.acc[e].as = T - s
        /\ p >= 0 /\ p * T <= s * B                                                  \* F2 pay at most pro rata
        /\ M.acc[e].db = DB + p
        /\ IF DT = 0 THEN ds = p ELSE ds * DB <= p * DT                              \* F1 on the debonding pool
        /\ \A o \in Delegators(L, e) \ {d} : Worth(M, o, e) >= Worth(L, o, e)       \* F3
        /\ p + Worth(M, d, e) <= Worth(L, d, e)                                      \* F4
        \* the reclaimer is credited exactly the debonding shares minted (several reclaims in one epoch merge into one entry),
        \* nobody else's queued claim changes
        /\ DebShares(M, d, e) = DebShares(L, d, e) + ds
        /\ \A o \in (DebDelegators(L, e) \cup DebDelegators(M, e)) \ {d} : DebShares(M, o, e) = DebShares(L, o, e)

(* F5: between two ledgers without slashing no pool's share price falls. *)
PriceNotFalling(L, M) ==
    \A e \in Names(L) \cap Names(M) :
        /\ (L.acc[e].as > 0 /\ M.acc[e].as > 0) => M.acc[e].ab * L.acc[e].as >= L.acc[e].ab * M.acc[e].as
        /\ (L.acc[e].ds > 0 /\ M.acc[e].ds > 0) => M.acc[e].db * L.acc[e].ds >= L.acc[e].db * M.acc[e].ds

-----------------------------------------------------------------------------
(* Op: transcriptions used for the refinement (drift) check of successful transactions. *)
SetAcc(L, a, f, v) == [L EXCEPT !.acc[a][f] = v]

Transfer(L, from, to, amt) ==
    IF from = to THEN L
    ELSE [L EXCEPT !.acc[from].g = @ - amt, !.acc[to].g = @ + amt]

Burn(L, from, amt) == [L EXCEPT !.acc[from].g = @ - amt, !.supply = @ - amt]
=============================================================================
