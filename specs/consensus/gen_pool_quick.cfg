SPECIFICATION PoolSpec
CONSTANTS
  Accts <- A3
  Escrows <- E1
  MaxAmt = 3
  MaxSteps = 6
VIEW genview
INVARIANTS EmitInv
CHECK_DEADLOCK FALSE
