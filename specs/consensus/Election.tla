------------------------------ MODULE Election ------------------------------
(***************************************************************************)
(* C14 design model: the validator election of                              *)
(* go/consensus/cometbft/apps/scheduler (electValidators) transcribed as    *)
(* an operation over a small registry, and the declarative rule it must     *)
(* satisfy for EVERY tie-break order.                                       *)
(*   Op: keep nodes that are validators, unexpired, not frozen and whose    *)
(*       entity's escrow covers its claims; order entities by descending    *)
(*       stake (ties in any order); walk the order taking at most           *)
(*       MaxPerEntity nodes per entity until MaxValidators are taken;       *)
(*       power = stake div PowerUnit (at least 1).                          *)
(***************************************************************************)
EXTENDS Integers, Sequences, FiniteSets, SequencesExt, TLC

CONSTANTS Entities, NodeIds, MaxStake, MaxV, MaxPerEntity, PowerUnit

VARIABLES reg, order, done
vars == <<reg, order, done>>
\* reg: [stake: Entities -> 0..MaxStake, claims: Entities -> 0..MaxStake,
\*       node: NodeIds -> [ent, validator, expired, frozen]]

\* `ok` abstracts (validator role /\ not expired /\ not frozen); claims are 0 or 1 so that stakes at, below and above them occur
Regs == [stake : [Entities -> 0..MaxStake], claims : [Entities -> 0..1],
         node : [NodeIds -> [ent : Entities, ok : BOOLEAN]]]

Eligible(r, n) == LET x == r.node[n] IN x.ok /\ r.stake[x.ent] >= r.claims[x.ent]

(* all orders of the entities that are non-increasing in stake *)
PermSeqs(S) == {p \in [1..Cardinality(S) -> S] : \A i, j \in DOMAIN p : i # j => p[i] # p[j]}
Orders(r) == {p \in PermSeqs(Entities) : \A i \in 1..(Len(p) - 1) : r.stake[p[i]] >= r.stake[p[i + 1]]}

RECURSIVE Walk(_, _, _, _)
Walk(r, ord, nodes, taken) ==      \* nodes: sequence of eligible node ids in registry order
    IF ord = <<>> \/ Cardinality(taken) >= MaxV THEN taken
    ELSE LET e == Head(ord)
             mine == SelectSeq(nodes, LAMBDA n : r.node[n].ent = e)
             room == MaxV - Cardinality(taken)
             k == IF Len(mine) < MaxPerEntity THEN Len(mine) ELSE MaxPerEntity
             k2 == IF k < room THEN k ELSE room
         IN Walk(r, Tail(ord), nodes, taken \cup {mine[i] : i \in 1..k2})

Elect(r, ord) == Walk(r, ord, SelectSeq(SetToSeq(NodeIds), LAMBDA n : Eligible(r, n)), {})

Power(r, n) == LET p == r.stake[r.node[n].ent] \div PowerUnit IN IF p = 0 THEN 1 ELSE p

Init == reg \in Regs /\ order = <<>> /\ done = FALSE
Next == ~done /\ order' \in Orders(reg) /\ done' = TRUE /\ UNCHANGED reg
Spec == Init /\ [][Next]_vars

Rule ==
    done =>
      LET V == Elect(reg, order)
          entsOf(S) == {reg.node[n].ent : n \in S}
          el == {n \in NodeIds : Eligible(reg, n)}
      IN /\ V \subseteq el
         /\ Cardinality(V) <= MaxV
         /\ \A e \in Entities : Cardinality({n \in V : reg.node[n].ent = e}) <= MaxPerEntity
         /\ \A u \in entsOf(el) \ entsOf(V) : \A e \in entsOf(V) : reg.stake[u] <= reg.stake[e]
         /\ (el # {}) => V # {}
         /\ (Cardinality(V) < MaxV) => entsOf(el) \subseteq entsOf(V)
         /\ \A n, m \in V : reg.stake[reg.node[n].ent] >= reg.stake[reg.node[m].ent] => Power(reg, n) >= Power(reg, m)
=============================================================================
