SPECIFICATION Spec
CONSTANTS
  Replicas <- R3
  MaxH = 2
VIEW genview
INVARIANTS EmitInv
CHECK_DEADLOCK FALSE
