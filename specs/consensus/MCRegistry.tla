---- MODULE MCRegistry ----
EXTENDS Registry
N2 == {"A", "B"}
K7 == <<"k1", "k2", "k3", "k4", "k5", "k6", "k7">>
K8 == <<"k1", "k2", "k3", "k4", "k5", "k6", "k7", "k8">>
====
