SPECIFICATION TraceSpec
CONSTANTS
  Props = {"C09"}
INVARIANTS RuleHolds
POSTCONDITION TraceAccepted
CHECK_DEADLOCK FALSE
