----------------------------- MODULE TraceVault -----------------------------
(***************************************************************************)
(* The vault application on recorded executions of the real multiplexer    *)
(* (harness `cons-run -vault`).  The operators of Vault.tla are stepped    *)
(* along the recorded transactions; after EVERY transaction and at the end *)
(* of every block the vault state the real application stores (vaults,     *)
(* authorities, pending actions with their authorizations, withdraw        *)
(* policies and bucket accounting; read through the exported state         *)
(* readers) must be the model's.                                           *)
(*                                                                         *)
(* Events:  begin_chain | tx (spec, vreq = what a vault transaction asks   *)
(* for, code / module of the result, vault = the projection after the      *)
(* transaction) | end (vault = the projection at the end of the block).    *)
(*                                                                         *)
(*   V1  a vault appears exactly for a successful Create, with the         *)
(*       requested authorities, active, nonce 0, nothing pending, no       *)
(*       policies; a Create with a malformed authority never succeeds      *)
(*   V2  an AuthorizeAction / CancelAction succeeds only if Vault.tla's    *)
(*       AuthorizeOK / CancelOK holds (well-formed action, current nonce,  *)
(*       signer in a responsible authority, same action as the pending     *)
(*       one); the vault afterwards is Authorize(...) / Cancel(...): an    *)
(*       action takes effect exactly when a threshold of one responsible   *)
(*       authority has authorized it                                       *)
(*   V3  a withdrawal from a vault succeeds only if the vault is active    *)
(*       and the signer's policy admits the amount in the current bucket   *)
(*       (WithdrawOK); the bucket accounting afterwards is Withdraw(...)   *)
(*   V4  nothing else changes the vault state: a failed transaction (C08)  *)
(*       or any other transaction leaves it as it was, and so do           *)
(*       BeginBlock and EndBlock                                           *)
(*   V5  a request the vault application itself refuses (error of module   *)
(*       "vault", or staking "forbidden" for a withdrawal) although the    *)
(*       model admits it                                                   *)
(*                                                                         *)
(* V4 for failed transactions is a clause of the listed property C08; the  *)
(* other clauses describe behaviour outside the twenty listed properties   *)
(* and are reported as SPEC-DEVIATION (DESIGN.md R.10).                    *)
(***************************************************************************)
EXTENDS VaultOps, Json

Trace == ndJsonDeserialize("trace.ndjson")

VARIABLES l,
          vs,      \* vault name -> vault record (Vault.tla form)
          bad
tvars == <<l, vs, bad>>

Ev == Trace[l]
Is(e) == l <= Len(Trace) /\ Ev.ev = e /\ l' = l + 1

Empty == [x \in {} |-> 0]
TraceInit == l = 1 /\ vs = Empty /\ bad = "none"

RECURSIVE FirstBad(_)
FirstBad(cs) == IF cs = <<>> THEN "none" ELSE IF ~Head(cs)[1] THEN Head(cs)[2] ELSE FirstBad(Tail(cs))
SetBad(cs) == bad' = IF bad # "none" THEN bad ELSE FirstBad(cs)

(* the recorded projection of one vault in Vault.tla form *)
Canon(j) ==
    [active |-> j.active, nonce |-> j.nonce,
     admin |-> [a |-> SeqSet(j.admin.a), t |-> j.admin.t], susp |-> [a |-> SeqSet(j.susp.a), t |-> j.susp.t],
     pending |-> {[nonce |-> p.nonce, by |-> SeqSet(p.by), act |-> p.act] : p \in SeqSet(j.pending)},
     states |-> {[addr |-> s.addr, limit |-> s.limit, interval |-> s.interval, bucket |-> s.bucket, amount |-> s.amount] : s \in SeqSet(j.states)}]
Recorded(js) == [id \in {j.id : j \in SeqSet(js)} |-> Canon(CHOOSE j \in SeqSet(js) : j.id = id)]

Upd(f, k, x) == [y \in DOMAIN f \cup {k} |-> IF y = k THEN x ELSE f[y]]

TrChain == Is("begin_chain") /\ vs' = Empty /\ UNCHANGED bad

VaultKinds == {"vcreate", "vauth", "vcancel"}

TrTx ==
    /\ Is("tx")
    /\ IF "vault" \notin DOMAIN Ev THEN UNCHANGED <<vs, bad>>
       ELSE
       LET sp == Ev.spec
           ok == Ev.code = 0
           rec == Recorded(Ev.vault)
           isV == sp.kind \in VaultKinds /\ "vreq" \in DOMAIN Ev
           rq == Ev.vreq
           known == isV /\ sp.kind # "vcreate" /\ rq.vault \in DOMAIN vs
           vv == vs[rq.vault]
           wd == sp.kind = "withdraw" /\ "to" \in DOMAIN sp /\ sp.to \in DOMAIN vs /\ sp.validity = "ok"
           wv == vs[sp.to]
           fresh == DOMAIN rec \ DOMAIN vs
           expected ==
              IF ~ok THEN vs
              ELSE IF isV /\ sp.kind = "vcreate" THEN (IF Cardinality(fresh) = 1 THEN Upd(vs, CHOOSE x \in fresh : TRUE, NewVault(rq.admin, rq.susp)) ELSE vs)
              ELSE IF known /\ sp.kind = "vauth" THEN Upd(vs, rq.vault, Authorize(vv, sp.signer, rq.nonce, rq.act))
              ELSE IF known /\ sp.kind = "vcancel" THEN Upd(vs, rq.vault, Cancel(vv))
              ELSE IF wd /\ HasState(wv, sp.signer) THEN Upd(vs, sp.to, Withdraw(wv, sp.signer, sp.amount, Ev.h))
              ELSE vs
           refusedByVault == ~ok /\ Ev.module = "vault"
       IN
       /\ SetBad(<<
             <<(ok /\ isV /\ sp.kind = "vcreate") => (Cardinality(fresh) = 1 /\ AuthorityOK(rq.admin.a, rq.admin.t) /\ AuthorityOK(rq.susp.a, rq.susp.t)),
               "V1: a Create succeeded without exactly one new vault, or with a malformed authority">>,
             <<~(ok /\ isV /\ sp.kind = "vcreate") => fresh = {}, "V1: a vault appeared without a successful Create">>,
             <<(ok /\ isV /\ sp.kind # "vcreate") => known, "V2: an action on a vault that does not exist succeeded">>,
             <<(ok /\ known /\ sp.kind = "vauth") => AuthorizeOK(vv, sp.signer, rq.nonce, rq.act),
               "V2: an AuthorizeAction succeeded although the action is malformed, the nonce is not the vault's, the signer is in no responsible authority, or another action is pending">>,
             <<(ok /\ known /\ sp.kind = "vcancel") => CancelOK(vv, sp.signer, rq.nonce),
               "V2: a CancelAction succeeded without a pending action at that nonce or from an account outside the responsible authorities">>,
             <<(ok /\ wd) => WithdrawOK(wv, sp.signer, sp.amount, Ev.h),
               "V3: a withdrawal from a vault succeeded although the vault is suspended or the signer's policy does not admit the amount in this bucket">>,
             <<~ok => rec = vs, "V4/C08: a failed transaction changed the vault state">>,
             <<rec = expected, "V2-V4: the vault state after the transaction differs from the model's">>,
             <<(refusedByVault /\ known /\ sp.kind = "vauth" /\ Ev.code \in {1, 4, 5}) => ~AuthorizeOK(vv, sp.signer, rq.nonce, rq.act),
               "V5: the vault application refused an AuthorizeAction the model admits">>,
             <<(refusedByVault /\ known /\ sp.kind = "vcancel" /\ Ev.code \in {4, 5, 6}) => ~CancelOK(vv, sp.signer, rq.nonce),
               "V5: the vault application refused a CancelAction the model admits">>,
             <<(~ok /\ wd /\ Ev.module = "staking" /\ Ev.code = 5) => ~WithdrawOK(wv, sp.signer, sp.amount, Ev.h),
               "V5: a withdrawal the vault's policy admits was refused as forbidden">>
           >>)
       /\ vs' = rec          \* continue from what was recorded (one deviation is reported once)

TrEnd ==
    /\ Is("end")
    /\ IF "vault" \notin DOMAIN Ev THEN UNCHANGED <<vs, bad>>
       ELSE /\ SetBad(<< <<Recorded(Ev.vault) = vs, "V4: the vault state changed outside a transaction (BeginBlock / EndBlock)">> >>)
            /\ vs' = Recorded(Ev.vault)

Known == {"begin_chain", "tx", "end"}
TrSkip == l <= Len(Trace) /\ Ev.ev \notin Known /\ l' = l + 1 /\ UNCHANGED <<vs, bad>>

TraceNext == TrChain \/ TrTx \/ TrEnd \/ TrSkip
TraceSpec == TraceInit /\ [][TraceNext]_tvars
RuleHolds == bad = "none"
TraceAccepted == TLCGet("stats").diameter - 1 = Len(Trace)
=============================================================================
