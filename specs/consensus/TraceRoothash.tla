--------------------------- MODULE TraceRoothash ---------------------------
(***************************************************************************)
(* C11 at the application level: every runtime block the real roothash     *)
(* application emits is judged with the declarative rule of PoolRule.tla   *)
(* over the executor commitments the application ACCEPTED (commit          *)
(* transactions that executed with code 0) in that round.                  *)
(*                                                                         *)
(* Events of the observer replica (harness `cons-run`):                    *)
(*   begin_chain                                                           *)
(*   rhb  round state of every runtime after BeginBlock (epoch transition  *)
(*        and suspension blocks are emitted there)                         *)
(*   tx   a transaction; spec.kind = "rhcommit" carries runtime, round,    *)
(*        node, scheduler, vote (state root or F)                          *)
(*   rh   round state after EndBlock (finalization, discrepancy            *)
(*        detection, round failure, timeouts happen there) and the         *)
(*        runtimes for which a discrepancy event was emitted               *)
(* Rule:                                                                   *)
(*   A1 an accepted commitment is for the runtime's next round, from a     *)
(*      committee member, names a primary worker as scheduler and is the   *)
(*      node's first for that scheduler (AcceptOK)                         *)
(*   F1 a Normal block's state root is a result some scheduler proposed    *)
(*      and FinalOK permits: unanimity of the received primary votes with  *)
(*      stragglers / failures within the allowance, or - after a declared  *)
(*      discrepancy - a strict majority of the backup workers; no          *)
(*      committed scheduler of better rank passed over                     *)
(*   F2 every other block (round failed, epoch transition, suspension)     *)
(*      leaves the state root unchanged; rounds advance one by one; the    *)
(*      state root never changes without a block                           *)
(*   T1 after EndBlock no round timer is left expired (a fired timer       *)
(*      never just keeps waiting: the round was finalized, failed, or      *)
(*      discrepancy resolution was started with a new timer)               *)
(***************************************************************************)
EXTENDS PoolRule, Json, TLC

Trace == ndJsonDeserialize("trace.ndjson")

RTs == {"R0", "R1", "R2", "R3"}

VARIABLES l,
          cur,       \* runtime -> last observed round state ([present |-> FALSE] if never seen)
          acc,       \* runtime -> commitments accepted for the round in progress
          declared,  \* runtime -> a discrepancy has been declared in the round in progress
          bad,
          nNormal, nFailed, nDisc   \* anti-vacuity counters
tvars == <<l, cur, acc, declared, bad, nNormal, nFailed, nDisc>>

Ev == Trace[l]
Is(e) == l <= Len(Trace) /\ Ev.ev = e /\ l' = l + 1

Absent == [present |-> FALSE]
TraceInit ==
    /\ l = 1 /\ cur = [r \in RTs |-> Absent] /\ acc = [r \in RTs |-> {}] /\ declared = [r \in RTs |-> FALSE]
    /\ bad = "none" /\ nNormal = 0 /\ nFailed = 0 /\ nDisc = 0

RECURSIVE FirstBad(_)
FirstBad(cs) == IF cs = <<>> THEN "none" ELSE IF ~Head(cs)[1] THEN "C11: " \o Head(cs)[2] ELSE FirstBad(Tail(cs))

TrChain ==
    /\ Is("begin_chain")
    /\ cur' = [r \in RTs |-> Absent] /\ acc' = [r \in RTs |-> {}] /\ declared' = [r \in RTs |-> FALSE]
    /\ UNCHANGED <<bad, nNormal, nFailed, nDisc>>

View(v) == [present |-> TRUE, round |-> v.round, sroot |-> v.sroot, w |-> v.w, b |-> v.b, s |-> v.s, disc |-> v.disc,
            nt |-> v.next_timeout, htype |-> v.htype]

(* one observed runtime record v against the previous observation p of the same runtime *)
StepBad(p, v, a, decl, discEv, afterEnd, h) ==
    IF ~p.present THEN "none"
    ELSE FirstBad(<<
        <<v.round >= p.round, "runtime round went backwards">>,
        <<v.round <= p.round + 1, "runtime round advanced by more than one between two observations">>,
        <<(v.round = p.round) => v.sroot = p.sroot, "state root changed without a runtime block">>,
        <<(v.round = p.round + 1 /\ v.htype # "normal") => v.sroot = p.sroot,
          "a failed / epoch-transition / suspension block changed the state root">>,
        <<(v.round = p.round + 1 /\ v.htype = "normal") =>
              /\ Len(p.w) > 0
              /\ \E sched \in SeqSet(p.w) :
                    FinalOK(a, decl \/ p.disc \/ discEv, p.w, p.b, p.s, v.round, sched, v.sroot),
          "round finalized without unanimity of the primary votes or a backup majority after a declared discrepancy">>,
        <<afterEnd => (v.next_timeout = -1 \/ v.next_timeout > h), "an expired round timer was left armed: the round just keeps waiting">>,
        \* D1: a discrepancy announced in this block is part of the round's state afterwards (backup workers are then admitted and
        \* the timer runs for them) unless the round ended in the same block
        <<(afterEnd /\ discEv /\ v.round = p.round) => v.disc, "a discrepancy was announced but the round's state does not record it">>
      >>)

Obs(afterEnd) ==
    LET vs == {Ev.rts[i] : i \in DOMAIN Ev.rts}
        rec(r) == CHOOSE v \in vs : v.rt = r
        seen == {v.rt : v \in vs}
        de(r) == afterEnd /\ r \in {Ev.disc_events[i] : i \in DOMAIN Ev.disc_events}
        sb(r) == StepBad(cur[r], rec(r), acc[r], declared[r], de(r), afterEnd, Ev.h)
        firstBad == LET B == {r \in seen : sb(r) # "none"} IN IF B = {} THEN "none" ELSE sb(CHOOSE r \in B : TRUE)
        advanced(r) == cur[r].present /\ rec(r).round # cur[r].round
    IN
    /\ seen \subseteq RTs
    /\ bad' = IF bad # "none" THEN bad ELSE firstBad
    /\ cur' = [r \in RTs |-> IF r \in seen THEN View(rec(r)) ELSE cur[r]]
    /\ acc' = [r \in RTs |-> IF r \in seen /\ advanced(r) THEN {} ELSE acc[r]]
    /\ declared' = [r \in RTs |-> IF r \in seen /\ advanced(r) THEN FALSE
                                  ELSE IF r \in seen THEN declared[r] \/ rec(r).disc \/ de(r) ELSE declared[r]]
    /\ nNormal' = nNormal + Cardinality({r \in seen : advanced(r) /\ rec(r).htype = "normal"})
    /\ nFailed' = nFailed + Cardinality({r \in seen : advanced(r) /\ rec(r).htype = "failed"})
    /\ nDisc' = nDisc + Cardinality({r \in seen : de(r)})

TrRhb == Is("rhb") /\ Obs(FALSE)
TrRh == Is("rh") /\ Obs(TRUE)

TrTx ==
    /\ Is("tx")
    /\ IF Ev.spec.kind = "rhcommit" /\ Ev.code = 0
       THEN LET r == Ev.spec.to
                p == cur[r]
                vote == IF Ev.spec.vote = "F" THEN "F" ELSE Ev.spec.vroot
                c == [n |-> Ev.spec.node, sched |-> Ev.spec.sched, vote |-> vote]
            IN /\ r \in RTs
               /\ bad' = IF bad # "none" THEN bad
                         ELSE FirstBad(<<
                                <<p.present /\ Len(p.w) > 0, "a commitment was accepted for a runtime without a committee">>,
                                <<p.present => Ev.spec.amount = p.round + 1, "a commitment was accepted for a round other than the next one">>,
                                <<(p.present /\ Len(p.w) > 0) => AcceptOK(acc[r], p.w, p.b, Ev.spec.node, Ev.spec.sched),
                                  "a commitment of a non-member, for a non-worker scheduler, or a second one of the same node was accepted">>
                              >>)
               /\ acc' = [acc EXCEPT ![r] = @ \cup {c}]
       ELSE UNCHANGED <<acc, bad>>
    /\ UNCHANGED <<cur, declared, nNormal, nFailed, nDisc>>

Known == {"begin_chain", "rhb", "rh", "tx"}
TrSkip == l <= Len(Trace) /\ Ev.ev \notin Known /\ l' = l + 1 /\ UNCHANGED <<cur, acc, declared, bad, nNormal, nFailed, nDisc>>

TraceNext == TrChain \/ TrRhb \/ TrRh \/ TrTx \/ TrSkip
TraceSpec == TraceInit /\ [][TraceNext]_tvars
RuleHolds == bad = "none"
TraceAccepted == TLCGet("stats").diameter - 1 = Len(Trace)
=============================================================================
