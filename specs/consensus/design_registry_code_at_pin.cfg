SPECIFICATION Spec
CONSTANTS
  Nodes <- N2
  KeyOrder <- K7
  UpdateOrder = "code_at_pin"
  MaxOps = 100
VIEW view
INVARIANTS K1 K2 K2b
CHECK_DEADLOCK FALSE
