------------------------------- MODULE Vault -------------------------------
(***************************************************************************)
(* Closed model of one vault over the operators of VaultOps.tla (see there *)
(* for the transcription and for the statements VQuota, VAuth, VSusp,      *)
(* VNonce checked here).                                                   *)
(***************************************************************************)
EXTENDS VaultOps

-----------------------------------------------------------------------------
(* Closed model: one vault among accounts Accts, block heights 1..MaxH.    *)
CONSTANTS Accts, MaxH, Limits, Intervals, MaxNonce

VARIABLES v,        \* the vault
          h,        \* block height
          out,      \* ghost: account -> what it withdrew in the bucket of its latest withdrawal: [key, total, maxlimit, n]
                    \*        key = <<era, interval, bucket>>, maxlimit = largest limit in force at one of these withdrawals
          era,      \* ghost: account -> number of times its policy interval changed (bounded: counted modulo 3)
          log       \* ghost: authorizations given at the current nonce: set of [who, act]

mvars == <<v, h, out, era, log>>

Auths == {[a |-> S, t |-> t] : S \in (SUBSET Accts) \ {{}}, t \in 1..2}

Act(k, addr, limit, interval, which, a, t) ==
    [k |-> k, addr |-> addr, limit |-> limit, interval |-> interval, which |-> which, a |-> a, t |-> t, amount |-> 0]
SeqOf(S) == CHOOSE s \in [1..Cardinality(S) -> S] : SeqSet(s) = S
ModelActs ==
       {Act("suspend", "", 0, 0, "", <<>>, 0), Act("resume", "", 0, 0, "", <<>>, 0), Act("exec", "", 0, 0, "transfer", <<>>, 0)}
    \cup {Act("policy", x, lim, iv, "", <<>>, 0) : x \in Accts, lim \in Limits, iv \in Intervals}
    \cup {Act("authority", "", 0, 0, w, SeqOf(S), t) : w \in {"admin", "suspend"}, S \in (SUBSET Accts) \ {{}}, t \in 1..2}

MInit ==
    /\ v \in {[active |-> TRUE, nonce |-> 0, admin |-> ad, susp |-> su, pending |-> {}, states |-> {}] :
                 ad \in {x \in Auths : x.t <= Cardinality(x.a)}, su \in {x \in Auths : x.t <= Cardinality(x.a)}}
    /\ h = 1 /\ out = [x \in Accts |-> [key |-> <<>>, total |-> 0, maxlimit |-> 0, n |-> 0]] /\ era = [x \in Accts |-> 0] /\ log = {}

MAuthorize ==
    \E who \in Accts, act \in ModelActs :
       /\ v.nonce < MaxNonce
       /\ AuthorizeOK(v, who, v.nonce, act)
       /\ v' = Authorize(v, who, v.nonce, act)
       /\ log' = IF v'.nonce = v.nonce THEN log \cup {[who |-> who, act |-> act]} ELSE {}
       /\ era' = IF v'.nonce # v.nonce /\ act.k = "policy" /\ HasState(v, act.addr) /\ StateOf(v, act.addr).interval # act.interval
                 THEN [era EXCEPT ![act.addr] = (@ + 1) % 3] ELSE era
       /\ UNCHANGED <<h, out>>

MCancel ==
    \E who \in Accts :
       /\ v.nonce < MaxNonce
       /\ CancelOK(v, who, v.nonce)
       /\ v' = Cancel(v) /\ log' = {}
       /\ UNCHANGED <<h, out, era>>

MWithdraw ==
    \E who \in Accts, amt \in 1..2 :
       /\ WithdrawOK(v, who, amt, h)
       /\ v' = Withdraw(v, who, amt, h)
       /\ LET s == StateOf(v, who)
              key == <<era[who], s.interval, h \div s.interval>>
              o == out[who]
          IN out' = [out EXCEPT ![who] = IF o.key = key
                                         THEN [o EXCEPT !.total = @ + amt, !.maxlimit = IF s.limit > @ THEN s.limit ELSE @, !.n = @ + 1]
                                         ELSE [key |-> key, total |-> amt, maxlimit |-> s.limit, n |-> 1]]
       /\ UNCHANGED <<h, era, log>>

MTick == h < MaxH /\ h' = h + 1 /\ UNCHANGED <<v, out, era, log>>

MNext == MAuthorize \/ MCancel \/ MWithdraw \/ MTick
MSpec == MInit /\ [][MNext]_mvars

(* VQuota *)
VQuota == \A x \in Accts : out[x].total <= out[x].maxlimit

(* VAuth, as an action property: the nonce advances by an authorization only when the authorizations collected at this nonce   *)
(* (all for the same action) contain a threshold of one responsible authority of the vault as it was BEFORE the action, and     *)
(* the vault changes by exactly that action.                                                                                  *)
VAuth ==
    [][ (v'.nonce # v.nonce /\ v' # Cancel(v)) =>
           \E who \in Accts, act \in ModelActs :
              /\ \A x \in log : x.act = act
              /\ IsAuthorized(v, act, who)
              /\ CanExecute(v, act, {x.who : x \in log} \cup {who})
              /\ v' = [Execute(v, act) EXCEPT !.pending = {}, !.nonce = v.nonce + 1]
      ]_mvars

(* VSusp *)
VSusp == [][ out' # out => v.active ]_mvars

(* VNonce *)
VNonceStep == [][ v'.nonce \in {v.nonce, v.nonce + 1} /\ (v'.nonce = v.nonce => (v'.active = v.active /\ v'.admin = v.admin /\ v'.susp = v.susp
                                                                                  /\ {[addr |-> x.addr, limit |-> x.limit, interval |-> x.interval] : x \in v'.states}
                                                                                     = {[addr |-> x.addr, limit |-> x.limit, interval |-> x.interval] : x \in v.states})) ]_mvars
PendingAtNonce ==
    /\ Cardinality(v.pending) <= 1
    /\ \A p \in v.pending : p.nonce = v.nonce /\ p.by # {} /\ (\A w \in p.by : [who |-> w, act |-> p.act] \in log)
=============================================================================
