--------------------------- MODULE TraceRegistry ---------------------------
(***************************************************************************)
(* C17 on real multiplexer runs: after every block the harness records the *)
(* registry's primary records and what its indexes answer (NodeBySubKey    *)
(* for each current key of each node, lookup by consensus address, the     *)
(* nodes-by-entity index, the stake claims of every account); transaction  *)
(* events carry registry transactions signed without the required          *)
(* authority.                                                              *)
(*  K1 no key belongs to two registered nodes                              *)
(*  K2 every registered node is found under each of its current keys and   *)
(*     its consensus address                                               *)
(*  K3 the nodes-by-entity index mirrors the primary records               *)
(*  K4 an entity with nodes cannot be removed                              *)
(*  K5 the stake claims of an account are exactly: the entity claim iff    *)
(*     the entity is registered, one node claim per registered node        *)
(*  A1 a registration without the node key as transaction signer, or with  *)
(*     a key's signature missing, never succeeds                           *)
(***************************************************************************)
EXTENDS Integers, Sequences, FiniteSets, TLC, Json

Trace == ndJsonDeserialize("trace.ndjson")
VARIABLES l, bad, nReg, nAuth,
          prevEnts, prevOwn    \* entities and <<runtime, owning entity>> pairs at the end of the previous block ({} at the start of a chain)
tvars == <<l, bad, nReg, nAuth, prevEnts, prevOwn>>
Ev == Trace[l]
TraceInit == l = 1 /\ bad = "none" /\ nReg = 0 /\ nAuth = 0 /\ prevEnts = {} /\ prevOwn = {}

RECURSIVE FirstBad(_)
FirstBad(cs) == IF cs = <<>> THEN "none" ELSE IF ~Head(cs)[1] THEN "C17: " \o Head(cs)[2] ELSE FirstBad(Tail(cs))
SetBad(cs) == bad' = IF bad # "none" THEN bad ELSE FirstBad(cs)
SeqSet(s) == {s[i] : i \in DOMAIN s}
Roles == {"cons", "p2p", "vrf", "tls"}

TrReg ==
    /\ l <= Len(Trace) /\ Ev.ev = "reg" /\ l' = l + 1
    /\ LET R == Ev.reg
           ns == SeqSet(R.nodes)
           keysOf(n) == {n.keys[r] : r \in Roles}
           ents == DOMAIN R.entities
       IN SetBad(<<
            <<\A n, m \in ns : n.id # m.id => keysOf(n) \cap keysOf(m) = {}, "K1 a key is associated with two registered nodes">>,
            <<\A n \in ns : Cardinality(keysOf(n)) = 4, "K1 a node uses one key in two roles">>,
            <<\A n \in ns : \A r \in Roles : n.found[r] = n.id, "K2 a registered node is not found under one of its current keys">>,
            <<\A n \in ns : n.by_cons_addr = n.id, "K2 a registered node is not found under its consensus address">>,
            <<\A e \in ents : SeqSet(R.entities[e].index_nodes) = {n.id : n \in {x \in ns : x.ent = e}},
              "K3 nodes-by-entity index differs from the primary records">>,
            <<\A n \in ns : n.ent \in ents, "K4 a registered node's entity is not registered">>,
            <<\A a \in DOMAIN R.claims :
                 SeqSet(R.claims[a]) = (IF a \in ents THEN {"entity"} ELSE {}) \cup {"node:" \o n.id : n \in {x \in ns : x.ent = a}}
                                        \cup {"runtime:" \o r.id : r \in {x \in SeqSet(R.runtimes) : x.claim_account = a}},
              "K5 stake claims differ from those implied by the registered entities, nodes and runtimes">>,
            <<\A r \in SeqSet(R.runtimes) : r.claim_account \in DOMAIN R.claims, "K5 a registered runtime's governing account holds no claim record">>,
            \* (a runtime may be handed to an entity that is not registered - the update rules do not look at the new owner; what
            \*  the property forbids is the REMOVAL of an entity that owns a runtime: it owned it before the block and still does)
            <<\A e \in prevEnts \ ents : ~\E r \in SeqSet(R.runtimes) : r.ent = e /\ <<r.id, e>> \in prevOwn,
              "K4 an entity was removed while it owned a runtime">>
          >>)
    /\ prevEnts' = DOMAIN Ev.reg.entities /\ prevOwn' = {<<r.id, r.ent>> : r \in SeqSet(Ev.reg.runtimes)}
    /\ nReg' = nReg + 1 /\ UNCHANGED nAuth

RegistryKinds == {"regnode", "deregentity", "regruntime", "regentity"}
TrTx ==
    /\ l <= Len(Trace) /\ Ev.ev = "tx" /\ l' = l + 1
    /\ LET sp == Ev.spec
           unauth == sp.kind \in RegistryKinds /\ sp.validity \in {"wrongsigner", "missingsig", "notowner", "dropruntime", "badentsig"}
           \* ("hasnodes" - an entity that owns nodes deregisters - is judged on the state: K4 after the block; whether the entity
           \*  still owns a node when the transaction runs depends on expiries and hand-overs earlier in the same block)
           \* independent of the driver's label: the key that signed the envelope (decoded from the raw bytes) must be the identity
           \* key of the node the descriptor registers - none of the node's other keys, although each of them signs the descriptor
           hasF(r, f) == f \in DOMAIN r
           nodeOf == IF hasF(sp, "node") /\ sp.node # "" THEN sp.node ELSE sp.signer
           byNodeKey == (sp.kind = "regnode" /\ Ev.code = 0 /\ hasF(Ev, "env") /\ Ev.env.decodable) => Ev.env.signer = nodeOf
       IN /\ SetBad(<< <<unauth => Ev.code # 0, "A1/K4 a registry transaction without the required authority succeeded">>,
                       <<byNodeKey, "A1 a node registration succeeded in a transaction not signed by the node's identity key">> >>)
          /\ nAuth' = nAuth + (IF unauth THEN 1 ELSE 0)
    /\ UNCHANGED <<nReg, prevEnts, prevOwn>>

Known == {"reg", "tx", "begin_chain"}
TrChain == l <= Len(Trace) /\ Ev.ev = "begin_chain" /\ l' = l + 1 /\ prevEnts' = {} /\ prevOwn' = {} /\ UNCHANGED <<bad, nReg, nAuth>>
TrSkip == l <= Len(Trace) /\ Ev.ev \notin Known /\ l' = l + 1 /\ UNCHANGED <<bad, nReg, nAuth, prevEnts, prevOwn>>
TraceNext == TrReg \/ TrTx \/ TrChain \/ TrSkip
TraceSpec == TraceInit /\ [][TraceNext]_tvars
RuleHolds == bad = "none"
TraceAccepted == TLCGet("stats").diameter - 1 = Len(Trace)
=============================================================================
