SPECIFICATION Spec
CONSTANTS
  NodeSeq <- N3
  Ents <- E2
  GroupSizes <- G02
  MaxNodesVals <- M012
  MinPoolVals <- P03
INVARIANTS Rule TraverseNeverFails RefusedOnlyForCause
CHECK_DEADLOCK FALSE
