SPECIFICATION Spec
CONSTANTS
  Entities <- E3
  NodeIds <- N4
  MaxStake = 2
  MaxV = 2
  MaxPerEntity = 1
  PowerUnit = 1
INVARIANTS Rule
CHECK_DEADLOCK FALSE
