SPECIFICATION TraceSpec
CONSTANTS
  Props = {"C05"}
INVARIANTS RuleHolds
POSTCONDITION TraceAccepted
CHECK_DEADLOCK FALSE
