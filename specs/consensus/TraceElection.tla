--------------------------- MODULE TraceElection ---------------------------
(***************************************************************************)
(* C14: every validator election recorded on a real multiplexer is checked  *)
(* against the declarative rule.  `elect_in` is the registry / staking      *)
(* state exactly as the election reads it (probe application placed after   *)
(* the registry and before the scheduler), `elect_out` the scheduler state  *)
(* right after it, `end` carries the validator updates handed to the        *)
(* consensus engine.                                                        *)
(*   eligible(n) = validator role, not expired at the epoch, not frozen,    *)
(*                 entity escrow >= sum of the thresholds of ALL stake      *)
(*                 claims of that entity (recomputed here from the raw      *)
(*                 claims and the threshold table)                          *)
(* Rule: elected subset of eligible; count and per-entity limits; no        *)
(* eligible unelected entity has strictly more stake than an elected one    *)
(* unless the limits explain it; voting power non-decreasing in stake;      *)
(* previous set + updates = newly elected set.                              *)
(***************************************************************************)
EXTENDS Integers, Sequences, FiniteSets, FiniteSetsExt, TLC, Json

Trace == ndJsonDeserialize("trace.ndjson")

VARIABLES l, cur, inp, haveInp, pending, havePending, bad, nElections
tvars == <<l, cur, inp, haveInp, pending, havePending, bad, nElections>>
\* cur: current consensus validator set as a set of <<cons, power>>; inp: last elect_in; pending: elected set awaiting the block's updates

Ev == Trace[l]
Is(e) == l <= Len(Trace) /\ Ev.ev = e /\ l' = l + 1

TraceInit == l = 1 /\ cur = {} /\ inp = <<>> /\ haveInp = FALSE /\ pending = {} /\ havePending = FALSE /\ bad = "none" /\ nElections = 0

RECURSIVE FirstBad(_)
FirstBad(cs) == IF cs = <<>> THEN "none" ELSE IF ~Head(cs)[1] THEN "C14: " \o Head(cs)[2] ELSE FirstBad(Tail(cs))
SetBad(cs) == bad' = IF bad # "none" THEN bad ELSE FirstBad(cs)

SeqSet(s) == {s[i] : i \in DOMAIN s}

(* "pubkeyhex:power" strings of the driver are pre-split by the harness into records [cons, power] *)
TrChain ==
    /\ Is("begin_chain")
    /\ cur' = {<<v.cons, v.power>> : v \in SeqSet(Ev.valset2)}
    /\ inp' = <<>> /\ haveInp' = FALSE /\ pending' = {} /\ havePending' = FALSE /\ UNCHANGED <<bad, nElections>>

TrIn == Is("elect_in") /\ inp' = Ev /\ haveInp' = TRUE /\ UNCHANGED <<cur, pending, havePending, bad, nElections>>

ClaimTotal(e, I) ==
    LET cl == I.entities[e].claims IN
    FoldSet(LAMBDA i, t : t + FoldSet(LAMBDA j, u : u + (IF cl[i][j] \in DOMAIN I.thresholds THEN I.thresholds[cl[i][j]] ELSE 0),
                                      0, 2..Len(cl[i])),
            0, DOMAIN cl)

Eligible(n, I) ==
    /\ n.validator /\ ~n.frozen /\ n.exp >= I.epoch
    /\ n.ent \in DOMAIN I.entities
    /\ I.entities[n.ent].escrow >= ClaimTotal(n.ent, I)

TrOut ==
    /\ Is("elect_out")
    /\ haveInp
    /\ LET I  == inp
           ns == SeqSet(I.nodes)
           vs == SeqSet(Ev.validators)
           el == {n \in ns : Eligible(n, I)}
           nodeOf(v) == {n \in ns : n.cons = v.cons}
           elEnts == {v.ent : v \in vs}
           stake(e) == I.entities[e].escrow
       IN
       /\ SetBad(<<
            <<\A v \in vs : \E n \in el : n.cons = v.cons /\ n.ent = v.ent, "an elected validator is not an eligible registered node">>,
            <<Cardinality(vs) <= Ev.max_validators, "more validators than the configured maximum">>,
            <<\A e \in elEnts : Cardinality({v \in vs : v.ent = e}) <= Ev.max_per_entity, "more validators of one entity than allowed">>,
            <<Cardinality({v.cons : v \in vs}) = Cardinality(vs), "a consensus key elected twice">>,
            <<\A u \in {n.ent : n \in el} \ elEnts : \A e \in elEnts : stake(u) <= stake(e),
              "an eligible entity with strictly more stake than an elected one was passed over">>,
            <<(el # {}) => vs # {}, "eligible validators exist but none was elected">>,
            <<(Cardinality(vs) < Ev.max_validators) => \A u \in {n.ent : n \in el} : u \in elEnts,
              "the validator set is not full although an eligible entity was left out">>,
            <<\A v, w \in vs : stake(v.ent) >= stake(w.ent) => v.power >= w.power, "voting power is not non-decreasing in stake">>,
            <<\A v \in vs : v.power > 0, "elected validator without voting power">>
          >>)
       /\ pending' = {<<v.cons, v.power>> : v \in vs} /\ havePending' = TRUE
    /\ nElections' = nElections + 1
    /\ UNCHANGED <<cur, inp, haveInp>>

ApplyUpd(S, upd) ==
    LET keys == {u.cons : u \in upd} IN
    {x \in S : x[1] \notin keys} \cup {<<u.cons, u.power>> : u \in {w \in upd : w.power > 0}}

TrEnd ==
    /\ Is("end")
    /\ LET upd == SeqSet(Ev.valupd2)
           nxt == ApplyUpd(cur, upd)
       IN /\ cur' = nxt
          /\ SetBad(<<
               <<havePending => nxt = pending, "previous validator set plus the updates is not the newly elected set">>,
               <<(~havePending) => upd = {}, "validator updates without an election">>
             >>)
    /\ pending' = {} /\ havePending' = FALSE /\ UNCHANGED <<inp, haveInp, nElections>>

Known == {"begin_chain", "elect_in", "elect_out", "end"}
TrSkip == l <= Len(Trace) /\ Ev.ev \notin Known /\ l' = l + 1 /\ UNCHANGED <<cur, inp, haveInp, pending, havePending, bad, nElections>>

TraceNext == TrChain \/ TrIn \/ TrOut \/ TrEnd \/ TrSkip
TraceSpec == TraceInit /\ [][TraceNext]_tvars
RuleHolds == bad = "none"
TraceAccepted == TLCGet("stats").diameter - 1 = Len(Trace)
=============================================================================
