--------------------------- MODULE TraceElection ---------------------------
(***************************************************************************)
(* C14: every validator election recorded on a real multiplexer is checked  *)
(* against the declarative rule.  `elect_in` is the registry / staking      *)
(* state exactly as the election reads it (probe application placed after   *)
(* the registry and before the scheduler), `elect_out` the scheduler state  *)
(* right after it, `end` carries the validator updates handed to the        *)
(* consensus engine.                                                        *)
(*   eligible(n) = validator role, not expired at the epoch, not frozen,    *)
(*                 entity escrow >= sum of the thresholds of ALL stake      *)
(*                 claims of that entity (recomputed here from the raw      *)
(*                 claims and the threshold table)                          *)
(* Rule: elected subset of eligible; count and per-entity limits; no        *)
(* eligible unelected entity has strictly more stake than an elected one    *)
(* unless the limits explain it; voting power non-decreasing in stake;      *)
(* previous set + updates = newly elected set.                              *)
(* Runtime committees (when the harness records them): members eligible,    *)
(* exact sizes or no committee, per-entity limit, minimum pool size, no     *)
(* duplicates, no stale committee of an active runtime (Committee.tla).     *)
(***************************************************************************)
EXTENDS Integers, Sequences, FiniteSets, FiniteSetsExt, TLC, Json

Trace == ndJsonDeserialize("trace.ndjson")

VARIABLES l, cur, inp, haveInp, pending, havePending, bad, nElections
tvars == <<l, cur, inp, haveInp, pending, havePending, bad, nElections>>
\* cur: current consensus validator set as a set of <<cons, power>>; inp: last elect_in; pending: elected set awaiting the block's updates

Ev == Trace[l]
Is(e) == l <= Len(Trace) /\ Ev.ev = e /\ l' = l + 1

TraceInit == l = 1 /\ cur = {} /\ inp = <<>> /\ haveInp = FALSE /\ pending = {} /\ havePending = FALSE /\ bad = "none" /\ nElections = 0

RECURSIVE FirstBad(_)
FirstBad(cs) == IF cs = <<>> THEN "none" ELSE IF ~Head(cs)[1] THEN "C14: " \o Head(cs)[2] ELSE FirstBad(Tail(cs))
SetBad(cs) == bad' = IF bad # "none" THEN bad ELSE FirstBad(cs)

SeqSet(s) == {s[i] : i \in DOMAIN s}

(* "pubkeyhex:power" strings of the driver are pre-split by the harness into records [cons, power] *)
TrChain ==
    /\ Is("begin_chain")
    /\ cur' = {<<v.cons, v.power>> : v \in SeqSet(Ev.valset2)}
    /\ inp' = <<>> /\ haveInp' = FALSE /\ pending' = {} /\ havePending' = FALSE /\ UNCHANGED <<bad, nElections>>

TrIn == Is("elect_in") /\ inp' = Ev /\ haveInp' = TRUE /\ UNCHANGED <<cur, pending, havePending, bad, nElections>>

ClaimTotal(e, I) ==
    LET cl == I.entities[e].claims IN
    FoldSet(LAMBDA i, t : t + FoldSet(LAMBDA j, u : u + (IF cl[i][j] \in DOMAIN I.thresholds THEN I.thresholds[cl[i][j]] ELSE 0),
                                      0, 2..Len(cl[i])),
            0, DOMAIN cl)

Eligible(n, I) ==
    /\ n.validator /\ ~n.frozen /\ n.exp >= I.epoch
    /\ n.ent \in DOMAIN I.entities
    /\ I.entities[n.ent].escrow >= ClaimTotal(n.ent, I)

(* ---- runtime committees (the clauses CM1-CM5 of Committee.tla, on the real election's recorded input and output) ---- *)
HasF(r, f) == f \in DOMAIN r
CommitteesOf(ev) == IF HasF(ev, "committees") THEN SeqSet(ev.committees) ELSE {}
RuntimesOf(I) == IF HasF(I, "runtimes") THEN SeqSet(I.runtimes) ELSE {}

StakeOK(e, I) == e \in DOMAIN I.entities /\ I.entities[e].escrow >= ClaimTotal(e, I)

(* the runtime version in force: of the deployments the descriptor lists (in whatever order) the one with the greatest       *)
(* valid_from that is not in the future; -1 if there is none                                                                  *)
InForce(rt, ep) ==
    LET ok == {d \in SeqSet(rt.deps) : d.from <= ep} IN
    IF ok = {} THEN -1 ELSE (CHOOSE d \in ok : \A x \in ok : x.from <= d.from).ver

(* isSuitableExecutorWorker + the stake and validator-set pre-filters, recomputed from the raw records *)
CEligible(n, rt, role, I, valEnts) ==
    /\ n.compute /\ ~n.frozen /\ n.exp >= I.epoch
    /\ StakeOK(n.ent, I)
    /\ InForce(rt, I.epoch) >= 0
    /\ \E x \in SeqSet(n.rts) : x.id = rt.id /\ x.ver = InForce(rt, I.epoch) /\ ~x.tee
    /\ rt.id \notin SeqSet(n.susp)
    /\ (rt.cons[role].vs => n.ent \in valEnts)
    \* VRF beacon (production path): only nodes that were registered before the previous epoch's alpha was fixed and that
    \* submitted a proof for it take part in committee elections
    /\ (HasF(I, "vrf") /\ I.vrf) => (n.pi /\ n.elig)

PoolSize(rt, role, I, valEnts) ==
    LET el == {n \in SeqSet(I.nodes) : CEligible(n, rt, role, I, valEnts)}
        mx == rt.cons[role].max
        per(e) == Cardinality({n \in el : n.ent = e})
    IN  FoldSet(LAMBDA e, t : t + (IF mx > 0 /\ per(e) > mx THEN mx ELSE per(e)), 0, {n.ent : n \in el})

CommitteeClauses(ev, I, valEnts) ==
    LET cs == CommitteesOf(ev)
        rts == RuntimesOf(I)
        ns == SeqSet(I.nodes)
        rtOf(c) == CHOOSE r \in rts : r.id = c.rt
        fresh == {c \in cs : c.valid_for = ev.epoch}
        mem(c, role) == {i \in DOMAIN c.members : c.members[i].role = role}
        size(rt, role) == IF role = "worker" THEN rt.gs ELSE rt.bs
        roles == {"worker", "backup"}
    IN <<
        <<\A c \in fresh : \E r \in rts : r.id = c.rt /\ r.compute,
          "a committee was elected for a runtime that is not an active compute runtime">>,
        <<(HasF(I, "vrf") /\ I.vrf /\ ~I.can_elect) => fresh = {},
          "a committee was elected although the previous epoch's VRF input was not of high quality">>,
        <<\A c \in cs : (\E r \in rts : r.id = c.rt) => c.valid_for = ev.epoch,
          "an active runtime keeps a committee of an earlier epoch after an election">>,
        <<\A c \in fresh : (\E r \in rts : r.id = c.rt /\ ~r.tee) =>
             \A i \in DOMAIN c.members : \E n \in ns : n.id = c.members[i].id /\ CEligible(n, rtOf(c), c.members[i].role, I, valEnts),
          "a committee member is not an eligible node (role, runtime version, expiry, freeze, suspension, entity stake)">>,
        <<\A c \in fresh : (\E r \in rts : r.id = c.rt) =>
             \A role \in roles : Cardinality(mem(c, role)) = size(rtOf(c), role),
          "a committee does not have exactly the configured number of workers and backup workers">>,
        <<\A c \in fresh : (\E r \in rts : r.id = c.rt) =>
             \A role \in roles : rtOf(c).cons[role].max > 0 =>
                 \A e \in {n.ent : n \in ns} :
                     Cardinality({i \in mem(c, role) : \E n \in ns : n.id = c.members[i].id /\ n.ent = e}) <= rtOf(c).cons[role].max,
          "an entity has more committee members in a role than MaxNodes allows">>,
        <<\A c \in fresh : (\E r \in rts : r.id = c.rt /\ ~r.tee) =>
             \A role \in roles : size(rtOf(c), role) > 0 => PoolSize(rtOf(c), role, I, valEnts) >= rtOf(c).cons[role].minp,
          "a committee was elected although a role's candidate pool is below MinPoolSize">>,
        <<\A c \in fresh : \A role \in roles :
             Cardinality({c.members[i].id : i \in mem(c, role)}) = Cardinality(mem(c, role)),
          "a node was elected twice into the same role">>,
        <<\A c, d \in cs : (c.rt = d.rt /\ c.kind = d.kind) => c = d, "two committees of the same kind for one runtime">>
       >>

TrOut ==
    /\ Is("elect_out")
    /\ haveInp
    /\ LET \* freeze and suspension status as the election found it: the applications told about the coming election (roothash:
           \* liveness of the ending epoch) change them before the candidates are read, the scheduler itself never does - so the
           \* status once the election is over is the status the election read
           Upd(n) == IF HasF(Ev, "status_after") /\ n.id \in DOMAIN Ev.status_after
                     THEN [n EXCEPT !.frozen = Ev.status_after[n.id].frozen, !.susp = Ev.status_after[n.id].susp] ELSE n
           I  == [inp EXCEPT !.nodes = [i \in DOMAIN inp.nodes |-> Upd(inp.nodes[i])]]
           ns == SeqSet(I.nodes)
           vs == SeqSet(Ev.validators)
           elBase == {n \in ns : Eligible(n, I)}
           \* VRF beacon: when at least MinValidators stake-eligible validator nodes proved for the previous alpha, the
           \* election sorts by hashed betas and only nodes with a proof take part (shuffleValidators / sortNodesByHashedBeta)
           withPi == {n \in elBase : n.pi}
           el == IF HasF(I, "vrf") /\ I.vrf /\ Cardinality(withPi) >= Ev.min_validators THEN withPi ELSE elBase
           nodeOf(v) == {n \in ns : n.cons = v.cons}
           elEnts == {v.ent : v \in vs}
           stake(e) == I.entities[e].escrow
       IN
       /\ SetBad(<<
            <<\A v \in vs : \E n \in el : n.cons = v.cons /\ n.ent = v.ent, "an elected validator is not an eligible registered node">>,
            <<Cardinality(vs) <= Ev.max_validators, "more validators than the configured maximum">>,
            <<\A e \in elEnts : Cardinality({v \in vs : v.ent = e}) <= Ev.max_per_entity, "more validators of one entity than allowed">>,
            <<Cardinality({v.cons : v \in vs}) = Cardinality(vs), "a consensus key elected twice">>,
            <<\A u \in {n.ent : n \in el} \ elEnts : \A e \in elEnts : stake(u) <= stake(e),
              "an eligible entity with strictly more stake than an elected one was passed over">>,
            <<(el # {}) => vs # {}, "eligible validators exist but none was elected">>,
            <<(Cardinality(vs) < Ev.max_validators) => \A u \in {n.ent : n \in el} : u \in elEnts,
              "the validator set is not full although an eligible entity was left out">>,
            <<\A v, w \in vs : stake(v.ent) >= stake(w.ent) => v.power >= w.power, "voting power is not non-decreasing in stake">>,
            <<\A v \in vs : v.power > 0, "elected validator without voting power">>,
            \* nodes frozen by the applications that were told about the coming election (liveness of the ending epoch) are frozen
            \* before the candidates are read: a node that is frozen once the election is over was not elected in it
            <<HasF(Ev, "frozen_after") =>
                 /\ \A v \in vs : \A n \in nodeOf(v) : n.id \notin SeqSet(Ev.frozen_after)
                 /\ \A c \in {x \in CommitteesOf(Ev) : x.valid_for = Ev.epoch} :
                        \A i \in DOMAIN c.members : c.members[i].id \notin SeqSet(Ev.frozen_after),
              "a node that is frozen once the election is over was elected in it (validator or committee member)">>
          >> \o CommitteeClauses(Ev, I, elEnts))
       /\ pending' = {<<v.cons, v.power>> : v \in vs} /\ havePending' = TRUE
    /\ nElections' = nElections + 1
    /\ UNCHANGED <<cur, inp, haveInp>>

ApplyUpd(S, upd) ==
    LET keys == {u.cons : u \in upd} IN
    {x \in S : x[1] \notin keys} \cup {<<u.cons, u.power>> : u \in {w \in upd : w.power > 0}}

TrEnd ==
    /\ Is("end")
    /\ LET upd == SeqSet(Ev.valupd2)
           nxt == ApplyUpd(cur, upd)
       IN /\ cur' = nxt
          /\ SetBad(<<
               <<havePending => nxt = pending, "previous validator set plus the updates is not the newly elected set">>,
               <<(~havePending) => upd = {}, "validator updates without an election">>
             >>)
    /\ pending' = {} /\ havePending' = FALSE /\ UNCHANGED <<inp, haveInp, nElections>>

Known == {"begin_chain", "elect_in", "elect_out", "end"}
TrSkip == l <= Len(Trace) /\ Ev.ev \notin Known /\ l' = l + 1 /\ UNCHANGED <<cur, inp, haveInp, pending, havePending, bad, nElections>>

TraceNext == TrChain \/ TrIn \/ TrOut \/ TrEnd \/ TrSkip
TraceSpec == TraceInit /\ [][TraceNext]_tvars
RuleHolds == bad = "none"
TraceAccepted == TLCGet("stats").diameter - 1 = Len(Trace)
=============================================================================
