SPECIFICATION Spec
CONSTANTS
  Accts <- A3
  Escrows <- E1
  MaxAmt = 3
  MaxSteps = 6
VIEW view
INVARIANTS Inv
PROPERTIES StepRules
CHECK_DEADLOCK FALSE
