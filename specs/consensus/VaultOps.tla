------------------------------ MODULE VaultOps ------------------------------
(***************************************************************************)
(* The vault application (go/consensus/cometbft/apps/vault, go/vault/api)  *)
(* at the grain of its transactions.  A vault is an account of the staking *)
(* ledger whose funds leave it only in two ways: through a message the     *)
(* vault's admin authority has the vault execute, or through withdrawals   *)
(* by addresses the admins gave a withdraw policy (at most `limit` base    *)
(* units per `interval` blocks), checked by the account hook the staking   *)
(* application invokes.                                                    *)
(*                                                                         *)
(* One vault record:                                                       *)
(*   [active, nonce,                                                       *)
(*    admin |-> [a |-> set of accounts, t |-> threshold], susp |-> same,   *)
(*    pending |-> {} or {[nonce, by |-> set of accounts, act]},            *)
(*    states |-> set of [addr, limit, interval, bucket, amount]]           *)
(* An action record is [k, addr, limit, interval, which, a, t, amount]     *)
(* with k in suspend | resume | policy | authority | exec (anything else   *)
(* is malformed); `a` is the member list of an authority (a sequence, so   *)
(* that duplicates show).                                                  *)
(*                                                                         *)
(* The operators below transcribe create / authorizeAction / cancelAction  *)
(* (transactions.go), executeAction (action.go), invokeAccountHook         *)
(* (messages.go) and AddressState.AuthorizeWithdrawal / UpdateWithdraw-    *)
(* Policy (api/policy.go).  TraceVault.tla binds them to recorded          *)
(* executions; Vault.tla is a closed model over them (a few accounts, one  *)
(* vault) on which TLC checks the declarative statements                   *)
(*   VQuota    what an address withdrew in one bucket of one policy        *)
(*             interval never exceeds the largest limit in force at one of *)
(*             those withdrawals                                           *)
(*   VAuth     an action takes effect only when at least `threshold`       *)
(*             distinct members of an authority responsible for that kind  *)
(*             of action authorized exactly this action at this nonce      *)
(*   VSusp     nothing is withdrawn from a suspended vault                 *)
(*   VNonce    the nonce counts the executed and cancelled actions; a      *)
(*             pending action is always the one for the current nonce      *)
(***************************************************************************)
EXTENDS Integers, Sequences, FiniteSets, FiniteSetsExt, TLC

SeqSet(s) == {s[i] : i \in DOMAIN s}

MaxAuthorityAddresses == 32

(* Authority.Validate on the member LIST and threshold of a request *)
AuthorityOK(a, t) ==
    /\ Len(a) > 0 /\ t > 0 /\ t <= Len(a) /\ Len(a) <= MaxAuthorityAddresses
    /\ Cardinality(SeqSet(a)) = Len(a)

Kinds == {"suspend", "resume", "policy", "authority", "exec"}

(* Action.Validate *)
ActionOK(act) ==
    /\ act.k \in Kinds
    /\ act.k = "authority" => (act.which \in {"admin", "suspend"} /\ AuthorityOK(act.a, act.t))

(* the authorities that may authorize an action of this kind *)
Responsible(v, act) == IF act.k \in {"suspend", "resume"} THEN {v.admin, v.susp} ELSE {v.admin}
IsAuthorized(v, act, who) == \E au \in Responsible(v, act) : who \in au.a
Verified(au, by) == Cardinality(by \cap au.a) >= au.t
CanExecute(v, act, by) == \E au \in Responsible(v, act) : Verified(au, by)

StateOf(v, addr) == CHOOSE s \in v.states : s.addr = addr
HasState(v, addr) == \E s \in v.states : s.addr = addr

(* executeAction on the vault record (a message the vault executes acts on other modules' state only) *)
Execute(v, act) ==
    CASE act.k = "suspend" -> [v EXCEPT !.active = FALSE]
      [] act.k = "resume" -> [v EXCEPT !.active = TRUE]
      [] act.k = "policy" ->
            LET old == IF HasState(v, act.addr) THEN StateOf(v, act.addr)
                       ELSE [addr |-> act.addr, limit |-> 0, interval |-> 0, bucket |-> 0, amount |-> 0]
                new == IF old.interval # act.interval
                       THEN [addr |-> act.addr, limit |-> act.limit, interval |-> act.interval, bucket |-> 0, amount |-> 0]
                       ELSE [old EXCEPT !.limit = act.limit]
            IN [v EXCEPT !.states = (@ \ {old}) \cup {new}]
      [] act.k = "authority" ->
            IF act.which = "admin" THEN [v EXCEPT !.admin = [a |-> SeqSet(act.a), t |-> act.t]]
            ELSE [v EXCEPT !.susp = [a |-> SeqSet(act.a), t |-> act.t]]
      [] OTHER -> v

NoPending(v) == v.pending = {}
Pending(v) == CHOOSE p \in v.pending : TRUE

(* authorizeAction: does the vault application accept it, and the vault afterwards *)
AuthorizeOK(v, who, n, act) ==
    /\ ActionOK(act)
    /\ n = v.nonce
    /\ IsAuthorized(v, act, who)
    /\ IF NoPending(v) THEN TRUE ELSE Pending(v).act = act
Authorize(v, who, n, act) ==
    LET by == (IF NoPending(v) THEN {} ELSE Pending(v).by) \cup {who} IN
    IF CanExecute(v, act, by)
    THEN [Execute(v, act) EXCEPT !.pending = {}, !.nonce = v.nonce + 1]
    ELSE [v EXCEPT !.pending = {[nonce |-> n, by |-> by, act |-> act]}]

(* cancelAction *)
CancelOK(v, who, n) ==
    /\ n = v.nonce
    /\ who \in v.admin.a \cup v.susp.a
    /\ IF NoPending(v) THEN FALSE ELSE IsAuthorized(v, Pending(v).act, who)
Cancel(v) == [v EXCEPT !.pending = {}, !.nonce = v.nonce + 1]

(* the account hook: AddressState.AuthorizeWithdrawal at block height h *)
Disabled(s) == s.limit = 0 \/ s.interval = 0
WithdrawOK(v, who, amt, h) ==
    /\ v.active
    /\ IF ~HasState(v, who) THEN FALSE ELSE
       LET s == StateOf(v, who) IN
       IF amt = 0 THEN TRUE
       ELSE IF Disabled(s) THEN FALSE
       ELSE amt + (IF s.bucket = h \div s.interval THEN s.amount ELSE 0) <= s.limit
Withdraw(v, who, amt, h) ==
    IF amt = 0 THEN v
    ELSE LET s == StateOf(v, who)
             b == h \div s.interval
             new == [s EXCEPT !.bucket = b, !.amount = amt + (IF s.bucket = b THEN s.amount ELSE 0)]
         IN [v EXCEPT !.states = (@ \ {s}) \cup {new}]

NewVault(admin, susp) ==
    [active |-> TRUE, nonce |-> 0, admin |-> [a |-> SeqSet(admin.a), t |-> admin.t], susp |-> [a |-> SeqSet(susp.a), t |-> susp.t],
     pending |-> {}, states |-> {}]
=============================================================================
