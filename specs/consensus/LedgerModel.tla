---------------------------- MODULE LedgerModel ----------------------------
(***************************************************************************)
(* Operational model of the staking ledger: every balance-moving step of   *)
(* the staking application as one action with the code's exact integer     *)
(* arithmetic (floor divisions of SharePool.Deposit / Withdraw, slashing   *)
(* taking the same fraction of both pools, fee split with remainder to the *)
(* common pool).  The ledger uses the record shape of Ledger.tla so that   *)
(* the SAME rule operators (Conserved, SharesOK, DepositFair, ReclaimFair, *)
(* PriceNotFalling) that TraceLedger evaluates on real recorded states are *)
(* here checked by TLC on all small-integer histories.                     *)
(***************************************************************************)
EXTENDS Ledger, SequencesExt

CONSTANTS Accts,      \* account names
          Escrows,    \* accounts that receive delegations (subset of Accts)
          MaxAmt,     \* amounts 0..MaxAmt
          MaxSteps

VARIABLES L, fees, epoch, steps, last,  \* last: [k, ...] description of the last action (for the step rules)
          hist                           \* generation only: pool operations with the expected pool state

vars == <<L, fees, epoch, steps, last, hist>>

Amts == 0..MaxAmt

Acc0(g, ab) == [g |-> g, n |-> 0, ab |-> ab, as |-> ab, db |-> 0, ds |-> 0, allow |-> <<>>]

Init ==
    /\ L = [supply |-> 0, common |-> 2, lastfees |-> 0, govdep |-> 0,
            acc |-> [a \in Accts |-> Acc0(3, IF a \in Escrows THEN 2 ELSE 0)],
            del |-> <<>>, deb |-> <<>>]
    /\ fees = 0 /\ epoch = 0 /\ steps = 0 /\ last = [k |-> "init"] /\ hist = <<>>

(* make the initial ledger consistent: self-delegations for the initial escrow balances, supply = sum *)
Normalize(M) ==
    LET dl == SetToSeq({<<e, e, M.acc[e].as>> : e \in {x \in Escrows : M.acc[x].as > 0}})
        M1 == [M EXCEPT !.del = dl]
    IN  [M1 EXCEPT !.supply = AccTotal(M1) + M1.common + M1.govdep + M1.lastfees]

SetShares(M, d, e, s) ==
    LET rest == SelectSeq(M.del, LAMBDA x : ~(x[1] = d /\ x[2] = e)) IN
    [M EXCEPT !.del = IF s = 0 THEN rest ELSE Append(rest, <<d, e, s>>)]

PoolOf(M, e) == [ab |-> M.acc[e].ab, as |-> M.acc[e].as, db |-> M.acc[e].db, ds |-> M.acc[e].ds,
                 sh |-> [d \in Accts |-> Shares(M, d, e)], g |-> [d \in Accts |-> M.acc[d].g]]

Step(k) ==
    /\ steps' = steps + 1 /\ last' = k
    /\ hist' = IF k.k \in {"escrow", "reclaim", "reward", "slash", "normalize", "epoch"}
               THEN Append(hist, [op |-> k, epoch |-> epoch', pools |-> [e \in Escrows |-> PoolOf(L', e)]])
               ELSE hist

Transfer_(a, b, amt) ==
    /\ L.acc[a].g >= amt /\ a # b
    /\ L' = Transfer(L, a, b, amt)
    /\ UNCHANGED <<fees, epoch>> /\ Step([k |-> "transfer"])

Burn_(a, amt) ==
    /\ L.acc[a].g >= amt
    /\ L' = Burn(L, a, amt)
    /\ UNCHANGED <<fees, epoch>> /\ Step([k |-> "burn", amt |-> amt])

PayFee(a, amt) ==
    /\ L.acc[a].g >= amt
    /\ L' = [L EXCEPT !.acc[a].g = @ - amt, !.acc[a].n = @ + 1]
    /\ fees' = fees + amt
    /\ UNCHANGED epoch /\ Step([k |-> "fee"])

(* SharePool.Deposit *)
AddEscrow(d, e, amt) ==
    LET B == L.acc[e].ab  T == L.acc[e].as IN
    /\ amt > 0 /\ L.acc[d].g >= amt
    /\ (T = 0 \/ B > 0)                      \* a pool slashed to zero with outstanding shares accepts no deposits
    /\ LET s == IF T = 0 THEN amt ELSE (amt * T) \div B
           M1 == [L EXCEPT !.acc[d].g = @ - amt]
           M2 == [M1 EXCEPT !.acc[e].ab = @ + amt, !.acc[e].as = @ + s]
       IN L' = SetShares(M2, d, e, Shares(L, d, e) + s)
    /\ UNCHANGED <<fees, epoch>> /\ Step([k |-> "escrow", d |-> d, e |-> e, amt |-> amt])

(* SharePool.Withdraw from the active pool followed by Deposit into the debonding pool *)
Reclaim(d, e, s) ==
    LET B == L.acc[e].ab  T == L.acc[e].as  DB == L.acc[e].db  DT == L.acc[e].ds IN
    /\ s > 0 /\ Shares(L, d, e) >= s
    /\ LET p  == IF B = 0 \/ T = 0 THEN 0 ELSE (s * B) \div T
           ok == DT = 0 \/ DB > 0
           ds == IF DT = 0 THEN p ELSE (p * DT) \div DB
           M1 == [L EXCEPT !.acc[e].ab = @ - p, !.acc[e].as = @ - s, !.acc[e].db = @ + p, !.acc[e].ds = @ + ds]
           M2 == SetShares(M1, d, e, Shares(L, d, e) - s)
       IN /\ ok /\ ds > 0
          /\ L' = [M2 EXCEPT !.deb = Append(@, <<d, e, ds, epoch + 1>>)]
    /\ UNCHANGED <<fees, epoch>> /\ Step([k |-> "reclaim", d |-> d, e |-> e, s |-> s])

(* reward from the common pool into an escrow pool (all delegators gain) *)
Reward(e, amt) ==
    /\ amt > 0 /\ L.common >= amt /\ L.acc[e].as > 0
    /\ L' = [L EXCEPT !.common = @ - amt, !.acc[e].ab = @ + amt]
    /\ UNCHANGED <<fees, epoch>> /\ Step([k |-> "reward", e |-> e, amt |-> amt])

(* slashing takes the same fraction from the active and the debonding pool, up to the amount *)
Slash(e, amt) ==
    LET A == L.acc[e].ab  D == L.acc[e].db  tot == A + D IN
    /\ amt > 0 /\ tot > 0
    /\ LET x  == IF amt > tot THEN tot ELSE amt
           xa == (x * A) \div tot
           xd == (x * D) \div tot
       IN L' = [L EXCEPT !.acc[e].ab = @ - xa, !.acc[e].db = @ - xd, !.common = @ + xa + xd]
    /\ UNCHANGED <<fees, epoch>> /\ Step([k |-> "slash", e |-> e, amt |-> amt])

(* epoch transition: every debonding entry that has reached its end epoch is paid at the debonding pool's price *)
RECURSIVE PayOut(_, _, _)
PayOut(M, q, ep) ==
    IF q = <<>> THEN [M EXCEPT !.deb = SelectSeq(M.deb, LAMBDA x : x[4] > ep)]
    ELSE LET x == Head(q) IN
         IF x[4] > ep THEN PayOut(M, Tail(q), ep)
         ELSE LET e == x[2]
                  p == IF M.acc[e].ds = 0 \/ M.acc[e].db = 0 THEN 0 ELSE (x[3] * M.acc[e].db) \div M.acc[e].ds
              IN PayOut([M EXCEPT !.acc[e].db = @ - p, !.acc[e].ds = @ - x[3], !.acc[x[1]].g = @ + p], Tail(q), ep)

NextEpoch ==
    /\ epoch' = epoch + 1
    /\ L' = PayOut(L, L.deb, epoch + 1)
    /\ UNCHANGED fees /\ Step([k |-> "epoch"])

(* end of block: the fee accumulator is split; remainder to the common pool; here: half to one account, rest carried *)
EndBlock(a) ==
    /\ fees > 0 /\ L.lastfees = 0      \* BeginBlock has always disbursed the carried fees before
    /\ LET half == fees \div 2 IN
       L' = [L EXCEPT !.acc[a].g = @ + half, !.lastfees = fees - half]
    /\ fees' = 0 /\ UNCHANGED epoch /\ Step([k |-> "end"])

BeginBlock(a) ==
    /\ fees = 0 /\ L.lastfees > 0
    /\ LET third == L.lastfees \div 3 IN
       L' = [L EXCEPT !.acc[a].g = @ + third, !.common = @ + (L.lastfees - third), !.lastfees = 0]
    /\ UNCHANGED <<fees, epoch>> /\ Step([k |-> "begin"])

Normalized == L.supply # 0

Next ==
    /\ steps < MaxSteps
    /\ IF ~Normalized THEN L' = Normalize(L) /\ UNCHANGED <<fees, epoch>> /\ Step([k |-> "normalize"])
       ELSE \/ \E a, b \in Accts, amt \in Amts : Transfer_(a, b, amt)
            \/ \E a \in Accts, amt \in Amts : Burn_(a, amt) \/ PayFee(a, amt)
            \/ \E d \in Accts, e \in Escrows, amt \in Amts : AddEscrow(d, e, amt) \/ Reclaim(d, e, amt)
            \/ \E e \in Escrows, amt \in Amts : Reward(e, amt) \/ Slash(e, amt)
            \/ NextEpoch
            \/ \E a \in Accts : EndBlock(a) \/ BeginBlock(a)

Spec == Init /\ [][Next]_vars

(* pool operations only (generation of SharePool behaviours for replay on the real staking.SharePool) *)
PoolNext ==
    /\ steps < MaxSteps
    /\ IF ~Normalized THEN L' = Normalize(L) /\ UNCHANGED <<fees, epoch>> /\ Step([k |-> "normalize"])
       ELSE \/ \E d \in Accts, e \in Escrows, amt \in Amts : AddEscrow(d, e, amt) \/ Reclaim(d, e, amt)
            \/ \E e \in Escrows, amt \in Amts : Reward(e, amt) \/ Slash(e, amt)
            \/ NextEpoch
PoolSpec == Init /\ [][PoolNext]_vars

view == <<L, fees, epoch>>
LastOp == IF hist = <<>> THEN <<>> ELSE hist[Len(hist)].op
genview == <<L, epoch, LastOp>>
PoolKinds == {"normalize", "escrow", "reclaim", "reward", "slash", "epoch"}

-----------------------------------------------------------------------------
Inv ==
    Normalized =>
        /\ Conserved(L, fees)
        /\ SharesOK(L)
        /\ NonNegative(L)

(* C05 A1 / C15 step rules on the operational model *)
StepRules ==
    [][ Normalized =>
          /\ L'.supply <= L.supply
          /\ (L'.supply # L.supply) => (last'.k = "burn" /\ L.supply - L'.supply = last'.amt)
          /\ (last'.k = "escrow") => DepositFair(L, L', last'.d, last'.e, last'.amt)
          /\ (last'.k = "reclaim") => ReclaimFair(L, L', last'.d, last'.e, last'.s)
          /\ (last'.k \notin {"slash", "normalize"}) => PriceNotFalling(L, L')
      ]_vars
=============================================================================
