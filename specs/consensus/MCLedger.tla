------------------------------ MODULE MCLedger ------------------------------
EXTENDS LedgerModel, Json
A3 == {"a", "b", "e"}
E1 == {"e"}
EmitInv == (hist # <<>> /\ last.k \in PoolKinds /\ last.k # "normalize") => PrintT(ToJson([ops |-> hist]))
=============================================================================
