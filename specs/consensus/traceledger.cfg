SPECIFICATION TraceSpec
CONSTANTS
  Props = {"C05", "C08", "C09", "C15"}
INVARIANTS RuleHolds
POSTCONDITION TraceAccepted
CHECK_DEADLOCK FALSE
