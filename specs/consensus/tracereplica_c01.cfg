SPECIFICATION TraceSpec
CONSTANTS
  Props = {"C01"}
INVARIANTS RuleHolds
POSTCONDITION TraceAccepted
CHECK_DEADLOCK FALSE
