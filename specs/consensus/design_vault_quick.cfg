SPECIFICATION MSpec
CONSTANTS
  Accts <- A2
  MaxH = 3
  Limits <- L2
  Intervals <- I2
  MaxNonce = 2
INVARIANTS VQuota PendingAtNonce
PROPERTIES VAuth VSusp VNonceStep
CHECK_DEADLOCK FALSE
