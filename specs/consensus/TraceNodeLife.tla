--------------------------- MODULE TraceNodeLife ---------------------------
(***************************************************************************)
(* Epochs and the life cycle of node records on recorded executions of the *)
(* real multiplexer (harness `cons-run`).  Events: begin_chain (epoch      *)
(* interval, debonding interval, beacon backend), begin (height, epoch of  *)
(* the block as the beacon application reports it after BeginBlock), reg   *)
(* (the registry's node records with their expiration epochs at the end of *)
(* the block).                                                             *)
(*                                                                         *)
(*   E1  the epoch never decreases and advances by at most one per block   *)
(*   E2  on the insecure beacon backend the epoch of height h is           *)
(*       h div interval (as seen after BeginBlock of that height)          *)
(*   N1  a node record leaves the registry only in a block in which the    *)
(*       epoch changed, and only when its registration has been expired    *)
(*       for longer than the debonding interval                            *)
(*       (expiration + debonding < new epoch) - until then it must stay on *)
(*       record, because an expired node can still be slashed              *)
(*   N2  after such a block no record that is due for removal is left      *)
(*   N3  a record keeps its entity from block to block unless the old      *)
(*       record was removed in this very block (a removed node may         *)
(*       register again under another entity)                              *)
(*                                                                         *)
(* N3 restates part of C17 on consecutive block states; E1-E2, N1-N2 are   *)
(* behaviour outside the twenty listed properties: deviations are printed  *)
(* as SPEC-DEVIATION (DESIGN.md R.10).                                     *)
(***************************************************************************)
EXTENDS Integers, Sequences, FiniteSets, TLC, Json

Trace == ndJsonDeserialize("trace.ndjson")
VARIABLES l, cfg, epoch, prevEpoch, have, nodes, bad
tvars == <<l, cfg, epoch, prevEpoch, have, nodes, bad>>
Ev == Trace[l]
Is(e) == l <= Len(Trace) /\ Ev.ev = e /\ l' = l + 1
SeqSet(s) == {s[i] : i \in DOMAIN s}

NoCfg == [interval |-> 1, debond |-> 1, vrf |-> FALSE]
TraceInit == l = 1 /\ cfg = NoCfg /\ epoch = 0 /\ prevEpoch = 0 /\ have = FALSE /\ nodes = {} /\ bad = "none"

RECURSIVE FirstBad(_)
FirstBad(cs) == IF cs = <<>> THEN "none" ELSE IF ~Head(cs)[1] THEN Head(cs)[2] ELSE FirstBad(Tail(cs))
SetBad(cs) == bad' = IF bad # "none" THEN bad ELSE FirstBad(cs)

TrChain ==
    /\ Is("begin_chain")
    /\ cfg' = [interval |-> Ev.epoch_interval, debond |-> IF "debond" \in DOMAIN Ev THEN Ev.debond ELSE 1,
               vrf |-> IF "vrf" \in DOMAIN Ev THEN Ev.vrf ELSE FALSE]
    /\ epoch' = 0 /\ prevEpoch' = 0 /\ have' = FALSE /\ nodes' = {}
    /\ UNCHANGED bad

TrBegin ==
    /\ Is("begin")
    /\ epoch' = Ev.epoch /\ prevEpoch' = epoch /\ have' = TRUE
    /\ SetBad(<<
         <<have => (Ev.epoch >= epoch /\ Ev.epoch <= epoch + 1), "E1: the epoch went backwards or advanced by more than one in a block">>,
         <<~cfg.vrf => Ev.epoch = Ev.h \div cfg.interval, "E2: the epoch of the block is not height div interval">>
       >>)
    /\ UNCHANGED <<cfg, nodes>>

Rec(n) == [id |-> n.id, ent |-> n.ent, exp |-> n.exp]
Due(n) == n.exp + cfg.debond < epoch

TrReg ==
    /\ Is("reg")
    /\ LET now == {Rec(n) : n \in SeqSet(Ev.reg.nodes)}
           ids(S) == {n.id : n \in S}
           gone == {n \in nodes : n.id \notin ids(now)}
           changed == epoch # prevEpoch
       IN /\ SetBad(<<
               <<\A n \in gone : changed /\ Due(n), "N1: a node record was removed outside an epoch transition or before it had been expired for the debonding interval">>,
               <<changed => \A n \in now : ~Due(n), "N2: a node record that is due for removal survived the epoch transition">>,
               <<\A n \in nodes : \A m \in now : (m.id = n.id /\ m.ent # n.ent) => (changed /\ Due(n)),
                 "N3: a node changed its entity although its record was not due for removal in this block">>
             >>)
          /\ nodes' = now
    /\ UNCHANGED <<cfg, epoch, prevEpoch, have>>

Known == {"begin_chain", "begin", "reg"}
TrSkip == l <= Len(Trace) /\ Ev.ev \notin Known /\ l' = l + 1 /\ UNCHANGED <<cfg, epoch, prevEpoch, have, nodes, bad>>
TraceNext == TrChain \/ TrBegin \/ TrReg \/ TrSkip
TraceSpec == TraceInit /\ [][TraceNext]_tvars
RuleHolds == bad = "none"
TraceAccepted == TLCGet("stats").diameter - 1 = Len(Trace)
=============================================================================
