-------------------------- MODULE TraceGovernance --------------------------
(***************************************************************************)
(* Governance life cycle on recorded executions of the real multiplexer    *)
(* (harness `cons-run`): every block's governance projection (proposals,   *)
(* votes, parameters, entities of the current validator set; read from the *)
(* state after EndBlock) is judged against the declarative rules below,    *)
(* together with the staking ledger of the same block.                     *)
(*                                                                         *)
(*   G1  proposals are numbered 1, 2, ...; a new one appears exactly for a *)
(*       successful SubmitProposal of the block, is active, carries the    *)
(*       minimum deposit in force and closes VotingPeriod epochs later;    *)
(*       submitter / deposit / closing epoch never change; a closed        *)
(*       proposal never changes at all                                     *)
(*   G2  a proposal is active exactly while epoch < closes_at              *)
(*   G3  recorded votes = previous votes overridden by the successful      *)
(*       CastVote transactions of the block; a vote is accepted only for   *)
(*       an open proposal and only from an eligible voter                  *)
(*   G4  the results of a closing proposal are the stake-weighted tally of *)
(*       its votes (a delegator's vote moves its shares away from its      *)
(*       validator's vote), its invalid-vote count is the number of voters *)
(*       without a delegation to a validator, and it passes iff            *)
(*       yes > 0 /\ floor(100 yes / total) >= StakeThreshold               *)
(*   G5  the governance deposit pool holds exactly the deposits of the     *)
(*       active proposals (part of C05's conservation statement)           *)
(*                                                                         *)
(* `bad` names the first broken clause.  G5 is a clause of the listed      *)
(* property C05; G1-G4 describe behaviour outside the twenty listed        *)
(* properties and are reported as SPEC-DEVIATION (DESIGN.md R.9).          *)
(***************************************************************************)
EXTENDS Integers, Sequences, FiniteSets, FiniteSetsExt, TLC, Json

Trace == ndJsonDeserialize("trace.ndjson")

VARIABLES l,
          epoch,     \* epoch of the block being processed (from its begin event)
          G,         \* governance projection after the previous block (record) ...
          M,         \* ... and its ledger
          have,      \* a previous block exists in this chain
          newp,      \* signers of the successful SubmitProposal transactions of this block, in order
          newv,      \* successful CastVote transactions of this block, in order: [voter, id, vote]
          bad

tvars == <<l, epoch, G, M, have, newp, newv, bad>>

Relevant == {"begin_chain", "begin", "tx", "end"}
Ev == Trace[l]
Is(e) == l <= Len(Trace) /\ Ev.ev = e /\ l' = l + 1

NoG == [proposals |-> <<>>, vals |-> <<>>, valnodes |-> <<>>, entities |-> <<>>, entnodes |-> <<>>]
NoM == [acc |-> <<>>, del |-> <<>>, govdep |-> 0]

TraceInit ==
    /\ l = 1 /\ epoch = 0 /\ G = NoG /\ M = NoM /\ have = FALSE /\ newp = <<>> /\ newv = <<>> /\ bad = "none"

RECURSIVE FirstBad(_)
FirstBad(cs) == IF cs = <<>> THEN "none"
                ELSE IF ~Head(cs)[1] THEN Head(cs)[2] ELSE FirstBad(Tail(cs))
SetBad(cs) == bad' = IF bad # "none" THEN bad ELSE FirstBad(cs)

TrSkip == /\ l <= Len(Trace) /\ Ev.ev \notin Relevant /\ l' = l + 1
          /\ UNCHANGED <<epoch, G, M, have, newp, newv, bad>>

TrChain == /\ Is("begin_chain")
           /\ epoch' = 0 /\ G' = NoG /\ M' = NoM /\ have' = FALSE /\ newp' = <<>> /\ newv' = <<>>
           /\ UNCHANGED bad

TrBegin == /\ Is("begin")
           /\ epoch' = Ev.epoch /\ newp' = <<>> /\ newv' = <<>>
           /\ UNCHANGED <<G, M, have, bad>>

TrTx == /\ Is("tx")
        /\ LET s == Ev.spec IN
           IF Ev.code = 0 /\ "kind" \in DOMAIN s /\ s.kind = "propose"
           THEN newp' = Append(newp, s.signer) /\ UNCHANGED newv
           ELSE IF Ev.code = 0 /\ "kind" \in DOMAIN s /\ s.kind = "vote"
           THEN newv' = Append(newv, [voter |-> s.signer, id |-> s.amount, vote |-> s.vote]) /\ UNCHANGED newp
           ELSE UNCHANGED <<newp, newv>>
        /\ UNCHANGED <<epoch, G, M, have, bad>>

---------------------------------------------------------------------------
SeqSet(s) == {s[i] : i \in DOMAIN s}
SumOver(S, f(_)) == FoldSet(LAMBDA x, a : f(x) + a, 0, S)

(* votes of a proposal as a set of <<voter, vote>>; the voters *)
VotesOf(p) == {<<p.votes[i][1], p.votes[i][2]>> : i \in DOMAIN p.votes}
Voters(p) == {x[1] : x \in VotesOf(p)}
VoteBy(p, a) == (CHOOSE x \in VotesOf(p) : x[1] = a)[2]

(* the last successful vote of the block by voter a for proposal id, if any *)
BlockVotes(id) == SelectSeq(newv, LAMBDA v : v.id = id)
LastBy(vs, a) == LET mine == SelectSeq(vs, LAMBDA v : v.voter = a) IN mine[Len(mine)].vote
ExpectedVotes(old, id) ==
    LET vs == BlockVotes(id)
        now == {vs[i].voter : i \in DOMAIN vs}
    IN  {x \in old : x[1] \notin now} \cup {<<a, LastBy(vs, a)>> : a \in now}

(* ledger access *)
Dels(L) == {L.del[i] : i \in DOMAIN L.del}          \* <<delegator, escrow account, shares>>
Bal(L, a) == IF a \in DOMAIN L.acc THEN L.acc[a].ab ELSE 0
Shr(L, a) == IF a \in DOMAIN L.acc THEN L.acc[a].as ELSE 0
DelegatesTo(L, a, V) == \E d \in Dels(L) : d[1] = a /\ d[2] \in V

(* G4: the tally *)
SharesFor(L, p, v, o) ==
    LET vd == {d \in Dels(L) : d[2] = v /\ d[1] \in Voters(p)}           \* delegations into v held by voters
        f(d) == IF VoteBy(p, d[1]) = o THEN d[3] ELSE 0
        g(d) == d[3]
    IN  SumOver(vd, f) + (IF v \in Voters(p) /\ VoteBy(p, v) = o THEN Shr(L, v) - SumOver(vd, g) ELSE 0)
StakeFor(L, p, v, o) == IF Shr(L, v) = 0 THEN 0 ELSE (SharesFor(L, p, v, o) * Bal(L, v)) \div Shr(L, v)
Tally(L, p, V, o) == LET f(v) == StakeFor(L, p, v, o) IN SumOver(V, f)
Total(L, V) == LET f(v) == Bal(L, v) IN SumOver(V, f)
Invalid(L, p, V) == Cardinality({a \in Voters(p) : ~DelegatesTo(L, a, V)})
InRange(L, V) == \A v \in V : Bal(L, v) >= 0 /\ Shr(L, v) >= 0       \* -1 marks a value outside TLC's integers

TallyOK(L, p, V, thr) ==
    LET yes == Tally(L, p, V, "yes") total == Total(L, V) IN
    /\ p.results.yes = yes /\ p.results.no = Tally(L, p, V, "no") /\ p.results.abstain = Tally(L, p, V, "abstain")
    /\ p.invalid = Invalid(L, p, V)
    /\ IF yes > 0 /\ total > 0 /\ (100 * yes) \div total >= thr
       THEN p.state \in {"passed", "failed"}       \* failed: passed the vote, its content could not be executed
       ELSE p.state = "rejected"

TrEnd ==
    /\ Is("end")
    /\ LET N  == Ev.gov
           L  == Ev.state
           P  == N.proposals
           Q  == G.proposals
           V  == SeqSet(N.vals)
           VV == V \cup SeqSet(G.vals)                          \* validator entities before or after this block's BeginBlock
           ents == SeqSet(N.entities) \cup SeqSet(G.entities)
           dep0 == IF have THEN G.params.min_deposit ELSE N.params.min_deposit
           Open(id) == id \in 1..Len(P) /\ (id > Len(Q) \/ Q[id].state = "active")
           VN == SeqSet(N.valnodes) \cup SeqSet(G.valnodes)
           Lists(X, a) == a \in DOMAIN X.entnodes /\ SeqSet(X.entnodes[a]) \cap VN # {}
           \* as the code has it: the entity's descriptor LISTS a current validator node (the list is a whitelist, the node
           \* need not be registered under this entity - such a vote carries no stake and is counted as invalid), or the
           \* voter delegates to a validator entity; a signer without an entity needs AllowVoteWithoutEntity
           Eligible(a) == /\ (Lists(N, a) \/ Lists(G, a) \/ DelegatesTo(L, a, VV) \/ DelegatesTo(M, a, VV))
                          /\ (a \in ents \/ N.params.allow_without_entity)
           PU == IF "pending_upgrades" \in DOMAIN N THEN SeqSet(N.pending_upgrades) ELSE {}
           Abs(x) == IF x < 0 THEN -x ELSE x
           act == {i \in DOMAIN P : P[i].state = "active"}
           dsum == LET f(i) == P[i].deposit IN SumOver(act, f)
       IN
       /\ SetBad(<<
            <<\A i \in DOMAIN P : P[i].id = i, "G1: proposal identifiers are not 1, 2, ...">>,
            <<Len(P) = Len(Q) + Len(newp), "G1: proposals appeared or vanished without a successful SubmitProposal">>,
            <<\A k \in DOMAIN newp : (Len(Q) + k) \in DOMAIN P =>
                  LET p == P[Len(Q) + k] IN
                  /\ p.submitter = newp[k] /\ p.state = "active" /\ p.created_at = epoch
                  /\ p.closes_at = epoch + N.params.period /\ p.deposit = dep0,
              "G1: a new proposal does not carry its submitter / minimum deposit / closing epoch">>,
            <<\A i \in DOMAIN Q : i \in DOMAIN P =>
                  /\ P[i].submitter = Q[i].submitter /\ P[i].deposit = Q[i].deposit /\ P[i].closes_at = Q[i].closes_at
                  /\ P[i].kind = Q[i].kind /\ P[i].created_at = Q[i].created_at,
              "G1: submitter, deposit, content kind or closing epoch of a proposal changed">>,
            <<\A i \in DOMAIN Q : (i \in DOMAIN P /\ Q[i].state # "active") => P[i] = Q[i], "G1: a closed proposal changed">>,
            <<\A i \in DOMAIN P : (epoch >= P[i].closes_at) => P[i].state # "active", "G2: proposal still active at or after its closing epoch">>,
            <<\A i \in DOMAIN P : (epoch < P[i].closes_at) => P[i].state = "active", "G2: proposal closed before its closing epoch">>,
            <<\A i \in DOMAIN newv : Open(newv[i].id), "G3: vote accepted for a proposal that is not open">>,
            <<\A i \in DOMAIN newv : Eligible(newv[i].voter), "G3: vote accepted from a voter that neither lists a validator node nor delegates to a validator entity">>,
            <<\A i \in DOMAIN P : (i > Len(Q) \/ Q[i].state = "active") =>
                  VotesOf(P[i]) = ExpectedVotes(IF i \in DOMAIN Q THEN VotesOf(Q[i]) ELSE {}, i),
              "G3: recorded votes are not the previous votes overridden by this block's successful votes">>,
            <<\A i \in DOMAIN P : (P[i].state # "active" /\ (i > Len(Q) \/ Q[i].state = "active") /\ InRange(L, V)) =>
                  TallyOK(L, P[i], V, N.params.threshold),
              "G4: results / invalid votes / outcome of a closing proposal are not the stake-weighted tally of its votes">>,
            <<\A i \in DOMAIN P : P[i].state = "active" => ~P[i].has_results, "G4: an active proposal has results">>,
            <<L.govdep = dsum, "G5: governance deposit pool differs from the deposits of the active proposals">>,
            \* G6: pending upgrades.  A pending upgrade is a passed upgrade proposal whose epoch is still ahead and that no passed
            \* cancellation names; two pending upgrades are at least the minimum distance apart; both ways of reading them agree
            <<\A u \in PU : /\ u.id \in DOMAIN P /\ P[u.id].kind = "upgrade" /\ P[u.id].state = "passed"
                             /\ P[u.id].up_epoch = u.epoch /\ u.epoch > epoch,
              "G6: a pending upgrade is not a passed upgrade proposal with its epoch still ahead">>,
            <<\A u, w \in PU : u.id # w.id => Abs(u.epoch - w.epoch) >= N.params.upgrade_min_diff,
              "G6: two pending upgrades closer than the minimum distance">>,
            <<\A j \in DOMAIN P : (P[j].kind = "cancel" /\ P[j].state = "passed") => ~\E u \in PU : u.id = P[j].cancels,
              "G6: an upgrade named by a passed cancellation is still pending">>,
            <<\A i \in DOMAIN P : (/\ P[i].kind = "upgrade" /\ P[i].state = "passed" /\ P[i].up_epoch > epoch
                                      /\ ~\E j \in DOMAIN P : P[j].kind = "cancel" /\ P[j].state = "passed" /\ P[j].cancels = i)
                                     => \E u \in PU : u.id = i,
              "G6: a passed upgrade proposal that is still ahead and not cancelled is not pending">>,
            <<Len(N.pending_epochs) = Cardinality(PU) /\ \A u \in PU : \E k \in DOMAIN N.pending_epochs : N.pending_epochs[k] = u.epoch,
              "G6: the pending-upgrade index differs from the upgrades found by proposal">>
          >>)
       /\ G' = N /\ M' = L /\ have' = TRUE
    /\ UNCHANGED <<epoch, newp, newv>>

TraceNext == TrSkip \/ TrChain \/ TrBegin \/ TrTx \/ TrEnd
TraceSpec == TraceInit /\ [][TraceNext]_tvars

RuleHolds == bad = "none"
TraceAccepted == TLCGet("stats").diameter - 1 = Len(Trace)
=============================================================================
