---- MODULE MCReplica ----
EXTENDS Replica
R3 == <<"v0", "v1", "v2">>
====
