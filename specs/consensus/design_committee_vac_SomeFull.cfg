SPECIFICATION Spec
CONSTANTS
  NodeSeq <- N3
  Ents <- E2
  GroupSizes <- G02
  MaxNodesVals <- M012
  MinPoolVals <- P03
INVARIANTS SomeFull
CHECK_DEADLOCK FALSE
