SPECIFICATION Spec
CONSTANTS
  MaxH = 3
  InitLatest = {2, 3}
  MaxReq = 2
  MaxAlt = 1
  ValsetOf <- ValsetOfDef
  ParamsOf <- ParamsOfDef
  AlterUnbound = TRUE
  AllowAdvance = FALSE
  Requests <- AllRequests
VIEW genview
INVARIANTS EmitInv
CHECK_DEADLOCK FALSE
