--------------------------- MODULE TraceStateless ---------------------------
(***************************************************************************)
(* C19 verdict: the declarative rule evaluated over outcomes recorded from *)
(* the real stateless verification code (hook H2) and the real Core.       *)
(*                                                                         *)
(* The trace spec contains no model of HOW the code verifies.  Every event *)
(* is one provider response handed to the real code:                       *)
(*   altered          the response differs from the honest one (abstract   *)
(*                    alteration or byte-level mutant)                     *)
(*   accepted         the code returned the datum to its caller            *)
(*   projection_equal the semantic projection of what was returned equals  *)
(*                    the canonical datum's of the requested height        *)
(*                    (components the code documents as non-verifiable -   *)
(*                    block Size, result events - are not part of it)      *)
(*   diff             the differing projection components                  *)
(*   proofs_ok        returned inclusion proofs verify for their           *)
(*                    transaction and block, and for no other              *)
(*   caches_ok        every cached state root / results hash is canonical  *)
(*   panic            present iff the real code panicked                   *)
(* `bad` names the broken clause.  Invariant: bad = "none".  A response    *)
(* the code rejects differently than Stateless.tla, or a byte-level mutant *)
(* it accepts with an unchanged projection, is at most MODEL-DRIFT and is  *)
(* never looked at here.                                                   *)
(***************************************************************************)
EXTENDS Integers, Sequences, Json, TLC

Trace == ndJsonDeserialize("trace.ndjson")

VARIABLES l, bad

tvars == <<l, bad>>

Range(s) == {s[i] : i \in DOMAIN s}

(* Block results are bound for every height below the latest trusted one.  *)
Bound(e) == e.req = "GetBlockResults" => e.h < e.latest

(* On the real Core the request needs a light block the client can serve.  *)
Available(e) ==
    IF e.mode # "core" THEN TRUE
    ELSE IF e.req = "GetValidators" THEN (e.h <= e.latest \/ (e.h >= 2 /\ e.h - 1 <= e.latest))
    ELSE e.h <= e.latest

Verdict(e) ==
    IF "panic" \in DOMAIN e THEN "panic"
    ELSE IF ~e.altered /\ Available(e) /\ ~e.accepted THEN "honest_rejected"
    ELSE IF e.accepted /\ Bound(e) /\ ~e.projection_equal THEN "altered_accepted"
    ELSE IF e.accepted /\ ~Bound(e) /\ "height" \in Range(e.diff) THEN "altered_height_accepted"
    ELSE IF e.accepted /\ ~e.proofs_ok THEN "proof"
    ELSE IF ~e.caches_ok THEN "cache"
    ELSE "none"

(* A composite answer for the LATEST height (event "pair"): the untrusted provider names one height, then another; the  *)
(* transactions and the results returned together must belong to ONE height (`paired`, computed by the harness from the   *)
(* canonical data: some height whose transactions AND whose results are the returned ones).                               *)
PairVerdict(e) ==
    IF "panic" \in DOMAIN e THEN "panic"
    ELSE IF e.accepted /\ ~e.paired THEN "pair_unbound"
    ELSE "none"

TraceInit == l = 1 /\ bad = "none"

TrBegin ==
    /\ l <= Len(Trace) /\ Trace[l].ev = "begin"
    /\ l' = l + 1 /\ UNCHANGED bad

TrCase ==
    /\ l <= Len(Trace) /\ Trace[l].ev \in {"case", "agg"}
    /\ l' = l + 1
    /\ bad' = IF bad # "none" THEN bad ELSE Verdict(Trace[l])

TrPair ==
    /\ l <= Len(Trace) /\ Trace[l].ev = "pair"
    /\ l' = l + 1
    /\ bad' = IF bad # "none" THEN bad ELSE PairVerdict(Trace[l])

(* Blocks pushed by the provider (event "status"): an altered block must not reach the subscribers, and what GetStatus reports   *)
(* as the latest block afterwards is a canonical block of the chain (bound to a verified header) or nothing.                  *)
StatusVerdict(e) ==
    IF "panic" \in DOMAIN e THEN "panic"
    ELSE IF e.altered_notified THEN "pushed_block_unbound"
    ELSE IF ~e.status_canonical THEN "status_unbound"
    ELSE "none"

TrStatus ==
    /\ l <= Len(Trace) /\ Trace[l].ev = "status"
    /\ l' = l + 1
    /\ bad' = IF bad # "none" THEN bad ELSE StatusVerdict(Trace[l])

TraceNext == TrBegin \/ TrCase \/ TrPair \/ TrStatus

TraceSpec == TraceInit /\ [][TraceNext]_tvars

RuleHolds == bad = "none"

TraceAccepted == TLCGet("stats").diameter - 1 = Len(Trace)
=============================================================================
