------------------------------ MODULE Stateless ------------------------------
(***************************************************************************)
(* C19 - a stateless node hands provider data to its caller only if the    *)
(* data is bound to a light-client verified header of the requested height.*)
(*                                                                         *)
(* Op   : transcription of consensus/cometbft/stateless/core.go            *)
(*        (GetBlock, GetTransactions, GetTransactionsWithProofs,           *)
(*        GetBlockResults, GetValidators, GetParameters, StateRoot,        *)
(*        SubmitTxWithProof; verifyBlock ... verifyTransactionProof; the   *)
(*        state-root and results-hash caches; the metadata-transaction     *)
(*        fallback for the latest height), including the ORDER of checks.  *)
(* Rule : declarative, over the request and the returned datum only.       *)
(*                                                                         *)
(* Hashes are perfect: a datum is an integer id, its hash is the id.       *)
(* The canonical datum of kind K at height h has id h (validator sets and  *)
(* parameters have the ids ValsetOf[h], ParamsOf[h], which may repeat).    *)
(* ALT is a value no canonical datum has.  A provider response is a record *)
(* of fields; every field is the original one, ALTered, or taken from the  *)
(* canonical response of another height.                                   *)
(***************************************************************************)
EXTENDS Integers, Sequences, FiniteSets, TLC

CONSTANTS MaxH,          \* the light client can trust heights 1..MaxH
          InitLatest,    \* set of initial latest trusted heights
          MaxReq,        \* bound on the number of requests in a behaviour
          MaxAlt,        \* bound on individually altered fields per response
          ValsetOf,      \* tuple: id of the validator set of height h (1..MaxH+2)
          ParamsOf,      \* tuple: id of the consensus parameters of height h
          AlterUnbound,  \* BOOLEAN: may the provider alter components no header hash covers
          AllowAdvance,  \* BOOLEAN: may the light client advance during a behaviour
          Requests       \* request kinds enabled

VARIABLES latest,        \* light client: last trusted height (headers 1..latest verified)
          latest0,       \* its initial value (generation only)
          srCache,       \* Core.stateRootCache   : height -> state root id | NONE
          rhCache,       \* Core.resultsHashCache : height -> results hash id | NONE
          ret,           \* observable outcome of the last request
          nreq, hist

vars == <<latest, latest0, srCache, rhCache, ret, nreq, hist>>
view == <<latest, srCache, rhCache, nreq>>
LastOp == IF hist = <<>> THEN <<>> ELSE hist[Len(hist)]
genview == <<latest, srCache, rhCache, nreq, LastOp>>

ALT  == -1
NONE == -2
CH == 1..(MaxH + 1)                 \* heights the provider has data for

-----------------------------------------------------------------------------
(* The canonical chain.                                                    *)

(* Header fields the code relies on.  app = state root after h-1, lastres  *)
(* = results of h-1, lastcommit = commit for h-1.                          *)
Hdr(h) == [height |-> h, hash |-> h, time |-> h, app |-> h - 1, data |-> h, lastres |-> h - 1,
           lastcommit |-> h - 1, vals |-> ValsetOf[h], nextvals |-> ValsetOf[h + 1], cons |-> ParamsOf[h]]

(* Canonical provider responses.  `meta` is the well-formedness of the     *)
(* encoding (0 = decodes).  lc_sigs is the part of Meta.LastCommit that    *)
(* Commit.Hash covers (the signatures), lc_rest the part it does not       *)
(* (commit height, round, block id).  results: det = (code, data, gas      *)
(* wanted, gas used) per transaction, text = log/info/codespace, events =  *)
(* all events.  vals: set = (public key, power) list, unhashed = address,  *)
(* proposer priority, proposer.  params: hashed = block max bytes/gas,     *)
(* unhashed = the other CometBFT parameters, oasis = backend-agnostic      *)
(* parameters (read from verified state); txs = the nested transaction     *)
(* list response used by the state-root fallback.                          *)
Canon(kind, h) ==
    CASE kind = "block"   -> [height |-> h, hash |-> h, time |-> h, sr_ns |-> 0, sr_version |-> h - 1, sr_type |-> 0,
                              sr_hash |-> h - 1, meta |-> 0, meta_header |-> h, lc_sigs |-> h - 1, lc_rest |-> h - 1,
                              size |-> h]
      [] kind = "txs"     -> [txs |-> h]
      [] kind = "results" -> [height |-> h, meta |-> 0, det |-> h, text |-> h, events |-> h]
      [] kind = "vals"    -> [height |-> h, meta |-> 0, set |-> ValsetOf[h], unhashed |-> ValsetOf[h]]
      [] kind = "params"  -> [height |-> h, meta |-> 0, hashed |-> ParamsOf[h], unhashed |-> ParamsOf[h],
                              oasis |-> ParamsOf[h], txs |-> h]

KindOf(req) ==
    CASE req = "GetBlock" -> "block"
      [] req \in {"GetTransactions", "GetTransactionsWithProofs", "StateRoot"} -> "txs"
      [] req = "GetBlockResults" -> "results"
      [] req = "GetValidators" -> "vals"
      [] req = "GetParameters" -> "params"

(* Fields whose canonical value is the same at every height.               *)
ConstF == {"meta", "sr_ns", "sr_type"}
(* Components no header hash covers and the code does not check.           *)
UnboundF(kind) ==
    CASE kind = "block" -> {"lc_rest"} [] kind = "results" -> {"text"} [] kind = "vals" -> {"unhashed"}
      [] kind = "params" -> {"unhashed"} [] OTHER -> {}
(* Documented as non-verifiable in the code: excluded from the projection. *)
ExcludedF(kind) == CASE kind = "block" -> {"size"} [] kind = "results" -> {"events"} [] OTHER -> {}
(* The nested transaction list of GetParameters is not part of the datum.  *)
ProjF(kind) == (DOMAIN Canon(kind, 1)) \ (ExcludedF(kind) \cup (IF kind = "params" THEN {"txs"} ELSE {}))

AlterableF(kind) == (DOMAIN Canon(kind, 1)) \ (IF AlterUnbound THEN {} ELSE UnboundF(kind))

-----------------------------------------------------------------------------
(* Provider responses: a base height (`whole` = 0: the requested one) plus *)
(* individually altered fields.                                            *)

AltChoices(kind, base, reqh) ==
    UNION {{[f |-> f, k |-> "alt", h |-> 0]} \cup
           (IF f \in ConstF THEN {}
            ELSE {[f |-> f, k |-> "from", h |-> g] : g \in (CH \cup {reqh}) \ {base}}) : f \in AlterableF(kind)}

AltSets(kind, base, reqh, max) ==
    LET S == AltChoices(kind, base, reqh) IN
    {{}} \cup (IF max >= 1 THEN {{a} : a \in S} ELSE {})
         \cup (IF max >= 2 THEN {{p[1], p[2]} : p \in {q \in S \X S : q[1].f # q[2].f}} ELSE {})

RespOf(kind, h, w, alts) ==
    LET base == Canon(kind, IF w = 0 THEN h ELSE w) IN
    [f \in DOMAIN base |->
        IF \E a \in alts : a.f = f
        THEN LET a == CHOOSE x \in alts : x.f = f IN IF a.k = "alt" THEN ALT ELSE Canon(kind, a.h)[f]
        ELSE base[f]]

Honest(w, alts) == w = 0 /\ alts = {}

-----------------------------------------------------------------------------
(* Op: the code.                                                           *)

Reject(e) == [ok |-> FALSE, err |-> e, val |-> [none |-> 0]]
Accept(v) == [ok |-> TRUE, err |-> "ok", val |-> v]
Out(o, sr, rh) == [out |-> o, sr |-> sr, rh |-> rh]

(* c.lightBlock(h): served by the light client for verified heights only. *)
HasLB(h) == h >= 1 /\ h <= latest

(* verifyBlock: first failing check, in the code's order.                  *)
VerifyBlock(r, lb) ==
    IF r.height # lb.height THEN "height"
    ELSE IF r.hash # lb.hash THEN "hash"
    ELSE IF r.time # lb.time THEN "time"
    ELSE IF r.sr_ns # 0 THEN "sr_ns"
    ELSE IF r.sr_version # lb.height - 1 THEN "sr_version"
    ELSE IF r.sr_type # 0 THEN "sr_type"
    ELSE IF r.sr_hash # lb.app THEN "sr_hash"
    ELSE IF r.meta # 0 THEN "meta_malformed"
    ELSE IF r.meta_header # lb.hash THEN "meta_header"      \* byte equality with the header's encoding
    ELSE IF r.lc_sigs # lb.lastcommit THEN "lastcommit"     \* Commit.Hash covers the signatures only
    ELSE "ok"

GetBlock(h, r) ==
    IF ~HasLB(h) THEN Out(Reject("no_light_block"), srCache, rhCache)
    ELSE LET e == VerifyBlock(r, Hdr(h)) IN
         Out(IF e = "ok" THEN Accept(r) ELSE Reject(e), srCache, rhCache)

(* verifyTransactions: Data.Hash of the list against lb.DataHash.          *)
GetTransactions(h, r) ==
    IF ~HasLB(h) THEN Reject("no_light_block")
    ELSE IF r.txs # Hdr(h).data THEN Reject("txs")
    ELSE Accept([txs |-> r.txs])

(* Proofs are generated locally from the verified list.                    *)
GetTransactionsWithProofs(h, r) ==
    LET o == GetTransactions(h, r) IN
    IF o.ok THEN Accept([txs |-> o.val.txs, proofs |-> o.val.txs]) ELSE o

(* stateRoot: cache, then header h+1, then the metadata transaction of the *)
(* verified transaction list of h (its last transaction carries the state  *)
(* root after h: list id g carries state root id g).                       *)
StateRoot(h, r) ==
    IF srCache[h] # NONE THEN Out(Accept([sr |-> srCache[h]]), srCache, rhCache)
    ELSE IF HasLB(h + 1) THEN LET v == Hdr(h + 1).app IN
         Out(Accept([sr |-> v]), [srCache EXCEPT ![h] = v], rhCache)
    ELSE LET o == GetTransactions(h, r) IN
         IF ~o.ok THEN Out(o, srCache, rhCache)
         ELSE Out(Accept([sr |-> o.val.txs]), [srCache EXCEPT ![h] = o.val.txs], rhCache)

(* Core.verifyBlockResults: results of the latest trusted height are only  *)
(* height-checked (documented TODO); below it the hash of the              *)
(* deterministic results is compared with LastResultsHash of header h+1,   *)
(* looked up through the results hash cache BEFORE the response is read.   *)
GetBlockResults(h, r) ==
    IF ~HasLB(h) THEN Out(Reject("no_light_block"), srCache, rhCache)
    ELSE IF latest <= h THEN
         Out(IF r.height # h THEN Reject("height")
             ELSE IF r.meta # 0 THEN Reject("results_malformed")
             ELSE Accept(r), srCache, rhCache)
    ELSE LET rhv == IF rhCache[h] # NONE THEN rhCache[h] ELSE Hdr(h + 1).lastres
             rh1 == [rhCache EXCEPT ![h] = rhv]
         IN  Out(IF r.height # h THEN Reject("height")
                 ELSE IF r.meta # 0 THEN Reject("results_malformed")
                 ELSE IF r.det # rhv THEN Reject("lastres")
                 ELSE Accept(r), srCache, rh1)

(* GetValidators: from the light block when there is one; otherwise the    *)
(* provider's set for h is checked against NextValidatorsHash of h-1.      *)
GetValidators(h, r) ==
    IF HasLB(h) THEN Accept(Canon("vals", h))
    ELSE IF h < 2 THEN Reject("not_found")
    ELSE IF ~HasLB(h - 1) THEN Reject("no_light_block")
    ELSE IF r.height # Hdr(h - 1).height + 1 THEN Reject("height")
    ELSE IF r.meta # 0 THEN Reject("vals_malformed")
    ELSE IF r.set # Hdr(h - 1).nextvals THEN Reject("nextvals")
    ELSE Accept(r)

(* verifyParameters: height, decode, ConsensusHash (covers the hashed part *)
(* only), then the backend-agnostic parameters against the ones read from  *)
(* the state whose root is StateRoot(h) (state with root id g holds        *)
(* ParamsOf[g]; the read itself is an MKVS proof, property C04).           *)
GetParameters(h, r) ==
    IF ~HasLB(h) THEN Out(Reject("no_light_block"), srCache, rhCache)
    ELSE IF r.height # h THEN Out(Reject("height"), srCache, rhCache)
    ELSE IF r.meta # 0 THEN Out(Reject("params_malformed"), srCache, rhCache)
    ELSE IF r.hashed # Hdr(h).cons THEN Out(Reject("cons_hash"), srCache, rhCache)
    ELSE LET s == StateRoot(h, r) IN
         IF ~s.out.ok THEN Out(Reject("state_root"), s.sr, s.rh)
         ELSE IF r.oasis # ParamsOf[s.out.val.sr] THEN Out(Reject("params_mismatch"), s.sr, s.rh)
         ELSE Out(Accept([f \in (DOMAIN r) \ {"txs"} |-> r[f]]), s.sr, s.rh)

(* Transactions and inclusion proofs.  Transaction [l, i] is entry i of    *)
(* the list of block l; l = 0 is a transaction in no block.  A proof       *)
(* [l, i, bytes] was issued for entry i of list l; bytes = ALT: damaged.   *)
TxIdx == 1..2
ProofVerifies(p, datahash, t) == p.bytes = 0 /\ p.l = datahash /\ t.l = p.l /\ t.i = p.i

(* SubmitTxWithProof: the provider names the height; the proof must verify *)
(* for the submitted transaction against that height's DataHash.           *)
SubmitTx(t, g, p) ==
    IF ~HasLB(g) THEN Reject("no_light_block")
    ELSE IF ~ProofVerifies(p, Hdr(g).data, t) THEN Reject("proof")
    ELSE Accept([height |-> g, t |-> t])

-----------------------------------------------------------------------------
Init ==
    /\ latest \in InitLatest /\ latest0 = latest
    /\ srCache = [h \in CH |-> NONE] /\ rhCache = [h \in CH |-> NONE]
    /\ ret = [req |-> "init", h |-> 0, latest |-> 0, honest |-> TRUE, ok |-> FALSE, err |-> "init", val |-> [none |-> 0]]
    /\ nreq = 0 /\ hist = <<>>

Apply(req, h, w, alts, o) ==
    /\ ret' = [req |-> req, h |-> h, latest |-> latest, honest |-> Honest(w, alts),
               ok |-> o.out.ok, err |-> o.out.err, val |-> o.out.val]
    /\ srCache' = o.sr /\ rhCache' = o.rh
    /\ hist' = Append(hist, [req |-> req, h |-> h, latest |-> latest, whole |-> w, alts |-> alts,
                             ok |-> o.out.ok, err |-> o.out.err])

DataRequest ==
    /\ nreq < MaxReq
    /\ \E req \in Requests \ {"SubmitTxWithProof"}, h \in CH :
       \E w \in {0} \cup (CH \ {h}) :
       \E alts \in AltSets(KindOf(req), IF w = 0 THEN h ELSE w, h, IF w = 0 THEN MaxAlt ELSE 1) :
          LET r == RespOf(KindOf(req), h, w, alts) IN
          Apply(req, h, w, alts,
                CASE req = "GetBlock" -> GetBlock(h, r)
                  [] req = "GetTransactions" -> Out(GetTransactions(h, r), srCache, rhCache)
                  [] req = "GetTransactionsWithProofs" -> Out(GetTransactionsWithProofs(h, r), srCache, rhCache)
                  [] req = "StateRoot" -> StateRoot(h, r)
                  [] req = "GetBlockResults" -> GetBlockResults(h, r)
                  [] req = "GetValidators" -> Out(GetValidators(h, r), srCache, rhCache)
                  [] req = "GetParameters" -> GetParameters(h, r))
    /\ nreq' = nreq + 1
    /\ UNCHANGED <<latest, latest0>>

SubmitTxWithProof ==
    /\ nreq < MaxReq /\ "SubmitTxWithProof" \in Requests
    /\ \E t \in {[l |-> 2, i |-> 1], [l |-> 2, i |-> 2], [l |-> 3, i |-> 1], [l |-> 0, i |-> 1]},
          g \in CH, pl \in CH, pi \in TxIdx, pb \in {0, ALT} :
          LET p == [l |-> pl, i |-> pi, bytes |-> pb]
              o == SubmitTx(t, g, p)
              honest == t.l # 0 /\ g = t.l /\ pl = t.l /\ pi = t.i /\ pb = 0
          IN  /\ ret' = [req |-> "SubmitTxWithProof", h |-> g, latest |-> latest, honest |-> honest,
                         ok |-> o.ok, err |-> o.err, val |-> o.val]
              /\ hist' = Append(hist, [req |-> "SubmitTxWithProof", h |-> g, latest |-> latest, t |-> t, p |-> p,
                                       honest |-> honest, ok |-> o.ok, err |-> o.err])
    /\ nreq' = nreq + 1
    /\ UNCHANGED <<latest, latest0, srCache, rhCache>>

(* The light client verifies the next header.                              *)
Advance ==
    /\ AllowAdvance /\ latest < MaxH
    /\ latest' = latest + 1
    /\ hist' = Append(hist, [req |-> "Advance", h |-> latest + 1, latest |-> latest])
    /\ UNCHANGED <<latest0, srCache, rhCache, ret, nreq>>

Next == DataRequest \/ SubmitTxWithProof \/ Advance

Spec == Init /\ [][Next]_vars

-----------------------------------------------------------------------------
(* Rule: declarative, over the request and what was returned.              *)

(* The canonical datum a request for height h must return.                 *)
CanonOut(req, h) ==
    CASE req = "GetTransactions" -> [txs |-> h]
      [] req = "GetTransactionsWithProofs" -> [txs |-> h, proofs |-> h]
      [] req = "StateRoot" -> [sr |-> h]
      [] OTHER -> Canon(KindOf(req), h)

(* Block results are bound for every height below the latest trusted one.  *)
Bound(req, h, lat) == req = "GetBlockResults" => h < lat

ReturnedCanonical(r) ==
    IF r.req = "SubmitTxWithProof"
    THEN r.val.t.l = r.val.height /\ r.val.height = r.h       \* the transaction is in the block the proof names
    ELSE IF ~Bound(r.req, r.h, r.latest) THEN r.val.height = r.h
    ELSE LET c == CanonOut(r.req, r.h)
             F == IF r.req \in {"GetTransactions", "GetTransactionsWithProofs", "StateRoot"}
                  THEN DOMAIN c ELSE ProjF(KindOf(r.req))
         IN  \A f \in F : r.val[f] = c[f]

(* Is the light block the request needs available?                         *)
Available(r) ==
    CASE r.req = "GetValidators" -> (r.h <= r.latest \/ (r.h >= 2 /\ r.h - 1 <= r.latest))
      [] OTHER -> r.h <= r.latest

RuleReturned == [][ ret'.ok => ReturnedCanonical(ret') ]_vars
RuleHonest   == [][ (ret'.req # "init" /\ ret'.honest /\ Available(ret')) => ret'.ok ]_vars
RuleCaches   == /\ \A h \in CH : srCache[h] # NONE => srCache[h] = h
                /\ \A h \in CH : rhCache[h] # NONE => rhCache[h] = h

TypeOK == /\ latest \in 1..MaxH
          /\ \A h \in CH : srCache[h] \in {NONE, ALT} \cup CH /\ rhCache[h] \in {NONE, ALT} \cup CH
=============================================================================
