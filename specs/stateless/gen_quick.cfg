SPECIFICATION Spec
CONSTANTS
  MaxH = 3
  InitLatest = {2, 3}
  MaxReq = 1
  MaxAlt = 2
  ValsetOf <- ValsetOfDef
  ParamsOf <- ParamsOfDef
  AlterUnbound = TRUE
  AllowAdvance = FALSE
  Requests <- AllRequests
VIEW genview
INVARIANTS EmitInv
CHECK_DEADLOCK FALSE
