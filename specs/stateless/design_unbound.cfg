SPECIFICATION Spec
CONSTANTS
  MaxH = 3
  InitLatest = {3}
  MaxReq = 1
  MaxAlt = 1
  ValsetOf <- ValsetOfDef
  ParamsOf <- ParamsOfDef
  AlterUnbound = TRUE
  AllowAdvance = FALSE
  Requests <- AllRequests
VIEW view
INVARIANTS TypeOK RuleCaches
PROPERTIES RuleReturned RuleHonest
CHECK_DEADLOCK FALSE
