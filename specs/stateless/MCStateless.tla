----------------------------- MODULE MCStateless -----------------------------
(* Model-checking instance of Stateless: design runs and case generation.  *)
EXTENDS Stateless, Json

\* heights 1 and 2 share a validator set, 3 and 4 too; parameters change at height 3 (and 6)
\* (the harness' synthetic chain realises heights 1..5 of these tables)
ValsetOfDef == <<1, 1, 2, 2, 3, 3, 4>>
ParamsOfDef == <<1, 1, 2, 2, 2, 3, 3>>

AllRequests == {"GetBlock", "GetTransactions", "GetTransactionsWithProofs", "StateRoot", "GetBlockResults",
                "GetValidators", "GetParameters", "SubmitTxWithProof"}

\* Emit the (shortest, BFS) history of every distinct (request with alteration, resulting state) pair.
EmitInv == (hist # <<>>) => PrintT(ToJson([latest0 |-> latest0, ops |-> hist]))
=============================================================================
