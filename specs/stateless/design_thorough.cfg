SPECIFICATION Spec
CONSTANTS
  MaxH = 4
  InitLatest = {1, 2, 3, 4}
  MaxReq = 5
  MaxAlt = 2
  ValsetOf <- ValsetOfDef
  ParamsOf <- ParamsOfDef
  AlterUnbound = FALSE
  AllowAdvance = TRUE
  Requests <- AllRequests
VIEW view
INVARIANTS TypeOK RuleCaches
PROPERTIES RuleReturned RuleHonest
CHECK_DEADLOCK FALSE
