SPECIFICATION Spec
CONSTANTS
  MaxCalls = 2
  MaxFrames = 2
  MaxReqs = 1
  DeleteOnLookup = TRUE
  Record = TRUE
VIEW scriptview
INVARIANTS EmitInv
CHECK_DEADLOCK FALSE
