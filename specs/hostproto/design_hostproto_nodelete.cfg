SPECIFICATION Spec
CONSTANTS
  MaxCalls = 2
  MaxFrames = 4
  DeleteOnLookup = FALSE
  Record = FALSE
INVARIANTS NeverHangs
CHECK_DEADLOCK FALSE
