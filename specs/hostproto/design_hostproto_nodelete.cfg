SPECIFICATION Spec
CONSTANTS
  MaxCalls = 2
  MaxFrames = 4
  MaxReqs = 0
  DeleteOnLookup = FALSE
  Record = FALSE
INVARIANTS NeverHangs
CHECK_DEADLOCK FALSE
