----------------------------- MODULE HostProto -----------------------------
(***************************************************************************)
(* Runtime host protocol connection (go/runtime/host/protocol/            *)
(* connection.go), host side, facing an untrusted runtime that may send    *)
(* any frames in any order (part of C16: "runtime host protocol frames     *)
(* ... never hangs").                                                      *)
(*                                                                         *)
(* Grain = the code's critical sections:                                   *)
(*   Register(i)   call(): id reserved, response channel (buffer 1) put    *)
(*                 into pendingRequests under the lock                     *)
(*   Enqueue(i)    sendMessage(): the request is handed to the writer      *)
(*                 goroutine; blocks while the peer does not read          *)
(*   PeerResp(i)   the runtime sends a response frame carrying id i (for   *)
(*                 a pending id, an id answered before, or an unknown one) *)
(*   Lookup(h)     handleMessage, response branch, under the lock: the     *)
(*                 channel is looked up AND the entry is deleted           *)
(*   Send(h)       the handler goroutine puts the body into the channel    *)
(*                 (blocks while the buffer is full)                       *)
(*   Take(i)       readResponse(): the caller receives the body            *)
(*   GiveUp(i)     the caller's context ends (or the connection closes)    *)
(*   Finish(i)     call()'s deferred clean-up deletes the entry            *)
(*   PeerReq       the runtime sends a REQUEST frame; its handler goroutine  *)
(*   Handle(k)     runs the host's handler and then                        *)
(*   Reply(k)      hands the response to the writer goroutine (blocks      *)
(*                 while the writer is stuck behind a peer that does not   *)
(*                 read), or                                               *)
(*   AbortReply(k) gives up when the connection is closed (sendMessage     *)
(*                 selects on closeCh and on the reader's context)         *)
(*   Stall/Resume  the peer stops / resumes reading its socket             *)
(*   Close         Close(): socket closed, then waits for the reader       *)
(*                 goroutine, which waits for every handler goroutine      *)
(*                                                                         *)
(* Every received frame is handled in its own goroutine, so Lookup / Send  *)
(* of different frames interleave freely.                                  *)
(* DeleteOnLookup = TRUE is the code; FALSE shows what the deletion is for *)
(* (the model then reaches a state in which Close can never return).       *)
(***************************************************************************)
EXTENDS Integers, Sequences, FiniteSets, TLC, Json

CONSTANTS MaxCalls,        \* host calls (ids 1..MaxCalls)
          MaxFrames,       \* response frames the peer may send
          MaxReqs,         \* request frames the peer may send
          DeleteOnLookup,  \* BOOLEAN
          Record           \* BOOLEAN: keep the externally visible history in `script` (generation); FALSE for design runs

Ids == 1..MaxCalls
AnyId == 0..MaxCalls       \* 0: an id that was never used

VARIABLES call,     \* call[i] \in {"none", "registered", "waiting", "got", "gaveup", "done"}
          pend,     \* ids in pendingRequests
          buf,      \* buf[i]: bodies in the response channel of call i (0 or 1)
          frames,   \* number of response frames sent so far
          hs,       \* handler goroutines: sequence of [id, st] with st \in {"new", "sending", "done", "dropped"}
          stalled,  \* the peer is not reading: the writer goroutine is stuck, Enqueue cannot complete
          closed,   \* Close() was called
          wbusy,    \* the writer goroutine is stuck in a write to a peer that does not read (it took one message with it)
          nst,      \* number of times the peer has stalled so far (at most one stall per behaviour)
          rq,       \* handler goroutines of the peer's request frames: sequence of "new" | "handled" | "replied" | "aborted"
          script    \* the externally controllable part of the behaviour (host API calls and peer frames), for replay
vars == <<call, pend, buf, frames, hs, stalled, closed, wbusy, nst, rq, script>>

Log(e) == script' = IF Record THEN Append(script, e) ELSE script

Init ==
    /\ call = [i \in Ids |-> "none"] /\ pend = {} /\ buf = [i \in Ids |-> 0] /\ frames = 0 /\ hs = <<>>
    /\ stalled = FALSE /\ closed = FALSE /\ wbusy = FALSE /\ nst = 0 /\ rq = <<>> /\ script = <<>>

Next1(i) == \A j \in 1..(i - 1) : call[j] # "none"      \* ids are handed out in order

Register(i) ==
    /\ ~closed /\ call[i] = "none" /\ Next1(i)
    /\ call' = [call EXCEPT ![i] = "registered"] /\ pend' = pend \cup {i}
    /\ Log([a |-> "call", id |-> i])
    /\ UNCHANGED <<buf, frames, hs, stalled, closed, wbusy, nst, rq>>

Enqueue(i) ==     \* the writer takes the message (outCh is unbuffered); if the peer does not read, the writer then blocks in the write
    /\ call[i] = "registered" /\ ~wbusy
    /\ call' = [call EXCEPT ![i] = "waiting"]
    /\ wbusy' = stalled
    /\ UNCHANGED <<pend, buf, frames, hs, stalled, closed, nst, script, rq>>

PeerResp(i) ==
    /\ ~closed /\ frames < MaxFrames
    /\ (i = 0) => ~\E h \in DOMAIN hs : hs[h].id = 0        \* one frame with an unknown id is enough
    /\ frames' = frames + 1
    /\ hs' = Append(hs, [id |-> i, st |-> "new"])
    /\ Log([a |-> "resp", id |-> i])
    /\ UNCHANGED <<call, pend, buf, stalled, closed, wbusy, nst, rq>>

Lookup(h) ==
    /\ hs[h].st = "new"
    /\ IF hs[h].id \in pend
       THEN /\ hs' = [hs EXCEPT ![h].st = "sending"]
            /\ pend' = IF DeleteOnLookup THEN pend \ {hs[h].id} ELSE pend
       ELSE /\ hs' = [hs EXCEPT ![h].st = "dropped"]     \* "no request with id is outstanding"
            /\ pend' = pend
    /\ UNCHANGED <<call, buf, frames, stalled, closed, wbusy, nst, script, rq>>

Send(h) ==
    /\ hs[h].st = "sending" /\ buf[hs[h].id] = 0
    /\ buf' = [buf EXCEPT ![hs[h].id] = 1]
    /\ hs' = [hs EXCEPT ![h].st = "done"]
    /\ UNCHANGED <<call, pend, frames, stalled, closed, wbusy, nst, script, rq>>

Take(i) ==
    /\ call[i] = "waiting" /\ buf[i] = 1
    /\ buf' = [buf EXCEPT ![i] = 0] /\ call' = [call EXCEPT ![i] = "got"]
    /\ UNCHANGED <<pend, frames, hs, stalled, closed, wbusy, nst, script, rq>>

GiveUp(i) ==       \* context cancelled / deadline / connection closed while queued or waiting
    /\ call[i] \in {"registered", "waiting"}
    /\ call' = [call EXCEPT ![i] = "gaveup"]
    /\ (IF closed THEN script' = script ELSE Log([a |-> "cancel", id |-> i]))
    /\ UNCHANGED <<pend, buf, frames, hs, stalled, closed, wbusy, nst, rq>>

Finish(i) ==
    /\ call[i] \in {"got", "gaveup"}
    /\ call' = [call EXCEPT ![i] = "done"] /\ pend' = pend \ {i}
    /\ UNCHANGED <<buf, frames, hs, stalled, closed, wbusy, nst, script, rq>>

PeerReq ==
    /\ ~closed /\ Len(rq) < MaxReqs
    /\ rq' = Append(rq, "new")
    /\ Log([a |-> "preq", id |-> Len(rq) + 1])
    /\ UNCHANGED <<call, pend, buf, frames, hs, stalled, closed, wbusy, nst>>

Handle(k) ==
    /\ rq[k] = "new"
    /\ rq' = [rq EXCEPT ![k] = "handled"]
    /\ UNCHANGED <<call, pend, buf, frames, hs, stalled, closed, wbusy, nst, script>>

Reply(k) ==      \* the writer takes the response; if the peer does not read, the writer then blocks in the write
    /\ rq[k] = "handled" /\ ~wbusy /\ ~closed
    /\ rq' = [rq EXCEPT ![k] = "replied"]
    /\ wbusy' = stalled
    /\ UNCHANGED <<call, pend, buf, frames, hs, stalled, closed, nst, script>>

AbortReply(k) ==
    /\ rq[k] = "handled" /\ closed
    /\ rq' = [rq EXCEPT ![k] = "aborted"]
    /\ UNCHANGED <<call, pend, buf, frames, hs, stalled, closed, wbusy, nst, script>>

Stall ==
    /\ ~closed /\ ~stalled /\ nst = 0
    /\ stalled' = TRUE /\ nst' = 1
    /\ Log([a |-> "stall", id |-> 0])
    /\ UNCHANGED <<call, pend, buf, frames, hs, closed, wbusy, rq>>

Resume ==
    /\ stalled
    /\ stalled' = FALSE /\ wbusy' = FALSE
    /\ (IF closed THEN script' = script ELSE Log([a |-> "resume", id |-> 0]))
    /\ UNCHANGED <<call, pend, buf, frames, hs, closed, nst, rq>>

Close ==       \* the socket is closed: a stuck write fails, the writer is free again
    /\ ~closed
    /\ closed' = TRUE /\ stalled' = FALSE /\ wbusy' = FALSE
    /\ Log([a |-> "close", id |-> 0])
    /\ UNCHANGED <<call, pend, buf, frames, hs, nst, rq>>

Next ==
    \/ \E i \in Ids : Register(i) \/ Enqueue(i) \/ Take(i) \/ GiveUp(i) \/ Finish(i)
    \/ \E i \in AnyId : PeerResp(i)
    \/ \E h \in DOMAIN hs : Lookup(h) \/ Send(h)
    \/ PeerReq \/ (\E k \in DOMAIN rq : Handle(k) \/ Reply(k) \/ AbortReply(k))
    \/ Stall \/ Resume \/ Close

Spec == Init /\ [][Next]_vars

-----------------------------------------------------------------------------
(* RULE *)

(* A handler goroutine that can never finish: it wants to put a body into a channel that is full and that nobody will  *)
(* ever read again.  Close() waits for such a goroutine for ever.                                                     *)
Stuck(h) == /\ hs[h].st = "sending" /\ buf[hs[h].id] = 1
            /\ call[hs[h].id] \in {"got", "gaveup", "done"}
NeverHangs == \A h \in DOMAIN hs : ~Stuck(h)

(* at most one body is ever delivered into a call's channel per registration: nothing an earlier call was sent leaks     *)
(* into a later one (ids are not reused), and a caller never sees two answers                                           *)
OneAnswer == \A i \in Ids : Cardinality({h \in DOMAIN hs : hs[h].id = i /\ hs[h].st \in {"sending", "done"}}) <= 1

(* liveness, under fairness of the internal steps: once Close is called every handler goroutine ends *)
Fairness == /\ \A i \in Ids : WF_vars(Enqueue(i)) /\ WF_vars(Take(i)) /\ WF_vars(Finish(i)) /\ WF_vars(GiveUp(i))
            /\ \A h \in 1..MaxFrames : WF_vars(h \in DOMAIN hs /\ Lookup(h)) /\ WF_vars(h \in DOMAIN hs /\ Send(h))
            /\ \A k \in 1..MaxReqs : WF_vars(k \in DOMAIN rq /\ Handle(k)) /\ WF_vars(k \in DOMAIN rq /\ AbortReply(k))
FairSpec == Spec /\ Fairness
CloseReturns == closed ~> ((\A h \in DOMAIN hs : hs[h].st \in {"done", "dropped"}) /\ (\A k \in DOMAIN rq : rq[k] \in {"replied", "aborted"}))

TypeOK == /\ pend \subseteq Ids /\ frames \in 0..MaxFrames /\ Len(hs) = frames /\ Len(rq) <= MaxReqs

-----------------------------------------------------------------------------
(* generation: one script per distinct externally visible history *)
scriptview == script
EmitInv == (closed /\ script # <<>>) => PrintT(ToJson([script |-> script]))
=============================================================================
