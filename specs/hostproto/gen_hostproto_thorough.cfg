SPECIFICATION Spec
CONSTANTS
  MaxCalls = 2
  MaxFrames = 4
  DeleteOnLookup = TRUE
  Record = TRUE
VIEW scriptview
INVARIANTS EmitInv
CHECK_DEADLOCK FALSE
