SPECIFICATION FairSpec
CONSTANTS
  MaxCalls = 2
  MaxFrames = 3
  MaxReqs = 1
  DeleteOnLookup = TRUE
  Record = FALSE
INVARIANTS TypeOK NeverHangs OneAnswer
PROPERTIES CloseReturns
CHECK_DEADLOCK FALSE
