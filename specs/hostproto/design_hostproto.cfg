SPECIFICATION FairSpec
CONSTANTS
  MaxCalls = 2
  MaxFrames = 3
  DeleteOnLookup = TRUE
  Record = FALSE
INVARIANTS TypeOK NeverHangs OneAnswer
PROPERTIES CloseReturns
CHECK_DEADLOCK FALSE
