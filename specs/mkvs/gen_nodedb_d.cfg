SPECIFICATION Spec
CONSTANTS
  Keys <- NK
  Vals <- NV1
  Types <- TState
  MaxV = 3
  MaxCand = 1
  MaxOps = 10
  WriteSets <- WSline
  SameVersionChains = FALSE
  TrackLineage <- TrueConst
VIEW genview
INVARIANTS EmitInv
CHECK_DEADLOCK FALSE
