SPECIFICATION Spec
CONSTANTS
  Keys <- WK3
  Vals <- WV
  MaxBatch = 2
  M1s <- M1Small
  Variants = TRUE
  Prefix <- NoPrefix
VIEW genview
INVARIANTS EmitInv
CHECK_DEADLOCK FALSE
