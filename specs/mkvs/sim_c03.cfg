SPECIFICATION SimSpec
CONSTANTS
  Keys <- Keys8
  Vals <- V3
  SeekKeys <- Seek2
  IterN = 3
  MaxOvl = 3
  MaxOps = 30
  Kinds <- KindsAllF
CHECK_DEADLOCK FALSE
