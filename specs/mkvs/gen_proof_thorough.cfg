SPECIFICATION Spec
CONSTANTS
  Keys <- Keys5
  Vals <- V2
  MaxKeys = 4
  QKeys <- QK5
  MutKeys <- Keys5
  MutVals <- MV3
  Sibs <- SibBoth
  Versions <- VBoth
  IterNs <- N012
  PfxSets <- Pfx3
  PfxLimits <- Lim3
  OtherMaps <- Other3
  RespPats <- Pats3
  MaxMut = 1
  OpKinds <- OpsAll
VIEW genview
INVARIANTS EmitInv
CHECK_DEADLOCK FALSE
