----------------------------- MODULE TraceRoots -----------------------------
(***************************************************************************)
(* C02 rule over recorded observations: each line is one distinct          *)
(* (contents id, root hash) pair observed on the real trees under any      *)
(* history / configuration / backend.  The rule: the relation is a         *)
(* bijection - equal contents always gave the same root, and different     *)
(* contents never gave the same root.                                      *)
(***************************************************************************)
EXTENDS Integers, Sequences, Json, TLC

Trace == ndJsonDeserialize("trace.ndjson")

VARIABLES l, c2r, r2c, bad

tvars == <<l, c2r, r2c, bad>>

TraceInit == l = 1 /\ c2r = <<>> /\ r2c = <<>> /\ bad = "none"

Extend(f, k, v) == [x \in DOMAIN f \cup {k} |-> IF x = k THEN v ELSE f[x]]

TrRoot ==
    /\ l <= Len(Trace) /\ Trace[l].ev = "root" /\ l' = l + 1
    /\ LET c == Trace[l].cid
           r == Trace[l].root
       IN  /\ c2r' = IF c \in DOMAIN c2r THEN c2r ELSE Extend(c2r, c, r)
           /\ r2c' = IF r \in DOMAIN r2c THEN r2c ELSE Extend(r2c, r, c)
           /\ bad' = IF c \in DOMAIN c2r /\ c2r[c] # r THEN "same contents, two roots"
                     ELSE IF r \in DOMAIN r2c /\ r2c[r] # c THEN "two contents, same root"
                     ELSE bad

TraceSpec == TraceInit /\ [][TrRoot]_tvars
RuleHolds == bad = "none"
TraceAccepted == TLCGet("stats").diameter - 1 = Len(Trace)
=============================================================================
