SPECIFICATION Spec
CONSTANTS
  Keys <- WK
  Vals <- WV
  MaxBatch = 5
  M1s <- M1All
  Variants = TRUE
  Prefix <- NoPrefix
VIEW view
INVARIANTS LogCorrect LogOrderFree MinimalLog
CHECK_DEADLOCK FALSE
