SPECIFICATION Spec
CONSTANTS
  Keys <- Keys4
  Vals <- V2
  MaxKeys = 4
  QKeys <- QK4
  MutKeys <- Keys4
  MutVals <- MV3
  Sibs <- SibBoth
  Versions <- VBoth
  IterNs <- N01
  PfxSets <- Pfx2
  PfxLimits <- Lim1
  OtherMaps <- Other2
  RespPats <- Pats3
  MaxMut = 1
  OpKinds <- OpsAll
VIEW genview
INVARIANTS EmitInv
CHECK_DEADLOCK FALSE
