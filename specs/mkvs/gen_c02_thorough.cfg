SPECIFICATION Spec
CONSTANTS
  Keys <- Keys5
  Vals <- V2
  SeekKeys <- NoSeek
  IterN = 2
  MaxOvl = 0
  MaxOps = 10
  Kinds <- KindsTree
VIEW genview
INVARIANTS EmitInv
CHECK_DEADLOCK FALSE
