------------------------------ MODULE MCNodeDB ------------------------------
EXTENDS NodeDB
NK == {<<97>>, <<97, 98>>, <<128>>}
NK2 == {<<97>>, <<97, 98>>}
NV == {<<1>>, <<2>>}
NV1 == {<<1>>}
W(k, d, v) == [k |-> k, del |-> d, v |-> v]
Singles(K, V) == {<<W(k, FALSE, v)>> : k \in K, v \in V} \cup {<<W(k, TRUE, <<>>)>> : k \in K}
\* unchanged root, single writes, and a few two-write batches (remove + re-insert elsewhere, overwrite)
WS(K, V) == {<<>>} \cup Singles(K, V)
           \cup {<<W(k1, TRUE, <<>>), W(k2, FALSE, v)>> : k1 \in K, k2 \in K, v \in V}
WSsmall == {<<>>} \cup Singles(NK2, NV1) \cup {<<W(<<97>>, TRUE, <<>>), W(<<97, 98>>, FALSE, <<1>>)>>}
WSfull == WS(NK, NV)
WSmid == {<<>>} \cup Singles(NK, NV1) \cup {<<W(k1, TRUE, <<>>), W(k2, FALSE, <<1>>)>> : k1 \in NK, k2 \in NK}
\* single writes over three keys (a prefix pair and a key on the other side of the root): one line of versions
WSline == {<<>>} \cup Singles(NK, NV1)
TrueConst == TRUE
TBoth == {"state", "io"}
TState == {"state"}
TIO == {"io"}
\* competing candidates of the same shape with other values (single inserts over two keys, two values per key)
WSvals2 == {<<>>} \cup {<<W(k, FALSE, v)>> : k \in NK2, v \in NV}
\* ... and two-key batches (an internal root with two leaf children: children are resolved by position, not by hash)
WSpairs == {<<>>} \cup {<<W(<<97>>, FALSE, v), W(<<128>>, FALSE, w)>> : v \in NV, w \in NV}
=============================================================================
