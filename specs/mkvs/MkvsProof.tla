------------------------------ MODULE MkvsProof ------------------------------
(***************************************************************************)
(* C04 - Merkle proofs of the MKVS tree: an explicit model of              *)
(*   - what the tree puts into a proof for SyncGet / SyncIterate /         *)
(*     SyncGetPrefixes (lookup.go doGet, iterator.go doNext/Next,          *)
(*     prefetch.go, syncer/proof.go ProofBuilder.Include/Build),           *)
(*   - how a proof is verified (syncer/proof.go verifyProofOpts /          *)
(*     verifyProof) and merged into a remote-backed tree (syncer/merge.go, *)
(*     cache.go remoteSync),                                               *)
(*   - an adversary that alters proofs (Mutate),                           *)
(* and the check that this operational model satisfies the declarative     *)
(* rule of MkvsProofRule.tla under the perfect-hash assumption: the hash   *)
(* of a subtree IS its structural term (MkvsTrie), so two hashes are equal *)
(* iff the subtrees are equal.                                             *)
(*                                                                         *)
(* A proof is [v, root, entries]; entries (pre-order) are                  *)
(*   NilE            the nil child                                         *)
(*   HashE(h)        a subtree given by its hash only                      *)
(*   FullE(n)        a node with child hashes elided:  Leaf(k, v)  or      *)
(*                   PInt(lbl, leaf)  (version 0 embeds the leaf in the    *)
(*                   internal node entry; version 1 always embeds Nil and  *)
(*                   the leaf follows as a separate child entry).          *)
(* A verified proof yields a partial tree: MkvsTrie nodes plus HashP(h)    *)
(* for pointers that carry only a hash.                                    *)
(***************************************************************************)
EXTENDS MkvsTrie, MkvsProofRule, Json

CONSTANTS Keys,        \* key universe of the trees
          Vals,        \* values stored in trees
          MaxKeys,     \* trees have at most this many keys
          QKeys,       \* keys asked about (lookups, seeks) - superset of Keys
          MutKeys,     \* keys the adversary writes into leaf entries
          MutVals,     \* values the adversary writes into leaf entries
          Sibs,        \* subset of BOOLEAN: include_siblings settings
          Versions,    \* subset of {0, 1}
          IterNs,      \* prefetch values of SyncIterate
          PfxSets,     \* set of prefix lists (sequences of keys) for SyncGetPrefixes
          PfxLimits,   \* limits for SyncGetPrefixes
          OtherMaps,   \* contents of other trees the adversary splices from
          RespPats,    \* response patterns (sequences of "h"/"c") of the untrusted peer
          MaxMut,      \* number of successive mutations (1 = singles, 2 = pairs)
          OpKinds      \* subset of {"get", "iter", "pfx"}

MaxProofDepth == 128   \* syncer/proof.go maxProofDepth

VARIABLES c,      \* the case: [m |-> contents, q |-> query]
          p,      \* the (possibly mutated) proof
          muts    \* mutations applied so far

vars == <<c, p, muts>>

-----------------------------------------------------------------------------
(* Entries and partial trees                                               *)

NilE == [e |-> "nil"]
HashE(h) == [e |-> "hash", h |-> h]
FullE(n) == [e |-> "full", n |-> n]
(* a full internal entry in the NON-compact node encoding: the two child hashes are embedded in the entry itself.   *)
(* node.UnmarshalBinary accepts it (and computes a hash from the embedded values); verifyProof takes the children   *)
(* from the entries that follow and recomputes the hash, i.e. the embedding is ignored - see VerifyAt.               *)
EmbE(n, hl, hr) == [e |-> "full", n |-> n, emb |-> <<hl, hr>>]
HasEmb(e) == "emb" \in DOMAIN e
PInt(lbl, leaf) == [t |-> "int", lbl |-> lbl, leaf |-> leaf]
HashP(h) == [t |-> "hash", h |-> h]

(* recomputed hash of a partial tree = the structural term *)
RECURSIVE Term(_)
Term(pt) == IF pt.t = "hash" THEN pt.h
            ELSE IF pt.t = "int" THEN Inode(pt.lbl, Term(pt.leaf), Term(pt.l), Term(pt.r))
            ELSE pt

RECURSIVE AllNodes(_)
AllNodes(n) == IF n.t = "nil" THEN {}
               ELSE IF n.t = "leaf" THEN {n}
               ELSE {n} \cup AllNodes(n.leaf) \cup AllNodes(n.l) \cup AllNodes(n.r)

KeyBits(k) == Bits(k, 0, BitLen(k))
(* bit tuple -> zero padded byte tuple (Key.Merge / Split results) *)
Pack(b) == LET nb == (Len(b) + 7) \div 8
               bit(j) == IF j <= Len(b) THEN b[j] ELSE 0
           IN  [i \in 1..nb |-> LET o == 8 * (i - 1) IN
                   128 * bit(o + 1) + 64 * bit(o + 2) + 32 * bit(o + 3) + 16 * bit(o + 4)
                   + 8 * bit(o + 5) + 4 * bit(o + 6) + 2 * bit(o + 7) + bit(o + 8)]

-----------------------------------------------------------------------------
(* ProofBuilder.Build: pre-order emission of the included nodes            *)

RECURSIVE Entries(_, _, _)
Entries(n, Inc, v) ==
    IF n.t = "nil" THEN <<NilE>>
    ELSE IF n \notin Inc THEN <<HashE(n)>>
    ELSE IF n.t = "leaf" THEN <<FullE(n)>>
    ELSE IF v = 0 THEN <<FullE(PInt(n.lbl, n.leaf))>> \o Entries(n.l, Inc, v) \o Entries(n.r, Inc, v)
    ELSE <<FullE(PInt(n.lbl, Nil))>> \o Entries(n.leaf, Inc, v) \o Entries(n.l, Inc, v) \o Entries(n.r, Inc, v)

(* Build: anchored at `pos` when that node was included, else at the tree root *)
BuildFrom(t, Inc, v, pos) ==
    LET rt == IF pos \in Inc THEN pos ELSE t IN
    [v |-> v, root |-> rt, entries |-> Entries(rt, Inc, v)]

-----------------------------------------------------------------------------
(* lookup.go doGet: the nodes a lookup includes in the proof.  Note that   *)
(* the descent follows key bits only; labels are never compared, the leaf  *)
(* key comparison at the end decides.                                      *)

RECURSIVE GetInc(_, _, _, _, _, _)
GetInc(n, depth, key, sib, v, stop) ==
    IF n.t = "nil" THEN {}
    ELSE IF stop \/ n.t = "leaf" THEN {n}
    ELSE
      LET bl == depth + Len(n.lbl)
          klen == BitLen(key)
      IN  IF klen = bl THEN
              {n} \cup (IF sib THEN GetInc(n.l, bl, key, sib, v, TRUE) \cup GetInc(n.r, bl, key, sib, v, TRUE) ELSE {})
                  \cup (IF v = 0 THEN {} ELSE GetInc(n.leaf, bl, key, sib, v, FALSE))
          ELSE IF klen < bl THEN {n}
          ELSE
            LET right == Bit(key, bl) = 1
                visit == IF right THEN n.r ELSE n.l
                other == IF right THEN n.l ELSE n.r
            IN  {n} \cup GetInc(visit, bl, key, sib, v, FALSE)
                    \cup (IF sib THEN (IF v > 0 THEN GetInc(n.leaf, bl, key, sib, v, TRUE) ELSE {})
                                      \cup GetInc(other, bl, key, sib, v, TRUE)
                          ELSE {})

BuildGetAt(t, k, sib, v, pos) == BuildFrom(t, GetInc(t, 0, k, sib, v, FALSE), v, pos)
BuildGet(t, k, sib, v) == BuildGetAt(t, k, sib, v, t)

-----------------------------------------------------------------------------
(* iterator.go: doNext / Seek / Next with the position stack.  Iterator    *)
(* keys are byte tuples as in the code (BitLength = 8 * bytes).            *)

AppendBit(k, keyLen, val) ==
    LET nl == (keyLen + 8) \div 8 IN
    Pack([j \in 1..(8 * nl) |-> IF j = keyLen + 1 THEN val
                                ELSE IF j <= 8 * Len(k) THEN Bit(k, j - 1) ELSE 0])
AdvanceRight(k, nbd) == AppendBit(Pack(Bits(k, 0, nbd)), nbd, 1)

NotFound(inc) == [found |-> FALSE, k |-> <<>>, v |-> <<>>, pos |-> <<>>, inc |-> inc]
Atom(n, bd, path, st) == [n |-> n, bd |-> bd, path |-> path, st |-> st]

RECURSIVE DoNext(_, _, _, _, _)
DoNext(n, bd, path, key, state) ==
    IF n.t = "nil" THEN NotFound({})
    ELSE IF n.t = "leaf" THEN
        IF BLe(key, n.k) THEN [found |-> TRUE, k |-> n.k, v |-> n.v, pos |-> <<>>, inc |-> {n}]
        ELSE NotFound({n})
    ELSE
      LET nbd   == bd + Len(n.lbl)
          npath == path \o n.lbl
          takeFirst    == nbd > 0 /\ BitLen(key) >= nbd /\ BLt(key, Pack(npath))
          keyNotLonger == BitLen(key) <= nbd
          hit(r, st, inc) == [r EXCEPT !.pos = Append(r.pos, Atom(n, bd, path, st)), !.inc = r.inc \cup inc]
          \* from the right child on
          goRight(k3, inc) ==
              LET r3 == DoNext(n.r, nbd, npath, k3, "before") IN
              IF r3.found THEN hit(r3, "after", inc) ELSE NotFound(inc \cup r3.inc)
          \* from state visitAt on
          goAt(k1, inc) ==
              LET k2 == IF keyNotLonger THEN AppendBit(k1, nbd, 0) ELSE k1 IN
              IF Bit(k2, nbd) = 0 \/ takeFirst THEN
                  LET r2 == DoNext(n.l, nbd, npath, k2, "before") IN
                  IF r2.found THEN hit(r2, "atleft", inc)
                  ELSE goRight(AdvanceRight(k2, nbd), inc \cup r2.inc)
              ELSE goRight(k2, inc)
      IN
      CASE state = "before" ->
              IF keyNotLonger \/ takeFirst THEN
                  LET r1 == DoNext(n.leaf, nbd, npath, key, "before") IN
                  IF r1.found THEN hit(r1, "at", {n}) ELSE goAt(key, {n} \cup r1.inc)
              ELSE goAt(key, {n})
        [] state = "at" -> goAt(key, {n})
        [] state = "atleft" -> goRight(AdvanceRight(key, nbd), {n})
        [] OTHER -> NotFound({n})

ItState(valid, k, v, pos, inc) == [valid |-> valid, k |-> k, v |-> v, pos |-> pos, inc |-> inc]

ItSeek(t, seek, inc) ==
    LET r == DoNext(t, 0, <<>>, seek, "before") IN ItState(r.found, r.k, r.v, r.pos, inc \cup r.inc)

RECURSIVE ItNextLoop(_, _, _)
ItNextLoop(key, pos, inc) ==
    IF pos = <<>> THEN ItState(FALSE, <<>>, <<>>, <<>>, inc)
    ELSE LET a == Head(pos)
             r == DoNext(a.n, a.bd, a.path, key, a.st)
         IN  IF r.found THEN ItState(TRUE, r.k, r.v, r.pos \o Tail(pos), inc \cup r.inc)
             ELSE ItNextLoop(key, Tail(pos), inc \cup r.inc)
ItNext(it) == IF it.valid THEN ItNextLoop(it.k, it.pos, it.inc) ELSE it

RECURSIVE ItAdvance(_, _)
ItAdvance(it, n) == IF n = 0 \/ ~it.valid THEN it ELSE ItAdvance(ItNext(it), n - 1)

(* SyncIterate: Seek(key), then up to `prefetch` Next() *)
BuildIterate(t, seek, n, v) == BuildFrom(t, ItAdvance(ItSeek(t, seek, {}), n).inc, v, t)

(* prefetch.go SyncGetPrefixes *)
RECURSIVE PfxInner(_, _, _, _)
PfxInner(it, pfx, total, limit) ==    \* -> [it, total, stop]
    IF ~it.valid THEN [it |-> it, total |-> total, stop |-> FALSE]
    ELSE IF total >= limit THEN [it |-> it, total |-> total, stop |-> TRUE]
    ELSE IF ~IsBytePrefix(pfx, it.k) THEN [it |-> it, total |-> total, stop |-> FALSE]
    ELSE PfxInner(ItNext(it), pfx, total + 1, limit)

RECURSIVE PfxOuter(_, _, _, _, _)
PfxOuter(t, ps, total, limit, inc) ==
    IF ps = <<>> THEN inc
    ELSE LET r == PfxInner(ItSeek(t, Head(ps), inc), Head(ps), total, limit) IN
         IF r.stop THEN r.it.inc ELSE PfxOuter(t, Tail(ps), r.total, limit, r.it.inc)

BuildPrefixes(t, ps, limit, v) == BuildFrom(t, PfxOuter(t, ps, 0, limit, {}), v, t)

-----------------------------------------------------------------------------
(* syncer/proof.go verifyProof / verifyProofOpts                           *)

VFail(why) == [ok |-> FALSE, why |-> why, pos |-> 0, pt |-> Nil]
VOk(pos, pt) == [ok |-> TRUE, why |-> "ok", pos |-> pos, pt |-> pt]

RECURSIVE VerifyAt(_, _, _, _)
VerifyAt(es, idx, depth, v) ==
    IF idx > Len(es) THEN VFail("malformed")
    ELSE IF depth > MaxProofDepth THEN VFail("depth")
    ELSE
      LET e == es[idx] IN
      IF e.e = "nil" THEN VOk(idx + 1, Nil)
      ELSE IF e.e = "hash" THEN VOk(idx + 1, HashP(e.h))
      ELSE IF e.n.t = "leaf" THEN VOk(idx + 1, e.n)
      ELSE
        \* internal node: version 0 takes the embedded leaf, version 1 reads it as the first child
        LET lf == IF v = 0 THEN VOk(idx + 1, e.n.leaf) ELSE VerifyAt(es, idx + 1, depth + 1, v) IN
        IF ~lf.ok THEN lf
        ELSE LET l == VerifyAt(es, lf.pos, depth + 1, v) IN
             IF ~l.ok THEN l
             ELSE LET r == VerifyAt(es, l.pos, depth + 1, v) IN
                  IF ~r.ok THEN r
                  ELSE VOk(r.pos, Inode(e.n.lbl, lf.pt, l.pt, r.pt))

Verify(root, pr) ==
    IF pr.v \notin {0, 1} THEN VFail("version")
    ELSE IF pr.root # root THEN VFail("root")
    ELSE IF Len(pr.entries) = 0 THEN VFail("empty")
    ELSE LET r == VerifyAt(pr.entries, 1, 0, pr.v) IN
         IF ~r.ok THEN r
         ELSE IF r.pos # Len(pr.entries) + 1 THEN VFail("unused")
         ELSE IF Term(r.pt) # root THEN VFail("badroot")
         ELSE r

(* VerifyProofToWriteLog: leaves in the order the verifier meets them *)
RECURSIVE WriteLogOf(_, _)
WriteLogOf(pt, v) ==
    IF pt.t = "leaf" THEN <<<<pt.k, pt.v>>>>
    ELSE IF pt.t = "int" THEN WriteLogOf(pt.leaf, v) \o WriteLogOf(pt.l, v) \o WriteLogOf(pt.r, v)
    ELSE <<>>

-----------------------------------------------------------------------------
(* What a reader derives from a verified (partial) tree.                   *)

(* lookup.go doGet on a partial tree *)
RECURSIVE PLookup(_, _, _)
PLookup(pt, depth, k) ==
    IF pt.t = "nil" THEN Absent
    ELSE IF pt.t = "hash" THEN (IF pt.h = Nil THEN Absent ELSE Unk)
    ELSE IF pt.t = "leaf" THEN (IF pt.k = k THEN Val(pt.v) ELSE Absent)
    ELSE LET bl == depth + Len(pt.lbl) IN
         IF BitLen(k) = bl THEN PLookup(pt.leaf, bl, k)
         ELSE IF BitLen(k) < bl THEN Absent
         ELSE IF Bit(k, bl) = 1 THEN PLookup(pt.r, bl, k) ELSE PLookup(pt.l, bl, k)

(* the hash a reader has to fetch next when looking up k (Nil if none) *)
RECURSIVE Need(_, _, _)
Need(pt, depth, k) ==
    IF pt.t = "hash" THEN pt.h
    ELSE IF pt.t # "int" THEN Nil
    ELSE LET bl == depth + Len(pt.lbl) IN
         IF BitLen(k) = bl THEN Need(pt.leaf, bl, k)
         ELSE IF BitLen(k) < bl THEN Nil
         ELSE IF Bit(k, bl) = 1 THEN Need(pt.r, bl, k) ELSE Need(pt.l, bl, k)

(* in-order tokens of a partial tree: leaves, and unknown parts with the bit prefix all their keys share *)
Tok(t, pth, k, v) == [t |-> t, p |-> pth, k |-> k, v |-> v]
RECURSIVE Tokens(_, _, _, _)
Tokens(pt, base, hint, leafPos) ==
    IF pt.t = "nil" THEN <<>>
    ELSE IF pt.t = "hash" THEN
        (IF pt.h = Nil THEN <<>> ELSE <<Tok(IF leafPos THEN "unkleaf" ELSE "unk", hint, <<>>, <<>>)>>)
    ELSE IF pt.t = "leaf" THEN <<Tok("leaf", <<>>, pt.k, pt.v)>>
    ELSE LET np == base \o pt.lbl IN
         Tokens(pt.leaf, np, np, TRUE) \o Tokens(pt.l, np, Append(np, 0), FALSE) \o Tokens(pt.r, np, Append(np, 1), FALSE)

(* every key with bit prefix pb is byte-lexicographically smaller than the key with bits sb *)
AllLess(pb, sb) ==
    \E i \in 1..(IF Len(pb) < Len(sb) THEN Len(pb) ELSE Len(sb)) :
        /\ pb[i] = 0 /\ sb[i] = 1
        /\ \A j \in 1..(i - 1) : pb[j] = sb[j]

(* iterate from seek, at most n items; pfx # <<>> restricts to keys with that byte prefix *)
RECURSIVE IterFold(_, _, _, _, _, _)
IterFold(toks, seek, n, usePfx, pfx, acc) ==
    IF Len(acc) >= n \/ toks = <<>> THEN [items |-> acc, complete |-> TRUE]
    ELSE
      LET tk == Head(toks) IN
      IF tk.t = "leaf" THEN
          IF ~BLe(seek, tk.k) THEN IterFold(Tail(toks), seek, n, usePfx, pfx, acc)
          ELSE IF usePfx /\ ~IsBytePrefix(pfx, tk.k) THEN [items |-> acc, complete |-> TRUE]
          ELSE IterFold(Tail(toks), seek, n, usePfx, pfx, Append(acc, <<tk.k, tk.v>>))
      ELSE IF tk.t = "unkleaf" THEN
          IF Len(tk.p) % 8 = 0 /\ BLt(Pack(tk.p), seek) THEN IterFold(Tail(toks), seek, n, usePfx, pfx, acc)
          ELSE [items |-> acc, complete |-> FALSE]
      ELSE
          IF AllLess(tk.p, KeyBits(seek)) THEN IterFold(Tail(toks), seek, n, usePfx, pfx, acc)
          ELSE [items |-> acc, complete |-> FALSE]

PIter(pt, seek, n) == IterFold(Tokens(pt, <<>>, <<>>, FALSE), seek, n, FALSE, <<>>, <<>>)
PPfx(pt, pfx, n) == IterFold(Tokens(pt, <<>>, <<>>, FALSE), pfx, n, TRUE, pfx, <<>>)

-----------------------------------------------------------------------------
(* syncer/merge.go MergeVerifiedSubtree and cache.go remoteSync: a reader  *)
(* that holds only the root and asks an untrusted peer (ample cache).      *)

MOk(pt) == [ok |-> TRUE, pt |-> pt]
MFail == [ok |-> FALSE, pt |-> Nil]

RECURSIVE Merge(_, _)
Merge(dst, sub) ==
    IF dst.t = "nil" \/ sub.t = "nil" THEN MOk(dst)
    ELSE IF Term(dst) # Term(sub) THEN MFail
    ELSE IF sub.t = "hash" THEN MOk(dst)
    ELSE IF dst.t = "hash" THEN MOk(sub)
    ELSE IF dst.t = "int" /\ sub.t = "int" THEN
        LET l == Merge(dst.l, sub.l)
            r == Merge(dst.r, sub.r)
        IN  IF l.ok /\ r.ok THEN MOk([dst EXCEPT !.l = l.pt, !.r = r.pt]) ELSE MFail
    ELSE MOk(dst)

(* merge at the pointer(s) that carry hash h *)
RECURSIVE Subst(_, _, _)
Subst(pt, h, sub) ==
    IF pt.t = "hash" THEN (IF pt.h = h THEN sub ELSE pt)
    ELSE IF pt.t = "int" THEN [pt EXCEPT !.leaf = Subst(pt.leaf, h, sub), !.l = Subst(pt.l, h, sub), !.r = Subst(pt.r, h, sub)]
    ELSE pt

RErr == [err |-> TRUE, a |-> Unk]

(* cache.go derefNodePtr: an internal node met in the cache whose leaf pointer carries no node is dropped and fetched
   again; a node that this very read has just fetched (hash in `fetched`) is used as received *)
RECURSIVE Refetch(_, _, _, _)
Refetch(pt, depth, k, fetched) ==
    IF pt.t # "int" THEN pt
    ELSE IF pt.leaf.t = "hash" /\ Term(pt) \notin fetched THEN HashP(Term(pt))
    ELSE LET bl == depth + Len(pt.lbl) IN
         IF BitLen(k) <= bl THEN pt
         ELSE IF Bit(k, bl) = 1 THEN [pt EXCEPT !.r = Refetch(pt.r, bl, k, fetched)]
         ELSE [pt EXCEPT !.l = Refetch(pt.l, bl, k, fetched)]

-----------------------------------------------------------------------------
(* The adversary.                                                          *)

Mut(k, i, j, key, es, b) == [k |-> k, i |-> i, j |-> j, key |-> key, es |-> es, b |-> b]
M1(k, i) == Mut(k, i, 0, <<>>, <<>>, 0)

Cut(es, i, j, new) == SubSeq(es, 1, i - 1) \o new \o SubSeq(es, j, Len(es))   \* replace es[i..j-1]

(* the subtree that starts at entry i: [ok, end (index after it), term] *)
Span(es, i, v) ==
    LET r == VerifyAt(es, i, 0, v) IN
    IF r.ok THEN [ok |-> TRUE, end |-> r.pos, term |-> Term(r.pt)] ELSE [ok |-> FALSE, end |-> i + 1, term |-> Nil]

(* recomputed terms of the two children of the internal entry i *)
ChildTerms(es, i, v) ==
    LET lf == IF v = 0 THEN VOk(i + 1, Nil) ELSE VerifyAt(es, i + 1, 1, v) IN
    IF ~lf.ok THEN [ok |-> FALSE, l |-> Nil, r |-> Nil]
    ELSE LET l == VerifyAt(es, lf.pos, 1, v) IN
         IF ~l.ok THEN [ok |-> FALSE, l |-> Nil, r |-> Nil]
         ELSE LET r == VerifyAt(es, l.pos, 1, v) IN
              IF ~r.ok THEN [ok |-> FALSE, l |-> Nil, r |-> Nil]
              ELSE [ok |-> TRUE, l |-> Term(l.pt), r |-> Term(r.pt)]

EntryLeaf(e) == IF e.e # "full" THEN Nil
                ELSE IF e.n.t = "leaf" THEN e.n
                ELSE e.n.leaf
SetEntryLeaf(e, lf) == IF e.n.t = "leaf" THEN FullE(lf) ELSE FullE([e.n EXCEPT !.leaf = lf])
IsIntE(e) == e.e = "full" /\ e.n.t = "int"
HasLeafE(e) == EntryLeaf(e).t = "leaf"

OtherTrees == {Canon(om) : om \in OtherMaps}
OtherNodes == UNION {AllNodes(ot) : ot \in OtherTrees}

Muts(pr, t, q) ==
    LET es == pr.entries
        N  == Len(es)
        I  == 1..N
        IFull == {i \in I : es[i].e = "full"}
        IInt  == {i \in I : IsIntE(es[i])}
        ILeaf == {i \in I : HasLeafE(es[i])}
    IN
       {M1("drop", i) : i \in I}
    \cup {M1("dup", i) : i \in I}
    \cup {Mut("swap", ij[1], ij[2], <<>>, <<>>, 0) : ij \in {x \in I \X I : x[1] < x[2] /\ es[x[1]] # es[x[2]]}}
    \cup {M1("prune", i) : i \in IFull}
    \cup {M1("tonil", i) : i \in {j \in I : es[j].e # "nil"}}      \* the subtree that starts at entry i is replaced by a nil entry
    \cup {M1("tohash", i) : i \in IInt}
    \cup {Mut("embed", i, 0, <<>>, <<>>, b) : i \in {j \in IInt : ~HasEmb(es[j])}, b \in {0, 1}}   \* 0 = the true child hashes, 1 = empty hashes
    \cup {M1("nilhash", i) : i \in {i \in I : es[i].e = "nil"}}
    \cup {Mut("sethash", i, 0, <<>>, <<HashE(h)>>, 0) : i \in I, h \in OtherTrees}
    \cup {Mut("expand", i, 0, <<>>, Entries(es[i].h, AllNodes(es[i].h), pr.v), 0) :
             i \in {i \in I : es[i].e = "hash" /\ es[i].h \in AllNodes(t)}}
    \cup {Mut("splice", i, 0, <<>>, Entries(s, AllNodes(s), pr.v), 0) : i \in I, s \in OtherNodes}
    \cup {Mut("chkey", i, 0, k, <<>>, 0) : i \in ILeaf, k \in MutKeys}
    \cup {Mut("chval", i, 0, w, <<>>, 0) : i \in ILeaf, w \in MutVals}
    \cup UNION {{Mut("fliplbl", i, 0, <<>>, <<>>, b) : b \in 1..Len(es[i].n.lbl)} : i \in IInt}
    \cup {Mut("lbllen", i, 0, <<>>, <<>>, b) : i \in IInt, b \in {-1, 0, 1}}
    \cup {M1("unleaf", i) : i \in IInt \cap ILeaf}
    \cup {Mut("addleaf", i, 0, k, <<>>, 0) : i \in IInt \ ILeaf, k \in MutKeys}
    \cup {M1("trunc", i) : i \in 0..(N - 1)}
    \cup {Mut("extend", 0, 0, <<>>, <<x>>, 0) : x \in {NilE} \cup (IF N > 0 THEN {es[1]} ELSE {}) \cup {HashE(h) : h \in OtherTrees}}
    \cup {M1("vflip", 0), M1("badv", 0)}
    \cup {Mut("root", 0, 0, <<>>, <<HashE(h)>>, 0) : h \in OtherTrees}
    \cup (IF q.op = "get" /\ pr.v \in {0, 1} THEN {Mut("otherv", 0, 0, <<>>, BuildGet(t, q.k, q.sib, 1 - pr.v).entries, 0)} ELSE {})

Applicable(pr, mu) ==
    LET es == pr.entries N == Len(es) i == mu.i IN
    CASE mu.k \in {"drop", "dup", "sethash", "splice"} -> i \in 1..N
      [] mu.k = "swap" -> i \in 1..N /\ mu.j \in 1..N
      [] mu.k = "prune" -> i \in 1..N /\ es[i].e = "full"
      [] mu.k = "tonil" -> i \in 1..N /\ es[i].e # "nil"
      [] mu.k = "tohash" -> i \in 1..N /\ IsIntE(es[i])
      [] mu.k = "embed" -> i \in 1..N /\ IsIntE(es[i]) /\ ~HasEmb(es[i])
      [] mu.k = "nilhash" -> i \in 1..N /\ es[i].e = "nil"
      [] mu.k = "expand" -> i \in 1..N /\ es[i].e = "hash"
      [] mu.k \in {"chkey", "chval"} -> i \in 1..N /\ HasLeafE(es[i])
      [] mu.k = "fliplbl" -> i \in 1..N /\ IsIntE(es[i]) /\ mu.b \in 1..Len(es[i].n.lbl)
      [] mu.k = "lbllen" -> i \in 1..N /\ IsIntE(es[i]) /\ (mu.b >= 0 \/ Len(es[i].n.lbl) > 0)
      [] mu.k = "unleaf" -> i \in 1..N /\ IsIntE(es[i]) /\ HasLeafE(es[i])
      [] mu.k = "addleaf" -> i \in 1..N /\ IsIntE(es[i])
      [] mu.k = "trunc" -> i \in 0..(N - 1)
      [] mu.k \in {"otherv", "vflip"} -> pr.v \in {0, 1}
      [] OTHER -> TRUE

Apply(pr, mu) ==
    LET es == pr.entries
        i  == mu.i
        E(x) == [pr EXCEPT !.entries = x]
    IN
    IF ~Applicable(pr, mu) THEN pr
    ELSE
    CASE mu.k = "drop" -> E(Cut(es, i, i + 1, <<>>))
      [] mu.k = "dup" -> E(Cut(es, i, i, <<es[i]>>))
      [] mu.k = "swap" -> E([es EXCEPT ![i] = es[mu.j], ![mu.j] = es[i]])
      [] mu.k = "prune" -> LET sp == Span(es, i, pr.v) IN
                           IF sp.ok THEN E(Cut(es, i, sp.end, <<HashE(sp.term)>>)) ELSE pr
      [] mu.k = "tonil" -> LET sp == Span(es, i, pr.v) IN
                           E(Cut(es, i, IF sp.ok THEN sp.end ELSE i + 1, <<NilE>>))
      [] mu.k = "tohash" -> LET sp == Span(es, i, pr.v) IN
                            IF sp.ok THEN E(Cut(es, i, i + 1, <<HashE(sp.term)>>)) ELSE pr
      [] mu.k = "embed" -> LET ch == ChildTerms(es, i, pr.v) IN
                           IF ~ch.ok THEN pr
                           ELSE E([es EXCEPT ![i] = IF mu.b = 0 THEN EmbE(es[i].n, ch.l, ch.r) ELSE EmbE(es[i].n, Nil, Nil)])
      [] mu.k = "nilhash" -> E([es EXCEPT ![i] = HashE(Nil)])
      [] mu.k = "sethash" -> E([es EXCEPT ![i] = mu.es[1]])
      [] mu.k = "expand" -> E(Cut(es, i, i + 1, mu.es))
      [] mu.k = "splice" -> E(Cut(es, i, Span(es, i, pr.v).end, mu.es))
      [] mu.k = "chkey" -> E([es EXCEPT ![i] = SetEntryLeaf(es[i], Leaf(mu.key, EntryLeaf(es[i]).v))])
      [] mu.k = "chval" -> E([es EXCEPT ![i] = SetEntryLeaf(es[i], Leaf(EntryLeaf(es[i]).k, mu.key))])
      [] mu.k = "fliplbl" -> E([es EXCEPT ![i] = FullE([es[i].n EXCEPT !.lbl = [@ EXCEPT ![mu.b] = 1 - @]])])
      [] mu.k = "lbllen" -> E([es EXCEPT ![i] = FullE([es[i].n EXCEPT !.lbl =
                                 IF mu.b < 0 THEN SubSeq(@, 1, Len(@) - 1) ELSE Append(@, mu.b)])])
      [] mu.k = "unleaf" -> E([es EXCEPT ![i] = FullE([es[i].n EXCEPT !.leaf = Nil])])
      [] mu.k = "addleaf" -> E([es EXCEPT ![i] = FullE([es[i].n EXCEPT !.leaf = Leaf(mu.key, <<1>>)])])
      [] mu.k = "trunc" -> E(SubSeq(es, 1, i))
      [] mu.k = "extend" -> E(es \o mu.es)
      [] mu.k = "vflip" -> [pr EXCEPT !.v = 1 - pr.v]
      [] mu.k = "badv" -> [pr EXCEPT !.v = 2]
      [] mu.k = "root" -> [pr EXCEPT !.root = mu.es[1].h]
      [] mu.k = "otherv" -> [v |-> 1 - pr.v, root |-> pr.root, entries |-> mu.es]
      [] OTHER -> pr

Mutate(pr, mu) == Apply(pr, mu)     \* the adversary action

RECURSIVE ApplyAll(_, _)
ApplyAll(pr, ms) == IF ms = <<>> THEN pr ELSE ApplyAll(Apply(pr, Head(ms)), Tail(ms))

(* Get through an untrusted peer that corrupts the responses marked "c" (then honest for ever) *)
RECURSIVE RemoteGetF(_, _, _, _, _, _, _, _)
RemoteGetF(t, loc0, k, ms, cv, pat, fuel, fetched) ==
    LET loc == Refetch(loc0, 0, k, fetched)
        a == PLookup(loc, 0, k) IN
    IF a.s # "unk" THEN [err |-> FALSE, a |-> a]
    ELSE IF fuel = 0 THEN RErr
    ELSE
      LET h   == Need(loc, 0, k)
          hon == BuildGetAt(t, k, FALSE, 0, h)
          \* the reader asks for version 0; a corrupted response is derived from the honest proof in version cv
          rsp == IF pat # <<>> /\ Head(pat) = "c" THEN ApplyAll(BuildGetAt(t, k, FALSE, cv, h), ms) ELSE hon
      IN
      IF rsp.root # h /\ rsp.root # t THEN RErr
      ELSE
        LET vr == Verify(rsp.root, rsp) IN
        IF ~vr.ok THEN RErr
        ELSE
          LET mg == IF rsp.root = h THEN MOk(Subst(loc, h, vr.pt)) ELSE Merge(loc, vr.pt) IN
          IF ~mg.ok THEN RErr
          ELSE IF Need(mg.pt, 0, k) = h THEN RErr     \* "received result did not contain node"
          ELSE RemoteGetF(t, mg.pt, k, ms, cv, IF pat = <<>> THEN pat ELSE Tail(pat), fuel - 1, fetched \cup {h})

RemoteGet(t, loc, k, ms, cv, pat, fuel) == RemoteGetF(t, loc, k, ms, cv, pat, fuel, {})

-----------------------------------------------------------------------------
(* Cases.                                                                  *)

Maps == UNION {[S -> Vals] : S \in {S \in SUBSET Keys : Cardinality(S) <= MaxKeys}}

Query(op, k, sib, v, n, ps) == [op |-> op, k |-> k, sib |-> sib, v |-> v, n |-> n, ps |-> ps]
Queries ==
       (IF "get" \in OpKinds THEN {Query("get", k, s, v, 0, <<>>) : k \in QKeys, s \in Sibs, v \in Versions} ELSE {})
    \cup (IF "iter" \in OpKinds THEN {Query("iter", k, FALSE, v, n, <<>>) : k \in QKeys, v \in Versions, n \in IterNs} ELSE {})
    \cup (IF "pfx" \in OpKinds THEN {Query("pfx", <<>>, FALSE, v, n, ps) : ps \in PfxSets, v \in Versions, n \in PfxLimits} ELSE {})

Honest(t, q) ==
    CASE q.op = "get" -> BuildGet(t, q.k, q.sib, q.v)
      [] q.op = "iter" -> BuildIterate(t, q.k, q.n, q.v)
      [] OTHER -> BuildPrefixes(t, q.ps, q.n, q.v)

Tree == Canon(c.m)        \* the real tree; its term is the trusted root

Init ==
    /\ c \in {[m |-> m, q |-> q] : m \in Maps, q \in Queries}
    /\ p = Honest(Canon(c.m), c.q)
    /\ muts = <<>>

Next ==
    /\ Len(muts) < MaxMut
    /\ \E mu \in Muts(p, Tree, c.q) :
          /\ p' = Apply(p, mu)
          /\ p' # p                      \* mutations without effect are not mutations
          /\ muts' = Append(muts, mu)
    /\ UNCHANGED c

Spec == Init /\ [][Next]_vars

view == <<c, p>>
LastKind == IF muts = <<>> THEN "none" ELSE muts[Len(muts)].k
(* generation: one case per honest (contents, query) and per distinct (contents, mutated proof, mutation kind) *)
genview == <<c.m, p, IF muts = <<>> THEN c.q ELSE [k |-> LastKind]>>

-----------------------------------------------------------------------------
(* Op satisfies Rule.                                                      *)

BigN == 100

(* SyncGetPrefixes determines, prefix after prefix, everything under a prefix until the limit is used up *)
RECURSIVE PfxDetermined(_, _, _, _, _)
PfxDetermined(m, pt, ps, total, limit) ==
    IF ps = <<>> THEN TRUE
    ELSE LET cnt == Len(TruePfx(m, Head(ps))) IN
         IF total + cnt < limit
         THEN /\ PfxComplete(m, Head(ps), BigN, PPfx(pt, Head(ps), BigN))
              /\ PfxDetermined(m, pt, Tail(ps), total + cnt, limit)
         ELSE PfxComplete(m, Head(ps), limit - total, PPfx(pt, Head(ps), limit - total))

Determined(m, q, pt) ==
    CASE q.op = "get" -> AnswerComplete(m, q.k, PLookup(pt, 0, q.k))
      [] q.op = "iter" -> IterComplete(m, q.k, q.n + 1, PIter(pt, q.k, q.n + 1))
      [] OTHER -> PfxDetermined(m, pt, q.ps, 0, q.n)

Completeness ==
    muts = <<>> =>
        LET vr == Verify(Tree, p) IN
        /\ vr.ok
        /\ Determined(c.m, c.q, vr.pt)
        /\ (c.q.op = "get" /\ c.q.k \in DOMAIN c.m => \E i \in DOMAIN WriteLogOf(vr.pt, p.v) : WriteLogOf(vr.pt, p.v)[i] = <<c.q.k, c.m[c.q.k]>>)

SoundPT(m, pt) ==
    /\ \A k \in QKeys : AnswerSound(m, k, PLookup(pt, 0, k))
    /\ \A k \in QKeys : IterSound(m, k, BigN, PIter(pt, k, BigN))
    /\ \A k \in QKeys : \A n \in 1..2 : IterSound(m, k, n, PIter(pt, k, n))
    /\ \A k \in QKeys : PfxSound(m, k, BigN, PPfx(pt, k, BigN))

Soundness ==
    LET vr == Verify(Tree, p) IN
    vr.ok => /\ SoundPT(c.m, vr.pt)
             /\ WriteLogSound(c.m, WriteLogOf(vr.pt, p.v))

(* lemma behind soundness under the perfect hash: an accepted proof is a pruning of the real tree *)
RECURSIVE IsPruning(_, _)
IsPruning(pt, t) ==
    IF pt.t = "hash" THEN pt.h = t
    ELSE IF pt.t = "int" THEN t.t = "int" /\ pt.lbl = t.lbl /\ IsPruning(pt.leaf, t.leaf) /\ IsPruning(pt.l, t.l) /\ IsPruning(pt.r, t.r)
    ELSE pt = t
Pruning == LET vr == Verify(Tree, p) IN vr.ok => IsPruning(vr.pt, Tree)

RemoteKeys == IF c.q.op = "get" THEN {c.q.k} ELSE {}
RemoteRule ==
    \A k \in RemoteKeys : \A pat \in RespPats :
        RemoteSound(c.m, k, RemoteGet(Tree, HashP(Tree), k, muts, c.q.v, pat, 12))
RemoteHonest ==   \* an honest peer is always understood
    muts = <<>> => \A k \in RemoteKeys : LET r == RemoteGet(Tree, HashP(Tree), k, <<>>, 0, <<>>, 12) IN ~r.err /\ r.a = TrueAns(c.m, k)

-----------------------------------------------------------------------------
(* Emission of cases for the replay on the real code.                      *)

QClass(m, q) ==
    IF q.op # "get" /\ q.op # "iter" THEN "pfx"
    ELSE IF q.k \in DOMAIN m THEN "present"
    ELSE IF \E k \in DOMAIN m : IsBytePrefix(q.k, k) THEN "prefix_of_present"
    ELSE IF \E k \in DOMAIN m : IsBytePrefix(k, q.k) THEN "extension_of_present"
    ELSE "absent"

CaseRec ==
    LET vr == Verify(Tree, p)
        rk == IF c.q.op = "get" THEN <<c.q.k>> ELSE <<>>
        pats == SetToSeq(RespPats)
    IN
    [m |-> TruePairs(c.m), q |-> c.q, qc |-> QClass(c.m, c.q),
     mut |-> muts, acc |-> vr.ok, why |-> vr.why, n |-> Len(p.entries), pv |-> p.v,
     det |-> IF vr.ok THEN Determined(c.m, c.q, vr.pt) ELSE FALSE,
     hp |-> IF muts = <<>> THEN p.entries ELSE <<>>,
     rp |-> pats,
     remote |-> IF rk = <<>> THEN <<>>
                ELSE [i \in DOMAIN pats |->
                        [pat |-> pats[i], res |-> RemoteGet(Tree, HashP(Tree), rk[1], muts, c.q.v, pats[i], 12)]]]

EmitInv == PrintT(ToJson(CaseRec))
=============================================================================
