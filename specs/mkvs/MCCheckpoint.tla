---------------------------- MODULE MCCheckpoint ----------------------------
EXTENDS Checkpoint
(* key universes: the empty key, a prefix chain of four, keys differing in the first bit *)
K6 == {<<>>, <<97>>, <<97, 98>>, <<97, 98, 99>>, <<98>>, <<128>>}
K5 == {<<>>, <<97>>, <<97, 98>>, <<98>>, <<128>>}
K4 == {<<97>>, <<97, 98>>, <<98>>, <<128>>}
K3 == {<<97>>, <<97, 98>>, <<128>>}
V1 == {<<1>>}
V2 == {<<>>, <<1, 2, 3, 4, 5, 6, 7, 8, 9>>}
Maps(K, V) == UNION {[S -> V] : S \in SUBSET K}
C6 == Maps(K6, V1)
C5 == Maps(K5, V1)
C4 == Maps(K4, V1)
C4v == Maps(K4, V2)
C3 == Maps(K3, V1)
C3v == Maps(K3, V2)
Full(K) == {[k \in K |-> <<1>>]}
CSched == Full(K3) \cup Full(K4) \cup Full({<<97>>}) \cup Full({})
CSchedQ == Full(K3) \cup Full({<<97>>})
CChain == Full({<<97>>, <<97, 98>>, <<97, 98, 99>>, <<97, 98, 99, 100>>, <<97, 98, 99, 100, 101>>})
C6x == C6 \cup C3v \cup CChain
S200 == 1..200
S60 == (1..40) \cup {45, 50, 60, 80, 100, 150, 200}
SQuick == {1, 9, 10, 11, 12, 19, 20, 21, 22, 23, 24, 30, 31, 32, 33, 34, 40, 44, 45, 50, 55, 56, 60, 70, 100, 200}
SSched == {1, 25, 200}
T03 == 0..3
T04 == 0..4
TSched == {0, 2}
Both == {"badger", "pathbadger"}
OnlyPath == {"pathbadger"}
OnlyBadger == {"badger"}
VOne == {1}
VTwo == {1, 2}
AllExcuses == {"retry-same-version", "visible-after-abort", "crash-after-finalize-meta", "deep"}
WithDone == AllExcuses \cup {"done-after-abort"}
NoExcuse == {}
ExceptRetry == AllExcuses \ {"retry-same-version"}
ExceptVisible == AllExcuses \ {"visible-after-abort"}
ExceptDone == AllExcuses    \* with RestorerFixed = FALSE: the pinned restorer needs the done-after-abort excuse
ExceptCrashFin == AllExcuses \ {"crash-after-finalize-meta"}
ExceptDeep == AllExcuses \ {"deep"}
=============================================================================
