SPECIFICATION CSpec
CONSTANTS
  Keys <- NK2
  Vals <- NV1
  Types <- TState
  MaxV = 1
  MaxCand = 3
  MaxOps = 8
  WriteSets <- WSsmall
  SameVersionChains = FALSE
  Backends <- BothBackends
  Points <- PointsDef
  TrackLineage <- TrueConst
  MaxAfter <- Two
VIEW cgenview
INVARIANTS EmitCrash CrashWellFormed
CHECK_DEADLOCK FALSE
