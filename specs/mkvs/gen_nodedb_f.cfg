SPECIFICATION Spec
CONSTANTS
  Keys <- NK
  Vals <- NV
  Types <- TIO
  MaxV = 1
  MaxCand = 2
  MaxOps = 6
  WriteSets <- WSpairs
  SameVersionChains = FALSE
  TrackLineage <- TrueConst
VIEW genview
INVARIANTS EmitInv
CHECK_DEADLOCK FALSE
