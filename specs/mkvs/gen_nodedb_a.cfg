SPECIFICATION Spec
CONSTANTS
  Keys <- NK2
  Vals <- NV1
  Types <- TState
  MaxV = 3
  MaxCand = 2
  MaxOps = 12
  WriteSets <- WSsmall
  SameVersionChains = TRUE
VIEW genview
INVARIANTS EmitInv
CHECK_DEADLOCK FALSE
