------------------------------ MODULE Checkpoint ------------------------------
(***************************************************************************)
(* C12 (+ restore part of C07): checkpoints of an MKVS root.               *)
(*                                                                         *)
(* Op  - the two chunkers of go/storage/mkvs/checkpoint transcribed:       *)
(*         seqChunker      (chunk.go: iterator with a proof builder, cut   *)
(*                          when the proof size reaches the chunk size),   *)
(*         parallelChunker (chunk.go splitTasks / createChunks /           *)
(*                          filterFinished in lock-step rounds; subtree.go *)
(*                          split / nextChunk / trim with the visit states)*)
(*       with the proof builder's size estimate (1 + len of the compact    *)
(*       V0 serialisation per included node, embedded leaves counted       *)
(*       again when visited);                                              *)
(*       the restorer (restorer.go: pending chunk set, abort on proof      *)
(*       failure, RestoreChunk = check under lock / import / finish under  *)
(*       lock, so that one caller may be in flight while others act);      *)
(*       the multipart state of both node databases (StartMultipartInsert, *)
(*       chunk batch commit, AbortMultipartInsert, clean-on-open, Finalize)*)
(*       with what each keeps across an abort: pathbadger the reserved     *)
(*       root sequence numbers (NextPendingRootSeq, PendingRootSeqs) and   *)
(*       everything written so far (it never writes the restore node log   *)
(*       it later iterates); badger the restore node log, the roots        *)
(*       metadata of the version.                                          *)
(* Rule - declarative, over observations only (section RULE).              *)
(***************************************************************************)
EXTENDS MkvsTrie, SequencesExt, Json

CONSTANTS Trees,         \* set of key->value maps to checkpoint
          Sizes,         \* chunk sizes (bytes)
          ThreadSet,     \* chunker thread counts (0 = sequential chunker)
          Backends,      \* subset of {"badger", "pathbadger"}
          Versions,      \* versions at which the root may be restored
          Mode,          \* "create": in-order restore only; "sched": all schedules
          MaxOps, MaxChunks, MaxAborts, MaxBad, MaxNoise, MaxCrashes,
          RestorerFixed, \* BOOLEAN: the restorer of the fixed tree (1bc4d41) / of the pinned tree (done-after-abort)
          Conc,          \* BOOLEAN: one caller may be in flight (gated) / concurrent groups
          MaxProofDepth, \* the verifier's depth limit (128 in syncer/proof.go)
          Excuse         \* names of the known model-level rule breaches that are not asserted

VARIABLES cfg, chunks, rs, gate, db, gh, hist
vars == <<cfg, chunks, rs, gate, db, gh, hist>>

-----------------------------------------------------------------------------
(* helpers *)
RECURSIVE Lt(_, _)
Lt(a, b) == IF b = <<>> THEN FALSE ELSE IF a = <<>> THEN TRUE
            ELSE IF a[1] < b[1] THEN TRUE ELSE IF a[1] > b[1] THEN FALSE ELSE Lt(Tail(a), Tail(b))
Pairs(m) == LET ks == SetToSortSeq(DOMAIN m, Lt) IN [i \in DOMAIN ks |-> <<ks[i], m[ks[i]]>>]
MaxOf(S) == CHOOSE x \in S : \A y \in S : y <= x
IsNil(n) == n.t = "nil"

(* proof builder size of one included node: 1 + len(CompactMarshalBinaryV0)  (node/node.go) *)
LeafSz(n) == 8 + Len(n.k) + Len(n.v)
InodeSz(n) == 4 + ((Len(n.lbl) + 7) \div 8) + (IF IsNil(n.leaf) THEN 1 ELSE 7 + Len(n.leaf.k) + Len(n.leaf.v))
Sz(n) == IF n.t = "leaf" THEN LeafSz(n) ELSE IF n.t = "int" THEN InodeSz(n) ELSE 0
RECURSIVE SumSz(_)
SumSz(S) == IF S = {} THEN 0 ELSE LET x == CHOOSE y \in S : TRUE IN Sz(x) + SumSz(S \ {x})

(* nodes the databases store separately: internal nodes (carrying their embedded leaf) and stand-alone leaves, pre-order *)
RECURSIVE DbNodes(_)
DbNodes(n) == IF IsNil(n) THEN <<>> ELSE IF n.t = "leaf" THEN <<n>> ELSE <<n>> \o DbNodes(n.l) \o DbNodes(n.r)
RECURSIVE Depth(_)
Depth(n) == IF n.t # "int" THEN (IF IsNil(n) THEN 0 ELSE 1)
            ELSE 1 + (LET a == Depth(n.l) b == Depth(n.r) IN IF a > b THEN a ELSE b)

-----------------------------------------------------------------------------
(* OP 1a: sequential chunker (chunk.go seqChunker + iterator.go with WithProofBuilder).                            *)
(* Seeking an existing key and stepping to its successor include exactly the nodes on the path to each visited     *)
(* leaf; an embedded leaf is included a second time as a node of its own (Size() counts it twice).                 *)
RECURSIVE PathTo(_, _, _)
PathTo(n, depth, key) ==
    IF IsNil(n) THEN {} ELSE IF n.t = "leaf" THEN {n}
    ELSE LET bl == depth + Len(n.lbl) IN
         {n} \cup (IF BitLen(key) = bl THEN PathTo(n.leaf, bl, key)
                   ELSE IF Bit(key, bl) = 1 THEN PathTo(n.r, bl, key) ELSE PathTo(n.l, bl, key))

(* for it.Seek(offset); it.Valid() && size < chunkSize; it.Next() *)
RECURSIVE SeqGrow(_, _, _, _, _)
SeqGrow(tree, ks, b, inc, size) ==
    IF SumSz(inc) < size
    THEN IF b < Len(ks) THEN SeqGrow(tree, ks, b + 1, inc \cup PathTo(tree, 0, ks[b + 1]), size)
         ELSE [b |-> b, inc |-> inc, valid |-> FALSE]
    ELSE [b |-> b, inc |-> inc, valid |-> TRUE]

RECURSIVE SeqFrom(_, _, _, _)
SeqFrom(tree, ks, a, size) ==
    LET g == SeqGrow(tree, ks, a, PathTo(tree, 0, ks[a]), size) IN
    IF g.valid /\ g.b < Len(ks) THEN <<g.inc>> \o SeqFrom(tree, ks, g.b + 1, size)   \* nextOffset = the key after the last included one
    ELSE <<g.inc>>

SeqChunks(tree, m, size) ==
    IF DOMAIN m = {} THEN << {} >>       \* empty tree: one chunk whose proof is the single nil entry
    ELSE SeqFrom(tree, SetToSortSeq(DOMAIN m, Lt), 1, size)

-----------------------------------------------------------------------------
(* OP 1b: parallel chunker (subtree.go).  A task is [path, pend]; pend is the stack of path atoms [nd, st].        *)
PA(nd, st) == [nd |-> nd, st |-> st]
VisitNext(c) == IF IsNil(c) THEN <<>> ELSE <<PA(c, "before")>>     \* nil pointer: nothing pushed
NewSubtree(root) == [path |-> <<>>, pend |-> <<PA(root, "before")>>]   \* empty root: a nil atom, producing an empty proof
Butlast(s) == SubSeq(s, 1, Len(s) - 1)

(* nextChunk's loop *)
RECURSIVE NCLoop(_, _, _, _)
NCLoop(pend, inc, lastLeaf, size) ==
    IF pend = <<>> THEN [pend |-> pend, inc |-> inc]
    ELSE IF SumSz(inc) >= size /\ lastLeaf THEN [pend |-> pend, inc |-> inc]
    ELSE LET last == pend[Len(pend)]
             rest == Butlast(pend)
             nd   == last.nd
             inc2 == IF IsNil(nd) THEN inc ELSE inc \cup {nd}
         IN  IF IsNil(nd) THEN NCLoop(rest, inc2, lastLeaf, size)
             ELSE IF nd.t = "leaf" THEN NCLoop(rest, inc2, TRUE, size)
             ELSE CASE last.st = "before" ->
                         NCLoop(rest \o <<PA(nd, "at")>> \o (IF IsNil(nd.leaf) THEN <<>> ELSE <<PA(nd.leaf, "before")>>), inc2, FALSE, size)
                    [] last.st = "at" -> NCLoop(rest \o <<PA(nd, "atLeft")>> \o VisitNext(nd.l), inc2, lastLeaf, size)
                    [] last.st = "atLeft" -> NCLoop(rest \o <<PA(nd, "atRight")>> \o VisitNext(nd.r), inc2, lastLeaf, size)
                    [] last.st = "atRight" -> NCLoop(rest, inc2, lastLeaf, size)

(* trim: drop fully visited atoms from the top *)
RECURSIVE Trim(_)
Trim(pend) ==
    IF pend = <<>> THEN pend
    ELSE LET last == pend[Len(pend)]
             nd == last.nd
             drop == Trim(Butlast(pend))
         IN  IF IsNil(nd) THEN drop
             ELSE IF nd.t = "leaf" THEN pend
             ELSE CASE last.st = "before" -> pend
                    [] last.st = "at" -> IF ~IsNil(nd.l) \/ ~IsNil(nd.r) THEN pend ELSE drop
                    [] last.st = "atLeft" -> IF ~IsNil(nd.r) THEN pend ELSE drop
                    [] last.st = "atRight" -> drop

SeqRange(s) == {s[i] : i \in DOMAIN s}
NextChunk(t, size) ==
    LET inc0 == {x \in SeqRange(t.path) \cup {t.pend[i].nd : i \in DOMAIN t.pend} : ~IsNil(x)}
        r == NCLoop(t.pend, inc0, FALSE, size)
    IN  [task |-> [path |-> t.path, pend |-> Trim(r.pend)], inc |-> r.inc]

(* split into 0-2 tasks *)
Split(t) ==
    IF t.pend = <<>> THEN <<>>
    ELSE LET sub == t.pend[1]
             nd  == sub.nd
         IN  IF nd.t # "int" THEN <<t>>
             ELSE LET child(c) == IF IsNil(c) THEN <<>> ELSE << [path |-> Append(t.path, nd), pend |-> <<PA(c, "before")>>] >>
                      cont == [path |-> Append(t.path, nd), pend |-> Tail(t.pend)]
                  IN  CASE sub.st \in {"before", "at"} ->
                              IF IsNil(nd.l) /\ IsNil(nd.r) THEN <<t>> ELSE child(nd.l) \o child(nd.r)
                        [] sub.st = "atLeft" -> IF Len(t.pend) = 1 THEN <<t>> ELSE child(nd.r) \o <<cont>>
                        [] sub.st = "atRight" -> <<cont>>

(* splitTasks: up to 10 passes, left to right, stop as soon as the task count reaches the thread count *)
RECURSIVE SplitPass(_, _, _, _)
SplitPass(tasks, i, next, th) ==
    IF i > Len(tasks) THEN [stop |-> FALSE, tasks |-> next]
    ELSE IF Len(next) + Len(tasks) - (i - 1) >= th THEN [stop |-> TRUE, tasks |-> next \o SubSeq(tasks, i, Len(tasks))]
    ELSE SplitPass(tasks, i + 1, next \o Split(tasks[i]), th)
RECURSIVE SplitTasks(_, _, _)
SplitTasks(tasks, th, pass) ==
    IF pass = 10 THEN tasks
    ELSE LET r == SplitPass(tasks, 1, <<>>, th) IN IF r.stop THEN r.tasks ELSE SplitTasks(r.tasks, th, pass + 1)

(* lock-step rounds: split, one chunk per task, filter finished *)
RECURSIVE ParRounds(_, _, _, _, _)
ParRounds(tasks, size, th, acc, fuel) ==
    IF tasks = <<>> \/ fuel = 0 THEN acc
    ELSE LET ts == SplitTasks(tasks, th, 0)
             rr == [i \in DOMAIN ts |-> NextChunk(ts[i], size)]
             left == SelectSeq([i \in DOMAIN ts |-> rr[i].task], LAMBDA t : t.pend # <<>>)
         IN  ParRounds(left, size, th, acc \o [i \in DOMAIN ts |-> rr[i].inc], fuel - 1)

ParChunks(tree, size, th) == ParRounds(<<NewSubtree(tree)>>, size, th, <<>>, 200)

(* the chunk list as sets of included nodes *)
IncList(m, size, th) == LET tree == Canon(m) IN IF th = 0 THEN SeqChunks(tree, m, size) ELSE ParChunks(tree, size, th)

-----------------------------------------------------------------------------
(* A chunk is the proof built from the included nodes: what is reachable from the root through included internal   *)
(* nodes (ProofBuilder.build); everything else is a hash entry.                                                    *)
RECURSIVE Eff(_, _)
Eff(n, inc) == IF IsNil(n) \/ n \notin inc THEN {}
               ELSE IF n.t = "leaf" THEN {n} ELSE {n} \cup Eff(n.l, inc) \cup Eff(n.r, inc)
RECURSIVE EffDepth(_, _)
EffDepth(n, inc) == IF IsNil(n) \/ n \notin inc THEN 0
                    ELSE IF n.t = "leaf" THEN 1
                    ELSE 1 + (LET a == EffDepth(n.l, inc) b == EffDepth(n.r, inc) IN IF a > b THEN a ELSE b)

Idx(s, x) == CHOOSE i \in DOMAIN s : s[i] = x
(* chunk list over node numbers (position in DbNodes, root = 1) *)
ChunkList(m, size, th) ==
    LET tree == Canon(m)
        ns == DbNodes(tree)
        il == IncList(m, size, th)
    IN  [c \in DOMAIN il |-> {Idx(ns, x) : x \in Eff(tree, il[c])}]
ChunkDepths(m, size, th) ==
    LET tree == Canon(m) il == IncList(m, size, th) IN [c \in DOMAIN il |-> EffDepth(tree, il[c])]

(* what the harness can see of a real chunk: keys of all carried leaves, number of full internal nodes *)
ChunkView(m, size, th) ==
    LET tree == Canon(m)
        il == IncList(m, size, th)
        keysOf(E) == {x.k : x \in {y \in E : y.t = "leaf"}} \cup {x.leaf.k : x \in {y \in E : y.t = "int" /\ ~IsNil(y.leaf)}}
    IN  [c \in DOMAIN il |-> LET E == Eff(tree, il[c]) IN
            [keys |-> SetToSortSeq(keysOf(E), Lt), inodes |-> Cardinality({y \in E : y.t = "int"})]]

-----------------------------------------------------------------------------
(* RULE, creation clauses (functions of (tree, size, threads) by construction = determinism of the model):         *)
(*   every chunk verifies against the root (here: its proof is within the verifier's depth limit),                 *)
(*   the union of the chunks is the whole tree.                                                                    *)
NNodes(m) == Len(DbNodes(Canon(m)))
(* everything a proof of the whole tree includes (embedded leaves once more on their own) *)
TotalSz(m) == LET ns == SeqRange(DbNodes(Canon(m))) IN
              SumSz(ns \cup {x.leaf : x \in {y \in ns : y.t = "int" /\ ~IsNil(y.leaf)}})
CreationUnion(m, size, th) == UNION SeqRange(ChunkList(m, size, th)) = 1..NNodes(m)
CreationVerifies(m, size, th) == \A d \in SeqRange(ChunkDepths(m, size, th)) : d <= MaxProofDepth + 1
CreationNonEmpty(m, size, th) == Len(ChunkList(m, size, th)) >= 1

-----------------------------------------------------------------------------
(* OP 2: node database multipart state.  Nodes are numbers 1..N (1 = root node).                                   *)
(* pathbadger: nextSeq[v] = NextPendingRootSeq, rootSeq[v] = PendingRootSeqs of the restored root (-1 absent),     *)
(*   mpSeq = sequence number of the running multipart insert, finN = finalized key space, pendN = pending key      *)
(*   space (<<v, seq, n>>), rootKey = versions whose root node key exists.  No restore node log is ever written.   *)
(* badger: live/dead = MVCC entries <<ts, n>> of the hash-keyed node space (dead = tombstone), rootLive/rootDead   *)
(*   the same for the root node key, mplog = restore node log (node numbers, 0 = the root key), rootsMeta =        *)
(*   versions whose roots metadata lists the root.                                                                 *)
V0 == [v \in Versions |-> 0]
VM == [v \in Versions |-> -1]
DbInit == [mpv |-> 0, lastFin |-> -1, earliest |-> 0,
           nextSeq |-> V0, rootSeq |-> VM, mpSeq |-> 0, finN |-> {}, pendN |-> {}, rootKey |-> {},
           live |-> {}, dead |-> {}, rootLive |-> {}, rootDead |-> {}, mplog |-> {}, rootsMeta |-> {}]

(* badger MVCC read of a key with entries L (live) / D (tombstones) at read timestamp v *)
VisibleAt(L, D, v) == LET c == {u \in L \cup D : u <= v} IN c # {} /\ MaxOf(c) \in L
NodeTs(S, n) == {e[1] : e \in {x \in S : x[2] = n}}
BNodeVisible(d, n, v) == VisibleAt(NodeTs(d.live, n), NodeTs(d.dead, n), v)

DbStart(be, d, v) ==
    IF be = "pathbadger"
    THEN [d EXCEPT !.mpv = v, !.mpSeq = d.nextSeq[v], !.nextSeq[v] = @ + 1]
    ELSE [d EXCEPT !.mpv = v]

(* chunk batch commit of node set c (numbers) for the root at version v *)
DbImport(be, d, c) ==
    LET v == d.mpv IN
    IF be = "pathbadger"
    THEN LET rest == c \ {1} IN
         [d EXCEPT !.rootSeq[v] = d.mpSeq,
                   !.finN = IF d.mpSeq = 0 THEN @ \cup {<<v, n>> : n \in rest} ELSE @,
                   !.pendN = IF d.mpSeq # 0 THEN @ \cup {<<v, d.mpSeq, n>> : n \in rest} ELSE @,
                   !.rootKey = @ \cup {v}]
    ELSE LET fresh == {n \in c : ~BNodeVisible(d, n, v)} IN
         [d EXCEPT !.live = @ \cup {<<v, n>> : n \in c}, !.dead = @ \ {<<v, n>> : n \in c},
                   !.rootLive = @ \cup {v}, !.rootDead = @ \ {v},
                   !.mplog = @ \cup fresh \cup {0},
                   !.rootsMeta = @ \cup {v}]

(* cleanMultipartLocked(removeNodes) *)
DbClean(be, d, removeNodes) ==
    IF d.mpv = 0 THEN d
    ELSE IF be = "pathbadger" THEN [d EXCEPT !.mpv = 0, !.mpSeq = 0]     \* the log it iterates is always empty
    ELSE LET v == d.mpv
             ns == d.mplog \ {0}
         IN  IF removeNodes
             THEN [d EXCEPT !.mpv = 0, !.mplog = {},
                            !.live = @ \ {<<v, n>> : n \in ns}, !.dead = @ \cup {<<v, n>> : n \in ns},
                            !.rootLive = IF 0 \in d.mplog THEN @ \ {v} ELSE @,
                            !.rootDead = IF 0 \in d.mplog THEN @ \cup {v} ELSE @]
             ELSE [d EXCEPT !.mpv = 0, !.mplog = {}]

DbHasRoot(be, d, v, n) ==
    \/ n = 0      \* the empty root is implicitly present
    \/ /\ v >= d.earliest
       /\ IF be = "pathbadger" THEN v \in d.rootKey ELSE v \in d.rootsMeta

DbReadable(be, d, v, n) ==
    \/ n = 0
    \/ /\ v >= d.earliest
       /\ IF be = "pathbadger"
          THEN /\ v \in d.rootKey
               /\ LET s == IF d.rootSeq[v] = -1 THEN 0 ELSE d.rootSeq[v] IN
                  \A x \in 2..n : IF s = 0 THEN <<v, x>> \in d.finN ELSE (<<v, s, x>> \in d.pendN \/ <<v, x>> \in d.finN)
          ELSE /\ VisibleAt(d.rootLive, d.rootDead, v)
               /\ \A x \in 1..n : BNodeVisible(d, x, v)

(* Finalize([root@v]); returns [ok, d] *)
DbFinalize(be, d, v, n) ==
    IF d.mpv \notin {0, v} \/ d.lastFin >= v THEN [ok |-> FALSE, d |-> d]
    ELSE IF n # 0 /\ ~(IF be = "pathbadger" THEN v \in d.rootKey ELSE v \in d.rootsMeta) THEN [ok |-> FALSE, d |-> d]
    ELSE LET e == IF d.lastFin = -1 THEN v ELSE d.earliest IN
         IF be = "pathbadger"
         THEN \* chunk batches record no updated-nodes index: nothing is copied out of the pending key space, all of it is deleted
              [ok |-> TRUE, d |-> DbClean(be, [d EXCEPT !.lastFin = v, !.earliest = e, !.pendN = {x \in @ : x[1] # v},
                                                         !.nextSeq[v] = 0, !.rootSeq[v] = -1], FALSE)]
         ELSE [ok |-> TRUE, d |-> DbClean(be, [d EXCEPT !.lastFin = v, !.earliest = e], FALSE)]

-----------------------------------------------------------------------------
(* durable steps of the multipart operations, named like hook H1; a crash leaves a prefix of them, reopening runs   *)
(* cleanMultipartLocked(TRUE).                                                                                      *)
CrashPoints(be, op) ==
    IF be = "badger"
    THEN CASE op = "start" -> <<>>
           [] op = "chunk" -> <<"badger.commit.mplog_flushed", "badger.commit.nodes_flushed">>
           [] op = "abort" -> <<"badger.cleanmp.batch_flushed">>
           [] op = "finalize" -> <<"badger.finalize.batch_flushed", "badger.finalize.meta_committed", "badger.cleanmp.batch_flushed">>
    ELSE CASE op = "start" -> <<"path.startmp.meta_committed">>
           [] op = "chunk" -> <<"path.commit.seqno_committed", "path.commit.meta_flushed">>
           [] op = "abort" -> <<"path.cleanmp.batch_flushed">>
           [] op = "finalize" -> <<"path.finalize.copy_flushed", "path.finalize.copymeta_flushed", "path.finalize.delete_flushed",
                                   "path.finalize.deletemeta_flushed", "path.finalize.meta_committed", "path.cleanmp.batch_flushed">>

(* durable state when the process dies at point p of the operation (before reopening) *)
DbPartial(be, d, op, p, c, v, n) ==
    CASE p = "path.startmp.meta_committed" -> DbStart(be, d, v)
      [] p = "path.commit.seqno_committed" -> [d EXCEPT !.rootSeq[d.mpv] = d.mpSeq]
      [] p = "path.commit.meta_flushed" ->
            [d EXCEPT !.rootSeq[d.mpv] = d.mpSeq,
                      !.pendN = IF d.mpSeq # 0 THEN @ \cup {<<d.mpv, d.mpSeq, x>> : x \in c \ {1}} ELSE @]
      [] p = "path.cleanmp.batch_flushed" /\ op = "abort" -> d
      [] p \in {"path.finalize.copy_flushed", "path.finalize.copymeta_flushed", "path.finalize.delete_flushed"} -> d
      [] p = "path.finalize.deletemeta_flushed" -> [d EXCEPT !.pendN = {x \in @ : x[1] # v}]
      [] p = "path.finalize.meta_committed" \/ (p = "path.cleanmp.batch_flushed" /\ op = "finalize") ->
            [DbFinalize(be, d, v, n).d EXCEPT !.mpv = v]
      [] p = "badger.commit.mplog_flushed" -> [d EXCEPT !.mplog = @ \cup {x \in c : ~BNodeVisible(d, x, d.mpv)} \cup {0}]
      [] p = "badger.commit.nodes_flushed" -> [DbImport(be, d, c) EXCEPT !.rootsMeta = d.rootsMeta]
      [] p = "badger.cleanmp.batch_flushed" /\ op = "abort" -> [DbClean(be, d, TRUE) EXCEPT !.mpv = d.mpv]
      [] p = "badger.finalize.batch_flushed" -> d
      [] p = "badger.finalize.meta_committed" ->
            [d EXCEPT !.lastFin = v, !.earliest = IF d.lastFin = -1 THEN v ELSE @]    \* the restore node log is still there
      [] p = "badger.cleanmp.batch_flushed" /\ op = "finalize" -> [DbFinalize(be, d, v, n).d EXCEPT !.mpv = v]

DbReopen(be, d) == DbClean(be, d, TRUE)

-----------------------------------------------------------------------------
(* OP 3: the restore machine.                                                                                       *)
N == Len(chunks)                      \* number of chunks
NN == cfg.nn                          \* number of stored nodes (0 = empty tree)
be == cfg.be
AllIdx == 1..N

RsIdle == [active |-> FALSE, v |-> 0, forged |-> 0, pending |-> {}]
GhInit == [started |-> {}, retry |-> FALSE, got |-> {}, done |-> 0, daa |-> FALSE, crashFin |-> FALSE, stale |-> FALSE,
           aborts |-> 0, bads |-> 0, noise |-> 0, crashes |-> 0, fin |-> FALSE]

Vis(d) == [latest |-> d.lastFin,
           has |-> {v \in Versions : DbHasRoot(be, d, v, NN)},
           readable |-> {v \in Versions : DbHasRoot(be, d, v, NN) /\ DbReadable(be, d, v, NN)}]

Pred(res, d) == [res |-> res, latest |-> Vis(d).latest, has |-> Vis(d).has, readable |-> Vis(d).readable]

(* restorer: finish of RestoreChunk(i) under the lock (delete from pending; done when nothing is pending).           *)
(* A caller whose restore was aborted while it was importing (gh.stale) gets "norestore" instead - see Release;     *)
(* RestorerFixed = FALSE keeps the transcription of the tree before fix 1bc4d41, where such a caller deleted from    *)
(* the dropped (nil) pending set, found it empty and reported "done" (the done-after-abort excuse).                  *)
RsFinish(r, i) ==
    LET p == r.pending \ {i} IN
    IF p = {} THEN [r |-> RsIdle, res |-> "done"] ELSE [r |-> [r EXCEPT !.pending = p], res |-> "ok"]

Log(op, res, d) == hist' = Append(hist, op @@ [pred |-> Pred(res, d)])
Quiet == gate = 0

Start(v, f) ==
    /\ Quiet /\ ~rs.active /\ db.mpv = 0 /\ db.lastFin < v /\ ~gh.fin
    /\ f = 0 \/ (gh.bads < MaxBad /\ Mode = "sched")
    /\ db' = DbStart(be, db, v)
    /\ rs' = [active |-> TRUE, v |-> v, forged |-> f, pending |-> AllIdx]
    /\ gh' = [gh EXCEPT !.started = @ \cup {v}, !.retry = (v \in gh.started), !.got = {}, !.done = 0, !.daa = FALSE]
    /\ Log([a |-> "start", v |-> v, forged |-> f], "", db')
    /\ UNCHANGED <<cfg, chunks, gate>>

StartRs(f) ==   \* the restorer alone is restarted inside the running multipart insert (after a proof failure)
    /\ Mode = "sched" /\ ~rs.active /\ db.mpv # 0 /\ ~gh.fin /\ gh.done = 0
    /\ f = 0 \/ gh.bads < MaxBad
    /\ gh.noise < MaxNoise
    /\ rs' = [active |-> TRUE, v |-> db.mpv, forged |-> f, pending |-> AllIdx]
    /\ gh' = [gh EXCEPT !.noise = @ + 1]
    /\ Log([a |-> "startrs", v |-> db.mpv, forged |-> f], "", db)
    /\ UNCHANGED <<cfg, chunks, gate, db>>

(* RestoreChunk(i, genuine bytes) by a single caller *)
Chunk(i) ==
    /\ Quiet /\ ~gh.fin /\ db.mpv # 0
    /\ IF Mode = "create" THEN rs.active /\ i = (CHOOSE j \in rs.pending : \A k \in rs.pending : j <= k) ELSE TRUE
    /\ IF ~rs.active THEN
            /\ gh.noise < MaxNoise /\ i = 1 /\ gh.done = 0
            /\ gh' = [gh EXCEPT !.noise = @ + 1]
            /\ Log([a |-> "chunk", i |-> i], "norestore", db) /\ UNCHANGED <<rs, db>>
       ELSE IF i \notin rs.pending THEN
            /\ gh.noise < MaxNoise
            /\ gh' = [gh EXCEPT !.noise = @ + 1]
            /\ Log([a |-> "chunk", i |-> i], "already", db) /\ UNCHANGED <<rs, db>>
       ELSE IF i = rs.forged THEN        \* the manifest lists another digest for this index
            /\ gh.noise < MaxNoise
            /\ gh' = [gh EXCEPT !.noise = @ + 1]
            /\ Log([a |-> "chunk", i |-> i], "corrupted", db) /\ UNCHANGED <<rs, db>>
       ELSE LET f == RsFinish(rs, i) IN
            /\ db' = DbImport(be, db, chunks[i])
            /\ rs' = f.r
            /\ gh' = [gh EXCEPT !.got = @ \cup {i}, !.done = IF f.res = "done" THEN rs.v ELSE @]
            /\ Log([a |-> "chunk", i |-> i], f.res, db')
    /\ UNCHANGED <<cfg, chunks, gate>>

(* a chunk that does not match the manifest digest ("digest"), or matches a forged digest but not the root ("proof") *)
Bad(i, kind) ==
    /\ Mode = "sched" /\ rs.active /\ ~gh.fin /\ gh.bads < MaxBad
    /\ kind = "proof" => (i = rs.forged /\ i \in rs.pending)
    /\ LET res == IF i \notin rs.pending THEN "already" ELSE IF kind = "digest" THEN "corrupted" ELSE "prooffail" IN
       /\ rs' = IF res = "prooffail" THEN RsIdle ELSE rs
       /\ Log([a |-> "bad", i |-> i, kind |-> kind], res, db)
       /\ gh' = [gh EXCEPT !.bads = @ + 1, !.stale = (@ \/ (gate # 0 /\ res = "prooffail"))]
    /\ UNCHANGED <<cfg, chunks, gate, db>>

(* one caller passes the pending check and is held inside the chunk commit *)
Gate(i) ==
    /\ Conc /\ Mode = "sched" /\ Quiet /\ rs.active /\ i \in rs.pending /\ i # rs.forged /\ ~gh.fin
    /\ gate' = i
    /\ hist' = Append(hist, [a |-> "gate", i |-> i])
    /\ gh' = [gh EXCEPT !.stale = FALSE]
    /\ UNCHANGED <<cfg, chunks, rs, db>>

Release ==
    /\ gate # 0
    /\ IF RestorerFixed /\ gh.stale THEN      \* the chunk went into the database, the restorer does not count it
            /\ db' = DbImport(be, db, chunks[gate])
            /\ rs' = rs
            /\ gh' = [gh EXCEPT !.got = @ \cup {gate}, !.stale = FALSE]
            /\ Log([a |-> "release"], "norestore", db')
       ELSE LET f == RsFinish(rs, gate) IN
            /\ db' = DbImport(be, db, chunks[gate])
            /\ rs' = f.r
            /\ gh' = [gh EXCEPT !.got = @ \cup {gate}, !.done = IF f.res = "done" THEN db.mpv ELSE @,
                                !.daa = (f.res = "done" /\ (gh.got \cup {gate}) # AllIdx), !.stale = FALSE]
            /\ Log([a |-> "release"], f.res, db')
    /\ gate' = 0
    /\ UNCHANGED <<cfg, chunks>>

AbortRs ==
    /\ Mode = "sched" /\ gate # 0 /\ rs.active
    /\ rs' = RsIdle
    /\ hist' = Append(hist, [a |-> "abortrs"])
    /\ gh' = [gh EXCEPT !.stale = TRUE]
    /\ UNCHANGED <<cfg, chunks, gate, db>>

(* concurrent callers, free running: both chunks end up imported; individual results are not predicted *)
Par(S) ==
    /\ Conc /\ Mode = "sched" /\ Quiet /\ rs.active /\ ~gh.fin
    /\ S \subseteq rs.pending /\ rs.forged \notin S /\ Cardinality(S) = 2
    /\ db' = DbImport(be, db, UNION {chunks[i] : i \in S})
    /\ rs' = IF rs.pending \ S = {} THEN RsIdle ELSE [rs EXCEPT !.pending = @ \ S]
    /\ gh' = [gh EXCEPT !.got = @ \cup S, !.done = IF rs.pending \ S = {} THEN rs.v ELSE @]
    /\ Log([a |-> "par", is |-> SetToSortSeq(S, <)], "", db')
    /\ UNCHANGED <<cfg, chunks, gate>>

Abort ==
    /\ Mode = "sched" /\ Quiet /\ db.mpv # 0 /\ ~gh.fin /\ gh.aborts < MaxAborts
    /\ db' = DbClean(be, db, TRUE)
    /\ rs' = RsIdle
    /\ gh' = [gh EXCEPT !.aborts = @ + 1, !.done = 0, !.got = {}]
    /\ Log([a |-> "abort"], "", db')
    /\ UNCHANGED <<cfg, chunks, gate>>

(* the caller finalizes when RestoreChunk reported completion *)
Finalize ==
    /\ Quiet /\ gh.done # 0 /\ db.mpv = gh.done /\ ~gh.fin
    /\ LET r == DbFinalize(be, db, gh.done, NN) IN
       /\ db' = r.d
       /\ Log([a |-> "finalize", v |-> gh.done], IF r.ok THEN "ok" ELSE "error", db')
    /\ gh' = [gh EXCEPT !.fin = TRUE]
    /\ UNCHANGED <<cfg, chunks, rs, gate>>

(* the process dies at a named point of start / chunk / abort / finalize; the database is reopened *)
CrashOps ==
    {[a |-> "start", v |-> v] : v \in {u \in Versions : ~rs.active /\ db.mpv = 0 /\ db.lastFin < u}}
    \cup {[a |-> "chunk", i |-> i] : i \in {j \in AllIdx : rs.active /\ j \in rs.pending /\ j # rs.forged}}
    \cup (IF db.mpv # 0 THEN {[a |-> "abort"]} ELSE {})
    \cup (IF gh.done # 0 /\ db.mpv = gh.done THEN {[a |-> "finalize", v |-> gh.done]} ELSE {})

Crash(op, k) ==
    /\ Mode = "sched" /\ Quiet /\ ~gh.fin /\ gh.crashes < MaxCrashes
    /\ op \in CrashOps
    /\ k \in DOMAIN CrashPoints(be, op.a)
    /\ LET p == CrashPoints(be, op.a)[k]
           c == IF op.a = "chunk" THEN chunks[op.i] ELSE {}
           v == IF op.a \in {"start", "finalize"} THEN op.v ELSE db.mpv
           d1 == DbPartial(be, db, op.a, p, c, v, NN)
           d2 == DbReopen(be, d1)
       IN /\ db' = d2
          /\ gh' = [gh EXCEPT !.crashes = @ + 1, !.done = 0, !.got = {},
                              !.started = IF op.a = "start" THEN @ \cup {v} ELSE @,
                              !.crashFin = (p = "badger.finalize.meta_committed"),
                              !.fin = (d2.lastFin # db.lastFin)]
          /\ Log([a |-> "crash", at |-> p, n |-> 0, op |-> op], "", d2)
    /\ rs' = RsIdle
    /\ UNCHANGED <<cfg, chunks, gate>>

Init ==
    /\ \E m \in Trees :
         LET tot == TotalSz(m)
             nn  == NNodes(m)
         IN  \E s \in {x \in Sizes : x <= tot + 1 \/ x = MaxOf(Sizes)},     \* sizes 1 .. total+1 (and the largest one, far above)
                th \in ThreadSet, b \in Backends :
                  cfg = [m |-> m, size |-> s, threads |-> th, be |-> b, nn |-> nn]
    /\ chunks = <<>> /\ rs = RsIdle /\ gate = 0 /\ db = DbInit /\ gh = GhInit /\ hist = <<>>

(* CreateCheckpoint: the first step of every behaviour (a chunk list is never empty) *)
Chunkify ==
    /\ chunks = <<>>
    /\ chunks' = ChunkList(cfg.m, cfg.size, cfg.threads)
    /\ UNCHANGED <<cfg, rs, gate, db, gh, hist>>

Step ==
    /\ chunks # <<>> /\ N <= MaxChunks
    /\ Len(hist) < MaxOps
    /\ \/ \E v \in Versions, f \in {0, N} : Start(v, f)       \* a forged manifest forges the digest of the last chunk
       \/ \E f \in {0, N} : StartRs(f)
       \/ \E i \in AllIdx : Chunk(i)
       \/ \E i \in AllIdx, k \in {"digest", "proof"} : Bad(i, k)
       \/ \E i \in AllIdx : Gate(i)
       \/ Release \/ AbortRs
       \/ \E S \in SUBSET AllIdx : Par(S)
       \/ Abort \/ Finalize
       \/ \E op \in CrashOps, k \in 1..6 : Crash(op, k)

Next == Chunkify \/ Step

Spec == Init /\ [][Next]_vars
SpecCreate == Init /\ [][Chunkify]_vars      \* chunker design run: the creation clauses for every (tree, size, threads)

-----------------------------------------------------------------------------
(* RULE, restore clauses, over the model's observable state.  A clause named in Excuse is a breach the model is     *)
(* known to contain (each is reproduced or refuted on the real code by the harness; see lib/props/c12.py).          *)
Ex(name) == name \in Excuse

(* R-create: every chunk verifies, union is everything *)
RuleCreate == chunks # <<>> =>
              /\ UNION SeqRange(chunks) = 1..NN
              /\ CreationVerifies(cfg.m, cfg.size, cfg.threads) \/ Ex("deep")

(* R-final: whatever is reported finalized reads back exactly *)
RuleFinal ==
    db.lastFin # -1 =>
        \/ DbReadable(be, db, db.lastFin, NN)
        \/ Ex("retry-same-version") /\ be = "pathbadger" /\ gh.retry
        \/ Ex("done-after-abort") /\ gh.daa
        \/ Ex("crash-after-finalize-meta") /\ be = "badger" /\ gh.crashFin

(* R-done: completion is reported only when every chunk of the manifest went into the running multipart insert *)
RuleDone == gh.done # 0 => (gh.got = AllIdx \/ (Ex("done-after-abort") /\ gh.daa))

(* R-absent-or-exact: with no restore in progress, a root the database claims to have reads back exactly *)
RuleAbsentOrExact ==
    (db.mpv = 0 /\ gate = 0) =>
        \A v \in Versions : DbHasRoot(be, db, v, NN) =>
            \/ DbReadable(be, db, v, NN)
            \/ Ex("visible-after-abort") /\ v # db.lastFin
            \/ v = db.lastFin      \* covered by RuleFinal

(* R-finalize-succeeds: after a complete restore Finalize succeeds *)
RuleFinalizeOk ==
    (hist # <<>> /\ hist[Len(hist)].a = "finalize") => (hist[Len(hist)].pred.res = "ok" \/ (Ex("done-after-abort") /\ gh.daa))

(* R-reject: a rejected chunk changes nothing in the database *)
RuleReject == [][(hist' # hist /\ hist'[Len(hist')].a = "bad") => db' = db]_vars

TypeOK == /\ gate \in 0..N
          /\ rs.pending \subseteq AllIdx
          /\ db.mpv \in {0} \cup Versions

-----------------------------------------------------------------------------
(* emission *)
LastOp == IF hist = <<>> THEN <<>> ELSE hist[Len(hist)]
CfgView == IF chunks = <<>> THEN <<cfg>> ELSE <<chunks, cfg.be, cfg.nn>>   \* equal chunk lists are explored once
View == <<CfgView, rs, gate, db, gh>>
(* generation: one scenario per distinct (abstract state, last operation); the bounding counters are not part of the view *)
Flags == <<gh.done, gh.fin, gh.retry, gh.daa, gh.crashFin, gh.started>>
GenView == <<CfgView, rs, gate, db, Flags, LastOp>>
CreateView == <<cfg, chunks = <<>>, rs, db, gh.fin>>

Scenario == [be |-> cfg.be, vs |-> Versions, m |-> Pairs(cfg.m), size |-> cfg.size, threads |-> cfg.threads,
             chunks |-> ChunkView(cfg.m, cfg.size, cfg.threads), steps |-> hist]

EmitInv == (hist # <<>> /\ gate = 0) => PrintT(ToJson(Scenario))
EmitFinal == gh.fin => PrintT(ToJson(Scenario))
=============================================================================
