----------------------------- MODULE NodeDBCrash -----------------------------
(***************************************************************************)
(* C07: a version-history operation is a sequence of durable writes        *)
(* (batch flushes, metadata commits).  The process may die between any two *)
(* of them.  `Points[backend][kind]` lists, in the code's order, the named *)
(* points after each durable write but the last (the names of hook H1).    *)
(*                                                                         *)
(* Behaviour: a history of NodeDB operations, Crash during the last        *)
(* operation so far at one of its points, then Reopen, Retry, and up to    *)
(* MaxAfter further operations on the reopened database (a competing       *)
(* candidate committed after the reopen, the earlier candidate finalized:  *)
(* what the database kept in memory only is gone by then).                 *)
(* Rule (evaluated by the harness on the real database, with the model's   *)
(* pre- and post-state as the two admissible observations):                *)
(*   after Crash;Reopen  the finalized state equals the state before or    *)
(*                       after the interrupted operation (nothing          *)
(*                       finalized earlier is damaged, nothing partial is  *)
(*                       visible as finalized);                            *)
(*   after Retry         the state equals the post-state of an             *)
(*                       uninterrupted run.                                *)
(***************************************************************************)
EXTENDS NodeDB

CONSTANTS Backends, Points
MaxAfter == 0      \* overridden in configs that continue after the crash

VARIABLE crash     \* <<>> or [backend, point, step]
cvars == <<st, hist, crash>>

CInit == Init /\ crash = <<>>

Run == /\ Next /\ UNCHANGED crash
       /\ (crash = <<>> \/ Len(hist) - 1 - crash.step < MaxAfter)

Crash ==
    /\ crash = <<>> /\ hist # <<>>
    /\ \E be \in Backends :
         LET kind == hist[Len(hist)].a
             ps == Points[be][kind]
         IN \E i \in DOMAIN ps :
              crash' = [backend |-> be, point |-> ps[i], step |-> Len(hist) - 1]
    /\ UNCHANGED <<st, hist>>

CSpec == CInit /\ [][Run \/ Crash]_cvars

cgenview == <<st, LastOp, crash>>

EmitCrash == (crash # <<>>) => PrintT(ToJson([steps |-> Observe(Init0, hist, <<>>), crash |-> crash]))

(* the model-level statement: the crash point never lies outside the interrupted operation *)
CrashWellFormed == crash # <<>> => (crash.step <= Len(hist) - 1 /\ Len(hist) - 1 - crash.step <= MaxAfter)
=============================================================================
