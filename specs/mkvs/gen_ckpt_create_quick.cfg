SPECIFICATION Spec
CONSTANTS
  Trees <- C4
  Sizes <- SQuick
  ThreadSet <- T03
  Backends <- Both
  Versions <- VOne
  Mode = "create"
  MaxOps = 20
  MaxChunks = 12
  MaxAborts = 0
  MaxBad = 0
  MaxNoise = 0
  MaxCrashes = 0
  Conc = FALSE
  RestorerFixed = TRUE
  MaxProofDepth = 128
  Excuse <- AllExcuses
VIEW CreateView
INVARIANTS EmitFinal RuleCreate
CHECK_DEADLOCK FALSE
