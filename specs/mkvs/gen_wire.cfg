SPECIFICATION Spec
CONSTANTS
  KeysW <- KW
  ValsW <- VW
  LabelBits <- LB
INVARIANTS EmitInv Sanity
CHECK_DEADLOCK FALSE
