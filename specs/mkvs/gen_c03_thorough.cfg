SPECIFICATION Spec
CONSTANTS
  Keys <- Keys4
  Vals <- V2
  SeekKeys <- Seek2
  IterN = 2
  MaxOvl = 3
  MaxOps = 7
  Kinds <- KindsAll
VIEW genview
INVARIANTS EmitInv
CHECK_DEADLOCK FALSE
