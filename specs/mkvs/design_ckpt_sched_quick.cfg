SPECIFICATION Spec
CONSTANTS
  Trees <- CSchedQ
  Sizes <- SSched
  ThreadSet <- TSched
  Backends <- Both
  Versions <- VTwo
  Mode = "sched"
  MaxOps = 12
  MaxChunks = 3
  MaxAborts = 1
  MaxBad = 1
  MaxNoise = 1
  MaxCrashes = 1
  Conc = TRUE
  RestorerFixed = TRUE
  MaxProofDepth = 128
  Excuse <- AllExcuses
VIEW View
INVARIANTS TypeOK RuleFinal RuleDone RuleAbsentOrExact RuleFinalizeOk
PROPERTIES RuleReject
CHECK_DEADLOCK FALSE
