------------------------------- MODULE MCMkvs -------------------------------
EXTENDS Mkvs

\* adversarial key universe: empty key, prefix chains, keys differing in the first / last bit of a byte
K_e   == <<>>
K_0   == <<0>>
K_00  == <<0, 0>>
K_080 == <<0, 128>>
K_80  == <<128>>
K_a   == <<97>>
K_ab  == <<97, 98>>
K_ff  == <<255>>
K_01  == <<0, 1>>
K_a0b == <<97, 0, 98>>

Keys3 == {K_e, K_0, K_00}
Keys4 == {K_e, K_a, K_ab, K_80}
Keys5 == {K_e, K_0, K_00, K_080, K_a}
Keys6 == {K_e, K_0, K_00, K_080, K_a, K_ab}
Keys7 == {K_e, K_0, K_00, K_080, K_80, K_a, K_ab}
Keys8 == Keys7 \cup {K_ff}
Keys10 == Keys8 \cup {K_01, K_a0b}

V1 == {<<1>>}
V2 == {<<>>, <<1>>}
V3 == {<<>>, <<1>>, <<2, 2>>}

Seek2 == {<<0, 64>>, <<98>>}
NoSeek == {}

KindsTrie == {"ins", "rem"}
KindsTree == {"ins", "rem", "commit", "reopen"}
KindsAll  == {"ins", "rem", "remx", "commit", "reopen", "onew", "ocommit", "oclose", "ocopy"}
KindsAllF == KindsAll \cup {"ofork", "fins", "frem"}
KindsFork == {"ins", "remx", "onew", "ocommit", "oclose", "ofork", "fins", "frem"}
KindsOvl  == {"ins", "remx", "commit", "onew", "ocommit", "oclose", "ocopy"}
=============================================================================
