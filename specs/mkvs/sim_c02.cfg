SPECIFICATION SimSpec
CONSTANTS
  Keys <- Keys8
  Vals <- V3
  SeekKeys <- NoSeek
  IterN = 2
  MaxOvl = 0
  MaxOps = 24
  Kinds <- KindsTree
CHECK_DEADLOCK FALSE
