---- MODULE MCTraceMkvs ----
EXTENDS TraceMkvs
NoKeys == {}
KindsAll == {"ins", "rem", "remx", "commit", "reopen", "onew", "ocommit", "oclose", "ocopy"}
====
