SPECIFICATION SpecCreate
CONSTANTS
  Trees <- CChain
  Sizes <- SSched
  ThreadSet <- T03
  Backends <- OnlyPath
  Versions <- VOne
  Mode = "create"
  MaxOps = 0
  MaxChunks = 100
  MaxAborts = 0
  MaxBad = 0
  MaxNoise = 0
  MaxCrashes = 0
  Conc = FALSE
  RestorerFixed = TRUE
  MaxProofDepth = 3
  Excuse <- NoExcuse
INVARIANTS TypeOK RuleCreate
CHECK_DEADLOCK FALSE
