SPECIFICATION Spec
CONSTANTS
  Keys <- WK
  Vals <- WV
  MaxBatch = 3
  M1s <- M1All
  Variants = TRUE
  Prefix <- NoPrefix
VIEW genview
INVARIANTS EmitInv
CHECK_DEADLOCK FALSE
