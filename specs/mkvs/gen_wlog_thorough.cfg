SPECIFICATION Spec
CONSTANTS
  Keys <- WK
  Vals <- WV
  MaxBatch = 4
  M1s <- M1All
VIEW genview
INVARIANTS EmitInv
CHECK_DEADLOCK FALSE
