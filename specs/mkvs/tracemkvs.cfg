SPECIFICATION TraceSpec
CONSTANTS
  Keys <- NoKeys
  Vals <- NoKeys
  SeekKeys <- NoKeys
  IterN = 3
  MaxOvl = 3
  MaxOps = 1000000
  Kinds <- KindsAll
POSTCONDITION TraceAccepted
CHECK_DEADLOCK FALSE
