----------------------------- MODULE MCWriteLog -----------------------------
EXTENDS WriteLog
WK == {<<>>, <<97>>, <<97, 98>>, <<128>>}
WK3 == {<<>>, <<97>>, <<97, 98>>}
WK2 == {<<>>, <<97>>}
WV == {<<>>, <<1>>}
Fn(K) == UNION {[S -> WV] : S \in SUBSET K}
M1All == Fn(WK)
M1Small == Fn(WK3)
M1Two == Fn(WK2)
NoPrefix == <<>>
(* the batch also writes another key, so that its log is never empty *)
TouchOther == <<[a |-> "ins", k |-> <<128>>, v |-> <<1>>]>>
=============================================================================
