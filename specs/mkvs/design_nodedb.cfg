SPECIFICATION Spec
CONSTANTS
  Keys <- NK2
  Vals <- NV1
  Types <- TState
  MaxV = 2
  MaxCand = 2
  MaxOps = 100
  WriteSets <- WSsmall
  SameVersionChains = TRUE
VIEW view
INVARIANTS TypeOK Retained
PROPERTIES FinalizedStable
CHECK_DEADLOCK FALSE
