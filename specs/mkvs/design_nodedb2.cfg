SPECIFICATION Spec
CONSTANTS
  Keys <- NK2
  Vals <- NV1
  Types <- TBoth
  MaxV = 2
  MaxCand = 1
  MaxOps = 100
  WriteSets <- WSsmall
  SameVersionChains = FALSE
VIEW view
INVARIANTS TypeOK Retained
PROPERTIES FinalizedStable
CHECK_DEADLOCK FALSE
