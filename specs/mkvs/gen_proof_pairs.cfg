SPECIFICATION Spec
CONSTANTS
  Keys <- Keys3
  Vals <- V1
  MaxKeys = 3
  QKeys <- QK3
  MutKeys <- Keys3
  MutVals <- MV2
  Sibs <- SibBoth
  Versions <- VBoth
  IterNs <- N01
  PfxSets <- Pfx1
  PfxLimits <- Lim1
  OtherMaps <- Other1
  RespPats <- Pats1
  MaxMut = 2
  OpKinds <- OpsAll
VIEW genview
INVARIANTS EmitInv
CHECK_DEADLOCK FALSE
