----------------------------- MODULE TraceProof -----------------------------
(***************************************************************************)
(* C04 verdict: the declarative rule of MkvsProofRule.tla evaluated over   *)
(* outcomes recorded from the real code by `vh proof-replay`.              *)
(*                                                                         *)
(* The trace spec contains no model of proofs, verification or merging.    *)
(* It knows the real contents m of the tree (from the `begin` event, as    *)
(* emitted by TLC - not as reported by the code) and reads, per event,     *)
(*   case   : whether the real VerifyProof / VerifyProofToWriteLog         *)
(*            accepted a (possibly mutated) real proof and, when accepted, *)
(*            what the verified subtree answers for the probed keys /      *)
(*            seeks / prefixes and which pairs the write log contains;     *)
(*   remote : what a real remote-backed tree behind a corrupting peer      *)
(*            returned for each read (answer or error).                    *)
(* `bad` is set to the name of the broken clause; invariant bad = "none".  *)
(*   violation iff  an honest proof is rejected or leaves what was asked   *)
(*                  undetermined,                                          *)
(*              or  an accepted proof / a remote read yields an answer     *)
(*                  different from m,                                      *)
(*              or  the real code panics,                                  *)
(*              or  a reader behind a peer that delivered only honest      *)
(*                  responses gets an error although its node cache holds  *)
(*                  a whole root-to-leaf path (cls # "tiny").              *)
(* A rejected mutant, whatever the model thought of it, is never a         *)
(* violation (MODEL-DRIFT is counted by the harness, not here).            *)
(***************************************************************************)
EXTENDS MkvsProofRule, Json, TLC

Trace == ndJsonDeserialize("trace.ndjson")

VARIABLES l, m, bad

tvars == <<l, m, bad>>

IsEvent(e) == l <= Len(Trace) /\ Trace[l].ev = e /\ l' = l + 1

SeqRange(s) == {s[i] : i \in DOMAIN s}
MapOfPairs(ps) == [k \in {q[1] : q \in SeqRange(ps)} |-> (CHOOSE q \in SeqRange(ps) : q[1] = k)[2]]

Ans(a) == [s |-> a.s, v |-> a.v]

(* the answer recorded for seek/prefix k, if any *)
Recorded(rs, k) == {i \in DOMAIN rs : rs[i].seek = k}

RECURSIVE PfxAsked(_, _, _, _, _)
PfxAsked(mm, rs, ps, total, limit) ==
    IF ps = <<>> THEN TRUE
    ELSE LET truth == TruePfx(mm, Head(ps))
             cnt   == Len(truth)
             R     == Recorded(rs, Head(ps))
         IN  /\ R # {}
             /\ IF total + cnt < limit
                THEN /\ \A i \in R : SeqDetermines(truth, cnt + 1, rs[i])
                     /\ PfxAsked(mm, rs, Tail(ps), total + cnt, limit)
                ELSE \A i \in R : SeqDetermines(truth, limit - total, rs[i])

HonestDetermined(mm, e) ==
    CASE e.q.op = "get" ->
            /\ \E i \in DOMAIN e.ans : e.ans[i].k = e.q.k
            /\ \A i \in DOMAIN e.ans : e.ans[i].k = e.q.k => AnswerComplete(mm, e.q.k, Ans(e.ans[i]))
            /\ (e.q.k \in DOMAIN mm => \E i \in DOMAIN e.wl : e.wl[i] = <<e.q.k, mm[e.q.k]>>)
      [] e.q.op = "iter" ->
            /\ Recorded(e.its, e.q.k) # {}
            /\ \A i \in Recorded(e.its, e.q.k) : SeqDetermines(TrueIter(mm, e.q.k), e.q.n + 1, e.its[i])
      [] OTHER -> PfxAsked(mm, e.pfx, e.q.ps, 0, e.q.n)

CaseBad(mm, e) ==
    IF e.panic THEN "panic"
    ELSE IF e.honest /\ ~(e.acc /\ e.accwl) THEN "honest_rejected"
    ELSE IF e.accwl /\ ~WriteLogSound(mm, e.wl) THEN "writelog_lie"
    ELSE IF ~e.acc THEN "none"
    ELSE IF \E i \in DOMAIN e.ans : ~AnswerSound(mm, e.ans[i].k, Ans(e.ans[i])) THEN "lookup_lie"
    ELSE IF \E i \in DOMAIN e.its : ~SeqSound(TrueIter(mm, e.its[i].seek), e.its[i]) THEN "iterate_lie"
    ELSE IF \E i \in DOMAIN e.pfx : ~SeqSound(TruePfx(mm, e.pfx[i].seek), e.pfx[i]) THEN "prefix_lie"
    ELSE IF e.honest /\ ~HonestDetermined(mm, e) THEN "undetermined"
    ELSE "none"

ReadLies(mm, r) ==
    /\ ~r.err
    /\ CASE r.op = "get" -> Ans(r) # TrueAns(mm, r.k)
         [] r.op = "iter" -> r.items # Take(TrueIter(mm, r.k), r.n)
         [] OTHER -> FALSE

RemoteBad(mm, e) ==
    IF e.panic THEN "remote_panic"
    ELSE IF \E i \in DOMAIN e.reads : ReadLies(mm, e.reads[i]) THEN "remote_lie"
    ELSE IF e.hon /\ e.cls # "tiny" /\ \E i \in DOMAIN e.reads : e.reads[i].err THEN "remote_honest_error"
    ELSE "none"

(* every broken clause is also logged (TLCSet register, -workers 1), so that a run without the invariant can
   list ALL offending events of a trace instead of stopping at the first one *)
LogReg == 42
Log(b) == IF b = "none" THEN TRUE ELSE TLCSet(LogReg, Append(TLCGet(LogReg), [l |-> l, bad |-> b, id |-> Trace[l].id]))

TraceInit == l = 1 /\ m = <<>> /\ bad = "none" /\ TLCSet(LogReg, <<>>)

TrBegin ==
    /\ IsEvent("begin")
    /\ m' = MapOfPairs(Trace[l].m)
    /\ UNCHANGED bad

TrCase ==
    /\ IsEvent("case")
    /\ LET b == CaseBad(m, Trace[l]) IN Log(b) /\ bad' = IF b = "none" THEN bad ELSE b
    /\ UNCHANGED m

TrRemote ==
    /\ IsEvent("remote")
    /\ LET b == RemoteBad(m, Trace[l]) IN Log(b) /\ bad' = IF b = "none" THEN bad ELSE b
    /\ UNCHANGED m

TraceNext == TrBegin \/ TrCase \/ TrRemote

TraceSpec == TraceInit /\ [][TraceNext]_tvars

RuleHolds == bad = "none"

TraceAccepted == TLCGet("stats").diameter - 1 = Len(Trace)
(* listing mode: the whole trace consumed, and the log of broken clauses printed as JSON *)
TraceListed == TraceAccepted /\ PrintT(ToJson([badlog |-> TLCGet(LogReg)]))
=============================================================================
