SPECIFICATION TraceSpec
POSTCONDITION TraceListed
CHECK_DEADLOCK FALSE
