-------------------------------- MODULE Mkvs --------------------------------
(***************************************************************************)
(* The MKVS tree with a stack of overlays as an ordered map (C03), with    *)
(* the base tree kept as the trie that insert.go / remove.go build (C02).  *)
(*                                                                         *)
(* State st = [tree, ctree, ovl]:                                          *)
(*   tree   the pending base tree (a MkvsTrie term)                        *)
(*   ctree  the tree at the last Commit (what close + NewWithRoot reopens) *)
(*   ovl    stack of overlays, each given by its effective contents        *)
(*          (the ordered-map view seen through that overlay)               *)
(*                                                                         *)
(* One operation per public call:                                          *)
(*   ins k v | rem k | remx k (RemoveExisting) | commit | reopen |         *)
(*   onew (NewOverlay on top) | ocommit (Overlay.Commit) | oclose          *)
(*   (discard) | ocopy (continue on Overlay.Copy(nil))                     *)
(*   ofork (Overlay.Copy(nil) with BOTH objects kept: the stack continues  *)
(*   on one of them, the other one is the fork) | fins k v | frem k        *)
(*   (writes to the fork).  st.fork = <<>> or [d, m]: the overlay depth at *)
(*   which the fork was taken and the fork's own view.  The two objects    *)
(*   are independent ordered maps over the same inner tree: a write to one *)
(*   is not seen through the other.  The fork is given up when the overlay *)
(*   it was copied from is committed or discarded (its inner tree changes  *)
(*   under it only then).                                                  *)
(* st.cold: the tree object was re-opened from the database at some point  *)
(*   (its nodes are read back lazily from their stored form).  The ordered *)
(*   map does not depend on it - it is state of the implementation, kept   *)
(*   in the model state so that generation emits histories that continue   *)
(*   on a re-opened tree and not only the shortest history of each map.    *)
(* Reads (Get of every key, Iterator Seek+Next from every seek position)   *)
(* are not separate steps: their expected answers are attached to every    *)
(* emitted operation and the harness performs them after the operation.    *)
(***************************************************************************)
EXTENDS MkvsTrie, SequencesExt, Json

CONSTANTS Keys,       \* key universe (set of byte tuples)
          Vals,       \* values (set of byte tuples, may include <<>>)
          SeekKeys,   \* extra seek positions not in Keys
          IterN,      \* items read after each seek
          MaxOvl,     \* maximal overlay depth
          MaxOps,     \* behaviour length bound
          Kinds       \* enabled operation kinds

VARIABLES st, hist

vars == <<st, hist>>

(* byte-lexicographic order *)
RECURSIVE Lt(_, _)
Lt(a, b) == IF b = <<>> THEN FALSE
            ELSE IF a = <<>> THEN TRUE
            ELSE IF a[1] < b[1] THEN TRUE
            ELSE IF a[1] > b[1] THEN FALSE
            ELSE Lt(Tail(a), Tail(b))
Le(a, b) == a = b \/ Lt(a, b)

MapOf(n) == LET C == Contents(n) IN [k \in {p[1] : p \in C} |-> (CHOOSE p \in C : p[1] = k)[2]]

Put(m, k, v) == [x \in DOMAIN m \cup {k} |-> IF x = k THEN v ELSE m[x]]
Del(m, k) == [x \in DOMAIN m \ {k} |-> m[x]]

Top(s) == IF s.ovl = <<>> THEN MapOf(s.tree) ELSE s.ovl[Len(s.ovl)]

SetTop(s, m) == [s EXCEPT !.ovl = [s.ovl EXCEPT ![Len(s.ovl)] = m]]

(* sorted list of <<k, v>> of a map *)
Pairs(m) == LET ks == SetToSortSeq(DOMAIN m, Lt) IN [i \in DOMAIN ks |-> <<ks[i], m[ks[i]]>>]

(* Iterator: Seek(seek) then up to IterN (Key, Value, Next) *)
IterFrom(m, seek) ==
    LET ps == SelectSeq(Pairs(m), LAMBDA p : Le(seek, p[1])) IN
    SubSeq(ps, 1, IF Len(ps) < IterN THEN Len(ps) ELSE IterN)

Op(a, k, v) == [a |-> a, k |-> k, v |-> v]

Enabled(s) ==
    LET base == s.ovl = <<>> IN
       {Op("ins", k, v) : k \in Keys, v \in Vals}
    \cup {Op("rem", k, <<>>) : k \in Keys}
    \cup {Op("remx", k, <<>>) : k \in Keys}
    \cup (IF base THEN {Op("commit", <<>>, <<>>), Op("reopen", <<>>, <<>>)} ELSE {})
    \cup (IF Len(s.ovl) < MaxOvl THEN {Op("onew", <<>>, <<>>)} ELSE {})
    \cup (IF ~base THEN {Op("ocommit", <<>>, <<>>), Op("oclose", <<>>, <<>>), Op("ocopy", <<>>, <<>>)} ELSE {})
    \cup (IF ~base /\ s.fork = <<>> THEN {Op("ofork", <<>>, <<>>)} ELSE {})
    \cup (IF s.fork # <<>> THEN {Op("fins", k, v) : k \in Keys, v \in Vals} \cup {Op("frem", k, <<>>) : k \in Keys} ELSE {})

DropFork(s, s2) == IF s.fork # <<>> /\ Len(s.ovl) = s.fork.d THEN [s2 EXCEPT !.fork = <<>>] ELSE s2

Step(s, op) ==
    LET base == s.ovl = <<>> IN
    CASE op.a = "ins" ->
            IF base THEN [s EXCEPT !.tree = Insert(s.tree, 0, op.k, op.v)]
            ELSE SetTop(s, Put(Top(s), op.k, op.v))
      [] op.a \in {"rem", "remx"} ->
            IF base THEN [s EXCEPT !.tree = Remove(s.tree, 0, op.k)]
            ELSE SetTop(s, Del(Top(s), op.k))
      [] op.a = "commit" -> [s EXCEPT !.ctree = s.tree]
      [] op.a = "reopen" -> [s EXCEPT !.tree = s.ctree, !.cold = TRUE]
      [] op.a = "onew" -> [s EXCEPT !.ovl = Append(s.ovl, Top(s))]
      [] op.a = "ocommit" -> DropFork(s,
            IF Len(s.ovl) = 1 THEN [s EXCEPT !.tree = Canon(Top(s)), !.ovl = <<>>]
            ELSE [s EXCEPT !.ovl = [SubSeq(s.ovl, 1, Len(s.ovl) - 1) EXCEPT ![Len(s.ovl) - 1] = Top(s)]])
      [] op.a = "oclose" -> DropFork(s, [s EXCEPT !.ovl = SubSeq(s.ovl, 1, Len(s.ovl) - 1)])
      [] op.a = "ocopy" -> s
      [] op.a = "ofork" -> [s EXCEPT !.fork = [d |-> Len(s.ovl), m |-> Top(s)]]
      [] op.a = "fins" -> [s EXCEPT !.fork.m = Put(s.fork.m, op.k, op.v)]
      [] op.a = "frem" -> [s EXCEPT !.fork.m = Del(s.fork.m, op.k)]

(* the value returned by the call itself *)
Ret(s, op) ==
    IF op.a = "remx" THEN (IF op.k \in DOMAIN Top(s) THEN [found |-> TRUE, v |-> Top(s)[op.k]]
                                                     ELSE [found |-> FALSE, v |-> <<>>])
    ELSE [found |-> FALSE, v |-> <<>>]

AllSeeks == Keys \cup SeekKeys

(* what the harness must observe after the operation *)
Obs(s, op, s2) ==
    [a |-> op.a, k |-> op.k, v |-> op.v,
     ret |-> Ret(s, op),
     view |-> Pairs(Top(s2)),
     iters |-> LET sk == SetToSortSeq(AllSeeks, Lt) IN [i \in DOMAIN sk |-> [seek |-> sk[i], items |-> IterFrom(Top(s2), sk[i])]],
     shape |-> s2.tree,
     depth |-> PathDepth(s2.tree),
     fork |-> s2.fork # <<>>,
     fview |-> IF s2.fork # <<>> THEN Pairs(s2.fork.m) ELSE <<>>]

Init ==
    /\ st = [tree |-> Nil, ctree |-> Nil, ovl |-> <<>>, fork |-> <<>>, cold |-> FALSE]
    /\ hist = <<>>

Next ==
    /\ Len(hist) < MaxOps
    /\ \E op \in Enabled(st) :
          /\ op.a \in Kinds
          /\ st' = Step(st, op)
          /\ hist' = Append(hist, op)

Spec == Init /\ [][Next]_vars

LastOp == IF hist = <<>> THEN <<>> ELSE hist[Len(hist)]
genview == <<st, LastOp>>
view == st

(* emission: recompute the observations along the history *)
RECURSIVE Observe(_, _, _)
Observe(s, h, acc) ==
    IF h = <<>> THEN acc
    ELSE LET s2 == Step(s, Head(h)) IN Observe(s2, Tail(h), Append(acc, Obs(s, Head(h), s2)))

Behaviour == Observe([tree |-> Nil, ctree |-> Nil, ovl |-> <<>>, fork |-> <<>>, cold |-> FALSE], hist, <<>>)

EmitInv == (hist # <<>>) => PrintT(ToJson([ops |-> Behaviour]))

(* Simulation mode (tlc -simulate): print each random behaviour exactly once, in a final step. *)
SimDone ==
    /\ Len(hist) = MaxOps
    /\ PrintT(ToJson([ops |-> Behaviour]))
    /\ hist' = Append(hist, Op("done", <<>>, <<>>))
    /\ UNCHANGED st
SimSpec == Init /\ [][Next \/ SimDone]_vars

-----------------------------------------------------------------------------
(* Design-level invariants.                                                *)

(* C02: the transcribed insert/remove keep the tree canonical for its      *)
(* contents, hence the root (structural term) is a function of contents.   *)
Canonical ==
    /\ st.tree = Canon(MapOf(st.tree))
    /\ WellFormed(st.tree, TRUE)
    /\ st.ctree = Canon(MapOf(st.ctree))

(* C03 lemmas of the overlay algebra on the reference model.               *)
StepLemmas ==
    [][ \A op \in Enabled(st) :
          LET s2 == Step(st, op) IN
          /\ (op.a = "ocommit" => Top(s2) = Top(st))             \* commit keeps the view
          /\ (op.a = "onew" => Top(s2) = Top(st))                \* a fresh overlay is transparent
          /\ (op.a = "oclose" => Top(s2) = Top([st EXCEPT !.ovl = SubSeq(st.ovl, 1, Len(st.ovl) - 1)]))
          /\ (op.a = "ins" => Top(s2) = Put(Top(st), op.k, op.v))
          /\ (op.a \in {"rem", "remx"} => Top(s2) = Del(Top(st), op.k))
          \* the two objects of a fork are independent
          /\ (op.a \in {"ofork", "fins", "frem"} => Top(s2) = Top(st) /\ s2.tree = st.tree /\ s2.ovl = st.ovl)
          /\ (op.a = "ofork" => s2.fork.m = Top(st))
          /\ (op.a \in {"ins", "rem", "remx", "onew", "ocopy"} => s2.fork = st.fork)
      ]_vars
=============================================================================
