SPECIFICATION SpecCreate
CONSTANTS
  Trees <- C5
  Sizes <- S60
  ThreadSet <- T03
  Backends <- OnlyPath
  Versions <- VOne
  Mode = "create"
  MaxOps = 0
  MaxChunks = 100
  MaxAborts = 0
  MaxBad = 0
  MaxNoise = 0
  MaxCrashes = 0
  Conc = FALSE
  RestorerFixed = TRUE
  MaxProofDepth = 128
  Excuse <- NoExcuse
INVARIANTS TypeOK RuleCreate
CHECK_DEADLOCK FALSE
