------------------------------- MODULE NodeDB -------------------------------
(***************************************************************************)
(* The versioned node database as its API contract (db/api.NodeDB), used   *)
(* the way the storage and consensus layers use it: candidate roots are    *)
(* committed for the next version, one root per type is finalized (which   *)
(* discards the competitors), old versions are pruned in order.            *)
(*                                                                         *)
(* A root is identified by (version, type, contents): by C02 the root hash *)
(* is a function of the contents.  Candidate roots derive from the empty   *)
(* root, from a finalized root of the previous version, or (legacy badger  *)
(* backend only) from another candidate of the same version.               *)
(*                                                                         *)
(* C06 rule, evaluated by the harness after every step against the         *)
(* expectations emitted here:                                              *)
(*   R1 every finalized root of a retained version is fully readable with  *)
(*      exactly its contents;                                              *)
(*   R2 a discarded candidate is reported absent or still reads exactly    *)
(*      its own contents;                                                  *)
(*   R3 both backends give these same answers;                             *)
(*   R4 (gated interleavings) the same holds for a reader running between  *)
(*      any two durable writes of commit / finalize / prune.               *)
(* C07 adds Crash: an operation interrupted between two durable writes     *)
(* leaves the pre- or the post-state, and repeating it gives the           *)
(* post-state.                                                             *)
(***************************************************************************)
EXTENDS Integers, Sequences, FiniteSets, SequencesExt, Json, TLC

CONSTANTS Keys, Vals,
          Types,      \* subset of {"state", "io"}
          MaxV,       \* highest version built
          MaxCand,    \* candidates per (version, type)
          MaxOps,
          WriteSets,  \* set of write batches (sequences of [k, del, v]) a candidate applies to its parent
          SameVersionChains  \* BOOLEAN: allow candidates derived from candidates (legacy backend only)

VARIABLES st, hist
vars == <<st, hist>>

RECURSIVE Lt(_, _)
Lt(a, b) == IF b = <<>> THEN FALSE ELSE IF a = <<>> THEN TRUE
            ELSE IF a[1] < b[1] THEN TRUE ELSE IF a[1] > b[1] THEN FALSE ELSE Lt(Tail(a), Tail(b))
Put(m, k, v) == [x \in DOMAIN m \cup {k} |-> IF x = k THEN v ELSE m[x]]
Del(m, k) == [x \in DOMAIN m \ {k} |-> m[x]]
Pairs(m) == LET ks == SetToSortSeq(DOMAIN m, Lt) IN [i \in DOMAIN ks |-> <<ks[i], m[ks[i]]>>]
EmptyMap == [x \in {} |-> <<>>]

RECURSIVE ApplyW(_, _)
ApplyW(m, ws) == IF ws = <<>> THEN m
                 ELSE LET w == Head(ws) IN ApplyW(IF w.del THEN Del(m, w.k) ELSE Put(m, w.k, w.v), Tail(ws))

\* Whether a root was built on the previous version's root or from the empty tree is state of the real databases (the legacy
\* backend records derived roots per root and prunes only "lone" roots node by node).  With TrackLineage (overridden to TRUE in
\* a config) it is model state, too, so that generation emits histories for both lineages of otherwise equal roots.
TrackLineage == FALSE
Root(v, ty, c, par, lin) == [v |-> v, ty |-> ty, c |-> c, par |-> par, fin |-> FALSE, lin |-> IF TrackLineage THEN lin ELSE "x"]
\* par: {} or {contents of the same-version parent candidate}

NextV(s) == s.lastFin + 1

Cands(s, ty) == {r \in s.roots : r.v = NextV(s) /\ r.ty = ty}

Parents(s, ty) ==
       {[kind |-> "empty", c |-> EmptyMap]}
    \cup {[kind |-> "prev", c |-> r.c] : r \in {x \in s.roots : x.v = s.lastFin /\ x.fin /\ x.ty = ty /\ s.lastFin >= s.earliest}}
    \cup (IF SameVersionChains THEN {[kind |-> "same", c |-> r.c] : r \in Cands(s, ty)} ELSE {})

CommitOps(s) ==
    IF NextV(s) > MaxV THEN {}
    ELSE UNION {{[a |-> "commit", v |-> NextV(s), ty |-> ty, parent |-> p.kind, pc |-> p.c, writes |-> ws] :
                    p \in Parents(s, ty), ws \in WriteSets} : ty \in Types}

(* choices of roots to finalize: at most one per type, at least one *)
FinalizeOps(s) ==
    LET all == UNION {Cands(s, ty) : ty \in Types}
        choice == {S \in SUBSET all : S # {} /\ \A r, t \in S : r.ty = t.ty => r = t}
    IN {[a |-> "finalize", v |-> NextV(s), chosen |-> S] : S \in choice}

PruneOps(s) == IF s.earliest < s.lastFin THEN {[a |-> "prune", v |-> s.earliest]} ELSE {}

Enabled(s) == CommitOps(s) \cup FinalizeOps(s) \cup PruneOps(s)

(* same-version ancestors of a root (transitive finalization in the legacy backend) *)
RECURSIVE Ancestors(_, _)
Ancestors(s, r) ==
    IF r.par = {} THEN {}
    ELSE LET ps == {x \in s.roots : x.v = r.v /\ x.ty = r.ty /\ x.c \in r.par} IN
         ps \cup UNION {Ancestors(s, p) : p \in ps}

Step(s, op) ==
    CASE op.a = "commit" ->
            LET c == ApplyW(op.pc, op.writes)
                exists == \E r \in s.roots : r.v = op.v /\ r.ty = op.ty /\ r.c = c
            IN  IF exists \/ Cardinality(Cands(s, op.ty)) >= MaxCand THEN s
                ELSE [s EXCEPT !.roots = @ \cup {Root(op.v, op.ty, c, IF op.parent = "same" THEN {op.pc} ELSE {}, op.parent)}]
      [] op.a = "finalize" ->
            LET keep == op.chosen \cup UNION {Ancestors(s, r) : r \in op.chosen}
                drop == {r \in s.roots : r.v = op.v} \ keep
            IN  [s EXCEPT !.roots = (@ \ {r \in s.roots : r.v = op.v}) \cup {[r EXCEPT !.fin = TRUE] : r \in keep},
                          !.lastFin = op.v,
                          !.gone = {[v |-> r.v, ty |-> r.ty, c |-> r.c] : r \in drop}]   \* candidates discarded by the latest finalization
      [] op.a = "prune" ->
            [s EXCEPT !.roots = {r \in @ : r.v # op.v}, !.earliest = op.v + 1,
                      !.gone = {g \in @ : g.v # op.v}]

RootId(r) == [v |-> r.v, ty |-> r.ty, c |-> Pairs(r.c)]

(* what the harness must observe after the operation *)
Expect(s) ==
    [latest |-> s.lastFin, earliest |-> s.earliest,
     finalized |-> {RootId(r) : r \in {x \in s.roots : x.fin}},
     pending |-> {RootId(r) : r \in {x \in s.roots : ~x.fin}},
     gone |-> {RootId(g) : g \in s.gone}]

OpOut(s, op) ==
    CASE op.a = "commit" -> [a |-> "commit", v |-> op.v, ty |-> op.ty, parent |-> op.parent, pc |-> Pairs(op.pc),
                            writes |-> op.writes, c |-> Pairs(ApplyW(op.pc, op.writes))]
      [] op.a = "finalize" -> [a |-> "finalize", v |-> op.v, chosen |-> {RootId(r) : r \in op.chosen}]
      [] op.a = "prune" -> [a |-> "prune", v |-> op.v]

Init0 == [roots |-> {}, lastFin |-> -1, earliest |-> 0, gone |-> {}]
Init == st = Init0 /\ hist = <<>>

Next ==
    /\ Len(hist) < MaxOps
    /\ \E op \in Enabled(st) :
         /\ Step(st, op) # st        \* skip no-op commits (duplicate root / candidate limit)
         /\ st' = Step(st, op)
         /\ hist' = Append(hist, op)

Spec == Init /\ [][Next]_vars

LastOp == IF hist = <<>> THEN <<>> ELSE hist[Len(hist)]
genview == <<st, LastOp>>
view == st

RECURSIVE Observe(_, _, _)
Observe(s, h, acc) ==
    IF h = <<>> THEN acc
    ELSE LET s2 == Step(s, Head(h)) IN
         Observe(s2, Tail(h), Append(acc, [op |-> OpOut(s, Head(h)), expect |-> Expect(s2)]))

EmitInv == (hist # <<>>) => PrintT(ToJson([steps |-> Observe(Init0, hist, <<>>)]))

SimDone ==
    /\ Len(hist) = MaxOps
    /\ PrintT(ToJson([steps |-> Observe(Init0, hist, <<>>)]))
    /\ hist' = Append(hist, [a |-> "done"])
    /\ UNCHANGED st
SimSpec == Init /\ [][Next \/ SimDone]_vars

-----------------------------------------------------------------------------
(* Design-level invariants of the contract model. *)
TypeOK ==
    /\ st.lastFin \in -1..MaxV /\ st.earliest \in 0..(MaxV + 1)
    /\ st.earliest <= st.lastFin + 1
    /\ \A r \in st.roots : r.v \in st.earliest..(st.lastFin + 1)

(* every retained version up to lastFin keeps at least one finalized root; pending roots only at lastFin+1 *)
Retained ==
    /\ \A v \in st.earliest..st.lastFin : \E r \in st.roots : r.v = v /\ r.fin
    /\ \A r \in st.roots : r.fin <=> r.v <= st.lastFin

(* finalized roots are never lost except by pruning exactly their version *)
FinalizedStable ==
    [][ \A r \in st.roots : (r.fin /\ r.v >= st'.earliest) => r \in st'.roots ]_vars
=============================================================================
