---- MODULE MCMkvsWire ----
EXTENDS MkvsWire
KW == {<<>>, <<1>>, <<1, 2>>}
VW == {<<>>, <<7>>, <<7, 8, 9>>}
LB == {0, 1, 8, 9, 16}
====
