---------------------------- MODULE MCNodeDBCrash ----------------------------
EXTENDS NodeDBCrash
NK2 == {<<97>>, <<97, 98>>}
NV1 == {<<1>>}
W(k, d, v) == [k |-> k, del |-> d, v |-> v]
Singles(K, V) == {<<W(k, FALSE, v)>> : k \in K, v \in V} \cup {<<W(k, TRUE, <<>>)>> : k \in K}
WSsmall == {<<>>} \cup Singles(NK2, NV1) \cup {<<W(<<97>>, TRUE, <<>>), W(<<97, 98>>, FALSE, <<1>>)>>}
TrueConst == TRUE
NV2 == {<<1>>, <<2>>}
WSvals == {<<>>} \cup Singles(NK2, NV2)
Two == 2
TBoth == {"state", "io"}
TState == {"state"}
BothBackends == {"badger", "pathbadger"}
PointsDef ==
  [badger |-> [commit |-> <<"badger.commit.nodes_flushed">>,
               finalize |-> <<"badger.finalize.batch_flushed", "badger.finalize.meta_committed">>,
               prune |-> <<"badger.prune.batch_flushed">>],
   pathbadger |-> [commit |-> <<"path.newbatch.seq_reserved", "path.commit.seqno_committed", "path.commit.meta_flushed">>,
                   finalize |-> <<"path.finalize.copy_flushed", "path.finalize.copymeta_flushed", "path.finalize.delete_flushed",
                                  "path.finalize.deletemeta_flushed", "path.finalize.meta_committed">>,
                   prune |-> <<"path.prune.batch_flushed", "path.prune.batchmeta_flushed">>]]
=============================================================================
