------------------------------ MODULE MkvsTrie ------------------------------
(***************************************************************************)
(* The Merklized key-value tree as go/storage/mkvs builds it               *)
(* (insert.go doInsert, remove.go doRemove), and, independently, the       *)
(* canonical compressed bit-trie of a key/value map.                       *)
(*                                                                         *)
(* Keys and values are byte strings (tuples of 0..255).  A node is         *)
(*   Nil                      [t |-> "nil"]                                *)
(*   Leaf(k, v)               [t |-> "leaf", k, v]                         *)
(*   Inode(lbl, leaf, l, r)     [t |-> "int", lbl (tuple of bits), leaf,l,r] *)
(* The structural term of a tree is its own "perfect hash": two trees have *)
(* the same root hash iff the terms are equal (collision resistance of     *)
(* SHA-512/256 is assumed).  The harness recomputes the real hash formula  *)
(* over the term and compares it with the root the real tree reports.      *)
(***************************************************************************)
EXTENDS Integers, Sequences, FiniteSets, TLC

Nil == [t |-> "nil"]
Leaf(k, v) == [t |-> "leaf", k |-> k, v |-> v]
Inode(lbl, leaf, l, r) == [t |-> "int", lbl |-> lbl, leaf |-> leaf, l |-> l, r |-> r]

Pow2(n) == IF n = 0 THEN 1 ELSE IF n = 1 THEN 2 ELSE IF n = 2 THEN 4 ELSE IF n = 3 THEN 8
           ELSE IF n = 4 THEN 16 ELSE IF n = 5 THEN 32 ELSE IF n = 6 THEN 64 ELSE 128

BitLen(k) == 8 * Len(k)
(* i-th bit (0-based, most significant first) of byte string k: Key.GetBit *)
Bit(k, i) == (k[(i \div 8) + 1] \div Pow2(7 - (i % 8))) % 2
(* bits from..to-1 of k as a tuple *)
Bits(k, from, to) == [j \in 1..(to - from) |-> Bit(k, from + j - 1)]

(* length of the common prefix of two bit tuples: Key.CommonPrefixLen *)
RECURSIVE CPL(_, _)
CPL(a, b) == IF a = <<>> \/ b = <<>> THEN 0
             ELSE IF Head(a) # Head(b) THEN 0
             ELSE 1 + CPL(Tail(a), Tail(b))

(***************************************************************************)
(* doInsert(ptr, bitDepth, key, val)                                       *)
(***************************************************************************)
RECURSIVE Insert(_, _, _, _)
Insert(n, depth, key, val) ==
    LET klen == BitLen(key)
        rem  == Bits(key, depth, klen)
    IN
    IF n.t = "nil" THEN Leaf(key, val)
    ELSE IF n.t = "int" THEN
        LET cp == CPL(n.lbl, rem) IN
        IF cp = Len(n.lbl) THEN
            LET bl == depth + Len(n.lbl) IN
            IF klen = bl THEN [n EXCEPT !.leaf = Insert(n.leaf, bl, key, val)]
            ELSE IF Bit(key, bl) = 1 THEN [n EXCEPT !.r = Insert(n.r, bl, key, val)]
            ELSE [n EXCEPT !.l = Insert(n.l, bl, key, val)]
        ELSE
            \* split the edge
            LET prefix == SubSeq(n.lbl, 1, cp)
                suffix == SubSeq(n.lbl, cp + 1, Len(n.lbl))
                old    == [n EXCEPT !.lbl = suffix]
                new    == Leaf(key, val)
            IN  IF klen - depth = cp THEN
                    \* the key is a prefix of the existing path
                    IF suffix[1] = 1 THEN Inode(prefix, new, Nil, old) ELSE Inode(prefix, new, old, Nil)
                ELSE IF rem[cp + 1] = 1 THEN Inode(prefix, Nil, old, new)
                ELSE Inode(prefix, Nil, new, old)
    ELSE \* leaf
        IF n.k = key THEN Leaf(key, val)
        ELSE
            LET lrem   == Bits(n.k, depth, BitLen(n.k))
                cp     == CPL(lrem, rem)
                prefix == SubSeq(lrem, 1, cp)
                new    == Leaf(key, val)
            IN  IF klen - depth = cp THEN
                    \* inserted key is a prefix of the leaf's key
                    IF lrem[cp + 1] = 1 THEN Inode(prefix, new, Nil, n) ELSE Inode(prefix, new, n, Nil)
                ELSE IF BitLen(n.k) - depth = cp THEN
                    \* the leaf's key is a prefix of the inserted key
                    IF rem[cp + 1] = 1 THEN Inode(prefix, n, Nil, new) ELSE Inode(prefix, n, new, Nil)
                ELSE IF rem[cp + 1] = 1 THEN Inode(prefix, Nil, n, new)
                ELSE Inode(prefix, Nil, new, n)

(***************************************************************************)
(* doRemove(ptr, bitDepth, key), including the collapse of nodes with one  *)
(* remaining child and the label merge.                                    *)
(***************************************************************************)
RECURSIVE Remove(_, _, _)
Remove(n, depth, key) ==
    IF n.t = "nil" THEN Nil
    ELSE IF n.t = "leaf" THEN (IF n.k = key THEN Nil ELSE n)
    ELSE
        LET bl   == depth + Len(n.lbl)
            klen == BitLen(key)
        IN  IF klen < bl THEN n
            ELSE
              LET n1 == IF klen = bl THEN [n EXCEPT !.leaf = Remove(n.leaf, bl, key)]
                        ELSE IF Bit(key, bl) = 1 THEN [n EXCEPT !.r = Remove(n.r, bl, key)]
                        ELSE [n EXCEPT !.l = Remove(n.l, bl, key)]
              IN  IF n1.leaf.t # "nil" /\ n1.l.t = "nil" /\ n1.r.t = "nil" THEN n1.leaf
                  ELSE IF n1.leaf.t = "nil" /\ (n1.l.t = "nil" \/ n1.r.t = "nil") THEN
                      LET child == IF n1.l.t # "nil" THEN n1.l ELSE n1.r IN
                      IF child.t = "int" THEN [child EXCEPT !.lbl = n1.lbl \o child.lbl]
                      ELSE child
                  ELSE n1

(***************************************************************************)
(* Independent definition: the canonical trie of a finite map.             *)
(* m is a function from a set of keys to values.                           *)
(***************************************************************************)
Min(S) == CHOOSE x \in S : \A y \in S : x <= y

RECURSIVE CanonAt(_, _, _)
CanonAt(m, K, depth) ==
    IF K = {} THEN Nil
    ELSE IF Cardinality(K) = 1 THEN LET k == CHOOSE x \in K : TRUE IN Leaf(k, m[k])
    ELSE
        LET k0  == CHOOSE x \in K : TRUE
            cp  == Min({CPL(Bits(k0, depth, BitLen(k0)), Bits(k, depth, BitLen(k))) : k \in K \ {k0}}
                       \cup {BitLen(k) - depth : k \in K})
            L   == depth + cp
            atL == {k \in K : BitLen(k) = L}
            lf  == IF atL = {} THEN Nil ELSE LET k == CHOOSE x \in atL : TRUE IN Leaf(k, m[k])
            KL  == {k \in K : BitLen(k) > L /\ Bit(k, L) = 0}
            KR  == {k \in K : BitLen(k) > L /\ Bit(k, L) = 1}
        IN  Inode(Bits(k0, depth, L), lf, CanonAt(m, KL, L), CanonAt(m, KR, L))

Canon(m) == CanonAt(m, DOMAIN m, 0)

RECURSIVE Contents(_)
Contents(n) ==   \* set of <<k, v>> pairs stored in a tree
    IF n.t = "nil" THEN {}
    ELSE IF n.t = "leaf" THEN {<<n.k, n.v>>}
    ELSE Contents(n.leaf) \cup Contents(n.l) \cup Contents(n.r)

RECURSIVE WellFormed(_, _)
WellFormed(n, isRoot) ==   \* structural invariants of a canonical tree
    IF n.t # "int" THEN TRUE
    ELSE /\ Cardinality({c \in {"leaf", "l", "r"} : n[c].t # "nil"}) >= 2
         /\ (isRoot \/ Len(n.lbl) >= 1)
         /\ n.leaf.t \in {"nil", "leaf"}
         /\ WellFormed(n.l, FALSE) /\ WellFormed(n.r, FALSE)

RECURSIVE PathDepth(_)
PathDepth(n) == IF n.t # "int" THEN 1
                ELSE 1 + (LET a == PathDepth(n.l) b == PathDepth(n.r) IN IF a > b THEN a ELSE b)
=============================================================================
