SPECIFICATION Spec
CONSTANTS
  Keys <- KeysN
  Vals <- V1
  MaxKeys = 5
  QKeys <- QKN
  MutKeys <- KeysN
  MutVals <- MV2
  Sibs <- SibBoth
  Versions <- VBoth
  IterNs <- N01
  PfxSets <- PfxN
  PfxLimits <- Lim3
  OtherMaps <- Other1
  RespPats <- Pats1
  MaxMut = 0
  OpKinds <- OpsPfx
VIEW view
INVARIANTS Completeness Soundness Pruning RemoteRule RemoteHonest
CHECK_DEADLOCK FALSE
