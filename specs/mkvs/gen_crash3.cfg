SPECIFICATION CSpec
CONSTANTS
  Keys <- NK2
  Vals <- NV2
  Types <- TState
  MaxV = 1
  MaxCand = 2
  MaxOps = 7
  WriteSets <- WSvals
  SameVersionChains = FALSE
  Backends <- BothBackends
  Points <- PointsDef
  TrackLineage <- TrueConst
  MaxAfter <- Two
VIEW cgenview
INVARIANTS EmitCrash CrashWellFormed
CHECK_DEADLOCK FALSE
