SPECIFICATION Spec
CONSTANTS
  Keys <- Keys3
  Vals <- V1
  SeekKeys <- NoSeek
  IterN = 1
  MaxOvl = 2
  MaxOps = 100
  Kinds <- KindsAllF
VIEW view
INVARIANTS Canonical
PROPERTIES StepLemmas
CHECK_DEADLOCK FALSE
