------------------------------ MODULE MkvsWire ------------------------------
(***************************************************************************)
(* C16 (storage wire formats): the hand-written decoders of                *)
(* go/storage/mkvs/node (node.UnmarshalBinary, LeafNode / InternalNode     *)
(* SizedUnmarshalBinary, Key.SizedUnmarshalBinary) as a parser over byte   *)
(* sequences, transcribing the order of the length checks.                 *)
(*                                                                         *)
(* Cases are generated from the grammar: valid encodings of small leaves   *)
(* and internal nodes (with/without embedded leaf, with/without child      *)
(* hashes), then one mutation: truncation at every position, every length  *)
(* field set to actual-1 / actual+1 / maximum, every prefix byte replaced, *)
(* trailing bytes appended.  Rule: the decoder terminates with accept or   *)
(* reject - never a panic, hang or allocation blow-up; accept/reject       *)
(* differences from this transcription are drift.                          *)
(***************************************************************************)
EXTENDS Integers, Sequences, FiniteSets, TLC, Json

HashSize == 32
U16(n) == <<n % 256, n \div 256>>
U32(n) == <<n % 256, (n \div 256) % 256, (n \div 65536) % 256, n \div 16777216>>
RU16(b, p) == b[p] + 256 * b[p + 1]                              \* 1-based position
RU32(b, p) == b[p] + 256 * b[p + 1] + 65536 * b[p + 2] + 16777216 * b[p + 3]

Rep(x, n) == [i \in 1..n |-> x]
EncLeaf(k, v) == <<0>> \o U16(Len(k)) \o k \o U32(Len(v)) \o v
Ceil8(bits) == (bits + 7) \div 8
EncInt(bits, lbl, leafEnc, l, r) == <<1>> \o U16(bits) \o lbl \o leafEnc \o l \o r

(* LeafNode.SizedUnmarshalBinary on b starting at 1-based offset o; returns [ok, size] *)
ParseLeaf(b, o) ==
    LET n == Len(b) - o + 1 IN       \* bytes available
    IF n < 1 + 2 + 4 \/ b[o] # 0 THEN [ok |-> FALSE, size |-> 0]
    ELSE LET klen == RU16(b, o + 1) IN
         IF (n - 1) < 2 + klen THEN [ok |-> FALSE, size |-> 0]
         ELSE LET pos == 1 + 2 + klen IN          \* bytes consumed so far
              IF pos + 4 > n THEN [ok |-> FALSE, size |-> 0]
              ELSE LET huge == b[o + pos + 3] >= 128          \* >= 2^31: beyond TLC's integers, and beyond any buffer here
                       vlen == IF huge THEN 0 ELSE RU32(b, o + pos) IN
                   IF huge \/ vlen > n - (pos + 4) THEN [ok |-> FALSE, size |-> 0]      \* (written without overflow)
                   ELSE [ok |-> TRUE, size |-> pos + 4 + vlen]

ParseInternal(b) ==
    LET n == Len(b) IN
    IF n < 1 + 2 + 1 \/ b[1] # 1 THEN FALSE
    ELSE LET bits == RU16(b, 2)
             ll == Ceil8(bits)
             pos == 3 + ll                      \* bytes consumed (0-based count)
         IN IF pos > n THEN FALSE               \* pos+labelLen > len(data)
            ELSE IF pos >= n THEN FALSE
            ELSE IF b[pos + 1] = 2 THEN TRUE    \* nil leaf; hashes optional; trailing bytes tolerated
            ELSE ParseLeaf(b, pos + 1).ok

ParseNode(b) ==
    IF Len(b) <= 1 THEN FALSE
    ELSE IF b[1] = 0 THEN (LET r == ParseLeaf(b, 1) IN r.ok)
    ELSE IF b[1] = 1 THEN ParseInternal(b)
    ELSE FALSE

-----------------------------------------------------------------------------
CONSTANTS KeysW, ValsW, LabelBits

Bases ==
       {[kind |-> "leaf", bytes |-> EncLeaf(k, v), fields |-> <<[name |-> "prefix", at |-> 1, w |-> 1], [name |-> "keylen", at |-> 2, w |-> 2],
                                                              [name |-> "vallen", at |-> 4 + Len(k), w |-> 4]>>] : k \in KeysW, v \in ValsW}
    \cup {[kind |-> "int_nil", bytes |-> EncInt(bits, Rep(170, Ceil8(bits)), <<2>>, Rep(17, HashSize), Rep(34, HashSize)),
           fields |-> <<[name |-> "prefix", at |-> 1, w |-> 1], [name |-> "labelbits", at |-> 2, w |-> 2], [name |-> "leafprefix", at |-> 4 + Ceil8(bits), w |-> 1]>>] : bits \in LabelBits}
    \cup {[kind |-> "int_leaf", bytes |-> EncInt(bits, Rep(170, Ceil8(bits)), EncLeaf(k, v), Rep(17, HashSize), Rep(34, HashSize)),
           fields |-> <<[name |-> "prefix", at |-> 1, w |-> 1], [name |-> "labelbits", at |-> 2, w |-> 2], [name |-> "leafprefix", at |-> 4 + Ceil8(bits), w |-> 1],
                        [name |-> "leafkeylen", at |-> 5 + Ceil8(bits), w |-> 2],
                        [name |-> "leafvallen", at |-> 7 + Ceil8(bits) + Len(k), w |-> 4]>>] : bits \in LabelBits, k \in KeysW, v \in ValsW}
    \cup {[kind |-> "int_compact", bytes |-> EncInt(bits, Rep(170, Ceil8(bits)), <<2>>, <<>>, <<>>),
           fields |-> <<[name |-> "prefix", at |-> 1, w |-> 1], [name |-> "labelbits", at |-> 2, w |-> 2]>>] : bits \in LabelBits}

SetField(b, f, val) ==
    LET enc == IF f.w = 1 THEN <<val % 256>> ELSE IF f.w = 2 THEN U16(val % 65536) ELSE U32(val) IN
    [i \in DOMAIN b |-> IF i >= f.at /\ i < f.at + f.w THEN enc[i - f.at + 1] ELSE b[i]]

FieldVal(b, f) == IF f.w = 1 THEN b[f.at] ELSE IF f.w = 2 THEN RU16(b, f.at) ELSE RU32(b, f.at)

Mutants(base) ==
       {[m |-> "none", bytes |-> base.bytes]}
    \cup {[m |-> "truncate", bytes |-> SubSeq(base.bytes, 1, n)] : n \in 0..(Len(base.bytes) - 1)}
    \cup {[m |-> "append", bytes |-> base.bytes \o t] : t \in {<<0>>, <<255, 255, 255>>}}
    \cup UNION {{[m |-> base.fields[i].name \o "=" \o ToString(v), bytes |-> SetField(base.bytes, base.fields[i], v)] :
                    v \in LET cur == FieldVal(base.bytes, base.fields[i]) IN
                          {cur + 1, IF cur > 0 THEN cur - 1 ELSE 3, 255, 65535} \cup (IF base.fields[i].w = 4 THEN {16777215, 2147483647} ELSE {2, 3})}
                : i \in DOMAIN base.fields}

(* 32-bit length fields at the top of the unsigned range (a sum "position + length" wraps around in 32-bit arithmetic): *)
(* 2^32-1-j for small j, 2^31, 2^32-2^24 - written as bytes, the values do not fit TLC's integers                      *)
RawU32Patterns == {<<255 - j, 255, 255, 255>> : j \in 0..40} \cup {<<0, 0, 0, 128>>, <<0, 0, 0, 255>>, <<1, 0, 0, 128>>}
SetRaw(b, f, enc) == [i \in DOMAIN b |-> IF i >= f.at /\ i < f.at + f.w THEN enc[i - f.at + 1] ELSE b[i]]
RawMutants(base) ==
    UNION {{[m |-> base.fields[i].name \o "=raw" \o ToString(enc), bytes |-> SetRaw(base.bytes, base.fields[i], enc)] : enc \in RawU32Patterns}
           : i \in {j \in DOMAIN base.fields : base.fields[j].w = 4}}

VARIABLES case, emitted
vars == <<case, emitted>>

Init == \E base \in Bases : \E mu \in Mutants(base) \cup RawMutants(base) :
            /\ case = [kind |-> base.kind, m |-> mu.m, bytes |-> mu.bytes, accept |-> ParseNode(mu.bytes)]
            /\ emitted = FALSE
Next == ~emitted /\ emitted' = TRUE /\ UNCHANGED case
Spec == Init /\ [][Next]_vars

EmitInv == emitted => PrintT(ToJson(case))

(* design-level sanity: every valid base encoding is accepted, every strict truncation of a leaf is rejected *)
BasesAccepted == \A base \in Bases : ParseNode(base.bytes)
LeafTruncationsRejected ==
    \A base \in {x \in Bases : x.kind = "leaf"} : \A n \in 0..(Len(base.bytes) - 1) : ~ParseNode(SubSeq(base.bytes, 1, n))
Sanity == BasesAccepted /\ LeafTruncationsRejected
=============================================================================
