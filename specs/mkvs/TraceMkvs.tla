------------------------------ MODULE TraceMkvs ------------------------------
(***************************************************************************)
(* C03 trace validation (code -> spec): an ndjson trace recorded by the    *)
(* seeded random driver `vh mkvs-trace` on real trees/overlays is accepted *)
(* iff every recorded answer is the ordered-map model's answer:            *)
(* RemoveExisting results, Get results, Seek/Next sequences and the full   *)
(* iteration after every operation.                                        *)
(***************************************************************************)
EXTENDS Mkvs

Trace == ndJsonDeserialize("trace.ndjson")

VARIABLE l
tvars == <<vars, l>>

IsEvent(e) == l <= Len(Trace) /\ Trace[l].ev = e /\ l' = l + 1

Empty == [tree |-> Nil, ctree |-> Nil, ovl |-> <<>>, fork |-> <<>>, cold |-> FALSE]

TraceInit == l = 1 /\ st = Empty /\ hist = <<>>

TrBegin == IsEvent("begin") /\ st' = Empty /\ UNCHANGED hist

(* observed full iteration: sequence of <<k, v>> *)
ObsView(e) == [i \in DOMAIN e.view |-> <<e.view[i][1], e.view[i][2]>>]

TrOp ==
    /\ IsEvent("op")
    /\ LET e  == Trace[l]
           op == Op(e.a, e.k, e.v)
           s2 == Step(st, op)
       IN  /\ "panic" \notin DOMAIN e
           /\ st' = s2
           /\ ObsView(e) = Pairs(Top(s2))
           \* the other object of an Overlay.Copy, while alive, reads as its own map
           /\ ("fview" \in DOMAIN e) = (s2.fork # <<>>)
           /\ ("fview" \in DOMAIN e => [i \in DOMAIN e.fview |-> <<e.fview[i][1], e.fview[i][2]>>] = Pairs(s2.fork.m))
           /\ (e.a = "remx" => (e.found = Ret(st, op).found /\ (e.found => e.prev = Ret(st, op).v)))
    /\ UNCHANGED hist

(* a read: Get *)
TrGet ==
    /\ IsEvent("get")
    /\ LET e == Trace[l] m == Top(st) IN
       /\ e.found = (e.k \in DOMAIN m)
       /\ (e.found => e.val = m[e.k])
    /\ UNCHANGED <<st, hist>>

(* a read: Seek(seek) followed by n x (Valid, Key, Value, Next) *)
TrIter ==
    /\ IsEvent("iter")
    /\ LET e  == Trace[l]
           ps == SelectSeq(Pairs(Top(st)), LAMBDA p : Le(e.seek, p[1]))
           n  == IF Len(ps) < e.n THEN Len(ps) ELSE e.n
       IN  [i \in DOMAIN e.items |-> <<e.items[i][1], e.items[i][2]>>] = SubSeq(ps, 1, n)
    /\ UNCHANGED <<st, hist>>

TraceNext == TrBegin \/ TrOp \/ TrGet \/ TrIter
TraceSpec == TraceInit /\ [][TraceNext]_tvars
TraceAccepted == TLCGet("stats").diameter - 1 = Len(Trace)
=============================================================================
