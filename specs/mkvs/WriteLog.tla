------------------------------ MODULE WriteLog ------------------------------
(***************************************************************************)
(* C13: the write log between two consecutive roots, and applying a        *)
(* received (possibly corrupted) write log against an expected root.       *)
(*                                                                         *)
(*   m1       contents under the first root r1                             *)
(*   batch    operations applied to a tree opened at r1, then committed    *)
(*            as r2 (contents m2)                                          *)
(*   Log      what the database should serve for (r1, r2): for every       *)
(*            touched key whose final state differs from "never existed    *)
(*            and ends removed": its final value, or a delete              *)
(*   Apply    ApplyWriteLog on a map                                       *)
(* Rule 1: a served log applied to m1 gives m2.                            *)
(* Rule 2: Apply(r1, expected r2, log') persists r2 iff Apply(m1, log')    *)
(*         = m2; otherwise it fails and r2 does not appear.                *)
(* (Equality of contents stands for equality of roots: C02.)               *)
(***************************************************************************)
EXTENDS Integers, Sequences, FiniteSets, SequencesExt, Json, TLC

CONSTANTS Keys, Vals, MaxBatch, M1s,  \* M1s: set of initial contents (functions)
          Prefix,                      \* operations every generated batch starts with (<<>> = none)
          Variants                     \* BOOLEAN: attach every single corruption of the log to the emitted case

VARIABLES m1, cur, touched, hist
vars == <<m1, cur, touched, hist>>

RECURSIVE Lt(_, _)
Lt(a, b) == IF b = <<>> THEN FALSE ELSE IF a = <<>> THEN TRUE
            ELSE IF a[1] < b[1] THEN TRUE ELSE IF a[1] > b[1] THEN FALSE ELSE Lt(Tail(a), Tail(b))

Put(m, k, v) == [x \in DOMAIN m \cup {k} |-> IF x = k THEN v ELSE m[x]]
Del(m, k) == [x \in DOMAIN m \ {k} |-> m[x]]
Pairs(m) == LET ks == SetToSortSeq(DOMAIN m, Lt) IN [i \in DOMAIN ks |-> <<ks[i], m[ks[i]]>>]

(* a log entry: [k, del, v] *)
Ins(k, v) == [k |-> k, del |-> FALSE, v |-> v]
Rm(k) == [k |-> k, del |-> TRUE, v |-> <<>>]

(* commit.go: skip entries that do not exist after the updates and did not exist before *)
LogSet(a, b, t) ==
    {Ins(k, b[k]) : k \in t \cap DOMAIN b} \cup {Rm(k) : k \in (t \ DOMAIN b) \cap DOMAIN a}

LogSeq(a, b, t) == SetToSortSeq(LogSet(a, b, t), LAMBDA x, y : Lt(x.k, y.k))

RECURSIVE Apply(_, _)
Apply(m, log) == IF log = <<>> THEN m
                 ELSE LET e == Head(log) IN Apply(IF e.del THEN Del(m, e.k) ELSE Put(m, e.k, e.v), Tail(log))

(* single corruptions of a log *)
Corruptions(log) ==
    LET n == Len(log) IN
       {[c |-> "drop", log |-> [j \in 1..(n - 1) |-> IF j < i THEN log[j] ELSE log[j + 1]]] : i \in 1..n}
    \cup {[c |-> "dup", log |-> Append(log, log[i])] : i \in 1..n}
    \cup {[c |-> "alter", log |-> [log EXCEPT ![i] = Ins(log[i].k, v)]] : i \in 1..n, v \in Vals}
    \cup {[c |-> "todelete", log |-> [log EXCEPT ![i] = Rm(log[i].k)]] : i \in 1..n}
    \cup {[c |-> "swap", log |-> [log EXCEPT ![i] = log[i + 1], ![i + 1] = log[i]]] : i \in 1..(n - 1)}
    \cup {[c |-> "extra", log |-> Append(log, e)] :
             e \in {Ins(k, v) : k \in Keys, v \in Vals} \cup {Rm(k) : k \in Keys}}

RECURSIVE Run(_, _)
Run(m, ops) == IF ops = <<>> THEN m
               ELSE Run(IF Head(ops).a = "ins" THEN Put(m, Head(ops).k, Head(ops).v) ELSE Del(m, Head(ops).k), Tail(ops))

Init == /\ m1 \in M1s /\ cur = Run(m1, Prefix) /\ touched = {Prefix[i].k : i \in DOMAIN Prefix} /\ hist = Prefix

Next ==
    /\ Len(hist) < MaxBatch
    /\ \E k \in Keys :
         \/ \E v \in Vals : /\ cur' = Put(cur, k, v)
                            /\ hist' = Append(hist, [a |-> "ins", k |-> k, v |-> v])
         \/ /\ cur' = Del(cur, k)
            /\ hist' = Append(hist, [a |-> "rem", k |-> k, v |-> <<>>])
    /\ touched' = touched \cup {hist'[Len(hist')].k}
    /\ UNCHANGED m1

Spec == Init /\ [][Next]_vars

LastOp == IF hist = <<>> THEN <<>> ELSE hist[Len(hist)]
genview == <<m1, cur, touched, LastOp>>
view == <<m1, cur, touched>>
(* every batch history (not only every distinct model state): the implementation keeps per-key state inside a batch - *)
(* the pending write-log entry with its "existed before the batch" flag - that the model's state does not show, so    *)
(* remove / re-insert / remove sequences on one key must be executed as such                                           *)
histview == <<m1, hist>>

Case ==
    LET log == LogSeq(m1, cur, touched) IN
    [m1 |-> Pairs(m1), ops |-> hist, m2 |-> Pairs(cur), log |-> log,
     variants |-> IF ~Variants THEN <<>>
                  ELSE LET cs == SetToSeq(Corruptions(log)) IN
                       [i \in DOMAIN cs |-> [c |-> cs[i].c, log |-> cs[i].log, accept |-> Apply(m1, cs[i].log) = cur]]]

EmitInv == (hist # <<>>) => PrintT(ToJson(Case))

-----------------------------------------------------------------------------
(* Design level: the coalesced log reproduces the transition (Rule 1 for   *)
(* the model's own Log), and the set of harmless corruptions is exactly    *)
(* those that yield m2.                                                    *)
LogCorrect == Apply(m1, LogSeq(m1, cur, touched)) = cur

(* any order of the coalesced log gives the same result (keys are unique)  *)
LogOrderFree ==
    LET log == LogSeq(m1, cur, touched) IN
    \A i \in 1..(Len(log) - 1) :
        Apply(m1, [log EXCEPT ![i] = log[i + 1], ![i + 1] = log[i]]) = cur

MinimalLog ==   \* dropping any entry of the coalesced log changes the result
    LET log == LogSeq(m1, cur, touched) IN
    \A i \in 1..Len(log) :
        LET d == [j \in 1..(Len(log) - 1) |-> IF j < i THEN log[j] ELSE log[j + 1]] IN
        (Apply(m1, d) = cur) => (log[i].del = FALSE /\ log[i].k \in DOMAIN m1 /\ m1[log[i].k] = log[i].v)
=============================================================================
