SPECIFICATION Spec
CONSTANTS
  Keys <- Keys3
  Vals <- V2
  SeekKeys <- Seek2
  IterN = 2
  MaxOvl = 2
  MaxOps = 6
  Kinds <- KindsFork
VIEW genview
INVARIANTS EmitInv
CHECK_DEADLOCK FALSE
