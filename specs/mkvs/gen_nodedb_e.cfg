SPECIFICATION Spec
CONSTANTS
  Keys <- NK2
  Vals <- NV1
  Types <- TBoth
  MaxV = 1
  MaxCand = 2
  MaxOps = 8
  WriteSets <- WSsmall
  SameVersionChains = FALSE
  TrackLineage <- TrueConst
VIEW genview
INVARIANTS EmitInv
CHECK_DEADLOCK FALSE
