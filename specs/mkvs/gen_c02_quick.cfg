SPECIFICATION Spec
CONSTANTS
  Keys <- Keys4
  Vals <- V2
  SeekKeys <- NoSeek
  IterN = 2
  MaxOvl = 0
  MaxOps = 8
  Kinds <- KindsTree
VIEW genview
INVARIANTS EmitInv
CHECK_DEADLOCK FALSE
