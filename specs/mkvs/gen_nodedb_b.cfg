SPECIFICATION Spec
CONSTANTS
  Keys <- NK2
  Vals <- NV1
  Types <- TBoth
  MaxV = 2
  MaxCand = 1
  MaxOps = 12
  WriteSets <- WSsmall
  SameVersionChains = FALSE
  TrackLineage <- TrueConst
VIEW genview
INVARIANTS EmitInv
CHECK_DEADLOCK FALSE
