--------------------------- MODULE MkvsProofRule ---------------------------
(***************************************************************************)
(* C04, the declarative side: what it means for an answer obtained from a  *)
(* Merkle proof (or through a remote-backed tree) to be true.              *)
(*                                                                         *)
(* Nothing here knows how proofs are built, verified or merged.  The only  *)
(* vocabulary is                                                           *)
(*   m          the real contents under the trusted root (a function from  *)
(*              keys to values; keys and values are byte tuples),          *)
(*   a lookup answer   [s |-> "val" | "absent" | "unk", v |-> value],      *)
(*   an iteration answer [items |-> <<<<k, v>>, ...>>, complete |-> BOOLEAN]*)
(*              ("complete" = the reader did not run into a part of the    *)
(*              tree it has no data for before it had what it asked for).  *)
(*                                                                         *)
(* Soundness  : whatever is accepted never contradicts m.                  *)
(* Completeness: an honest answer determines exactly what was asked.       *)
(* MkvsProof.tla checks that the transcribed builder/verifier satisfy      *)
(* these for all trees/queries/mutations in the bound; TraceProof.tla      *)
(* evaluates the very same operators on outcomes recorded from the real    *)
(* code.                                                                   *)
(***************************************************************************)
EXTENDS Integers, Sequences, FiniteSets, SequencesExt

Val(v) == [s |-> "val", v |-> v]
Absent == [s |-> "absent", v |-> <<>>]
Unk    == [s |-> "unk", v |-> <<>>]

(* byte-lexicographic order on byte tuples (bytes.Compare) *)
RECURSIVE BLt(_, _)
BLt(a, b) == IF b = <<>> THEN FALSE
             ELSE IF a = <<>> THEN TRUE
             ELSE IF a[1] < b[1] THEN TRUE
             ELSE IF a[1] > b[1] THEN FALSE
             ELSE BLt(Tail(a), Tail(b))
BLe(a, b) == a = b \/ BLt(a, b)

IsBytePrefix(p, k) == Len(p) <= Len(k) /\ SubSeq(k, 1, Len(p)) = p
IsSeqPrefix(a, b) == Len(a) <= Len(b) /\ SubSeq(b, 1, Len(a)) = a
Take(s, n) == SubSeq(s, 1, IF Len(s) < n THEN Len(s) ELSE n)

(* the truth *)
TrueAns(m, k) == IF k \in DOMAIN m THEN Val(m[k]) ELSE Absent
TruePairs(m) == LET ks == SetToSortSeq(DOMAIN m, BLt) IN [i \in DOMAIN ks |-> <<ks[i], m[ks[i]]>>]
TrueIter(m, seek) == SelectSeq(TruePairs(m), LAMBDA p : BLe(seek, p[1]))
TruePfx(m, pfx) == SelectSeq(TruePairs(m), LAMBDA p : IsBytePrefix(pfx, p[1]))

(* lookups *)
AnswerSound(m, k, a) == a.s = "unk" \/ a = TrueAns(m, k)
AnswerComplete(m, k, a) == a = TrueAns(m, k)

(* iteration from `seek` for at most n items *)
IterSound(m, seek, n, r) ==
    /\ Len(r.items) <= n
    /\ IsSeqPrefix(r.items, TrueIter(m, seek))
    /\ (r.complete => r.items = Take(TrueIter(m, seek), n))
IterComplete(m, seek, n, r) == r.complete /\ r.items = Take(TrueIter(m, seek), n)

(* all items under a prefix, at most n of them *)
PfxSound(m, pfx, n, r) ==
    /\ Len(r.items) <= n
    /\ IsSeqPrefix(r.items, TruePfx(m, pfx))
    /\ (r.complete => r.items = Take(TruePfx(m, pfx), n))
PfxComplete(m, pfx, n, r) == r.complete /\ r.items = Take(TruePfx(m, pfx), n)

(* the same for answers recorded without a bound on the number of items: r.items is everything the reader could
   derive before it ran into a part it has no data for (complete = it never did) *)
SeqSound(truth, r) == IsSeqPrefix(r.items, truth) /\ (r.complete => r.items = truth)
SeqDetermines(truth, n, r) == IsSeqPrefix(r.items, truth) /\ (Len(r.items) >= n \/ (r.complete /\ r.items = truth))

(* a write log extracted from a proof only contains real pairs *)
WriteLogSound(m, wl) == \A i \in DOMAIN wl : wl[i][1] \in DOMAIN m /\ m[wl[i][1]] = wl[i][2]

(* a reader behind an untrusted peer: the same answer as a full replica, or an error *)
RemoteSound(m, k, r) == r.err \/ r.a = TrueAns(m, k)
=============================================================================
