---------------------------- MODULE MCMkvsProof ----------------------------
EXTENDS MkvsProof

\* adversarial key universe: empty key, prefix chain a < ab < ab\x00, first-bit and last-bit neighbours
K_e   == <<>>
K_a   == <<97>>
K_ab  == <<97, 98>>
K_ab0 == <<97, 98, 0>>
K_ac  == <<97, 99>>
K_aa  == <<97, 97>>
K_b   == <<98>>
K_80  == <<128>>
K_0   == <<0>>
K_00  == <<0, 0>>

Keys3 == {K_e, K_a, K_ab}
Keys4 == {K_e, K_a, K_ab, K_80}
Keys5 == {K_e, K_a, K_ab, K_ac, K_80}
Keys6 == {K_e, K_0, K_a, K_ab, K_ac, K_80}

\* nested prefixes: keys under "a" before, inside and after the range of "ab"
KeysN == {K_a, K_aa, K_ab, K_ac, K_80}
QKN == KeysN \cup {K_b}
PfxN == {<<K_ab, K_a>>, <<K_a, K_ab>>, <<K_ab, K_e>>, <<K_ab, K_ab>>, <<K_aa, K_a, K_80>>}
OpsPfx == {"pfx"}
QK3 == Keys3 \cup {K_b}
QK4 == Keys4 \cup {K_ab0, K_b}
QK5 == Keys5 \cup {K_ab0, K_b, K_0}
QK6 == Keys6 \cup {K_ab0, K_b, K_00}

V1 == {<<1>>}
V2 == {<<>>, <<1>>}
MV2 == {<<>>, <<2>>}
MV3 == {<<>>, <<1>>, <<2>>}

SibBoth == {TRUE, FALSE}
SibOff  == {FALSE}
VBoth == {0, 1}

N01 == {0, 1}
N012 == {0, 1, 2}
N03 == {0, 3}

Pfx1 == {<<K_a>>}
Pfx2 == {<<K_a>>, <<K_e>>, <<K_ab, K_80>>}
Pfx3 == {<<K_a>>, <<K_e>>, <<K_ab, K_80>>, <<K_80, K_a>>, <<K_b>>}
Lim1 == {1, 10}
Lim3 == {0, 1, 2, 10}

\* contents of the trees the adversary splices from
OM(ks) == [k \in ks |-> <<1>>]
Other1 == {[k \in {K_a} |-> <<2>>]}
Other2 == {[k \in {K_a, K_ab} |-> <<2>>], OM({K_e, K_a, K_b})}
Other3 == Other2 \cup {[k \in {K_ab} |-> <<>>]}

Pats1 == {<<"c">>}
Pats3 == {<<"c">>, <<"h", "c">>, <<"c", "c">>}

OpsAll == {"get", "iter", "pfx"}
OpsGet == {"get"}
=============================================================================
