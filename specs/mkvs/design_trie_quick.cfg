SPECIFICATION Spec
CONSTANTS
  Keys <- Keys7
  Vals <- V2
  SeekKeys <- NoSeek
  IterN = 1
  MaxOvl = 0
  MaxOps = 100
  Kinds <- KindsTrie
VIEW view
INVARIANTS Canonical
CHECK_DEADLOCK FALSE
