SPECIFICATION Spec
CONSTANTS
  Keys <- Keys4
  Vals <- V1
  MaxKeys = 4
  QKeys <- QK4
  MutKeys <- Keys4
  MutVals <- MV2
  Sibs <- SibBoth
  Versions <- VBoth
  IterNs <- N01
  PfxSets <- Pfx2
  PfxLimits <- Lim1
  OtherMaps <- Other2
  RespPats <- Pats3
  MaxMut = 1
  OpKinds <- OpsAll
VIEW view
INVARIANTS Completeness Soundness Pruning RemoteRule RemoteHonest
CHECK_DEADLOCK FALSE
