SPECIFICATION Spec
CONSTANTS
  Keys <- WK2
  Vals <- WV
  MaxBatch = 6
  M1s <- M1Two
  Variants = FALSE
  Prefix <- TouchOther
VIEW histview
INVARIANTS EmitInv
CHECK_DEADLOCK FALSE
