SPECIFICATION CSpec
CONSTANTS
  Keys <- NK2
  Vals <- NV1
  Types <- TBoth
  MaxV = 2
  MaxCand = 1
  MaxOps = 9
  WriteSets <- WSsmall
  SameVersionChains = FALSE
  Backends <- BothBackends
  Points <- PointsDef
  TrackLineage <- TrueConst
VIEW cgenview
INVARIANTS EmitCrash CrashWellFormed
CHECK_DEADLOCK FALSE
