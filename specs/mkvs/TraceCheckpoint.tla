--------------------------- MODULE TraceCheckpoint ---------------------------
(***************************************************************************)
(* C12 verdict: ONLY the declarative rule, evaluated over what the real     *)
(* checkpoint creator / restorer / node databases were observed to do       *)
(* (trace.ndjson recorded by `vh ckpt-replay`).  No model of the chunkers   *)
(* or of the databases is consulted here; the bookkeeping below is the      *)
(* caller's own view: which chunks it handed over and what it was told.     *)
(*                                                                          *)
(* `bad` names the first clause a scenario breaks ("none" if it holds):     *)
(*   nondeterministic      creating the checkpoint again (same database,    *)
(*                         other backend, other version) gave other         *)
(*                         metadata or bytes                                *)
(*   valid-chunk-rejected  a chunk of the created list does not verify      *)
(*                         against the root / a genuine pending chunk is    *)
(*                         refused                                          *)
(*   incomplete            the union of the chunks is not the whole tree    *)
(*   corrupt-accepted      a chunk with altered bytes, digest or proof was  *)
(*                         accepted                                         *)
(*   done-early            completion reported although not every chunk     *)
(*                         went into the running multipart insert           *)
(*   finalize-failed       Finalize fails after a complete restore          *)
(*   start-failed          a restore cannot be (re)started                  *)
(*   finalized-unreadable / finalized-missing / finalized-unexpected        *)
(*                         the finalized root does not read back exactly /  *)
(*                         something is finalized that never completed      *)
(*   readable-wrong / finalized-wrong                                       *)
(*                         a root reads back without error with other       *)
(*                         contents                                         *)
(*   visible-unreadable    with no restore in progress the database claims  *)
(*                         a root (HasRoot / GetRootsForVersion) that does  *)
(*                         not read back (absent-or-exact)                  *)
(*   foreign-visible       a root of a rejected foreign chunk is visible    *)
(*   reopen-failed, panic                                                   *)
(* Every scenario ends with an `end` event at which its verdict is printed. *)
(* Strict mode (tracecheckpoint.cfg): invariant bad = "none".               *)
(***************************************************************************)
EXTENDS Integers, Sequences, FiniteSets, Json, TLC

Trace == ndJsonDeserialize("trace.ndjson")

VARIABLES l,        \* next event
          n,        \* number of chunks of the checkpoint
          act,      \* version of the multipart insert the caller has open (0 none)
          rsact,    \* the restorer has a manifest
          forged,   \* index whose digest the current manifest forges (0 none)
          pend,     \* chunks the caller has not yet seen accepted under the current manifest
          got,      \* chunks accepted since the multipart insert was started
          donev,    \* version for which completion was reported (0 none)
          fin,      \* latest version successfully finalized (-1 none)
          fins,     \* all versions finalized in this scenario
          stale,    \* the restore a gated (in-flight) call belongs to was aborted since the call was gated
          bad,      \* first broken clause of the scenario
          trips     \* every broken clause with the index of the event that broke it (a known breach must not mask a later one)
tvars == <<l, n, act, rsact, forged, pend, got, donev, fin, fins, stale, bad, trips>>

Rng(s) == {s[i] : i \in DOMAIN s}
All == 1..n
First(a, b) == IF a # "none" THEN a ELSE b
Panicked(e) == "panic" \in DOMAIN e
IsEvent(name) == l <= Len(Trace) /\ Trace[l].ev = name /\ l' = l + 1

(* absent-or-exact, finalized-exact, nothing foreign, nothing wrong: on every event that carries an observation *)
ObsBad(e, act2, fin2) ==
    IF ~e.obs THEN (IF e.latest # fin2 THEN "finalized-unexpected" ELSE "none")
    ELSE LET has == Rng(e.has) \cup Rng(e.listed)
             exact == Rng(e.exact)
             fs == IF fin2 = -1 THEN fins ELSE fins \cup {fin2}     \* every finalized version (none is ever pruned here)
         IN  IF fs \cap Rng(e.wrong) # {} THEN "finalized-wrong"
             ELSE IF Rng(e.wrong) # {} THEN "readable-wrong"
             ELSE IF e.foreign THEN "foreign-visible"
             ELSE IF e.latest # fin2 THEN "finalized-unexpected"
             ELSE IF fin2 # -1 /\ fin2 \notin has THEN "finalized-missing"
             ELSE IF \E v \in fs \cap has : v \notin exact THEN "finalized-unreadable"
             ELSE IF \E v \in has \ fs : v # act2 /\ v \notin exact THEN "visible-unreadable"
             ELSE "none"

Trip(name) == IF name = "none" THEN <<>> ELSE << <<l, name>> >>
Check(e, clause, act2, fin2) ==
    LET p == IF Panicked(e) THEN "panic" ELSE "none"
        o == ObsBad(e, act2, fin2)
    IN  /\ bad' = First(bad, First(p, First(clause, o)))
        /\ trips' = trips \o Trip(p) \o Trip(clause) \o Trip(o)

TraceInit == /\ l = 1 /\ n = 0 /\ act = 0 /\ rsact = FALSE /\ forged = 0 /\ pend = {} /\ got = {} /\ donev = 0 /\ fin = -1 /\ fins = {} /\ stale = FALSE
             /\ bad = "none" /\ trips = <<>>

TrBegin ==
    /\ IsEvent("begin")
    /\ LET e == Trace[l]
           c == IF ~e.det THEN "nondeterministic"
                ELSE IF ~e.verify THEN "valid-chunk-rejected"
                ELSE IF ~e.union THEN "incomplete"
                ELSE IF e.nchunks < 1 THEN "incomplete" ELSE "none"
       IN /\ n' = e.nchunks
          /\ bad' = c
          /\ trips' = Trip(c)
    /\ act' = 0 /\ rsact' = FALSE /\ forged' = 0 /\ pend' = {} /\ got' = {} /\ donev' = 0 /\ fin' = -1 /\ fins' = {} /\ stale' = FALSE

TrStart ==
    /\ IsEvent("start")
    /\ LET e == Trace[l]
           ok == e.mperr = "" /\ e.rserr = ""
       IN /\ act' = IF e.mperr = "" THEN e.v ELSE act
          /\ rsact' = (IF e.rserr = "" THEN TRUE ELSE rsact)
          /\ forged' = e.forged /\ pend' = All /\ got' = {} /\ donev' = 0
          /\ Check(e, IF ok THEN "none" ELSE "start-failed", act', fin)
    /\ UNCHANGED <<n, fin, fins, stale>>

TrStartRs ==
    /\ IsEvent("startrs")
    /\ LET e == Trace[l] IN
       /\ rsact' = (IF e.rserr = "" THEN TRUE ELSE rsact)
       /\ forged' = e.forged /\ pend' = All
       /\ Check(e, IF e.rserr = "" THEN "none" ELSE "start-failed", act, fin)
    /\ UNCHANGED <<n, act, got, donev, fin, fins, stale>>

(* outcome of handing genuine chunk i to RestoreChunk *)
Accepted(res) == res \in {"ok", "done"}
(* a call that was in flight when its restore was aborted is told "no restore in progress" even if a new restore *)
(* has been started since: its chunk was verified against the aborted manifest (st)                            *)
GenuineClause(i, res, st) ==
    IF Accepted(res) THEN (IF res = "done" /\ (got \cup {i}) # All THEN "done-early" ELSE "none")
    ELSE IF res = "norestore" THEN (IF rsact /\ ~st THEN "valid-chunk-rejected" ELSE "none")
    ELSE IF res = "already" THEN (IF rsact /\ i \in pend THEN "valid-chunk-rejected" ELSE "none")
    ELSE IF res = "notfound" THEN (IF i \in All THEN "valid-chunk-rejected" ELSE "none")
    ELSE IF res = "corrupted" /\ i = forged THEN "none"      \* the manifest lists another digest for this index
    ELSE "valid-chunk-rejected"

Genuine(e, i, res, st) ==
    /\ got' = IF Accepted(res) THEN got \cup {i} ELSE got
    /\ pend' = IF Accepted(res) THEN pend \ {i} ELSE pend
    /\ rsact' = IF res \in {"done", "prooffail"} THEN FALSE ELSE rsact
    /\ donev' = IF res = "done" THEN act ELSE donev
    /\ Check(e, GenuineClause(i, res, st), act, fin)
    /\ stale' = FALSE
    /\ UNCHANGED <<n, act, forged, fin, fins>>

TrChunk == /\ IsEvent("chunk") /\ Genuine(Trace[l], Trace[l].i, Trace[l].res, FALSE)
TrRelease == /\ IsEvent("release") /\ Genuine(Trace[l], Trace[l].i, Trace[l].res, stale)

TrBad ==
    /\ IsEvent("bad")
    /\ LET e == Trace[l] IN
       /\ rsact' = IF e.res \in {"prooffail", "done"} THEN FALSE ELSE rsact
       /\ got' = IF Accepted(e.res) THEN got \cup {e.i} ELSE got
       /\ pend' = IF Accepted(e.res) THEN pend \ {e.i} ELSE pend
       /\ donev' = IF e.res = "done" THEN act ELSE donev
       \* (other bytes that decode to exactly the genuine proof entries - the snappy encoding is not unique - are the same chunk)
       /\ Check(e, IF Accepted(e.res) /\ ~e.genuine /\ ~e.same THEN "corrupt-accepted"
                   ELSE IF e.res = "done" /\ (got \cup {e.i}) # All THEN "done-early" ELSE "none", act, fin)
       /\ stale' = (stale \/ e.res = "prooffail")
    /\ UNCHANGED <<n, act, forged, fin, fins>>

TrPar ==
    /\ IsEvent("par")
    /\ LET e == Trace[l]
           is == Rng(e.is)
           rr == Rng(e.res)
       IN /\ got' = got \cup is
          /\ pend' = pend \ is
          /\ rsact' = IF "done" \in rr THEN FALSE ELSE rsact
          /\ donev' = IF "done" \in rr THEN act ELSE donev
          /\ Check(e, IF ~(rr \subseteq {"ok", "done", "already"}) THEN "valid-chunk-rejected"
                      ELSE IF "done" \in rr /\ (got \cup is) # All THEN "done-early"
                      ELSE IF (pend \ is) = {} /\ "done" \notin rr THEN "valid-chunk-rejected"
                      ELSE "none", act, fin)
    /\ UNCHANGED <<n, act, forged, fin, fins, stale>>

TrGate == /\ IsEvent("gate")
          /\ Check(Trace[l], "none", act, fin)
          /\ stale' = FALSE
          /\ UNCHANGED <<n, act, rsact, forged, pend, got, donev, fin, fins>>

TrAbortRs == /\ IsEvent("abortrs")
             /\ rsact' = FALSE /\ pend' = {}
             /\ Check(Trace[l], "none", act, fin)
             /\ stale' = TRUE
             /\ UNCHANGED <<n, act, forged, got, donev, fin, fins>>

TrAbort == /\ IsEvent("abort")
           /\ act' = 0 /\ rsact' = FALSE /\ pend' = {} /\ got' = {} /\ donev' = 0 /\ forged' = 0
           /\ Check(Trace[l], "none", 0, fin)
           /\ stale' = TRUE      \* (a caller held after its chunk commit belongs to the restore that has just been aborted)
           /\ UNCHANGED <<n, fin, fins>>

(* the process died inside an operation and the database was reopened: an interrupted Finalize may or may not have taken effect *)
TrCrash ==
    /\ IsEvent("crash")
    /\ LET e == Trace[l]
           fin2 == IF e.reopen = "" /\ e.op = "finalize" /\ e.latest = e.v /\ donev = e.v THEN e.v ELSE fin
       IN /\ fin' = fin2
          /\ fins' = IF fin2 = -1 THEN fins ELSE fins \cup {fin2}
          /\ Check(e, IF e.reopen # "" THEN "reopen-failed" ELSE "none", 0, fin2)
    /\ act' = 0 /\ rsact' = FALSE /\ pend' = {} /\ got' = {} /\ donev' = 0 /\ forged' = 0
    /\ UNCHANGED <<n, stale>>

TrFinalize ==
    /\ IsEvent("finalize")
    /\ LET e == Trace[l]
           ok == e.err = ""
       IN /\ fin' = IF ok THEN e.v ELSE fin
          /\ fins' = IF ok THEN fins \cup {e.v} ELSE fins
          /\ act' = IF ok THEN 0 ELSE act
          /\ Check(e, IF ~ok /\ donev = e.v THEN "finalize-failed" ELSE "none", act', fin')
    /\ UNCHANGED <<n, rsact, forged, pend, got, donev, stale>>

TrEnd ==
    /\ IsEvent("end")
    /\ PrintT(ToJson([id |-> Trace[l].id, bad |-> bad, trips |-> trips]))
    /\ UNCHANGED <<n, act, rsact, forged, pend, got, donev, fin, fins, stale, bad, trips>>

TraceNext == TrBegin \/ TrStart \/ TrStartRs \/ TrChunk \/ TrRelease \/ TrBad \/ TrPar \/ TrGate \/ TrAbortRs \/ TrAbort
             \/ TrCrash \/ TrFinalize \/ TrEnd

TraceSpec == TraceInit /\ [][TraceNext]_tvars

RuleHolds == bad = "none"

TraceAccepted == TLCGet("stats").diameter - 1 = Len(Trace)
=============================================================================
