package main

// Consensus replica family (C01, C05, C08, C09, C10, C14, C17): a network of real ABCI multiplexers with all production
// applications registered as go/consensus/cometbft/full/common.go does, driven in-process.

import (
	"bytes"
	"context"
	"crypto/sha256"
	"encoding/json"
	"fmt"
	"io"
	"math/rand"
	"net"
	"os"
	"path/filepath"
	"sort"
	"sync"
	"sync/atomic"
	"time"

	cmtabci "github.com/cometbft/cometbft/abci/types"
	cmtcrypto "github.com/cometbft/cometbft/crypto"
	cmtproto "github.com/cometbft/cometbft/proto/tendermint/types"
	cmttypes "github.com/cometbft/cometbft/types"
	"github.com/spf13/viper"

	beacon "github.com/oasisprotocol/oasis-core/go/beacon/api"
	"github.com/oasisprotocol/oasis-core/go/common"
	"github.com/oasisprotocol/oasis-core/go/common/cbor"
	"github.com/oasisprotocol/oasis-core/go/common/crypto/hash"
	"github.com/oasisprotocol/oasis-core/go/common/crypto/signature"
	memorySigner "github.com/oasisprotocol/oasis-core/go/common/crypto/signature/signers/memory"
	"github.com/oasisprotocol/oasis-core/go/common/entity"
	"github.com/oasisprotocol/oasis-core/go/common/identity"
	"github.com/oasisprotocol/oasis-core/go/common/node"
	"github.com/oasisprotocol/oasis-core/go/common/quantity"
	"github.com/oasisprotocol/oasis-core/go/common/version"
	"github.com/oasisprotocol/oasis-core/go/consensus/api/transaction"
	"github.com/oasisprotocol/oasis-core/go/consensus/cometbft/abci"
	cmtapi "github.com/oasisprotocol/oasis-core/go/consensus/cometbft/api"
	beaconApp "github.com/oasisprotocol/oasis-core/go/consensus/cometbft/apps/beacon"
	governanceApp "github.com/oasisprotocol/oasis-core/go/consensus/cometbft/apps/governance"
	keymanagerApp "github.com/oasisprotocol/oasis-core/go/consensus/cometbft/apps/keymanager"
	registryApp "github.com/oasisprotocol/oasis-core/go/consensus/cometbft/apps/registry"
	roothashApp "github.com/oasisprotocol/oasis-core/go/consensus/cometbft/apps/roothash"
	schedulerApp "github.com/oasisprotocol/oasis-core/go/consensus/cometbft/apps/scheduler"
	stakingApp "github.com/oasisprotocol/oasis-core/go/consensus/cometbft/apps/staking"
	"github.com/oasisprotocol/oasis-core/go/consensus/cometbft/apps/supplementarysanity"
	vaultApp "github.com/oasisprotocol/oasis-core/go/consensus/cometbft/apps/vault"
	tmbeacon "github.com/oasisprotocol/oasis-core/go/consensus/cometbft/beacon"
	tmcrypto "github.com/oasisprotocol/oasis-core/go/consensus/cometbft/crypto"
	consensusGenesis "github.com/oasisprotocol/oasis-core/go/consensus/genesis"
	genesis "github.com/oasisprotocol/oasis-core/go/genesis/api"
	governance "github.com/oasisprotocol/oasis-core/go/governance/api"
	registry "github.com/oasisprotocol/oasis-core/go/registry/api"
	roothash "github.com/oasisprotocol/oasis-core/go/roothash/api"
	"github.com/oasisprotocol/oasis-core/go/roothash/api/commitment"
	scheduler "github.com/oasisprotocol/oasis-core/go/scheduler/api"
	staking "github.com/oasisprotocol/oasis-core/go/staking/api"
	"github.com/oasisprotocol/oasis-core/go/storage/mkvs"
	vault "github.com/oasisprotocol/oasis-core/go/vault/api"
)

type cnCfg struct {
	Validators    int    `json:"validators"`
	Users         int    `json:"users"`
	EpochInterval int64  `json:"epoch_interval"`
	Seed          int64  `json:"seed"`
	ChainID       string `json:"chain_id"`
	MaxValidators int    `json:"max_validators"`
	MaxPerEntity  int    `json:"max_per_entity"`
	ExtraNodes    int    `json:"extra_nodes"`  // entity 0 runs this many additional validator nodes
	ComputeOnly   int    `json:"compute_only"` // further nodes without the validator role, spread over the entities; not in the genesis: they register once a runtime exists
	TiedStake     bool   `json:"tied_stake"`   // every validator entity starts with the same escrow
	TinyStake     bool   `json:"tiny_stake"`   // thresholds of 1-2 base units, escrows at / just below / just above them and around one voting-power unit
	Debond        int64  `json:"debond"`       // staking DebondingInterval
	MinTransact   int64  `json:"min_transact"` // staking MinTransactBalance
	VRF           bool   `json:"vrf"`          // VRF beacon backend (the production one) instead of the insecure test backend
	VRFThreshold  uint64 `json:"vrf_threshold"`
	Feature261    bool   `json:"feature_261"` // consensus feature version 26.1 (runtime owner index kept per owner, VRF key change resets election eligibility, ...)
}

type cnValidator struct {
	ident     *identity.Identity
	ent       *entity.Entity
	entSigner signature.Signer
	entAddr   staking.Address
	consAddr  []byte // CometBFT validator address
	consPub   cmtcrypto.PubKey
	name      string
	rot       map[string]signature.Signer // current rotatable keys: p2p, vrf, tls
}

type cnUser struct {
	signer signature.Signer
	addr   staking.Address
	name   string
}

type cnNet struct {
	cfg          cnCfg
	doc          *genesis.Document
	docJSON      []byte
	chainCtx     string
	vals         []*cnValidator
	users        []*cnUser
	scratch      string
	names        map[string]string                         // address / key -> short name
	pendingRot   map[*cnTxSpec]map[string]signature.Signer // key rotations proposed by not yet executed registrations
	rhPrev       map[string]hash.Hash                      // runtime -> encoded hash of its latest block (for commitments)
	vrfAlpha     []byte                                    // VRF backend: the alpha proofs are currently collected for
	vrfPrevAlpha []byte                                    // the alpha of the epoch before
	noRtMsgs     bool                                      // no messages emitted by runtimes
	statRtMsgs   int                                       // messages carried by the scheduler commitments built so far
	vaultAddr    map[string]staking.Address                // vault name (V0, V1, ...) -> address, in order of appearance in the state
}

func q(n uint64) quantity.Quantity { return *quantity.NewFromUint64(n) }

// cnNoNotify stands for the node's executor-commitment notifier (the roothash application hands commitments seen at mempool
// check to it; a full node always provides one).
type cnNoNotify struct{}

func (cnNoNotify) DeliverExecutorCommitment(common.Namespace, *commitment.ExecutorCommitment) {}

// detRand is a deterministic reader for key generation.
type detRand struct{ r *rand.Rand }

func (d detRand) Read(p []byte) (int, error) { return d.r.Read(p) }

// detFactory generates keys from the scenario's seeded generator whatever source the caller passes (identity.LoadOrGenerate
// passes crypto/rand): a seed then fixes every key, and with it every address order, election and shuffle of the scenario.
type detFactory struct {
	signature.SignerFactory
	rng *rand.Rand
}

func (f detFactory) Generate(role signature.SignerRole, _ io.Reader) (signature.Signer, error) {
	return f.SignerFactory.Generate(role, detRand{f.rng})
}

func stakeThresholds(cfg cnCfg) map[staking.ThresholdKind]quantity.Quantity {
	if cfg.TinyStake {
		return map[staking.ThresholdKind]quantity.Quantity{
			staking.KindEntity: q(1), staking.KindNodeValidator: q(2), staking.KindNodeCompute: q(1), staking.KindNodeObserver: q(1),
			staking.KindNodeKeyManager: q(2), staking.KindRuntimeCompute: q(2), staking.KindRuntimeKeyManager: q(2), staking.KindKeyManagerChurp: q(2),
		}
	}
	return map[staking.ThresholdKind]quantity.Quantity{
		staking.KindEntity:            q(10),
		staking.KindNodeValidator:     q(20),
		staking.KindNodeCompute:       q(30),
		staking.KindNodeObserver:      q(5),
		staking.KindNodeKeyManager:    q(50),
		staking.KindRuntimeCompute:    q(60),
		staking.KindRuntimeKeyManager: q(70),
		staking.KindKeyManagerChurp:   q(80),
	}
}

func beaconParams(cfg cnCfg) beacon.ConsensusParameters {
	if cfg.VRF {
		return beacon.ConsensusParameters{
			Backend: beacon.BackendVRF,
			VRFParameters: &beacon.VRFParameters{AlphaHighQualityThreshold: cfg.VRFThreshold, Interval: cfg.EpochInterval, ProofSubmissionDelay: 1,
				GasCosts: transaction.Costs{beacon.GasOpVRFProve: 10}},
		}
	}
	return beacon.ConsensusParameters{Backend: beacon.BackendInsecure, InsecureParameters: &beacon.InsecureParameters{Interval: cfg.EpochInterval}}
}

func newNet(cfg cnCfg, scratch string) (*cnNet, error) {
	viper.Set("debug.dont_blame_oasis", true)
	viper.Set("debug.allow_test_keys", true)
	n := &cnNet{cfg: cfg, scratch: scratch, vaultAddr: map[string]staking.Address{}, names: map[string]string{}, pendingRot: map[*cnTxSpec]map[string]signature.Signer{}, rhPrev: map[string]hash.Hash{}}
	rng := rand.New(rand.NewSource(cfg.Seed*7919 + 17))
	fac := memorySigner.NewFactory()
	mk := func(role signature.SignerRole) signature.Signer {
		s, err := fac.Generate(role, detRand{rng})
		if err != nil {
			panic(err)
		}
		return s
	}
	nNodes := cfg.Validators + cfg.ExtraNodes + cfg.ComputeOnly
	for i := 0; i < nNodes; i++ {
		dir := filepath.Join(scratch, fmt.Sprintf("id-%d", i))
		if err := os.MkdirAll(dir, 0o700); err != nil {
			return nil, err
		}
		ident, err := identity.LoadOrGenerate(dir, detFactory{memorySigner.NewFactory(), rng})
		if err != nil {
			return nil, fmt.Errorf("identity: %w", err)
		}
		v := &cnValidator{ident: ident, name: fmt.Sprintf("N%d", i)}
		// (the TLS key of the identity comes from certificate generation with crypto/rand: registrations use a seeded one)
		v.rot = map[string]signature.Signer{"p2p": ident.P2PSigner, "vrf": ident.VRFSigner, "tls": mk(signature.SignerNode)}
		if i < cfg.Validators {
			v.entSigner = mk(signature.SignerEntity)
			v.ent = &entity.Entity{Versioned: cbor.NewVersioned(entity.LatestDescriptorVersion), ID: v.entSigner.Public()}
		} else {
			// extra nodes belong to entity 0, compute-only nodes to the entities in turn
			ei := n.entIndex(i)
			v.entSigner, v.ent = n.vals[ei].entSigner, n.vals[ei].ent
		}
		v.ent.Nodes = append(v.ent.Nodes, ident.NodeSigner.Public())
		v.entAddr = staking.NewAddress(v.ent.ID)
		v.consPub = tmcrypto.PublicKeyToCometBFT(ptr(ident.ConsensusSigner.Public()))
		v.consAddr = v.consPub.Address()
		n.vals = append(n.vals, v)
		n.names[v.entAddr.String()] = fmt.Sprintf("E%d", n.entIndex(i))
		n.names[ident.NodeSigner.Public().String()] = v.name
		n.names[staking.NewAddress(ident.NodeSigner.Public()).String()] = v.name
		n.names[staking.NewAddress(ident.ConsensusSigner.Public()).String()] = v.name + ".c"
	}
	for i := 0; i < cfg.Validators; i++ {
		n.names[n.vals[i].entAddr.String()] = fmt.Sprintf("E%d", i)
	}
	// every entity also authorises the node of the next entity (its node list is a whitelist): a node changing hands is then
	// refused or allowed by the registry's update rules, not for lack of the entity's consent
	for i := 0; i < cfg.Validators && cfg.Validators > 1; i++ {
		n.vals[i].ent.Nodes = append(n.vals[i].ent.Nodes, n.vals[(i+1)%cfg.Validators].ident.NodeSigner.Public())
	}
	for i := 0; i < cfg.Users; i++ {
		s := mk(signature.SignerEntity)
		u := &cnUser{signer: s, addr: staking.NewAddress(s.Public()), name: fmt.Sprintf("U%d", i)}
		n.users = append(n.users, u)
		n.names[u.addr.String()] = u.name
	}
	for _, r := range []string{"0", "1"} {
		n.names[staking.NewRuntimeAddress(runtimeID("R"+r)).String()] = "RA" + r
	}
	if err := n.buildGenesis(); err != nil {
		return nil, err
	}
	return n, nil
}

// entIndex is the index of the entity that runs node i.
func (n *cnNet) entIndex(i int) int {
	switch {
	case i < n.cfg.Validators:
		return i
	case i < n.cfg.Validators+n.cfg.ExtraNodes:
		return 0
	default:
		return i % n.cfg.Validators
	}
}

// computeOnly: node i never carries the validator role.
func (n *cnNet) computeOnly(i int) bool { return i >= n.cfg.Validators+n.cfg.ExtraNodes }

func featureVersion(cfg cnCfg) *version.Version {
	if cfg.Feature261 {
		return &version.Version{Major: 26, Minor: 1}
	}
	return nil
}

func btoi(b bool) int {
	if b {
		return 1
	}
	return 0
}

func ptr[T any](v T) *T { return &v }

func (n *cnNet) buildGenesis() error {
	cfg := n.cfg
	genesisTime := time.Unix(1_700_000_000, 0).UTC()
	stk := staking.Genesis{
		Parameters: staking.ConsensusParameters{
			DebondingInterval: beacon.EpochTime(cfg.Debond),
			Thresholds:        stakeThresholds(cfg),
			Slashing: map[staking.SlashReason]staking.Slash{
				staking.SlashConsensusEquivocation: {Amount: q(40), FreezeInterval: 1},
			},
			GasCosts: transaction.Costs{
				staking.GasOpTransfer: 10, staking.GasOpBurn: 10, staking.GasOpAddEscrow: 10, staking.GasOpReclaimEscrow: 10,
				staking.GasOpAmendCommissionSchedule: 10, staking.GasOpAllow: 10, staking.GasOpWithdraw: 10,
			},
			MinDelegationAmount:               q(5),
			MinTransferAmount:                 q(1),
			MinTransactBalance:                q(uint64(cfg.MinTransact)),
			MaxAllowances:                     8,
			FeeSplitWeightPropose:             q(2),
			FeeSplitWeightVote:                q(1),
			FeeSplitWeightNextPropose:         q(1),
			RewardFactorEpochSigned:           q(1),
			RewardFactorBlockProposed:         q(1),
			SigningRewardThresholdNumerator:   1,
			SigningRewardThresholdDenominator: 2,
			RewardSchedule: []staking.RewardStep{
				{Until: 1000, Scale: q(2_000_000)}, // 2% per epoch (RewardAmountDenominator = 10^8)
			},
			CommissionScheduleRules: staking.CommissionScheduleRules{
				RateChangeInterval: 1, RateBoundLead: 2, MaxRateSteps: 4, MaxBoundSteps: 4, MinCommissionRate: q(0),
			},
		},
		TokenSymbol: "VRF",
		Ledger:      map[staking.Address]*staking.Account{},
		Delegations: map[staking.Address]map[staking.Address]*staking.Delegation{},
		CommonPool:  q(1_500),
	}
	total := uint64(1_500)
	for i := 0; i < cfg.Validators; i++ {
		v := n.vals[i]
		self := uint64(200 + 60*i)
		if cfg.TiedStake {
			self = 320
		}
		if cfg.TinyStake {
			self = []uint64{3, 15, 17, 33, 16}[i%5]
		}
		stk.Ledger[v.entAddr] = &staking.Account{
			General: staking.GeneralAccount{Balance: q(1_000)},
			Escrow: staking.EscrowAccount{
				Active: staking.SharePool{Balance: q(self), TotalShares: q(self)},
				CommissionSchedule: staking.CommissionSchedule{
					Rates:  []staking.CommissionRateStep{{Start: 0, Rate: q(uint64(10_000 * (i % 3)))}},
					Bounds: []staking.CommissionRateBoundStep{{Start: 0, RateMin: q(0), RateMax: q(100_000)}},
				},
			},
		}
		stk.Delegations[v.entAddr] = map[staking.Address]*staking.Delegation{v.entAddr: {Shares: q(self)}}
		total += 1_000 + self
	}
	if cfg.MinTransact > 0 {
		// node accounts sign their own (re-)registrations: they need the minimum balance an account must keep to transact
		for _, v := range n.vals {
			stk.Ledger[staking.NewAddress(v.ident.NodeSigner.Public())] = &staking.Account{General: staking.GeneralAccount{Balance: q(uint64(cfg.MinTransact) + 20)}}
			total += uint64(cfg.MinTransact) + 20
		}
	}
	for _, u := range n.users {
		stk.Ledger[u.addr] = &staking.Account{General: staking.GeneralAccount{Balance: q(2_000)}}
		total += 2_000
	}
	stk.TotalSupply = q(total)

	doc := &genesis.Document{
		Height:  1,
		ChainID: cfg.ChainID,
		Time:    genesisTime,
		Beacon:  beacon.Genesis{Parameters: beaconParams(cfg)},
		Registry: registry.Genesis{
			Parameters: registry.ConsensusParameters{
				DebugAllowUnroutableAddresses: true,
				DebugAllowTestRuntimes:        true,
				DebugDeployImmediately:        true,
				MaxNodeExpiration:             4,
				GasCosts: transaction.Costs{
					registry.GasOpRegisterEntity: 10, registry.GasOpDeregisterEntity: 10, registry.GasOpRegisterNode: 10,
					registry.GasOpUnfreezeNode: 10, registry.GasOpRegisterRuntime: 10, registry.GasOpRuntimeEpochMaintenance: 10,
					registry.GasOpProveFreshness: 10,
				},
				EnableRuntimeGovernanceModels: map[registry.RuntimeGovernanceModel]bool{
					registry.GovernanceEntity: true, registry.GovernanceRuntime: true,
				},
			},
		},
		Scheduler: scheduler.Genesis{
			Parameters: scheduler.ConsensusParameters{
				MinValidators:          1,
				MaxValidators:          cfg.MaxValidators,
				MaxValidatorsPerEntity: cfg.MaxPerEntity,
			},
		},
		Governance: governance.Genesis{
			Parameters: governance.ConsensusParameters{
				GasCosts:                       transaction.Costs{governance.GasOpSubmitProposal: 10, governance.GasOpCastVote: 10},
				StakeThreshold:                 68,
				UpgradeCancelMinEpochDiff:      3,
				UpgradeMinEpochDiff:            3,
				VotingPeriod:                   2,
				MinProposalDeposit:             q(100),
				EnableChangeParametersProposal: true,
				AllowVoteWithoutEntity:         cfg.Seed%2 == 1, // delegators without an entity may vote in every second scenario
			},
		},
		RootHash: roothash.Genesis{
			Parameters: roothash.ConsensusParameters{
				DebugDoNotSuspendRuntimes: true,
				MaxRuntimeMessages:        32,
				MaxInRuntimeMessages:      32,
				GasCosts: transaction.Costs{
					roothash.GasOpComputeCommit: 10, roothash.GasOpProposerTimeout: 10, roothash.GasOpEvidence: 10, roothash.GasOpSubmitMsg: 10,
				},
			},
		},
		Consensus: consensusGenesis.Genesis{
			Backend: cmtapi.BackendName,
			Parameters: consensusGenesis.Parameters{
				StateCheckpointInterval:  10,
				StateCheckpointNumKept:   2,
				StateCheckpointChunkSize: 1024,
				TimeoutCommit:            time.Millisecond,
				SkipTimeoutCommit:        true,
				MaxBlockSize:             21 * 1024 * 1024,
				MaxEvidenceSize:          1024 * 1024,
				MaxTxSize:                32768,
				GasCosts:                 transaction.Costs{consensusGenesis.GasOpTxByte: 1},
				FeatureVersion:           featureVersion(cfg),
			},
		},
		Staking: stk,
		Vault:   &vault.Genesis{Parameters: vault.DefaultConsensusParameters},
	}
	// registry: entities and validator nodes
	for i := 0; i < cfg.Validators; i++ {
		v := n.vals[i]
		se, err := entity.SignEntity(v.entSigner, registry.RegisterGenesisEntitySignatureContext, v.ent)
		if err != nil {
			return err
		}
		doc.Registry.Entities = append(doc.Registry.Entities, se)
	}
	for i, v := range n.vals {
		if n.computeOnly(i) {
			continue
		}
		nd, err := n.nodeDescriptor(i, 3, nil)
		if err != nil {
			return err
		}
		sn, err := n.signNode(v, nd, registry.RegisterGenesisNodeSignatureContext)
		if err != nil {
			return err
		}
		doc.Registry.Nodes = append(doc.Registry.Nodes, sn)
	}
	if err := doc.SanityCheck(); err != nil {
		return fmt.Errorf("genesis sanity check: %w", err)
	}
	n.doc = doc
	n.chainCtx = doc.ChainContext()
	var err error
	if n.docJSON, err = json.Marshal(doc); err != nil {
		return err
	}
	signature.UnsafeResetChainContext()
	signature.SetChainContext(n.chainCtx)
	return nil
}

func (n *cnNet) nodeDescriptor(i int, expiration uint64, mod func(*node.Node)) (*node.Node, error) {
	v := n.vals[i]
	var consensusAddr, p2pAddr node.Address
	if err := consensusAddr.FromIP(net.ParseIP("127.0.0.1"), uint16(9000+i)); err != nil {
		return nil, err
	}
	if err := p2pAddr.FromIP(net.ParseIP("127.0.0.1"), uint16(9500+i)); err != nil {
		return nil, err
	}
	nd := &node.Node{
		Versioned:  cbor.NewVersioned(node.LatestNodeDescriptorVersion),
		ID:         v.ident.NodeSigner.Public(),
		EntityID:   v.ent.ID,
		Expiration: beacon.EpochTime(expiration),
		TLS:        node.TLSInfo{PubKey: v.rot["tls"].Public()},
		P2P:        node.P2PInfo{ID: v.rot["p2p"].Public(), Addresses: []node.Address{p2pAddr}},
		Consensus: node.ConsensusInfo{
			ID:        v.ident.ConsensusSigner.Public(),
			Addresses: []node.ConsensusAddress{{ID: v.ident.ConsensusSigner.Public(), Address: consensusAddr}},
		},
		VRF:   node.VRFInfo{ID: v.rot["vrf"].Public()},
		Roles: node.RoleValidator,
	}
	if n.computeOnly(i) {
		nd.Roles = 0
	}
	if mod != nil {
		mod(nd)
	}
	return nd, nil
}

func (n *cnNet) signNode(v *cnValidator, nd *node.Node, ctx signature.Context) (*node.MultiSignedNode, error) {
	signers := []signature.Signer{v.ident.NodeSigner, v.rot["p2p"], v.ident.ConsensusSigner, v.rot["vrf"], v.rot["tls"]}
	return node.MultiSignNode(signers, ctx, nd)
}

// ---------------------------------------------------------------------------------------------------------------
// replica

type cnReplicaCfg struct {
	Backend     string // badger | pathbadger
	OnDisk      bool
	Identity    int // index of the validator identity this replica runs with
	KeepN       uint64
	Probes      bool
	Sanity      bool
	MinGas      uint64
	Checkpoints bool // run the checkpointer (state-sync source)
	NoInit      bool // no InitChain on an empty database (state-sync target)
}

type cnReplica struct {
	net        *cnNet
	cfg        cnReplicaCfg
	dir        string
	srv        *abci.ApplicationServer
	mux        cmtabci.Application
	staking    *stakingApp.Application
	initVals   []string
	concurrent bool
	bgTxs      [][]byte
	bgCalls    int
	probes     *cnProbes
	name       string
	ctx        context.Context
	cancel     context.CancelFunc
}

func (n *cnNet) newReplica(name string, cfg cnReplicaCfg) (*cnReplica, error) {
	r := &cnReplica{net: n, cfg: cfg, name: name, dir: filepath.Join(n.scratch, "replica-"+name)}
	if err := os.MkdirAll(r.dir, 0o700); err != nil {
		return nil, err
	}
	if err := r.start(true); err != nil {
		return nil, err
	}
	return r, nil
}

func (r *cnReplica) start(fresh bool) error {
	r.ctx, r.cancel = context.WithCancel(context.Background())
	pc := abci.PruneConfig{Strategy: abci.PruneNone, PruneInterval: time.Hour}
	if r.cfg.KeepN > 0 {
		pc = abci.PruneConfig{Strategy: abci.PruneKeepN, NumKept: r.cfg.KeepN, PruneInterval: time.Hour}
	}
	appCfg := &abci.ApplicationConfig{
		DataDir:                   r.dir,
		StorageBackend:            r.cfg.Backend,
		Pruning:                   pc,
		MinGasPrice:               r.cfg.MinGas,
		DisableCheckpointer:       !r.cfg.Checkpoints,
		CheckpointerCheckInterval: 5 * time.Millisecond,
		Identity:                  r.net.vals[r.cfg.Identity].ident,
		MemoryOnlyStorage:         !r.cfg.OnDisk,
		InitialHeight:             1,
		ChainContext:              r.net.chainCtx,
	}
	srv, err := abci.NewApplicationServer(r.ctx, nil, appCfg)
	if err != nil {
		return fmt.Errorf("mux: %w", err)
	}
	state := srv.State()
	md := srv.MessageDispatcher()
	stk := stakingApp.New(state, md)
	apps := []cmtapi.Application{
		beaconApp.New(),
		governanceApp.New(state, md),
		keymanagerApp.New(state),
		registryApp.New(state, md),
		roothashApp.New(state, md, cnNoNotify{}),
		schedulerApp.New(state, md),
		stk,
		vaultApp.New(state, md),
	}
	for _, app := range apps {
		if err = srv.Register(app); err != nil {
			return fmt.Errorf("register %s: %w", app.Name(), err)
		}
		app.Subscribe()
	}
	if r.cfg.Sanity {
		if err = srv.Register(supplementarysanity.New(state, 1)); err != nil {
			return err
		}
	}
	if r.cfg.Probes {
		r.probes = newProbes(r)
		for _, p := range r.probes.apps() {
			if err = srv.Register(p); err != nil {
				return fmt.Errorf("register probe: %w", err)
			}
		}
	}
	if err = srv.SetEpochtime(tmbeacon.New(0, 1, nil, tmbeacon.NewStateQueryFactory(state))); err != nil {
		return err
	}
	var auth cmtapi.TransactionAuthHandler = stk
	if r.cfg.Probes {
		auth = &cnAuthProbe{inner: stk, probes: r.probes}
	}
	if err = srv.SetTransactionAuthHandler(auth); err != nil {
		return err
	}
	if err = srv.Start(); err != nil {
		return fmt.Errorf("start: %w", err)
	}
	r.srv, r.mux, r.staking = srv, srv.Mux(), stk
	if !fresh {
		// CometBFT's handshake: an application without committed blocks is initialised again
		fresh = r.mux.Info(cmtabci.RequestInfo{}).LastBlockHeight == 0
	}
	if fresh && !r.cfg.NoInit {
		gd, err := cmtapi.GetCometBFTGenesisDocument(r.net.doc)
		if err != nil {
			return fmt.Errorf("cometbft genesis: %w", err)
		}
		var vus []cmtabci.ValidatorUpdate
		for _, gv := range gd.Validators {
			vus = append(vus, cmttypes.TM2PB.NewValidatorUpdate(gv.PubKey, gv.Power))
		}
		ic := r.mux.InitChain(cmtabci.RequestInitChain{
			Time:          gd.GenesisTime,
			ChainId:       gd.ChainID,
			InitialHeight: gd.InitialHeight,
			Validators:    vus,
			AppStateBytes: gd.AppState,
		})
		r.initVals = valUpdStrings(vus)
		if len(ic.Validators) > 0 {
			r.initVals = valUpdStrings(ic.Validators)
		}
	}
	return nil
}

// restart closes the multiplexer and reloads everything from disk.
func (r *cnReplica) restart() error {
	r.stop()
	return r.start(false)
}

func (r *cnReplica) stop() {
	if r.srv != nil {
		r.srv.Stop()
		r.srv.Cleanup()
		r.cancel()
		r.srv = nil
	}
}

// ---------------------------------------------------------------------------------------------------------------
// blocks

type cnVote struct {
	Val    int  `json:"val"`
	Signed bool `json:"signed"`
}

type cnBlock struct {
	Height   int64     `json:"height"`
	Proposer int       `json:"proposer"` // validator index
	Txs      [][]byte  `json:"-"`
	Votes    []cnVote  `json:"votes"`
	Evidence []int     `json:"evidence,omitempty"` // validators reported for equivocation at the previous height
	Hash     []byte    `json:"-"`
	Time     time.Time `json:"-"`
}

type cnValSetEntry struct {
	Val   int
	Power int64
}

func (n *cnNet) blockTime(h int64) time.Time { return n.doc.Time.Add(time.Duration(h) * time.Second) }

func blockHash(h int64, round int, txs [][]byte) []byte {
	s := sha256.New()
	fmt.Fprintf(s, "verif-block-%d-%d", h, round)
	for _, t := range txs {
		s.Write(t)
	}
	return s.Sum(nil)
}

func (n *cnNet) commitInfo(b *cnBlock, valset map[int]int64) cmtabci.CommitInfo {
	ci := cmtabci.CommitInfo{}
	for _, v := range b.Votes {
		p, ok := valset[v.Val]
		if !ok {
			continue
		}
		ci.Votes = append(ci.Votes, cmtabci.VoteInfo{
			Validator:       cmtabci.Validator{Address: n.vals[v.Val].consAddr, Power: p},
			SignedLastBlock: v.Signed,
		})
	}
	return ci
}

func (n *cnNet) misbehavior(b *cnBlock, valset map[int]int64) []cmtabci.Misbehavior {
	var out []cmtabci.Misbehavior
	for _, v := range b.Evidence {
		var addr []byte
		power := int64(1)
		if v >= 0 && v < len(n.vals) {
			addr = n.vals[v].consAddr
			if p, ok := valset[v]; ok {
				power = p
			}
		} else {
			addr = bytes.Repeat([]byte{0xEE}, 20) // unknown validator
		}
		out = append(out, cmtabci.Misbehavior{
			Type:             cmtabci.MisbehaviorType_DUPLICATE_VOTE,
			Validator:        cmtabci.Validator{Address: addr, Power: power},
			Height:           b.Height - 1,
			Time:             n.blockTime(b.Height - 1),
			TotalVotingPower: 100,
		})
	}
	return out
}

type cnTxResult struct {
	Code      uint32 `json:"code"`
	Codespace string `json:"codespace"`
	Data      string `json:"data"`
	Gas       int64  `json:"gas"`
	Log       string `json:"-"`
}

type cnBlockResult struct {
	AppHash  string       `json:"apphash"`
	Txs      []cnTxResult `json:"txs"`
	ValUpd   []string     `json:"valupd"`
	Accepted bool         `json:"accepted"`
	Panic    string       `json:"panic,omitempty"`
	BlockTxs [][]byte     `json:"-"`
}

func valUpdStrings(vu []cmtabci.ValidatorUpdate) []string {
	out := make([]string, 0, len(vu))
	for _, u := range vu {
		out = append(out, fmt.Sprintf("%x:%d", u.PubKey.GetEd25519(), u.Power))
	}
	sort.Strings(out)
	return out
}

func txResult(r *cmtabci.ResponseDeliverTx) cnTxResult {
	return cnTxResult{Code: r.Code, Codespace: r.Codespace, Data: fmt.Sprintf("%x", r.Data), Gas: r.GasUsed, Log: r.Log}
}

// prepare runs PrepareProposal on the proposer's replica and returns the block's transaction list (with system transactions).
func (r *cnReplica) prepare(b *cnBlock, mempool [][]byte, valset map[int]int64) (txs [][]byte, perr error) {
	ci := r.net.commitInfo(b, valset)
	ext := cmtabci.ExtendedCommitInfo{}
	for _, v := range ci.Votes {
		ext.Votes = append(ext.Votes, cmtabci.ExtendedVoteInfo{Validator: v.Validator, SignedLastBlock: v.SignedLastBlock})
	}
	perr = guard(func() {
		resp := r.mux.PrepareProposal(cmtabci.RequestPrepareProposal{
			MaxTxBytes:      1 << 20,
			Txs:             mempool,
			LocalLastCommit: ext,
			Misbehavior:     r.net.misbehavior(b, valset),
			Height:          b.Height,
			Time:            b.Time,
			ProposerAddress: r.net.vals[b.Proposer].consAddr,
		})
		txs = resp.Txs
	})
	return
}

func (r *cnReplica) process(b *cnBlock, valset map[int]int64) (accepted bool, perr error) {
	perr = guard(func() {
		resp := r.mux.ProcessProposal(cmtabci.RequestProcessProposal{
			Txs:                b.Txs,
			ProposedLastCommit: r.net.commitInfo(b, valset),
			Misbehavior:        r.net.misbehavior(b, valset),
			Hash:               b.Hash,
			Height:             b.Height,
			Time:               b.Time,
			ProposerAddress:    r.net.vals[b.Proposer].consAddr,
		})
		accepted = resp.Status == cmtabci.ResponseProcessProposal_ACCEPT
	})
	return
}

// background runs mempool checks, gas estimation and historical state queries concurrently with the consensus connection
// (as CometBFT's mempool and query connections do) until stop() is called.  CheckTx is never in flight during Commit:
// CometBFT holds the mempool lock there, and the multiplexer relies on it.
func (r *cnReplica) background(txs [][]byte) (stop func() int) {
	if len(txs) == 0 || !r.concurrent {
		return func() int { return 0 }
	}
	var quit atomic.Bool
	var calls atomic.Int64
	var wg sync.WaitGroup
	for g := 0; g < 3; g++ {
		wg.Add(1)
		go func(g int) {
			defer wg.Done()
			for i := 0; !quit.Load(); i++ {
				tx := txs[(i+g)%len(txs)]
				_ = guard(func() {
					switch g {
					case 0:
						r.mux.CheckTx(cmtabci.RequestCheckTx{Tx: tx, Type: cmtabci.CheckTxType_New})
					case 1:
						var st transaction.SignedTransaction
						var t transaction.Transaction
						if cbor.Unmarshal(tx, &st) == nil && cbor.Unmarshal(st.Blob, &t) == nil {
							_, _ = r.srv.EstimateGas(st.Signature.PublicKey, &t)
						}
					default:
						if tr, err := r.committedTree(); err == nil {
							_, _ = r.net.ledgerProjectionQuiet(tr)
						}
					}
				})
				calls.Add(1)
			}
		}(g)
	}
	return func() int {
		quit.Store(true)
		wg.Wait()
		return int(calls.Load())
	}
}

// finalize runs BeginBlock / DeliverTx* / EndBlock / Commit for the decided block.
func (r *cnReplica) finalize(b *cnBlock, valset map[int]int64) (res cnBlockResult) {
	res.Accepted = true
	stop := r.background(r.bgTxs)
	stopped := false
	defer func() {
		if !stopped {
			r.bgCalls += stop()
		}
	}()
	perr := guard(func() {
		r.mux.BeginBlock(cmtabci.RequestBeginBlock{
			Hash: b.Hash,
			Header: cmtproto.Header{
				Height:          b.Height,
				Time:            b.Time,
				ProposerAddress: r.net.vals[b.Proposer].consAddr,
				ChainID:         r.net.doc.ChainID,
			},
			LastCommitInfo:      r.net.commitInfo(b, valset),
			ByzantineValidators: r.net.misbehavior(b, valset),
		})
		for _, tx := range b.Txs {
			resp := r.mux.DeliverTx(cmtabci.RequestDeliverTx{Tx: tx})
			res.Txs = append(res.Txs, txResult(&resp))
		}
		eb := r.mux.EndBlock(cmtabci.RequestEndBlock{Height: b.Height})
		res.ValUpd = valUpdStrings(eb.ValidatorUpdates)
		r.bgCalls += stop() // mempool checks are excluded during Commit
		stopped = true
		c := r.mux.Commit()
		res.AppHash = fmt.Sprintf("%x", c.Data)
	})
	if perr != nil {
		res.Panic = perr.Error()
	}
	return
}

// ---- call-by-call execution (observer replica) ----

func (r *cnReplica) beginBlock(b *cnBlock, ci cmtabci.CommitInfo, mis []cmtabci.Misbehavior) []cmtabci.Event {
	return r.mux.BeginBlock(cmtabci.RequestBeginBlock{
		Hash: b.Hash,
		Header: cmtproto.Header{
			Height:          b.Height,
			Time:            b.Time,
			ProposerAddress: r.net.vals[b.Proposer].consAddr,
			ChainID:         r.net.doc.ChainID,
		},
		LastCommitInfo:      ci,
		ByzantineValidators: mis,
	}).Events
}

// tookEscrow: the events announce that stake was taken from an escrow account (a slash: consensus evidence, runtime liveness,
// runtime misbehaviour).
func tookEscrow(evs []cmtabci.Event) bool {
	for _, ev := range evs {
		for _, a := range ev.Attributes {
			if a.Key == "take_escrow" {
				return true
			}
		}
	}
	return false
}

func (r *cnReplica) deliver(tx []byte) cmtabci.ResponseDeliverTx {
	return r.mux.DeliverTx(cmtabci.RequestDeliverTx{Tx: tx})
}

func (r *cnReplica) endBlock(h int64) []cmtabci.ValidatorUpdate {
	return r.mux.EndBlock(cmtabci.RequestEndBlock{Height: h}).ValidatorUpdates
}

func (r *cnReplica) commit() string {
	return fmt.Sprintf("%x", r.mux.Commit().Data)
}

func (r *cnReplica) initValidators() []string { return r.initVals }

func (r *cnReplica) committedTree() (mkvs.ImmutableKeyValueTree, error) {
	st := r.srv.State()
	if st.LastHeight() == 0 {
		return nil, fmt.Errorf("no committed blocks")
	}
	ndb := st.Storage().NodeDB()
	roots, err := ndb.GetRootsForVersion(uint64(st.LastHeight()))
	if err != nil || len(roots) != 1 {
		return nil, fmt.Errorf("roots for version %d: %v %v", st.LastHeight(), roots, err)
	}
	return mkvs.NewWithRoot(nil, ndb, roots[0]), nil
}

// estimate runs a raw transaction through gas estimation (simulation mode of the handlers).
func (r *cnReplica) estimate(raw []byte) {
	var st transaction.SignedTransaction
	var t transaction.Transaction
	if cbor.Unmarshal(raw, &st) == nil && cbor.Unmarshal(st.Blob, &t) == nil {
		_, _ = r.srv.EstimateGas(st.Signature.PublicKey, &t)
	}
}
