package main

// Hook-free observation of the consensus state: raw key snapshots of the in-flight block state (through the public
// ApplicationState.NewContext) and read-only probe applications placed between the production applications.

import (
	"context"
	"fmt"
	"sort"
	"strings"

	cmtabci "github.com/cometbft/cometbft/abci/types"

	beacon "github.com/oasisprotocol/oasis-core/go/beacon/api"
	"github.com/oasisprotocol/oasis-core/go/common"
	"github.com/oasisprotocol/oasis-core/go/common/crypto/signature"
	"github.com/oasisprotocol/oasis-core/go/common/node"
	"github.com/oasisprotocol/oasis-core/go/common/quantity"
	"github.com/oasisprotocol/oasis-core/go/consensus/api/transaction"
	cmtapi "github.com/oasisprotocol/oasis-core/go/consensus/cometbft/api"
	beaconState "github.com/oasisprotocol/oasis-core/go/consensus/cometbft/apps/beacon/state"
	registryState "github.com/oasisprotocol/oasis-core/go/consensus/cometbft/apps/registry/state"
	schedulerState "github.com/oasisprotocol/oasis-core/go/consensus/cometbft/apps/scheduler/state"
	stakingState "github.com/oasisprotocol/oasis-core/go/consensus/cometbft/apps/staking/state"
	tmcrypto "github.com/oasisprotocol/oasis-core/go/consensus/cometbft/crypto"
	genesis "github.com/oasisprotocol/oasis-core/go/genesis/api"
	registry "github.com/oasisprotocol/oasis-core/go/registry/api"
	scheduler "github.com/oasisprotocol/oasis-core/go/scheduler/api"
	staking "github.com/oasisprotocol/oasis-core/go/staking/api"
	"github.com/oasisprotocol/oasis-core/go/storage/mkvs"
)

var stakingAppName = stakingState.AppName

// liveState returns the in-flight block state of a replica (valid between ABCI calls of one block).
func (r *cnReplica) liveState() (mkvs.KeyValueTree, func()) {
	ctx := r.srv.State().NewContext(cmtapi.ContextDeliverTx)
	return ctx.State(), ctx.Close
}

// rawSnapshot dumps every key/value of a state tree.
func rawSnapshot(t mkvs.ImmutableKeyValueTree) map[string]string {
	out := map[string]string{}
	it := t.NewIterator(context.Background())
	defer it.Close()
	for it.Rewind(); it.Valid(); it.Next() {
		out[string(it.Key())] = string(it.Value())
	}
	return out
}

// rawDiff lists the keys whose value differs between two snapshots.
func rawDiff(a, b map[string]string) []string {
	var out []string
	for k, v := range a {
		if w, ok := b[k]; !ok || w != v {
			out = append(out, k)
		}
	}
	for k := range b {
		if _, ok := a[k]; !ok {
			out = append(out, k)
		}
	}
	sort.Strings(out)
	return out
}

func qi(x *quantity.Quantity) int64 {
	if x == nil {
		return 0
	}
	b := x.ToBigInt()
	if !b.IsInt64() || b.Int64() > 1<<31-1 {
		return -1 // outside TLC's integer range: flagged, the scenario is then checked by the harness-computed flags only
	}
	return b.Int64()
}

func (n *cnNet) nameOf(addr staking.Address) string {
	if s, ok := n.names[addr.String()]; ok {
		return s
	}
	switch addr {
	case staking.CommonPoolAddress:
		return "POOL"
	case staking.FeeAccumulatorAddress:
		return "FEES"
	case staking.GovernanceDepositsAddress:
		return "GOV"
	case staking.BurnAddress:
		return "BURN"
	}
	name := fmt.Sprintf("X%d", len(n.names))
	n.names[addr.String()] = name
	return name
}

// ledgerProjection reads the complete staking ledger through the exported immutable-state readers.
func (n *cnNet) ledgerProjection(t mkvs.ImmutableKeyValueTree) (map[string]any, error) {
	ctx := context.Background()
	st := stakingState.NewImmutableState(t)
	ts, err := st.TotalSupply(ctx)
	if err != nil {
		return nil, err
	}
	if _, err = n.vaultProjection(t); err != nil { // names the accounts of vaults (V0, V1, ...) before they are listed below
		return nil, err
	}
	cp, _ := st.CommonPool(ctx)
	lf, _ := st.LastBlockFees(ctx)
	gd, _ := st.GovernanceDeposits(ctx)
	addrs, err := st.Addresses(ctx)
	if err != nil {
		return nil, err
	}
	acc := map[string]any{}
	for _, a := range addrs {
		ac, err := st.Account(ctx, a)
		if err != nil {
			return nil, err
		}
		allow := map[string]int64{}
		for b, q := range ac.General.Allowances {
			allow[n.nameOf(b)] = qi(&q)
		}
		acc[n.nameOf(a)] = map[string]any{
			"g": qi(&ac.General.Balance), "n": int64(ac.General.Nonce),
			"ab": qi(&ac.Escrow.Active.Balance), "as": qi(&ac.Escrow.Active.TotalShares),
			"db": qi(&ac.Escrow.Debonding.Balance), "ds": qi(&ac.Escrow.Debonding.TotalShares),
			"allow": allow,
		}
	}
	dels, err := st.Delegations(ctx)
	if err != nil {
		return nil, err
	}
	var dl [][]any
	for esc, m := range dels {
		for d, del := range m {
			dl = append(dl, []any{n.nameOf(d), n.nameOf(esc), qi(&del.Shares)})
		}
	}
	sort.Slice(dl, func(i, j int) bool { return fmt.Sprint(dl[i]) < fmt.Sprint(dl[j]) })
	debs, err := st.DebondingDelegations(ctx)
	if err != nil {
		return nil, err
	}
	var db [][]any
	for esc, m := range debs {
		for d, lst := range m {
			for _, e := range lst {
				db = append(db, []any{n.nameOf(d), n.nameOf(esc), qi(&e.Shares), int64(e.DebondEndTime)})
			}
		}
	}
	sort.Slice(db, func(i, j int) bool { return fmt.Sprint(db[i]) < fmt.Sprint(db[j]) })
	if dl == nil {
		dl = [][]any{}
	}
	if db == nil {
		db = [][]any{}
	}
	return map[string]any{
		"supply": qi(ts), "common": qi(cp), "lastfees": qi(lf), "govdep": qi(gd),
		"acc": acc, "del": dl, "deb": db,
	}, nil
}

// ---------------------------------------------------------------------------------------------------------------
// probe applications

type cnProbes struct {
	r    *cnReplica
	sink func(map[string]any)
}

func newProbes(r *cnReplica) *cnProbes { return &cnProbes{r: r} }

func (p *cnProbes) emit(m map[string]any) {
	if p.sink != nil {
		p.sink(m)
	}
}

func (p *cnProbes) apps() []cmtapi.Application {
	return []cmtapi.Application{
		&cnProbeApp{p: p, name: "200_rz_probe", id: 0xF1}, // after 200_registry, before 200_scheduler: what the election reads
		&cnProbeApp{p: p, name: "200_sz_probe", id: 0xF2}, // right after 200_scheduler: the election's result
	}
}

type cnProbeApp struct {
	p    *cnProbes
	name string
	id   uint8
}

func (a *cnProbeApp) Name() string                      { return a.name }
func (a *cnProbeApp) ID() uint8                         { return a.id }
func (a *cnProbeApp) Methods() []transaction.MethodName { return nil }
func (a *cnProbeApp) Blessed() bool                     { return false }
func (a *cnProbeApp) Dependencies() []string            { return nil }
func (a *cnProbeApp) Subscribe()                        {}
func (a *cnProbeApp) OnCleanup()                        {}
func (a *cnProbeApp) ExecuteTx(*cmtapi.Context, *transaction.Transaction) error {
	return fmt.Errorf("probe: no methods")
}

func (a *cnProbeApp) InitChain(*cmtapi.Context, cmtabci.RequestInitChain, *genesis.Document) error {
	return nil
}

func (a *cnProbeApp) EndBlock(*cmtapi.Context) (cmtabci.ResponseEndBlock, error) {
	return cmtabci.ResponseEndBlock{}, nil
}

func (a *cnProbeApp) BeginBlock(ctx *cmtapi.Context) error {
	changed, epoch := ctx.AppState().EpochChanged(ctx)
	// the scheduler elects on an epoch change (except in the bootstrap epoch) and whenever stake was slashed in this block
	slashed := ctx.HasEvent(stakingAppName, &staking.TakeEscrowEvent{})
	if base, _ := ctx.AppState().GetBaseEpoch(); epoch == base || (!changed && !slashed) || a.p.sink == nil {
		return nil
	}
	n := a.p.r.net
	switch a.name {
	case "200_rz_probe":
		m, err := n.electionInput(ctx, ctx.State())
		if err != nil {
			m = map[string]any{"error": err.Error()}
		}
		m["ev"], m["epoch"], m["h"], m["epoch_changed"] = "elect_in", int64(epoch), ctx.CurrentHeight(), changed
		a.p.emit(m)
	case "200_sz_probe":
		m, err := n.electionOutput(ctx, ctx.State())
		if err != nil {
			m = map[string]any{"error": err.Error()}
		}
		m["ev"], m["epoch"], m["h"] = "elect_out", int64(epoch), ctx.CurrentHeight()
		a.p.emit(m)
	}
	return nil
}

// electionInput projects what the validator election reads: nodes, entity escrow and stake claims.
func (n *cnNet) electionInput(ctx context.Context, t mkvs.ImmutableKeyValueTree) (map[string]any, error) {
	rs := registryState.NewImmutableState(t)
	ss := stakingState.NewImmutableState(t)
	nodes, err := rs.Nodes(ctx)
	if err != nil {
		return nil, err
	}
	params, err := ss.ConsensusParameters(ctx)
	if err != nil {
		return nil, err
	}
	thr := map[string]int64{}
	for k, v := range params.Thresholds {
		thr[k.String()] = qi(&v)
	}
	// VRF backend: the proofs of the previous epoch and whether its alpha allows committee elections
	vrfOn, canElect := false, true
	prevPi := map[signature.PublicKey]bool{}
	if bp, perr := beaconState.NewImmutableState(t).ConsensusParameters(ctx); perr == nil && bp.Backend == beacon.BackendVRF {
		vrfOn, canElect = true, false
		if vs, verr := beaconState.NewImmutableState(t).VRFState(ctx); verr == nil && vs != nil && vs.PrevState != nil {
			canElect = vs.PrevState.CanElectCommittees
			for id := range vs.PrevState.Pi {
				prevPi[id] = true
			}
		}
	}
	var nl []map[string]any
	ents := map[string]bool{}
	for _, nd := range nodes {
		status, err := rs.NodeStatus(ctx, nd.ID)
		frozen := false
		if err == nil && status != nil {
			frozen = status.IsFrozen()
		}
		ent := n.nameOf(staking.NewAddress(nd.EntityID))
		ents[ent] = true
		rts := []map[string]any{}
		susp := []string{}
		for _, nrt := range nd.Runtimes {
			rts = append(rts, map[string]any{"id": n.runtimeName(nrt.ID), "ver": int64(nrt.Version.ToU64()), "tee": nrt.Capabilities.TEE != nil})
			if err == nil && status != nil && status.IsSuspended(nrt.ID, epochOf(ctx, t)) {
				susp = append(susp, n.runtimeName(nrt.ID))
			}
		}
		nl = append(nl, map[string]any{
			"id": n.keyName(nd.ID.String()), "ent": ent, "validator": nd.HasRoles(node.RoleValidator), "roles": int64(nd.Roles),
			"exp": int64(nd.Expiration), "frozen": frozen, "cons": fmt.Sprintf("%x", nd.Consensus.ID[:]),
			"compute": nd.HasRoles(node.RoleComputeWorker), "rts": rts, "susp": susp,
			"pi": prevPi[nd.ID], "elig": err == nil && status != nil && status.IsEligibleForElection(epochOf(ctx, t)),
		})
	}
	// the runtimes the committee election iterates over (registered, not suspended)
	rtl := []map[string]any{}
	if runtimes, rerr := rs.Runtimes(ctx); rerr == nil {
		ep := epochOf(ctx, t)
		for _, rt := range runtimes {
			ver := int64(-1)
			if ad := rt.ActiveDeployment(ep); ad != nil {
				ver = int64(ad.Version.ToU64())
			}
			// the deployments as listed (TraceElection computes the version in force itself: greatest valid_from <= epoch)
			deps := []map[string]any{}
			for _, dp := range rt.Deployments {
				deps = append(deps, map[string]any{"ver": int64(dp.Version.ToU64()), "from": int64(dp.ValidFrom)})
			}
			cons := map[string]any{}
			for role, name := range map[scheduler.Role]string{scheduler.RoleWorker: "worker", scheduler.RoleBackupWorker: "backup"} {
				c := rt.Constraints[scheduler.KindComputeExecutor][role]
				mx, mp := int64(0), int64(0)
				if c.MaxNodes != nil {
					mx = int64(c.MaxNodes.Limit)
				}
				if c.MinPoolSize != nil {
					mp = int64(c.MinPoolSize.Limit)
				}
				cons[name] = map[string]any{"max": mx, "minp": mp, "vs": c.ValidatorSet != nil}
			}
			rtl = append(rtl, map[string]any{"id": n.runtimeName(rt.ID), "compute": rt.IsCompute(), "gs": int64(rt.Executor.GroupSize),
				"bs": int64(rt.Executor.GroupBackupSize), "ver": ver, "deps": deps, "epoch": int64(ep), "tee": rt.TEEHardware != node.TEEHardwareInvalid, "cons": cons})
		}
		sort.Slice(rtl, func(i, j int) bool { return rtl[i]["id"].(string) < rtl[j]["id"].(string) })
	}
	sort.Slice(nl, func(i, j int) bool { return nl[i]["id"].(string) < nl[j]["id"].(string) })
	el := map[string]any{}
	addrs, _ := ss.Addresses(ctx)
	for _, a := range addrs {
		name := n.nameOf(a)
		ac, err := ss.Account(ctx, a)
		if err != nil {
			return nil, err
		}
		var claims [][]string
		for c, kinds := range ac.Escrow.StakeAccumulator.Claims {
			ks := []string{string(c)}
			for _, k := range kinds {
				if k.Global != nil {
					ks = append(ks, k.Global.String())
				} else {
					ks = append(ks, "const")
				}
			}
			claims = append(claims, ks)
		}
		sort.Slice(claims, func(i, j int) bool { return claims[i][0] < claims[j][0] })
		if claims == nil {
			claims = [][]string{}
		}
		el[name] = map[string]any{"escrow": qi(&ac.Escrow.Active.Balance), "claims": claims}
	}
	if nl == nil {
		nl = []map[string]any{}
	}
	return map[string]any{"nodes": nl, "entities": el, "thresholds": thr, "runtimes": rtl, "vrf": vrfOn, "can_elect": canElect}, nil
}

// runtimeName maps a runtime ID back to the scenario's name (R0, R1), or a short hex string.
func (n *cnNet) runtimeName(id common.Namespace) string {
	for _, r := range []string{"R0", "R1", "R2", "R3"} {
		if x := runtimeID(r); x.Equal(&id) {
			return r
		}
	}
	return id.String()[:12]
}

// epochOf reads the current epoch from the beacon state of the given tree.
func epochOf(ctx context.Context, t mkvs.ImmutableKeyValueTree) beacon.EpochTime {
	ep, _, err := beaconState.NewImmutableState(t).GetEpoch(ctx)
	if err != nil {
		return 0
	}
	return ep
}

func (n *cnNet) keyName(k string) string {
	if s, ok := n.names[k]; ok {
		return s
	}
	name := fmt.Sprintf("K%d", len(n.names))
	n.names[k] = name
	return name
}

func (n *cnNet) electionOutput(ctx context.Context, t mkvs.ImmutableKeyValueTree) (map[string]any, error) {
	sc := schedulerState.NewImmutableState(t)
	// the election stores its result as the pending set; EndBlock turns it into validator updates
	vals, err := sc.PendingValidators(ctx)
	if err != nil {
		return nil, err
	}
	if vals == nil {
		if vals, err = sc.CurrentValidators(ctx); err != nil {
			return nil, err
		}
	}
	var vl []map[string]any
	for cons, v := range vals {
		vl = append(vl, map[string]any{"cons": fmt.Sprintf("%x", cons[:]), "power": v.VotingPower, "ent": n.nameOf(staking.NewAddress(v.EntityID))})
	}
	sort.Slice(vl, func(i, j int) bool { return vl[i]["cons"].(string) < vl[j]["cons"].(string) })
	if vl == nil {
		vl = []map[string]any{}
	}
	params, err := sc.ConsensusParameters(ctx)
	if err != nil {
		return nil, err
	}
	// runtime committees as the election left them
	cl := []map[string]any{}
	if comms, cerr := sc.AllCommittees(ctx); cerr == nil {
		for _, c := range comms {
			ms := []map[string]any{}
			for _, m := range c.Members {
				role := "worker"
				if m.Role == scheduler.RoleBackupWorker {
					role = "backup"
				}
				ms = append(ms, map[string]any{"id": n.keyName(m.PublicKey.String()), "role": role})
			}
			cl = append(cl, map[string]any{"rt": n.runtimeName(c.RuntimeID), "kind": c.Kind.String(), "valid_for": int64(c.ValidFor), "members": ms})
		}
		sort.Slice(cl, func(i, j int) bool {
			return cl[i]["rt"].(string)+cl[i]["kind"].(string) < cl[j]["rt"].(string)+cl[j]["kind"].(string)
		})
	}
	// nodes that are frozen once the election is over: the applications told about the coming election (roothash: liveness of the
	// ending epoch's committees) freeze nodes BEFORE the candidates are read, so none of them may have been elected
	frozenAfter := []string{}
	statusAfter := map[string]any{}
	rs := registryState.NewImmutableState(t)
	if nodes, nerr := rs.Nodes(ctx); nerr == nil {
		for _, nd := range nodes {
			st, serr := rs.NodeStatus(ctx, nd.ID)
			if serr != nil || st == nil {
				continue
			}
			if st.IsFrozen() {
				frozenAfter = append(frozenAfter, n.keyName(nd.ID.String()))
			}
			susp := []string{}
			for _, nrt := range nd.Runtimes {
				if st.IsSuspended(nrt.ID, epochOf(ctx, t)) {
					susp = append(susp, n.runtimeName(nrt.ID))
				}
			}
			statusAfter[n.keyName(nd.ID.String())] = map[string]any{"frozen": st.IsFrozen(), "susp": susp}
		}
	}
	sort.Strings(frozenAfter)
	return map[string]any{"status_after": statusAfter, "frozen_after": frozenAfter, "committees": cl, "validators": vl, "max_validators": int64(params.MaxValidators), "max_per_entity": int64(params.MaxValidatorsPerEntity),
		"min_validators": int64(params.MinValidators)}, nil
}

// cnAuthProbe is a pass-through decorator kept for future per-transaction observation inside proposals.
type cnAuthProbe struct {
	inner  cmtapi.TransactionAuthHandler
	probes *cnProbes
}

func (a *cnAuthProbe) AuthenticateTx(ctx *cmtapi.Context, tx *transaction.Transaction) error {
	return a.inner.AuthenticateTx(ctx, tx)
}

func (a *cnAuthProbe) PostExecuteTx(ctx *cmtapi.Context, tx *transaction.Transaction) error {
	return a.inner.PostExecuteTx(ctx, tx)
}

// registryProjection reads the registry's primary records and its indexes through the exported readers.
func (n *cnNet) registryProjection(t mkvs.ImmutableKeyValueTree) (map[string]any, error) {
	ctx := context.Background()
	rs := registryState.NewImmutableState(t)
	ss := stakingState.NewImmutableState(t)
	nodes, err := rs.Nodes(ctx)
	if err != nil {
		return nil, err
	}
	ents, err := rs.Entities(ctx)
	if err != nil {
		return nil, err
	}
	var nl []map[string]any
	for _, nd := range nodes {
		keys := map[string]string{"cons": nd.Consensus.ID.String(), "p2p": nd.P2P.ID.String(), "vrf": nd.VRF.ID.String(), "tls": nd.TLS.PubKey.String()}
		found := map[string]string{}
		for role, k := range keys {
			var pk signature.PublicKey
			_ = pk.UnmarshalText([]byte(k))
			got, lerr := rs.NodeBySubKey(ctx, pk)
			if lerr != nil || got == nil {
				found[role] = "none"
			} else {
				found[role] = n.keyName(got.ID.String())
			}
		}
		byAddr, aerr := rs.NodeByConsensusAddress(ctx, tmcrypto.PublicKeyToCometBFT(&nd.Consensus.ID).Address())
		ba := "none"
		if aerr == nil && byAddr != nil {
			ba = n.keyName(byAddr.ID.String())
		}
		nl = append(nl, map[string]any{"id": n.keyName(nd.ID.String()), "ent": n.nameOf(staking.NewAddress(nd.EntityID)), "keys": keys,
			"found": found, "by_cons_addr": ba, "exp": int64(nd.Expiration)})
	}
	sort.Slice(nl, func(i, j int) bool { return nl[i]["id"].(string) < nl[j]["id"].(string) })
	if nl == nil {
		nl = []map[string]any{}
	}
	el := map[string]any{}
	for _, e := range ents {
		en, err := rs.GetEntityNodes(ctx, e.ID)
		if err != nil {
			return nil, err
		}
		idx := []string{}
		for _, x := range en {
			idx = append(idx, n.keyName(x.ID.String()))
		}
		sort.Strings(idx)
		allow := []string{}
		for _, x := range e.Nodes {
			allow = append(allow, n.keyName(x.String()))
		}
		sort.Strings(allow)
		el[n.nameOf(staking.NewAddress(e.ID))] = map[string]any{"index_nodes": idx, "allowed_nodes": allow}
	}
	claims := map[string]any{}
	addrs, _ := ss.Addresses(ctx)
	for _, a := range addrs {
		ac, err := ss.Account(ctx, a)
		if err != nil {
			return nil, err
		}
		cl := []string{}
		for c := range ac.Escrow.StakeAccumulator.Claims {
			s := string(c)
			// node claims carry the node id: replace it by the node's short name
			if strings.HasPrefix(s, "registry.RegisterNode.") {
				var pk signature.PublicKey
				if pk.UnmarshalText([]byte(strings.TrimPrefix(s, "registry.RegisterNode."))) == nil {
					s = "node:" + n.keyName(pk.String())
				}
			} else if s == "registry.RegisterEntity" {
				s = "entity"
			} else if strings.HasPrefix(s, "registry.RegisterRuntime.") {
				id := strings.TrimPrefix(s, "registry.RegisterRuntime.")
				for _, r := range []string{"R0", "R1"} {
					if runtimeID(r).String() == id {
						s = "runtime:" + r
					}
				}
			}
			cl = append(cl, s)
		}
		sort.Strings(cl)
		claims[n.nameOf(a)] = cl
	}
	rts, err := rs.AllRuntimes(ctx)
	if err != nil {
		return nil, err
	}
	rl := []map[string]any{}
	for _, rt := range rts {
		name := rt.ID.String()
		for _, r := range []string{"R0", "R1"} {
			if rid := runtimeID(r); rid.Equal(&rt.ID) {
				name = r
			}
		}
		gov := "entity"
		owner := n.nameOf(staking.NewAddress(rt.EntityID))
		if rt.GovernanceModel == registry.GovernanceRuntime {
			gov = "runtime"
			owner = n.nameOf(staking.NewRuntimeAddress(rt.ID))
		}
		rl = append(rl, map[string]any{"id": name, "ent": n.nameOf(staking.NewAddress(rt.EntityID)), "gov": gov, "claim_account": owner})
	}
	sort.Slice(rl, func(i, j int) bool { return rl[i]["id"].(string) < rl[j]["id"].(string) })
	return map[string]any{"nodes": nl, "entities": el, "claims": claims, "runtimes": rl}, nil
}

// ledgerProjectionQuiet is ledgerProjection without naming new addresses (safe for concurrent readers).
func (n *cnNet) ledgerProjectionQuiet(t mkvs.ImmutableKeyValueTree) (int, error) {
	ctx := context.Background()
	st := stakingState.NewImmutableState(t)
	addrs, err := st.Addresses(ctx)
	if err != nil {
		return 0, err
	}
	k := 0
	for _, a := range addrs {
		if _, err := st.Account(ctx, a); err != nil {
			return k, err
		}
		k++
	}
	_, err = st.Delegations(ctx)
	return k, err
}
