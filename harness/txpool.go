package main

// C20: binding of specs/txpool/TxPool.tla to go/runtime/txpool's main queue (hook H3).

import (
	"encoding/json"
	"flag"
	"fmt"
	"math"
	"math/rand"
	"os"
	"sort"
	"strings"

	"github.com/oasisprotocol/oasis-core/go/common/crypto/hash"
	"github.com/oasisprotocol/oasis-core/go/runtime/txpool"
)

func init() {
	register("txpool-replay", "replay TLC-emitted TxPool behaviours on the real main queue", txpoolReplay)
	register("txpool-trace", "drive the real main queue randomly and record an ndjson trace", txpoolTrace)
}

type tpOp struct {
	A     string          `json:"a"`
	ID    int             `json:"id,omitempty"`
	S     string          `json:"s,omitempty"`
	Seq   int             `json:"seq,omitempty"`
	P     int             `json:"p,omitempty"`
	St    int             `json:"st,omitempty"`
	Limit int             `json:"limit,omitempty"`
	Ret   json.RawMessage `json:"ret,omitempty"`
	All   []int           `json:"all"`
}

type tpBehaviour struct {
	Cap int    `json:"cap"`
	Top int    `json:"top"`
	Ops []tpOp `json:"ops"`
}

type tpMismatch struct {
	Behaviour tpBehaviour `json:"behaviour"`
	Base      string      `json:"base"`
	Step      int         `json:"step"`
	Op        string      `json:"op"`
	Kind      string      `json:"kind"` // ret | all | size | panic
	Expected  any         `json:"expected"`
	Observed  any         `json:"observed"`
	Class     string      `json:"class"`
}

// tpQueue wraps the real queue with the id <-> hash mapping.
type tpQueue struct {
	q     *txpool.VerifMainQueue
	ids   map[hash.Hash]int
	hs    map[int]hash.Hash
	salt  uint64
	base  uint64
	seqOf map[int]int
	sOf   map[int]string
}

func newTpQueue(capacity int, base uint64, salt uint64) *tpQueue {
	return &tpQueue{
		q: txpool.NewVerifMainQueue(capacity), ids: map[hash.Hash]int{}, hs: map[int]hash.Hash{},
		salt: salt, base: base, seqOf: map[int]int{}, sOf: map[int]string{},
	}
}

func (t *tpQueue) hashOf(id int) hash.Hash {
	if h, ok := t.hs[id]; ok {
		return h
	}
	h := hash.NewFromBytes([]byte(fmt.Sprintf("tx-%d-%d", t.salt, id)))
	t.hs[id] = h
	t.ids[h] = id
	return h
}

func (t *tpQueue) idsOf(hs []hash.Hash) []int {
	out := make([]int, 0, len(hs))
	for _, h := range hs {
		out = append(out, t.ids[h])
	}
	return out
}

func (t *tpQueue) all() []int {
	ids := t.idsOf(t.q.All())
	sort.Ints(ids)
	return ids
}

func addErrClass(err error) string {
	switch {
	case err == nil:
		return "ok"
	case strings.Contains(err.Error(), "replacement transaction underpriced"):
		return "replacement_underpriced"
	case strings.Contains(err.Error(), "underpriced"):
		return "underpriced"
	case strings.Contains(err.Error(), "expired"):
		return "expired"
	default:
		return "error:" + err.Error()
	}
}

// apply executes one abstract operation on the real queue and returns the observed result
// (string for add, []int for sched/extra/drain, nil otherwise).
func (t *tpQueue) apply(op *tpOp) any {
	switch op.A {
	case "add":
		t.seqOf[op.ID] = op.Seq
		t.sOf[op.ID] = op.S
		err := t.q.Add(t.hashOf(op.ID), op.S, t.base+uint64(op.Seq), uint64(op.P), t.base+uint64(op.St))
		return addErrClass(err)
	case "used":
		t.q.HandleTxUsed(t.hashOf(op.ID))
		return nil
	case "fwd":
		t.q.Forward(op.S, t.base+uint64(op.Seq))
		return nil
	case "sched":
		return t.idsOf(t.q.Schedule(op.Limit))
	case "extra":
		return t.idsOf(t.q.ScheduleExtra(op.Limit))
	case "reset":
		t.q.Reset()
		return nil
	case "drain":
		ids := t.idsOf(t.q.Drain())
		sort.Ints(ids)
		return ids
	}
	panic("unknown op " + op.A)
}

func intsEq(a, b []int) bool {
	if len(a) != len(b) {
		return false
	}
	for i := range a {
		if a[i] != b[i] {
			return false
		}
	}
	return true
}

func sortedCopy(a []int) []int {
	b := append([]int{}, a...)
	sort.Ints(b)
	return b
}

// basesFor returns the concrete uint64 bases at which a behaviour with the given window is replayed.
// top > maxSeq: the window does not contain 2^64-1; replay at 0 and straddling 2^63.
// top == maxSeq: abstract maxSeq is 2^64-1.
func basesFor(top, maxSeq int) []uint64 {
	if top <= maxSeq {
		return []uint64{math.MaxUint64 - uint64(top)}
	}
	// i = maxSeq/2 maps to 2^63-1, the next one to 2^63.
	return []uint64{0, (1 << 63) - 1 - uint64(maxSeq/2)}
}

// classify names the defect class of a mismatch so that known findings can be matched narrowly.
func classifyTp(b *tpBehaviour, step int, kind string, base uint64, maxSeq int, exp, obs any) string {
	if kind == "panic" {
		return "panic"
	}
	op := b.Ops[step]
	if (op.A == "sched" || op.A == "extra") && kind == "ret" {
		e, _ := exp.([]int)
		o, _ := obs.([]int)
		// observed schedule is a strict prefix-or-subsequence of the expected one: something ready was not scheduled.
		if len(o) < len(e) {
			return "ready-not-scheduled"
		}
		if len(o) > len(e) {
			return "not-ready-scheduled"
		}
		return "schedule-order"
	}
	return kind + "-" + op.A
}

func txpoolReplay(args []string) int {
	fs := flag.NewFlagSet("txpool-replay", flag.ExitOnError)
	in := fs.String("in", "-", "behaviours (one JSON object per line)")
	out := fs.String("out", "-", "summary JSON")
	maxSeq := fs.Int("maxseq", 3, "MaxSeq constant of the emitting model")
	keep := fs.Int("keep", 20, "mismatches to keep in full")
	fs.Parse(args)

	r, err := openIn(*in)
	if err != nil {
		fmt.Fprintln(os.Stderr, err)
		return 2
	}
	defer r.Close()

	var (
		nBeh, nOps, nRuns int
		mism              []tpMismatch
		classes           = map[string]int{}
		opCounts          = map[string]int{}
		retCounts         = map[string]int{}
		samples           []tpBehaviour
		baseCounts        = map[string]int{}
	)
	sc := lineReader(r)
	for sc.Scan() {
		line := sc.Bytes()
		if len(line) == 0 || line[0] != '{' {
			continue
		}
		var b tpBehaviour
		if err := json.Unmarshal(line, &b); err != nil {
			fmt.Fprintf(os.Stderr, "bad behaviour: %v: %.200s\n", err, line)
			return 2
		}
		nBeh++
		if len(samples) < 3 {
			samples = append(samples, b)
		}
		for _, base := range basesFor(b.Top, *maxSeq) {
			nRuns++
			baseCounts[fmt.Sprint(base)]++
			q := newTpQueue(b.Cap, base, uint64(nBeh))
			for i := range b.Ops {
				op := &b.Ops[i]
				nOps++
				opCounts[op.A]++
				var obs any
				perr := guard(func() { obs = q.apply(op) })
				var kind string
				var exp any
				if perr != nil {
					kind, obs = "panic", perr.Error()
				} else {
					switch op.A {
					case "add":
						var e string
						json.Unmarshal(op.Ret, &e)
						retCounts["add:"+e]++
						if e != obs.(string) {
							kind, exp = "ret", e
						}
					case "sched", "extra":
						var e []int
						json.Unmarshal(op.Ret, &e)
						retCounts[fmt.Sprintf("%s:len%d", op.A, len(e))]++
						if !intsEq(e, obs.([]int)) {
							kind, exp = "ret", e
						}
					case "drain":
						var e []int
						json.Unmarshal(op.Ret, &e)
						sort.Ints(e)
						if !intsEq(e, obs.([]int)) {
							kind, exp = "ret", e
						}
					}
					if kind == "" {
						var all []int
						perr = guard(func() { all = q.all() })
						if perr != nil {
							kind, obs = "panic", perr.Error()
						} else if !intsEq(sortedCopy(op.All), all) {
							kind, exp, obs = "all", sortedCopy(op.All), all
						} else if sz := q.q.Size(); sz != len(all) {
							kind, exp, obs = "size", len(all), sz
						}
					}
				}
				if kind != "" {
					cl := classifyTp(&b, i, kind, base, *maxSeq, exp, obs)
					classes[cl]++
					if len(mism) < *keep || (classes[cl] <= 3) {
						mism = append(mism, tpMismatch{b, fmt.Sprint(base), i, op.A, kind, exp, obs, cl})
					}
					break // the rest of the behaviour is not comparable after a divergence
				}
			}
		}
	}
	if err := sc.Err(); err != nil {
		fmt.Fprintln(os.Stderr, err)
		return 2
	}
	w, err := openOut(*out)
	if err != nil {
		fmt.Fprintln(os.Stderr, err)
		return 2
	}
	defer w.Close()
	nm := 0
	for _, c := range classes {
		nm += c
	}
	w.Write(mustJSON(map[string]any{
		"behaviours": nBeh, "runs": nRuns, "ops": nOps, "mismatch_count": nm, "classes": classes,
		"mismatches": mism, "op_counts": opCounts, "ret_counts": retCounts, "samples": samples, "bases": baseCounts,
	}))
	return 0
}

// txpoolTrace drives the real queue with a seeded random sequence of abstract operations (priorities with
// ties, gaps, duplicates, all boundaries) and records what the real code answered.  TLC validates the trace
// against TraceTxPool.tla, choosing tie-breaks itself.
func txpoolTrace(args []string) int {
	fs := flag.NewFlagSet("txpool-trace", flag.ExitOnError)
	out := fs.String("out", "-", "ndjson trace")
	seed := fs.Int64("seed", 1, "seed")
	n := fs.Int("n", 50, "number of traces (concatenated, separated by begin events)")
	length := fs.Int("len", 40, "operations per trace")
	maxSeq := fs.Int("maxseq", 5, "abstract sequence window 0..maxseq")
	maxAdds := fs.Int("maxadds", 12, "max adds per trace (ids)")
	corrupt := fs.Int("corrupt", -1, "self-test: corrupt the observation of the k-th event")
	fs.Parse(args)

	w, err := openOut(*out)
	if err != nil {
		fmt.Fprintln(os.Stderr, err)
		return 2
	}
	defer w.Close()
	rng := rand.New(rand.NewSource(*seed))
	senders := []string{"a", "b", "c"}
	ev := 0
	emit := func(m map[string]any) {
		if ev == *corrupt {
			// flip one observed field
			if a, ok := m["all"].([]int); ok && len(a) > 0 {
				m["all"] = a[1:]
			} else if a, ok := m["all"].([]int); ok {
				m["all"] = append(a, 1)
			}
		}
		ev++
		w.Write(mustJSON(m))
		w.Write([]byte("\n"))
	}
	for tr := 0; tr < *n; tr++ {
		capacity := 1 + rng.Intn(4)
		var top int
		var base uint64
		switch rng.Intn(3) {
		case 0:
			top, base = *maxSeq+1, 0
		case 1:
			top, base = *maxSeq+1, (1<<63)-1-uint64(*maxSeq/2)
		default:
			top, base = *maxSeq, math.MaxUint64-uint64(*maxSeq)
		}
		curMax := top
		if top > *maxSeq {
			curMax = *maxSeq + 1
		}
		q := newTpQueue(capacity, base, uint64(tr)+uint64(*seed)<<20)
		hi := map[string]int{}
		nadds := 0
		emit(map[string]any{"ev": "begin", "cap": capacity, "top": top})
		for i := 0; i < *length; i++ {
			var op tpOp
			k := rng.Intn(100)
			switch {
			case k < 45 && nadds < *maxAdds:
				s := senders[rng.Intn(len(senders))]
				st := hi[s]
				if rng.Intn(4) == 0 && st < curMax {
					st += 1 + rng.Intn(curMax-st)
				}
				seq := rng.Intn(*maxSeq + 1)
				if rng.Intn(2) == 0 { // bias towards the ready region
					seq = st + rng.Intn(3)
					if seq > *maxSeq {
						seq = *maxSeq
					}
				}
				if seq > top {
					seq = top
				}
				nadds++
				op = tpOp{A: "add", ID: nadds, S: s, Seq: seq, P: rng.Intn(3), St: st}
				hi[s] = st
			case k < 60 && nadds > 0:
				op = tpOp{A: "used", ID: 1 + rng.Intn(nadds)}
			case k < 68:
				s := senders[rng.Intn(len(senders))]
				if hi[s] >= curMax {
					continue
				}
				op = tpOp{A: "fwd", S: s, Seq: hi[s] + 1 + rng.Intn(curMax-hi[s])}
			case k < 84:
				op = tpOp{A: "sched", Limit: rng.Intn(4)}
			case k < 94:
				op = tpOp{A: "extra", Limit: 1 + rng.Intn(3)}
			case k < 97:
				op = tpOp{A: "reset"}
			default:
				op = tpOp{A: "drain"}
			}
			if op.A == "" {
				continue
			}
			// track what the queue has been told about each sender (monotone state sequence numbers)
			inPool := false
			if op.A == "used" {
				for _, id := range q.all() {
					if id == op.ID {
						inPool = true
					}
				}
			}
			var obs any
			perr := guard(func() { obs = q.apply(&op) })
			rec := map[string]any{"ev": op.A}
			switch op.A {
			case "add":
				rec["id"], rec["s"], rec["seq"], rec["p"], rec["st"] = op.ID, op.S, op.Seq, op.P, op.St
			case "used":
				rec["id"] = op.ID
				if inPool {
					s, sq := q.sOf[op.ID], q.seqOf[op.ID]
					if sq < top && sq+1 > hi[s] {
						hi[s] = sq + 1
					}
				}
			case "fwd":
				rec["s"], rec["seq"] = op.S, op.Seq
				hi[op.S] = op.Seq
			case "sched", "extra":
				rec["limit"] = op.Limit
			}
			if perr != nil {
				rec["panic"] = perr.Error()
				emit(rec)
				break
			}
			if obs == nil {
				obs = 0
			}
			rec["ret"] = obs
			var all []int
			if perr = guard(func() { all = q.all() }); perr != nil {
				rec["panic"] = perr.Error()
				emit(rec)
				break
			}
			rec["all"] = all
			emit(rec)
		}
	}
	return 0
}
