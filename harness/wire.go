package main

// C16: feed TLC-generated boundary encodings (and seeded random mutations of them) to the hand-written storage decoders and
// verifiers under a panic guard, a per-input deadline and an allocation bound.

import (
	"context"
	"encoding/json"
	"flag"
	"fmt"
	"math/rand"
	"os"
	"runtime"
	"time"

	"github.com/oasisprotocol/oasis-core/go/common/cbor"
	"github.com/oasisprotocol/oasis-core/go/common/crypto/hash"
	"github.com/oasisprotocol/oasis-core/go/consensus/api/transaction"
	"github.com/oasisprotocol/oasis-core/go/roothash/api/commitment"
	"github.com/oasisprotocol/oasis-core/go/storage/mkvs/checkpoint"
	"github.com/oasisprotocol/oasis-core/go/storage/mkvs/node"
	"github.com/oasisprotocol/oasis-core/go/storage/mkvs/syncer"
	"github.com/oasisprotocol/oasis-core/go/storage/mkvs/writelog"
)

func init() {
	register("wire-replay", "feed MkvsWire.tla cases and random mutants to the storage decoders under panic/time/allocation guards", wireReplay)
}

type wireCase struct {
	Kind   string `json:"kind"`
	M      string `json:"m"`
	Bytes  bstr   `json:"bytes"`
	Accept bool   `json:"accept"`
}

type wireStats struct {
	Cases, Drift, Panics, Slow, Big int
	Skipped                         int // inputs not run after three hangs
	hangs                           int
	Inputs                          int
	Accepts                         int
	Problems                        []map[string]any
	DriftSamples                    []map[string]any
	ByEntry                         map[string]int
}

// entry points: each returns whether the input was accepted
var wireEntries = map[string]func(b []byte) bool{
	"node.UnmarshalBinary": func(b []byte) bool { _, err := node.UnmarshalBinary(b); return err == nil },
	"node.Key.UnmarshalBinary": func(b []byte) bool {
		var k node.Key
		return k.UnmarshalBinary(b) == nil
	},
	"node.Depth.UnmarshalBinary": func(b []byte) bool {
		var d node.Depth
		_, err := d.UnmarshalBinary(b)
		return err == nil
	},
	"syncer.VerifyProof(v0)": func(b []byte) bool { return wireProof(b, 0) },
	"syncer.VerifyProof(v1)": func(b []byte) bool { return wireProof(b, 1) },
	"cbor->syncer.Proof": func(b []byte) bool {
		var p syncer.Proof
		if cbor.Unmarshal(b, &p) != nil {
			return false
		}
		var pv syncer.ProofVerifier
		_, err := pv.VerifyProof(context.Background(), p.UntrustedRoot, &p)
		return err == nil
	},
	"cbor->writelog": func(b []byte) bool {
		var wl writelog.WriteLog
		return cbor.Unmarshal(b, &wl) == nil
	},
	"cbor->checkpoint.Metadata": func(b []byte) bool {
		var m checkpoint.Metadata
		return cbor.Unmarshal(b, &m) == nil
	},
	"cbor->transaction": func(b []byte) bool {
		var st transaction.SignedTransaction
		if cbor.Unmarshal(b, &st) != nil {
			return false
		}
		var tx transaction.Transaction
		return st.Open(&tx) == nil && tx.SanityCheck() == nil
	},
	"cbor->ExecutorCommitment": func(b []byte) bool {
		var ec commitment.ExecutorCommitment
		if cbor.Unmarshal(b, &ec) != nil {
			return false
		}
		return ec.ValidateBasic() == nil
	},
}

func wireProof(entry []byte, version uint16) bool {
	var root hash.Hash
	root.FromBytes(entry)
	p := &syncer.Proof{V: version, UntrustedRoot: root, Entries: [][]byte{append([]byte{1}, entry...), nil, {2, 1, 2, 3}}}
	var pv syncer.ProofVerifier
	_, err := pv.VerifyProof(context.Background(), root, p)
	return err == nil
}

func (s *wireStats) feed(name string, f func([]byte) bool, b []byte, note map[string]any) (accepted bool) {
	if s.hangs >= 3 {
		// three inputs did not return: every further one would cost the deadline again and leave another goroutine spinning;
		// the hangs on record are the verdict, the rest of the sweep is skipped
		s.Skipped++
		return false
	}
	s.Inputs++
	s.ByEntry[name]++
	var m0, m1 runtime.MemStats
	runtime.ReadMemStats(&m0)
	t0 := time.Now()
	done := make(chan error, 1)
	go func() {
		done <- guard(func() { accepted = f(b) })
	}()
	select {
	case perr := <-done:
		if perr != nil {
			s.Panics++
			if len(s.Problems) < 10 {
				s.Problems = append(s.Problems, map[string]any{"kind": "panic", "entry": name, "bytes": fmt.Sprintf("%x", b), "msg": perr.Error()[:min(1500, len(perr.Error()))], "case": note})
			}
		}
	case <-time.After(5 * time.Second):
		s.Slow++
		s.hangs++
		if len(s.Problems) < 10 {
			s.Problems = append(s.Problems, map[string]any{"kind": "hang", "entry": name, "bytes": fmt.Sprintf("%x", b), "case": note})
		}
		return false
	}
	runtime.ReadMemStats(&m1)
	if d := time.Since(t0); d > 2*time.Second {
		s.Slow++
	}
	if alloc := m1.TotalAlloc - m0.TotalAlloc; alloc > 64<<20+uint64(len(b))*1024 {
		s.Big++
		if len(s.Problems) < 10 {
			s.Problems = append(s.Problems, map[string]any{"kind": "allocation", "entry": name, "bytes": fmt.Sprintf("%x", b[:min(len(b), 64)]), "alloc": alloc, "case": note})
		}
	}
	if accepted {
		s.Accepts++
	}
	return
}

func wireReplay(args []string) int {
	fs := flag.NewFlagSet("wire-replay", flag.ExitOnError)
	in := fs.String("in", "-", "cases")
	out := fs.String("out", "-", "summary JSON")
	seed := fs.Int64("seed", 1, "seed for the random mutation neighbourhood")
	extra := fs.Int("mutants", 20, "random mutants per case")
	fs.Parse(args)
	r, err := openIn(*in)
	if err != nil {
		return 2
	}
	defer r.Close()
	st := &wireStats{ByEntry: map[string]int{}}
	rng := rand.New(rand.NewSource(*seed))
	var sample []wireCase
	sc := lineReader(r)
	for sc.Scan() {
		line := sc.Bytes()
		if len(line) == 0 || line[0] != '{' {
			continue
		}
		var c wireCase
		if err := json.Unmarshal(line, &c); err != nil {
			fmt.Fprintln(os.Stderr, "bad case:", err)
			return 2
		}
		st.Cases++
		if len(sample) < 3 && c.M != "truncate" {
			sample = append(sample, c)
		}
		note := map[string]any{"kind": c.Kind, "m": c.M}
		// the transcribed decoder: accept/reject is compared (drift), every other entry point only guarded
		got := st.feed("node.UnmarshalBinary", wireEntries["node.UnmarshalBinary"], c.Bytes, note)
		if got != c.Accept {
			st.Drift++
			if len(st.DriftSamples) < 5 {
				st.DriftSamples = append(st.DriftSamples, map[string]any{"case": note, "bytes": fmt.Sprintf("%x", []byte(c.Bytes)), "model": c.Accept, "code": got})
			}
		}
		for name, f := range wireEntries {
			if name == "node.UnmarshalBinary" {
				continue
			}
			st.feed(name, f, c.Bytes, note)
		}
		// seeded mutation neighbourhood of the case
		for i := 0; i < *extra; i++ {
			b := append([]byte{}, c.Bytes...)
			switch rng.Intn(4) {
			case 0:
				if len(b) > 0 {
					b[rng.Intn(len(b))] ^= 1 << uint(rng.Intn(8))
				}
			case 1:
				if len(b) > 0 {
					b[rng.Intn(len(b))] = byte(rng.Intn(256))
				}
			case 2:
				b = append(b, byte(rng.Intn(256)))
			default:
				if len(b) > 1 {
					k := rng.Intn(len(b))
					b = append(b[:k], b[k+1:]...)
				}
			}
			for name, f := range wireEntries {
				st.feed(name, f, b, note)
			}
		}
	}
	w, err := openOut(*out)
	if err != nil {
		return 2
	}
	defer w.Close()
	w.Write(mustJSON(map[string]any{"cases": st.Cases, "inputs": st.Inputs, "accepted": st.Accepts, "drift": st.Drift, "panics": st.Panics,
		"slow": st.Slow, "big_alloc": st.Big, "problems": st.Problems, "drift_samples": st.DriftSamples, "by_entry": st.ByEntry, "samples": sample}))
	return 0
}
