package main

// C19: binding of specs/stateless/Stateless.tla to consensus/cometbft/stateless (hook H2).
//
// stateless-replay concretises the abstract (request, alteration) cases emitted by TLC on the real
// verification functions (and, in stateless_core.go, on a real stateless.Core backed by a real light
// client whose trusted store was pre-populated) and records an ndjson trace of outcomes for
// specs/stateless/TraceStateless.tla.
//
// Two data universes:
//   main  the repository's recorded mainnet vectors (block / transactions / results of 25300000 and the
//         light blocks of 25300000 and 25300001);
//   syn   a synthetic chain of six heights built with the real CometBFT / oasis-core types (signed
//         commits, metadata transactions, results, validator sets, parameters, MKVS state with the
//         consensus parameters), so that "field taken from another height" has a concrete meaning.

import (
	"bytes"
	"crypto/sha256"
	"encoding/hex"
	"encoding/json"
	"fmt"
	"os"
	"sort"
	"strings"
	"time"

	cmtabci "github.com/cometbft/cometbft/abci/types"
	cmted "github.com/cometbft/cometbft/crypto/ed25519"
	cmtmerkle "github.com/cometbft/cometbft/crypto/merkle"
	cmtproto "github.com/cometbft/cometbft/proto/tendermint/types"
	cmtversion "github.com/cometbft/cometbft/proto/tendermint/version"
	cmtcoretypes "github.com/cometbft/cometbft/rpc/core/types"
	cmttypes "github.com/cometbft/cometbft/types"

	"github.com/oasisprotocol/oasis-core/go/common/cbor"
	"github.com/oasisprotocol/oasis-core/go/common/crypto/hash"
	consensusAPI "github.com/oasisprotocol/oasis-core/go/consensus/api"
	"github.com/oasisprotocol/oasis-core/go/consensus/api/transaction"
	cmtapi "github.com/oasisprotocol/oasis-core/go/consensus/cometbft/api"
	"github.com/oasisprotocol/oasis-core/go/consensus/cometbft/light"
	genesis "github.com/oasisprotocol/oasis-core/go/consensus/genesis"
)

// ---------------------------------------------------------------------------------------------
// abstract cases (emitted by TLC)

type slAlt struct {
	F string `json:"f"`
	K string `json:"k"`
	H int    `json:"h"`
}

type slTx struct {
	L int `json:"l"`
	I int `json:"i"`
}

type slPf struct {
	L     int `json:"l"`
	I     int `json:"i"`
	Bytes int `json:"bytes"`
}

type slOp struct {
	Req    string  `json:"req"`
	H      int     `json:"h"`
	Latest int     `json:"latest"`
	Whole  int     `json:"whole"`
	Alts   []slAlt `json:"alts"`
	Ok     bool    `json:"ok"`
	Err    string  `json:"err"`
	T      *slTx   `json:"t,omitempty"`
	P      *slPf   `json:"p,omitempty"`
	Honest *bool   `json:"honest,omitempty"`
}

type slBehaviour struct {
	Latest0 int    `json:"latest0"`
	Ops     []slOp `json:"ops"`
}

func (o *slOp) altered() bool {
	if o.Honest != nil {
		return !*o.Honest
	}
	return o.Whole != 0 || len(o.Alts) > 0
}

func (o *slOp) sortAlts() {
	sort.Slice(o.Alts, func(i, j int) bool { return o.Alts[i].F < o.Alts[j].F })
}

func slKindOf(req string) string {
	switch req {
	case "GetBlock":
		return "block"
	case "GetTransactions", "GetTransactionsWithProofs", "StateRoot":
		return "txs"
	case "GetBlockResults":
		return "results"
	case "GetValidators":
		return "vals"
	case "GetParameters":
		return "params"
	}
	return ""
}

// ---------------------------------------------------------------------------------------------
// data universes

type slData struct {
	height  int64
	lb      *cmttypes.LightBlock
	block   *consensusAPI.Block
	txs     [][]byte
	results *consensusAPI.BlockResults
	vals    *consensusAPI.Validators
	params  *consensusAPI.Parameters
	sr      *hash.Hash // state root after this block
}

type slUniverse struct {
	name    string
	chainID string
	syn     map[int]*slData // synthetic: model height -> data
	h0, h1  *slData         // recorded: the anchor height and its successor
	state   *slState        // synthetic: MKVS state served to the light query factory (core mode)
	fixed   int             // recorded, core mode: the model height that always maps to 25300000
}

// at resolves model height mh.  In the recorded universe the case's anchor height is mapped to
// 25300000 and anchor+1 to 25300001; nothing else exists.
func (u *slUniverse) at(anchor, mh int) *slData {
	if u.syn != nil {
		return u.syn[mh]
	}
	if u.fixed != 0 {
		anchor = u.fixed
	}
	switch mh {
	case anchor:
		return u.h0
	case anchor + 1:
		return u.h1
	}
	return nil
}

func slAnchor(o *slOp) int {
	if o.Req == "GetValidators" && o.H > o.Latest {
		return o.H - 1
	}
	return o.H
}

func slMust(err error) {
	if err != nil {
		panic(err)
	}
}

func slLoadJSON(path string, v any) {
	b, err := os.ReadFile(path)
	slMust(err)
	slMust(json.Unmarshal(b, v))
}

func slLoadMain(repo string) *slUniverse {
	dir := repo + "/go/consensus/cometbft/stateless/testdata/"
	var clb, clb2 consensusAPI.LightBlock
	var blk consensusAPI.Block
	var res consensusAPI.BlockResults
	var txs [][]byte
	slLoadJSON(dir+"light_block_25300000.json", &clb)
	slLoadJSON(dir+"light_block_25300001.json", &clb2)
	slLoadJSON(dir+"block_25300000.json", &blk)
	slLoadJSON(dir+"results_25300000.json", &res)
	slLoadJSON(dir+"txs_25300000.json", &txs)
	lb, err := light.DecodeLightBlock(&clb)
	slMust(err)
	lb2, err := light.DecodeLightBlock(&clb2)
	slMust(err)
	v1, err := light.EncodeValidators(lb.ValidatorSet, lb.Height)
	slMust(err)
	v2, err := light.EncodeValidators(lb2.ValidatorSet, lb2.Height)
	slMust(err)
	var sr hash.Hash
	slMust(sr.UnmarshalBinary(lb2.AppHash))
	return &slUniverse{
		name:    "main",
		chainID: lb.ChainID,
		h0:      &slData{height: lb.Height, lb: lb, block: &blk, txs: txs, results: &res, vals: v1, sr: &sr},
		h1:      &slData{height: lb2.Height, lb: lb2, vals: v2},
	}
}

const (
	slSynBase    = int64(7000)
	slSynHeights = 6                                                    // model heights 0..5
	slSynChain   = "verif-c19-synthetic-chain-000000000000000000000000" // 50 characters: CometBFTChainID slices [:50]
)

var (
	slValsetOf = []int{1, 1, 1, 2, 2, 3} // index = model height (0..5); 1..5 as in MCStateless
	slParamsOf = []int{1, 1, 1, 2, 2, 2}
	slTxCount  = []int{1, 3, 1, 5, 0, 2} // ordinary transactions per height (a metadata transaction follows)
)

func slPriv(i int) cmted.PrivKey {
	return cmted.GenPrivKeyFromSecret([]byte(fmt.Sprintf("verif-c19-validator-%d", i)))
}

func slValset(id int) (*cmttypes.ValidatorSet, []cmted.PrivKey) {
	var members []int
	switch id {
	case 1:
		members = []int{0, 1, 2, 3}
	case 2:
		members = []int{0, 1, 2, 4}
	default:
		members = []int{1, 2, 4, 5, 6}
	}
	privs := map[string]cmted.PrivKey{}
	var vals []*cmttypes.Validator
	for k, m := range members {
		p := slPriv(m)
		v := cmttypes.NewValidator(p.PubKey(), int64(10+m+k*id))
		vals = append(vals, v)
		privs[string(v.Address)] = p
	}
	vs := cmttypes.NewValidatorSet(vals)
	ordered := make([]cmted.PrivKey, len(vs.Validators))
	for i, v := range vs.Validators {
		ordered[i] = privs[string(v.Address)]
	}
	return vs, ordered
}

func slCmtParams(id int) cmttypes.ConsensusParams {
	p := *cmttypes.DefaultConsensusParams()
	p.Block.MaxBytes = int64(1<<20 + id)
	p.Block.MaxGas = int64(1000 * id)
	p.Evidence.MaxBytes = 1 << 16
	p.Version.App = uint64(5 + id)
	return p
}

func slOasisParams(id int) genesis.Parameters {
	return genesis.Parameters{
		TimeoutCommit:           time.Duration(id) * time.Second,
		MaxTxSize:               32768,
		MaxBlockSize:            uint64(1<<20 + id),
		MaxBlockGas:             transaction.Gas(1000 * id),
		MaxEvidenceSize:         1 << 16,
		MinGasPrice:             uint64(id),
		StateCheckpointInterval: 10000,
		GasCosts:                transaction.Costs{"tx_byte": transaction.Gas(id)},
	}
}

// slSynTx builds a CBOR-canonical signed transaction (signatures are not checked by the verification
// functions under test; the bytes are what the Merkle tree commits to).
func slSynTx(tag string, nonce uint64, method transaction.MethodName, body any) []byte {
	tx := transaction.NewTransaction(nonce, nil, method, body)
	h := hash.NewFromBytes([]byte("verif-c19-signer-" + tag))
	var st transaction.SignedTransaction
	st.Blob = cbor.Marshal(tx)
	copy(st.Signature.PublicKey[:], h[:])
	sh := sha256.Sum256(append([]byte(tag), st.Blob...))
	copy(st.Signature.Signature[:], append(sh[:], sh[:]...))
	return cbor.Marshal(&st)
}

func slMetaTx(tag string, sr hash.Hash) []byte {
	er := sha256.Sum256([]byte("events-root-" + tag))
	return slSynTx("meta-"+tag, 0, consensusAPI.MethodMeta, &consensusAPI.BlockMetadata{StateRoot: sr, EventsRoot: er[:]})
}

func slSynTxs(tag string, n int, sr hash.Hash) [][]byte {
	txs := make([][]byte, 0, n+1)
	for i := 0; i < n; i++ {
		body := bytes.Repeat([]byte{byte(i + 1)}, 5+3*i)
		txs = append(txs, slSynTx(fmt.Sprintf("%s-%d", tag, i), uint64(i), "verif.Method", body))
	}
	return append(txs, slMetaTx(tag, sr))
}

func slSynResults(mh, n int) *cmtcoretypes.ResultBlockResults {
	ev := func(kind string, i int) cmtabci.Event {
		return cmtabci.Event{Type: "oasis_event_" + kind, Attributes: []cmtabci.EventAttribute{
			{Key: "k", Value: fmt.Sprintf("%s-%d-%d", kind, mh, i), Index: true}}}
	}
	r := &cmtcoretypes.ResultBlockResults{Height: slSynBase + int64(mh)}
	for i := 0; i < n; i++ {
		r.TxsResults = append(r.TxsResults, &cmtabci.ResponseDeliverTx{
			Code: uint32((mh + i) % 3), Data: []byte(fmt.Sprintf("data-%d-%d", mh, i)), Log: fmt.Sprintf("log-%d-%d", mh, i),
			Info: fmt.Sprintf("info-%d", mh), GasWanted: int64(100*mh + i), GasUsed: int64(90*mh + i),
			Events: []cmtabci.Event{ev("staking", i)}, Codespace: fmt.Sprintf("cs%d", mh),
		})
	}
	r.BeginBlockEvents = []cmtabci.Event{ev("begin", 0)}
	r.EndBlockEvents = []cmtabci.Event{ev("end", 0)}
	return r
}

func slBuildSyn() *slUniverse {
	u := &slUniverse{name: "syn", chainID: slSynChain, syn: map[int]*slData{}}
	u.state = slNewState()
	t0 := time.Date(2026, 1, 2, 3, 4, 5, 0, time.UTC)
	var prevHdr *cmttypes.Header
	var prevCommit *cmttypes.Commit
	var prevResults *cmtcoretypes.ResultBlockResults
	prevSR := hash.NewFromBytes([]byte("verif-c19-state-before-chain"))
	for mh := 0; mh < slSynHeights; mh++ {
		height := slSynBase + int64(mh)
		vs, privs := slValset(slValsetOf[mh])
		nextID := slValsetOf[mh]
		if mh+1 < slSynHeights {
			nextID = slValsetOf[mh+1]
		}
		nvs, _ := slValset(nextID)
		cp := slCmtParams(slParamsOf[mh])
		op := slOasisParams(slParamsOf[mh])
		sr := u.state.commit(height, &op, mh)
		txs := slSynTxs(fmt.Sprintf("h%d", mh), slTxCount[mh], sr)
		results := slSynResults(mh, len(txs))
		var data cmttypes.Data
		for _, tx := range txs {
			data.Txs = append(data.Txs, tx)
		}
		hdr := cmttypes.Header{
			Version:            cmtversion.Consensus{Block: 11, App: cp.Version.App},
			ChainID:            slSynChain,
			Height:             height,
			Time:               t0.Add(time.Duration(mh)*6*time.Second + time.Duration(123456789+mh)),
			DataHash:           data.Hash(),
			ValidatorsHash:     vs.Hash(),
			NextValidatorsHash: nvs.Hash(),
			ConsensusHash:      cp.Hash(),
			AppHash:            append([]byte{}, prevSR[:]...),
			EvidenceHash:       cmtmerkle.HashFromByteSlices(nil),
			ProposerAddress:    vs.GetProposer().Address,
		}
		lastCommit := &cmttypes.Commit{}
		if prevHdr != nil {
			hdr.LastBlockID = prevCommit.BlockID
			hdr.LastCommitHash = prevCommit.Hash()
			hdr.LastResultsHash = cmttypes.NewResults(prevResults.TxsResults).Hash()
			lastCommit = prevCommit
		} else {
			// Predecessor of the first synthetic block: a commit by the same validator set.
			pid := cmttypes.BlockID{Hash: bytes.Repeat([]byte{0xab}, 32), PartSetHeader: cmttypes.PartSetHeader{Total: 1, Hash: bytes.Repeat([]byte{0xcd}, 32)}}
			lastCommit = slSignCommit(height-1, pid, vs, privs, hdr.Time.Add(-6*time.Second))
			hdr.LastBlockID = pid
			hdr.LastCommitHash = lastCommit.Hash()
			hdr.LastResultsHash = cmttypes.NewResults(nil).Hash()
		}
		bid := cmttypes.BlockID{Hash: hdr.Hash(), PartSetHeader: cmttypes.PartSetHeader{Total: 1, Hash: bytes.Repeat([]byte{byte(mh + 1)}, 32)}}
		commit := slSignCommit(height, bid, vs, privs, hdr.Time.Add(time.Second))
		lb := &cmttypes.LightBlock{SignedHeader: &cmttypes.SignedHeader{Header: &hdr, Commit: commit}, ValidatorSet: vs}
		slMust(lb.ValidateBasic(slSynChain))
		slMust(vs.VerifyCommitLight(slSynChain, bid, height, commit))
		blk, err := cmtapi.NewBlock(&cmttypes.Block{Header: hdr, Data: data, LastCommit: lastCommit})
		slMust(err)
		vals, err := light.EncodeValidators(vs, height)
		slMust(err)
		pp := cp.ToProto()
		pmeta, err := pp.Marshal()
		slMust(err)
		srCopy := sr
		u.syn[mh] = &slData{
			height: height, lb: lb, block: blk, txs: txs, results: cmtapi.NewBlockResults(results), vals: vals,
			params: &consensusAPI.Parameters{Height: height, Parameters: op, Meta: pmeta}, sr: &srCopy,
		}
		hc := hdr
		prevHdr, prevCommit, prevResults, prevSR = &hc, commit, results, sr
	}
	return u
}

func slSignCommit(height int64, bid cmttypes.BlockID, vs *cmttypes.ValidatorSet, privs []cmted.PrivKey, ts time.Time) *cmttypes.Commit {
	c := &cmttypes.Commit{Height: height, Round: 0, BlockID: bid}
	for i, v := range vs.Validators {
		vote := &cmttypes.Vote{Type: cmtproto.PrecommitType, Height: height, Round: 0, BlockID: bid,
			Timestamp: ts.Add(time.Duration(i) * time.Millisecond), ValidatorAddress: v.Address, ValidatorIndex: int32(i)}
		sig, err := privs[i].Sign(cmttypes.VoteSignBytes(slSynChain, vote.ToProto()))
		slMust(err)
		c.Signatures = append(c.Signatures, cmttypes.CommitSig{BlockIDFlag: cmttypes.BlockIDFlagCommit,
			ValidatorAddress: v.Address, Timestamp: vote.Timestamp, Signature: sig})
	}
	return c
}

// ---------------------------------------------------------------------------------------------
// provider responses

type slResp struct {
	kind    string
	block   *consensusAPI.Block
	txs     [][]byte
	results *consensusAPI.BlockResults
	vals    *consensusAPI.Validators
	params  *consensusAPI.Parameters
}

func slCloneTxs(txs [][]byte) [][]byte {
	if txs == nil {
		return nil
	}
	out := make([][]byte, len(txs))
	for i, t := range txs {
		out[i] = append([]byte{}, t...)
	}
	return out
}

// slHonest returns a deep copy of the honest provider response of the given kind, or nil.
func slHonest(d *slData, kind string) *slResp {
	if d == nil {
		return nil
	}
	r := &slResp{kind: kind}
	switch kind {
	case "block":
		if d.block == nil {
			return nil
		}
		b := *d.block
		b.Meta = append([]byte{}, d.block.Meta...)
		r.block = &b
	case "txs":
		if d.txs == nil {
			return nil
		}
		r.txs = slCloneTxs(d.txs)
	case "results":
		if d.results == nil {
			return nil
		}
		x := *d.results
		x.Meta = append([]byte{}, d.results.Meta...)
		r.results = &x
	case "vals":
		if d.vals == nil {
			return nil
		}
		x := *d.vals
		x.Meta = append([]byte{}, d.vals.Meta...)
		r.vals = &x
	case "params":
		if d.params == nil {
			return nil
		}
		var x consensusAPI.Parameters
		slMust(cbor.Unmarshal(cbor.Marshal(d.params), &x))
		r.params = &x
		r.txs = slCloneTxs(d.txs) // nested transaction list response (state-root fallback)
	}
	return r
}

func slBlockMeta(b *consensusAPI.Block) (*cmtapi.BlockMeta, *cmtproto.Commit) {
	var m cmtapi.BlockMeta
	slMust(cbor.Unmarshal(b.Meta, &m))
	var c cmtproto.Commit
	slMust(c.Unmarshal(m.LastCommit))
	return &m, &c
}

func slSetBlockMeta(b *consensusAPI.Block, m *cmtapi.BlockMeta, c *cmtproto.Commit) {
	if c != nil {
		raw, err := c.Marshal()
		slMust(err)
		m.LastCommit = raw
	}
	b.Meta = cbor.Marshal(m)
}

func slResultsMeta(r *consensusAPI.BlockResults) *cmtapi.BlockResultsMeta {
	m, err := cmtapi.NewBlockResultsMeta(r)
	slMust(err)
	return m
}

func slValsProto(v *consensusAPI.Validators) *cmtproto.ValidatorSet {
	var p cmtproto.ValidatorSet
	slMust(p.Unmarshal(v.Meta))
	return &p
}

func slSetValsProto(v *consensusAPI.Validators, p *cmtproto.ValidatorSet) {
	raw, err := p.Marshal()
	slMust(err)
	v.Meta = raw
}

func slParamsProto(p *consensusAPI.Parameters) *cmtproto.ConsensusParams {
	var pb cmtproto.ConsensusParams
	slMust(pb.Unmarshal(p.Meta))
	return &pb
}

func slSetParamsProto(p *consensusAPI.Parameters, pb *cmtproto.ConsensusParams) {
	raw, err := pb.Marshal()
	slMust(err)
	p.Meta = raw
}

// slApplyFrom overwrites field f of r with the value the honest response src (another height) has.
func slApplyFrom(r, src *slResp, f string) bool {
	switch r.kind + "." + f {
	case "block.height":
		r.block.Height = src.block.Height
	case "block.hash":
		r.block.Hash = src.block.Hash
	case "block.time":
		r.block.Time = src.block.Time
	case "block.sr_version":
		r.block.StateRoot.Version = src.block.StateRoot.Version
	case "block.sr_hash":
		r.block.StateRoot.Hash = src.block.StateRoot.Hash
	case "block.size":
		r.block.Size = src.block.Size
	case "block.meta_header":
		m, _ := slBlockMeta(r.block)
		sm, _ := slBlockMeta(src.block)
		m.Header = sm.Header
		slSetBlockMeta(r.block, m, nil)
	case "block.lc_sigs":
		m, c := slBlockMeta(r.block)
		_, sc := slBlockMeta(src.block)
		c.Signatures = sc.Signatures
		slSetBlockMeta(r.block, m, c)
	case "block.lc_rest":
		m, c := slBlockMeta(r.block)
		_, sc := slBlockMeta(src.block)
		c.Height, c.Round, c.BlockID = sc.Height, sc.Round, sc.BlockID
		slSetBlockMeta(r.block, m, c)
	case "txs.txs", "params.txs":
		r.txs = slCloneTxs(src.txs)
	case "results.height":
		r.results.Height = src.results.Height
	case "results.det", "results.text", "results.events":
		m, sm := slResultsMeta(r.results), slResultsMeta(src.results)
		switch f {
		case "det":
			out := make([]*cmtabci.ResponseDeliverTx, len(sm.TxsResults))
			for i, s := range sm.TxsResults {
				x := *s
				if i < len(m.TxsResults) {
					x.Log, x.Info, x.Codespace, x.Events = m.TxsResults[i].Log, m.TxsResults[i].Info, m.TxsResults[i].Codespace, m.TxsResults[i].Events
				}
				out[i] = &x
			}
			m.TxsResults = out
		case "text":
			for i, x := range m.TxsResults {
				s := sm.TxsResults[i%len(sm.TxsResults)]
				x.Log, x.Info, x.Codespace = s.Log, s.Info, s.Codespace
			}
		case "events":
			m.BeginBlockEvents, m.EndBlockEvents = sm.BeginBlockEvents, sm.EndBlockEvents
			for i, x := range m.TxsResults {
				x.Events = sm.TxsResults[i%len(sm.TxsResults)].Events
			}
		}
		r.results.Meta = cbor.Marshal(m)
	case "vals.height":
		r.vals.Height = src.vals.Height
	case "vals.set":
		p, sp := slValsProto(r.vals), slValsProto(src.vals)
		prio := map[int]int64{}
		for i, v := range p.Validators {
			prio[i] = v.ProposerPriority
		}
		p.Validators = sp.Validators
		for i, v := range p.Validators {
			if pr, ok := prio[i]; ok {
				v.ProposerPriority = pr
			}
		}
		p.Proposer = sp.Proposer
		p.TotalVotingPower = sp.TotalVotingPower
		slSetValsProto(r.vals, p)
	case "vals.unhashed":
		p, sp := slValsProto(r.vals), slValsProto(src.vals)
		for i, v := range p.Validators {
			v.ProposerPriority = sp.Validators[i%len(sp.Validators)].ProposerPriority
		}
		slSetValsProto(r.vals, p)
	case "params.height":
		r.params.Height = src.params.Height
	case "params.hashed":
		pb, sb := slParamsProto(r.params), slParamsProto(src.params)
		pb.Block = sb.Block
		slSetParamsProto(r.params, pb)
	case "params.unhashed":
		pb, sb := slParamsProto(r.params), slParamsProto(src.params)
		pb.Evidence, pb.Validator, pb.Version = sb.Evidence, sb.Validator, sb.Version
		slSetParamsProto(r.params, pb)
	case "params.oasis":
		r.params.Parameters = src.params.Parameters
	default:
		return false
	}
	return true
}

// ---------------------------------------------------------------------------------------------
// field-level alterations ("alt"): named concrete mutations per abstract field

type slMut struct {
	name string
	fn   func(r *slResp) bool
}

func slBytesMuts(get func(r *slResp) *[]byte) []slMut {
	return []slMut{
		{"truncate-1", func(r *slResp) bool { b := get(r); *b = (*b)[:len(*b)-1]; return true }},
		{"byte0^ff", func(r *slResp) bool { b := get(r); (*b)[0] ^= 0xff; return true }},
		{"append-00", func(r *slResp) bool { b := get(r); *b = append(*b, 0); return true }},
		{"empty", func(r *slResp) bool { b := get(r); *b = []byte{}; return true }},
	}
}

func slTxsMuts() []slMut {
	return []slMut{
		{"tx0.byte0^01", func(r *slResp) bool { r.txs[0][0] ^= 1; return true }},
		{"txlast.lastbyte^80", func(r *slResp) bool { t := r.txs[len(r.txs)-1]; t[len(t)-1] ^= 0x80; return true }},
		{"drop-last", func(r *slResp) bool { r.txs = r.txs[:len(r.txs)-1]; return true }},
		{"drop-first", func(r *slResp) bool {
			if len(r.txs) < 2 {
				return false
			}
			r.txs = r.txs[1:]
			return true
		}},
		{"dup-first", func(r *slResp) bool { r.txs = append([][]byte{r.txs[0]}, r.txs...); return true }},
		{"swap-0-1", func(r *slResp) bool {
			if len(r.txs) < 2 {
				return false
			}
			r.txs[0], r.txs[1] = r.txs[1], r.txs[0]
			return true
		}},
		{"append-empty-tx", func(r *slResp) bool { r.txs = append(r.txs, []byte{}); return true }},
		{"empty-list", func(r *slResp) bool { r.txs = [][]byte{}; return true }},
		{"merge-0-1", func(r *slResp) bool {
			if len(r.txs) < 2 {
				return false
			}
			m := append(append([]byte{}, r.txs[0]...), r.txs[1]...)
			r.txs = append([][]byte{m}, r.txs[2:]...)
			return true
		}},
		{"tx0.append-00", func(r *slResp) bool { r.txs[0] = append(r.txs[0], 0); return true }},
	}
}

func slResMut(name string, fn func(m *cmtapi.BlockResultsMeta) bool) slMut {
	return slMut{name, func(r *slResp) bool {
		m := slResultsMeta(r.results)
		if !fn(m) {
			return false
		}
		r.results.Meta = cbor.Marshal(m)
		return true
	}}
}

func slCommitMut(name string, fn func(c *cmtproto.Commit) bool) slMut {
	return slMut{name, func(r *slResp) bool {
		m, c := slBlockMeta(r.block)
		if !fn(c) {
			return false
		}
		slSetBlockMeta(r.block, m, c)
		return true
	}}
}

func slHeaderMut(name string, fn func(h *cmtproto.Header)) slMut {
	return slMut{name, func(r *slResp) bool {
		m, _ := slBlockMeta(r.block)
		var h cmtproto.Header
		slMust(h.Unmarshal(m.Header))
		fn(&h)
		raw, err := h.Marshal()
		slMust(err)
		m.Header = raw
		slSetBlockMeta(r.block, m, nil)
		return true
	}}
}

func slValsMut(name string, fn func(p *cmtproto.ValidatorSet) bool) slMut {
	return slMut{name, func(r *slResp) bool {
		p := slValsProto(r.vals)
		if !fn(p) {
			return false
		}
		slSetValsProto(r.vals, p)
		return true
	}}
}

func slParamsMut(name string, fn func(p *cmtproto.ConsensusParams)) slMut {
	return slMut{name, func(r *slResp) bool {
		p := slParamsProto(r.params)
		fn(p)
		slSetParamsProto(r.params, p)
		return true
	}}
}

// protobuf field 1000, varint 1: unknown to every message involved.
var slUnknownProtoField = []byte{0xc0, 0x3e, 0x01}

var slMuts = map[string][]slMut{
	"block.height": {
		{"+1", func(r *slResp) bool { r.block.Height++; return true }},
		{"-1", func(r *slResp) bool { r.block.Height--; return true }},
		{"=0", func(r *slResp) bool { r.block.Height = 0; return true }},
	},
	"block.hash": {
		{"byte0^01", func(r *slResp) bool { r.block.Hash[0] ^= 1; return true }},
		{"byte31^80", func(r *slResp) bool { r.block.Hash[31] ^= 0x80; return true }},
		{"zero", func(r *slResp) bool { r.block.Hash = hash.Hash{}; return true }},
	},
	"block.time": {
		{"+1s", func(r *slResp) bool { r.block.Time = r.block.Time.Add(time.Second); return true }},
		{"-1s", func(r *slResp) bool { r.block.Time = r.block.Time.Add(-time.Second); return true }},
		{"+1ns", func(r *slResp) bool { r.block.Time = r.block.Time.Add(1); return true }},
		{"zero", func(r *slResp) bool { r.block.Time = time.Time{}; return true }},
		{"other-zone-same-instant", func(r *slResp) bool {
			r.block.Time = r.block.Time.In(time.FixedZone("verif", 5*3600))
			return true
		}},
	},
	"block.sr_ns": {
		{"byte0+1", func(r *slResp) bool { r.block.StateRoot.Namespace[0]++; return true }},
		{"byte31^01", func(r *slResp) bool { r.block.StateRoot.Namespace[31] ^= 1; return true }},
	},
	"block.sr_version": {
		{"+1", func(r *slResp) bool { r.block.StateRoot.Version++; return true }},
		{"-1", func(r *slResp) bool { r.block.StateRoot.Version--; return true }},
	},
	"block.sr_type": {
		{"+1", func(r *slResp) bool { r.block.StateRoot.Type++; return true }},
		{"=0", func(r *slResp) bool { r.block.StateRoot.Type = 0; return true }},
	},
	"block.sr_hash": {
		{"byte0^01", func(r *slResp) bool { r.block.StateRoot.Hash[0] ^= 1; return true }},
		{"zero", func(r *slResp) bool { r.block.StateRoot.Hash = hash.Hash{}; return true }},
	},
	"block.size": {
		{"+1", func(r *slResp) bool { r.block.Size++; return true }},
		{"=0", func(r *slResp) bool { r.block.Size = 0; return true }},
	},
	"block.meta": slBytesMuts(func(r *slResp) *[]byte { return (*[]byte)(&r.block.Meta) }),
	"block.meta_header": {
		slHeaderMut("app_hash.byte0^01", func(h *cmtproto.Header) { h.AppHash[0] ^= 1 }),
		slHeaderMut("height+1", func(h *cmtproto.Header) { h.Height++ }),
		slHeaderMut("time+1ns", func(h *cmtproto.Header) { h.Time = h.Time.Add(1) }),
		slHeaderMut("proposer.byte0^01", func(h *cmtproto.Header) { h.ProposerAddress[0] ^= 1 }),
		slHeaderMut("chain_id+x", func(h *cmtproto.Header) { h.ChainID += "x" }),
		{"unknown-proto-field", func(r *slResp) bool {
			m, _ := slBlockMeta(r.block)
			m.Header = append(m.Header, slUnknownProtoField...)
			slSetBlockMeta(r.block, m, nil)
			return true
		}},
		{"empty", func(r *slResp) bool {
			m, _ := slBlockMeta(r.block)
			m.Header = nil
			slSetBlockMeta(r.block, m, nil)
			return true
		}},
	},
	"block.lc_sigs": {
		slCommitMut("sig0.signature.byte0^01", func(c *cmtproto.Commit) bool { c.Signatures[0].Signature[0] ^= 1; return true }),
		slCommitMut("sig0.timestamp+1ns", func(c *cmtproto.Commit) bool {
			c.Signatures[0].Timestamp = c.Signatures[0].Timestamp.Add(1)
			return true
		}),
		slCommitMut("sig0.address.byte0^01", func(c *cmtproto.Commit) bool { c.Signatures[0].ValidatorAddress[0] ^= 1; return true }),
		slCommitMut("sig0.absent", func(c *cmtproto.Commit) bool {
			c.Signatures[0] = cmtproto.CommitSig{BlockIdFlag: cmtproto.BlockIDFlagAbsent}
			return true
		}),
		slCommitMut("drop-last", func(c *cmtproto.Commit) bool { c.Signatures = c.Signatures[:len(c.Signatures)-1]; return true }),
		slCommitMut("swap-0-1", func(c *cmtproto.Commit) bool {
			c.Signatures[0], c.Signatures[1] = c.Signatures[1], c.Signatures[0]
			return true
		}),
		slCommitMut("dup-last", func(c *cmtproto.Commit) bool {
			c.Signatures = append(c.Signatures, c.Signatures[len(c.Signatures)-1])
			return true
		}),
		{"last_commit-truncate-1", func(r *slResp) bool {
			m, _ := slBlockMeta(r.block)
			m.LastCommit = m.LastCommit[:len(m.LastCommit)-1]
			slSetBlockMeta(r.block, m, nil)
			return true
		}},
	},
	"block.lc_rest": {
		slCommitMut("height+1", func(c *cmtproto.Commit) bool { c.Height++; return true }),
		slCommitMut("round+1", func(c *cmtproto.Commit) bool { c.Round++; return true }),
		slCommitMut("block_id.hash.byte0^01", func(c *cmtproto.Commit) bool { c.BlockID.Hash[0] ^= 1; return true }),
		slCommitMut("block_id.parts.total+1", func(c *cmtproto.Commit) bool { c.BlockID.PartSetHeader.Total++; return true }),
		slCommitMut("block_id.parts.hash.byte0^01", func(c *cmtproto.Commit) bool { c.BlockID.PartSetHeader.Hash[0] ^= 1; return true }),
		slCommitMut("height=-1", func(c *cmtproto.Commit) bool { c.Height = -1; return true }),
		{"unknown-proto-field", func(r *slResp) bool {
			m, _ := slBlockMeta(r.block)
			m.LastCommit = append(m.LastCommit, slUnknownProtoField...)
			slSetBlockMeta(r.block, m, nil)
			return true
		}},
	},
	"txs.txs":    slTxsMuts(),
	"params.txs": slTxsMuts(),
	"results.height": {
		{"+1", func(r *slResp) bool { r.results.Height++; return true }},
		{"-1", func(r *slResp) bool { r.results.Height--; return true }},
	},
	"results.meta": slBytesMuts(func(r *slResp) *[]byte { return (*[]byte)(&r.results.Meta) }),
	"results.det": {
		slResMut("tx0.code+1", func(m *cmtapi.BlockResultsMeta) bool { m.TxsResults[0].Code++; return true }),
		slResMut("tx0.data+x", func(m *cmtapi.BlockResultsMeta) bool {
			m.TxsResults[0].Data = append(append([]byte{}, m.TxsResults[0].Data...), 'x')
			return true
		}),
		slResMut("tx0.gas_wanted+1", func(m *cmtapi.BlockResultsMeta) bool { m.TxsResults[0].GasWanted++; return true }),
		slResMut("txlast.gas_used+1", func(m *cmtapi.BlockResultsMeta) bool { m.TxsResults[len(m.TxsResults)-1].GasUsed++; return true }),
		slResMut("drop-last", func(m *cmtapi.BlockResultsMeta) bool { m.TxsResults = m.TxsResults[:len(m.TxsResults)-1]; return true }),
		slResMut("append-empty", func(m *cmtapi.BlockResultsMeta) bool {
			m.TxsResults = append(m.TxsResults, &cmtabci.ResponseDeliverTx{})
			return true
		}),
		slResMut("dup-first", func(m *cmtapi.BlockResultsMeta) bool {
			m.TxsResults = append([]*cmtabci.ResponseDeliverTx{m.TxsResults[0]}, m.TxsResults...)
			return true
		}),
		slResMut("all-empty", func(m *cmtapi.BlockResultsMeta) bool { m.TxsResults = nil; return true }),
	},
	"results.text": {
		slResMut("tx0.log", func(m *cmtapi.BlockResultsMeta) bool { m.TxsResults[0].Log = "forged log"; return true }),
		slResMut("tx0.info", func(m *cmtapi.BlockResultsMeta) bool { m.TxsResults[0].Info = "forged info"; return true }),
		slResMut("tx0.codespace", func(m *cmtapi.BlockResultsMeta) bool { m.TxsResults[0].Codespace = "forged"; return true }),
	},
	"results.events": {
		slResMut("tx0.events.drop", func(m *cmtapi.BlockResultsMeta) bool { m.TxsResults[0].Events = nil; return true }),
		slResMut("begin.append", func(m *cmtapi.BlockResultsMeta) bool {
			m.BeginBlockEvents = append(m.BeginBlockEvents, cmtabci.Event{Type: "oasis_event_forged"})
			return true
		}),
		slResMut("end.drop", func(m *cmtapi.BlockResultsMeta) bool { m.EndBlockEvents = nil; return true }),
	},
	"vals.height": {
		{"+1", func(r *slResp) bool { r.vals.Height++; return true }},
		{"-1", func(r *slResp) bool { r.vals.Height--; return true }},
	},
	"vals.meta": slBytesMuts(func(r *slResp) *[]byte { return &r.vals.Meta }),
	"vals.set": {
		slValsMut("v0.power+1", func(p *cmtproto.ValidatorSet) bool { p.Validators[0].VotingPower++; return true }),
		slValsMut("drop-last", func(p *cmtproto.ValidatorSet) bool { p.Validators = p.Validators[:len(p.Validators)-1]; return true }),
		slValsMut("swap-0-1", func(p *cmtproto.ValidatorSet) bool {
			p.Validators[0], p.Validators[1] = p.Validators[1], p.Validators[0]
			return true
		}),
		slValsMut("v0.pubkey", func(p *cmtproto.ValidatorSet) bool {
			pk := slPriv(99).PubKey()
			v := cmttypes.NewValidator(pk, p.Validators[0].VotingPower)
			vp, err := v.ToProto()
			slMust(err)
			vp.ProposerPriority = p.Validators[0].ProposerPriority
			p.Validators[0] = vp
			return true
		}),
		slValsMut("append", func(p *cmtproto.ValidatorSet) bool {
			vp, err := cmttypes.NewValidator(slPriv(98).PubKey(), 1).ToProto()
			slMust(err)
			p.Validators = append(p.Validators, vp)
			return true
		}),
	},
	"vals.unhashed": {
		slValsMut("v0.priority+7", func(p *cmtproto.ValidatorSet) bool { p.Validators[0].ProposerPriority += 7; return true }),
		slValsMut("proposer=other", func(p *cmtproto.ValidatorSet) bool {
			for _, v := range p.Validators {
				if !bytes.Equal(v.Address, p.Proposer.Address) {
					p.Proposer = v
					return true
				}
			}
			return false
		}),
		slValsMut("total_voting_power+1", func(p *cmtproto.ValidatorSet) bool { p.TotalVotingPower++; return true }),
		slValsMut("v0.address.byte0^01", func(p *cmtproto.ValidatorSet) bool {
			p.Validators[0].Address = append([]byte{}, p.Validators[0].Address...)
			p.Validators[0].Address[0] ^= 1
			return true
		}),
		slValsMut("proposer=nil", func(p *cmtproto.ValidatorSet) bool { p.Proposer = nil; return true }),
	},
	"params.height": {
		{"+1", func(r *slResp) bool { r.params.Height++; return true }},
		{"-1", func(r *slResp) bool { r.params.Height--; return true }},
	},
	"params.meta": {
		{"truncate-1", func(r *slResp) bool { r.params.Meta = r.params.Meta[:len(r.params.Meta)-1]; return true }},
		{"byte0^ff", func(r *slResp) bool { r.params.Meta[0] ^= 0xff; return true }},
		{"empty", func(r *slResp) bool { r.params.Meta = []byte{}; return true }},
		slParamsMut("no-version-submessage", func(p *cmtproto.ConsensusParams) { p.Version = nil }),
		slParamsMut("no-evidence-submessage", func(p *cmtproto.ConsensusParams) { p.Evidence = nil }),
	},
	"params.hashed": {
		slParamsMut("block.max_bytes+1", func(p *cmtproto.ConsensusParams) { p.Block.MaxBytes++ }),
		slParamsMut("block.max_gas+1", func(p *cmtproto.ConsensusParams) { p.Block.MaxGas++ }),
	},
	"params.unhashed": {
		slParamsMut("evidence.max_age_num_blocks+1", func(p *cmtproto.ConsensusParams) { p.Evidence.MaxAgeNumBlocks++ }),
		slParamsMut("evidence.max_bytes+1", func(p *cmtproto.ConsensusParams) { p.Evidence.MaxBytes++ }),
		slParamsMut("validator.pub_key_types+secp256k1", func(p *cmtproto.ConsensusParams) {
			p.Validator.PubKeyTypes = append(append([]string{}, p.Validator.PubKeyTypes...), "secp256k1")
		}),
		slParamsMut("version.app+1", func(p *cmtproto.ConsensusParams) { p.Version.App++ }),
	},
	"params.oasis": {
		{"max_tx_size+1", func(r *slResp) bool { r.params.Parameters.MaxTxSize++; return true }},
		{"min_gas_price+1", func(r *slResp) bool { r.params.Parameters.MinGasPrice++; return true }},
		{"skip_timeout_commit", func(r *slResp) bool {
			r.params.Parameters.SkipTimeoutCommit = !r.params.Parameters.SkipTimeoutCommit
			return true
		}},
	},
}

// slBuild builds the concrete provider response of an abstract case.  variant selects the concrete
// mutation of each "alt" field (mixed radix over the fields' mutation lists); ok=false when the universe
// lacks the data or the variant does not exist / does not apply.
func slBuild(u *slUniverse, o *slOp, variant []int) (r *slResp, conc string, ok bool) {
	kind := slKindOf(o.Req)
	anchor := slAnchor(o)
	base := o.H
	if o.Whole != 0 {
		base = o.Whole
	}
	r = slHonest(u.at(anchor, base), kind)
	if r == nil {
		return nil, "", false
	}
	var names []string
	if o.Whole != 0 {
		names = append(names, fmt.Sprintf("response-of-height-%d", u.at(anchor, base).height))
	}
	// Apply "from" fields first, structured alterations next, damage to the encoding ("meta") last, so that
	// every alteration operates on a decodable response.
	idx := make([]int, len(o.Alts))
	for i := range idx {
		idx[i] = i
	}
	rank := func(a slAlt) int {
		switch {
		case a.K == "from":
			return 0
		case a.F == "meta":
			return 2
		}
		return 1
	}
	sort.SliceStable(idx, func(i, j int) bool { return rank(o.Alts[idx[i]]) < rank(o.Alts[idx[j]]) })
	okAll := true
	if err := guard(func() {
		for _, i := range idx {
			a := o.Alts[i]
			switch a.K {
			case "from":
				src := slHonest(u.at(anchor, a.H), kind)
				if src == nil || !slApplyFrom(r, src, a.F) {
					okAll = false
					return
				}
				names = append(names, fmt.Sprintf("%s=of-height-%d", a.F, u.at(anchor, a.H).height))
			case "alt":
				ms := slMuts[kind+"."+a.F]
				if variant[i] >= len(ms) || !ms[variant[i]].fn(r) {
					okAll = false
					return
				}
				names = append(names, a.F+":"+ms[variant[i]].name)
			}
		}
	}); err != nil || !okAll {
		return nil, "", false
	}
	return r, strings.Join(names, " "), true
}

func slVariants(o *slOp, thorough bool) [][]int {
	kind := slKindOf(o.Req)
	var dims []int
	nalt := 0
	for _, a := range o.Alts {
		n := 1
		if a.K == "alt" {
			n = len(slMuts[kind+"."+a.F])
			nalt++
		}
		dims = append(dims, n)
	}
	limit := 0 // 0: every variant
	if nalt >= 2 || (nalt == 1 && len(o.Alts) > 1) {
		limit = 1
		if thorough {
			limit = 2
		}
	}
	out := [][]int{{}}
	for _, n := range dims {
		if limit > 0 && n > limit {
			n = limit
		}
		var next [][]int
		for _, p := range out {
			for v := 0; v < n; v++ {
				next = append(next, append(append([]int{}, p...), v))
			}
		}
		out = next
	}
	return out
}

// ---------------------------------------------------------------------------------------------
// semantic projections

func slHex(b []byte) string { return hex.EncodeToString(b) }

func slDigest(parts ...[]byte) string {
	h := sha256.New()
	for _, p := range parts {
		fmt.Fprintf(h, "%d:", len(p))
		h.Write(p)
	}
	return slHex(h.Sum(nil)[:12])
}

func slProtoDigest(m interface{ Marshal() ([]byte, error) }) string {
	b, err := m.Marshal()
	if err != nil {
		return "unmarshalable:" + err.Error()
	}
	return slDigest(b)
}

// Components prefixed "x:" are documented as non-verifiable in the code and excluded from the verdict.
func slProjBlock(b *consensusAPI.Block) map[string]string {
	p := map[string]string{
		"height":     fmt.Sprint(b.Height),
		"hash":       slHex(b.Hash[:]),
		"time":       fmt.Sprint(b.Time.UnixNano()),
		"state_root": fmt.Sprintf("%x/%d/%d/%x", b.StateRoot.Namespace[:], b.StateRoot.Version, b.StateRoot.Type, b.StateRoot.Hash[:]),
		"x:size":     fmt.Sprint(b.Size),
	}
	var m cmtapi.BlockMeta
	if err := cbor.Unmarshal(b.Meta, &m); err != nil {
		p["meta"] = "undecodable"
		return p
	}
	var ph cmtproto.Header
	if err := ph.Unmarshal(m.Header); err != nil {
		p["header"] = "undecodable"
	} else if h, err := cmttypes.HeaderFromProto(&ph); err != nil {
		p["header"] = "invalid"
	} else {
		p["header"] = slProtoDigest(h.ToProto())
	}
	var pc cmtproto.Commit
	if err := pc.Unmarshal(m.LastCommit); err != nil {
		p["last_commit"] = "undecodable"
		return p
	}
	c, err := cmttypes.CommitFromProto(&pc)
	if err != nil {
		p["last_commit"] = "invalid"
		return p
	}
	var sigs [][]byte
	for _, s := range c.Signatures {
		raw, _ := s.ToProto().Marshal()
		sigs = append(sigs, raw)
	}
	p["last_commit.signatures"] = slDigest(sigs...)
	p["last_commit.height"] = fmt.Sprint(c.Height)
	p["last_commit.round"] = fmt.Sprint(c.Round)
	bid := c.BlockID.ToProto()
	p["last_commit.block_id"] = slProtoDigest(&bid)
	return p
}

func slProjTxs(txs [][]byte) map[string]string {
	return map[string]string{"txs": fmt.Sprintf("%d:%s", len(txs), slDigest(txs...))}
}

func slProjResults(r *consensusAPI.BlockResults) map[string]string {
	p := map[string]string{"height": fmt.Sprint(r.Height)}
	m, err := cmtapi.NewBlockResultsMeta(r)
	if err != nil {
		p["meta"] = "undecodable"
		return p
	}
	var det, text, ev [][]byte
	for _, t := range m.TxsResults {
		if t == nil {
			t = &cmtabci.ResponseDeliverTx{}
		}
		det = append(det, []byte(fmt.Sprintf("%d/%x/%d/%d", t.Code, t.Data, t.GasWanted, t.GasUsed)))
		text = append(text, []byte(fmt.Sprintf("%q/%q/%q", t.Log, t.Info, t.Codespace)))
		ev = append(ev, cbor.Marshal(t.Events))
	}
	ev = append(ev, cbor.Marshal(m.BeginBlockEvents), cbor.Marshal(m.EndBlockEvents))
	p["results.det"] = fmt.Sprintf("%d:%s", len(det), slDigest(det...))
	p["results.text"] = slDigest(text...)
	p["x:results.events"] = slDigest(ev...)
	return p
}

func slProjVals(v *consensusAPI.Validators) map[string]string {
	p := map[string]string{"height": fmt.Sprint(v.Height)}
	vs, err := light.DecodeValidators(v)
	if err != nil {
		p["meta"] = "undecodable"
		return p
	}
	var set, addr, prio [][]byte
	for _, x := range vs.Validators {
		set = append(set, []byte(fmt.Sprintf("%x/%d", x.PubKey.Bytes(), x.VotingPower)))
		addr = append(addr, x.Address)
		prio = append(prio, []byte(fmt.Sprint(x.ProposerPriority)))
	}
	p["validators.set"] = fmt.Sprintf("%d:%s", len(set), slDigest(set...))
	p["validators.address"] = slDigest(addr...)
	p["validators.priority"] = slDigest(prio...)
	p["validators.proposer"] = "nil"
	if vs.Proposer != nil {
		p["validators.proposer"] = fmt.Sprintf("%x/%x/%d", vs.Proposer.Address, vs.Proposer.PubKey.Bytes(), vs.Proposer.VotingPower)
	}
	return p
}

func slProjParams(x *consensusAPI.Parameters) map[string]string {
	p := map[string]string{"height": fmt.Sprint(x.Height), "params.oasis": slDigest(cbor.Marshal(x.Parameters))}
	var pb cmtproto.ConsensusParams
	if err := pb.Unmarshal(x.Meta); err != nil {
		p["meta"] = "undecodable"
		return p
	}
	p["params.cmt.block"] = fmt.Sprintf("%d/%d", pb.GetBlock().GetMaxBytes(), pb.GetBlock().GetMaxGas())
	p["params.cmt.evidence"] = fmt.Sprintf("%d/%d/%d", pb.GetEvidence().GetMaxAgeNumBlocks(), pb.GetEvidence().GetMaxAgeDuration(), pb.GetEvidence().GetMaxBytes())
	p["params.cmt.validator"] = strings.Join(pb.GetValidator().GetPubKeyTypes(), ",")
	p["params.cmt.version"] = fmt.Sprint(pb.GetVersion().GetApp())
	p["params.cmt.present"] = fmt.Sprintf("%v/%v/%v/%v", pb.Block != nil, pb.Evidence != nil, pb.Validator != nil, pb.Version != nil)
	return p
}

func slProject(r *slResp) map[string]string {
	switch r.kind {
	case "block":
		return slProjBlock(r.block)
	case "txs":
		return slProjTxs(r.txs)
	case "results":
		return slProjResults(r.results)
	case "vals":
		return slProjVals(r.vals)
	case "params":
		return slProjParams(r.params)
	}
	return nil
}

// slDiff lists the components in which two projections differ: verdict-relevant ones and excluded ones.
func slDiff(a, b map[string]string) (diff, xdiff []string) {
	keys := map[string]bool{}
	for k := range a {
		keys[k] = true
	}
	for k := range b {
		keys[k] = true
	}
	for k := range keys {
		if a[k] != b[k] {
			if strings.HasPrefix(k, "x:") {
				xdiff = append(xdiff, k[2:])
			} else {
				diff = append(diff, k)
			}
		}
	}
	sort.Strings(diff)
	sort.Strings(xdiff)
	return
}

// slClass names the class of an accepted content difference: the components no header hash covers are
// grouped; anything else is named by the components themselves.
func slClass(kind string, diff []string) string {
	if len(diff) == 0 {
		return ""
	}
	groups := map[string]string{
		"last_commit.height": "block.last_commit.unhashed", "last_commit.round": "block.last_commit.unhashed",
		"last_commit.block_id": "block.last_commit.unhashed",
		"results.text":         "results.text",
		"validators.priority":  "validators.unhashed", "validators.proposer": "validators.unhashed",
		"params.cmt.evidence": "params.cmt.unhashed", "params.cmt.validator": "params.cmt.unhashed",
		"params.cmt.version": "params.cmt.unhashed",
	}
	cls := ""
	for _, d := range diff {
		g, ok := groups[d]
		if !ok {
			return "bound:" + kind + ":" + strings.Join(diff, ",")
		}
		if cls != "" && cls != g {
			return "bound:" + kind + ":" + strings.Join(diff, ",")
		}
		cls = g
	}
	return cls
}

// slErrClass maps the code's error text to the model's error class (used for drift accounting only).
func slErrClass(err error) string {
	if err == nil {
		return "ok"
	}
	s := err.Error()
	for _, m := range [][2]string{
		{"failed to query consensus", "state_root"}, {"failed to get state root", "state_root"},
		{"mismatched block height", "height"}, {"mismatched block hash", "hash"}, {"mismatched block time", "time"},
		{"state root namespace", "sr_ns"}, {"state root version", "sr_version"}, {"state root type", "sr_type"},
		{"state root hash", "sr_hash"}, {"malformed block meta last commit", "lastcommit"}, {"malformed block meta header", "meta_header"},
		{"malformed block meta", "meta_malformed"}, {"mismatched block meta header", "meta_header"},
		{"mismatched block meta last commit", "lastcommit"}, {"failed to verify transactions", "txs"},
		{"mismatched last results hash", "lastres"}, {"malformed block results", "results_malformed"},
		{"mismatched next validator set", "nextvals"}, {"failed to unmarshal validators", "vals_malformed"},
		{"failed to convert validators", "vals_malformed"}, {"malformed parameters", "params_malformed"},
		{"mismatched consensus parameters hash", "cons_hash"}, {"mismatched parameters", "params_mismatch"},
		{"failed to verify proof", "proof"}, {"failed to verify light block", "no_light_block"},
		{"failed to resolve height", "no_light_block"}, {"failed to query consensus", "state_root"},
		{"failed to get state root", "state_root"}, {"malformed block metadata transaction", "txs_meta"},
		{"malformed block transactions", "txs_meta"}, {"version not found", "not_found"},
	} {
		if strings.Contains(s, m[0]) {
			return m[1]
		}
	}
	return "other"
}

func slShort(s string, n int) string {
	if i := strings.IndexByte(s, '\n'); i >= 0 {
		s = s[:i]
	}
	if len(s) > n {
		s = s[:n]
	}
	return s
}
