package main

// C18: attest-vectors (scenario table for TLC), attest-replay (cases emitted by TLC -> real Verify -> trace),
// attest-one (re-execute one recorded concrete example).

import (
	"bufio"
	"bytes"
	"encoding/json"
	"flag"
	"fmt"
	"hash/fnv"
	"math/rand"
	"os"
	"runtime"
	"runtime/pprof"
	"sort"
	"strings"
	"sync"
	"time"

	"github.com/oasisprotocol/oasis-core/go/common/sgx/pcs"
)

func init() {
	register("attest-vectors", "C18: write the scenario table (vectors, time classes, policy classes, regions) for TLC", attestVectors)
	register("attest-replay", "C18: concretise TLC-emitted cases on the real quote vectors, call QuoteBundle.Verify, record a trace", attestReplay)
	register("attest-one", "C18: re-execute recorded concrete examples (replay files) and print their events", attestOne)
}

// ---------------------------------------------------------------------------------------------

type attPol struct {
	Disabled bool   `json:"disabled"`
	EvQE     string `json:"evqe"`
	EvTCB    string `json:"evtcb"`
	BL       string `json:"bl"`
	WL       string `json:"wl"`
	TDX      string `json:"tdx"`
}

type attCase struct {
	SID  string            `json:"sid"`
	TID  string            `json:"tid"`
	EID  string            `json:"eid"`
	Tee  string            `json:"tee"`
	Mut  []string          `json:"mut"`
	Pos  map[string]string `json:"pos"`
	NU   map[string]string `json:"nu"`
	Pol  attPol            `json:"pol"`
	Coll map[string]bool   `json:"coll"`
	St   map[string]string `json:"st"`
	Dev  int               `json:"dev"` // deviations other than mutations
	Exp  []string          `json:"exp"`
}

// concrete, self-contained description of one executed call (enough for attest-one)
type attExample struct {
	SID       string           `json:"sid"`
	Unix      int64            `json:"unix"`
	Nsec      int64            `json:"nsec"`
	NilPolicy bool             `json:"nil_policy"`
	Policy    *pcs.QuotePolicy `json:"policy,omitempty"`
	Muts      []attMut         `json:"muts"`
	Err       string           `json:"err"`
}

type attEvent struct {
	Ev       string            `json:"ev"`
	SID      string            `json:"sid"`
	TID      string            `json:"tid,omitempty"`
	EID      string            `json:"eid,omitempty"`
	Tee      string            `json:"tee,omitempty"`
	Mut      []string          `json:"mut"`
	Pos      map[string]string `json:"pos,omitempty"`
	NU       map[string]string `json:"nu,omitempty"`
	Pol      *attPol           `json:"pol,omitempty"`
	Coll     map[string]bool   `json:"coll,omitempty"`
	St       map[string]string `json:"st,omitempty"`
	Kind     string            `json:"kind,omitempty"` // "none" | "bit" | "pattern"
	Mutated  bool              `json:"mutated"`
	Accepted bool              `json:"accepted"`
	SameID   bool              `json:"same_id"`
	SameRD   bool              `json:"same_rd"`
	Label    string            `json:"label,omitempty"`
	Panic    bool              `json:"panic"`
	Drift    bool              `json:"drift"`
	N        int               `json:"n"` // concrete executions with this outcome (the first one is `ex`)
	Ex       *attExample       `json:"ex,omitempty"`
	seq      int
	nbit     int
}

type attRunner struct {
	env    *attEnv
	scen   map[string]*attScen
	times  map[string]*attTime
	evals  map[string]*attEval
	qpool  map[string]*attPool
	tpool  map[string]*attPool
	epool  map[string]*attPool
	cpool  *attPool
	seed   int64
	nbits  int
	sweep  bool
	stride int
}

func newRunner(vps []int, allInstants bool) (*attRunner, []*attScen, error) {
	env, err := attLoad()
	if err != nil {
		return nil, nil, err
	}
	r := &attRunner{env: env, scen: map[string]*attScen{}, times: map[string]*attTime{}, evals: map[string]*attEval{},
		qpool: map[string]*attPool{}, tpool: map[string]*attPool{}, epool: map[string]*attPool{}}
	for n, q := range env.quotes {
		r.qpool[n] = env.quotePool(q)
		// sanity: the TDX vectors are Intel-signed modules (mrSignerSeam = 0), which the "any" policy class relies on
		if q.tee == "tdx" {
			o := q.lay.body[0]
			if !bytes.Equal(q.raw[o+64:o+112], make([]byte, 48)) {
				return nil, nil, fmt.Errorf("vector %s: mrSignerSeam is not Intel's", n)
			}
		}
	}
	for n, c := range env.colls {
		r.tpool[n] = env.tcbPool(c)
		r.epool[n] = env.qeidPool(c)
	}
	r.cpool = env.certsPool()
	scs, err := env.scenarios(vps, allInstants)
	if err != nil {
		return nil, nil, err
	}
	for _, s := range scs {
		regs := map[string]bool{}
		for _, p := range []*attPool{r.qpool[s.Quote], r.tpool[s.TcbSet], r.epool[s.QeSet], r.cpool} {
			for k, v := range p.bits {
				if len(v) > 0 {
					regs[k] = true
				}
			}
			for k, v := range p.pats {
				if len(v) > 0 {
					regs[k] = true
				}
			}
		}
		s.Regions = sortedKeys(regs)
		r.scen[s.SID] = s
		for i := range s.Times {
			r.times[s.SID+"|"+s.Times[i].TID] = &s.Times[i]
		}
		for i := range s.Evals {
			r.evals[s.SID+"|"+s.Evals[i].EID] = &s.Evals[i]
		}
	}
	return r, scs, nil
}

func parseVPs(s string) []int {
	var out []int
	for _, f := range strings.Split(s, ",") {
		var v int
		if _, err := fmt.Sscanf(strings.TrimSpace(f), "%d", &v); err == nil {
			out = append(out, v)
		}
	}
	return out
}

func attestVectors(args []string) int {
	fs := flag.NewFlagSet("attest-vectors", flag.ExitOnError)
	out := fs.String("out", "-", "scenario table (JSON array)")
	vps := fs.String("vp", "30,500", "TCB validity periods (days) to derive time classes for")
	all := fs.Bool("all-instants", false, "keep every boundary instant, not one per time class")
	_ = fs.Parse(args)
	_, scs, err := newRunner(parseVPs(*vps), *all)
	if err != nil {
		fmt.Fprintln(os.Stderr, "attest-vectors:", err)
		return 2
	}
	w, err := openOut(*out)
	if err != nil {
		fmt.Fprintln(os.Stderr, err)
		return 2
	}
	defer w.Close()
	_, _ = w.Write(mustJSON(scs))
	return 0
}

// ---------------------------------------------------------------------------------------------
// policy

func (r *attRunner) policy(sc *attScen, c *attCase, tm *attTime, ev *attEval, rng *rand.Rand) (*pcs.QuotePolicy, bool) {
	q := r.env.quotes[sc.Quote]
	fm := r.env.colls[sc.TcbSet].tcb.FMSPC
	p := c.Pol
	if !p.Disabled && tm.VP == 30 && ev.Min == pcs.DefaultMinTCBEvaluationDataNumber && p.BL == "miss" && p.WL == "none" && p.TDX == "nil" {
		return nil, true // exactly the built-in default policy
	}
	pol := &pcs.QuotePolicy{Disabled: p.Disabled, TCBValidityPeriod: uint16(tm.VP), MinTCBEvaluationDataNumber: ev.Min}
	decoy := "FFFFFFFFFFFF"
	switch p.BL {
	case "hit":
		pol.FMSPCBlacklist = []string{fm}
		if rng.Intn(2) == 0 {
			pol.FMSPCBlacklist = []string{decoy, fm}
		}
	case "hit_case":
		pol.FMSPCBlacklist = []string{string(flipCase([]byte(fm)))}
	case "miss":
		if rng.Intn(2) == 0 {
			pol.FMSPCBlacklist = []string{decoy}
		}
	}
	switch p.WL {
	case "hit":
		pol.FMSPCWhitelist = []string{fm}
		if rng.Intn(2) == 0 {
			pol.FMSPCWhitelist = []string{decoy, fm}
		}
	case "miss":
		pol.FMSPCWhitelist = []string{decoy}
	}
	var signer, seam [48]byte
	if q.tee == "tdx" {
		o := q.lay.body[0]
		copy(seam[:], q.raw[o+16:o+64])
		copy(signer[:], q.raw[o+64:o+112])
	}
	switch p.TDX {
	case "any":
		pol.TDX = &pcs.TdxQuotePolicy{}
	case "allowed":
		m := pcs.TdxModulePolicy{MrSignerSeam: signer}
		if rng.Intn(2) == 0 {
			s := seam
			m.MrSeam = &s
		}
		pol.TDX = &pcs.TdxQuotePolicy{AllowedTdxModules: []pcs.TdxModulePolicy{m}}
		if rng.Intn(2) == 0 {
			var other [48]byte
			other[5] = 9
			pol.TDX.AllowedTdxModules = []pcs.TdxModulePolicy{{MrSignerSeam: other}, m}
		}
	case "notallowed":
		// an entry matches only if every field it pins matches: wrong signer alone, wrong measurement with the right
		// signer, the right measurement with a wrong signer, and a list of two entries each wrong in one field
		var m pcs.TdxModulePolicy
		m.MrSignerSeam = signer
		switch rng.Intn(4) {
		case 0:
			m.MrSignerSeam[0] ^= 1
		case 1:
			s := seam
			s[47] ^= 0x80
			m.MrSeam = &s
		case 2:
			s := seam
			m.MrSeam = &s
			m.MrSignerSeam[rng.Intn(48)] ^= 1 << uint(rng.Intn(8))
		}
		pol.TDX = &pcs.TdxQuotePolicy{AllowedTdxModules: []pcs.TdxModulePolicy{m}}
		if m.MrSignerSeam == signer && m.MrSeam == nil { // case 3
			s1, s2 := seam, seam
			s2[0] ^= 4
			w := signer
			w[47] ^= 2
			pol.TDX.AllowedTdxModules = []pcs.TdxModulePolicy{{MrSeam: &s1, MrSignerSeam: w}, {MrSeam: &s2, MrSignerSeam: signer}}
		}
	}
	return pol, false
}

// ---------------------------------------------------------------------------------------------
// label of a rejection (which check of the code fired), from the error text

func attLabel(err error) string {
	if err == nil {
		return "accept"
	}
	s := err.Error()
	has := func(x string) bool { return strings.Contains(s, x) }
	switch {
	case has("PCS quotes are disabled"):
		return "disabled"
	case has("disallowed debug/production"):
		return "debug"
	case has("TEE type not allowed"):
		return "tdx_nil"
	case has("TDX module not allowed"):
		return "tdx_module"
	case has("failed to verify PCK certificate chain"), has("pcs/quote: unexpected certificate chain length"),
		has("no PCK certificate chain"), has("pcs/quote: unexpected root"), has("pcs/quote: unexpected number of chains"),
		has("bad X509 SGX extensions"), has("bad FMSPC"), has("missing FMSPC"), has("bad TCB value"), has("bad TCB component"),
		has("bad PCESVN"), has("bad CPUSVN"), has("PCK certificate with non-ECDSA"):
		return "pck"
	case has("failed to verify QE report signature"):
		return "qesig"
	case has("QE report data does not match"):
		return "qebind"
	case has("failed to verify TCB info certificate chain"), has("pcs/tcb: bad X509 certificate in TCB bundle"),
		has("pcs/tcb: unexpected certificate chain length"), has("pcs/tcb: unexpected root"),
		has("pcs/tcb: unexpected number of chains"), has("TCB certificate with non-ECDSA"):
		return "signchain"
	case has("failed to verify QE identity"):
		switch {
		case has("TCB signature verification failed"), has("malformed signature"), has("encoding/hex"):
			return "qeid_sig"
		case has("unexpected QE identity ID"):
			return "qeid_id"
		case has("issue date in the future"), has("QE identity expired"):
			return "qeid_time"
		case has("invalid QE evaluation data number"):
			return "qeid_eval"
		case has("malformed QE identity body"), has("unexpected QE identity version"), has("invalid issue date"), has("invalid next update"):
			return "qeid_body"
		}
		return "qeid_match"
	case has("failed to verify TCB info"):
		switch {
		case has("TCB signature verification failed"), has("malformed signature"), has("encoding/hex"):
			return "tcb_sig"
		case has("unexpected TCB info identifier"):
			return "tcb_id"
		case has("issue date in the future"), has("TCB info expired"):
			return "tcb_time"
		case has("invalid TCB evaluation data number"):
			return "tcb_eval"
		case has("not whitelisted"):
			return "tcb_wl"
		case has("is blacklisted"):
			return "tcb_bl"
		case has("failed to validate FMSPC"):
			return "fmspc"
		case has("failed to validate TCB level"):
			return "tcb_level"
		}
		return "tcb_body"
	case has("missing TCB bundle"):
		return "signchain"
	case has("failed to verify quote signature"), has("invalid attestation public key"):
		return "qsig"
	case has("pcs/quote:"), has("pcs/certificates:"):
		return "parse"
	}
	return "unknown"
}

// ---------------------------------------------------------------------------------------------
// one execution

type attResult struct {
	accepted, sameID, sameRD, panicked bool
	label, err                         string
}

func (r *attRunner) files(sc *attScen) map[string][]byte {
	t, e := r.env.colls[sc.TcbSet], r.env.colls[sc.QeSet]
	return map[string][]byte{fQuote: r.env.quotes[sc.Quote].raw, fTcb: t.tcbBody, fTcbSig: []byte(t.tcbSig),
		fQeid: e.qeBody, fQeidSig: []byte(e.qeSig), fCerts: r.env.certs}
}

func (r *attRunner) execute(sc *attScen, files map[string][]byte, pol *pcs.QuotePolicy, ts time.Time) attResult {
	q := r.env.quotes[sc.Quote]
	var res attResult
	perr := guard(func() {
		qb := pcs.QuoteBundle{
			Quote: files[fQuote],
			TCB: pcs.TCBBundle{
				TCBInfo:      pcs.SignedTCBInfo{TCBInfo: json.RawMessage(files[fTcb]), Signature: string(files[fTcbSig])},
				QEIdentity:   pcs.SignedQEIdentity{EnclaveIdentity: json.RawMessage(files[fQeid]), Signature: string(files[fQeidSig])},
				Certificates: files[fCerts],
			},
		}
		vq, err := qb.Verify(pol, ts)
		if err != nil {
			res.label, res.err = attLabel(err), err.Error()
			if res.label == "parse" || res.label == "unknown" {
				// distinguish the parsing stage by calling it alone
				var qq pcs.Quote
				if qq.UnmarshalBinary(files[fQuote]) == nil && res.label == "parse" {
					res.label = "unknown"
				}
			}
			return
		}
		res.accepted, res.label = true, "accept"
		var id [64]byte
		copy(id[:32], vq.Identity.MrEnclave[:])
		copy(id[32:], vq.Identity.MrSigner[:])
		res.sameID = id == q.origID
		res.sameRD = bytes.Equal(vq.ReportData, q.origRD)
	})
	if perr != nil {
		res = attResult{panicked: true, label: "panic", err: perr.Error()}
	}
	if len(res.err) > 240 {
		res.err = res.err[:240]
	}
	return res
}

// ---------------------------------------------------------------------------------------------
// concretisation of one abstract case

func (r *attRunner) poolFor(sc *attScen, region string) *attPool {
	switch {
	case strings.HasPrefix(region, "tcb"):
		return r.tpool[sc.TcbSet]
	case strings.HasPrefix(region, "qeid"):
		return r.epool[sc.QeSet]
	case strings.HasPrefix(region, "sign_"):
		return r.cpool
	}
	return r.qpool[sc.Quote]
}

func (r *attRunner) mutations(sc *attScen, c *attCase, ts time.Time, rng *rand.Rand) [][]attMut {
	if len(c.Mut) == 0 {
		return [][]attMut{nil}
	}
	per := make([][]attMut, len(c.Mut)) // candidate single-region mutations
	for i, reg := range c.Mut {
		p := r.poolFor(sc, reg)
		bits := p.bits[reg]
		full := r.sweep && len(c.Mut) == 1 && c.Dev == 0
		strided := r.sweep && len(c.Mut) == 1 && c.Dev == 1 && r.stride > 0
		switch {
		case full:
			for _, e := range bits {
				per[i] = append(per[i], attMut{Kind: "bit", Region: reg, Edits: []attEdit{e}})
			}
		case strided:
			for k := rng.Intn(r.stride); k < len(bits); k += r.stride {
				per[i] = append(per[i], attMut{Kind: "bit", Region: reg, Edits: []attEdit{bits[k]}})
			}
		default:
			for k := 0; k < r.nbits && len(bits) > 0; k++ {
				per[i] = append(per[i], attMut{Kind: "bit", Region: reg, Edits: []attEdit{bits[rng.Intn(len(bits))]}})
			}
		}
		pats := append(append([]attMut{}, p.pats[reg]...), r.env.contextPatterns(reg, sc, ts)...)
		if len(c.Mut) == 1 {
			per[i] = append(per[i], pats...)
		} else {
			rng.Shuffle(len(pats), func(a, b int) { pats[a], pats[b] = pats[b], pats[a] })
			if len(pats) > 2 {
				pats = pats[:2]
			}
			per[i] = append(per[i], pats...)
		}
	}
	var out [][]attMut
	if len(per) == 1 {
		for _, m := range per[0] {
			out = append(out, []attMut{m})
		}
		return out
	}
	// pairs: combine index-wise, cycling the shorter list
	n := len(per[0])
	if len(per[1]) > n {
		n = len(per[1])
	}
	if len(per[0]) == 0 || len(per[1]) == 0 {
		return nil
	}
	for k := 0; k < n; k++ {
		out = append(out, []attMut{per[0][k%len(per[0])], per[1][k%len(per[1])]})
	}
	return out
}

// caseSize returns the number of concrete executions of a case (its mutation list is deterministic).
func (r *attRunner) caseSize(c *attCase) int {
	sc, tm := r.scen[c.SID], r.times[c.SID+"|"+c.TID]
	if sc == nil || tm == nil {
		return 1
	}
	return len(r.mutations(sc, c, time.Unix(tm.Unix, tm.Nsec), r.caseRng(c)))
}

func (r *attRunner) caseRng(c *attCase) *rand.Rand {
	h := fnv.New64a()
	_, _ = h.Write([]byte(fmt.Sprintf("%s|%s|%s|%v|%v", c.SID, c.TID, c.EID, c.Mut, c.Pol)))
	return rand.New(rand.NewSource(r.seed ^ int64(h.Sum64())))
}

// runCase executes the concrete mutations [lo, hi) of a case.
func (r *attRunner) runCase(idx int, c *attCase, lo, hi int) ([]*attEvent, error) {
	sc := r.scen[c.SID]
	tm := r.times[c.SID+"|"+c.TID]
	ev := r.evals[c.SID+"|"+c.EID]
	if sc == nil || tm == nil || ev == nil {
		return nil, fmt.Errorf("case refers to unknown scenario/time/eval: %s %s %s", c.SID, c.TID, c.EID)
	}
	ts := time.Unix(tm.Unix, tm.Nsec)
	pol, isNil := r.policy(sc, c, tm, ev, r.caseRng(c))
	orig := r.files(sc)
	exp := map[string]bool{}
	for _, l := range c.Exp {
		exp[l] = true
	}
	agg := map[string]*attEvent{}
	var order []string
	all := r.mutations(sc, c, ts, r.caseRng(c))
	if hi > len(all) {
		hi = len(all)
	}
	for _, ms := range all[lo:hi] {
		var edits []attEdit
		kind := "none"
		for _, m := range ms {
			edits = append(edits, m.Edits...)
			if m.Kind == "bit" && kind != "pattern" {
				kind = "bit"
			} else {
				kind = "pattern"
			}
		}
		files, err := applyEdits(orig, edits)
		if err != nil {
			return nil, err
		}
		mutated := false
		for k := range orig {
			if !bytes.Equal(orig[k], files[k]) {
				mutated = true
			}
		}
		if len(edits) > 0 && !mutated {
			continue
		}
		res := r.execute(sc, files, pol, ts)
		key := fmt.Sprintf("%v|%s|%v|%v|%v|%v", res.accepted, res.label, res.sameID, res.sameRD, res.panicked, mutated)
		e := agg[key]
		if e == nil {
			p := c.Pol
			mut := c.Mut
			if mut == nil {
				mut = []string{}
			}
			e = &attEvent{Ev: "case", SID: c.SID, TID: c.TID, EID: c.EID, Tee: c.Tee, Mut: mut, Pos: c.Pos, NU: c.NU, Pol: &p,
				Coll: c.Coll, St: c.St, Kind: kind, Mutated: mutated, Accepted: res.accepted, SameID: res.sameID, SameRD: res.sameRD,
				Label: res.label, Panic: res.panicked, Drift: !exp[res.label], seq: idx,
				Ex: &attExample{SID: c.SID, Unix: tm.Unix, Nsec: tm.Nsec, NilPolicy: isNil, Policy: pol, Muts: ms, Err: res.err}}
			agg[key] = e
			order = append(order, key)
		}
		e.N++
		if kind == "bit" {
			e.nbit++
		}
	}
	var out []*attEvent
	for _, k := range order {
		out = append(out, agg[k])
	}
	return out, nil
}

// ---------------------------------------------------------------------------------------------

type attSummary struct {
	Cases                   int            `json:"cases"`
	Concrete                int            `json:"concrete"`
	Events                  int            `json:"events"`
	Segments                int            `json:"segments"`
	Accepted                int            `json:"accepted"`
	AcceptedMutants         int            `json:"accepted_mutants"`
	AcceptedMutantsByRegion map[string]int `json:"accepted_mutants_by_region"`
	AcceptedMutantKinds     map[string]int `json:"accepted_mutant_kinds"`
	Panics                  int            `json:"panics"`
	Drift                   int            `json:"drift"`
	DriftSamples            []*attEvent    `json:"drift_samples"`
	ByRegion                map[string]int `json:"by_region"`
	ByTime                  map[string]int `json:"by_time"`
	ByPolicy                map[string]int `json:"by_policy"`
	ByLabel                 map[string]int `json:"by_label"`
	ByScenario              map[string]int `json:"by_scenario"`
	ByExpect                map[string]int `json:"by_expect"`
	PastNextUpdate          int            `json:"accepted_past_next_update"`
	PastNextSample          *attEvent      `json:"accepted_past_next_update_sample,omitempty"`
	BoundaryAccepted        map[string]int `json:"accepted_at_boundary"`
	BitsSwept               map[string]int `json:"bits_swept"`
	ExpLabels               map[string]int `json:"exp_labels"` // outcome classes the model expects, over the generated cases
	Samples                 []*attEvent    `json:"samples"`
}

func polClass(p *attPol) []string {
	var out []string
	if p.Disabled {
		out = append(out, "disabled")
	}
	out = append(out, "evqe="+p.EvQE, "evtcb="+p.EvTCB, "bl="+p.BL, "wl="+p.WL, "tdx="+p.TDX)
	return out
}

func attestReplay(args []string) int {
	fs := flag.NewFlagSet("attest-replay", flag.ExitOnError)
	in := fs.String("in", "-", "cases emitted by TLC (ndjson)")
	tracePath := fs.String("trace", "", "ndjson trace for TraceAttest")
	out := fs.String("out", "-", "summary JSON")
	vps := fs.String("vp", "30,500", "validity periods, must equal those given to attest-vectors")
	all := fs.Bool("all-instants", false, "as given to attest-vectors")
	seed := fs.Int64("seed", 1, "seed for the choice of concrete mutations")
	nbits := fs.Int("bits", 3, "sampled single-bit mutations per region and case")
	sweep := fs.Bool("sweep", false, "single-region cases without other deviation: every bit of the region")
	stride := fs.Int("stride", 0, "with -sweep: single-region cases with one other deviation take every stride-th bit")
	workers := fs.Int("workers", runtime.NumCPU(), "parallel executions")
	prof := fs.String("cpuprofile", "", "write a CPU profile")
	_ = fs.Parse(args)
	if *prof != "" {
		pf, _ := os.Create(*prof)
		_ = pprof.StartCPUProfile(pf)
		defer pprof.StopCPUProfile()
	}

	r, _, err := newRunner(parseVPs(*vps), *all)
	if err != nil {
		fmt.Fprintln(os.Stderr, "attest-replay:", err)
		return 2
	}
	r.seed, r.nbits, r.sweep, r.stride = *seed, *nbits, *sweep, *stride
	rd, err := openIn(*in)
	if err != nil {
		fmt.Fprintln(os.Stderr, err)
		return 2
	}
	type job struct {
		idx    int
		c      *attCase
		lo, hi int
		first  bool
	}
	const chunk = 512
	global := map[string]*attEvent{}
	jobs := make(chan job, 4096)
	var mu sync.Mutex
	var events []*attEvent
	var firstErr error
	sum := &attSummary{ByRegion: map[string]int{}, ByTime: map[string]int{}, ByPolicy: map[string]int{}, ByLabel: map[string]int{},
		ByScenario: map[string]int{}, ByExpect: map[string]int{}, AcceptedMutantsByRegion: map[string]int{}, AcceptedMutantKinds: map[string]int{},
		BoundaryAccepted: map[string]int{}, BitsSwept: map[string]int{}, ExpLabels: map[string]int{}}
	var wg sync.WaitGroup
	for w := 0; w < *workers; w++ {
		wg.Add(1)
		go func() {
			defer wg.Done()
			for j := range jobs {
				evs, err := r.runCase(j.idx, j.c, j.lo, j.hi)
				mu.Lock()
				if err != nil && firstErr == nil {
					firstErr = err
				}
				// one event per distinct (abstract case class, outcome): the Rule reads nothing else
				for _, e := range evs {
					k := fmt.Sprintf("%s|%v|%v|%v|%v|%v|%v|%v|%v|%s|%v|%v", e.SID, e.Mut, e.Pos, e.NU, *e.Pol, e.Mutated, e.Accepted, e.SameID, e.SameRD, e.Label, e.Panic, e.Drift)
					if g := global[k]; g != nil {
						g.N += e.N
						if e.seq < g.seq {
							e.N = g.N
							*g = *e
						}
					} else {
						global[k] = e
						events = append(events, e)
					}
				}
				if r.sweep && len(j.c.Mut) == 1 && j.c.Dev == 0 {
					for _, e := range evs {
						sum.BitsSwept[j.c.SID+"/"+j.c.Mut[0]] += e.nbit
					}
				}
				if !j.first {
					mu.Unlock()
					continue
				}
				sum.Cases++
				exp := "reject"
				for _, l := range j.c.Exp {
					sum.ExpLabels[l]++
					if l == "accept" {
						exp = "either"
						if len(j.c.Exp) == 1 {
							exp = "accept"
						}
					}
				}
				sum.ByExpect[exp]++
				mu.Unlock()
			}
		}()
	}
	sc := lineReader(rd)
	idx := 0
	for sc.Scan() {
		line := bytes.TrimSpace(sc.Bytes())
		if len(line) == 0 {
			continue
		}
		c := &attCase{}
		if err := json.Unmarshal(line, c); err != nil {
			fmt.Fprintln(os.Stderr, "attest-replay: bad case:", err)
			return 2
		}
		sort.Strings(c.Mut)
		n := 1
		if r.sweep && len(c.Mut) == 1 && c.Dev <= 1 {
			n = r.caseSize(c)
		}
		if n <= chunk {
			jobs <- job{idx, c, 0, 1 << 30, true}
		} else {
			for lo := 0; lo < n; lo += chunk {
				jobs <- job{idx, c, lo, lo + chunk, lo == 0}
			}
		}
		idx++
	}
	close(jobs)
	wg.Wait()
	if firstErr != nil {
		fmt.Fprintln(os.Stderr, "attest-replay:", firstErr)
		return 2
	}
	// segments: one per (scenario, blacklist class), so that a rejected segment hides as little as possible
	sort.SliceStable(events, func(a, b int) bool {
		ea, eb := events[a], events[b]
		if ea.SID != eb.SID {
			return ea.SID < eb.SID
		}
		if ea.Pol.BL != eb.Pol.BL {
			return ea.Pol.BL < eb.Pol.BL
		}
		return ea.seq < eb.seq
	})
	var tw *bufio.Writer
	if *tracePath != "" {
		f, err := os.Create(*tracePath)
		if err != nil {
			fmt.Fprintln(os.Stderr, err)
			return 2
		}
		defer f.Close()
		tw = bufio.NewWriterSize(f, 1<<20)
		defer tw.Flush()
	}
	lastSeg := ""
	const segMax = 20000
	inSeg := 0
	for _, e := range events {
		seg := e.SID + "|" + e.Pol.BL
		if seg != lastSeg || inSeg >= segMax {
			lastSeg, inSeg = seg, 0
			sum.Segments++
			if tw != nil {
				s := r.scen[e.SID]
				_, _ = tw.Write(mustJSON(map[string]any{"ev": "begin", "sid": e.SID, "bl": e.Pol.BL, "quote": s.Quote, "tcbset": s.TcbSet, "qeset": s.QeSet,
					"tee": s.Tee, "st_why": s.StWhy, "mut": []string{}}))
				_ = tw.WriteByte('\n')
			}
		}
		inSeg++
		if tw != nil {
			if !e.Accepted && !e.Panic && !e.Drift && e.Ex != nil && len(events) > 50000 {
				// a rejection cannot violate the Rule: keep the example small in big traces
				slim := *e.Ex
				slim.Policy = nil
				if len(slim.Err) > 80 {
					slim.Err = slim.Err[:80]
				}
				ee := *e
				ee.Ex = &slim
				_, _ = tw.Write(mustJSON(&ee))
			} else {
				_, _ = tw.Write(mustJSON(e))
			}
			_ = tw.WriteByte('\n')
		}
		sum.Events++
		sum.Concrete += e.N
		sum.ByLabel[e.Label] += e.N
		sum.ByScenario[e.SID] += e.N
		if len(e.Mut) == 0 {
			sum.ByRegion["(none)"] += e.N
		}
		for _, m := range e.Mut {
			sum.ByRegion[m] += e.N
		}
		for _, w := range attWindowNames {
			sum.ByTime[w+"="+e.Pos[w]] += e.N
		}
		for _, pc := range polClass(e.Pol) {
			sum.ByPolicy[pc] += e.N
		}
		if e.Panic {
			sum.Panics += e.N
		}
		if e.Drift {
			sum.Drift += e.N
			if len(sum.DriftSamples) < 10 {
				sum.DriftSamples = append(sum.DriftSamples, e)
			}
		}
		if e.Accepted {
			sum.Accepted += e.N
			for _, w := range attWindowNames {
				if e.Pos[w] == "start" || e.Pos[w] == "end" {
					sum.BoundaryAccepted[w+"."+e.Pos[w]] += e.N
				}
			}
			if e.NU["qe"] == "gt" || e.NU["tcb"] == "gt" {
				sum.PastNextUpdate += e.N
				if sum.PastNextSample == nil {
					sum.PastNextSample = e
				}
			}
			if e.Mutated {
				sum.AcceptedMutants += e.N
				for _, m := range e.Mut {
					sum.AcceptedMutantsByRegion[m] += e.N
				}
				k := e.Kind
				if e.Kind == "pattern" && e.Ex != nil {
					var ks []string
					for _, m := range e.Ex.Muts {
						ks = append(ks, m.Region+":"+m.Kind)
					}
					k = strings.Join(ks, "+")
				}
				sum.AcceptedMutantKinds[k] += e.N
				if len(sum.Samples) < 4 && e.Pol.BL == "miss" && (len(sum.Samples) == 0 || sum.Samples[len(sum.Samples)-1].Mut[0] != e.Mut[0]) {
					sum.Samples = append(sum.Samples, e)
				}
			}
		}
	}
	// a few more samples: first rejected content mutation, first time rejection, first policy rejection
	want := map[string]bool{"qsig": true, "tcb_time": true, "tcb_bl": true, "fmspc": true, "tcb_level": true}
	for _, e := range events {
		if want[e.Label] {
			sum.Samples = append(sum.Samples, e)
			delete(want, e.Label)
		}
	}
	w, err := openOut(*out)
	if err != nil {
		fmt.Fprintln(os.Stderr, err)
		return 2
	}
	defer w.Close()
	_, _ = w.Write(mustJSON(sum))
	return 0
}

// attestOne re-executes recorded events (objects with an "ex" field; one JSON document per line) and prints the
// events again with the freshly observed outcome.
func attestOne(args []string) int {
	fs := flag.NewFlagSet("attest-one", flag.ExitOnError)
	in := fs.String("in", "-", "events (ndjson), as recorded in a trace or a replay file")
	_ = fs.Parse(args)
	r, _, err := newRunner([]int{30}, false)
	if err != nil {
		fmt.Fprintln(os.Stderr, "attest-one:", err)
		return 2
	}
	rd, err := openIn(*in)
	if err != nil {
		fmt.Fprintln(os.Stderr, err)
		return 2
	}
	sc := lineReader(rd)
	for sc.Scan() {
		line := bytes.TrimSpace(sc.Bytes())
		if len(line) == 0 {
			continue
		}
		var e attEvent
		if err := json.Unmarshal(line, &e); err != nil {
			fmt.Fprintln(os.Stderr, "attest-one:", err)
			return 2
		}
		if e.Ev != "case" || e.Ex == nil {
			fmt.Println(string(line))
			continue
		}
		s := r.scen[e.Ex.SID]
		if s == nil {
			fmt.Fprintln(os.Stderr, "attest-one: unknown scenario", e.Ex.SID)
			return 2
		}
		var edits []attEdit
		for _, m := range e.Ex.Muts {
			edits = append(edits, m.Edits...)
		}
		files, err := applyEdits(r.files(s), edits)
		if err != nil {
			fmt.Fprintln(os.Stderr, "attest-one:", err)
			return 2
		}
		pol := e.Ex.Policy
		if e.Ex.NilPolicy {
			pol = nil
		}
		res := r.execute(s, files, pol, time.Unix(e.Ex.Unix, e.Ex.Nsec))
		e.Accepted, e.SameID, e.SameRD, e.Label, e.Panic, e.N = res.accepted, res.sameID, res.sameRD, res.label, res.panicked, 1
		e.Ex.Err = res.err
		fmt.Println(string(mustJSON(&e)))
	}
	return 0
}

// The concrete example is written as a JSON *string* (TLC's Json module cannot read nulls and has no use for it).
type attExampleAlias attExample

func (x *attExample) MarshalJSON() ([]byte, error) {
	inner, err := json.Marshal((*attExampleAlias)(x))
	if err != nil {
		return nil, err
	}
	return json.Marshal(string(inner))
}

func (x *attExample) UnmarshalJSON(b []byte) error {
	if len(b) > 0 && b[0] == '"' {
		var s string
		if err := json.Unmarshal(b, &s); err != nil {
			return err
		}
		b = []byte(s)
	}
	return json.Unmarshal(b, (*attExampleAlias)(x))
}
