package main

// C06 (gated reader interleavings) and C07 (crash between durable writes) on top of nodedb.go, using hook H1.

import (
	"encoding/json"
	"flag"
	"fmt"
	"os"
	"os/exec"
	"path/filepath"
	"runtime"
	"sort"
	"strings"
	"sync"
	"sync/atomic"
	"time"

	dbapi "github.com/oasisprotocol/oasis-core/go/storage/mkvs/db/api"
	"github.com/oasisprotocol/oasis-core/go/storage/mkvs/db/verifhook"
	"github.com/oasisprotocol/oasis-core/go/storage/mkvs/node"
)

func init() {
	register("nodedb-crash", "C07: crash every version-history operation at each durable-write point in a child process, reopen, check, retry", nodedbCrash)
	register("nodedb-crashchild", "(internal) child process of nodedb-crash", nodedbCrashChild)
}

// retainedBoth returns the finalized roots present both before and after step i.
func retainedBoth(b *ndBehaviour, i int) []ndRootID {
	if i == 0 {
		return nil
	}
	after := map[string]bool{}
	for _, id := range b.Steps[i].Expect.Finalized {
		after[id.key()] = true
	}
	var out []ndRootID
	for _, id := range b.Steps[i-1].Expect.Finalized {
		if after[id.key()] {
			out = append(out, id)
		}
	}
	return out
}

// ndRunGated replays a behaviour and, during step `gateStep`, runs a full reader of every retained finalized root at
// every H1 point (i.e. at every intermediate durable state of the operation).
func ndRunGated(b *ndBehaviour, backend string) (*ndMismatch, int, map[string]int) {
	ndb, err := openNodeDB(backend, "")
	if err != nil {
		return &ndMismatch{Backend: backend, Fail: ndFailf("error", "open: %v", err)}, 0, nil
	}
	defer ndb.Close()
	defer verifhook.Set(nil)
	r := &ndRun{backend: backend, ndb: ndb, ctx: bgCtx, roots: map[string]node.Root{}}
	gates := map[string]int{}
	nReads := 0
	for i := range b.Steps {
		var gateFail *ndFail
		watch := retainedBoth(b, i)
		verifhook.Set(func(name string) {
			gates[name]++
			if gateFail != nil {
				return
			}
			done := make(chan *ndFail, 1)
			go func() {
				var f *ndFail
				if perr := guard(func() {
					for _, id := range watch {
						rr := r.roots[id.key()]
						if msg := ndReadBack(r.ctx, ndb, rr, id.C); msg != "" {
							f = ndFailf("concurrent-read", "at %s during %s(v=%d): retained finalized root v=%d %s %v: %s", name, b.Steps[i].Op.A, b.Steps[i].Op.V, id.V, id.Ty, id.C, msg)
							return
						}
					}
				}); perr != nil {
					f = &ndFail{Kind: "panic", Msg: perr.Error()}
				}
				done <- f
			}()
			select {
			case f := <-done:
				nReads++
				gateFail = f
			case <-time.After(3 * time.Second):
				// The reader is excluded by a lock the writer holds at this point: not an interleaving the code allows.
				gates["(reader blocked) "+name]++
			}
		})
		var f *ndFail
		if perr := guard(func() {
			f = r.applyOp(&b.Steps[i].Op)
			verifhook.Set(nil)
			if f == nil && gateFail != nil {
				f = gateFail
			}
			if f == nil {
				f = r.check(&b.Steps[i].Expect)
			}
		}); perr != nil {
			f = &ndFail{Kind: "panic", Msg: perr.Error()}
		}
		if f != nil {
			return &ndMismatch{Backend: backend, Step: i, Fail: f, Steps: b.Steps[:i+1], Shape: ndShape(b, i), SharedKV: ndSharedFor(b, i, f), Origin: ndOrigin(b, i, f.Root)}, nReads, gates
		}
	}
	return nil, nReads, gates
}

// ---------------------------------------------------------------------------------------------------------------
// crash injection

type crashSpec struct {
	Backend string `json:"backend"`
	Step    int    `json:"step"`
	Point   string `json:"point"`
	Occ     int    `json:"occ"`
}

// child: replay steps 0..Step-1, then run step Step and exit abruptly at the Occ-th hit of Point.
func nodedbCrashChild(args []string) int {
	fs := flag.NewFlagSet("nodedb-crashchild", flag.ExitOnError)
	dir := fs.String("dir", "", "database directory")
	beh := fs.String("behaviour", "", "behaviour JSON file")
	spec := fs.String("spec", "", "crash spec JSON")
	fs.Parse(args)
	var b ndBehaviour
	var cs crashSpec
	raw, err := os.ReadFile(*beh)
	if err != nil || json.Unmarshal(raw, &b) != nil || json.Unmarshal([]byte(*spec), &cs) != nil {
		fmt.Fprintln(os.Stderr, "crashchild: bad input")
		return 2
	}
	ndb, err := openNodeDB(cs.Backend, *dir)
	if err != nil {
		fmt.Fprintln(os.Stderr, "crashchild: open:", err)
		return 2
	}
	r := &ndRun{backend: cs.Backend, ndb: ndb, ctx: bgCtx, roots: map[string]node.Root{}}
	for i := 0; i < cs.Step; i++ {
		if f := r.applyOp(&b.Steps[i].Op); f != nil {
			fmt.Fprintln(os.Stderr, "crashchild: prefix step failed:", f.Msg)
			return 2
		}
	}
	hits := 0
	verifhook.Set(func(name string) {
		if name == cs.Point {
			if hits == cs.Occ {
				os.Exit(3) // abrupt process death: no deferred functions, no database close
			}
			hits++
		}
	})
	if f := r.applyOp(&b.Steps[cs.Step].Op); f != nil {
		fmt.Fprintln(os.Stderr, "crashchild: step failed before reaching the point:", f.Msg)
		return 4
	}
	fmt.Fprintln(os.Stderr, "crashchild: point not reached")
	return 5
}

type crashResult struct {
	Spec    crashSpec `json:"spec"`
	Outcome string    `json:"outcome"` // pre | post
	Fail    *ndFail   `json:"fail,omitempty"`
	Steps   []ndStep  `json:"steps,omitempty"`
	Phase   string    `json:"phase,omitempty"`
}

// dryRun executes the behaviour on an on-disk database and records the points hit by each step and the real root of every id.
// goid returns the current goroutine's id (parsed from the stack header; used only to attribute hook calls).
func goid() string {
	var buf [64]byte
	n := runtime.Stack(buf[:], false)
	f := strings.Fields(string(buf[:n]))
	if len(f) > 1 {
		return f[1]
	}
	return ""
}

var hookMu sync.Mutex // the H1 hook is process-global: in-process users are serialised

func crashDryRun(b *ndBehaviour, backend, dir string) ([][]string, map[string]node.Root, *ndFail) {
	hookMu.Lock()
	defer hookMu.Unlock()
	ndb, err := openNodeDB(backend, dir)
	if err != nil {
		return nil, nil, ndFailf("error", "open: %v", err)
	}
	defer ndb.Close()
	defer verifhook.Set(nil)
	r := &ndRun{backend: backend, ndb: ndb, ctx: bgCtx, roots: map[string]node.Root{}}
	pts := make([][]string, len(b.Steps))
	me := goid()
	for i := range b.Steps {
		verifhook.Set(func(name string) {
			if goid() == me { // other goroutines (parents re-running operations after a crash) also pass the points
				pts[i] = append(pts[i], name)
			}
		})
		f := r.applyOp(&b.Steps[i].Op)
		verifhook.Set(nil)
		if f == nil {
			f = r.check(&b.Steps[i].Expect)
		}
		if f != nil {
			return pts, r.roots, f
		}
	}
	return pts, r.roots, nil
}

func crashOne(self string, b *ndBehaviour, behFile string, roots map[string]node.Root, cs crashSpec, scratch string) *crashResult {
	dir, err := os.MkdirTemp(scratch, "crashdb-")
	if err != nil {
		return &crashResult{Spec: cs, Fail: ndFailf("infra", "%v", err)}
	}
	defer os.RemoveAll(dir)
	cmd := exec.Command(self, "nodedb-crashchild", "-dir", dir, "-behaviour", behFile, "-spec", string(mustJSON(cs)))
	out, err := cmd.CombinedOutput()
	code := -1
	if ee, ok := err.(*exec.ExitError); ok {
		code = ee.ExitCode()
	} else if err == nil {
		code = 0
	}
	if code != 3 {
		return &crashResult{Spec: cs, Fail: ndFailf("infra", "child exit %d: %s", code, strings.TrimSpace(string(out)))}
	}
	res := &crashResult{Spec: cs}
	fail := func(phase string, f *ndFail) *crashResult {
		res.Fail, res.Phase, res.Steps = f, phase, b.Steps[:cs.Step+1]
		return res
	}
	// reopen
	var ndb dbapi.NodeDB
	if perr := guard(func() { ndb, err = openNodeDB(cs.Backend, dir) }); perr != nil || err != nil {
		return fail("reopen", ndFailf("reopen-failed", "database cannot be reopened after the crash: %v %v", err, perr))
	}
	defer ndb.Close()
	r := &ndRun{backend: cs.Backend, ndb: ndb, ctx: bgCtx, roots: roots}
	// (1) previously finalized versions intact: the pre-state or the post-state must hold entirely
	var pre ndExpect
	if cs.Step > 0 {
		pre = b.Steps[cs.Step-1].Expect
	} else {
		pre = ndExpect{Latest: -1}
	}
	post := b.Steps[cs.Step].Expect
	var fPre, fPost *ndFail
	if perr := guard(func() {
		// after a crash, candidates written by the interrupted commit may or may not exist: only finalized state is required
		preF := pre
		preF.Pending, preF.Gone = nil, nil
		if op := b.Steps[cs.Step].Op; op.A == "prune" {
			// the version being pruned is the one thing an interrupted Prune may leave partially removed
			var keep []ndRootID
			for _, id := range preF.Finalized {
				if id.V != op.V {
					keep = append(keep, id)
				}
			}
			preF.Finalized = keep
		}
		fPre = r.check(&preF)
		fPost = r.check(&post)
	}); perr != nil {
		return fail("after-reopen", &ndFail{Kind: "panic", Msg: perr.Error()})
	}
	switch {
	case fPost == nil:
		res.Outcome = "post"
	case fPre == nil:
		res.Outcome = "pre"
	default:
		return fail("after-reopen", ndFailf("crash-damaged", "after crash at %s neither the state before nor after %s(v=%d) holds: before: %s | after: %s",
			cs.Point, b.Steps[cs.Step].Op.A, b.Steps[cs.Step].Op.V, fPre.Msg, fPost.Msg))
	}
	// (2) the interrupted operation can simply be repeated
	var f *ndFail
	if perr := guard(func() {
		f = r.applyOp(&b.Steps[cs.Step].Op)
		if f != nil && res.Outcome == "post" && f.Kind == "error" {
			f = nil // already fully applied: the repeat may be declined (e.g. already finalized / not earliest)
		}
		if f == nil {
			f = r.check(&post)
		}
	}); perr != nil {
		f = &ndFail{Kind: "panic", Msg: perr.Error()}
	}
	if f != nil {
		if f.Kind == "error" {
			f.Kind = "retry-failed"
		}
		return fail("retry", f)
	}
	// (3) continued operation
	for i := cs.Step + 1; i < len(b.Steps); i++ {
		if perr := guard(func() {
			f = r.applyOp(&b.Steps[i].Op)
			if f == nil {
				f = r.check(&b.Steps[i].Expect)
			}
		}); perr != nil {
			f = &ndFail{Kind: "panic", Msg: perr.Error()}
		}
		if f != nil {
			res.Steps = b.Steps[:i+1]
			res.Fail, res.Phase = f, "continue"
			return res
		}
	}
	return res
}

func nodedbCrash(args []string) int {
	fs := flag.NewFlagSet("nodedb-crash", flag.ExitOnError)
	in := fs.String("in", "-", "behaviours")
	out := fs.String("out", "-", "summary JSON")
	every := fs.Int("every", 1, "use only every k-th behaviour")
	lastN := fs.Int("last", 2, "crash only in the last N steps of each behaviour")
	scratch := fs.String("scratch", "", "directory for on-disk databases")
	maxScen := fs.Int("max", 1000000, "maximal number of crash scenarios")
	fs.Parse(args)
	self, _ := os.Executable()
	r, err := openIn(*in)
	if err != nil {
		return 2
	}
	defer r.Close()
	if *scratch == "" {
		*scratch = os.TempDir()
	}
	var (
		mu        sync.Mutex
		nBeh      int
		nScen     atomic.Int64
		outcomes  = map[string]int{}
		pointsHit = map[string]int{}
		hooksSeen = map[string]int{}
		classes   = map[string]int{}
		fails     []*crashResult
		infra     []string
		samples   []crashSpec
	)
	type job struct {
		line []byte
		idx  int
	}
	jobs := make(chan job, 64)
	var wg sync.WaitGroup
	for wk := 0; wk < runtime.NumCPU(); wk++ {
		wg.Add(1)
		go func() {
			defer wg.Done()
			for j := range jobs {
				var b ndBehaviour
				if json.Unmarshal(j.line, &b) != nil {
					mu.Lock()
					infra = append(infra, "bad behaviour")
					mu.Unlock()
					continue
				}
				behFile := filepath.Join(*scratch, fmt.Sprintf("beh-%d.json", j.idx))
				os.WriteFile(behFile, j.line, 0o644)
				for _, be := range []string{"badger", "pathbadger"} {
					if b.Crash != nil && b.Crash.Backend != be {
						continue
					}
					if !ndAccepts(&b, be) {
						mu.Lock()
						classes["skipped:history-not-accepted-by-"+be]++
						mu.Unlock()
						continue
					}
					dir, _ := os.MkdirTemp(*scratch, "dry-")
					pts, roots, f := crashDryRun(&b, be, dir)
					os.RemoveAll(dir)
					if f != nil {
						// the uninterrupted run itself deviates (C06's business, incl. known findings): no crash scenarios here
						mu.Lock()
						classes["skipped:uninterrupted-run-deviates:"+be]++
						mu.Unlock()
						if os.Getenv("VERIF_DEBUG") != "" {
							fmt.Fprintf(os.Stderr, "dry run deviates on %s: %s: %s\n", be, f.Kind, f.Msg)
						}
						continue
					}
					var scen []crashSpec
					if b.Crash != nil {
						hit := false
						for _, p := range pts[b.Crash.Step] {
							hit = hit || p == b.Crash.Point
						}
						mu.Lock()
						for _, p := range pts[b.Crash.Step] {
							hooksSeen[b.Steps[b.Crash.Step].Op.A+"@"+p]++
						}
						mu.Unlock()
						if !hit {
							// the spec names a durable step this execution of the operation does not perform (e.g. nothing to copy)
							mu.Lock()
							classes["skipped:spec-point-not-hit:"+b.Steps[b.Crash.Step].Op.A+"@"+b.Crash.Point]++
							mu.Unlock()
							continue
						}
						scen = append(scen, crashSpec{Backend: be, Step: b.Crash.Step, Point: b.Crash.Point})
					} else {
						for i := max(0, len(b.Steps)-*lastN); i < len(b.Steps); i++ {
							occ := map[string]int{}
							for _, p := range pts[i] {
								scen = append(scen, crashSpec{Backend: be, Step: i, Point: p, Occ: occ[p]})
								occ[p]++
							}
						}
					}
					for _, cs := range scen {
						if nScen.Add(1) > int64(*maxScen) {
							continue
						}
						i, p := cs.Step, cs.Point
						res := crashOne(self, &b, behFile, roots, cs, *scratch)
						mu.Lock()
						pointsHit[b.Steps[i].Op.A+"@"+p]++
						if len(samples) < 3 {
							samples = append(samples, cs)
						}
						if res.Fail != nil {
							if res.Fail.Kind == "infra" {
								infra = append(infra, res.Fail.Msg)
							} else {
								cl := fmt.Sprintf("%s:%s:%s:%s@%s", be, res.Fail.Kind, res.Phase, b.Steps[i].Op.A, p)
								classes[cl]++
								if classes[cl] <= 2 {
									fails = append(fails, res)
								}
							}
						} else {
							outcomes[res.Outcome+":"+b.Steps[i].Op.A+"@"+p]++
						}
						mu.Unlock()
					}
				}
				os.Remove(behFile)
				mu.Lock()
				nBeh++
				mu.Unlock()
			}
		}()
	}
	sc := lineReader(r)
	k, idx := 0, 0
	for sc.Scan() {
		line := sc.Bytes()
		if len(line) == 0 || line[0] != '{' {
			continue
		}
		k++
		if k%*every != 0 || nScen.Load() > int64(*maxScen) {
			continue
		}
		idx++
		jobs <- job{append([]byte{}, line...), idx}
	}
	close(jobs)
	wg.Wait()
	w, err := openOut(*out)
	if err != nil {
		return 2
	}
	defer w.Close()
	names := make([]string, 0, len(pointsHit))
	for n := range pointsHit {
		names = append(names, n)
	}
	sort.Strings(names)
	w.Write(mustJSON(map[string]any{
		"behaviours": nBeh, "scenarios": min(nScen.Load(), int64(*maxScen)), "outcomes": outcomes, "points": pointsHit, "classes": classes,
		"fails": fails, "infra": infra, "hooks_seen_in_dry_runs": hooksSeen, "samples": samples, "point_names": names,
	}))
	if len(infra) > 0 {
		fmt.Fprintln(os.Stderr, "infra problems:", infra[:min(3, len(infra))])
	}
	return 0
}
