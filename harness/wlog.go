package main

// C13: binding of specs/mkvs/WriteLog.tla to NodeDB.GetWriteLog and storage/api.RootCache.Apply.

import (
	"bytes"
	"context"
	"encoding/json"
	"flag"
	"fmt"
	"os"
	"runtime"
	"sort"
	"sync"
	"sync/atomic"

	"github.com/oasisprotocol/oasis-core/go/common/crypto/hash"
	storage "github.com/oasisprotocol/oasis-core/go/storage/api"
	"github.com/oasisprotocol/oasis-core/go/storage/mkvs"
	dbapi "github.com/oasisprotocol/oasis-core/go/storage/mkvs/db/api"
	"github.com/oasisprotocol/oasis-core/go/storage/mkvs/node"
	"github.com/oasisprotocol/oasis-core/go/storage/mkvs/writelog"
)

func init() {
	register("wlog-replay", "replay WriteLog.tla cases: served write logs and corrupted applies on both backends", wlogReplay)
}

type wlEntry struct {
	K   bstr `json:"k"`
	Del bool `json:"del"`
	V   bstr `json:"v"`
}

type wlVariant struct {
	C      string    `json:"c"`
	Log    []wlEntry `json:"log"`
	Accept bool      `json:"accept"`
}

type wlCase struct {
	M1  [][2]bstr `json:"m1"`
	Ops []struct {
		A string `json:"a"`
		K bstr   `json:"k"`
		V bstr   `json:"v"`
	} `json:"ops"`
	M2       [][2]bstr   `json:"m2"`
	Log      []wlEntry   `json:"log"`
	Variants []wlVariant `json:"variants"`
}

func toWriteLog(es []wlEntry) writelog.WriteLog {
	var wl writelog.WriteLog
	for _, e := range es {
		le := writelog.LogEntry{Key: append([]byte{}, e.K...)}
		if !e.Del {
			le.Value = append([]byte{}, e.V...)
			if le.Value == nil {
				le.Value = []byte{}
			}
		}
		wl = append(wl, le)
	}
	return wl
}

func wlString(wl writelog.WriteLog) string {
	s := make([]string, 0, len(wl))
	for _, e := range wl {
		if e.Value == nil {
			s = append(s, fmt.Sprintf("del %x", e.Key))
		} else {
			s = append(s, fmt.Sprintf("ins %x=%x", e.Key, e.Value))
		}
	}
	sort.Strings(s)
	return fmt.Sprint(s)
}

type wlFinding struct {
	Kind    string `json:"kind"` // served-wrong | persisted-wrong | rejected-good | root-visible-after-reject | error | panic
	Backend string `json:"backend"`
	Root    string `json:"root_type"`
	Msg     string `json:"msg"`
	Case    any    `json:"case"`
	Variant any    `json:"variant,omitempty"`
}

// seedDB creates a database holding root r1 = contents m1 at version 0 (finalized).
func wlSeed(ctx context.Context, backend string, rt node.RootType, m1 [][2]bstr) (dbapi.NodeDB, node.Root, error) {
	ndb, err := openNodeDB(backend, "")
	if err != nil {
		return nil, node.Root{}, err
	}
	t := mkvs.New(nil, ndb, rt)
	defer t.Close()
	for _, p := range m1 {
		v := []byte(p[1])
		if v == nil {
			v = []byte{}
		}
		if err = t.Insert(ctx, p[0], v); err != nil {
			return nil, node.Root{}, err
		}
	}
	_, h, err := t.Commit(ctx, mkNs, 0)
	if err != nil {
		return nil, node.Root{}, err
	}
	r1 := node.Root{Namespace: mkNs, Version: 0, Type: rt, Hash: h}
	if err = ndb.Finalize([]node.Root{r1}); err != nil {
		return nil, node.Root{}, err
	}
	return ndb, r1, nil
}

func wlRunCase(c *wlCase, backend string, rt node.RootType, st *wlStats, maxAccept int) []wlFinding {
	ctx := context.Background()
	var out []wlFinding
	add := func(kind, msg string, v any) {
		out = append(out, wlFinding{Kind: kind, Backend: backend, Root: fmt.Sprint(rt), Msg: msg, Case: map[string]any{"m1": c.M1, "ops": c.Ops, "m2": c.M2}, Variant: v})
	}
	if st.cases.Load()%wlConvEvery == 1 {
		if msg := wlConverging(ctx, c, backend, rt, st); msg != "" {
			add("served-wrong", msg, nil)
		}
	}
	ndbA, r1, err := wlSeed(ctx, backend, rt, c.M1)
	if err != nil {
		add("error", "seed: "+err.Error(), nil)
		return out
	}
	defer ndbA.Close()
	// every second case: a competing candidate for the same version is committed first (the proposal that will lose), so that r2
	// is not the first root of its version (on the path-keyed backend it then lives under a pending sequence number until it
	// is finalized), and the log of the still pending r2 is requested as well
	withComp := st.cases.Add(1)%2 == 0
	if withComp {
		tc := mkvs.NewWithRoot(nil, ndbA, r1)
		cerr := tc.Insert(ctx, []byte("zz-competitor"), []byte("c"))
		for _, op := range c.Ops { // the same keys with other values / the opposite operation
			if cerr != nil {
				break
			}
			if op.A == "ins" {
				cerr = tc.Insert(ctx, op.K, append([]byte("other-"), op.V...))
			} else {
				cerr = tc.Insert(ctx, op.K, []byte("kept"))
			}
		}
		if cerr == nil {
			_, _, cerr = tc.Commit(ctx, mkNs, 1)
		}
		tc.Close()
		if cerr != nil {
			add("error", "competing candidate: "+cerr.Error(), nil)
			return out
		}
	}
	// produce r2 by applying the batch on a tree opened at r1
	t := mkvs.NewWithRoot(nil, ndbA, r1)
	for _, op := range c.Ops {
		if op.A == "ins" {
			v := []byte(op.V)
			if v == nil {
				v = []byte{}
			}
			err = t.Insert(ctx, op.K, v)
		} else {
			err = t.Remove(ctx, op.K)
		}
		if err != nil {
			add("error", "batch: "+err.Error(), nil)
			return out
		}
	}
	_, h2, err := t.Commit(ctx, mkNs, 1)
	t.Close()
	if err != nil {
		add("error", "commit r2: "+err.Error(), nil)
		return out
	}
	r2 := node.Root{Namespace: mkNs, Version: 1, Type: rt, Hash: h2}
	if withComp && !r1.Hash.Equal(&h2) {
		// the log of the pending root: a database may decline it, but what it serves must reproduce r2
		if it, perr := ndbA.GetWriteLog(ctx, r1, r2); perr == nil {
			var served writelog.WriteLog
			var ierr error
			for {
				more, nerr := it.Next()
				if nerr != nil || !more {
					ierr = nerr
					break
				}
				e, verr := it.Value()
				if verr != nil {
					ierr = verr
					break
				}
				served = append(served, e)
			}
			if ierr == nil {
				st.servedPending.Add(1)
				t2 := mkvs.NewWithRoot(nil, ndbA, r1)
				aerr := t2.ApplyWriteLog(ctx, writelog.NewStaticIterator(served))
				var h hash.Hash
				if aerr == nil {
					_, h, aerr = t2.Commit(ctx, mkNs, 1, mkvs.NoPersist())
				}
				t2.Close()
				if aerr != nil || !h.Equal(&h2) {
					add("served-wrong", fmt.Sprintf("log served for the pending root (a competing candidate exists) %s applied at r1 gives %s (err %v), r2 is %s", wlString(served), h, aerr, h2), nil)
				}
			}
		}
	}
	if err = ndbA.Finalize([]node.Root{r2}); err != nil {
		add("error", "finalize r2: "+err.Error(), nil)
		return out
	}
	// Rule 1: the served log applied at r1 gives r2.
	it, err := ndbA.GetWriteLog(ctx, r1, r2)
	if err != nil {
		st.notServed.Add(1)
		st.decline(err.Error(), r1.Hash.Equal(&r2.Hash), len(c.M2) == 0)
		if !r1.Hash.Equal(&r2.Hash) {
			add("declined", "GetWriteLog(r1, r2) for two consecutive finalized roots r1 != r2: "+err.Error(), map[string]any{"noop_overwrite": wlNoopOverwrite(c)})
		}
	} else {
		var served writelog.WriteLog
		for {
			more, nerr := it.Next()
			if nerr != nil {
				err = nerr
				break
			}
			if !more {
				break
			}
			e, verr := it.Value()
			if verr != nil {
				err = verr
				break
			}
			served = append(served, e)
		}
		if err != nil {
			st.notServed.Add(1)
			st.decline("iterator: "+err.Error(), r1.Hash.Equal(&r2.Hash), len(c.M2) == 0)
			if !r1.Hash.Equal(&r2.Hash) {
				add("declined", "write log iterator for two consecutive finalized roots r1 != r2: "+err.Error(), map[string]any{"noop_overwrite": wlNoopOverwrite(c)})
			}
		} else {
			st.served.Add(1)
			t2 := mkvs.NewWithRoot(nil, ndbA, r1)
			aerr := t2.ApplyWriteLog(ctx, writelog.NewStaticIterator(served))
			var h hash.Hash
			if aerr == nil {
				_, h, aerr = t2.Commit(ctx, mkNs, 1, mkvs.NoPersist())
			}
			t2.Close()
			if aerr != nil || !h.Equal(&h2) {
				add("served-wrong", fmt.Sprintf("served log %s applied at r1 gives %s (err %v), r2 is %s", wlString(served), h, aerr, h2), nil)
			}
			if wlString(served) != wlString(toWriteLog(c.Log)) {
				st.logDrift.Add(1)
			}
		}
	}
	// Rule 2: applying a (corrupted) log against expected r2 on a second database.
	variants := append([]wlVariant{{C: "honest", Log: c.Log, Accept: true}}, c.Variants...)
	sort.SliceStable(variants, func(i, j int) bool { return !variants[i].Accept && variants[j].Accept })
	var ndbB dbapi.NodeDB
	var rcB *storage.RootCache
	dirty := true
	nAcc := 0
	defer func() {
		if ndbB != nil {
			ndbB.Close()
		}
	}()
	for i := range variants {
		v := &variants[i]
		if dirty {
			if ndbB != nil {
				ndbB.Close()
			}
			var rb node.Root
			if ndbB, rb, err = wlSeed(ctx, backend, rt, c.M1); err != nil || !rb.Hash.Equal(&r1.Hash) {
				add("error", fmt.Sprintf("seed B: %v", err), nil)
				return out
			}
			dirty = false
			rcB = nil
		}
		if ndbB.HasRoot(r2) {
			// The expected root is already present (e.g. the implicit empty root): Apply is a no-op by design.
			st.already.Add(1)
			continue
		}
		if v.Accept && v.C != "honest" {
			if nAcc >= maxAccept {
				continue
			}
			nAcc++
		}
		// one root cache per database, as a storage backend has it: a rejected log is followed by the next log for the same
		// expected root on the SAME cache (rejected variants come first, the accepted ones last)
		if rcB == nil {
			rcB, _ = storage.NewRootCache(ndbB)
		}
		rc := rcB
		st.applies.Add(1)
		_, aerr := rc.Apply(ctx, r1, r2, toWriteLog(v.Log))
		has := ndbB.HasRoot(r2)
		switch {
		case v.Accept && aerr != nil:
			add("rejected-good", fmt.Sprintf("log %s yields m2 but Apply failed: %v", wlString(toWriteLog(v.Log)), aerr), v)
		case v.Accept && !has:
			add("rejected-good", "Apply succeeded but the root is not in the database", v)
		case !v.Accept && aerr == nil:
			add("persisted-wrong", fmt.Sprintf("log %s does not yield m2 but Apply succeeded", wlString(toWriteLog(v.Log))), v)
		case !v.Accept && has:
			add("root-visible-after-reject", fmt.Sprintf("Apply failed (%v) but HasRoot(expected) is true", aerr), v)
		}
		if v.Accept {
			st.accepted.Add(1)
			// read back: the persisted root must hold exactly m2
			if aerr == nil && has {
				if msg := wlReadBack(ctx, ndbB, r2, c.M2); msg != "" {
					add("persisted-wrong", msg, v)
				}
			}
		} else {
			st.rejected.Add(1)
		}
		if aerr == nil || has {
			dirty = true
		}
	}
	return out
}

func wlReadBack(ctx context.Context, ndb dbapi.NodeDB, root node.Root, want [][2]bstr) string {
	t := mkvs.NewWithRoot(nil, ndb, root)
	defer t.Close()
	it := t.NewIterator(ctx)
	defer it.Close()
	i := 0
	for it.Rewind(); it.Valid(); it.Next() {
		if i >= len(want) || !bytes.Equal(it.Key(), want[i][0]) || !bytes.Equal(it.Value(), want[i][1]) {
			return fmt.Sprintf("persisted root item %d = (%x,%x) differs from m2", i, []byte(it.Key()), it.Value())
		}
		i++
	}
	if it.Err() != nil {
		return "read-back: " + it.Err().Error()
	}
	if i != len(want) {
		return fmt.Sprintf("persisted root has %d items, m2 has %d", i, len(want))
	}
	return ""
}

// wlNoopOverwrite: the batch writes some key with the value it already had at r1 (and the key keeps it in r2).
func wlNoopOverwrite(c *wlCase) bool {
	m1 := map[string]string{}
	for _, p := range c.M1 {
		m1[string(p[0])] = string(p[1])
	}
	m2 := map[string]string{}
	for _, p := range c.M2 {
		m2[string(p[0])] = string(p[1])
	}
	for _, op := range c.Ops {
		if op.A != "ins" {
			continue
		}
		v1, in1 := m1[string(op.K)]
		v2, in2 := m2[string(op.K)]
		if in1 && in2 && v1 == v2 && v1 == string(op.V) {
			return true
		}
	}
	return false
}

// wlConvEvery: the converging-candidates leg runs for every n-th case (flag -convevery).
var wlConvEvery int64 = 4

// wlConverging: two pending candidates A (the case's batch) and B (another batch) of version 1, both continued in version 2 by
// batches that lead to the same contents, so that the second commit of version 2 finds its root already present.  Whatever the
// database serves for (A, C) and for (B, C) must give C when applied at its start root; it may decline either.
func wlConverging(ctx context.Context, c *wlCase, backend string, rt node.RootType, st *wlStats) string {
	ndb, r1, err := wlSeed(ctx, backend, rt, c.M1)
	if err != nil {
		return ""
	}
	defer ndb.Close()
	apply := func(t mkvs.Tree) error {
		for _, op := range c.Ops {
			var e error
			if op.A == "ins" {
				v := []byte(op.V)
				if v == nil {
					v = []byte{}
				}
				e = t.Insert(ctx, op.K, v)
			} else {
				e = t.Remove(ctx, op.K)
			}
			if e != nil {
				return e
			}
		}
		return nil
	}
	commit := func(t mkvs.Tree, version uint64) (node.Root, error) {
		_, h, e := t.Commit(ctx, mkNs, version)
		t.Close()
		return node.Root{Namespace: mkNs, Version: version, Type: rt, Hash: h}, e
	}
	ta := mkvs.NewWithRoot(nil, ndb, r1)
	if err = apply(ta); err != nil {
		ta.Close()
		return ""
	}
	ra, err := commit(ta, 1)
	if err != nil {
		return ""
	}
	tb := mkvs.NewWithRoot(nil, ndb, r1)
	if err = tb.Insert(ctx, []byte("zz-fork"), []byte("b")); err != nil {
		tb.Close()
		return ""
	}
	rb, err := commit(tb, 1)
	if err != nil || rb.Hash.Equal(&ra.Hash) {
		return ""
	}
	// A -> C: one more key; B -> C: the case's batch, the fork's key removed, the same new key
	tac := mkvs.NewWithRoot(nil, ndb, ra)
	if err = tac.Insert(ctx, []byte("zz-conv"), []byte("c")); err != nil {
		tac.Close()
		return ""
	}
	rc, err := commit(tac, 2)
	if err != nil {
		return "" // (a database may refuse to build on a version that is not finalized)
	}
	tbc := mkvs.NewWithRoot(nil, ndb, rb)
	if err = apply(tbc); err == nil {
		if err = tbc.Remove(ctx, []byte("zz-fork")); err == nil {
			err = tbc.Insert(ctx, []byte("zz-conv"), []byte("c"))
		}
	}
	if err != nil {
		tbc.Close()
		return ""
	}
	rc2, err := commit(tbc, 2)
	if err != nil || !rc2.Hash.Equal(&rc.Hash) {
		return ""
	}
	st.converging.Add(1)
	for _, pair := range [][2]node.Root{{ra, rc}, {rb, rc}, {r1, ra}, {r1, rb}} {
		it, gerr := ndb.GetWriteLog(ctx, pair[0], pair[1])
		if gerr != nil {
			continue
		}
		var served writelog.WriteLog
		ok := true
		for {
			more, nerr := it.Next()
			if nerr != nil {
				ok = false
				break
			}
			if !more {
				break
			}
			e, verr := it.Value()
			if verr != nil {
				ok = false
				break
			}
			served = append(served, e)
		}
		if !ok {
			continue
		}
		st.convergingServed.Add(1)
		t2 := mkvs.NewWithRoot(nil, ndb, pair[0])
		aerr := t2.ApplyWriteLog(ctx, writelog.NewStaticIterator(served))
		var h hash.Hash
		if aerr == nil {
			_, h, aerr = t2.Commit(ctx, mkNs, pair[1].Version, mkvs.NoPersist())
		}
		t2.Close()
		if aerr != nil || !h.Equal(&pair[1].Hash) {
			return fmt.Sprintf("converging candidates: log served for (%s v%d, %s v%d) %s applied at the first root gives %s (err %v)",
				pair[0].Hash.String()[:12], pair[0].Version, pair[1].Hash.String()[:12], pair[1].Version, wlString(served), h, aerr)
		}
	}
	return ""
}

type wlStats struct {
	converging, convergingServed                                                            atomic.Int64
	cases, servedPending, served, notServed, logDrift, applies, accepted, rejected, already atomic.Int64
	mu                                                                                      sync.Mutex
	declines                                                                                map[string]int // "<same root?>/<empty r2?>: error text" -> count
}

func (st *wlStats) decline(msg string, same, empty bool) {
	st.mu.Lock()
	defer st.mu.Unlock()
	if st.declines == nil {
		st.declines = map[string]int{}
	}
	if len(msg) > 120 {
		msg = msg[:120]
	}
	st.declines[fmt.Sprintf("%s (same root: %v, empty second root: %v)", msg, same, empty)]++
}

func wlogReplay(args []string) int {
	fs := flag.NewFlagSet("wlog-replay", flag.ExitOnError)
	in := fs.String("in", "-", "cases")
	out := fs.String("out", "-", "summary JSON")
	convEvery := fs.Int64("convevery", 4, "the converging-candidates leg runs for every n-th case")
	maxAccept := fs.Int("maxaccept", 1000, "harmless corrupted variants tried per case (each needs a fresh database)")
	fs.Parse(args)
	if *convEvery > 0 {
		wlConvEvery = *convEvery
	}
	r, err := openIn(*in)
	if err != nil {
		return 2
	}
	defer r.Close()
	var (
		mu       sync.Mutex
		findings []wlFinding
		classes  = map[string]int{}
		nCases   int
		samples  []json.RawMessage
		bad      atomic.Bool
		st       wlStats
	)
	type cfgT struct {
		be string
		rt node.RootType
	}
	cfgs := []cfgT{{"badger", node.RootTypeState}, {"pathbadger", node.RootTypeState}, {"badger", node.RootTypeIO}}
	lines := make(chan []byte, 256)
	var wg sync.WaitGroup
	for wk := 0; wk < runtime.NumCPU(); wk++ {
		wg.Add(1)
		go func() {
			defer wg.Done()
			for line := range lines {
				var c wlCase
				if err := json.Unmarshal(line, &c); err != nil {
					fmt.Fprintf(os.Stderr, "bad case: %v\n", err)
					bad.Store(true)
					continue
				}
				mu.Lock()
				nCases++
				if len(samples) < 2 {
					lite, _ := json.Marshal(map[string]any{"m1": c.M1, "ops": c.Ops, "m2": c.M2, "log": c.Log, "variants": len(c.Variants)})
					samples = append(samples, lite)
				}
				mu.Unlock()
				for _, cfg := range cfgs {
					var fsx []wlFinding
					if perr := guard(func() { fsx = wlRunCase(&c, cfg.be, cfg.rt, &st, *maxAccept) }); perr != nil {
						fsx = append(fsx, wlFinding{Kind: "panic", Backend: cfg.be, Root: fmt.Sprint(cfg.rt), Msg: perr.Error(), Case: map[string]any{"m1": c.M1, "ops": c.Ops}})
					}
					mu.Lock()
					for _, f := range fsx {
						cl := f.Kind + ":" + f.Backend
						if m, ok := f.Variant.(map[string]any); ok && f.Kind == "declined" {
							cl += fmt.Sprintf(":noop_overwrite=%v", m["noop_overwrite"])
						}
						classes[cl]++
						if classes[cl] <= 3 {
							findings = append(findings, f)
						}
					}
					mu.Unlock()
				}
			}
		}()
	}
	sc := lineReader(r)
	for sc.Scan() {
		line := sc.Bytes()
		if len(line) == 0 || line[0] != '{' {
			continue
		}
		lines <- append([]byte{}, line...)
	}
	close(lines)
	wg.Wait()
	if bad.Load() || sc.Err() != nil {
		return 2
	}
	w, err := openOut(*out)
	if err != nil {
		return 2
	}
	defer w.Close()
	w.Write(mustJSON(map[string]any{
		"cases": nCases, "classes": classes, "findings": findings, "samples": samples,
		"served": st.served.Load(), "served_pending": st.servedPending.Load(), "converging_forks": st.converging.Load(), "converging_logs_served": st.convergingServed.Load(), "not_served": st.notServed.Load(), "declines": st.declines, "log_drift": st.logDrift.Load(),
		"applies": st.applies.Load(), "expected_accept": st.accepted.Load(), "expected_reject": st.rejected.Load(), "expected_root_already_present": st.already.Load(),
	}))
	return 0
}
