package main

// C19: stateless-replay - executor of abstract cases on the real verification functions, proof sweep over
// synthetic transaction lists, byte-level expansion, trace and summary writer.

import (
	"bufio"
	"bytes"
	"context"
	"crypto/sha256"
	"encoding/json"
	"flag"
	"fmt"
	"os"
	"runtime"
	"sort"
	"strings"
	"sync"

	cmtmerkle "github.com/cometbft/cometbft/crypto/merkle"
	cmttypes "github.com/cometbft/cometbft/types"
	"github.com/oasisprotocol/oasis-core/go/consensus/cometbft/crypto/merkle"

	"github.com/oasisprotocol/oasis-core/go/common/cbor"
	"github.com/oasisprotocol/oasis-core/go/common/crypto/hash"
	consensusAPI "github.com/oasisprotocol/oasis-core/go/consensus/api"
	"github.com/oasisprotocol/oasis-core/go/consensus/api/transaction"
	cmtconsensus "github.com/oasisprotocol/oasis-core/go/consensus/cometbft/consensus"
	"github.com/oasisprotocol/oasis-core/go/consensus/cometbft/stateless"
	genesis "github.com/oasisprotocol/oasis-core/go/consensus/genesis"
)

func init() {
	register("stateless-replay", "C19: concretise TLC-emitted (request, alteration) cases on the real stateless verification code; record the outcome trace", slReplay)
}

type slEvent struct {
	Ev       string   `json:"ev"`
	Mode     string   `json:"mode"`
	U        string   `json:"u"`
	Req      string   `json:"req"`
	H        int      `json:"h"`
	Latest   int      `json:"latest"`
	Seq      int      `json:"seq"`
	Abs      string   `json:"abs"`
	Conc     string   `json:"conc"`
	Altered  bool     `json:"altered"`
	ModelOk  bool     `json:"model_ok"`
	ModelErr string   `json:"model_err"`
	Accepted bool     `json:"accepted"`
	Err      string   `json:"err"`
	ErrClass string   `json:"errclass"`
	ProjEq   bool     `json:"projection_equal"`
	Diff     []string `json:"diff"`
	XDiff    []string `json:"xdiff"`
	Class    string   `json:"class"`
	ProofsOk bool     `json:"proofs_ok"`
	CachesOk bool     `json:"caches_ok"`
	Panic    string   `json:"panic,omitempty"`
	N        int      `json:"n"`
}

type slAgg struct {
	first slEvent
	n     int
}

type slRunner struct {
	mu       sync.Mutex
	w        *bufio.Writer
	thorough bool
	keep     int
	aggs     map[string]*slAgg
	aggOrder []string
	events   int

	cases, skipped        int
	byReq, byAlt, byMode  map[string]int
	byOutcome, skipWhy    map[string]int
	harmless, drift       int
	excludedOnly          int
	panics                int
	findings              map[string]int
	findingSample         map[string]slEvent
	honestRejected        int
	undecodable           int
	driftSamples, samples []slEvent
	harmlessSamples       []slEvent
	proofChecks           int
}

func (x *slRunner) skip(why string) {
	x.mu.Lock()
	x.skipped++
	x.skipWhy[why]++
	x.mu.Unlock()
}

func slAltClass(o *slOp, mode string) string {
	if mode == "bytes" {
		return "byte-level"
	}
	if o.Req == "SubmitTxWithProof" {
		if o.altered() {
			return "proof-altered"
		}
		return "honest"
	}
	switch {
	case o.Whole != 0 && len(o.Alts) > 0:
		return "other-height-response+field"
	case o.Whole != 0:
		return "other-height-response"
	case len(o.Alts) == 0:
		return "honest"
	case len(o.Alts) == 1:
		return "single-" + o.Alts[0].K
	default:
		ks := []string{o.Alts[0].K, o.Alts[1].K}
		sort.Strings(ks)
		return "double-" + ks[0] + "+" + ks[1]
	}
}

// emit accounts one outcome and writes it to the trace (individually for the first `keep` outcomes of an
// aggregation key, as a counted aggregate event afterwards).  aggKey == "" : always individual.
func (x *slRunner) emit(e slEvent, o *slOp, aggKey string) {
	if e.Diff == nil {
		e.Diff = []string{}
	}
	if e.XDiff == nil {
		e.XDiff = []string{}
	}
	e.Ev = "case"
	e.N = 1
	x.mu.Lock()
	defer x.mu.Unlock()
	x.cases++
	x.byReq[e.Req]++
	x.byMode[e.Mode+"/"+e.U]++
	x.byAlt[slAltClass(o, e.Mode)]++
	switch {
	case e.Panic != "":
		x.byOutcome["panic"]++
		x.panics++
	case e.Accepted:
		x.byOutcome["accepted"]++
	default:
		x.byOutcome["rejected:"+e.ErrClass]++
	}
	if e.Panic != "" {
		e.Class = "panic:" + e.Req
	}
	bound := !(e.Req == "GetBlockResults" && e.H >= e.Latest)
	if e.Panic == "" && e.Accepted && e.Altered {
		switch {
		case e.ProjEq && len(e.XDiff) > 0:
			x.excludedOnly++
		case e.ProjEq:
			x.harmless++
			if len(x.harmlessSamples) < 6 {
				x.harmlessSamples = append(x.harmlessSamples, e)
			}
		}
	}
	if e.Panic != "" || (e.Accepted && e.Altered && !e.ProjEq && bound) || (e.Accepted && (!e.ProofsOk || !e.CachesOk)) {
		x.findings[e.Class]++
		if _, ok := x.findingSample[e.Class]; !ok {
			x.findingSample[e.Class] = e
		}
	}
	if !e.Altered && !e.Accepted && e.Panic == "" {
		x.honestRejected++
	}
	if e.Mode != "bytes" && e.Mode != "sweep" && e.Panic == "" {
		if e.ModelOk != e.Accepted || (!e.Accepted && e.ModelErr != e.ErrClass) {
			x.drift++
			if len(x.driftSamples) < 12 {
				x.driftSamples = append(x.driftSamples, e)
			}
		}
	}
	if len(x.samples) < 4 && e.Altered && x.cases%977 == 1 {
		x.samples = append(x.samples, e)
	}
	if aggKey != "" {
		// Outcomes are only ever folded together with outcomes of the same verdict.
		aggKey += fmt.Sprintf("|%s|%d|%d|%v|%v|%v|%v|%v|%v|%s|%s|%s", e.Req, e.H, e.Latest, e.Altered, e.Accepted, e.ProjEq,
			e.ProofsOk, e.CachesOk, e.Panic != "", strings.Join(e.Diff, ","), strings.Join(e.XDiff, ","), e.Class)
		a := x.aggs[aggKey]
		if a == nil {
			a = &slAgg{first: e}
			x.aggs[aggKey] = a
			x.aggOrder = append(x.aggOrder, aggKey)
		}
		a.n++
		if a.n > x.keep {
			return
		}
	}
	x.events++
	x.w.Write(mustJSON(e))
	x.w.WriteByte('\n')
}

// begin starts a new trace segment (TLC validates segments independently).
func (x *slRunner) begin(section string) {
	x.flushAggs()
	x.mu.Lock()
	defer x.mu.Unlock()
	x.aggs, x.aggOrder = map[string]*slAgg{}, nil
	x.events++
	x.w.Write(mustJSON(map[string]any{"ev": "begin", "section": section}))
	x.w.WriteByte('\n')
}

func (x *slRunner) flushAggs() {
	for _, k := range x.aggOrder {
		a := x.aggs[k]
		if a.n <= x.keep {
			continue
		}
		e := a.first
		e.Ev = "agg"
		e.N = a.n - x.keep
		e.Conc = fmt.Sprintf("aggregate of %d further outcomes with the same verdict fields (first: %s)", e.N, e.Conc)
		x.events++
		x.w.Write(mustJSON(e))
		x.w.WriteByte('\n')
	}
}

// ---------------------------------------------------------------------------------------------
// function-level execution

// slFakeQueries stands for the light query factory: the backend-agnostic parameters proven by the state
// of the given height (MKVS proof verification is property C04).
type slFakeQueries struct{ byHeight map[int64]*genesis.Parameters }

type slFakeQuery struct{ p *genesis.Parameters }

func (f *slFakeQueries) QueryAt(_ context.Context, height int64) (cmtconsensus.Query, error) {
	p, ok := f.byHeight[height]
	if !ok {
		return nil, fmt.Errorf("failed to get state root: no state for height %d", height)
	}
	return &slFakeQuery{p}, nil
}

func (q *slFakeQuery) ChainContext(context.Context) (string, error) { return "", nil }

func (q *slFakeQuery) ConsensusParameters(context.Context) (*genesis.Parameters, error) {
	c := *q.p
	return &c, nil
}

func slFnCore(u *slUniverse) *stateless.Core {
	c := stateless.NewCore(nil, nil, stateless.Config{})
	f := &slFakeQueries{byHeight: map[int64]*genesis.Parameters{}}
	for _, d := range u.syn {
		if d.params != nil {
			p := d.params.Parameters
			f.byHeight[d.height] = &p
		}
	}
	c.SetQueriers(nil, f, nil)
	return c
}

type slOutcome struct {
	err      error
	proj     map[string]string
	proofsOk bool
	panicked string
}

func slCheckProofs(txs [][]byte, lb *cmttypes.LightBlock) bool {
	twp := stateless.VerifTransactionsWithProofs(txs)
	if len(twp.Proofs) != len(txs) || len(twp.Transactions) != len(txs) {
		return false
	}
	for i := range txs {
		if !bytes.Equal(twp.Transactions[i], txs[i]) {
			return false
		}
		var tx transaction.SignedTransaction
		if err := cbor.Unmarshal(txs[i], &tx); err != nil {
			continue // not a signed transaction: nothing to verify the proof for
		}
		if !bytes.Equal(cbor.Marshal(&tx), txs[i]) {
			continue
		}
		p := &transaction.Proof{Height: lb.Height, RawProof: twp.Proofs[i]}
		if stateless.VerifVerifyTransactionProof(p, &tx, lb) != nil {
			return false
		}
		j := (i + 1) % len(txs)
		if !bytes.Equal(txs[j], txs[i]) {
			var other transaction.SignedTransaction
			if cbor.Unmarshal(txs[j], &other) == nil && stateless.VerifVerifyTransactionProof(p, &other, lb) == nil {
				return false
			}
		}
	}
	return true
}

// slExecFn runs the verification the code performs for the request on response r.
func slExecFn(u *slUniverse, core *stateless.Core, o *slOp, r *slResp) (out slOutcome) {
	anchor := slAnchor(o)
	lbAt := func(mh int) *cmttypes.LightBlock {
		if d := u.at(anchor, mh); d != nil {
			return d.lb
		}
		return nil
	}
	out.proofsOk = true
	perr := guard(func() {
		switch o.Req {
		case "GetBlock":
			out.err = stateless.VerifVerifyBlock(r.block, lbAt(o.H))
			out.proj = slProject(r)
		case "GetTransactions", "GetTransactionsWithProofs":
			out.err = stateless.VerifVerifyTransactions(r.txs, lbAt(o.H))
			out.proj = slProject(r)
			if out.err == nil && o.Req == "GetTransactionsWithProofs" {
				out.proofsOk = slCheckProofs(r.txs, lbAt(o.H))
			}
		case "StateRoot":
			out.err = stateless.VerifVerifyTransactions(r.txs, lbAt(o.H))
			if out.err == nil {
				var sr hash.Hash
				sr, out.err = stateless.VerifStateRootFromBlockTxs(r.txs)
				out.proj = map[string]string{"state_root": slHex(sr[:])}
			}
		case "GetBlockResults":
			_, out.err = stateless.VerifVerifyBlockResults(r.results, lbAt(o.H+1).LastResultsHash, lbAt(o.H))
			out.proj = slProject(r)
		case "GetValidators":
			out.err = core.VerifVerifyNextValidators(r.vals, lbAt(o.H-1))
			out.proj = slProject(r)
		case "GetParameters":
			out.err = core.VerifVerifyParameters(context.Background(), r.params, lbAt(o.H))
			out.proj = slProject(r)
		}
	})
	if perr != nil {
		out.panicked = slShort(perr.Error(), 200)
	}
	return
}

// slExpected is the projection of the canonical datum of the requested height.
func slExpected(u *slUniverse, o *slOp) map[string]string {
	d := u.at(slAnchor(o), o.H)
	if d == nil {
		return nil
	}
	if o.Req == "StateRoot" {
		if d.sr == nil {
			return nil
		}
		return map[string]string{"state_root": slHex(d.sr[:])}
	}
	h := slHonest(d, slKindOf(o.Req))
	if h == nil {
		return nil
	}
	return slProject(h)
}

// slFnApplicable: does the request reach a verification function with a provider response at all?
func slFnApplicable(o *slOp) string {
	switch o.Req {
	case "GetBlock", "GetTransactions", "GetTransactionsWithProofs":
		if o.H > o.Latest {
			return "no light block for the height (light client refuses; core mode only)"
		}
	case "GetParameters":
		if o.H > o.Latest {
			return "no light block for the height (light client refuses; core mode only)"
		}
		for _, a := range o.Alts {
			if a.F == "txs" {
				return "nested transaction list alteration (core mode only)"
			}
		}
	case "StateRoot":
		if o.H != o.Latest {
			return "state root from header h+1 or unavailable: no provider data (core mode only)"
		}
	case "GetBlockResults":
		if o.H >= o.Latest {
			return "results of the latest height are only height-checked by Core.verifyBlockResults (core mode only)"
		}
	case "GetValidators":
		if o.H != o.Latest+1 || o.H < 2 {
			return "validators served from the light block or unavailable: no provider data (core mode only)"
		}
	}
	return ""
}

func (x *slRunner) baseEvent(mode string, u *slUniverse, o *slOp, abs string) slEvent {
	return slEvent{Mode: mode, U: u.name, Req: o.Req, H: o.H, Latest: o.Latest, Abs: abs, Altered: o.altered(),
		ModelOk: o.Ok, ModelErr: o.Err, ProofsOk: true, CachesOk: true}
}

func (x *slRunner) runFn(u *slUniverse, core *stateless.Core, o *slOp, seen map[string]bool) {
	abs := string(mustJSON(o))
	if o.Req == "SubmitTxWithProof" {
		if u.syn != nil {
			x.runProofCase(u, o, abs)
		}
		return
	}
	if why := slFnApplicable(o); why != "" {
		x.skip(why)
		return
	}
	if u.syn == nil {
		// The recorded universe knows heights only relative to the request: fold equivalent cases.
		rel := o.Latest - o.H
		if rel > 1 {
			rel = 1
		}
		key := fmt.Sprintf("%s|%d|%d|%s", o.Req, rel, o.Whole-o.H, mustJSON(o.Alts))
		for _, a := range o.Alts {
			if a.K == "from" {
				key += fmt.Sprintf("|%d", a.H-o.H)
			}
		}
		if seen[key] {
			return
		}
		seen[key] = true
	}
	exp := slExpected(u, o)
	if exp == nil {
		x.skip("universe " + u.name + " has no canonical datum for the case")
		return
	}
	ran := false
	for _, v := range slVariants(o, x.thorough) {
		r, conc, ok := slBuild(u, o, v)
		if !ok {
			continue
		}
		if o.Req == "GetBlockResults" && u.at(slAnchor(o), o.H+1) == nil {
			continue
		}
		ran = true
		out := slExecFn(u, core, o, r)
		e := x.baseEvent("fn", u, o, abs)
		e.Conc = conc
		e.Panic = out.panicked
		e.Accepted = out.err == nil && out.panicked == ""
		e.ErrClass = slErrClass(out.err)
		if out.err != nil {
			e.Err = slShort(out.err.Error(), 160)
		}
		e.ProofsOk = out.proofsOk
		if out.proj != nil {
			e.Diff, e.XDiff = slDiff(out.proj, exp)
		} else {
			e.Diff = []string{"undetermined"}
		}
		e.ProjEq = len(e.Diff) == 0
		e.Class = slClass(slKindOf(o.Req), e.Diff)
		if e.Accepted && !e.ProofsOk {
			e.Class = "proofs-generated-for-verified-list-do-not-verify"
		}
		x.emit(e, o, "")
	}
	if !ran {
		x.skip("universe " + u.name + " lacks the data of a height the alteration takes a field from")
	}
}

// ---------------------------------------------------------------------------------------------
// transaction inclusion proofs

func slForeignTx() []byte {
	return slSynTx("foreign", 77, "verif.Foreign", []byte("not in any block"))
}

type slProofMut struct {
	name string
	fn   func(raw []byte) []byte
}

func slProofFieldMut(name string, fn func(p *cmtmerkle.Proof) bool) slProofMut {
	return slProofMut{name, func(raw []byte) []byte {
		var p cmtmerkle.Proof
		if cbor.Unmarshal(raw, &p) != nil {
			return nil
		}
		if !fn(&p) {
			return nil
		}
		return cbor.Marshal(&p)
	}}
}

var slProofMuts = []slProofMut{
	slProofFieldMut("leaf_hash.byte0^01", func(p *cmtmerkle.Proof) bool { p.LeafHash[0] ^= 1; return true }),
	slProofFieldMut("aunt0.byte0^01", func(p *cmtmerkle.Proof) bool {
		if len(p.Aunts) == 0 {
			return false
		}
		p.Aunts[0][0] ^= 1
		return true
	}),
	slProofFieldMut("total+1", func(p *cmtmerkle.Proof) bool { p.Total++; return true }),
	slProofFieldMut("total-1", func(p *cmtmerkle.Proof) bool { p.Total--; return true }),
	slProofFieldMut("index+1", func(p *cmtmerkle.Proof) bool { p.Index++; return true }),
	slProofFieldMut("index-1", func(p *cmtmerkle.Proof) bool { p.Index--; return true }),
	slProofFieldMut("drop-last-aunt", func(p *cmtmerkle.Proof) bool {
		if len(p.Aunts) == 0 {
			return false
		}
		p.Aunts = p.Aunts[:len(p.Aunts)-1]
		return true
	}),
	slProofFieldMut("append-aunt", func(p *cmtmerkle.Proof) bool { p.Aunts = append(p.Aunts, bytes.Repeat([]byte{7}, 32)); return true }),
	slProofFieldMut("swap-aunts-0-1", func(p *cmtmerkle.Proof) bool {
		if len(p.Aunts) < 2 {
			return false
		}
		p.Aunts[0], p.Aunts[1] = p.Aunts[1], p.Aunts[0]
		return true
	}),
	{"truncate-1", func(raw []byte) []byte { return raw[:len(raw)-1] }},
	{"empty", func(raw []byte) []byte { return []byte{} }},
}

func slContains(list [][]byte, tx []byte) bool {
	for _, t := range list {
		if bytes.Equal(t, tx) {
			return true
		}
	}
	return false
}

// slVerifyProof calls the real verifyTransactionProof for transaction bytes txb.
func slVerifyProof(raw, txb []byte, lb *cmttypes.LightBlock) (err error, panicked string) {
	var tx transaction.SignedTransaction
	slMust(cbor.Unmarshal(txb, &tx))
	perr := guard(func() {
		err = stateless.VerifVerifyTransactionProof(&transaction.Proof{Height: lb.Height, RawProof: raw}, &tx, lb)
	})
	if perr != nil {
		panicked = slShort(perr.Error(), 200)
	}
	return
}

func (x *slRunner) proofEvent(e slEvent, o *slOp, raw, txb []byte, lb *cmttypes.LightBlock, blockList [][]byte, aggKey string) {
	err, p := slVerifyProof(raw, txb, lb)
	e.Panic = p
	e.Accepted = err == nil && p == ""
	e.ErrClass = slErrClass(err)
	if err != nil {
		e.Err = slShort(err.Error(), 120)
	}
	// The claim an accepted proof makes: the transaction is part of the block.
	in := slContains(blockList, txb)
	e.ProjEq = in
	if e.Accepted && !in {
		e.Diff = []string{"proof.transaction-not-in-block"}
		e.Class = "bound:proof:transaction-not-in-block"
	}
	x.mu.Lock()
	x.proofChecks++
	x.mu.Unlock()
	x.emit(e, o, aggKey)
	// The proof must verify for exactly the bytes it was issued for: the tree is built over transaction digests, so neither the
	// digest of the transaction nor its leaf hash - handed over as if they were the transaction - may be accepted.
	d1 := sha256.Sum256(txb)
	d2 := sha256.Sum256(append([]byte{0}, d1[:]...))
	for _, it := range []struct {
		name string
		item []byte
	}{{"digest", d1[:]}, {"leafhash", d2[:]}} {
		var verr error
		perr := guard(func() { verr = merkle.VerifyTransaction(raw, lb.DataHash, it.item) })
		x.mu.Lock()
		x.proofChecks++
		x.mu.Unlock()
		if perr == nil && verr != nil {
			continue
		}
		e2 := e
		e2.Conc, e2.Mode, e2.Altered, e2.Accepted, e2.ProjEq = "proof:"+it.name+"-as-transaction", "bytes", true, perr == nil, false
		e2.Err, e2.ErrClass, e2.Diff, e2.Class = "", "", []string{"proof.transaction-not-in-block"}, "bound:proof:"+it.name+"-accepted-as-transaction"
		if perr != nil {
			e2.Panic = slShort(perr.Error(), 200)
		}
		x.emit(e2, o, aggKey)
	}
}

// runProofCase: an abstract SubmitTxWithProof case on the synthetic chain (heights as emitted).
func (x *slRunner) runProofCase(u *slUniverse, o *slOp, abs string) {
	if o.H > o.Latest {
		x.skip("no light block for the height (light client refuses; core mode only)")
		return
	}
	raw, txb, ok := slProofCaseData(u, o)
	if !ok {
		x.skip("proof index outside the synthetic list")
		return
	}
	g := u.syn[o.H]
	muts := []slProofMut{{"as-issued", func(r []byte) []byte { return r }}}
	if o.P.Bytes != 0 {
		muts = slProofMuts
	}
	for _, m := range muts {
		mr := m.fn(append([]byte{}, raw...))
		if mr == nil {
			continue
		}
		e := x.baseEvent("fn", u, o, abs)
		e.Conc = "proof:" + m.name
		x.proofEvent(e, o, mr, txb, g.lb, g.txs, "")
	}
}

func slProofCaseData(u *slUniverse, o *slOp) (raw, txb []byte, ok bool) {
	if o.T.L == 0 {
		txb = slForeignTx()
	} else {
		l := u.syn[o.T.L].txs
		if o.T.I > len(l) {
			return nil, nil, false
		}
		txb = l[o.T.I-1]
	}
	pl := u.syn[o.P.L].txs
	if o.P.I > len(pl) {
		return nil, nil, false
	}
	return stateless.VerifTransactionsWithProofs(pl).Proofs[o.P.I-1], txb, true
}

func slSweepList(tag string, n int) [][]byte {
	txs := make([][]byte, 0, n)
	for i := 0; i < n; i++ {
		txs = append(txs, slSynTx(fmt.Sprintf("sweep-%s-%d", tag, i), uint64(i), "verif.Sweep", bytes.Repeat([]byte{byte(i)}, 1+i%7)))
	}
	return txs
}

func slWithDataHash(lb *cmttypes.LightBlock, txs [][]byte) *cmttypes.LightBlock {
	var data cmttypes.Data
	for _, tx := range txs {
		data.Txs = append(data.Txs, tx)
	}
	h := *lb.SignedHeader.Header
	h.DataHash = data.Hash()
	return &cmttypes.LightBlock{SignedHeader: &cmttypes.SignedHeader{Header: &h, Commit: lb.Commit}, ValidatorSet: lb.ValidatorSet}
}

// runSweep concretises every role class of the abstract proof cases over synthetic transaction lists of
// sizes 0..16 (recomputed DataHash), every index, other indexes, other lists, altered proofs.
func (x *slRunner) runSweep(u *slUniverse, ops []*slOp) {
	type role struct {
		o   *slOp
		abs string
	}
	roles := map[string]role{}
	var order []string
	for _, o := range ops {
		if o.H > o.Latest {
			continue
		}
		sig := fmt.Sprintf("foreign=%v block-of-tx=%v proof-of-tx-list=%v proof-of-block-list=%v same-index=%v damaged=%v",
			o.T.L == 0, o.H == o.T.L, o.P.L == o.T.L, o.P.L == o.H, o.P.I == o.T.I, o.P.Bytes != 0)
		if _, ok := roles[sig]; !ok {
			roles[sig] = role{o, sig}
			order = append(order, sig)
		}
	}
	sort.Strings(order)
	baseLB := u.syn[2].lb
	for n := 0; n <= 16; n++ {
		lists := [][][]byte{slSweepList(fmt.Sprintf("A%d", n), n), slSweepList(fmt.Sprintf("B%d", n), n), append(slSweepList(fmt.Sprintf("A%d", n), n), slSweepList(fmt.Sprintf("C%d", n), 1)...)}
		var lbs []*cmttypes.LightBlock
		var proofs [][][]byte
		for _, l := range lists {
			lb := slWithDataHash(baseLB, l)
			lbs = append(lbs, lb)
			proofs = append(proofs, stateless.VerifTransactionsWithProofs(l).Proofs)
			// The honest list must verify against its recomputed header.
			o := &slOp{Req: "GetTransactions", H: 2, Latest: 3, Ok: true, Err: "ok"}
			e := x.baseEvent("sweep", u, o, fmt.Sprintf("honest list of %d transactions", len(l)))
			err := stateless.VerifVerifyTransactions(l, lb)
			e.Accepted, e.ErrClass, e.ProjEq, e.Conc = err == nil, slErrClass(err), true, fmt.Sprintf("n=%d", len(l))
			x.emit(e, o, "sweep-honest-list")
		}
		for _, sig := range order {
			ro := roles[sig]
			o := ro.o
			// abstract list ids -> concrete lists: the transaction's list is A, further ids B then C(=A+1).
			idmap := map[int]int{}
			if o.T.L != 0 {
				idmap[o.T.L] = 0
			}
			next := 1
			for _, id := range []int{o.H, o.P.L} {
				if _, ok := idmap[id]; !ok {
					idmap[id] = next
					next++
				}
			}
			if idmap[o.H] > 2 || idmap[o.P.L] > 2 {
				continue
			}
			G, P := lists[idmap[o.H]], lists[idmap[o.P.L]]
			lb, pr := lbs[idmap[o.H]], proofs[idmap[o.P.L]]
			for idx := 0; idx < 17; idx++ {
				var txb []byte
				if o.T.L == 0 {
					txb = slForeignTx()
					if idx >= len(P) {
						break
					}
				} else {
					if idx >= len(lists[0]) {
						break
					}
					txb = lists[0][idx]
				}
				var pidx []int
				if o.P.I == o.T.I {
					pidx = []int{idx}
				} else {
					for j := range P {
						if j != idx && (x.thorough || j == 0 || j == len(P)-1 || j == idx+1 || j == idx-1) {
							pidx = append(pidx, j)
						}
					}
				}
				for _, j := range pidx {
					if j >= len(pr) {
						continue
					}
					muts := []slProofMut{{"as-issued", func(r []byte) []byte { return r }}}
					if o.P.Bytes != 0 {
						muts = slProofMuts
					}
					for _, m := range muts {
						mr := m.fn(append([]byte{}, pr[j]...))
						if mr == nil {
							continue
						}
						e := x.baseEvent("sweep", u, o, ro.abs)
						e.Conc = fmt.Sprintf("n=%d tx=%d proof=%d/%d %s", len(lists[0]), idx, j, len(P), m.name)
						x.proofEvent(e, o, mr, txb, lb, G, "sweep|"+sig+"|"+m.name)
					}
					if o.P.Bytes != 0 && x.thorough {
						for off := range pr[j] {
							for _, mask := range []byte{0x01, 0x80} {
								mr := append([]byte{}, pr[j]...)
								mr[off] ^= mask
								e := x.baseEvent("sweep", u, o, ro.abs)
								e.Conc = fmt.Sprintf("n=%d tx=%d proof=%d/%d byte %d ^%02x", len(lists[0]), idx, j, len(P), off, mask)
								x.proofEvent(e, o, mr, txb, lb, G, "sweep-bytes|"+sig)
							}
						}
					}
				}
			}
		}
	}
}

// ---------------------------------------------------------------------------------------------
// byte-level expansion of the encoded (wire) responses

type slByteTarget struct {
	o    *slOp
	wire []byte
	dec  func(b []byte) (*slResp, error)
}

func slByteTargets(u *slUniverse) []slByteTarget {
	var out []slByteTarget
	add := func(o *slOp) {
		o.Ok, o.Err = false, "byte-level"
		r := slHonest(u.at(slAnchor(o), o.H), slKindOf(o.Req))
		if r == nil || slExpected(u, o) == nil {
			return
		}
		if o.Req == "GetBlockResults" && u.at(slAnchor(o), o.H+1) == nil {
			return
		}
		if o.Req == "GetValidators" && u.at(slAnchor(o), o.H-1) == nil {
			return
		}
		t := slByteTarget{o: o}
		switch r.kind {
		case "block":
			t.wire = cbor.Marshal(r.block)
			t.dec = func(b []byte) (*slResp, error) {
				var v consensusAPI.Block
				err := cbor.UnmarshalRPC(b, &v)
				return &slResp{kind: "block", block: &v}, err
			}
		case "txs":
			t.wire = cbor.Marshal(r.txs)
			t.dec = func(b []byte) (*slResp, error) {
				var v [][]byte
				err := cbor.UnmarshalRPC(b, &v)
				return &slResp{kind: "txs", txs: v}, err
			}
		case "results":
			t.wire = cbor.Marshal(r.results)
			t.dec = func(b []byte) (*slResp, error) {
				var v consensusAPI.BlockResults
				err := cbor.UnmarshalRPC(b, &v)
				return &slResp{kind: "results", results: &v}, err
			}
		case "vals":
			t.wire = cbor.Marshal(r.vals)
			t.dec = func(b []byte) (*slResp, error) {
				var v consensusAPI.Validators
				err := cbor.UnmarshalRPC(b, &v)
				return &slResp{kind: "vals", vals: &v}, err
			}
		case "params":
			t.wire = cbor.Marshal(r.params)
			t.dec = func(b []byte) (*slResp, error) {
				var v consensusAPI.Parameters
				err := cbor.UnmarshalRPC(b, &v)
				return &slResp{kind: "params", params: &v}, err
			}
		}
		out = append(out, t)
	}
	add(&slOp{Req: "GetBlock", H: 2, Latest: 3})
	add(&slOp{Req: "GetTransactions", H: 2, Latest: 3})
	add(&slOp{Req: "StateRoot", H: 2, Latest: 2})
	add(&slOp{Req: "GetBlockResults", H: 2, Latest: 3})
	add(&slOp{Req: "GetValidators", H: 3, Latest: 2})
	add(&slOp{Req: "GetParameters", H: 2, Latest: 3})
	if u.syn != nil {
		add(&slOp{Req: "GetBlock", H: 3, Latest: 3})
		add(&slOp{Req: "GetTransactions", H: 1, Latest: 3})
		add(&slOp{Req: "GetValidators", H: 4, Latest: 3})
	}
	return out
}

func (x *slRunner) runBytes(u *slUniverse, core *stateless.Core, stride int, masks []byte) {
	type job struct {
		t    *slByteTarget
		off  int
		mask byte
		op   string
	}
	jobs := make(chan job, 1024)
	var wg sync.WaitGroup
	for w := 0; w < runtime.NumCPU(); w++ {
		wg.Add(1)
		go func() {
			defer wg.Done()
			for j := range jobs {
				wire := append([]byte{}, j.t.wire...)
				switch j.op {
				case "xor":
					wire[j.off] ^= j.mask
				case "del":
					wire = append(wire[:j.off], wire[j.off+1:]...)
				case "ins":
					wire = append(wire[:j.off], append([]byte{j.mask}, wire[j.off:]...)...)
				case "trunc":
					wire = wire[:j.off]
				}
				var r *slResp
				var derr error
				if perr := guard(func() { r, derr = j.t.dec(wire) }); perr != nil {
					derr = perr
				}
				o := j.t.o
				if derr != nil {
					x.mu.Lock()
					x.undecodable++
					x.mu.Unlock()
					continue
				}
				if r.kind == "params" {
					r.txs = nil
				}
				out := slExecFn(u, core, o, r)
				e := x.baseEvent("bytes", u, o, fmt.Sprintf("encoded %s response of %d bytes", o.Req, len(j.t.wire)))
				e.Altered = true
				e.Conc = fmt.Sprintf("wire byte %d %s %02x", j.off, j.op, j.mask)
				e.Panic = out.panicked
				e.Accepted = out.err == nil && out.panicked == ""
				e.ErrClass = slErrClass(out.err)
				if out.err != nil {
					e.Err = slShort(out.err.Error(), 120)
				}
				e.ProofsOk = true
				if out.proj != nil {
					e.Diff, e.XDiff = slDiff(out.proj, slExpected(u, o))
				} else {
					e.Diff = []string{"undetermined"}
				}
				e.ProjEq = len(e.Diff) == 0
				e.Class = slClass(slKindOf(o.Req), e.Diff)
				key := fmt.Sprintf("bytes|%s|%s|%d|%v|%s|%v|%s|%s|%v", u.name, o.Req, o.H, e.Accepted, e.ErrClass, e.ProjEq,
					strings.Join(e.Diff, ","), strings.Join(e.XDiff, ","), e.Panic != "")
				x.emit(e, o, key)
			}
		}()
	}
	targets := slByteTargets(u)
	for i := range targets {
		t := &targets[i]
		for off := 0; off < len(t.wire); off += stride {
			for _, m := range masks {
				jobs <- job{t, off, m, "xor"}
			}
		}
		for off := 0; off < len(t.wire); off += stride * 7 {
			jobs <- job{t, off, 0, "del"}
			jobs <- job{t, off, 0x61, "ins"}
			jobs <- job{t, off, 0, "trunc"}
		}
	}
	close(jobs)
	wg.Wait()
}

// ---------------------------------------------------------------------------------------------

func slReplay(args []string) int {
	fs := flag.NewFlagSet("stateless-replay", flag.ExitOnError)
	in := fs.String("in", "-", "ndjson of TLC-emitted behaviours")
	outPath := fs.String("out", "", "summary JSON")
	tracePath := fs.String("trace", "", "ndjson trace for TraceStateless.tla")
	tier := fs.String("tier", "quick", "quick | thorough")
	repo := fs.String("repo", os.Getenv("REPO"), "repository worktree")
	coreMode := fs.Bool("core", true, "also replay the behaviours on a real stateless.Core")
	fs.Parse(args)
	if *repo == "" {
		*repo = "/repo"
	}
	thorough := *tier == "thorough"

	var tw *os.File
	var err error
	if tw, err = os.Create(*tracePath); err != nil {
		fmt.Fprintln(os.Stderr, err)
		return 2
	}
	x := &slRunner{w: bufio.NewWriterSize(tw, 1<<20), thorough: thorough, keep: 3, aggs: map[string]*slAgg{},
		byReq: map[string]int{}, byAlt: map[string]int{}, byMode: map[string]int{}, byOutcome: map[string]int{},
		skipWhy: map[string]int{}, findings: map[string]int{}, findingSample: map[string]slEvent{}}
	var universes []*slUniverse
	if err := guard(func() { universes = []*slUniverse{slLoadMain(*repo), slBuildSyn()} }); err != nil {
		fmt.Fprintln(os.Stderr, "universe construction failed:", err)
		return 2
	}

	rd, err := openIn(*in)
	if err != nil {
		fmt.Fprintln(os.Stderr, err)
		return 2
	}
	sc := lineReader(rd)
	var behaviours []*slBehaviour
	for sc.Scan() {
		if len(bytes.TrimSpace(sc.Bytes())) == 0 {
			continue
		}
		var b slBehaviour
		if err := json.Unmarshal(sc.Bytes(), &b); err != nil {
			fmt.Fprintln(os.Stderr, "bad behaviour:", err)
			return 2
		}
		for i := range b.Ops {
			b.Ops[i].sortAlts()
		}
		behaviours = append(behaviours, &b)
	}

	// function level: every distinct abstract (request, alteration) occurring in any behaviour
	distinct := map[string]*slOp{}
	var order []string
	var proofOps []*slOp
	for _, b := range behaviours {
		for i := range b.Ops {
			o := &b.Ops[i]
			if o.Req == "Advance" {
				continue
			}
			k := string(mustJSON(o))
			if _, ok := distinct[k]; !ok {
				distinct[k] = o
				order = append(order, k)
				if o.Req == "SubmitTxWithProof" {
					proofOps = append(proofOps, o)
				}
			}
		}
	}
	for _, u := range universes {
		x.begin("fn/" + u.name)
		core := slFnCore(u)
		seen := map[string]bool{}
		for _, k := range order {
			x.runFn(u, core, distinct[k], seen)
		}
	}
	syn := universes[1]
	if len(proofOps) > 0 {
		x.begin("sweep/syn")
		x.runSweep(syn, proofOps)
	}
	for _, u := range universes {
		x.begin("bytes/" + u.name)
		if thorough {
			x.runBytes(u, slFnCore(u), 1, []byte{0x01, 0x02, 0x04, 0x08, 0x10, 0x20, 0x40, 0x80, 0xff})
		} else {
			x.runBytes(u, slFnCore(u), 41, []byte{0x01})
		}
	}
	coreStats := map[string]any{"enabled": false}
	if *coreMode {
		st, err := slRunCore(x, universes, behaviours)
		if err != nil {
			fmt.Fprintln(os.Stderr, "core mode failed:", err)
			return 2
		}
		coreStats = st
		lst, err := slRunLatest(x, universes)
		if err != nil {
			fmt.Fprintln(os.Stderr, "latest-height leg failed:", err)
			return 2
		}
		coreStats["latest_pairs"] = lst
		wst, err := slRunWatch(x, universes)
		if err != nil {
			fmt.Fprintln(os.Stderr, "watch leg failed:", err)
			return 2
		}
		coreStats["watched_blocks"] = wst
	}
	x.flushAggs()
	if err := x.w.Flush(); err != nil {
		fmt.Fprintln(os.Stderr, err)
		return 2
	}
	tw.Close()

	fs2 := map[string]any{}
	for c, n := range x.findings {
		fs2[c] = map[string]any{"count": n, "sample": x.findingSample[c]}
	}
	summ := map[string]any{
		"behaviours": len(behaviours), "abstract_cases": len(distinct), "concrete_cases": x.cases, "trace_events": x.events,
		"skipped": x.skipped, "skip_reasons": x.skipWhy, "by_request": x.byReq, "by_alteration": x.byAlt, "by_mode": x.byMode,
		"by_outcome": x.byOutcome, "harmless_mutants": x.harmless, "accepted_differing_only_in_excluded_fields": x.excludedOnly,
		"drift": x.drift, "drift_samples": x.driftSamples, "panics": x.panics, "findings": fs2, "honest_rejected": x.honestRejected,
		"undecodable_wire_mutants": x.undecodable, "proof_checks": x.proofChecks, "samples": x.samples,
		"harmless_samples": x.harmlessSamples, "core": coreStats,
	}
	if *outPath != "" {
		if err := writeJSONFile(*outPath, summ); err != nil {
			fmt.Fprintln(os.Stderr, err)
			return 2
		}
	} else {
		os.Stdout.Write(mustJSON(summ))
	}
	return 0
}
