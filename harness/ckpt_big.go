package main

// C12: seeded driver for trees up to a few thousand keys (shapes: random, prefix chains, bit combs, dense counters, mixed),
// chunker threads {0,1,2,3,4,8,16,32}, chunk sizes from 1 byte to larger than the tree, and restore schedules with
// permutations, duplicates, concurrent callers, aborts/restarts and corruptions.  Everything is a function of (seed, idx).

import (
	"fmt"
	"math/rand"
)

type ckBigSpec struct {
	Seed  int64  `json:"seed"`
	Idx   int    `json:"idx"`
	Shape string `json:"shape"`
	NKeys int    `json:"nkeys"`
	Sched string `json:"sched"`
	Point string `json:"point,omitempty"` // crash schedules: the hook point at which the process dies
}

// every multipart hook point of both backends, with the operation it interrupts (restore part of C07)
var ckCrashPoints = map[string][][2]string{
	"badger": {{"chunk", "badger.commit.mplog_flushed"}, {"chunk", "badger.commit.nodes_flushed"}, {"abort", "badger.cleanmp.batch_flushed"},
		{"finalize", "badger.finalize.batch_flushed"}, {"finalize", "badger.finalize.meta_committed"}, {"finalize", "badger.cleanmp.batch_flushed"}},
	"pathbadger": {{"start", "path.startmp.meta_committed"}, {"chunk", "path.commit.seqno_committed"}, {"chunk", "path.commit.meta_flushed"},
		{"abort", "path.cleanmp.batch_flushed"}, {"finalize", "path.finalize.copy_flushed"}, {"finalize", "path.finalize.copymeta_flushed"},
		{"finalize", "path.finalize.delete_flushed"}, {"finalize", "path.finalize.deletemeta_flushed"}, {"finalize", "path.finalize.meta_committed"},
		{"finalize", "path.cleanmp.batch_flushed"}},
}

var ckBigShapes = []string{"random", "chain", "comb", "dense", "mixed", "random", "mixed", "tiny"}
var ckBigScheds = []string{"inorder", "reverse", "perm-dups", "concurrent", "abort-same", "abort-other", "corrupt", "forged-other", "concurrent-dups", "abort-done-same", "stale-commit"}
var ckBigThreads = []int{0, 1, 2, 3, 4, 8, 16, 32}
var ckBigSizes = []uint64{1, 7, 33, 100, 333, 1000, 5000, 20000, 1 << 20, 1 << 40}

func ckBigRand(b *ckBigSpec, salt int64) *rand.Rand {
	return rand.New(rand.NewSource(b.Seed*1000003 + int64(b.Idx)*7919 + salt))
}

func ckBigScenarios(seed int64, n, maxKeys int) []*ckScenario {
	var out []*ckScenario
	for i := 0; i < n; i++ {
		b := &ckBigSpec{Seed: seed, Idx: i}
		r := ckBigRand(b, 1)
		b.Shape = ckBigShapes[i%len(ckBigShapes)]
		b.Sched = ckBigScheds[(i/len(ckBigShapes)+i)%len(ckBigScheds)]
		switch c := r.Intn(10); {
		case b.Shape == "tiny":
			b.NKeys = r.Intn(4)
		case c < 3:
			b.NKeys = 1 + r.Intn(20)
		case c < 7:
			b.NKeys = 20 + r.Intn(300)
		default:
			b.NKeys = 300 + r.Intn(max(1, maxKeys-300))
		}
		if (b.Shape == "chain" || b.Shape == "comb") && b.NKeys > 120 {
			b.NKeys = 2 + r.Intn(119)
		}
		if i%25 == 7 { // dedicated depth scenarios around the proof verifier's depth limit: 129 levels verify, 130 and more do not
			b.Shape, b.Sched = []string{"chain", "comb"}[(i/25)%2], []string{"inorder", "reverse", "concurrent"}[(i/50)%3]
			b.NKeys = []int{129, 130, 131 + r.Intn(60), 128}[(i/25)%4]
		}
		sc := &ckScenario{Kind: "big-" + b.Sched, Backend: []string{"pathbadger", "badger"}[(i/3)%2], Big: b,
			Threads: ckBigThreads[(i+i/len(ckBigThreads))%len(ckBigThreads)]}
		sc.Size = ckBigSizes[r.Intn(len(ckBigSizes))]
		if b.NKeys > 400 && sc.Size < 33 && r.Intn(3) > 0 {
			sc.Size = 100 + uint64(r.Intn(3000)) // thousands of one-key chunks only now and then
		}
		out = append(out, sc)
	}
	// crash at every multipart hook point, then restore again at another version to completion
	rounds := max(1, n/300)
	if n == 0 {
		rounds = 0
	}
	for rd := 0; rd < rounds; rd++ {
		for _, be := range []string{"badger", "pathbadger"} {
			for pi, op := range ckCrashPoints[be] {
				i := n + rd*100 + pi
				b := &ckBigSpec{Seed: seed, Idx: i, Shape: ckBigShapes[(rd+pi)%len(ckBigShapes)], Sched: "crash-" + op[0], Point: op[1]}
				r := ckBigRand(b, 1)
				b.NKeys = 1 + r.Intn(150)
				if rd == 0 {
					b.NKeys = 2 + r.Intn(30)
				}
				out = append(out, &ckScenario{Kind: "big-" + b.Sched, Backend: be, Big: b, Threads: ckBigThreads[(rd+pi)%len(ckBigThreads)],
					Size: []uint64{40, 100, 333, 1 << 20}[(rd+pi)%4]})
			}
		}
	}
	return out
}

func ckBigContents(b *ckBigSpec) [][2]bstr {
	r := ckBigRand(b, 2)
	m := map[string][]byte{}
	val := func() []byte {
		v := make([]byte, r.Intn(40))
		r.Read(v)
		return v
	}
	add := func(shape string, n int) {
		switch shape {
		case "chain":
			base := make([]byte, n)
			r.Read(base)
			for l := 1; l <= n; l++ {
				m[string(base[:l])] = val()
			}
		case "comb":
			for i := 0; i < n; i++ {
				k := make([]byte, (n+7)/8)
				k[i/8] = 0x80 >> (i % 8)
				m[string(k)] = val()
			}
		case "dense":
			for i := 0; i < n; i++ {
				m[fmt.Sprint(i)] = []byte(fmt.Sprint(i))
			}
		default:
			var keys []string // insertion order (map iteration order would make the tree differ between processes)
			for len(m) < n {
				k := make([]byte, 1+r.Intn(12))
				r.Read(k)
				if r.Intn(4) == 0 && len(keys) > 0 { // extend an existing key: prefix pairs
					k = append([]byte(keys[r.Intn(len(keys))]), k[:min(len(k), 1+r.Intn(2))]...)
				}
				if _, ok := m[string(k)]; !ok {
					keys = append(keys, string(k))
				}
				m[string(k)] = val()
			}
		}
	}
	switch b.Shape {
	case "mixed":
		add("random", b.NKeys/2)
		add("chain", min(40, b.NKeys/4+1))
		add("dense", b.NKeys/4)
		m[""] = val()
	case "tiny":
		add("random", b.NKeys)
	default:
		add(b.Shape, b.NKeys)
	}
	var out [][2]bstr
	for k, v := range m {
		out = append(out, [2]bstr{bstr(k), bstr(v)})
	}
	return sortedContents(out)
}

// ckBigSteps builds the restore schedule once the number of chunks is known.
func ckBigSteps(b *ckBigSpec, n int) []ckStep {
	if n == 0 {
		// a checkpoint without chunks: nothing can be restored; the begin event (nchunks = 0, union incomplete) is the observation
		return nil
	}
	r := ckBigRand(b, 3)
	perm := func() []int {
		p := r.Perm(n)
		for i := range p {
			p[i]++
		}
		return p
	}
	var st []ckStep
	all := func(order []int) {
		for _, i := range order {
			st = append(st, ckStep{A: "chunk", I: i})
		}
	}
	inorder := make([]int, n)
	for i := range inorder {
		inorder[i] = i + 1
	}
	some := func() []int { return perm()[:r.Intn(n)+0] }
	switch b.Sched {
	case "inorder":
		st = append(st, ckStep{A: "start", V: 1})
		all(inorder)
		st = append(st, ckStep{A: "finalize", V: 1})
	case "reverse":
		st = append(st, ckStep{A: "start", V: 2})
		for i := n; i >= 1; i-- {
			st = append(st, ckStep{A: "chunk", I: i})
		}
		st = append(st, ckStep{A: "finalize", V: 2})
	case "perm-dups":
		st = append(st, ckStep{A: "start", V: 1})
		p := perm()
		for k, i := range p {
			st = append(st, ckStep{A: "chunk", I: i})
			if k < len(p)-1 && r.Intn(3) == 0 {
				st = append(st, ckStep{A: "chunk", I: p[r.Intn(k+1)]}) // already restored
			}
		}
		st = append(st, ckStep{A: "finalize", V: 1})
	case "concurrent", "concurrent-dups":
		st = append(st, ckStep{A: "start", V: 1})
		p := perm()
		for len(p) > 0 {
			g := min(len(p), 1+r.Intn(8))
			grp := append([]int{}, p[:g]...)
			p = p[g:]
			if b.Sched == "concurrent-dups" && len(p) > 0 { // duplicates inside a group (never in the last group: completion must be unambiguous)
				grp = append(grp, grp[r.Intn(len(grp))])
			}
			st = append(st, ckStep{A: "par", Is: grp})
		}
		st = append(st, ckStep{A: "finalize", V: 1})
	case "abort-same", "abort-other", "abort-done-same":
		v2 := 1
		if b.Sched == "abort-other" {
			v2 = 2
		}
		st = append(st, ckStep{A: "start", V: 1})
		if b.Sched == "abort-done-same" {
			all(perm()) // completely restored, then aborted instead of finalized
		} else {
			all(some())
		}
		st = append(st, ckStep{A: "abort"}, ckStep{A: "start", V: v2})
		all(perm())
		st = append(st, ckStep{A: "finalize", V: v2})
	case "stale-commit":
		// a caller has made its chunk durable and has not yet returned to the restorer when the restore is aborted and started
		// again - for the same checkpoint (the restarted restore must not count the old caller's chunk) or for the other one
		v2 := 1 + r.Intn(2)
		p := perm()
		k := r.Intn(n)
		st = append(st, ckStep{A: "start", V: 1})
		all(p[:k])
		st = append(st, ckStep{A: "gate", I: p[k], Kind: "post"}, ckStep{A: "abort"}, ckStep{A: "start", V: v2}, ckStep{A: "release"})
		all(perm())
		st = append(st, ckStep{A: "finalize", V: v2})
	case "corrupt":
		st = append(st, ckStep{A: "start", V: 2})
		for _, i := range perm() {
			for k := r.Intn(3); k > 0; k-- {
				st = append(st, ckStep{A: "bad", I: i, Kind: "digest"})
			}
			st = append(st, ckStep{A: "chunk", I: i})
		}
		st = append(st, ckStep{A: "finalize", V: 2})
	case "crash-start", "crash-chunk", "crash-abort", "crash-finalize":
		p := perm()
		switch b.Sched {
		case "crash-start":
			st = append(st, ckStep{A: "crash", At: b.Point, Op: &ckStep{A: "start", V: 1}})
		case "crash-chunk":
			k := r.Intn(n)
			st = append(st, ckStep{A: "start", V: 1})
			all(p[:k])
			st = append(st, ckStep{A: "crash", At: b.Point, Op: &ckStep{A: "chunk", I: p[k]}})
		case "crash-abort":
			st = append(st, ckStep{A: "start", V: 1})
			all(p[:r.Intn(n)+1])
			st = append(st, ckStep{A: "crash", At: b.Point, Op: &ckStep{A: "abort"}})
		case "crash-finalize":
			st = append(st, ckStep{A: "start", V: 1})
			all(p)
			st = append(st, ckStep{A: "crash", At: b.Point, Op: &ckStep{A: "finalize", V: 1}})
		}
		// the interrupted restore is given up; the root is restored at another version to completion
		st = append(st, ckStep{A: "start", V: 2})
		all(perm())
		st = append(st, ckStep{A: "finalize", V: 2})
	case "forged-other":
		f := 1 + r.Intn(n)
		st = append(st, ckStep{A: "start", V: 1, Forged: f})
		for _, i := range some() {
			st = append(st, ckStep{A: "chunk", I: i}) // the genuine chunk f is rejected as corrupted under the forged manifest
		}
		st = append(st, ckStep{A: "bad", I: f, Kind: "proof"}, ckStep{A: "chunk", I: f}, ckStep{A: "abort"}, ckStep{A: "start", V: 2})
		all(perm())
		st = append(st, ckStep{A: "finalize", V: 2})
	}
	return st
}
