package main

// C19 core mode: the TLC-emitted request sequences replayed on a real stateless.Core whose light client is
// the real light.Client over a pre-populated trusted store, with an altering provider.

import (
	"bytes"
	"context"
	"fmt"
	"os"
	"path/filepath"
	"strconv"
	"time"

	cmtdb "github.com/cometbft/cometbft-db"
	cmtlight "github.com/cometbft/cometbft/light"
	cmtlightdb "github.com/cometbft/cometbft/light/store/db"
	cmttypes "github.com/cometbft/cometbft/types"
	"github.com/libp2p/go-libp2p/core"

	consensusAPI "github.com/oasisprotocol/oasis-core/go/consensus/api"
	"github.com/oasisprotocol/oasis-core/go/consensus/api/transaction"
	cmtconsensus "github.com/oasisprotocol/oasis-core/go/consensus/cometbft/consensus"
	cdb "github.com/oasisprotocol/oasis-core/go/consensus/cometbft/db"
	"github.com/oasisprotocol/oasis-core/go/consensus/cometbft/light"
	"github.com/oasisprotocol/oasis-core/go/consensus/cometbft/stateless"

	"github.com/oasisprotocol/oasis-core/go/common"
	"github.com/oasisprotocol/oasis-core/go/common/cbor"
	"github.com/oasisprotocol/oasis-core/go/common/crypto/hash"
	genesis "github.com/oasisprotocol/oasis-core/go/consensus/genesis"
	"github.com/oasisprotocol/oasis-core/go/storage/mkvs"
	mkvsNode "github.com/oasisprotocol/oasis-core/go/storage/mkvs/node"
	"github.com/oasisprotocol/oasis-core/go/storage/mkvs/syncer"
)

// slState is the consensus state of the synthetic chain: one committed in-memory MKVS tree per height,
// holding the consensus parameters under the consensus application's key.  It is the (untrusted) read
// syncer handed to the real light query factory; reads are verified against Core.StateRoot.
type slState struct {
	trees map[hash.Hash]mkvs.Tree
}

func slNewState() *slState { return &slState{trees: map[hash.Hash]mkvs.Tree{}} }

func (s *slState) commit(height int64, p *genesis.Parameters, mh int) hash.Hash {
	ctx := context.Background()
	t := mkvs.New(nil, nil, mkvsNode.RootTypeState)
	slMust(t.Insert(ctx, []byte{0xF1}, cbor.Marshal(p)))
	slMust(t.Insert(ctx, []byte("verif-c19-height"), []byte(strconv.Itoa(mh))))
	_, root, err := t.Commit(ctx, common.Namespace{}, uint64(height))
	slMust(err)
	s.trees[root] = t
	return root
}

func (s *slState) tree(h hash.Hash) (mkvs.Tree, error) {
	t, ok := s.trees[h]
	if !ok {
		return nil, fmt.Errorf("verif: no state with root %s", h)
	}
	return t, nil
}

func (s *slState) SyncGet(ctx context.Context, r *syncer.GetRequest) (*syncer.ProofResponse, error) {
	t, err := s.tree(r.Tree.Root.Hash)
	if err != nil {
		return nil, err
	}
	return t.SyncGet(ctx, r)
}

func (s *slState) SyncGetPrefixes(ctx context.Context, r *syncer.GetPrefixesRequest) (*syncer.ProofResponse, error) {
	t, err := s.tree(r.Tree.Root.Hash)
	if err != nil {
		return nil, err
	}
	return t.SyncGetPrefixes(ctx, r)
}

func (s *slState) SyncIterate(ctx context.Context, r *syncer.IterateRequest) (*syncer.ProofResponse, error) {
	t, err := s.tree(r.Tree.Root.Hash)
	if err != nil {
		return nil, err
	}
	return t.SyncIterate(ctx, r)
}

// slNoP2P is a P2P service without a host: the light client's providers have no peers, so the client can
// serve exactly the light blocks of its trusted store.
type slNoP2P struct{}

func (slNoP2P) BlockPeer(core.PeerID)                      {}
func (slNoP2P) RegisterProtocol(core.ProtocolID, int, int) {}
func (slNoP2P) Host() core.Host                            { return nil }

// slLightClient creates the real light client over a trusted store pre-populated with the given light blocks.
func slLightClient(ctx context.Context, dir, chainID string, lbs []*cmttypes.LightBlock) (*light.Client, error) {
	fn := filepath.Join(dir, "consensus/light")
	if err := os.MkdirAll(filepath.Dir(fn), 0o700); err != nil {
		return nil, err
	}
	db, err := cdb.New(fn, false)
	if err != nil {
		return nil, err
	}
	store := cmtlightdb.New(cmtdb.NewPrefixDB(db, []byte{}), "")
	for _, lb := range lbs {
		if err := store.SaveLightBlock(lb); err != nil {
			return nil, err
		}
	}
	if err := db.Close(); err != nil {
		return nil, err
	}
	last := lbs[len(lbs)-1]
	return light.NewClient(ctx, chainID, slNoP2P{}, light.Config{
		GenesisDocument: &cmttypes.GenesisDoc{ChainID: chainID},
		TrustOptions:    cmtlight.TrustOptions{Period: 100 * 365 * 24 * time.Hour, Height: last.Height, Hash: last.Hash()},
		DataDir:         dir,
	})
}

// slProvider is the untrusted provider: it answers the request under test with the prepared (possibly
// altered) response and everything else honestly from the universe.
type slProvider struct {
	consensusAPI.Backend // nil: any other method is a harness bug and panics
	u                    *slUniverse
	byHeight             map[int64]*slData
	cur                  *slResp // response for the request under test
	curReq               string
	proof                *transaction.Proof
	calls                int
}

func (p *slProvider) data(h int64) (*slData, error) {
	d, ok := p.byHeight[h]
	if !ok {
		return nil, consensusAPI.ErrVersionNotFound
	}
	return d, nil
}

func (p *slProvider) GetBlock(_ context.Context, h int64) (*consensusAPI.Block, error) {
	p.calls++
	if p.cur != nil && p.cur.kind == "block" {
		return p.cur.block, nil
	}
	d, err := p.data(h)
	if err != nil || d.block == nil {
		return nil, consensusAPI.ErrVersionNotFound
	}
	return slHonest(d, "block").block, nil
}

func (p *slProvider) GetTransactions(_ context.Context, h int64) ([][]byte, error) {
	p.calls++
	if p.cur != nil && (p.cur.kind == "txs" || p.cur.kind == "params") {
		return p.cur.txs, nil
	}
	d, err := p.data(h)
	if err != nil || d.txs == nil {
		return nil, consensusAPI.ErrVersionNotFound
	}
	return slCloneTxs(d.txs), nil
}

func (p *slProvider) GetBlockResults(_ context.Context, h int64) (*consensusAPI.BlockResults, error) {
	p.calls++
	if p.cur != nil && p.cur.kind == "results" {
		return p.cur.results, nil
	}
	return nil, consensusAPI.ErrVersionNotFound
}

func (p *slProvider) GetValidators(_ context.Context, h int64) (*consensusAPI.Validators, error) {
	p.calls++
	if p.cur != nil && p.cur.kind == "vals" {
		return p.cur.vals, nil
	}
	return nil, consensusAPI.ErrVersionNotFound
}

func (p *slProvider) GetParameters(_ context.Context, h int64) (*consensusAPI.Parameters, error) {
	p.calls++
	if p.cur != nil && p.cur.kind == "params" {
		return p.cur.params, nil
	}
	return nil, consensusAPI.ErrVersionNotFound
}

func (p *slProvider) SubmitTxWithProof(context.Context, *transaction.SignedTransaction) (*transaction.Proof, error) {
	p.calls++
	if p.proof == nil {
		return nil, fmt.Errorf("verif: no proof prepared")
	}
	return p.proof, nil
}

func (p *slProvider) GetLatestHeight(context.Context) (int64, error) {
	return 0, fmt.Errorf("verif: latest height is not served")
}

func (p *slProvider) State() syncer.ReadSyncer {
	if p.u.state != nil {
		return p.u.state
	}
	return syncer.NopReadSyncer
}

type slCoreEnv struct {
	u      *slUniverse
	latest int
	lc     *light.Client
	prov   *slProvider
}

func slModelHeights(u *slUniverse) []int {
	if u.syn != nil {
		return []int{0, 1, 2, 3, 4, 5}
	}
	return []int{2, 3}
}

func slNewCoreEnv(ctx context.Context, u *slUniverse, latest int, tmp string) (*slCoreEnv, error) {
	var lbs []*cmttypes.LightBlock
	prov := &slProvider{u: u, byHeight: map[int64]*slData{}}
	for _, mh := range slModelHeights(u) {
		d := u.at(0, mh)
		if d == nil {
			continue
		}
		prov.byHeight[d.height] = d
		if mh <= latest {
			lbs = append(lbs, d.lb)
		}
	}
	lc, err := slLightClient(ctx, filepath.Join(tmp, fmt.Sprintf("%s-%d", u.name, latest)), u.chainID, lbs)
	if err != nil {
		return nil, err
	}
	return &slCoreEnv{u: u, latest: latest, lc: lc, prov: prov}, nil
}

// slNewCoreWith builds a Core over the environment's light client and the given provider.
func slNewCoreWith(env *slCoreEnv, prov consensusAPI.Backend) *stateless.Core {
	c := stateless.NewCore(prov, env.lc, stateless.Config{ChainID: env.u.chainID, ChainContext: env.u.chainID})
	var q cmtconsensus.QueryFactory
	if env.u.state != nil {
		q = cmtconsensus.NewLightQueryFactory(c, env.u.state)
	}
	c.SetQueriers(nil, q, nil)
	return c
}

func (env *slCoreEnv) newCore() *stateless.Core {
	c := stateless.NewCore(env.prov, env.lc, stateless.Config{ChainID: env.u.chainID, ChainContext: env.u.chainID})
	var q cmtconsensus.QueryFactory
	if env.u.state != nil {
		q = cmtconsensus.NewLightQueryFactory(c, env.u.state)
	}
	c.SetQueriers(nil, q, nil)
	return c
}

// cachesCanonical: every cached state root / results hash equals the canonical chain's value.
func (env *slCoreEnv) cachesCanonical(c *stateless.Core) bool {
	ok := true
	for _, mh := range slModelHeights(env.u) {
		d := env.u.at(0, mh)
		if d == nil {
			continue
		}
		if sr, hit := c.VerifCachedStateRoot(d.height); hit {
			if d.sr == nil || !sr.Equal(d.sr) {
				ok = false
			}
		}
		if rh, hit := c.VerifCachedResultsHash(d.height); hit {
			next := env.u.at(0, mh+1)
			if next == nil || !bytes.Equal(rh, next.lb.LastResultsHash) {
				ok = false
			}
		}
	}
	return ok
}

// exec performs one request on the Core and returns the outcome and the projection of what was returned.
func (env *slCoreEnv) exec(ctx context.Context, c *stateless.Core, o *slOp, r *slResp, txb []byte) (out slOutcome) {
	d := env.u.at(0, o.H)
	height := slSynBase + int64(o.H)
	if env.u.syn == nil {
		height = env.u.h0.height + int64(o.H-env.u.fixed)
	} else if d != nil {
		height = d.height
	}
	out.proofsOk = true
	env.prov.cur, env.prov.curReq = r, o.Req
	perr := guard(func() {
		switch o.Req {
		case "GetBlock":
			var v *consensusAPI.Block
			if v, out.err = c.GetBlock(ctx, height); out.err == nil {
				out.proj = slProjBlock(v)
			}
		case "GetTransactions":
			var v [][]byte
			if v, out.err = c.GetTransactions(ctx, height); out.err == nil {
				out.proj = slProjTxs(v)
			}
		case "GetTransactionsWithProofs":
			var v *consensusAPI.TransactionsWithProofs
			if v, out.err = c.GetTransactionsWithProofs(ctx, height); out.err == nil {
				out.proj = slProjTxs(v.Transactions)
				out.proofsOk = len(v.Proofs) == len(v.Transactions) && d != nil && slCheckReturnedProofs(v, d.lb)
			}
		case "StateRoot":
			root, err := c.StateRoot(ctx, height)
			if out.err = err; err == nil {
				out.proj = map[string]string{"state_root": slHex(root.Hash[:])}
				if root.Version != uint64(height) || root.Type != mkvsNode.RootTypeState {
					out.proj["root_header"] = fmt.Sprintf("%d/%d", root.Version, root.Type)
				}
			}
		case "GetBlockResults":
			var v *consensusAPI.BlockResults
			if v, out.err = c.GetBlockResults(ctx, height); out.err == nil {
				out.proj = slProjResults(v)
			}
		case "GetValidators":
			var v *consensusAPI.Validators
			if v, out.err = c.GetValidators(ctx, height); out.err == nil {
				out.proj = slProjVals(v)
			}
		case "GetParameters":
			var v *consensusAPI.Parameters
			if v, out.err = c.GetParameters(ctx, height); out.err == nil {
				out.proj = slProjParams(v)
			}
		case "SubmitTxWithProof":
			var tx transaction.SignedTransaction
			slMust(cbor.Unmarshal(txb, &tx))
			_, out.err = c.SubmitTxWithProof(ctx, &tx)
		}
	})
	if perr != nil {
		out.panicked = slShort(perr.Error(), 200)
	}
	env.prov.cur, env.prov.proof = nil, nil
	return
}

func slCheckReturnedProofs(v *consensusAPI.TransactionsWithProofs, lb *cmttypes.LightBlock) bool {
	for i, txb := range v.Transactions {
		var tx transaction.SignedTransaction
		if cbor.Unmarshal(txb, &tx) != nil || !bytes.Equal(cbor.Marshal(&tx), txb) {
			continue
		}
		if stateless.VerifVerifyTransactionProof(&transaction.Proof{Height: lb.Height, RawProof: v.Proofs[i]}, &tx, lb) != nil {
			return false
		}
	}
	return true
}

// slCoreRelevant: in the recorded universe only heights 2 and 3 exist (25300000, 25300001).
func slCoreRelevant(u *slUniverse, o *slOp) bool {
	if u.syn != nil {
		return true
	}
	if o.Req == "SubmitTxWithProof" || o.Req == "GetParameters" {
		return false
	}
	return o.H == 2 || o.H == 3
}

func slRunCore(x *slRunner, universes []*slUniverse, behaviours []*slBehaviour) (map[string]any, error) {
	ctx, cancel := context.WithCancel(context.Background())
	defer cancel()
	tmp, err := os.MkdirTemp("", "verif-c19-light-")
	if err != nil {
		return nil, err
	}
	defer os.RemoveAll(tmp)
	t0 := time.Now()
	requests, seqs, provCalls := 0, 0, 0
	for _, u0 := range universes {
		u := *u0
		if u.syn == nil {
			u.fixed = 2
		}
		envs := map[int]*slCoreEnv{}
		x.begin("core/" + u.name)
		for _, b := range behaviours {
			env := envs[b.Latest0]
			if env == nil {
				if env, err = slNewCoreEnv(ctx, &u, b.Latest0, tmp); err != nil {
					return nil, fmt.Errorf("light client for %s/latest=%d: %w", u.name, b.Latest0, err)
				}
				envs[b.Latest0] = env
			}
			relevant := true
			for i := range b.Ops {
				if b.Ops[i].Req == "Advance" || !slCoreRelevant(&u, &b.Ops[i]) {
					relevant = false
				}
			}
			if !relevant {
				continue
			}
			c := env.newCore()
			seqs++
			for i := range b.Ops {
				o := &b.Ops[i]
				abs := string(mustJSON(o))
				e := x.baseEvent("core", &u, o, abs)
				e.Seq = i
				var r *slResp
				var txb []byte
				var exp map[string]string
				var blockList [][]byte
				if o.Req == "SubmitTxWithProof" {
					raw, t, ok := slProofCaseData(&u, o)
					if !ok {
						x.skip("proof index outside the synthetic list")
						break
					}
					if o.P.Bytes != 0 {
						raw = slProofMuts[0].fn(append([]byte{}, raw...))
						e.Conc = "proof:" + slProofMuts[0].name
					}
					txb = t
					env.prov.proof = &transaction.Proof{Height: u.syn[o.H].height, RawProof: raw}
					blockList = u.syn[o.H].txs
				} else {
					variant := make([]int, len(o.Alts))
					var ok bool
					if r, e.Conc, ok = slBuild(&u, o, variant); !ok {
						if u.at(0, o.H) != nil || o.Whole != 0 || len(o.Alts) > 0 {
							x.skip("universe " + u.name + " lacks the data to build the response")
							break
						}
						r = nil // honest request for a height the provider has no data for
					}
					exp = slExpected(&u, o)
				}
				out := env.exec(ctx, c, o, r, txb)
				requests++
				e.Panic = out.panicked
				e.Accepted = out.err == nil && out.panicked == ""
				e.ErrClass = slErrClass(out.err)
				if out.err != nil {
					e.Err = slShort(out.err.Error(), 160)
				}
				e.ProofsOk = out.proofsOk
				switch {
				case o.Req == "SubmitTxWithProof":
					e.ProjEq = slContains(blockList, txb)
					if e.Accepted && !e.ProjEq {
						e.Diff, e.Class = []string{"proof.transaction-not-in-block"}, "bound:proof:transaction-not-in-block"
					}
				case e.Accepted && exp != nil:
					e.Diff, e.XDiff = slDiff(out.proj, exp)
					e.ProjEq = len(e.Diff) == 0
					e.Class = slClass(slKindOf(o.Req), e.Diff)
				case e.Accepted:
					e.Diff, e.Class = []string{"undetermined"}, "bound:accepted-without-canonical-datum"
				default:
					e.ProjEq = !o.altered()
				}
				e.CachesOk = env.cachesCanonical(c)
				if !e.CachesOk {
					e.Class = "cache-holds-non-canonical-value"
				}
				if e.Accepted && !e.ProofsOk {
					e.Class = "returned-proofs-do-not-verify"
				}
				x.emit(e, o, "")
			}
		}
		for _, env := range envs {
			provCalls += env.prov.calls
		}
	}
	return map[string]any{"enabled": true, "sequences": seqs, "requests": requests, "provider_calls": provCalls,
		"wall_s": time.Since(t0).Seconds()}, nil
}
