package main

// C16, second family of inputs: structural sweeps of VALID encodings for the hand-written and CBOR/JSON decoders that
// MkvsWire.tla does not describe - attestation quotes and collateral, IAS reports, node / entity / runtime descriptors,
// executor commitments, runtime host protocol frames.  Every seed encoding is truncated at every length and has every
// position overwritten with the boundary patterns of a length field (1, 2, 4 and 8 bytes wide: zero, all ones, sign bit,
// little- and big-endian "a bit more than what is left"); each input goes to the entry point under the panic / deadline /
// allocation guards of wire.go.

import (
	"bytes"
	"encoding/binary"
	"encoding/json"
	"flag"
	"fmt"
	"os"
	"path/filepath"
	"sort"
	"time"

	"github.com/oasisprotocol/oasis-core/go/common/cbor"
	"github.com/oasisprotocol/oasis-core/go/common/crypto/hash"
	"github.com/oasisprotocol/oasis-core/go/common/entity"
	"github.com/oasisprotocol/oasis-core/go/common/node"
	"github.com/oasisprotocol/oasis-core/go/common/sgx/ias"
	"github.com/oasisprotocol/oasis-core/go/common/sgx/pcs"
	registry "github.com/oasisprotocol/oasis-core/go/registry/api"
	"github.com/oasisprotocol/oasis-core/go/roothash/api/commitment"
	"github.com/oasisprotocol/oasis-core/go/runtime/host/protocol"
)

func init() {
	register("wire-sweep", "truncation and length-field sweeps of valid quotes, collateral, reports, descriptors, commitments and protocol frames", wireSweep)
}

type sweepTarget struct {
	name  string
	seeds map[string][]byte
	f     func([]byte) bool
}

// sweepRW is a read-only stream dressed as io.ReadWriter (the codec constructor wants both directions).
type sweepRW struct{ *bytes.Reader }

func (sweepRW) Write(p []byte) (int, error) { return len(p), nil }

func jsonUnmarshalStrict(b []byte, v any) error { return json.Unmarshal(b, v) }

func readSeeds(dir string, pats ...string) map[string][]byte {
	out := map[string][]byte{}
	for _, p := range pats {
		ms, _ := filepath.Glob(filepath.Join(dir, p))
		for _, m := range ms {
			if b, err := os.ReadFile(m); err == nil {
				out[filepath.Base(m)] = b
			}
		}
	}
	return out
}

func sweepTargets(repo string) ([]sweepTarget, error) {
	pcsDir := filepath.Join(repo, "go/common/sgx/pcs/testdata")
	iasDir := filepath.Join(repo, "go/common/sgx/ias/testdata")
	var ts []sweepTarget
	ts = append(ts, sweepTarget{"pcs.Quote.UnmarshalBinary", readSeeds(pcsDir, "quote_v3_*.bin", "quote_v4_tdx_ecdsa_p256.bin", "quote_v4_tdx_ecdsa_p256_out_of_date.bin"), func(b []byte) bool {
		var q pcs.Quote
		return q.UnmarshalBinary(b) == nil
	}})
	ts = append(ts, sweepTarget{"pcs.Quote.UnmarshalBinaryWithTrailing", readSeeds(pcsDir, "quote_v4_tdx_ecdsa_p256_trailing.bin", "quote_v4_tdx_ecdsa_p256.bin"), func(b []byte) bool {
		var q pcs.Quote
		_, err := q.UnmarshalBinaryWithTrailing(b, true)
		return err == nil
	}})
	ts = append(ts, sweepTarget{"json->pcs.SignedTCBInfo", readSeeds(pcsDir, "tcb_info_*.json"), func(b []byte) bool {
		var x pcs.SignedTCBInfo
		return jsonUnmarshalStrict(b, &x) == nil
	}})
	ts = append(ts, sweepTarget{"json->pcs.SignedQEIdentity", readSeeds(pcsDir, "qe_identity_*.json"), func(b []byte) bool {
		var x pcs.SignedQEIdentity
		return jsonUnmarshalStrict(b, &x) == nil
	}})
	ias.SetAllowDebugEnclaves() // the repository's report vectors come from debug enclaves
	ts = append(ts, sweepTarget{"ias.UnsafeDecodeAVR", readSeeds(iasDir, "avr_*.json"), func(b []byte) bool {
		_, err := ias.UnsafeDecodeAVR(b)
		return err == nil
	}})
	// the certificate chain that comes with a report (URL-encoded PEM, untrusted: parsed before any signature is checked)
	if body, berr := os.ReadFile(filepath.Join(iasDir, "avr_v4_body_sw_hardening_needed.json")); berr == nil {
		if sig, serr := os.ReadFile(filepath.Join(iasDir, "avr_v4_body_sw_hardening_needed.sig")); serr == nil {
			ts = append(ts, sweepTarget{"ias.DecodeAVR(certificate chain)", readSeeds(iasDir, "avr_certificates_urlencoded.pem"), func(b []byte) bool {
				_, err := ias.DecodeAVR(body, sig, b, ias.IntelTrustRoots, time.Now())
				return err == nil
			}})
		}
	}
	// descriptors and commitments: valid encodings produced by a scenario network
	dir, err := os.MkdirTemp("", "sweep-")
	if err != nil {
		return nil, err
	}
	defer os.RemoveAll(dir)
	net, err := newNet(cnCfg{Validators: 2, Users: 1, EpochInterval: 4, Seed: 3, ChainID: "verif-sweep", MaxValidators: 2, MaxPerEntity: 1}, dir)
	if err != nil {
		return nil, err
	}
	nd, err := net.nodeDescriptor(0, 10, func(n *node.Node) {
		n.Roles |= node.RoleComputeWorker
		n.Runtimes = append(n.Runtimes, &node.Runtime{ID: runtimeID("R0")})
	})
	if err != nil {
		return nil, err
	}
	sn, err := net.signNode(net.vals[0], nd, registry.RegisterNodeSignatureContext)
	if err != nil {
		return nil, err
	}
	ts = append(ts, sweepTarget{"cbor->node.MultiSignedNode.Open", map[string][]byte{"signed-node": cbor.Marshal(sn)}, func(b []byte) bool {
		var x node.MultiSignedNode
		if cbor.Unmarshal(b, &x) != nil {
			return false
		}
		var n node.Node
		if x.Open(registry.RegisterNodeSignatureContext, &n) != nil {
			return false
		}
		return n.ValidateBasic(false) == nil
	}})
	ts = append(ts, sweepTarget{"cbor->node.Node", map[string][]byte{"node": cbor.Marshal(nd)}, func(b []byte) bool {
		var n node.Node
		return cbor.Unmarshal(b, &n) == nil && n.ValidateBasic(false) == nil
	}})
	se, err := entity.SignEntity(net.vals[0].entSigner, registry.RegisterEntitySignatureContext, net.vals[0].ent)
	if err != nil {
		return nil, err
	}
	ts = append(ts, sweepTarget{"cbor->entity.SignedEntity.Open", map[string][]byte{"signed-entity": cbor.Marshal(se)}, func(b []byte) bool {
		var x entity.SignedEntity
		if cbor.Unmarshal(b, &x) != nil {
			return false
		}
		var e entity.Entity
		return x.Open(registry.RegisterEntitySignatureContext, &e) == nil && e.ValidateBasic(false) == nil
	}})
	rtTx, err := net.buildTx(&cnTxSpec{Kind: "regruntime", Signer: "E0", To: "R0", Gov: "entity", Shape: "g2b1m1p0v0s1", Gas: 5000, Validity: "ok"}, nil)
	if err == nil {
		ts = append(ts, sweepTarget{"cbor->transaction(register runtime)->registry.Runtime", map[string][]byte{"runtime-tx": rtTx}, wireEntries["cbor->transaction"]})
	}
	ec, err := net.rhCommitment("R0", 5, hash.NewFromBytes([]byte("prev")), "N0", "N1", "A")
	if err != nil {
		return nil, err
	}
	ecs := map[string][]byte{"commitment": cbor.Marshal(ec)}
	if fc, err := net.rhCommitment("R0", 5, hash.NewFromBytes([]byte("prev")), "N0", "N1", "F"); err == nil {
		ecs["failure-commitment"] = cbor.Marshal(fc)
	}
	ts = append(ts, sweepTarget{"cbor->ExecutorCommitment.Verify", ecs, func(b []byte) bool {
		var x commitment.ExecutorCommitment
		if cbor.Unmarshal(b, &x) != nil {
			return false
		}
		return x.ValidateBasic() == nil && x.Verify(runtimeID("R0")) == nil
	}})
	// runtime host protocol frames: 4-byte big-endian length + CBOR message
	var frame bytes.Buffer
	wr := cbor.NewMessageCodec(&frame, "verif-sweep")
	_ = wr.Write(&protocol.Message{ID: 7, MessageType: protocol.MessageRequest, Body: protocol.Body{RuntimeInfoRequest: &protocol.RuntimeInfoRequest{RuntimeID: runtimeID("R0")}}})
	ts = append(ts, sweepTarget{"protocol frame (cbor.MessageReader)->protocol.Message", map[string][]byte{"frame": frame.Bytes()}, func(b []byte) bool {
		var m protocol.Message
		return cbor.NewMessageCodec(&sweepRW{bytes.NewReader(b)}, "verif-sweep").Read(&m) == nil
	}})
	return ts, nil
}

// sweepInputs enumerates the mutants of one seed: every truncation and, at every offset, the boundary patterns of a length
// field of width 1, 2, 4 and 8.  Long seeds are swept completely in their first `dense` bytes and with a stride afterwards.
func sweepInputs(seed []byte, dense, stride int, emit func(kind string, b []byte)) {
	n := len(seed)
	pos := func(i int) bool { return i < dense || i%stride == 0 || i > n-64 }
	for i := 0; i < n; i++ { // every length: one parse each, and decoders fail at "a few bytes short of the next field"
		emit("truncate", seed[:i])
	}
	emit("append", append(append([]byte{}, seed...), 0, 0, 0, 0))
	rest := func(i, w int) uint64 { return uint64(n - i - w) }
	for i := 0; i < n; i++ {
		if !pos(i) {
			continue
		}
		set := func(kind string, p []byte) {
			if i+len(p) > n {
				return
			}
			b := append([]byte{}, seed...)
			copy(b[i:], p)
			emit(kind, b)
		}
		for _, v := range []byte{0x00, 0xff, 0x7f, 0x80, seed[i] + 1, seed[i] - 1} {
			set("byte", []byte{v})
		}
		var b2, b4, b8 [8]byte
		for _, v := range []uint64{0xffff, 0x8000, rest(i, 2) + 1} {
			binary.LittleEndian.PutUint16(b2[:], uint16(v))
			set("u16le", b2[:2])
			binary.BigEndian.PutUint16(b2[:], uint16(v))
			set("u16be", b2[:2])
		}
		for _, v := range []uint64{0xffffffff, 0x80000000, 0x7fffffff, rest(i, 4) + 1, 0xffffffff - uint64(i)} {
			binary.LittleEndian.PutUint32(b4[:], uint32(v))
			set("u32le", b4[:4])
			binary.BigEndian.PutUint32(b4[:], uint32(v))
			set("u32be", b4[:4])
		}
		for _, v := range []uint64{^uint64(0), 1 << 63, rest(i, 8) + 1} {
			binary.LittleEndian.PutUint64(b8[:], v)
			set("u64le", b8[:8])
			binary.BigEndian.PutUint64(b8[:], v)
			set("u64be", b8[:8])
		}
	}
}

func wireSweep(args []string) int {
	fs := flag.NewFlagSet("wire-sweep", flag.ExitOnError)
	out := fs.String("out", "-", "summary JSON")
	repo := fs.String("repo", "/repo", "repository (test vectors)")
	dense := fs.Int("dense", 700, "sweep every offset of the first N bytes of a seed")
	stride := fs.Int("stride", 13, "offset stride after the dense part")
	fs.Parse(args)
	targets, err := sweepTargets(*repo)
	if err != nil {
		fmt.Fprintln(os.Stderr, "wire-sweep:", err)
		return 2
	}
	st := &wireStats{ByEntry: map[string]int{}}
	perSeed := map[string]map[string]int{}
	nSeeds := 0
	for _, t := range targets {
		if len(t.seeds) == 0 {
			fmt.Fprintln(os.Stderr, "wire-sweep: no seed encodings for", t.name)
			return 2
		}
		var names []string
		for k := range t.seeds {
			names = append(names, k)
		}
		sort.Strings(names)
		for _, sn := range names {
			seed := t.seeds[sn]
			nSeeds++
			// the unmodified seed must be accepted: otherwise the sweep explores the neighbourhood of garbage
			if !st.feed(t.name, t.f, seed, map[string]any{"seed": sn, "m": "none"}) && st.hangs < 3 {
				fmt.Fprintf(os.Stderr, "wire-sweep: seed %s is not accepted by %s\n", sn, t.name)
				return 2
			}
			cnt := map[string]int{}
			sweepInputs(seed, *dense, *stride, func(kind string, b []byte) {
				cnt[kind]++
				st.feed(t.name, t.f, b, map[string]any{"seed": sn, "m": kind, "len": len(b)})
			})
			perSeed[t.name+"/"+sn] = cnt
		}
	}
	w, err := openOut(*out)
	if err != nil {
		return 2
	}
	defer w.Close()
	w.Write(mustJSON(map[string]any{"targets": len(targets), "seeds": nSeeds, "inputs": st.Inputs, "accepted": st.Accepts, "panics": st.Panics,
		"slow": st.Slow, "skipped_after_hangs": st.Skipped, "big_alloc": st.Big, "problems": st.Problems, "by_entry": st.ByEntry, "per_seed": perSeed}))
	return 0
}
