package main

// C02 / C03: binding of specs/mkvs/Mkvs.tla (+MkvsTrie.tla) to go/storage/mkvs (tree, overlays, node databases).

import (
	"bytes"
	"context"
	"encoding/binary"
	"encoding/json"
	"flag"
	"fmt"
	"os"
	"runtime"
	"sort"
	"strings"
	"sync"
	"sync/atomic"

	"github.com/oasisprotocol/oasis-core/go/common"
	"github.com/oasisprotocol/oasis-core/go/common/crypto/hash"
	"github.com/oasisprotocol/oasis-core/go/storage/mkvs"
	dbapi "github.com/oasisprotocol/oasis-core/go/storage/mkvs/db/api"
	badgerdb "github.com/oasisprotocol/oasis-core/go/storage/mkvs/db/badger"
	pathbadger "github.com/oasisprotocol/oasis-core/go/storage/mkvs/db/pathbadger"
	"github.com/oasisprotocol/oasis-core/go/storage/mkvs/node"
)

func init() {
	register("mkvs-replay", "replay TLC-emitted Mkvs behaviours on real trees/overlays under several configurations", mkvsReplay)
}

// ---- behaviour records (emitted by Mkvs.tla Obs) ----

type bstr []byte // JSON: array of ints

func (b *bstr) UnmarshalJSON(data []byte) error {
	var xs []int
	if err := json.Unmarshal(data, &xs); err != nil {
		return err
	}
	*b = make([]byte, len(xs))
	for i, x := range xs {
		(*b)[i] = byte(x)
	}
	return nil
}

func (b bstr) MarshalJSON() ([]byte, error) {
	xs := make([]int, len(b))
	for i, x := range b {
		xs[i] = int(x)
	}
	return json.Marshal(xs)
}

type mkShape struct {
	T    string   `json:"t"`
	K    bstr     `json:"k,omitempty"`
	V    bstr     `json:"v,omitempty"`
	Lbl  []int    `json:"lbl,omitempty"`
	Leaf *mkShape `json:"leaf,omitempty"`
	L    *mkShape `json:"l,omitempty"`
	R    *mkShape `json:"r,omitempty"`
}

type mkIter struct {
	Seek  bstr      `json:"seek"`
	Items [][2]bstr `json:"items"`
}

type mkOp struct {
	A   string `json:"a"`
	K   bstr   `json:"k"`
	V   bstr   `json:"v"`
	Ret struct {
		Found bool `json:"found"`
		V     bstr `json:"v"`
	} `json:"ret"`
	View  [][2]bstr `json:"view"`
	Iters []mkIter  `json:"iters"`
	Shape *mkShape  `json:"shape"`
	Depth int       `json:"depth"`
	Fork  bool      `json:"fork"`  // a second object of an Overlay.Copy is alive
	FView [][2]bstr `json:"fview"` // its view
}

type mkBehaviour struct {
	Ops []mkOp `json:"ops"`
}

// ---- independent hash of a spec shape (the formula of node.UpdateHash, re-stated) ----

func shapeHash(s *mkShape) hash.Hash {
	var h hash.Hash
	if s == nil || s.T == "nil" {
		h.Empty()
		return h
	}
	if s.T == "leaf" {
		var kl, vl [4]byte
		binary.LittleEndian.PutUint32(kl[:], uint32(len(s.K)))
		binary.LittleEndian.PutUint32(vl[:], uint32(len(s.V)))
		h.FromBytes([]byte{0x00}, kl[:], s.K, vl[:], s.V)
		return h
	}
	var bl [2]byte
	binary.LittleEndian.PutUint16(bl[:], uint16(len(s.Lbl)))
	lbl := make([]byte, (len(s.Lbl)+7)/8)
	for i, b := range s.Lbl {
		if b == 1 {
			lbl[i/8] |= 0x80 >> (i % 8)
		}
	}
	lh, l, r := shapeHash(s.Leaf), shapeHash(s.L), shapeHash(s.R)
	h.FromBytes([]byte{0x01}, bl[:], lbl, lh[:], l[:], r[:])
	return h
}

// ---- configurations ----

type mkConfig struct {
	Backend   string `json:"backend"`   // mem | badger | pathbadger
	CapClass  string `json:"cap"`       // ample | tight | tiny
	ValueCap  uint64 `json:"value_cap"` // 0 = default
	NoWLog    bool   `json:"no_wlog"`
	HashEvery bool   `json:"hash_every"` // NoPersist commit after every base-level op
	RootType  string `json:"root_type"`
	ContReads bool   `json:"-"` // a wrong read answer does not end the run (C02: the roots that follow are judged)
}

func (c mkConfig) String() string {
	return fmt.Sprintf("%s/%s/v%d/nowl=%v/hashEvery=%v/%s", c.Backend, c.CapClass, c.ValueCap, c.NoWLog, c.HashEvery, c.RootType)
}

func mkConfigs(set string) []mkConfig {
	var out []mkConfig
	switch set {
	case "c02":
		out = append(out, mkConfig{Backend: "mem", CapClass: "ample", HashEvery: true, RootType: "state"})
		for _, be := range []string{"badger", "pathbadger"} {
			rt := "io" // pathbadger does not allow chained IO roots (documented restriction), badger does
			if be == "pathbadger" {
				rt = "state"
			}
			out = append(out,
				mkConfig{Backend: be, CapClass: "ample", HashEvery: true, RootType: "state"},
				mkConfig{Backend: be, CapClass: "tight", NoWLog: true, RootType: rt},
			)
		}
		for i := range out {
			out[i].ContReads = true
		}
	case "c03":
		out = append(out, mkConfig{Backend: "mem", CapClass: "ample", RootType: "state"})
		// trees without a write log (how the consensus layer creates its state trees): the pending-write bookkeeping that
		// RemoveExisting and the overlays consult is then maintained on another path
		out = append(out, mkConfig{Backend: "mem", CapClass: "ample", NoWLog: true, RootType: "state"})
		for _, be := range []string{"badger", "pathbadger"} {
			out = append(out,
				mkConfig{Backend: be, CapClass: "ample", RootType: "state"},
				mkConfig{Backend: be, CapClass: "tight", RootType: "state"},
				mkConfig{Backend: be, CapClass: "ample", ValueCap: 1, RootType: "state"},
			)
		}
		out = append(out, mkConfig{Backend: "pathbadger", CapClass: "ample", NoWLog: true, RootType: "state"})
	case "c03nv":
		out = append(out, mkConfig{Backend: "mem", CapClass: "ample", RootType: "state"})
		out = append(out, mkConfig{Backend: "mem", CapClass: "ample", NoWLog: true, RootType: "state"})
		for _, be := range []string{"badger", "pathbadger"} {
			out = append(out,
				mkConfig{Backend: be, CapClass: "ample", RootType: "state"},
				mkConfig{Backend: be, CapClass: "tight", RootType: "state"},
			)
		}
	case "c03tiny":
		for _, be := range []string{"badger", "pathbadger"} {
			out = append(out, mkConfig{Backend: be, CapClass: "tiny", RootType: "state"})
		}
	}
	return out
}

var mkNs = common.NewTestNamespaceFromSeed([]byte("verif mkvs"), 0)

func openNodeDB(backend, dir string) (dbapi.NodeDB, error) {
	cfg := &dbapi.Config{DB: dir, Namespace: mkNs, MaxCacheSize: 1 << 20, NoFsync: true, MemoryOnly: dir == ""}
	switch backend {
	case "badger":
		return badgerdb.New(cfg)
	case "pathbadger":
		return pathbadger.New(cfg)
	}
	return nil, nil
}

// mkRun is one real tree + overlay stack driven by a behaviour.
type mkRun struct {
	cfg     mkConfig
	ndb     dbapi.NodeDB
	tree    mkvs.Tree
	ovl     []mkvs.OverlayTree
	fork    mkvs.OverlayTree // the other object of an ofork (see Mkvs.tla)
	forkD   int              // overlay depth at which it was taken
	nfork   int
	version uint64
	root    node.Root
	hasRoot bool
	ctx     context.Context
	maxDep  int
	capN    uint64
	tiny    int  // tiny capacity actually used
	touch   bool // every write is preceded by a Get of its key (bounded caches, every second run)
}

func (r *mkRun) rootType() node.RootType {
	if r.cfg.RootType == "io" {
		return node.RootTypeIO
	}
	return node.RootTypeState
}

func (r *mkRun) opts() []mkvs.Option {
	var o []mkvs.Option
	switch r.cfg.CapClass {
	case "tight":
		o = append(o, mkvs.Capacity(r.capN, r.cfg.ValueCap))
	case "tiny":
		o = append(o, mkvs.Capacity(r.capN, r.cfg.ValueCap))
	default:
		if r.cfg.ValueCap != 0 {
			o = append(o, mkvs.Capacity(5000, r.cfg.ValueCap))
		}
	}
	if r.cfg.NoWLog {
		o = append(o, mkvs.WithoutWriteLog())
	}
	return o
}

func (r *mkRun) top() mkvs.KeyValueTree {
	if len(r.ovl) > 0 {
		return r.ovl[len(r.ovl)-1]
	}
	return r.tree
}

func (r *mkRun) close() {
	if r.fork != nil {
		r.fork.Close()
		r.fork = nil
	}
	if r.tree != nil {
		r.tree.Close()
	}
	if r.ndb != nil {
		r.ndb.Close()
	}
}

type mkFail struct {
	Kind string `json:"kind"`
	Msg  string `json:"msg"`
}

func failf(kind, f string, a ...any) *mkFail { return &mkFail{kind, fmt.Sprintf(f, a...)} }

func lookupView(view [][2]bstr, k []byte) ([]byte, bool) {
	for _, p := range view {
		if bytes.Equal(p[0], k) {
			return p[1], true
		}
	}
	return nil, false
}

func (r *mkRun) checkReads(op *mkOp) *mkFail {
	if f := r.checkReadsOn(r.top(), op); f != nil {
		return f
	}
	if op.Fork != (r.fork != nil) {
		return failf("harness", "fork alive: harness %v, model %v", r.fork != nil, op.Fork)
	}
	if r.fork != nil {
		// the fork answers as its own ordered map: Get of every key of the universe and the full iteration
		fop := mkOp{View: op.FView}
		for _, it := range op.Iters {
			fop.Iters = append(fop.Iters, mkIter{Seek: it.Seek, Items: nil})
		}
		if f := r.checkReadsOn(r.fork, &fop); f != nil {
			f.Msg = "fork (other object of Overlay.Copy): " + f.Msg
			return f
		}
	}
	return nil
}

func (r *mkRun) dropFork() {
	if r.fork != nil && len(r.ovl) == r.forkD {
		r.fork.Close()
		r.fork = nil
	}
}

func (r *mkRun) checkReadsOn(t mkvs.KeyValueTree, op *mkOp) *mkFail {
	// Get of every key of the universe.
	for _, it := range op.Iters {
		k := it.Seek
		got, err := t.Get(r.ctx, k)
		if err != nil {
			return failf("error", "Get(%x): %v", []byte(k), err)
		}
		want, ok := lookupView(op.View, k)
		if ok != (got != nil) || (ok && !bytes.Equal(got, want)) {
			return failf("get", "Get(%x) = %x (present=%v), model %x (present=%v)", []byte(k), got, got != nil, []byte(want), ok)
		}
	}
	// Near misses of every stored key (one bit flipped, one byte appended, the last byte cut off): keys outside the model's
	// universe that share most of their path with a stored key.  An ordered map answers "absent" unless the variant is stored.
	for _, p := range op.View {
		k := []byte(p[0])
		var variants [][]byte
		for bit := 0; bit < len(k)*8; bit++ {
			v := append([]byte{}, k...)
			v[bit/8] ^= 0x80 >> uint(bit%8)
			variants = append(variants, v)
		}
		variants = append(variants, append(append([]byte{}, k...), 0x00), append(append([]byte{}, k...), 0xff))
		if len(k) > 0 {
			variants = append(variants, append([]byte{}, k[:len(k)-1]...))
		}
		for _, v := range variants {
			want, ok := lookupView(op.View, v)
			got, err := t.Get(r.ctx, v)
			if err != nil {
				return failf("error", "Get(%x): %v", v, err)
			}
			if ok != (got != nil) || (ok && !bytes.Equal(got, want)) {
				return failf("get", "Get(%x) (near miss of the stored key %x) = %x (present=%v), model %x (present=%v)", v, k, got, got != nil, []byte(want), ok)
			}
		}
	}
	// Seek + Next from every seek position.
	for _, itx := range op.Iters {
		if itx.Items == nil && op.A == "" {
			continue // fork: Get + full iteration only
		}
		it := t.NewIterator(r.ctx)
		it.Seek(node.Key(itx.Seek))
		for i, p := range itx.Items {
			if !it.Valid() {
				it.Close()
				return failf("iter", "Seek(%x): iterator ended after %d items, model has %d (err=%v)", []byte(itx.Seek), i, len(itx.Items), it.Err())
			}
			if !bytes.Equal(it.Key(), p[0]) || !bytes.Equal(it.Value(), p[1]) {
				it.Close()
				return failf("iter", "Seek(%x) item %d = (%x,%x), model (%x,%x)", []byte(itx.Seek), i, []byte(it.Key()), it.Value(), []byte(p[0]), []byte(p[1]))
			}
			it.Next()
		}
		if len(itx.Items) == 0 && it.Valid() {
			k := append([]byte{}, it.Key()...)
			it.Close()
			return failf("iter", "Seek(%x) yields %x, model yields nothing", []byte(itx.Seek), k)
		}
		if err := it.Err(); err != nil {
			it.Close()
			return failf("error", "iterator: %v", err)
		}
		it.Close()
	}
	// Full iteration equals the view.
	it := t.NewIterator(r.ctx)
	i := 0
	for it.Rewind(); it.Valid(); it.Next() {
		if i >= len(op.View) || !bytes.Equal(it.Key(), op.View[i][0]) || !bytes.Equal(it.Value(), op.View[i][1]) {
			k, v := append([]byte{}, it.Key()...), append([]byte{}, it.Value()...)
			it.Close()
			return failf("iter", "full iteration item %d = (%x,%x) not in model view %v", i, k, v, op.View)
		}
		i++
	}
	err := it.Err()
	it.Close()
	if err != nil {
		return failf("error", "iterator: %v", err)
	}
	if i != len(op.View) {
		return failf("iter", "full iteration yields %d items, model %d", i, len(op.View))
	}
	return nil
}

func (r *mkRun) apply(op *mkOp, rec *mkRecorder) *mkFail {
	t := r.top()
	if r.touch && (op.A == "ins" || op.A == "rem" || op.A == "remx") {
		// read-before-write: the key's path is the most recently used part of the node cache when the write starts
		if _, err := t.Get(r.ctx, op.K); err != nil {
			return failf("error", "Get before %s: %v", op.A, err)
		}
	}
	switch op.A {
	case "ins":
		v := []byte(op.V)
		if v == nil {
			v = []byte{}
		}
		if err := t.Insert(r.ctx, op.K, v); err != nil {
			return failf("error", "Insert: %v", err)
		}
	case "rem":
		if err := t.Remove(r.ctx, op.K); err != nil {
			return failf("error", "Remove: %v", err)
		}
	case "remx":
		prev, err := t.RemoveExisting(r.ctx, op.K)
		if err != nil {
			return failf("error", "RemoveExisting: %v", err)
		}
		if op.Ret.Found != (prev != nil) || (op.Ret.Found && !bytes.Equal(prev, op.Ret.V)) {
			return failf("remx", "RemoveExisting(%x) = %x (present=%v), model %x (present=%v)", []byte(op.K), prev, prev != nil, []byte(op.Ret.V), op.Ret.Found)
		}
	case "commit":
		_, h, err := r.tree.Commit(r.ctx, mkNs, r.version)
		if err != nil {
			return failf("error", "Commit: %v", err)
		}
		r.root = node.Root{Namespace: mkNs, Version: r.version, Type: r.rootType(), Hash: h}
		r.hasRoot = true
		if r.ndb != nil {
			if err = r.ndb.Finalize([]node.Root{r.root}); err != nil {
				return failf("error", "Finalize: %v", err)
			}
		}
		r.version++
		if f := r.checkRoot(op, h, rec, "commit"); f != nil {
			return f
		}
	case "reopen":
		if r.ndb == nil {
			return nil // not applicable without a database (filtered by the caller)
		}
		r.tree.Close()
		if r.hasRoot {
			r.tree = mkvs.NewWithRoot(nil, r.ndb, r.root, r.opts()...)
		} else {
			r.tree = mkvs.New(nil, r.ndb, r.rootType(), r.opts()...)
		}
	case "onew":
		r.ovl = append(r.ovl, mkvs.NewOverlay(t))
	case "ocommit":
		r.dropFork()
		o := r.ovl[len(r.ovl)-1]
		if _, err := o.Commit(r.ctx); err != nil {
			return failf("error", "Overlay.Commit: %v", err)
		}
		o.Close()
		r.ovl = r.ovl[:len(r.ovl)-1]
	case "oclose":
		r.dropFork()
		r.ovl[len(r.ovl)-1].Close()
		r.ovl = r.ovl[:len(r.ovl)-1]
	case "ofork":
		// both objects stay alive; in turn the stack continues on the copy or on the original
		o := r.ovl[len(r.ovl)-1]
		c := o.Copy(nil)
		r.nfork++
		if r.nfork%2 == 1 {
			r.ovl[len(r.ovl)-1], r.fork = c, o
		} else {
			r.fork = c
		}
		r.forkD = len(r.ovl)
	case "fins":
		v := []byte(op.V)
		if v == nil {
			v = []byte{}
		}
		if err := r.fork.Insert(r.ctx, op.K, v); err != nil {
			return failf("error", "fork Insert: %v", err)
		}
	case "frem":
		if err := r.fork.Remove(r.ctx, op.K); err != nil {
			return failf("error", "fork Remove: %v", err)
		}
	case "ocopy":
		o := r.ovl[len(r.ovl)-1]
		c := o.Copy(nil)
		o.Close()
		r.ovl[len(r.ovl)-1] = c
	default:
		return failf("error", "unknown op %s", op.A)
	}
	if r.cfg.HashEvery && len(r.ovl) == 0 && op.A != "commit" {
		_, h, err := r.tree.Commit(r.ctx, mkNs, r.version, mkvs.NoPersist())
		if err != nil {
			return failf("error", "Commit(NoPersist): %v", err)
		}
		if f := r.checkRoot(op, h, rec, "nopersist"); f != nil {
			return f
		}
	}
	return nil
}

func (r *mkRun) checkRoot(op *mkOp, h hash.Hash, rec *mkRecorder, how string) *mkFail {
	want := shapeHash(op.Shape)
	rec.root(op.View, h, r.cfg, how)
	if !h.Equal(&want) {
		return failf("root", "%s root %s differs from H(canonical shape) %s for contents %v", how, h, want, op.View)
	}
	return nil
}

// mkRecorder collects (contents, root) observations for TLC's functional check (TraceRoots.tla).
type mkRecorder struct {
	mu    sync.Mutex
	c2id  map[string]int
	seen  map[string]bool
	w     *os.File
	count int
}

func (m *mkRecorder) root(view [][2]bstr, h hash.Hash, cfg mkConfig, how string) {
	if m == nil || m.w == nil {
		return
	}
	key := string(mustJSON(view))
	if len(view) == 0 {
		key = "[]" // (nil and empty slices are the same contents)
	}
	m.mu.Lock()
	defer m.mu.Unlock()
	id, ok := m.c2id[key]
	if !ok {
		id = len(m.c2id) + 1
		m.c2id[key] = id
	}
	line := fmt.Sprintf(`{"ev":"root","cid":%d,"root":"%s"}`, id, h.String()[:16])
	if m.seen[line] {
		return
	}
	m.seen[line] = true
	m.count++
	m.w.WriteString(line + "\n")
}

type mkMismatch struct {
	Config  mkConfig `json:"config"`
	Step    int      `json:"step"`
	Op      string   `json:"op"`
	Fail    *mkFail  `json:"fail"`
	CapN    uint64   `json:"node_capacity"`
	EmbLeaf bool     `json:"embedded_leaf"`
	Depth   int      `json:"path_depth"`
	Ops     []mkOp   `json:"-"`
	OpsLite []string `json:"ops"`
}

func liteOps(ops []mkOp) []string {
	out := make([]string, len(ops))
	for i, o := range ops {
		out[i] = fmt.Sprintf("%s %x %x", o.A, []byte(o.K), []byte(o.V))
	}
	return out
}

func runBehaviour(b *mkBehaviour, cfg mkConfig, salt int, rec *mkRecorder) (res *mkMismatch, nops int) {
	r := &mkRun{cfg: cfg, ctx: context.Background()}
	r.touch = cfg.CapClass == "tight" && (salt/3)%2 == 0
	maxDep := 1
	for i := range b.Ops {
		if b.Ops[i].Depth > maxDep {
			maxDep = b.Ops[i].Depth
		}
	}
	r.maxDep = maxDep
	switch cfg.CapClass {
	case "tight":
		r.capN = uint64(maxDep + 2 + salt%3)
	case "tiny":
		r.capN = uint64(1 + salt%maxDep)
	}
	var err error
	if r.ndb, err = openNodeDB(cfg.Backend, ""); err != nil {
		return &mkMismatch{Config: cfg, Fail: failf("error", "open db: %v", err)}, 0
	}
	r.tree = mkvs.New(nil, r.ndb, r.rootType(), r.opts()...)
	defer r.close()
	var firstRead *mkMismatch
	for i := range b.Ops {
		op := &b.Ops[i]
		nops++
		var f *mkFail
		if perr := guard(func() {
			f = r.apply(op, rec)
			// (read-before-write runs: reads perturb the node cache - every Get re-marks the LRU position - so these runs read
			//  back only after commits and at the end; a write is then followed by the next write or the commit directly)
			if f == nil && (!r.touch || op.A == "commit" || i == len(b.Ops)-1) {
				f = r.checkReads(op)
			}
		}); perr != nil {
			f = &mkFail{"panic", perr.Error()}
		}
		if f != nil {
			emb := false
			for j := 0; j <= i; j++ {
				emb = emb || hasEmbeddedLeaf(b.Ops[j].Shape)
			}
			m := &mkMismatch{Config: cfg, Step: i, Op: op.A, Fail: f, CapN: r.capN, EmbLeaf: emb, Depth: maxDep, OpsLite: liteOps(b.Ops[:i+1])}
			// Under the root-comparing configurations (C02) a wrong read answer does not end the run: the roots of the
			// following operations are what the property speaks about, and a defect that loses a pair on read-back shows in
			// both.  The first read mismatch is reported only if no root differs later.
			if cfg.ContReads && (f.Kind == "get" || f.Kind == "iter" || f.Kind == "remx") {
				if firstRead == nil {
					firstRead = m
				}
				continue
			}
			return m, nops
		}
	}
	if firstRead == nil && r.touch && cfg.ContReads && len(r.ovl) == 0 && r.ndb != nil {
		// churn: what a long-running node does to a state tree under a bounded node cache - rounds of read, remove, commit,
		// re-insert, commit over the keys the history left behind.  The root is a function of the contents: after the re-insert
		// it is the root the tree had before, and every (contents, root) pair goes to TLC's functional check (TraceRoots.tla)
		var f *mkFail
		if perr := guard(func() { f = r.churn(rec, 6) }); perr != nil {
			f = &mkFail{"panic", "churn: " + perr.Error()}
		}
		if f != nil {
			return &mkMismatch{Config: cfg, Step: len(b.Ops), Op: "churn", Fail: f, CapN: r.capN, Depth: maxDep, OpsLite: liteOps(b.Ops)}, nops
		}
	}
	return firstRead, nops
}

// churn: see runBehaviour.
func (r *mkRun) churn(rec *mkRecorder, rounds int) *mkFail {
	var view [][2]bstr
	it := r.tree.NewIterator(r.ctx)
	for it.Rewind(); it.Valid(); it.Next() {
		view = append(view, [2]bstr{bstr(append([]byte{}, it.Key()...)), bstr(append([]byte{}, it.Value()...))})
	}
	err := it.Err()
	it.Close()
	if err != nil {
		return failf("error", "churn: iterate: %v", err)
	}
	commit := func(v [][2]bstr, how string) (hash.Hash, *mkFail) {
		_, h, cerr := r.tree.Commit(r.ctx, mkNs, r.version)
		if cerr != nil {
			return h, failf("error", "churn: Commit: %v", cerr)
		}
		r.root = node.Root{Namespace: mkNs, Version: r.version, Type: r.rootType(), Hash: h}
		r.hasRoot = true
		if ferr := r.ndb.Finalize([]node.Root{r.root}); ferr != nil {
			return h, failf("error", "churn: Finalize: %v", ferr)
		}
		r.version++
		rec.root(v, h, r.cfg, how)
		return h, nil
	}
	base, f := commit(view, "churn")
	if f != nil {
		return f
	}
	without := map[int]hash.Hash{}
	for round := 0; round < rounds; round++ {
		for i := range view {
			k, v := []byte(view[i][0]), []byte(view[i][1])
			// a neighbour is read, then the key is removed and the batch committed straight away
			if _, err := r.tree.Get(r.ctx, []byte(view[(i+1)%len(view)][0])); err != nil {
				return failf("error", "churn: Get: %v", err)
			}
			if err := r.tree.Remove(r.ctx, k); err != nil {
				return failf("error", "churn: Remove: %v", err)
			}
			rest := append(append([][2]bstr{}, view[:i]...), view[i+1:]...)
			h, f := commit(rest, "churn")
			if f != nil {
				return f
			}
			if prev, ok := without[i]; ok && !prev.Equal(&h) {
				return failf("root", "churn round %d: root %s after removing %x differs from the root %s the same contents had in an earlier round", round, h, k, prev)
			}
			without[i] = h
			if err := r.tree.Insert(r.ctx, k, v); err != nil {
				return failf("error", "churn: Insert: %v", err)
			}
			if h, f = commit(view, "churn"); f != nil {
				return f
			}
			if !h.Equal(&base) {
				return failf("root", "churn round %d: root %s after re-inserting %x differs from the root %s of the same contents", round, h, k, base)
			}
		}
	}
	for i := range view {
		got, err := r.tree.Get(r.ctx, []byte(view[i][0]))
		if err != nil || !bytes.Equal(got, []byte(view[i][1])) {
			return failf("get", "churn: Get(%x) = %x, %v after the rounds; stored %x", []byte(view[i][0]), got, err, []byte(view[i][1]))
		}
	}
	return nil
}

func hasEmbeddedLeaf(s *mkShape) bool {
	if s == nil || s.T != "int" {
		return false
	}
	if s.Leaf != nil && s.Leaf.T == "leaf" {
		return true
	}
	return hasEmbeddedLeaf(s.L) || hasEmbeddedLeaf(s.R)
}

func hasOp(b *mkBehaviour, a string) bool {
	for i := range b.Ops {
		if b.Ops[i].A == a {
			return true
		}
	}
	return false
}

func mkvsReplay(args []string) int {
	fs := flag.NewFlagSet("mkvs-replay", flag.ExitOnError)
	in := fs.String("in", "-", "behaviours")
	out := fs.String("out", "-", "summary JSON")
	set := fs.String("configs", "c03", "configuration set: c02 | c03 | c03tiny")
	roots := fs.String("roots", "", "ndjson of (contents id, root) observations for TLC")
	dbEvery := fs.Int("dbevery", 1, "run database-backed configurations only on every k-th behaviour")
	fs.Parse(args)
	r, err := openIn(*in)
	if err != nil {
		fmt.Fprintln(os.Stderr, err)
		return 2
	}
	defer r.Close()
	cfgs := mkConfigs(*set)
	if len(cfgs) == 0 {
		fmt.Fprintln(os.Stderr, "unknown config set")
		return 2
	}
	rec := &mkRecorder{c2id: map[string]int{}, seen: map[string]bool{}}
	if *roots != "" {
		if rec.w, err = os.Create(*roots); err != nil {
			return 2
		}
		defer rec.w.Close()
	}
	var (
		mu                sync.Mutex
		nBeh, nRuns, nOps int
		classes           = map[string]int{}
		mism              []*mkMismatch
		samples           []json.RawMessage
		opCounts          = map[string]int{}
		bad               atomic.Bool
		byConfig          = map[string]int{}
		distinctContents  = map[string]bool{}
	)
	lines := make(chan []byte, 256)
	var wg sync.WaitGroup
	for wk := 0; wk < runtime.NumCPU(); wk++ {
		wg.Add(1)
		go func(wk int) {
			defer wg.Done()
			n := 0
			for line := range lines {
				var b mkBehaviour
				if err := json.Unmarshal(line, &b); err != nil {
					fmt.Fprintf(os.Stderr, "bad behaviour: %v\n", err)
					bad.Store(true)
					continue
				}
				n++
				lops := map[string]int{}
				for i := range b.Ops {
					lops[b.Ops[i].A]++
				}
				lastView := string(mustJSON(b.Ops[len(b.Ops)-1].View))
				mu.Lock()
				nBeh++
				for k, v := range lops {
					opCounts[k] += v
				}
				distinctContents[lastView] = true
				if len(samples) < 2 {
					samples = append(samples, append(json.RawMessage{}, line...))
				}
				mu.Unlock()
				for ci, cfg := range cfgs {
					if cfg.Backend == "mem" && hasOp(&b, "reopen") {
						continue
					}
					if cfg.Backend != "mem" && (n+wk)%*dbEvery != 0 {
						continue
					}
					m, ops := runBehaviour(&b, cfg, n*31+wk*7+ci, rec)
					mu.Lock()
					nRuns++
					nOps += ops
					byConfig[cfg.String()]++
					if m != nil {
						cl := cfg.CapClass + ":" + m.Fail.Kind
						if cfg.ValueCap != 0 {
							cl = fmt.Sprintf("valuecap:emb=%v:%s", m.EmbLeaf, m.Fail.Kind)
						}
						classes[cl]++
						if classes[cl] <= 5 {
							mism = append(mism, m)
						}
					}
					mu.Unlock()
				}
			}
		}(wk)
	}
	sc := lineReader(r)
	for sc.Scan() {
		line := sc.Bytes()
		if len(line) == 0 || line[0] != '{' {
			continue
		}
		lines <- append([]byte{}, line...)
	}
	close(lines)
	wg.Wait()
	if bad.Load() || sc.Err() != nil {
		return 2
	}
	w, err := openOut(*out)
	if err != nil {
		return 2
	}
	defer w.Close()
	nm := 0
	for _, c := range classes {
		nm += c
	}
	keys := make([]string, 0, len(byConfig))
	for k := range byConfig {
		keys = append(keys, k)
	}
	sort.Strings(keys)
	w.Write(mustJSON(map[string]any{
		"behaviours": nBeh, "runs": nRuns, "ops": nOps, "mismatch_count": nm, "classes": classes, "mismatches": mism,
		"op_counts": opCounts, "samples": samples, "configs": strings.Join(keys, " "), "root_observations": rec.count,
		"distinct_final_contents": len(distinctContents),
	}))
	return 0
}
