package main

// C19, blocks PUSHED by the provider (Core.Serve / WatchBlocks) and what Core.GetStatus says afterwards: the untrusted provider
// pushes an honest block (half of the cases) and then a block altered in one field the header binds.  Whatever the node hands to
// its subscribers, and whatever GetStatus reports as the latest block (height, hash, time, state root), must be a block that was
// bound to a verified header - one of the universe's canonical blocks - or nothing.

import (
	"context"
	"fmt"
	"os"
	"time"

	beaconAPI "github.com/oasisprotocol/oasis-core/go/beacon/api"
	"github.com/oasisprotocol/oasis-core/go/common/pubsub"
	consensusAPI "github.com/oasisprotocol/oasis-core/go/consensus/api"
	cmtbeacon "github.com/oasisprotocol/oasis-core/go/consensus/cometbft/beacon"
)

type slWatchProvider struct {
	*slProvider
	blocks *pubsub.Broker
}

func (p *slWatchProvider) WatchBlocks(context.Context) (<-chan *consensusAPI.Block, pubsub.ClosableSubscription, error) {
	ch := make(chan *consensusAPI.Block)
	sub := p.blocks.Subscribe()
	sub.Unwrap(ch)
	return ch, sub, nil
}

type slBeaconQuery struct{ cmtbeacon.Query }

func (slBeaconQuery) Epoch(context.Context) (beaconAPI.EpochTime, int64, error) { return 1, 1, nil }

type slBeaconFactory struct{}

func (slBeaconFactory) QueryAt(context.Context, int64) (cmtbeacon.Query, error) {
	return slBeaconQuery{}, nil
}

type slBlockAlt struct {
	name string
	fn   func(b *consensusAPI.Block, other *consensusAPI.Block)
}

var slBlockAlts = []slBlockAlt{
	{"state-root", func(b, _ *consensusAPI.Block) { b.StateRoot.Hash[0] ^= 0xff }},
	{"hash", func(b, _ *consensusAPI.Block) { b.Hash[5] ^= 0x01 }},
	{"time+1s", func(b, _ *consensusAPI.Block) { b.Time = b.Time.Add(time.Second) }},
	{"state-root-of-other-height", func(b, o *consensusAPI.Block) { b.StateRoot.Hash = o.StateRoot.Hash }},
	{"hash-and-root-of-other-height", func(b, o *consensusAPI.Block) { b.Hash, b.StateRoot.Hash = o.Hash, o.StateRoot.Hash }},
	{"meta-dropped", func(b, _ *consensusAPI.Block) { b.Meta = nil }},
}

// slRunWatch appends "status" events to the trace.
func slRunWatch(x *slRunner, universes []*slUniverse) (map[string]any, error) {
	root, cancelAll := context.WithCancel(context.Background())
	defer cancelAll()
	tmp, err := os.MkdirTemp("", "verif-c19-watch-")
	if err != nil {
		return nil, err
	}
	defer os.RemoveAll(tmp)
	cases, notified, served := 0, 0, 0
	for _, u0 := range universes {
		u := *u0
		if u.syn == nil {
			u.fixed = 2
		}
		mhs := slModelHeights(&u)
		if len(mhs) < 2 {
			continue
		}
		top := mhs[len(mhs)-1]
		env, err := slNewCoreEnv(root, &u, top, tmp)
		if err != nil {
			return nil, fmt.Errorf("light client for %s: %w", u.name, err)
		}
		var ds []*slData
		for _, mh := range mhs {
			if d := u.at(0, mh); d != nil && d.block != nil {
				ds = append(ds, d)
			}
		}
		if len(ds) < 2 {
			continue
		}
		canonical := func(h int64, hs string, sr string, t time.Time) bool {
			for _, d := range ds {
				b := slHonest(d, "block").block
				if b.Height == h && b.Hash.String() == hs && b.StateRoot.Hash.String() == sr && b.Time.Equal(t) {
					return true
				}
			}
			return false
		}
		x.begin("watch/" + u.name)
		for i, d := range ds {
			other := slHonest(ds[(i+1)%len(ds)], "block").block
			for ai, alt := range slBlockAlts {
				honestFirst := (i+ai)%2 == 0
				ctx, cancel := context.WithTimeout(root, 10*time.Second)
				wp := &slWatchProvider{slProvider: env.prov, blocks: pubsub.NewBroker(false)}
				c := slNewCoreWith(env, wp)
				c.SetQueriers(slBeaconFactory{}, nil, nil)
				e := map[string]any{"ev": "status", "req": "WatchBlocks+GetStatus", "universe": u.name, "h": d.height, "alteration": alt.name,
					"honest_first": honestFirst, "altered_notified": false, "status_canonical": true, "status_height": int64(0)}
				perr := guard(func() {
					ch, sub, werr := c.WatchBlocks(ctx)
					if werr != nil {
						e["error"] = werr.Error()
						return
					}
					defer sub.Close()
					done := make(chan error, 1)
					go func() { done <- c.Serve(ctx) }()
					push := func(b *consensusAPI.Block, wantHash string) (gotIt bool) {
						tick := time.NewTicker(15 * time.Millisecond)
						defer tick.Stop()
						deadline := time.After(3 * time.Second)
						for {
							wp.blocks.Broadcast(b)
							select {
							case nb := <-ch:
								if nb.Hash.String() == wantHash {
									return true
								}
							case serr := <-done:
								done <- serr
								return false
							case <-deadline:
								return false
							case <-tick.C:
							}
						}
					}
					if honestFirst {
						hb := slHonest(ds[(i+1)%len(ds)], "block").block
						if push(hb, hb.Hash.String()) {
							served++
						}
					}
					bad := *slHonest(d, "block").block
					alt.fn(&bad, other)
					if push(&bad, bad.Hash.String()) {
						e["altered_notified"] = true
						notified++
					}
					st, serr := c.GetStatus(context.Background())
					if serr != nil {
						e["error"] = serr.Error()
						return
					}
					e["status_height"] = st.LatestHeight
					if st.LatestHeight != 0 || !st.LatestTime.IsZero() {
						e["status_canonical"] = canonical(st.LatestHeight, st.LatestHash.String(), st.LatestStateRoot.Hash.String(), st.LatestTime)
					}
				})
				cancel()
				if perr != nil {
					e["panic"] = slShort(perr.Error(), 200)
				}
				cases++
				x.mu.Lock()
				x.events++
				x.w.Write(mustJSON(e))
				x.w.WriteByte('\n')
				x.mu.Unlock()
			}
		}
	}
	return map[string]any{"cases": cases, "altered_blocks_notified": notified, "honest_blocks_served": served}, nil
}
