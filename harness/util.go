package main

import (
	"bufio"
	"context"
	"encoding/json"
	"fmt"
	"io"
	"os"
	"runtime/debug"
)

// lineReader yields the lines of a (possibly very large) ndjson stream.
func lineReader(r io.Reader) *bufio.Scanner {
	sc := bufio.NewScanner(r)
	sc.Buffer(make([]byte, 1<<20), 1<<28)
	return sc
}

func openIn(path string) (io.ReadCloser, error) {
	if path == "" || path == "-" {
		return os.Stdin, nil
	}
	return os.Open(path)
}

func openOut(path string) (io.WriteCloser, error) {
	if path == "" || path == "-" {
		return os.Stdout, nil
	}
	return os.Create(path)
}

// guard runs f and converts a panic into an error carrying the stack.
func guard(f func()) (perr error) {
	defer func() {
		if r := recover(); r != nil {
			perr = fmt.Errorf("panic: %v\n%s", r, debug.Stack())
		}
	}()
	f()
	return nil
}

func mustJSON(v any) []byte {
	b, err := json.Marshal(v)
	if err != nil {
		panic(err)
	}
	return b
}

func writeJSONFile(path string, v any) error {
	b, err := json.MarshalIndent(v, "", " ")
	if err != nil {
		return err
	}
	return os.WriteFile(path, b, 0o644)
}

var bgCtx = context.Background()
