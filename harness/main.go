// Command vh is the conformance harness that binds the TLA+ specifications under /verif/specs
// to the real oasis-core code in /repo (built with -tags verif).
//
// Each sub-command either replays behaviours emitted by TLC on the real code (spec -> code) or
// drives the real code and records an ndjson trace for TLC to validate (code -> spec).
package main

import (
	"fmt"
	"os"
)

type subcommand struct {
	name string
	run  func(args []string) int
	help string
}

var subcommands []subcommand

func register(name, help string, run func(args []string) int) {
	subcommands = append(subcommands, subcommand{name, run, help})
}

func main() {
	if len(os.Args) < 2 {
		usage()
		os.Exit(2)
	}
	for _, sc := range subcommands {
		if sc.name == os.Args[1] {
			os.Exit(sc.run(os.Args[2:]))
		}
	}
	usage()
	os.Exit(2)
}

func usage() {
	fmt.Fprintln(os.Stderr, "usage: vh <subcommand> [flags]")
	for _, sc := range subcommands {
		fmt.Fprintf(os.Stderr, "  %-14s %s\n", sc.name, sc.help)
	}
}
