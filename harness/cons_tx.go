package main

// Transaction construction for the consensus scenarios: every staking method, with single-respect invalidities and
// concretised signatures (this chain / another chain / another registered domain / flipped bits).

import (
	"crypto/ed25519"
	"crypto/sha512"
	"fmt"
	"github.com/oasisprotocol/oasis-core/go/common/entity"
	"github.com/oasisprotocol/oasis-core/go/common/version"
	upgrade "github.com/oasisprotocol/oasis-core/go/upgrade/api"
	"math/rand"
	"sort"
	"strings"
	"time"

	beacon "github.com/oasisprotocol/oasis-core/go/beacon/api"
	"github.com/oasisprotocol/oasis-core/go/common"
	"github.com/oasisprotocol/oasis-core/go/common/cbor"
	"github.com/oasisprotocol/oasis-core/go/common/crypto/signature"
	memorySigner "github.com/oasisprotocol/oasis-core/go/common/crypto/signature/signers/memory"
	"github.com/oasisprotocol/oasis-core/go/common/node"
	"github.com/oasisprotocol/oasis-core/go/common/quantity"
	"github.com/oasisprotocol/oasis-core/go/consensus/api/transaction"
	governance "github.com/oasisprotocol/oasis-core/go/governance/api"
	registry "github.com/oasisprotocol/oasis-core/go/registry/api"
	roothash "github.com/oasisprotocol/oasis-core/go/roothash/api"
	"github.com/oasisprotocol/oasis-core/go/roothash/api/commitment"
	scheduler "github.com/oasisprotocol/oasis-core/go/scheduler/api"
	staking "github.com/oasisprotocol/oasis-core/go/staking/api"
)

type cnTxSpec struct {
	Kind     string `json:"kind"` // transfer | burn | escrow | reclaim | allow | withdraw | amend
	Signer   string `json:"signer"`
	To       string `json:"to,omitempty"`
	Amount   int64  `json:"amount"`
	Negative bool   `json:"negative,omitempty"` // allowance change sign
	Nonce    uint64 `json:"nonce"`
	Fee      int64  `json:"fee"`
	Gas      uint64 `json:"gas"`
	Rotate   string `json:"rotate,omitempty"`   // regnode: none | fresh:<role> | move:<from>><to> | swap:<a>:<b>
	Node     string `json:"node,omitempty"`     // regnode: the node being registered (the signer may be someone else)
	Runtimes string `json:"runtimes,omitempty"` // regnode: "" (validator only) | "R0" | "R0,R1": compute role for these runtimes
	RtVers   string `json:"rtvers,omitempty"`   // regnode: runtime versions the node runs, "R0:1,R1:0" (default 0)
	RtMore   string `json:"rtmore,omitempty"`   // regnode: further runtime entries appended to the descriptor, "R0:2,R0:2" (several versions of one runtime; repeats must be refused)
	Deps     string `json:"deps,omitempty"`     // regruntime: deployments in descriptor order, "ver@validFrom;ver@validFrom" (default "0@0")
	Gov      string `json:"gov,omitempty"`      // regruntime: entity | runtime
	Shape    string `json:"shape,omitempty"`    // regruntime: "g<workers>b<backups>m<max nodes per entity, 0 = unset>p<min pool: workers+this>v<validator-set constraint 0/1>s<allowed stragglers>"
	Slash    string `json:"slash,omitempty"`    // regruntime: "<amount>:<runtime share % for equivocation>:<runtime share % for incorrect results>" (per-runtime slashing)
	Live     string `json:"live,omitempty"`     // regruntime: liveness evaluation "<min rounds>:<min live percent>:<tolerated failures>:<slash amount>"
	InMsgs   string `json:"inmsgs,omitempty"`   // regruntime: "<max incoming messages>:<minimum incoming message fee>"
	Huge     bool   `json:"huge,omitempty"`     // rhcommit: the commitment declares 2^26 processed incoming messages
	MsgFee   int64  `json:"msgfee,omitempty"`   // submitmsg: the fee sent into the runtime with the message (spec.Amount = tokens)
	Nodes    string `json:"nodes,omitempty"`    // regentity: the node list of the descriptor, "N0,N2" (spec.Entity names the entity: E<i> or a user account)
	VAct     string `json:"vact,omitempty"`     // vcreate: "<admins>/<threshold>;<suspenders>/<threshold>"; vauth: action descriptor (cons_vault.go parseAction)
	Entity   string `json:"entity,omitempty"`   // regnode: register the node under this entity instead of its own
	Sched    string `json:"sched,omitempty"`    // rhcommit: the scheduler whose proposal the commitment is for
	Vote     string `json:"vote,omitempty"`     // rhcommit: A | B (result labels) | F (failure indicating)
	VRoot    string `json:"vroot,omitempty"`    // rhcommit: the state root the vote carries (empty for F)
	Validity string `json:"validity"`           // ok | badnonce | futurenonce | lowgas | badsig | wrongchain | wrongdomain | malformed | replay
}

type cnAccount struct {
	name   string
	signer signature.Signer
	addr   staking.Address
}

func (n *cnNet) accounts() []cnAccount {
	var out []cnAccount
	for _, u := range n.users {
		out = append(out, cnAccount{u.name, u.signer, u.addr})
	}
	for i := 0; i < n.cfg.Validators; i++ {
		v := n.vals[i]
		out = append(out, cnAccount{fmt.Sprintf("E%d", i), v.entSigner, v.entAddr})
	}
	return out
}

// nodeAccounts are the staking accounts of the node keys (they sign node registrations).
func (n *cnNet) nodeAccounts() []cnAccount {
	var out []cnAccount
	for _, v := range n.vals {
		out = append(out, cnAccount{v.name, v.ident.NodeSigner, staking.NewAddress(v.ident.NodeSigner.Public())})
	}
	// the accounts of the nodes' consensus keys: keys that sign every node descriptor but are not the node's identity
	for _, v := range n.vals {
		out = append(out, cnAccount{v.name + ".c", v.ident.ConsensusSigner, staking.NewAddress(v.ident.ConsensusSigner.Public())})
	}
	return out
}

func (n *cnNet) account(name string) (cnAccount, bool) {
	for _, a := range append(n.accounts(), n.nodeAccounts()...) {
		if a.name == name {
			return a, true
		}
	}
	return cnAccount{}, false
}

func qq(v int64) quantity.Quantity {
	var x quantity.Quantity
	if v >= 0 {
		_ = x.FromUint64(uint64(v))
	}
	return x
}

// rawContext re-states the signing context construction of go/common/crypto/signature independently:
// "<context> for chain <chain context>".
func rawContext(base, chainCtx string) []byte {
	return []byte(base + " for chain " + chainCtx)
}

func signRaw(s signature.Signer, ctx []byte, msg []byte) []byte {
	ms, ok := s.(*memorySigner.Signer)
	if !ok {
		panic("not a memory signer")
	}
	h := sha512.New512_256()
	h.Write(ctx)
	h.Write(msg)
	return ed25519.Sign(ed25519.PrivateKey(ms.UnsafeBytes()), h.Sum(nil))
}

// verifyRaw is the harness's independent verdict: is sig a valid signature by pk over blob under this chain's transaction context?
func verifyRaw(pk signature.PublicKey, chainCtx string, blob, sig []byte) bool {
	if smallOrderKeys[pk] {
		return false // strict verification: a small-order key signs nothing
	}
	h := sha512.New512_256()
	h.Write(rawContext("oasis-core/consensus: tx", chainCtx))
	h.Write(blob)
	return ed25519.Verify(ed25519.PublicKey(pk[:]), h.Sum(nil), sig)
}

// build turns a spec into raw transaction bytes.
func (n *cnNet) buildTx(spec *cnTxSpec, rng *rand.Rand) ([]byte, error) {
	acct, ok := n.account(spec.Signer)
	if !ok {
		return nil, fmt.Errorf("unknown signer %s", spec.Signer)
	}
	var to staking.Address
	if spec.To != "" && spec.Kind != "unfreeze" && spec.Kind != "regruntime" && spec.Kind != "rhcommit" && spec.Kind != "rhevidence" && spec.Kind != "submitmsg" && spec.Kind != "vauth" && spec.Kind != "vcancel" {
		switch spec.To {
		case "POOL":
			to = staking.CommonPoolAddress
		case "FEES":
			to = staking.FeeAccumulatorAddress
		case "GOV":
			to = staking.GovernanceDepositsAddress
		case "RA0", "RA1":
			to = staking.NewRuntimeAddress(runtimeID("R" + spec.To[2:]))
		default:
			if va, ok := n.vaultAddr[spec.To]; ok {
				to = va
				break
			}
			a, ok := n.account(spec.To)
			if !ok {
				return nil, fmt.Errorf("unknown target %s", spec.To)
			}
			to = a.addr
		}
	}
	fee := &transaction.Fee{Amount: qq(spec.Fee), Gas: transaction.Gas(spec.Gas)}
	var tx *transaction.Transaction
	switch spec.Kind {
	case "transfer":
		tx = staking.NewTransferTx(spec.Nonce, fee, &staking.Transfer{To: to, Amount: qq(spec.Amount)})
	case "burn":
		tx = staking.NewBurnTx(spec.Nonce, fee, &staking.Burn{Amount: qq(spec.Amount)})
	case "escrow":
		tx = staking.NewAddEscrowTx(spec.Nonce, fee, &staking.Escrow{Account: to, Amount: qq(spec.Amount)})
	case "reclaim":
		tx = staking.NewReclaimEscrowTx(spec.Nonce, fee, &staking.ReclaimEscrow{Account: to, Shares: qq(spec.Amount)})
	case "allow":
		tx = staking.NewAllowTx(spec.Nonce, fee, &staking.Allow{Beneficiary: to, Negative: spec.Negative, AmountChange: qq(spec.Amount)})
	case "withdraw":
		tx = staking.NewWithdrawTx(spec.Nonce, fee, &staking.Withdraw{From: to, Amount: qq(spec.Amount)})
	case "regnode":
		var idx int
		target := spec.Node
		if target == "" {
			target = spec.Signer
		}
		fmt.Sscanf(target, "N%d", &idx)
		v := n.vals[idx]
		saved := v.rot
		if strings.HasPrefix(spec.Rotate, "steal:") {
			// steal:<role>:<j> : the node claims the key that node j currently uses in that role
			var j int
			parts := strings.Split(spec.Rotate, ":")
			if len(parts) == 3 {
				fmt.Sscanf(parts[2], "N%d", &j)
				cand := map[string]signature.Signer{"p2p": v.rot["p2p"], "vrf": v.rot["vrf"], "tls": v.rot["tls"]}
				cand[parts[1]] = n.vals[j].rot[parts[1]]
				v.rot = cand
				n.pendingRot[spec] = cand
			}
		} else if cand := rotateKeys(v.rot, spec.Rotate, rng); cand != nil {
			v.rot = cand
			n.pendingRot[spec] = cand
		}
		rts := spec.Runtimes
		nd, err := n.nodeDescriptor(idx, uint64(spec.Amount), func(nd *node.Node) {
			if spec.Entity != "" {
				var ei int
				fmt.Sscanf(spec.Entity, "E%d", &ei)
				nd.EntityID = n.vals[ei].ent.ID
			}
			if rts == "" {
				return
			}
			nd.Roles |= node.RoleComputeWorker
			vers := map[string]uint16{}
			for _, kv := range strings.Split(spec.RtVers, ",") {
				var r string
				var v int
				if i := strings.IndexByte(kv, ':'); i > 0 {
					r = kv[:i]
					fmt.Sscanf(kv[i+1:], "%d", &v)
					vers[r] = uint16(v)
				}
			}
			for _, r := range strings.Split(rts, ",") {
				nd.Runtimes = append(nd.Runtimes, &node.Runtime{ID: runtimeID(r), Version: version.Version{Patch: vers[r]}})
			}
			// further entries (a node may list several versions of a runtime; each version once)
			for _, kv := range strings.Split(spec.RtMore, ",") {
				var v int
				if i := strings.IndexByte(kv, ':'); i > 0 {
					fmt.Sscanf(kv[i+1:], "%d", &v)
					nd.Runtimes = append(nd.Runtimes, &node.Runtime{ID: runtimeID(kv[:i]), Version: version.Version{Patch: uint16(v)}})
				}
			}
		})
		if err != nil {
			v.rot = saved
			return nil, err
		}
		sn, err := n.signNode(v, nd, registry.RegisterNodeSignatureContext)
		v.rot = saved
		if err != nil {
			return nil, err
		}
		if spec.Validity == "missingsig" && len(sn.MultiSigned.Signatures) > 1 {
			sn.MultiSigned.Signatures = sn.MultiSigned.Signatures[:len(sn.MultiSigned.Signatures)-1] // TLS key's signature dropped
		}
		tx = registry.NewRegisterNodeTx(spec.Nonce, fee, sn)
	case "regruntime":
		// spec.To names the runtime (R0, R1); the signer is the owning entity
		rt := &registry.Runtime{
			Versioned:       cbor.NewVersioned(registry.LatestRuntimeDescriptorVersion),
			ID:              runtimeID(spec.To),
			EntityID:        acct.signer.Public(), // the signer's own entity (an entity of the genesis or a user-run one)
			Kind:            registry.KindCompute,
			Executor:        registry.ExecutorParameters{GroupSize: 1, GroupBackupSize: 0, AllowedStragglers: 0, RoundTimeout: 3, MaxMessages: 32},
			TxnScheduler:    registry.TxnSchedulerParameters{BatchFlushTimeout: time.Second, MaxBatchSize: 1, MaxBatchSizeBytes: 1024, ProposerTimeout: 5 * time.Second},
			AdmissionPolicy: registry.RuntimeAdmissionPolicy{AnyNode: &registry.AnyNodeRuntimeAdmissionPolicy{}},
			Constraints: map[scheduler.CommitteeKind]map[scheduler.Role]registry.SchedulingConstraints{
				scheduler.KindComputeExecutor: {
					scheduler.RoleWorker:       {MinPoolSize: &registry.MinPoolSizeConstraint{Limit: 1}},
					scheduler.RoleBackupWorker: {MinPoolSize: &registry.MinPoolSizeConstraint{Limit: 0}},
				},
			},
			GovernanceModel: registry.GovernanceEntity,
			Deployments:     []*registry.VersionInfo{{}},
		}
		if spec.Gov == "runtime" {
			rt.GovernanceModel = registry.GovernanceRuntime
		}
		if spec.Entity != "" {
			// ownership transfer: the current owner signs a descriptor that names another entity
			if a, ok := n.account(spec.Entity); ok { // an entity of the genesis or a user account that runs an entity
				rt.EntityID = a.signer.Public()
			}
		}
		if spec.Deps != "" {
			rt.Deployments = nil
			for _, dv := range strings.Split(spec.Deps, ";") {
				var v, from int
				if _, err := fmt.Sscanf(dv, "%d@%d", &v, &from); err != nil {
					return nil, fmt.Errorf("bad deployment %q", dv)
				}
				rt.Deployments = append(rt.Deployments, &registry.VersionInfo{Version: version.Version{Patch: uint16(v)}, ValidFrom: beacon.EpochTime(from)})
			}
		}
		if spec.Shape != "" {
			var g, b, m, p, vs, st int
			if _, err := fmt.Sscanf(spec.Shape, "g%db%dm%dp%dv%ds%d", &g, &b, &m, &p, &vs, &st); err == nil {
				rt.Executor.GroupSize, rt.Executor.GroupBackupSize = uint16(g), uint16(b)
				if st > 0 && st <= g && (b == 0 || st <= b) {
					rt.Executor.AllowedStragglers = uint16(st)
				}
				cons := func(size int) registry.SchedulingConstraints {
					c := registry.SchedulingConstraints{MinPoolSize: &registry.MinPoolSizeConstraint{Limit: uint16(size + p)}}
					if m > 0 {
						c.MaxNodes = &registry.MaxNodesConstraint{Limit: uint16(m)}
					}
					if vs == 1 {
						c.ValidatorSet = &registry.ValidatorSetConstraint{}
					}
					return c
				}
				w, bk := cons(g), cons(b)
				if b == 0 {
					bk = registry.SchedulingConstraints{MinPoolSize: &registry.MinPoolSizeConstraint{Limit: 0}}
				}
				rt.Constraints[scheduler.KindComputeExecutor] = map[scheduler.Role]registry.SchedulingConstraints{
					scheduler.RoleWorker: w, scheduler.RoleBackupWorker: bk,
				}
			}
		}
		if spec.Slash != "" {
			var amt, pe, pb int
			if _, err := fmt.Sscanf(spec.Slash, "%d:%d:%d", &amt, &pe, &pb); err != nil {
				return nil, fmt.Errorf("bad slash spec %q", spec.Slash)
			}
			rt.Staking.Slashing = map[staking.SlashReason]staking.Slash{
				staking.SlashRuntimeIncorrectResults: {Amount: qq(int64(amt))},
				staking.SlashRuntimeEquivocation:     {Amount: qq(int64(amt))},
			}
			rt.Staking.RewardSlashEquvocationRuntimePercent = uint8(pe)
			rt.Staking.RewardSlashBadResultsRuntimePercent = uint8(pb)
		}
		if spec.Live != "" {
			// liveness evaluation at the end of an epoch: "<min live rounds for evaluation>:<min live percent>:<tolerated failures>:<slash amount>"
			var mn, pct, mf, amt int
			if _, err := fmt.Sscanf(spec.Live, "%d:%d:%d:%d", &mn, &pct, &mf, &amt); err != nil {
				return nil, fmt.Errorf("bad liveness spec %q", spec.Live)
			}
			rt.Executor.MinLiveRoundsForEvaluation, rt.Executor.MinLiveRoundsPercent, rt.Executor.MaxLivenessFailures = uint64(mn), uint8(pct), uint8(mf)
			if rt.Staking.Slashing == nil {
				rt.Staking.Slashing = map[staking.SlashReason]staking.Slash{}
			}
			rt.Staking.Slashing[staking.SlashRuntimeLiveness] = staking.Slash{Amount: qq(int64(amt)), FreezeInterval: 1}
		}
		if spec.InMsgs != "" {
			var mx, mf int
			if _, err := fmt.Sscanf(spec.InMsgs, "%d:%d", &mx, &mf); err != nil {
				return nil, fmt.Errorf("bad inmsgs spec %q", spec.InMsgs)
			}
			rt.TxnScheduler.MaxInMessages = uint32(mx)
			rt.Staking.MinInMessageFee = qq(int64(mf))
		}
		rt.Genesis.StateRoot.Empty()
		tx = registry.NewRegisterRuntimeTx(spec.Nonce, fee, rt)
	case "submitmsg":
		// spec.To names the runtime; the tokens and the message fee are moved to the runtime's account, the message is queued
		tx = roothash.NewSubmitMsgTx(spec.Nonce, fee, &roothash.SubmitMsg{ID: runtimeID(spec.To), Tag: uint64(spec.Nonce), Fee: qq(spec.MsgFee), Tokens: qq(spec.Amount), Data: []byte("m")})
	case "rhevidence":
		// equivocation evidence against spec.Node in runtime spec.To for round spec.Amount; spec.Vote names the two commitments:
		// AB (two results), AF (a result and a failure indication), AA (the same commitment twice: no equivocation),
		// XN (commitments of two different nodes: not evidence against one node)
		pair := spec.Vote
		if len(pair) != 2 {
			return nil, fmt.Errorf("bad evidence pair %q", pair)
		}
		nodeB, v1, v2 := spec.Node, string(pair[0]), string(pair[1])
		if pair == "XN" {
			v1, v2 = "A", "B"
			var ni int
			fmt.Sscanf(spec.Node, "N%d", &ni)
			nodeB = fmt.Sprintf("N%d", (ni+1)%len(n.vals))
		}
		ca, err := n.rhCommitment(spec.To, spec.Amount, n.rhPrev[spec.To], spec.Node, spec.Sched, v1)
		if err != nil {
			return nil, err
		}
		cb, err := n.rhCommitment(spec.To, spec.Amount, n.rhPrev[spec.To], nodeB, spec.Sched, v2)
		if err != nil {
			return nil, err
		}
		tx = roothash.NewEvidenceTx(spec.Nonce, fee, &roothash.Evidence{ID: runtimeID(spec.To), EquivocationExecutor: &roothash.EquivocationExecutorEvidence{CommitA: *ca, CommitB: *cb}})
	case "rhcommit":
		// spec.To names the runtime, spec.Node the committing node, spec.Amount the round
		ec, err := n.rhCommitment(spec.To, spec.Amount, n.rhPrev[spec.To], spec.Node, spec.Sched, spec.Vote)
		if err != nil {
			return nil, err
		}
		if spec.Huge {
			// a header that claims an absurd number of processed incoming messages (signed like any other commitment)
			ec.Header.Header.InMessagesCount = 1 << 26
			var nidx int
			fmt.Sscanf(spec.Node, "N%d", &nidx)
			if err = ec.Sign(n.vals[nidx].ident.NodeSigner, runtimeID(spec.To)); err != nil {
				return nil, err
			}
		}
		tx = roothash.NewExecutorCommitTx(spec.Nonce, fee, runtimeID(spec.To), []commitment.ExecutorCommitment{*ec})
	case "propose":
		// spec.Gov selects the content; spec.Amount parameterises it
		var pc governance.ProposalContent
		switch spec.Gov {
		case "gov-deposit":
			dep := qq(100 + spec.Amount%7)
			pc.ChangeParameters = &governance.ChangeParametersProposal{Module: governance.ModuleName,
				Changes: cbor.Marshal(governance.ConsensusParameterChanges{MinProposalDeposit: &dep})}
		case "sched-maxvals":
			mv := 2 + int(spec.Amount%3)
			pc.ChangeParameters = &governance.ChangeParametersProposal{Module: scheduler.ModuleName,
				Changes: cbor.Marshal(scheduler.ConsensusParameterChanges{MaxValidators: &mv})}
		case "staking-mintransfer":
			mt := qq(spec.Amount % 4)
			pc.ChangeParameters = &governance.ChangeParametersProposal{Module: staking.ModuleName,
				Changes: cbor.Marshal(staking.ConsensusParameterChanges{MinTransferAmount: &mt})}
		case "bad-module":
			pc.ChangeParameters = &governance.ChangeParametersProposal{Module: "no-such-module", Changes: cbor.Marshal(map[string]int{"x": 1})}
		case "upgrade":
			// spec.Amount is the upgrade epoch
			pc.Upgrade = &governance.UpgradeProposal{Descriptor: upgrade.Descriptor{Versioned: cbor.NewVersioned(upgrade.LatestDescriptorVersion),
				Handler: upgrade.HandlerName(fmt.Sprintf("verif-upgrade-%d", spec.Amount)), Target: version.Versions, Epoch: beacon.EpochTime(spec.Amount)}}
		case "cancel-upgrade":
			// spec.Amount is the identifier of the proposal whose upgrade is to be cancelled
			pc.CancelUpgrade = &governance.CancelUpgradeProposal{ProposalID: uint64(spec.Amount)}
		case "empty":
			// neither upgrade, cancellation nor parameter change: must fail basic validation
		default:
			return nil, fmt.Errorf("unknown proposal content %s", spec.Gov)
		}
		tx = governance.NewSubmitProposalTx(spec.Nonce, fee, &pc)
	case "vote":
		// spec.Amount is the proposal id, spec.Vote yes | no | abstain
		v := governance.VoteYes
		switch spec.Vote {
		case "no":
			v = governance.VoteNo
		case "abstain":
			v = governance.VoteAbstain
		}
		tx = governance.NewCastVoteTx(spec.Nonce, fee, &governance.ProposalVote{ID: uint64(spec.Amount), Vote: v})
	case "vrfprove":
		// spec.Node proves with its registered VRF key over n.vrfAlpha (or over something else for validity "badpi")
		var idx int
		fmt.Sscanf(spec.Node, "N%d", &idx)
		alpha := n.vrfAlpha
		if spec.Validity == "badpi" {
			alpha = append([]byte("not the alpha"), alpha...)
		}
		if spec.Validity == "stalepi" {
			alpha = n.vrfPrevAlpha
		}
		// (keys that reached the VRF role through a rotation were generated for another role: same key, VRF-capable copy)
		vs, err := vrfCapable(n.vals[idx].rot["vrf"])
		if err != nil {
			return nil, err
		}
		proof, err := signature.Prove(vs, alpha)
		if err != nil {
			return nil, err
		}
		pi, err := proof.Proof.MarshalBinary()
		if err != nil {
			return nil, err
		}
		tx = transaction.NewTransaction(spec.Nonce, fee, beacon.MethodVRFProve, &beacon.VRFProve{Epoch: beacon.EpochTime(spec.Amount), Pi: pi})
	case "vcreate", "vauth", "vcancel":
		var err error
		if tx, err = n.buildVaultTx(spec, fee); err != nil {
			return nil, err
		}
	case "regentity":
		// the descriptor of spec.Entity (an entity of the genesis or a user account that runs an entity) with the node list
		// spec.Nodes, signed by that entity's key - or, for validity "badentsig", by the transaction signer's key
		ea, ok := n.account(spec.Entity)
		if !ok {
			return nil, fmt.Errorf("unknown entity %s", spec.Entity)
		}
		ent := &entity.Entity{Versioned: cbor.NewVersioned(entity.LatestDescriptorVersion), ID: ea.signer.Public()}
		for _, nm := range strings.Split(spec.Nodes, ",") {
			var idx int
			if _, err := fmt.Sscanf(nm, "N%d", &idx); err == nil && idx < len(n.vals) {
				ent.Nodes = append(ent.Nodes, n.vals[idx].ident.NodeSigner.Public())
			}
		}
		es := ea.signer
		if spec.Validity == "badentsig" {
			es = acct.signer
		}
		se, err := entity.SignEntity(es, registry.RegisterEntitySignatureContext, ent)
		if err != nil {
			return nil, err
		}
		tx = registry.NewRegisterEntityTx(spec.Nonce, fee, se)
	case "freshness":
		var blob [32]byte
		blob[0], blob[31] = byte(spec.Amount), byte(spec.Nonce)
		tx = registry.NewProveFreshnessTx(spec.Nonce, fee, blob)
	case "deregentity":
		tx = registry.NewDeregisterEntityTx(spec.Nonce, fee)
	case "unfreeze":
		var idx int
		fmt.Sscanf(spec.To, "N%d", &idx)
		tx = registry.NewUnfreezeNodeTx(spec.Nonce, fee, &registry.UnfreezeNode{NodeID: n.vals[idx].ident.NodeSigner.Public()})
	case "amend":
		tx = staking.NewAmendCommissionScheduleTx(spec.Nonce, fee, &staking.AmendCommissionSchedule{
			Amendment: staking.CommissionSchedule{
				Rates: []staking.CommissionRateStep{{Start: 1000, Rate: qq(spec.Amount % 100_000)}},
			},
		})
	default:
		return nil, fmt.Errorf("unknown tx kind %s", spec.Kind)
	}
	if spec.Validity == "malformed" {
		tx.Body = []byte{0xa1, 0x61, 0x78, 0xff} // CBOR garbage for the method's body type
	}
	blob := cbor.Marshal(tx)
	var sig []byte
	switch spec.Validity {
	case "wrongchain":
		sig = signRaw(acct.signer, rawContext("oasis-core/consensus: tx", "another-chain-context-0000000000000000000000000000000000"), blob)
	case "wrongdomain":
		sig = signRaw(acct.signer, []byte("oasis-core/registry: register entity"), blob)
	default:
		sig = signRaw(acct.signer, rawContext("oasis-core/consensus: tx", n.chainCtx), blob)
	}
	if spec.Validity == "badsig" {
		sig[rng.Intn(len(sig))] ^= 1 << uint(rng.Intn(8))
	}
	var st transaction.SignedTransaction
	st.Blob = blob
	st.Signature.PublicKey = acct.signer.Public()
	copy(st.Signature.Signature[:], sig)
	return cbor.Marshal(st), nil
}

// forgeFrom builds a forgery from an authentic signed transaction: the signer's public key and SIGNATURE are kept, the signed
// body is replaced by another well-formed transaction of the same signer (a transfer with the signer's current nonce, so that
// only the signature check stands between it and execution).  With bitOnly the original body is kept and one bit of it flipped.
func (n *cnNet) forgeFrom(raw []byte, nonce uint64, to string, bitOnly bool, rng *rand.Rand) ([]byte, *cnTxSpec, bool) {
	var st transaction.SignedTransaction
	if err := cbor.Unmarshal(raw, &st); err != nil {
		return nil, nil, false
	}
	var who *cnAccount
	for _, a := range append(n.accounts(), n.nodeAccounts()...) {
		if a.signer.Public().Equal(st.Signature.PublicKey) {
			aa := a
			who = &aa
		}
	}
	toAcct, ok := n.account(to)
	if who == nil || !ok {
		return nil, nil, false
	}
	sp := &cnTxSpec{Kind: "transfer", Signer: who.name, To: to, Amount: 1 + int64(rng.Intn(5)), Nonce: nonce, Gas: 2000, Validity: "forged-sigreuse"}
	if bitOnly {
		blob := append([]byte{}, st.Blob...)
		blob[rng.Intn(len(blob))] ^= 1 << uint(rng.Intn(8))
		st.Blob = blob
		sp.Kind, sp.Validity = "altered", "forged-bitflip"
	} else {
		fee := transaction.Fee{Gas: transaction.Gas(sp.Gas)}
		tx := staking.NewTransferTx(nonce, &fee, &staking.Transfer{To: toAcct.addr, Amount: qq(sp.Amount)})
		st.Blob = cbor.Marshal(tx)
	}
	return cbor.Marshal(st), sp, true
}

// vrfCapable returns a signer with the same key that may produce VRF proofs.
func vrfCapable(sg signature.Signer) (signature.Signer, error) {
	ms, ok := sg.(*memorySigner.Signer)
	if !ok {
		return nil, fmt.Errorf("not a memory signer")
	}
	cp, err := memorySigner.NewFromSeed(ms.UnsafeBytes()[:32])
	if err != nil {
		return nil, err
	}
	cp.(*memorySigner.Signer).UnsafeSetRole(signature.SignerVRF)
	return cp, nil
}

// smallOrderKeys are the encodings of the Ed25519 points of small order (canonical and non-canonical).
var smallOrderKeys = func() map[signature.PublicKey]bool {
	m := map[signature.PublicKey]bool{}
	for _, h := range []string{
		"0100000000000000000000000000000000000000000000000000000000000000",
		"ecffffffffffffffffffffffffffffffffffffffffffffffffffffffffffff7f",
		"0000000000000000000000000000000000000000000000000000000000000000",
		"0000000000000000000000000000000000000000000000000000000000000080",
		"c7176a703d4dd84fba3c0b760d10670f2a2053fa2c39ccc64ec7fd7792ac037a",
		"c7176a703d4dd84fba3c0b760d10670f2a2053fa2c39ccc64ec7fd7792ac03fa",
		"26e8958fc2b227b045c3f489f2ef98f0d5dfac05d3c63339b13802886d53fc05",
		"26e8958fc2b227b045c3f489f2ef98f0d5dfac05d3c63339b13802886d53fc85",
		"0100000000000000000000000000000000000000000000000000000000000080",
		"ecffffffffffffffffffffffffffffffffffffffffffffffffffffffffffffff",
		"eeffffffffffffffffffffffffffffffffffffffffffffffffffffffffffff7f",
		"eeffffffffffffffffffffffffffffffffffffffffffffffffffffffffffffff",
		"edffffffffffffffffffffffffffffffffffffffffffffffffffffffffffff7f",
		"edffffffffffffffffffffffffffffffffffffffffffffffffffffffffffffff",
	} {
		var pk signature.PublicKey
		if pk.UnmarshalHex(h) == nil {
			m[pk] = true
		}
	}
	return m
}()

// smallOrderForgery builds an envelope nobody holds a key for: a small-order public key and the signature (R = identity, S = 0).
func (n *cnNet) smallOrderForgery(rng *rand.Rand) ([]byte, *cnTxSpec, bool) {
	keys := []string{
		"0100000000000000000000000000000000000000000000000000000000000000",
		"ecffffffffffffffffffffffffffffffffffffffffffffffffffffffffffff7f",
		"0000000000000000000000000000000000000000000000000000000000000000",
		"c7176a703d4dd84fba3c0b760d10670f2a2053fa2c39ccc64ec7fd7792ac037a",
		"26e8958fc2b227b045c3f489f2ef98f0d5dfac05d3c63339b13802886d53fc05",
	}
	var st transaction.SignedTransaction
	if st.Signature.PublicKey.UnmarshalHex(keys[rng.Intn(len(keys))]) != nil {
		return nil, nil, false
	}
	st.Signature.Signature[0] = 1 // R = (0, 1), S = 0
	to := n.users[rng.Intn(len(n.users))]
	sp := &cnTxSpec{Kind: "allow", Signer: "nobody", To: to.name, Amount: int64(rng.Intn(3)), Nonce: 0, Gas: 2000, Validity: "forged-smallorder"}
	fee := transaction.Fee{Gas: transaction.Gas(sp.Gas)}
	tx := staking.NewAllowTx(0, &fee, &staking.Allow{Beneficiary: to.addr, AmountChange: qq(sp.Amount)})
	st.Blob = cbor.Marshal(tx)
	return cbor.Marshal(st), sp, true
}

func runtimeID(name string) common.Namespace {
	return common.NewTestNamespaceFromSeed([]byte("verif-runtime-"+name), common.NamespaceTest)
}

// rotateKeys returns the candidate rotatable key set after the requested rotation (nil = unchanged).
func rotateKeys(cur map[string]signature.Signer, how string, rng *rand.Rand) map[string]signature.Signer {
	if how == "" || how == "none" {
		return nil
	}
	fresh := func() signature.Signer {
		s, err := memorySigner.NewFactory().Generate(signature.SignerNode, detRand{rng})
		if err != nil {
			panic(err)
		}
		return s
	}
	out := map[string]signature.Signer{"p2p": cur["p2p"], "vrf": cur["vrf"], "tls": cur["tls"]}
	var a, b string
	switch {
	case len(how) > 6 && how[:6] == "fresh:":
		out[how[6:]] = fresh()
	case len(how) > 5 && how[:5] == "move:":
		// move:<from>><to> : the key of role <from> becomes the key of role <to>, <from> gets a fresh key
		parts := how[5:]
		for i := 0; i < len(parts); i++ {
			if parts[i] == '>' {
				a, b = parts[:i], parts[i+1:]
			}
		}
		out[b] = cur[a]
		out[a] = fresh()
	case len(how) > 5 && how[:5] == "swap:":
		parts := how[5:]
		for i := 0; i < len(parts); i++ {
			if parts[i] == ':' {
				a, b = parts[:i], parts[i+1:]
			}
		}
		out[a], out[b] = cur[b], cur[a]
	}
	return out
}

// mutateBody re-issues an authentic transaction with ONE structural change in its CBOR body - a map entry dropped, a value replaced
// by null / an empty map / an empty array / an empty byte string / a number - correctly signed by the same account with the same
// nonce and fee (anybody can sign whatever body they like): the handlers' own validation stands between it and the state.
func (n *cnNet) mutateBody(raw []byte, rng *rand.Rand) ([]byte, *cnTxSpec, bool) {
	var st transaction.SignedTransaction
	if cbor.Unmarshal(raw, &st) != nil {
		return nil, nil, false
	}
	var tx transaction.Transaction
	if cbor.Unmarshal(st.Blob, &tx) != nil || len(tx.Body) == 0 {
		return nil, nil, false
	}
	var who *cnAccount
	for _, a := range append(n.accounts(), n.nodeAccounts()...) {
		if a.signer.Public().Equal(st.Signature.PublicKey) {
			aa := a
			who = &aa
		}
	}
	if who == nil {
		return nil, nil, false
	}
	var tree any
	if cbor.Unmarshal(tx.Body, &tree) != nil {
		return nil, nil, false
	}
	// collect the positions: every map entry and array element, at any depth
	type pos struct {
		m   map[any]any
		key any
		arr []any
		idx int
	}
	var all []pos
	var walk func(v any)
	walk = func(v any) {
		switch t := v.(type) {
		case map[any]any:
			keys := make([]string, 0, len(t))
			byS := map[string]any{}
			for k := range t {
				ks := fmt.Sprint(k)
				keys = append(keys, ks)
				byS[ks] = k
			}
			sort.Strings(keys)
			for _, ks := range keys {
				all = append(all, pos{m: t, key: byS[ks]})
				walk(t[byS[ks]])
			}
		case []any:
			for i := range t {
				all = append(all, pos{arr: t, idx: i})
				walk(t[i])
			}
		}
	}
	walk(tree)
	if len(all) == 0 {
		return nil, nil, false
	}
	p := all[rng.Intn(len(all))]
	repl := []any{nil, map[any]any{}, []any{}, []byte{}, uint64(0), uint64(1) << 63, "x"}
	what := "drop"
	if p.m != nil && rng.Intn(3) == 0 {
		delete(p.m, p.key)
	} else {
		r := repl[rng.Intn(len(repl))]
		what = fmt.Sprintf("replace:%T", r)
		if p.m != nil {
			p.m[p.key] = r
		} else {
			p.arr[p.idx] = r
		}
	}
	tx.Body = cbor.Marshal(tree)
	blob := cbor.Marshal(&tx)
	sig := signRaw(who.signer, rawContext("oasis-core/consensus: tx", n.chainCtx), blob)
	var out transaction.SignedTransaction
	out.Blob = blob
	out.Signature.PublicKey = who.signer.Public()
	copy(out.Signature.Signature[:], sig)
	fee := int64(0)
	gas := uint64(0)
	if tx.Fee != nil {
		fee, gas = qi(&tx.Fee.Amount), uint64(tx.Fee.Gas)
	}
	return cbor.Marshal(out), &cnTxSpec{Kind: "mutated", Signer: who.name, Gov: string(tx.Method), VAct: what, Nonce: tx.Nonce, Fee: fee, Gas: gas, Validity: "mutbody"}, true
}

// allBodyMutations returns every single structural mutation of an authentic transaction's body (each map entry dropped; each map
// value and array element replaced by null / an empty map / an empty array / an empty byte string / 0 / 2^63 / a text string),
// each correctly signed by the original signer, up to limit.
func (n *cnNet) allBodyMutations(raw []byte, limit int) [][]byte {
	var st transaction.SignedTransaction
	if cbor.Unmarshal(raw, &st) != nil {
		return nil
	}
	var tx transaction.Transaction
	if cbor.Unmarshal(st.Blob, &tx) != nil || len(tx.Body) == 0 {
		return nil
	}
	var who *cnAccount
	for _, a := range append(n.accounts(), n.nodeAccounts()...) {
		if a.signer.Public().Equal(st.Signature.PublicKey) {
			aa := a
			who = &aa
		}
	}
	if who == nil {
		return nil
	}
	body := append([]byte{}, tx.Body...)
	count := func() int {
		var tree any
		if cbor.Unmarshal(body, &tree) != nil {
			return 0
		}
		c := 0
		var walk func(v any)
		walk = func(v any) {
			switch t := v.(type) {
			case map[any]any:
				for _, x := range t {
					c++
					walk(x)
				}
			case []any:
				for _, x := range t {
					c++
					walk(x)
				}
			}
		}
		walk(tree)
		return c
	}()
	repl := []any{"DROP", nil, map[any]any{}, []any{}, []byte{}, uint64(0), uint64(1) << 63, "x"}
	var out [][]byte
	for p := 0; p < count && len(out) < limit; p++ {
		for _, r := range repl {
			var tree any
			if cbor.Unmarshal(body, &tree) != nil {
				return out
			}
			c, done := 0, false
			var walk func(v any)
			walk = func(v any) {
				if done {
					return
				}
				switch t := v.(type) {
				case map[any]any:
					keys := make([]string, 0, len(t))
					byS := map[string]any{}
					for k := range t {
						ks := fmt.Sprint(k)
						keys = append(keys, ks)
						byS[ks] = k
					}
					sort.Strings(keys)
					for _, ks := range keys {
						if done {
							return
						}
						if c == p {
							if r == "DROP" {
								delete(t, byS[ks])
							} else {
								t[byS[ks]] = r
							}
							done = true
							return
						}
						c++
						walk(t[byS[ks]])
					}
				case []any:
					for i := range t {
						if done {
							return
						}
						if c == p {
							if r == "DROP" {
								t[i] = nil
							} else {
								t[i] = r
							}
							done = true
							return
						}
						c++
						walk(t[i])
					}
				}
			}
			walk(tree)
			if !done {
				continue
			}
			tx.Body = cbor.Marshal(tree)
			blob := cbor.Marshal(&tx)
			sig := signRaw(who.signer, rawContext("oasis-core/consensus: tx", n.chainCtx), blob)
			var o transaction.SignedTransaction
			o.Blob = blob
			o.Signature.PublicKey = who.signer.Public()
			copy(o.Signature.Signature[:], sig)
			out = append(out, cbor.Marshal(o))
		}
	}
	return out
}
