package main

// C04: binding of specs/mkvs/MkvsProof.tla to go/storage/mkvs (proof builders behind SyncGet / SyncIterate /
// SyncGetPrefixes, syncer.ProofVerifier, remote-backed trees).
//
// `vh proof-replay` reads the cases TLC emits (contents, query, proof options, abstract mutations, model verdict),
// and for each case
//   - builds the real tree (no database / badger / pathbadger) and obtains the REAL proof,
//   - applies the structural mutation to the real entries (raw byte strings; parsed with node.UnmarshalBinary
//     where a field is changed), in the thorough tier additionally single-byte variants of the touched entry,
//   - calls the real VerifyProof and VerifyProofToWriteLog,
//   - reads through a real mkvs.NewWithRoot(corruptingSyncer, nil, root, Capacity(small, small)),
//   - records what the accepted proof / the remote tree answers next to nothing else: the truth is the contents `m`
//     of the `begin` event; TraceProof.tla (rule only) decides.
// The harness takes no verdict itself; it only counts model/code differences (MODEL-DRIFT material).

import (
	"bytes"
	"context"
	"crypto/sha256"
	"encoding/hex"
	"encoding/json"
	"flag"
	"fmt"
	"os"
	"runtime"
	"runtime/debug"
	"runtime/pprof"
	"sort"
	"strings"
	"sync"
	"sync/atomic"
	"time"

	"github.com/oasisprotocol/oasis-core/go/common/crypto/hash"
	"github.com/oasisprotocol/oasis-core/go/storage/mkvs"
	dbapi "github.com/oasisprotocol/oasis-core/go/storage/mkvs/db/api"
	"github.com/oasisprotocol/oasis-core/go/storage/mkvs/node"
	"github.com/oasisprotocol/oasis-core/go/storage/mkvs/syncer"
)

func init() {
	register("proof-replay", "replay TLC-emitted proof cases (MkvsProof.tla) on real trees, verifiers and remote-backed trees", proofReplay)
}

// ---- case records (emitted by MkvsProof.tla CaseRec) ----

type prEntry struct {
	E string   `json:"e"`
	H *mkShape `json:"h,omitempty"`
	N *mkShape `json:"n,omitempty"`
}

type prMut struct {
	K   string    `json:"k"`
	I   int       `json:"i"`
	J   int       `json:"j"`
	Key bstr      `json:"key"`
	Es  []prEntry `json:"es"`
	B   int       `json:"b"`
}

type prQuery struct {
	Op  string `json:"op"`
	K   bstr   `json:"k"`
	Sib bool   `json:"sib"`
	V   uint16 `json:"v"`
	N   int    `json:"n"`
	Ps  []bstr `json:"ps"`
}

type prAns struct {
	S string `json:"s"` // val | absent | unk
	V bstr   `json:"v"`
}

type prRemotePred struct {
	Pat []string `json:"pat"`
	Res struct {
		Err bool  `json:"err"`
		A   prAns `json:"a"`
	} `json:"res"`
}

type prCase struct {
	M      [][2]bstr      `json:"m"`
	Q      prQuery        `json:"q"`
	Qc     string         `json:"qc"`
	Mut    []prMut        `json:"mut"`
	Acc    bool           `json:"acc"`
	Why    string         `json:"why"`
	N      int            `json:"n"`
	Pv     int            `json:"pv"`
	Det    bool           `json:"det"`
	Hp     []prEntry      `json:"hp"`
	Rp     [][]string     `json:"rp"`
	Remote []prRemotePred `json:"remote"`
}

// ---- recorded outcome (one trace event) ----

type prItems struct {
	Seek     bstr      `json:"seek"`
	Items    [][2]bstr `json:"items"`
	Complete bool      `json:"complete"`
}

type prRead struct {
	Op    string    `json:"op"` // get | iter
	K     bstr      `json:"k"`
	N     int       `json:"n"`
	Err   bool      `json:"err"`
	S     string    `json:"s"`
	V     bstr      `json:"v"`
	Items [][2]bstr `json:"items"`
	Text  string    `json:"-"`
}

type prRemote struct {
	Ev    string   `json:"ev"`
	Tree  int      `json:"tree"`
	ID    int64    `json:"id"`
	Mk    string   `json:"mk"`
	Cm    string   `json:"cm"`
	Pat   string   `json:"pat"`
	Cap   [2]int   `json:"cap"`
	Cls   string   `json:"cls"` // ample (unlimited) | tight (node capacity >= depth of the tree) | tiny (below the depth)
	Depth int      `json:"depth"`
	Hon   bool     `json:"hon"` // no corrupted response was delivered
	Panic bool     `json:"panic"`
	Reads []prRead `json:"reads"`
	Count int      `json:"count"`
}

type prEvent interface {
	strip() (restore func())
	setCount(n int)
	where() (tree int, id int64)
}

func (o *prOutcome) strip() func() {
	id, cm, cnt, et, q := o.ID, o.Cm, o.Count, o.Err, o.Q
	o.Ev, o.ID, o.Cm, o.Count, o.Err = "case", 0, "", 0, ""
	if !o.Honest {
		o.Q = prQuery{} // what a mutant was derived from does not matter to the rule
	}
	return func() { o.ID, o.Cm, o.Count, o.Err, o.Q = id, cm, cnt, et, q }
}
func (o *prOutcome) setCount(n int)      { o.Count = n }
func (o *prOutcome) where() (int, int64) { return o.Tree, o.ID }
func (r *prRemote) strip() func() {
	id, cm, cnt, mk := r.ID, r.Cm, r.Count, r.Mk
	r.Ev, r.ID, r.Cm, r.Count, r.Mk = "remote", 0, "", 0, ""
	return func() { r.ID, r.Cm, r.Count, r.Mk = id, cm, cnt, mk }
}
func (r *prRemote) setCount(n int)      { r.Count = n }
func (r *prRemote) where() (int, int64) { return r.Tree, r.ID }

type prOutcome struct {
	Ev     string      `json:"ev"`
	Tree   int         `json:"tree"`
	ID     int64       `json:"id"`
	Q      prQuery     `json:"q"`
	Honest bool        `json:"honest"`
	Mk     string      `json:"mk"`
	Cm     string      `json:"cm"`
	Pv     int         `json:"pv"`
	Acc    bool        `json:"acc"`
	AccWl  bool        `json:"accwl"`
	Panic  bool        `json:"panic"`
	Err    string      `json:"err"`
	Ans    []prAnsK    `json:"ans"`
	Its    []prItems   `json:"its"`
	Pfx    []prItems   `json:"pfx"`
	Wl     [][2]bstr   `json:"wl"`
	Count  int         `json:"count"`
	Proof  *prConcrete `json:"-"`
}

type prAnsK struct {
	K bstr   `json:"k"`
	S string `json:"s"`
	V bstr   `json:"v"`
}

type prConcrete struct {
	V       uint16   `json:"v"`
	Root    string   `json:"root"`
	Entries []string `json:"entries"` // hex; "nil" for the nil entry
}

// ---- real trees ----

var prBackends = []string{"mem", "badger", "pathbadger"}

type prTree struct {
	id    int
	m     [][2]bstr
	depth int         // internal nodes on the longest path
	root  node.Root   // root of the tree without database (version 0)
	ptr   *node.Pointer // the verified complete tree (from the full-iteration proof)
	roots []node.Root // root per backend (same hash, own version)
	trees []mkvs.Tree
}

func (t *prTree) close() {
	for _, x := range t.trees {
		x.Close()
	}
}

// prSharedDB holds ONE badger and ONE pathbadger node database for the whole run (opening an in-memory badger instance
// costs a 64 MB arena): every distinct contents is written once, as its own version starting from the empty root, and
// finalized; the workers then open their own read-only trees at that root.
type prSharedDB struct {
	mu    sync.Mutex
	ndbs  []dbapi.NodeDB
	built map[string][]node.Root // contents -> root per database
	next  uint64
}

func newPrSharedDB() (*prSharedDB, error) {
	s := &prSharedDB{built: map[string][]node.Root{}}
	for _, be := range prBackends[1:] {
		ndb, err := openNodeDB(be, "")
		if err != nil {
			return nil, err
		}
		s.ndbs = append(s.ndbs, ndb)
	}
	return s, nil
}

func prFill(ctx context.Context, tr mkvs.Tree, m [][2]bstr) error {
	for _, kv := range m {
		v := []byte(kv[1])
		if v == nil {
			v = []byte{}
		}
		if err := tr.Insert(ctx, kv[0], v); err != nil {
			return err
		}
	}
	return nil
}

func (s *prSharedDB) ensure(ctx context.Context, key string, m [][2]bstr) ([]node.Root, error) {
	s.mu.Lock()
	defer s.mu.Unlock()
	if r, ok := s.built[key]; ok {
		return r, nil
	}
	version := s.next
	s.next++
	var roots []node.Root
	for i, ndb := range s.ndbs {
		tr := mkvs.New(nil, ndb, node.RootTypeState)
		if err := prFill(ctx, tr, m); err != nil {
			return nil, err
		}
		_, h, err := tr.Commit(ctx, mkNs, version)
		tr.Close()
		if err != nil {
			return nil, fmt.Errorf("commit on %s: %w", prBackends[1+i], err)
		}
		root := node.Root{Namespace: mkNs, Version: version, Type: node.RootTypeState, Hash: h}
		if err = ndb.Finalize([]node.Root{root}); err != nil {
			return nil, fmt.Errorf("finalize on %s: %w", prBackends[1+i], err)
		}
		roots = append(roots, root)
	}
	s.built[key] = roots
	return roots, nil
}

func prBuildTree(ctx context.Context, m [][2]bstr, id int, key string, db *prSharedDB) (*prTree, error) {
	t := &prTree{id: id, m: m}
	tr := mkvs.New(nil, nil, node.RootTypeState)
	if err := prFill(ctx, tr, m); err != nil {
		return nil, err
	}
	_, h, err := tr.Commit(ctx, mkNs, 0)
	if err != nil {
		return nil, fmt.Errorf("commit: %w", err)
	}
	t.root = node.Root{Namespace: mkNs, Version: 0, Type: node.RootTypeState, Hash: h}
	t.trees = append(t.trees, tr)
	t.roots = append(t.roots, t.root)
	if db != nil {
		roots, err := db.ensure(ctx, key, m)
		if err != nil {
			return nil, err
		}
		for i, r := range roots {
			if !r.Hash.Equal(&h) {
				return nil, fmt.Errorf("backends disagree on the root of %v", m)
			}
			// serve proofs from the database, not from the writer's cache
			t.trees = append(t.trees, mkvs.NewWithRoot(nil, db.ndbs[i], r))
			t.roots = append(t.roots, r)
		}
	}
	// depth of the real tree, from a proof of the full iteration
	full, err := t.request(ctx, 0, &prQuery{Op: "iter", K: bstr{}, N: 65535}, 0)
	if err != nil {
		return nil, err
	}
	var pv syncer.ProofVerifier
	ptr, err := pv.VerifyProof(ctx, t.root.Hash, full)
	if err != nil {
		return nil, err
	}
	t.depth = prDepth(ptr)
	t.ptr = ptr
	return t, nil
}

func prDepth(p *node.Pointer) int {
	if p == nil || p.Node == nil {
		return 0
	}
	if n, ok := p.Node.(*node.InternalNode); ok {
		return 1 + max(prDepth(n.Left), prDepth(n.Right))
	}
	return 0
}

func (t *prTree) request(ctx context.Context, bi int, q *prQuery, v uint16) (*syncer.Proof, error) {
	tid := syncer.TreeID{Root: t.roots[bi], Position: t.root.Hash}
	var rsp *syncer.ProofResponse
	var err error
	switch q.Op {
	case "get":
		rsp, err = t.trees[bi].SyncGet(ctx, &syncer.GetRequest{Tree: tid, Key: q.K, IncludeSiblings: q.Sib, ProofVersion: v})
	case "iter":
		rsp, err = t.trees[bi].SyncIterate(ctx, &syncer.IterateRequest{Tree: tid, Key: q.K, Prefetch: uint16(q.N), ProofVersion: v})
	case "pfx":
		ps := make([][]byte, len(q.Ps))
		for i := range q.Ps {
			ps[i] = q.Ps[i]
		}
		rsp, err = t.trees[bi].SyncGetPrefixes(ctx, &syncer.GetPrefixesRequest{Tree: tid, Prefixes: ps, Limit: uint16(q.N), ProofVersion: v})
	default:
		return nil, fmt.Errorf("unknown query op %q", q.Op)
	}
	if err != nil {
		return nil, err
	}
	return &rsp.Proof, nil
}

// ---- abstract entry -> real bytes ----

const (
	prEntryFull byte = 0x01
	prEntryHash byte = 0x02
)

func prLabel(bits []int) (node.Key, node.Depth) {
	lbl := make(node.Key, (len(bits)+7)/8)
	for i, b := range bits {
		if b == 1 {
			lbl[i/8] |= 0x80 >> (i % 8)
		}
	}
	return lbl, node.Depth(len(bits))
}

func prLeafNode(s *mkShape) *node.LeafNode {
	k, v := []byte(s.K), []byte(s.V)
	if k == nil {
		k = []byte{}
	}
	if v == nil {
		v = []byte{}
	}
	return &node.LeafNode{Clean: true, Key: k, Value: v}
}

func prMarshalInt(lbl node.Key, bl node.Depth, leaf *node.LeafNode) ([]byte, error) {
	in := &node.InternalNode{Clean: true, Label: lbl, LabelBitLength: bl}
	if leaf != nil {
		in.LeafNode = &node.Pointer{Clean: true, Node: leaf}
	}
	return in.CompactMarshalBinaryV0()
}

func prConcretize(e *prEntry) ([]byte, error) {
	switch e.E {
	case "nil":
		return nil, nil
	case "hash":
		h := shapeHash(e.H)
		return append([]byte{prEntryHash}, h[:]...), nil
	case "full":
		if e.N == nil {
			return nil, fmt.Errorf("full entry without node")
		}
		var data []byte
		var err error
		if e.N.T == "leaf" {
			data, err = prLeafNode(e.N).CompactMarshalBinaryV1()
		} else {
			lbl, bl := prLabel(e.N.Lbl)
			var leaf *node.LeafNode
			if e.N.Leaf != nil && e.N.Leaf.T == "leaf" {
				leaf = prLeafNode(e.N.Leaf)
			}
			data, err = prMarshalInt(lbl, bl, leaf)
		}
		if err != nil {
			return nil, err
		}
		return append([]byte{prEntryFull}, data...), nil
	}
	return nil, fmt.Errorf("unknown entry kind %q", e.E)
}

func prConcretizeAll(es []prEntry) ([][]byte, error) {
	out := make([][]byte, len(es))
	for i := range es {
		b, err := prConcretize(&es[i])
		if err != nil {
			return nil, err
		}
		out[i] = b
	}
	return out, nil
}

// ---- structure of a real entry list ----

// prSpan parses the subtree that starts at entry i: index after it and its recomputed hash (real node.UpdateHash).
func prSpan(es [][]byte, i int, v uint16, depth int) (int, hash.Hash, bool) {
	var h hash.Hash
	if i >= len(es) || depth > 200 {
		return i + 1, h, false
	}
	e := es[i]
	if e == nil {
		h.Empty()
		return i + 1, h, true
	}
	if len(e) == 0 {
		return i + 1, h, false
	}
	switch e[0] {
	case prEntryHash:
		if err := h.UnmarshalBinary(e[1:]); err != nil {
			return i + 1, h, false
		}
		return i + 1, h, true
	case prEntryFull:
		n, err := node.UnmarshalBinary(e[1:])
		if err != nil {
			return i + 1, h, false
		}
		nd, ok := n.(*node.InternalNode)
		if !ok {
			return i + 1, n.GetHash(), true
		}
		pos := i + 1
		ptr := func(hh hash.Hash) *node.Pointer {
			if hh.IsEmpty() {
				return nil
			}
			return &node.Pointer{Clean: true, Hash: hh}
		}
		var ch hash.Hash
		var good bool
		if v != 0 {
			if pos, ch, good = prSpan(es, pos, v, depth+1); !good {
				return i + 1, h, false
			}
			nd.LeafNode = ptr(ch)
		}
		if pos, ch, good = prSpan(es, pos, v, depth+1); !good {
			return i + 1, h, false
		}
		nd.Left = ptr(ch)
		if pos, ch, good = prSpan(es, pos, v, depth+1); !good {
			return i + 1, h, false
		}
		nd.Right = ptr(ch)
		nd.UpdateHash()
		return pos, nd.Hash, true
	}
	return i + 1, h, false
}

func prCut(es [][]byte, i, j int, repl [][]byte) [][]byte {
	if j > len(es) {
		j = len(es)
	}
	out := make([][]byte, 0, len(es)+len(repl))
	out = append(out, es[:i]...)
	out = append(out, repl...)
	out = append(out, es[j:]...)
	return out
}

// prEditNode parses a Full entry, lets f edit the node and re-serializes it.
func prEditNode(e []byte, f func(in *node.InternalNode, lf *node.LeafNode) bool) ([]byte, bool) {
	if len(e) < 2 || e[0] != prEntryFull {
		return nil, false
	}
	n, err := node.UnmarshalBinary(e[1:])
	if err != nil {
		return nil, false
	}
	var data []byte
	switch x := n.(type) {
	case *node.LeafNode:
		if !f(nil, x) {
			return nil, false
		}
		data, err = x.CompactMarshalBinaryV1()
	case *node.InternalNode:
		var lf *node.LeafNode
		if x.LeafNode != nil {
			lf, _ = x.LeafNode.Node.(*node.LeafNode)
		}
		if !f(x, lf) {
			return nil, false
		}
		data, err = x.CompactMarshalBinaryV0()
	}
	if err != nil {
		return nil, false
	}
	return append([]byte{prEntryFull}, data...), true
}

type prMutEnv struct {
	otherV func(v uint16) (*syncer.Proof, error) // honest proof of the same query in another version
}

// prApply applies one abstract mutation to a real proof.  Returns a description of what was done and whether the
// mutation was applicable to these entries at all.
func prApply(p *syncer.Proof, mu *prMut, env *prMutEnv) (string, int, bool) {
	es := p.Entries
	n := len(es)
	i := mu.I - 1 // TLA+ indices are 1-based
	inRange := i >= 0 && i < n
	desc := func(f string, a ...any) string { return mu.K + " " + fmt.Sprintf(f, a...) }
	switch mu.K {
	case "drop":
		if !inRange {
			return "", 0, false
		}
		p.Entries = prCut(es, i, i+1, nil)
		return desc("entry %d", i), i, true
	case "dup":
		if !inRange {
			return "", 0, false
		}
		p.Entries = prCut(es, i, i, [][]byte{es[i]})
		return desc("entry %d", i), i, true
	case "swap":
		j := mu.J - 1
		if !inRange || j < 0 || j >= n {
			return "", 0, false
		}
		out := append([][]byte{}, es...)
		out[i], out[j] = out[j], out[i]
		p.Entries = out
		return desc("entries %d,%d", i, j), i, true
	case "tonil":
		if !inRange || es[i] == nil {
			return "", 0, false
		}
		end, _, ok := prSpan(es, i, p.V, 0)
		if !ok {
			end = i + 1
		}
		p.Entries = prCut(es, i, end, [][]byte{nil})
		return desc("entries %d..%d -> nil", i, end-1), i, true
	case "prune", "tohash":
		if !inRange || len(es[i]) == 0 || es[i][0] != prEntryFull {
			return "", 0, false
		}
		end, h, ok := prSpan(es, i, p.V, 0)
		if !ok {
			return "", 0, false
		}
		if mu.K == "tohash" {
			end = i + 1
		}
		p.Entries = prCut(es, i, end, [][]byte{append([]byte{prEntryHash}, h[:]...)})
		return desc("entries %d..%d -> hash %s", i, end-1, h.String()[:8]), i, true
	case "embed":
		// re-encode the internal entry in the non-compact node encoding, with the two child hashes (B=0: the hashes
		// recomputed from the entries that follow; B=1: empty hashes) and, in version 1, the leaf child embedded
		if !inRange || len(es[i]) == 0 || es[i][0] != prEntryFull {
			return "", 0, false
		}
		nn, err := node.UnmarshalBinary(es[i][1:])
		if err != nil {
			return "", 0, false
		}
		in, ok := nn.(*node.InternalNode)
		if !ok || in.Left != nil || in.Right != nil {
			return "", 0, false
		}
		pos := i + 1
		var lh, rh hash.Hash
		good := true
		if p.V != 0 {
			lpos := pos
			if pos, _, good = prSpan(es, pos, p.V, 1); !good {
				return "", 0, false
			}
			if lpos < n && len(es[lpos]) > 1 && es[lpos][0] == prEntryFull {
				if ln, lerr := node.UnmarshalBinary(es[lpos][1:]); lerr == nil {
					if lf, isLeaf := ln.(*node.LeafNode); isLeaf {
						in.LeafNode = &node.Pointer{Clean: true, Hash: lf.Hash, Node: lf}
					}
				}
			}
		}
		if pos, lh, good = prSpan(es, pos, p.V, 1); !good {
			return "", 0, false
		}
		if _, rh, good = prSpan(es, pos, p.V, 1); !good {
			return "", 0, false
		}
		if mu.B != 0 {
			lh.Empty()
			rh.Empty()
		}
		in.Left = &node.Pointer{Clean: true, Hash: lh}
		in.Right = &node.Pointer{Clean: true, Hash: rh}
		data, err := in.MarshalBinary()
		if err != nil {
			return "", 0, false
		}
		out := append([][]byte{}, es...)
		out[i] = append([]byte{prEntryFull}, data...)
		p.Entries = out
		return desc("entry %d non-compact with child hashes %s %s", i, lh.String()[:8], rh.String()[:8]), i, true
	case "nilhash":
		if !inRange || es[i] != nil {
			return "", 0, false
		}
		var h hash.Hash
		h.Empty()
		out := append([][]byte{}, es...)
		out[i] = append([]byte{prEntryHash}, h[:]...)
		p.Entries = out
		return desc("entry %d -> hash(empty)", i), i, true
	case "sethash", "expand", "splice", "extend":
		repl, err := prConcretizeAll(mu.Es)
		if err != nil {
			return "", 0, false
		}
		switch mu.K {
		case "extend":
			p.Entries = prCut(es, n, n, repl)
			return desc("+%d entries", len(repl)), n, true
		case "sethash":
			if !inRange {
				return "", 0, false
			}
			p.Entries = prCut(es, i, i+1, repl)
		case "expand":
			if !inRange || len(es[i]) == 0 || es[i][0] != prEntryHash {
				return "", 0, false
			}
			p.Entries = prCut(es, i, i+1, repl)
		case "splice":
			if !inRange {
				return "", 0, false
			}
			end, _, ok := prSpan(es, i, p.V, 0)
			if !ok {
				end = i + 1
			}
			p.Entries = prCut(es, i, end, repl)
		}
		return desc("at %d: %d entries", i, len(repl)), i, true
	case "chkey", "chval", "fliplbl", "lbllen", "unleaf", "addleaf":
		if !inRange {
			return "", 0, false
		}
		what := ""
		ne, ok := prEditNode(es[i], func(in *node.InternalNode, lf *node.LeafNode) bool {
			switch mu.K {
			case "chkey":
				if lf == nil {
					return false
				}
				what = fmt.Sprintf("key %x -> %x", []byte(lf.Key), []byte(mu.Key))
				lf.Key = append(node.Key{}, mu.Key...)
			case "chval":
				if lf == nil {
					return false
				}
				what = fmt.Sprintf("value %x -> %x", lf.Value, []byte(mu.Key))
				lf.Value = append([]byte{}, mu.Key...)
			case "fliplbl":
				b := mu.B - 1
				if in == nil || b < 0 || b >= int(in.LabelBitLength) {
					return false
				}
				in.Label = in.Label.SetBit(node.Depth(b), !in.Label.GetBit(node.Depth(b)))
				what = fmt.Sprintf("label bit %d", b)
			case "lbllen":
				if in == nil {
					return false
				}
				bl := in.LabelBitLength
				if mu.B < 0 {
					if bl == 0 {
						return false
					}
					pre, _ := in.Label.Split(bl-1, bl)
					in.Label, in.LabelBitLength = pre, bl-1
				} else {
					in.Label, in.LabelBitLength = in.Label.AppendBit(bl, mu.B == 1), bl+1
				}
				what = fmt.Sprintf("label length %d -> %d", bl, in.LabelBitLength)
			case "unleaf":
				if in == nil || lf == nil {
					return false
				}
				in.LeafNode = nil
				what = "embedded leaf removed"
			case "addleaf":
				if in == nil {
					return false
				}
				in.LeafNode = &node.Pointer{Clean: true, Node: &node.LeafNode{Clean: true, Key: append(node.Key{}, mu.Key...), Value: []byte{1}}}
				what = fmt.Sprintf("embedded leaf %x added", []byte(mu.Key))
			}
			return true
		})
		if !ok {
			return "", 0, false
		}
		out := append([][]byte{}, es...)
		out[i] = ne
		p.Entries = out
		return desc("entry %d: %s", i, what), i, true
	case "trunc":
		if mu.I < 0 || mu.I >= n {
			return "", 0, false
		}
		p.Entries = append([][]byte{}, es[:mu.I]...)
		return desc("to %d entries", mu.I), mu.I - 1, true
	case "vflip":
		if p.V > 1 {
			return "", 0, false
		}
		p.V = 1 - p.V
		return desc("to %d", p.V), 0, true
	case "badv":
		p.V = 2
		return desc(""), 0, true
	case "root":
		if len(mu.Es) != 1 {
			return "", 0, false
		}
		p.UntrustedRoot = shapeHash(mu.Es[0].H)
		return desc("-> %s", p.UntrustedRoot.String()[:8]), 0, true
	case "otherv":
		if p.V > 1 {
			return "", 0, false
		}
		if env == nil || env.otherV == nil {
			// the model's payload: the honest proof of the case's query in the other version
			repl, err := prConcretizeAll(mu.Es)
			if err != nil {
				return "", 0, false
			}
			p.V = 1 - p.V
			p.Entries = repl
			return desc("model's honest proof in version %d", p.V), 0, true
		}
		op, err := env.otherV(1 - p.V)
		if err != nil {
			return "", 0, false
		}
		p.V = op.V
		p.Entries = op.Entries
		return desc("honest proof in version %d", p.V), 0, true
	}
	return "", 0, false
}

func prCopyProof(p *syncer.Proof) *syncer.Proof {
	c := &syncer.Proof{V: p.V, UntrustedRoot: p.UntrustedRoot}
	c.Entries = append([][]byte{}, p.Entries...)
	return c
}

func prSameEntries(a, b [][]byte) bool {
	if len(a) != len(b) {
		return false
	}
	for i := range a {
		if (a[i] == nil) != (b[i] == nil) || !bytes.Equal(a[i], b[i]) {
			return false
		}
	}
	return true
}

func prConcreteOf(p *syncer.Proof) *prConcrete {
	c := &prConcrete{V: p.V, Root: p.UntrustedRoot.String()}
	for _, e := range p.Entries {
		if e == nil {
			c.Entries = append(c.Entries, "nil")
		} else {
			c.Entries = append(c.Entries, hex.EncodeToString(e))
		}
	}
	return c
}

// ---- what a reader derives from a verified subtree (same definitions as PLookup / Tokens / IterFold in MkvsProof.tla) ----

func prLookup(p *node.Pointer, depth node.Depth, key node.Key) prAns {
	if p == nil {
		return prAns{S: "absent", V: bstr{}}
	}
	if p.Node == nil {
		if p.Hash.IsEmpty() {
			return prAns{S: "absent", V: bstr{}}
		}
		return prAns{S: "unk", V: bstr{}}
	}
	switch n := p.Node.(type) {
	case *node.LeafNode:
		if bytes.Equal(n.Key, key) {
			return prAns{S: "val", V: append(bstr{}, n.Value...)}
		}
		return prAns{S: "absent", V: bstr{}}
	case *node.InternalNode:
		bl := depth + n.LabelBitLength
		switch {
		case key.BitLength() == bl:
			return prLookup(n.LeafNode, bl, key)
		case key.BitLength() < bl:
			return prAns{S: "absent", V: bstr{}}
		case key.GetBit(bl):
			return prLookup(n.Right, bl, key)
		default:
			return prLookup(n.Left, bl, key)
		}
	}
	return prAns{S: "unk", V: bstr{}}
}

type prTok struct {
	t    byte // 'l' leaf, 'u' unknown subtree, 'k' unknown leaf position
	path []byte
	k, v []byte
}

func prBitsOf(k []byte, n int) []byte {
	out := make([]byte, n)
	for i := 0; i < n; i++ {
		if k[i/8]&(0x80>>(i%8)) != 0 {
			out[i] = 1
		}
	}
	return out
}

func prPack(bits []byte) []byte {
	out := make([]byte, (len(bits)+7)/8)
	for i, b := range bits {
		if b == 1 {
			out[i/8] |= 0x80 >> (i % 8)
		}
	}
	return out
}

func prTokens(p *node.Pointer, base, hint []byte, leafPos bool, out *[]prTok) {
	if p == nil {
		return
	}
	if p.Node == nil {
		if p.Hash.IsEmpty() {
			return
		}
		t := byte('u')
		if leafPos {
			t = 'k'
		}
		*out = append(*out, prTok{t: t, path: append([]byte{}, hint...)})
		return
	}
	switch n := p.Node.(type) {
	case *node.LeafNode:
		*out = append(*out, prTok{t: 'l', k: n.Key, v: n.Value})
	case *node.InternalNode:
		np := append(append([]byte{}, base...), prBitsOf(n.Label, int(n.LabelBitLength))...)
		prTokens(n.LeafNode, np, np, true, out)
		prTokens(n.Left, np, append(append([]byte{}, np...), 0), false, out)
		prTokens(n.Right, np, append(append([]byte{}, np...), 1), false, out)
	}
}

func prAllLess(pb, sb []byte) bool {
	for i := 0; i < len(pb) && i < len(sb); i++ {
		if pb[i] != sb[i] {
			return pb[i] == 0 && sb[i] == 1
		}
	}
	return false
}

func prIter(toks []prTok, seek []byte, n int, usePfx bool) prItems {
	r := prItems{Seek: append(bstr{}, seek...), Items: [][2]bstr{}, Complete: true}
	sb := prBitsOf(seek, 8*len(seek))
	for _, tk := range toks {
		if len(r.Items) >= n {
			return r
		}
		switch tk.t {
		case 'l':
			if bytes.Compare(tk.k, seek) < 0 {
				continue
			}
			if usePfx && !bytes.HasPrefix(tk.k, seek) {
				return r
			}
			r.Items = append(r.Items, [2]bstr{append(bstr{}, tk.k...), append(bstr{}, tk.v...)})
		case 'k':
			if len(tk.path)%8 == 0 && bytes.Compare(prPack(tk.path), seek) < 0 {
				continue
			}
			r.Complete = false
			return r
		default:
			if prAllLess(tk.path, sb) {
				continue
			}
			r.Complete = false
			return r
		}
	}
	return r
}

// ---- untrusted peer ----

type prCorruptSyncer struct {
	honest    syncer.ReadSyncer
	muts      []prMut
	pat       []string
	ver       uint16 // version in which corrupted responses are produced
	calls     int
	delivered bool // a response that differs from the honest one was delivered
}

func (c *prCorruptSyncer) finish(rsp *syncer.ProofResponse, err error, again func(v uint16) (*syncer.ProofResponse, error)) (*syncer.ProofResponse, error) {
	i := c.calls
	c.calls++
	if err != nil || i >= len(c.pat) || c.pat[i] != "c" {
		return rsp, err
	}
	base := rsp
	if c.ver != rsp.Proof.V {
		if r2, err2 := again(c.ver); err2 == nil {
			base = r2
		}
	}
	p := prCopyProof(&base.Proof)
	var env *prMutEnv
	for k := range c.muts {
		prApply(p, &c.muts[k], env)
	}
	if p.V != rsp.Proof.V || !p.UntrustedRoot.Equal(&rsp.Proof.UntrustedRoot) || !prSameEntries(p.Entries, rsp.Proof.Entries) {
		c.delivered = true
	}
	return &syncer.ProofResponse{Proof: *p}, nil
}

func (c *prCorruptSyncer) SyncGet(ctx context.Context, rq *syncer.GetRequest) (*syncer.ProofResponse, error) {
	rsp, err := c.honest.SyncGet(ctx, rq)
	return c.finish(rsp, err, func(v uint16) (*syncer.ProofResponse, error) {
		r := *rq
		r.ProofVersion = v
		return c.honest.SyncGet(ctx, &r)
	})
}

func (c *prCorruptSyncer) SyncGetPrefixes(ctx context.Context, rq *syncer.GetPrefixesRequest) (*syncer.ProofResponse, error) {
	rsp, err := c.honest.SyncGetPrefixes(ctx, rq)
	return c.finish(rsp, err, func(v uint16) (*syncer.ProofResponse, error) {
		r := *rq
		r.ProofVersion = v
		return c.honest.SyncGetPrefixes(ctx, &r)
	})
}

func (c *prCorruptSyncer) SyncIterate(ctx context.Context, rq *syncer.IterateRequest) (*syncer.ProofResponse, error) {
	rsp, err := c.honest.SyncIterate(ctx, rq)
	return c.finish(rsp, err, func(v uint16) (*syncer.ProofResponse, error) {
		r := *rq
		r.ProofVersion = v
		return c.honest.SyncIterate(ctx, &r)
	})
}

var prValueCaps = []int{0, 1, 16, 64}

// prCap picks the cache of a remote-backed tree: class 0 ample (unlimited), 1 tight (node capacity at least the number of
// internal nodes on the longest path of the tree), 2 tiny (fewer).
func prCap(t *prTree, class int, salt int) ([2]int, string) {
	vc := prValueCaps[salt%len(prValueCaps)]
	switch class {
	case 1:
		return [2]int{max(1, t.depth+salt%3), vc}, "tight"
	case 2:
		if t.depth >= 2 {
			return [2]int{1 + salt%(t.depth-1), vc}, "tiny"
		}
		return [2]int{max(1, t.depth+(salt+1)%3), prValueCaps[(salt+1)%len(prValueCaps)]}, "tight"
	}
	return [2]int{0, 0}, "ample"
}

// ---- the replay ----

type prStats struct {
	mu             sync.Mutex
	cases          int64
	honest         int64
	mutants        int64
	byteVariants   int64
	verifications  int64
	remoteReads    int64
	remoteTrees    int64
	accepted       int64 // accepted mutants (structural)
	acceptedBytes  int64
	inapplicable   int64
	builderDrift   int64
	verdictDrift   int64
	shapeDrift     int64
	detDrift       int64
	remoteDrift    int64
	remoteCompared int64
	backendDiffer  int64
	posRequests    int64
	posProblems    []map[string]any
	panics         int64
	byClass        map[string]int64
	byKind         map[string]int64
	byKindAccepted map[string]int64
	byVersion      map[string]int64
	byOp           map[string]int64
	driftSamples   []map[string]any
	verdictByKind  map[string]int64
	sampleCases    []json.RawMessage
	remoteErrTexts map[string]int64
	verifyErrTexts map[string]int64
}

type prRecorder struct {
	mu     sync.Mutex
	seen   map[[32]byte]int // event digest (without id / description / count) -> index into events
	events []prEvent
	counts []int
	raw    map[int64]json.RawMessage
}

func (r *prRecorder) add(o prEvent, raw []byte) {
	restore := o.strip()
	d := sha256.Sum256(mustJSON(o))
	restore()
	r.mu.Lock()
	defer r.mu.Unlock()
	if i, ok := r.seen[d]; ok {
		r.counts[i]++
		return
	}
	r.seen[d] = len(r.events)
	r.events = append(r.events, o)
	r.counts = append(r.counts, 1)
	if raw != nil {
		_, id := o.where()
		if _, ok := r.raw[id]; !ok {
			r.raw[id] = append(json.RawMessage{}, raw...)
		}
	}
}

type prWorker struct {
	ctx      context.Context
	shared   *prTreeIDs
	trees    map[string]*prTree
	db       *prSharedDB
	st       *prStats
	rec      *prRecorder
	thorough bool
	begins   *sync.Map // tree id -> begin line
	probes   [][]byte
	seenByte *sync.Map
}

var prFixedProbes = [][]byte{{}, {0}, {97}, {97, 98}, {97, 98, 0}, {97, 99}, {98}, {128}, {255, 255}}

// prTreeIDs numbers the distinct contents; the real trees themselves are per worker (a tree serialises its callers
// with its own lock, and TLC emits the cases of one tree next to each other), a bounded number per worker.
type prTreeIDs struct {
	mu  sync.Mutex
	ids map[string]int
}

func (c *prTreeIDs) id(key string) int {
	c.mu.Lock()
	defer c.mu.Unlock()
	id, ok := c.ids[key]
	if !ok {
		id = len(c.ids) + 1
		c.ids[key] = id
	}
	return id
}

// Every worker keeps its own tree objects per contents (a tree serialises its callers with its own lock): one without
// a database, and read-only ones over the two shared node databases.
func (w *prWorker) tree(m [][2]bstr) (*prTree, error) {
	key := string(mustJSON(m))
	if t, ok := w.trees[key]; ok {
		return t, nil
	}
	id := w.shared.id(key)
	t, err := prBuildTree(w.ctx, m, id, key, w.db)
	if err != nil {
		return nil, err
	}
	w.trees[key] = t
	w.begins.LoadOrStore(id, string(mustJSON(map[string]any{"ev": "begin", "tree": id, "m": m, "root": t.root.Hash.String()})))
	return t, nil
}

func (w *prWorker) probeKeys(c *prCase) [][]byte {
	seen := map[string]bool{}
	var out [][]byte
	add := func(k []byte) {
		if !seen[string(k)] {
			seen[string(k)] = true
			out = append(out, append([]byte{}, k...))
		}
	}
	add(c.Q.K)
	for _, p := range c.Q.Ps {
		add(p)
	}
	for _, kv := range c.M {
		add(kv[0])
	}
	for i := range c.Mut {
		if c.Mut[i].K == "chkey" || c.Mut[i].K == "addleaf" {
			add(c.Mut[i].Key)
		}
	}
	for _, k := range prFixedProbes {
		add(k)
	}
	return out
}

// evaluate runs the real verifier on a concrete proof and records what an accepted proof answers.
func (w *prWorker) evaluate(t *prTree, c *prCase, p *syncer.Proof, probes [][]byte) *prOutcome {
	o := &prOutcome{Tree: t.id, Q: c.Q, Pv: int(p.V), Ans: []prAnsK{}, Its: []prItems{}, Pfx: []prItems{}, Wl: [][2]bstr{}}
	if o.Q.K == nil {
		o.Q.K = bstr{}
	}
	if o.Q.Ps == nil {
		o.Q.Ps = []bstr{}
	}
	var pv syncer.ProofVerifier
	var ptr *node.Pointer
	var err, errWl error
	var wl [][2]bstr
	if perr := guard(func() {
		ptr, err = pv.VerifyProof(w.ctx, t.root.Hash, p)
		l, e := pv.VerifyProofToWriteLog(w.ctx, t.root.Hash, p)
		errWl = e
		for _, x := range l {
			wl = append(wl, [2]bstr{append(bstr{}, x.Key...), append(bstr{}, x.Value...)})
		}
	}); perr != nil {
		o.Panic = true
		o.Err = strings.SplitN(perr.Error(), "\n", 2)[0]
		atomic.AddInt64(&w.st.panics, 1)
		return o
	}
	atomic.AddInt64(&w.st.verifications, 2)
	o.Acc = err == nil
	o.AccWl = errWl == nil
	if err != nil {
		o.Err = err.Error()
	} else if errWl != nil {
		o.Err = "writelog: " + errWl.Error()
	}
	if o.AccWl && wl != nil {
		o.Wl = wl
	}
	if !o.Acc {
		return o
	}
	if perr := guard(func() {
		for _, k := range probes {
			a := prLookup(ptr, 0, k)
			o.Ans = append(o.Ans, prAnsK{K: append(bstr{}, k...), S: a.S, V: a.V})
		}
		var toks []prTok
		prTokens(ptr, nil, nil, false, &toks)
		for _, k := range probes {
			o.Its = append(o.Its, prIter(toks, k, 1<<30, false))
			o.Pfx = append(o.Pfx, prIter(toks, k, 1<<30, true))
		}
	}); perr != nil {
		// the verified subtree is not walkable: record as a panic of the reader
		o.Panic = true
		o.Err = "walking the verified subtree: " + strings.SplitN(perr.Error(), "\n", 2)[0]
	}
	return o
}

// remote reads the queried data through a real remote-backed tree behind a corrupting peer.
func (w *prWorker) remote(t *prTree, c *prCase, bi int, pat []string, cap [2]int, cls string, probes [][]byte) *prRemote {
	cs := &prCorruptSyncer{honest: t.trees[bi], muts: c.Mut, pat: pat, ver: c.Q.V}
	r := &prRemote{Tree: t.id, Pat: strings.Join(pat, ""), Cap: cap, Cls: cls, Depth: t.depth, Reads: []prRead{}}
	atomic.AddInt64(&w.st.remoteTrees, 1)
	perr := guard(func() {
		rt := mkvs.NewWithRoot(cs, nil, t.roots[bi], mkvs.Capacity(uint64(cap[0]), uint64(cap[1])))
		defer rt.Close()
		get := func(k []byte) {
			v, err := rt.Get(w.ctx, k)
			rd := prRead{Op: "get", K: append(bstr{}, k...), V: bstr{}, Items: [][2]bstr{}}
			switch {
			case err != nil:
				rd.Err, rd.S, rd.Text = true, "unk", err.Error()
			case v == nil:
				rd.S = "absent"
			default:
				rd.S, rd.V = "val", append(bstr{}, v...)
			}
			r.Reads = append(r.Reads, rd)
		}
		iter := func(seek []byte, n int) {
			rd := prRead{Op: "iter", K: append(bstr{}, seek...), N: n + 1, V: bstr{}, Items: [][2]bstr{}}
			it := rt.NewIterator(w.ctx, mkvs.IteratorPrefetch(uint16(n)))
			it.Seek(seek)
			for i := 0; i <= n && it.Valid(); i++ {
				rd.Items = append(rd.Items, [2]bstr{append(bstr{}, it.Key()...), append(bstr{}, it.Value()...)})
				it.Next()
			}
			if err := it.Err(); err != nil {
				rd.Err, rd.Text = true, err.Error()
			}
			it.Close()
			r.Reads = append(r.Reads, rd)
		}
		switch c.Q.Op {
		case "get":
			get(c.Q.K)
		case "iter":
			iter(c.Q.K, c.Q.N)
		case "pfx":
			ps := make([][]byte, len(c.Q.Ps))
			for i := range c.Q.Ps {
				ps[i] = c.Q.Ps[i]
			}
			if err := rt.PrefetchPrefixes(w.ctx, ps, uint16(c.Q.N)); err != nil {
				r.Reads = append(r.Reads, prRead{Op: "prefetch", K: bstr{}, V: bstr{}, Items: [][2]bstr{}, Err: true, S: "unk", Text: err.Error()})
			}
		}
		// further reads on the same remote tree: the sequence of responses continues
		for i, k := range probes {
			if i >= 3 {
				break
			}
			get(k)
		}
		if c.Q.Op != "get" {
			iter([]byte{}, 100)
		}
	})
	if perr != nil {
		r.Panic = true
		atomic.AddInt64(&w.st.panics, 1)
		r.Reads = append(r.Reads, prRead{Op: "panic", K: bstr{}, V: bstr{}, Items: [][2]bstr{}, Err: true, S: "unk", Text: strings.SplitN(perr.Error(), "\n", 2)[0]})
	}
	r.Hon = !cs.delivered
	atomic.AddInt64(&w.st.remoteReads, int64(len(r.Reads)))
	w.st.mu.Lock()
	for _, rd := range r.Reads {
		if rd.Err {
			tx := rd.Text
			if len(tx) > 60 {
				tx = tx[:60]
			}
			w.st.remoteErrTexts[tx]++
		}
	}
	w.st.mu.Unlock()
	return r
}

func (w *prWorker) byteVariants(t *prTree, c *prCase, p *syncer.Proof, idxs []int, probes [][]byte, id int64, raw []byte, full bool) {
	for _, i := range idxs {
		if i < 0 || i >= len(p.Entries) {
			continue
		}
		d := sha256.New()
		fmt.Fprintf(d, "%d|%d|%s|", t.id, p.V, p.UntrustedRoot)
		for _, e := range p.Entries {
			fmt.Fprintf(d, "%x,", e)
		}
		fmt.Fprintf(d, "|%d", i)
		var key [32]byte
		copy(key[:], d.Sum(nil))
		if _, dup := w.seenByte.LoadOrStore(key, true); dup {
			continue
		}
		e := p.Entries[i]
		var pv syncer.ProofVerifier
		try := func(ne []byte, what string) {
			q := prCopyProof(p)
			q.Entries[i] = ne
			// fast path: a variant both verifiers reject (without panicking) satisfies the rule and is only counted
			var e1, e2 error
			if perr := guard(func() {
				_, e1 = pv.VerifyProof(w.ctx, t.root.Hash, q)
				_, e2 = pv.VerifyProofToWriteLog(w.ctx, t.root.Hash, q)
			}); perr == nil && e1 != nil && e2 != nil {
				atomic.AddInt64(&w.st.byteVariants, 1)
				atomic.AddInt64(&w.st.verifications, 2)
				return
			}
			o := w.evaluate(t, c, q, probes)
			atomic.AddInt64(&w.st.byteVariants, 1)
			o.ID, o.Mk, o.Cm, o.Honest, o.Proof = id, "byte", fmt.Sprintf("entry %d %s", i, what), false, prConcreteOf(q)
			if o.Acc {
				atomic.AddInt64(&w.st.acceptedBytes, 1)
			}
			if o.Acc || o.Panic {
				w.rec.add(o, raw)
			}
		}
		if e == nil {
			try([]byte{}, "nil -> empty")
			try([]byte{prEntryHash}, "nil -> bare hash tag")
			try([]byte{prEntryFull}, "nil -> bare full tag")
			try([]byte{0}, "nil -> 00")
			continue
		}
		for b := 0; b < len(e); b++ {
			var vals []byte
			switch {
			case full && b < 4:
				for x := 1; x < 256; x++ {
					vals = append(vals, e[b]^byte(x))
				}
			case full:
				vals = []byte{e[b] ^ 0x01, e[b] ^ 0x80, e[b] ^ 0xff, e[b] + 1}
			default:
				vals = []byte{e[b] ^ 0x01, e[b] ^ 0xff}
			}
			for _, nv := range vals {
				ne := append([]byte{}, e...)
				ne[b] = nv
				try(ne, fmt.Sprintf("byte %d %02x->%02x", b, e[b], nv))
			}
		}
		for l := 0; l < len(e); l++ {
			if full || l >= len(e)-2 || l < 2 {
				try(append([]byte{}, e[:l]...), fmt.Sprintf("cut to %d bytes", l))
			}
		}
		try(append(append([]byte{}, e...), 0), "append 00")
		try(append(append([]byte{}, e...), e...), "doubled")
		try(nil, "-> nil")
	}
}

func (w *prWorker) handle(line []byte, id int64) error {
	var c prCase
	if err := json.Unmarshal(line, &c); err != nil {
		return fmt.Errorf("bad case: %w", err)
	}
	honestCase := len(c.Mut) == 0
	t, err := w.tree(c.M)
	if err != nil {
		return err
	}
	st := w.st
	kind := "none"
	if !honestCase {
		kind = c.Mut[len(c.Mut)-1].K
	}
	// the real proof, from every backend
	var real *syncer.Proof
	var realBi int
	for bi := range t.trees {
		var p *syncer.Proof
		var rerr error
		if perr := guard(func() { p, rerr = t.request(w.ctx, bi, &c.Q, c.Q.V) }); perr != nil {
			rerr = perr
		}
		if rerr != nil {
			// a full replica that cannot produce a proof: completeness is broken; record it as a rejected honest case
			o := &prOutcome{Tree: t.id, ID: id, Q: c.Q, Honest: true, Mk: "none", Cm: "proof request on " + prBackends[bi], Pv: int(c.Q.V),
				Panic: strings.HasPrefix(rerr.Error(), "panic"), Err: rerr.Error(), Ans: []prAnsK{}, Its: []prItems{}, Pfx: []prItems{}, Wl: [][2]bstr{}}
			if len(o.Err) > 300 {
				o.Err = o.Err[:300]
			}
			w.rec.add(o, line)
			return nil
		}
		if real == nil {
			real, realBi = p, bi
		} else if p.V != real.V || !p.UntrustedRoot.Equal(&real.UntrustedRoot) || !prSameEntries(p.Entries, real.Entries) {
			atomic.AddInt64(&st.backendDiffer, 1)
			// evaluate the differing honest proof as well
			o := w.evaluate(t, &c, p, w.probeKeys(&c))
			o.ID, o.Honest, o.Mk, o.Cm, o.Proof = id, true, "none", "honest proof from "+prBackends[bi], prConcreteOf(p)
			w.rec.add(o, line)
		}
	}
	_ = realBi
	bi := int(id % int64(len(t.trees)))
	probes := w.probeKeys(&c)

	if honestCase && c.Q.Op == "get" {
		// the same lookup asked from other positions: the zero hash (a client that does not track its position), the two
		// subtrees below the root (one of them is off the key's path), the root of another tree.  Whatever the position, a
		// proof the tree produces must verify against the root and determine the key (statement of C04, first sentence).
		want := prLookup(t.ptr, 0, node.Key(c.Q.K))
		var positions []hash.Hash
		var zero hash.Hash
		positions = append(positions, zero)
		if t.ptr != nil {
			if in, ok := t.ptr.Node.(*node.InternalNode); ok {
				for _, ch := range []*node.Pointer{in.Left, in.Right, in.LeafNode} {
					if ch != nil {
						positions = append(positions, ch.Hash)
					}
				}
			}
		}
		var foreign hash.Hash
		foreign.FromBytes([]byte("verif: not a node of this tree"))
		positions = append(positions, foreign)
		for _, pos := range positions {
			for bi2 := range t.trees {
				atomic.AddInt64(&st.posRequests, 1)
				tid := syncer.TreeID{Root: t.roots[bi2], Position: pos}
				var rsp *syncer.ProofResponse
				var rerr error
				if perr := guard(func() {
					rsp, rerr = t.trees[bi2].SyncGet(w.ctx, &syncer.GetRequest{Tree: tid, Key: c.Q.K, IncludeSiblings: c.Q.Sib, ProofVersion: c.Q.V})
				}); perr != nil {
					rerr = perr
				}
				problem := ""
				if rerr != nil {
					problem = "request failed: " + rerr.Error()
				} else {
					// a proof is anchored at the requested position when the lookup passes through it (the client trusts that hash
					// from an earlier verified proof), else at the root
					var pv syncer.ProofVerifier
					anchor := rsp.Proof.UntrustedRoot
					switch {
					case anchor.Equal(&t.root.Hash):
						vp, verr := pv.VerifyProof(w.ctx, t.root.Hash, &rsp.Proof)
						if verr != nil {
							problem = "proof does not verify against the root: " + verr.Error()
						} else if got := prLookup(vp, 0, node.Key(c.Q.K)); got.S != want.S || !bytes.Equal(got.V, want.V) {
							problem = fmt.Sprintf("proof verifies against the root but determines %s %x for the key, the tree has %s %x", got.S, []byte(got.V), want.S, []byte(want.V))
						}
					case anchor.Equal(&pos) && !pos.Equal(&zero) && !pos.Equal(&foreign):
						if _, verr := pv.VerifyProof(w.ctx, pos, &rsp.Proof); verr != nil {
							problem = "proof anchored at the requested position does not verify against it: " + verr.Error()
						}
					default:
						problem = "proof is anchored neither at the root nor at the requested position: " + anchor.String()
					}
				}
				if problem != "" {
					st.mu.Lock()
					if len(st.posProblems) < 10 {
						st.posProblems = append(st.posProblems, map[string]any{"m": c.M, "key": c.Q.K, "proof_version": c.Q.V, "siblings": c.Q.Sib,
							"position": pos.String(), "position_is_zero": pos.IsEmpty() || pos == zero, "backend": prBackends[bi2], "problem": problem})
					}
					st.mu.Unlock()
				}
			}
		}
	}
	if honestCase {
		// the model's proof builder against the real one
		want, cerr := prConcretizeAll(c.Hp)
		if cerr != nil || !prSameEntries(want, real.Entries) || int(real.V) != c.Pv {
			atomic.AddInt64(&st.builderDrift, 1)
			st.mu.Lock()
			if len(st.driftSamples) < 10 {
				st.driftSamples = append(st.driftSamples, map[string]any{"what": "builder", "m": c.M, "q": c.Q, "real": prConcreteOf(real), "model_entries": len(want)})
			}
			st.mu.Unlock()
		}
	}

	p := prCopyProof(real)
	env := &prMutEnv{otherV: func(v uint16) (*syncer.Proof, error) { return t.request(w.ctx, bi, &c.Q, v) }}
	var descs []string
	touched := 0
	for k := range c.Mut {
		d, ti, ok := prApply(p, &c.Mut[k], env)
		if !ok {
			atomic.AddInt64(&st.inapplicable, 1)
			st.mu.Lock()
			if len(st.driftSamples) < 10 {
				st.driftSamples = append(st.driftSamples, map[string]any{"what": "mutation not applicable to the real proof", "m": c.M, "q": c.Q, "mut": c.Mut[k].K, "i": c.Mut[k].I, "real": prConcreteOf(real)})
			}
			st.mu.Unlock()
			return nil
		}
		descs = append(descs, d)
		touched = ti
	}
	o := w.evaluate(t, &c, p, probes)
	o.ID, o.Honest, o.Mk, o.Cm, o.Proof = id, honestCase, kind, strings.Join(descs, "; "), prConcreteOf(p)

	// remote-backed trees
	pats := c.Rp
	if honestCase {
		pats = [][]string{{}}
	}
	for pi, pat := range pats {
		for ci := 0; ci < 3; ci++ {
			if !w.thorough && ci > 0 && (int(id)+pi)%2 != ci-1 {
				continue // quick tier: ample plus one of tight / tiny
			}
			cp, cls := prCap(t, ci, int(id/2)+int(id/8)+pi)
			r := w.remote(t, &c, bi, pat, cp, cls, probes)
			r.ID, r.Mk, r.Cm = id, kind, o.Cm
			w.rec.add(r, line)
			// model prediction (ample cache, first read of a get case)
			if ci == 0 && c.Q.Op == "get" && len(r.Reads) > 0 {
				for _, pr := range c.Remote {
					if strings.Join(pr.Pat, "") != r.Pat {
						continue
					}
					atomic.AddInt64(&st.remoteCompared, 1)
					rd := r.Reads[0]
					if rd.Err != pr.Res.Err || (!rd.Err && (rd.S != pr.Res.A.S || !bytes.Equal(rd.V, pr.Res.A.V))) {
						atomic.AddInt64(&st.remoteDrift, 1)
						st.mu.Lock()
						if len(st.driftSamples) < 10 {
							st.driftSamples = append(st.driftSamples, map[string]any{"what": "remote read differs from RemoteGet", "m": c.M, "q": c.Q, "mut": o.Cm, "pat": r.Pat,
								"real": map[string]any{"err": rd.Err, "s": rd.S, "v": rd.V, "text": rd.Text}, "model": pr.Res})
						}
						st.mu.Unlock()
					}
				}
			}
		}
	}

	atomic.AddInt64(&st.cases, 1)
	st.mu.Lock()
	st.byClass[c.Q.Op+":"+c.Qc]++
	st.byKind[kind]++
	st.byVersion[fmt.Sprintf("v%d", c.Q.V)]++
	st.byOp[c.Q.Op]++
	if honestCase {
		st.honest++
	} else {
		st.mutants++
		if o.Acc {
			st.accepted++
			st.byKindAccepted[kind]++
		}
	}
	if len(p.Entries) != c.N || int(p.V) != c.Pv {
		st.shapeDrift++ // the mutation applied to the real entries is not the one the model applied
		if len(st.driftSamples) < 10 {
			st.driftSamples = append(st.driftSamples, map[string]any{"what": "mutated proof shape", "m": c.M, "q": c.Q, "mut": o.Cm, "model_entries": c.N, "model_v": c.Pv, "proof": o.Proof})
		}
	}
	if o.Acc && c.Acc && c.Q.Op == "get" && len(o.Ans) > 0 && (o.Ans[0].S != "unk") != c.Det {
		st.detDrift++ // the real verified subtree determines the queried key, the model's does not (or vice versa)
	}
	if o.Acc != c.Acc {
		st.verdictDrift++
		st.verdictByKind[fmt.Sprintf("%s:model=%v,code=%v", kind, c.Acc, o.Acc)]++
		if len(st.driftSamples) < 10 {
			st.driftSamples = append(st.driftSamples, map[string]any{"what": "verdict", "m": c.M, "q": c.Q, "mut": o.Cm, "model": c.Why, "code_err": o.Err, "proof": o.Proof})
		}
	}
	if !o.Acc {
		tx := o.Err
		if j := strings.Index(tx, "(expected"); j > 0 {
			tx = tx[:j]
		}
		if len(tx) > 70 {
			tx = tx[:70]
		}
		st.verifyErrTexts[tx]++
	}
	if len(st.sampleCases) < 3 && (len(st.sampleCases) == 0 || (!honestCase && o.Acc)) {
		st.sampleCases = append(st.sampleCases, mustJSON(map[string]any{"m": c.M, "q": c.Q, "class": c.Qc, "mutation": o.Cm, "model_accepts": c.Acc, "code_accepts": o.Acc, "code_error": o.Err, "proof": o.Proof}))
	}
	st.mu.Unlock()

	// rejected mutants satisfy the rule trivially as far as the verifier goes; they are recorded for their remote reads
	w.rec.add(o, line)

	if w.thorough {
		if honestCase {
			all := make([]int, len(p.Entries))
			for i := range all {
				all[i] = i
			}
			w.byteVariants(t, &c, p, all, probes, id, line, true)
		} else {
			w.byteVariants(t, &c, p, []int{touched}, probes, id, line, false)
		}
	}
	return nil
}

func proofReplay(args []string) int {
	fs := flag.NewFlagSet("proof-replay", flag.ExitOnError)
	in := fs.String("in", "-", "cases emitted by TLC (MkvsProof.tla)")
	out := fs.String("out", "-", "summary JSON")
	trace := fs.String("trace", "", "ndjson trace for TraceProof.tla")
	tinyTrace := fs.String("tiny", "", "ndjson trace of the remote reads with node caches smaller than the depth of the tree")
	side := fs.String("cases", "", "ndjson side file: id, raw case and concrete proof of every recorded event")
	thorough := fs.Bool("thorough", false, "byte-level variants and all cache sizes")
	prof := fs.String("cpuprofile", "", "write a CPU profile")
	firstID := fs.Int64("firstid", 1, "id of the first case (cache sizes and backends rotate with the id; used by --replay)")
	fs.Parse(args)
	debug.SetMemoryLimit(12 << 30)
	if *prof != "" {
		pf, perr := os.Create(*prof)
		if perr == nil {
			pprof.StartCPUProfile(pf)
			defer pprof.StopCPUProfile()
		}
	}
	r, err := openIn(*in)
	if err != nil {
		fmt.Fprintln(os.Stderr, err)
		return 2
	}
	defer r.Close()
	st := &prStats{byClass: map[string]int64{}, byKind: map[string]int64{}, byKindAccepted: map[string]int64{}, byVersion: map[string]int64{},
		byOp: map[string]int64{}, verdictByKind: map[string]int64{}, remoteErrTexts: map[string]int64{}, verifyErrTexts: map[string]int64{}}
	rec := &prRecorder{seen: map[[32]byte]int{}, raw: map[int64]json.RawMessage{}}
	var begins, seenByte sync.Map
	shared := &prTreeIDs{ids: map[string]int{}}
	sdb, err := newPrSharedDB()
	if err != nil {
		fmt.Fprintln(os.Stderr, err)
		return 2
	}
	type job struct {
		line []byte
		id   int64
	}
	jobs := make(chan job, 512)
	var wg sync.WaitGroup
	var bad atomic.Bool
	var progress atomic.Int64
	var current sync.Map
	for wk := 0; wk < runtime.NumCPU(); wk++ {
		wg.Add(1)
		go func(wk int) {
			defer wg.Done()
			w := &prWorker{ctx: context.Background(), shared: shared, trees: map[string]*prTree{}, db: sdb, st: st, rec: rec,
				thorough: *thorough, begins: &begins, seenByte: &seenByte}
			for j := range jobs {
				current.Store(wk, j.line)
				if err := w.handle(j.line, j.id); err != nil {
					fmt.Fprintf(os.Stderr, "case %d: %v\n", j.id, err)
					bad.Store(true)
				}
				progress.Add(1)
			}
			for _, t := range w.trees {
				t.close()
			}
		}(wk)
	}
	// watchdog: a reader that never returns is an infrastructure failure of this run, with the case printed
	done := make(chan struct{})
	go func() {
		last, stuck := int64(-1), 0
		for {
			select {
			case <-done:
				return
			case <-time.After(10 * time.Second):
			}
			cur := progress.Load()
			if cur == last && len(jobs) > 0 {
				stuck++
			} else {
				stuck = 0
			}
			last = cur
			if stuck >= 12 {
				current.Range(func(k, v any) bool {
					b := v.([]byte)
					if len(b) > 600 {
						b = b[:600]
					}
					fmt.Fprintf(os.Stderr, "stuck worker %v on case %s\n", k, b)
					return true
				})
				os.Exit(3)
			}
		}
	}()
	sc := lineReader(r)
	id := *firstID - 1
	for sc.Scan() {
		line := sc.Bytes()
		if len(line) == 0 || line[0] != '{' {
			continue
		}
		id++
		jobs <- job{append([]byte{}, line...), id}
	}
	close(jobs)
	wg.Wait()
	close(done)
	if bad.Load() || sc.Err() != nil {
		return 2
	}
	// trace: begin(tree) followed by the distinct outcomes observed on that tree
	byTree := map[int][]prEvent{}
	for i, o := range rec.events {
		o.setCount(rec.counts[i])
		tr, _ := o.where()
		byTree[tr] = append(byTree[tr], o)
	}
	ids := make([]int, 0, len(byTree))
	for t := range byTree {
		ids = append(ids, t)
	}
	sort.Ints(ids)
	nEvents, nTiny := 0, 0
	if *trace != "" {
		tw, err := os.Create(*trace)
		if err != nil {
			return 2
		}
		var sw *os.File
		if *side != "" {
			if sw, err = os.Create(*side); err != nil {
				return 2
			}
		}
		var tt *os.File
		if *tinyTrace != "" {
			if tt, err = os.Create(*tinyTrace); err != nil {
				return 2
			}
			defer tt.Close()
		}
		for _, t := range ids {
			b, _ := begins.Load(t)
			fmt.Fprintln(tw, b.(string))
			evs := byTree[t]
			if tt != nil {
				first := true
				rest := evs[:0:0]
				for _, o := range evs {
					if r, ok := o.(*prRemote); ok && r.Cls == "tiny" {
						if first {
							fmt.Fprintln(tt, b.(string))
							first = false
						}
						tt.Write(mustJSON(o))
						tt.Write([]byte("\n"))
						nTiny++
						if sw != nil {
							fmt.Fprintf(sw, "{\"id\":%d,\"rec\":%s}\n", r.ID, mustJSON(map[string]any{"id": r.ID, "tree": t, "case": rec.raw[r.ID]}))
						}
						continue
					}
					rest = append(rest, o)
				}
				evs = rest
			}
			sort.SliceStable(evs, func(i, j int) bool { _, a := evs[i].where(); _, b := evs[j].where(); return a < b })
			for _, o := range evs {
				tw.Write(mustJSON(o))
				tw.Write([]byte("\n"))
				nEvents++
				if sw != nil {
					_, oid := o.where()
					rec := map[string]any{"id": oid, "tree": t, "case": rec.raw[oid]}
					if oc, ok := o.(*prOutcome); ok {
						rec["mk"], rec["cm"], rec["proof"] = oc.Mk, oc.Cm, oc.Proof
					}
					fmt.Fprintf(sw, "{\"id\":%d,\"rec\":%s}\n", oid, mustJSON(rec))
				}
			}
		}
		tw.Close()
		if sw != nil {
			sw.Close()
		}
	}
	w, err := openOut(*out)
	if err != nil {
		return 2
	}
	defer w.Close()
	w.Write(mustJSON(map[string]any{
		"cases": st.cases, "honest": st.honest, "mutants": st.mutants, "byte_variants": st.byteVariants, "verifications": st.verifications,
		"remote_trees": st.remoteTrees, "remote_reads": st.remoteReads, "accepted_mutants": st.accepted, "accepted_byte_variants": st.acceptedBytes,
		"inapplicable": st.inapplicable, "builder_drift": st.builderDrift, "verdict_drift": st.verdictDrift, "verdict_drift_by_kind": st.verdictByKind,
		"shape_drift": st.shapeDrift, "determined_drift": st.detDrift,
		"remote_drift": st.remoteDrift, "remote_compared": st.remoteCompared, "backend_differ": st.backendDiffer, "panics": st.panics,
		"position_requests": st.posRequests, "position_problems": st.posProblems,
		"by_class": st.byClass, "by_kind": st.byKind, "by_kind_accepted": st.byKindAccepted, "by_version": st.byVersion, "by_op": st.byOp,
		"trees": len(shared.ids), "events": nEvents, "tiny_events": nTiny, "drift_samples": st.driftSamples, "samples": st.sampleCases,
		"remote_error_texts": st.remoteErrTexts, "verify_error_texts": st.verifyErrTexts, "backends": prBackends,
	}))
	return 0
}
