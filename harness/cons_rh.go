package main

// Runtime rounds through the real roothash application (C11 at the application level): executor commitments are submitted
// as consensus transactions by committee members (and by others), the round state of every runtime is projected after
// BeginBlock and after EndBlock, and TLC judges every emitted runtime block with the declarative rule (TraceRoothash.tla).

import (
	"bytes"
	"context"
	"fmt"
	"os"
	"sort"
	"time"

	cmtabci "github.com/cometbft/cometbft/abci/types"

	"github.com/oasisprotocol/oasis-core/go/common/cbor"
	"github.com/oasisprotocol/oasis-core/go/common/crypto/hash"
	beaconState "github.com/oasisprotocol/oasis-core/go/consensus/cometbft/apps/beacon/state"
	roothashState "github.com/oasisprotocol/oasis-core/go/consensus/cometbft/apps/roothash/state"
	roothash "github.com/oasisprotocol/oasis-core/go/roothash/api"
	"github.com/oasisprotocol/oasis-core/go/roothash/api/block"
	"github.com/oasisprotocol/oasis-core/go/roothash/api/commitment"
	"github.com/oasisprotocol/oasis-core/go/roothash/api/message"
	scheduler "github.com/oasisprotocol/oasis-core/go/scheduler/api"
	staking "github.com/oasisprotocol/oasis-core/go/staking/api"
	"github.com/oasisprotocol/oasis-core/go/storage/mkvs"
)

// rhView is the round state of one runtime as the roothash application stores it.
type rhView struct {
	RT        string   `json:"rt"`
	Round     int64    `json:"round"`
	HType     string   `json:"htype"`
	SRoot     string   `json:"sroot"`
	Suspended bool     `json:"suspended"`
	HasComm   bool     `json:"has_committee"`
	W         []string `json:"w"` // primary workers in committee order
	B         []string `json:"b"` // backup workers in committee order
	S         int64    `json:"s"` // allowed stragglers
	Disc      bool     `json:"disc"`
	HasPool   bool     `json:"has_pool"`
	Rank      int64    `json:"rank"`         // highest (best) scheduler rank committed so far, -1 none
	NextTO    int64    `json:"next_timeout"` // -1 = never
	NCommits  int64    `json:"ncommits"`     // commitments in the pool
	RoundTO   int64    `json:"round_timeout"`
	prevHash  hash.Hash
}

func headerTypeName(t block.HeaderType) string {
	switch t {
	case block.Normal:
		return "normal"
	case block.RoundFailed:
		return "failed"
	case block.EpochTransition:
		return "epoch"
	case block.Suspended:
		return "suspended"
	}
	return fmt.Sprintf("type%d", t)
}

// rhViews projects the roothash state of the scenario's runtimes (sorted by name).
func (n *cnNet) rhViews(ctx context.Context, t mkvs.ImmutableKeyValueTree, names []string) []*rhView {
	st := roothashState.NewImmutableState(t)
	var out []*rhView
	for _, name := range names {
		rs, err := st.RuntimeState(ctx, runtimeID(name))
		if err != nil || rs == nil || rs.LastBlock == nil {
			continue
		}
		v := &rhView{RT: name, Round: int64(rs.LastBlock.Header.Round), HType: headerTypeName(rs.LastBlock.Header.HeaderType),
			SRoot: rs.LastBlock.Header.StateRoot.String()[:16], Suspended: rs.Suspended, HasComm: rs.Committee != nil,
			W: []string{}, B: []string{}, Rank: -1, NextTO: -1, prevHash: rs.LastBlock.Header.EncodedHash()}
		if rs.Runtime != nil {
			v.S = int64(rs.Runtime.Executor.AllowedStragglers)
			v.RoundTO = rs.Runtime.Executor.RoundTimeout
		}
		if rs.Committee != nil {
			for _, m := range rs.Committee.Members {
				switch m.Role {
				case scheduler.RoleWorker:
					v.W = append(v.W, n.keyName(m.PublicKey.String()))
				case scheduler.RoleBackupWorker:
					v.B = append(v.B, n.keyName(m.PublicKey.String()))
				}
			}
		}
		if p := rs.CommitmentPool; p != nil {
			v.HasPool = true
			v.Disc = p.Discrepancy
			if p.HighestRank != ^uint64(0) && len(p.SchedulerCommitments) > 0 {
				v.Rank = int64(p.HighestRank)
			}
			for _, sc := range p.SchedulerCommitments {
				v.NCommits += int64(len(sc.Votes))
			}
		}
		if rs.NextTimeout != roothash.TimeoutNever {
			v.NextTO = rs.NextTimeout
		}
		out = append(out, v)
	}
	return out
}

// rhVoteRoot is the state root a vote label stands for in a round of a runtime ("F" has none).
func rhVoteRoot(rt string, round int64, vote string) hash.Hash {
	return hash.NewFromBytes([]byte(fmt.Sprintf("state|%s|%d|%s", rt, round, vote)))
}

// rhMessages: the messages a runtime emits with the result `vote` of a round - a function of (runtime, round, result) so that all
// commitments for one result agree.  Every third result emits one or two messages that act on the runtime's own staking account
// (funded by the tokens of incoming messages): transfers and escrows within and above its balance, reclaims of what it never
// delegated, withdrawals it has no allowance for.  A message that fails leaves the round alone.
func (n *cnNet) rhMessages(rt string, round int64, vote string) []message.Message {
	if n.noRtMsgs {
		return nil
	}
	h := hash.NewFromBytes([]byte(fmt.Sprintf("msgs|%d|%s|%d|%s", n.cfg.Seed, rt, round, vote)))
	if h[0]%3 != 0 {
		return nil
	}
	accts := n.accounts()
	pick := func(b byte) staking.Address { return accts[int(b)%len(accts)].addr }
	one := func(k, a, amt byte) message.Message {
		v := cbor.NewVersioned(0)
		switch k % 5 {
		case 0, 1:
			return message.Message{Staking: &message.StakingMessage{Versioned: v, Transfer: &staking.Transfer{To: pick(a), Amount: qq(int64(amt % 9))}}}
		case 2:
			return message.Message{Staking: &message.StakingMessage{Versioned: v, AddEscrow: &staking.Escrow{Account: pick(a), Amount: qq(int64(5 + amt%4))}}}
		case 3:
			return message.Message{Staking: &message.StakingMessage{Versioned: v, ReclaimEscrow: &staking.ReclaimEscrow{Account: pick(a), Shares: qq(int64(1 + amt%3))}}}
		default:
			return message.Message{Staking: &message.StakingMessage{Versioned: v, Withdraw: &staking.Withdraw{From: pick(a), Amount: qq(int64(1 + amt%3))}}}
		}
	}
	msgs := []message.Message{one(h[1], h[2], h[3])}
	if h[4]%2 == 0 {
		msgs = append(msgs, one(h[5], h[6], h[7]))
	}
	return msgs
}

// rhCommitment builds and signs one executor commitment.
func (n *cnNet) rhCommitment(rt string, round int64, prev hash.Hash, node, sched, vote string) (*commitment.ExecutorCommitment, error) {
	var ni, si int
	if _, err := fmt.Sscanf(node, "N%d", &ni); err != nil || ni >= len(n.vals) {
		return nil, fmt.Errorf("bad node %s", node)
	}
	if _, err := fmt.Sscanf(sched, "N%d", &si); err != nil || si >= len(n.vals) {
		return nil, fmt.Errorf("bad scheduler %s", sched)
	}
	signer := n.vals[ni].ident.NodeSigner
	ec := &commitment.ExecutorCommitment{NodeID: signer.Public()}
	ec.Header.SchedulerID = n.vals[si].ident.NodeSigner.Public()
	ec.Header.Header.Round = uint64(round)
	ec.Header.Header.PreviousHash = prev
	if vote == "F" {
		ec.Header.SetFailure(commitment.FailureUnknown)
	} else {
		io := hash.NewFromBytes([]byte(fmt.Sprintf("io|%s|%d|%s", rt, round, vote)))
		st := rhVoteRoot(rt, round, vote)
		var mh, imh hash.Hash
		mh.Empty()
		imh.Empty()
		ec.Header.Header.IORoot = &io
		ec.Header.Header.StateRoot = &st
		ec.Header.Header.MessagesHash = &mh
		ec.Header.Header.InMessagesHash = &imh
		if msgs := n.rhMessages(rt, round, vote); len(msgs) > 0 {
			// messages emitted by the runtime in this round: every commitment for this result carries their hash, the scheduler's
			// own commitment carries the messages
			mh = message.MessagesHash(msgs)
			if ni == si {
				ec.Messages = msgs
				n.statRtMsgs += len(msgs)
			}
		}
	}
	if err := ec.Sign(signer, runtimeID(rt)); err != nil {
		return nil, err
	}
	return ec, nil
}

// rhDiscrepancyEvents returns the runtimes for which the block's events announce a detected discrepancy.
func rhDiscrepancyEvents(n *cnNet, evs []cmtabci.Event) []string {
	var out []string
	for _, ev := range evs {
		var disc bool
		var rt string
		for _, a := range ev.Attributes {
			switch a.Key {
			case "execution_discrepancy":
				disc = true
			case "runtime_id":
				var attr roothash.RuntimeIDAttribute
				if attr.DecodeValue(a.Value) == nil {
					rt = n.runtimeName(attr.ID)
				}
			}
		}
		if disc && rt != "" {
			out = append(out, rt)
		}
	}
	sort.Strings(out)
	return out
}

// genCommits proposes executor commitments for this block from the round state observed at the end of the previous block.
func (d *cnDriver) genCommits(nonceBump map[string]uint64) []cnTxMeta {
	n := d.net
	var metas []cnTxMeta
	for _, v := range d.lastRh {
		if v.Suspended || !v.HasComm || len(v.W) == 0 {
			if d.rng.Intn(6) == 0 { // a commitment for a runtime without a committee / a suspended one: must fail
				node := fmt.Sprintf("N%d", d.rng.Intn(len(n.vals)))
				metas = append(metas, d.rhTx(v, node, node, "A", "nocommittee", nonceBump)...)
			}
			continue
		}
		round := v.Round + 1
		if q, ok := d.rhQuiet[v.RT]; ok {
			if q == round {
				continue // the round was left to its timer (see the ladder below)
			}
			delete(d.rhQuiet, v.RT)
		}
		if d.rng.Intn(10) < 3 {
			continue // nothing for this runtime in this block (timeouts get their chance)
		}
		nw := int64(len(v.W))
		sched0 := v.W[(nw-round%nw)%nw] // the worker of rank 0 in this round (scheduler.Committee.SchedulerIdx)
		if v.NCommits == 0 && nw >= 2 && d.rng.Intn(6) == 0 {
			// ladder: in ONE block the own commitments of schedulers of improving rank (worst first), each of which re-arms the
			// round timer - the later ones to the height it already has; afterwards the round is left to that timer
			ranked := make([]string, nw) // ranked[k] = the worker of rank k
			for k := int64(0); k < nw; k++ {
				ranked[k] = v.W[(k+(nw-round%nw)%nw)%nw]
			}
			from := 1 + d.rng.Intn(int(nw)-1)
			for k := from; k >= 0; k-- {
				if k > 0 && k < from && d.rng.Intn(2) == 0 {
					continue
				}
				metas = append(metas, d.rhTx(v, ranked[k], ranked[k], "A", "ok", nonceBump)...)
			}
			if d.rng.Intn(4) > 0 {
				d.rhQuiet[v.RT] = round
			}
			continue
		}
		members := append(append([]string{}, v.W...), v.B...)
		k := 1 + d.rng.Intn(3)
		for i := 0; i < k; i++ {
			var node string
			switch x := d.rng.Intn(12); {
			case x == 0: // somebody who is not on the committee
				node = fmt.Sprintf("N%d", d.rng.Intn(len(n.vals)))
			case v.Disc && len(v.B) > 0 && x < 10:
				node = v.B[d.rng.Intn(len(v.B))]
			case v.NCommits == 0 && i == 0 && x < 9:
				node = sched0 // the scheduler's own commitment opens the round
			default:
				node = members[d.rng.Intn(len(members))]
			}
			sched := sched0
			if d.rng.Intn(7) == 0 {
				sched = v.W[d.rng.Intn(len(v.W))] // a proposal of a lower-priority scheduler (or the same one)
				if d.rng.Intn(2) == 0 && v.NCommits == 0 {
					node = sched
				}
			}
			vote := "A"
			switch x := d.rng.Intn(20); {
			case x < 3:
				vote = "B"
			case x < 5:
				vote = "F"
			}
			validity := "ok"
			if d.rng.Intn(25) == 0 {
				validity = "staleround" // a commitment for another round: must fail
			}
			metas = append(metas, d.rhTx(v, node, sched, vote, validity, nonceBump)...)
		}
	}
	return metas
}

// genEvidence submits equivocation evidence against committee members (and other nodes): two signed executor commitments of one
// node for one round that differ.  The runtime's own slashing parameters decide whether anything is slashed; the slashed funds
// are shared between the runtime's account, the submitter (or its entity) and the common pool.
func (d *cnDriver) genEvidence(nonceBump map[string]uint64) []cnTxMeta {
	n := d.net
	var metas []cnTxMeta
	for _, v := range d.lastRh {
		if d.rng.Intn(8) != 0 || len(v.W) == 0 {
			continue
		}
		members := append(append([]string{}, v.W...), v.B...)
		node := members[d.rng.Intn(len(members))]
		if d.rng.Intn(6) == 0 {
			node = fmt.Sprintf("N%d", d.rng.Intn(len(n.vals)))
		}
		if node == "N1" {
			continue // documented precondition of C10: entity 1 stays stake-eligible (its node is not slashed by the scenario)
		}
		round := v.Round + 1
		switch d.rng.Intn(6) {
		case 0:
			round = v.Round
		case 1:
			round = max(0, v.Round-int64(d.rng.Intn(12))) // possibly older than the maximum evidence age
		}
		pair, validity := []string{"AB", "AB", "AF", "AA", "XN"}[d.rng.Intn(5)], "ok"
		if pair == "AA" || pair == "XN" {
			validity = "noevidence"
		}
		accts := append(n.accounts(), n.nodeAccounts()...)
		who := accts[d.rng.Intn(len(accts))].name
		sp := &cnTxSpec{Kind: "rhevidence", Signer: who, To: v.RT, Node: node, Sched: v.W[d.rng.Intn(len(v.W))], Vote: pair, Amount: round,
			Nonce: uint64(d.acctField(who, "n")) + nonceBump[who], Fee: int64(d.rng.Intn(2)), Gas: 6000, Validity: validity}
		n.rhPrev[v.RT] = v.prevHash
		raw, err := n.buildTx(sp, d.rng)
		if err != nil {
			continue
		}
		nonceBump[who]++
		metas = append(metas, cnTxMeta{sp, raw})
		if d.rng.Intn(4) == 0 { // the same evidence again (another submitter): a duplicate
			who2 := accts[d.rng.Intn(len(accts))].name
			sp2 := *sp
			sp2.Signer, sp2.Nonce = who2, uint64(d.acctField(who2, "n"))+nonceBump[who2]
			if raw2, err := n.buildTx(&sp2, d.rng); err == nil {
				nonceBump[who2]++
				metas = append(metas, cnTxMeta{&sp2, raw2})
			}
		}
	}
	return metas
}

func (d *cnDriver) rhTx(v *rhView, node, sched, vote, validity string, nonceBump map[string]uint64) []cnTxMeta {
	n := d.net
	round := v.Round + 1
	prev := v.prevHash
	if validity == "staleround" {
		round = v.Round
	}
	signerName := node // the node's own account submits (any account may)
	sp := &cnTxSpec{Kind: "rhcommit", Signer: signerName, To: v.RT, Node: node, Sched: sched, Vote: vote, Amount: round,
		Nonce: uint64(d.acctField(signerName, "n")) + nonceBump[signerName], Gas: 2000, Validity: validity}
	if vote != "F" {
		sp.VRoot = rhVoteRoot(v.RT, round, vote).String()[:16]
		if len(v.W) == 1 && len(v.B) == 0 && validity == "ok" && d.rng.Intn(2) == 0 {
			sp.Huge = true // the only worker of its committee: whatever it commits to is what gets finalized
			d.hugeInBlock = true
		}
	}
	n.rhPrev[v.RT] = prev
	raw, err := n.buildTx(sp, d.rng)
	if err != nil {
		return nil
	}
	nonceBump[signerName]++
	return []cnTxMeta{{sp, raw}}
}

// ---- VRF beacon backend: proof submission ----

type vrfView struct {
	epoch       int64
	epochHeight int64
	submitAfter int64
	alpha       []byte
	have        map[string]bool // nodes whose proof for this alpha is recorded
	ok          bool
}

func (n *cnNet) vrfViewOf(ctx context.Context, t mkvs.ImmutableKeyValueTree) vrfView {
	bs := beaconState.NewImmutableState(t)
	v := vrfView{have: map[string]bool{}}
	ep, eh, err := bs.GetEpoch(ctx)
	if err != nil {
		return v
	}
	v.epoch, v.epochHeight = int64(ep), eh
	vs, err := bs.VRFState(ctx)
	if err != nil || vs == nil {
		return v
	}
	v.ok, v.alpha, v.submitAfter = true, vs.Alpha, vs.SubmitAfter
	for id := range vs.Pi {
		v.have[n.keyName(id.String())] = true
	}
	return v
}

// genProofs lets registered nodes submit their VRF proof for the running epoch's alpha (some skip, some are early, some prove
// the wrong thing or for the wrong epoch, and somebody who runs no node tries as well).
func (d *cnDriver) genProofs(h int64, nonceBump map[string]uint64) []cnTxMeta {
	n := d.net
	if !d.vrf.ok {
		return nil
	}
	if !bytes.Equal(n.vrfAlpha, d.vrf.alpha) {
		n.vrfPrevAlpha = n.vrfAlpha
	}
	n.vrfAlpha = d.vrf.alpha
	var metas []cnTxMeta
	add := func(signer, node, validity string, epoch int64) {
		sp := &cnTxSpec{Kind: "vrfprove", Signer: signer, Node: node, Amount: epoch, Gas: 2000, Validity: validity,
			Nonce: uint64(d.acctField(signer, "n")) + nonceBump[signer]}
		if raw, err := n.buildTx(sp, d.rng); err == nil {
			nonceBump[signer]++
			metas = append(metas, cnTxMeta{sp, raw})
		} else if os.Getenv("VERIF_DEBUG") != "" {
			fmt.Fprintln(os.Stderr, "vrfprove build:", node, err)
		}
	}
	// every fifth epoch or so is a lazy one: most nodes - whichever, the always-eligible validator included - do not prove, so that
	// the proofs on record may all come from nodes that are not eligible validators (frozen, lapsed, under-staked)
	lazy := hash.NewFromBytes([]byte(fmt.Sprintf("lazy|%d|%d", n.cfg.Seed, d.vrf.epoch)))[0]%5 == 0
	for i, v := range n.vals {
		if d.vrf.have[v.name] && d.rng.Intn(10) != 0 {
			continue // (now and then a node proves twice: same proof, accepted without effect)
		}
		early := h <= d.vrf.submitAfter
		if n.cfg.ComputeOnly > 0 && i < n.cfg.Validators && i != 1 && hash.NewFromBytes([]byte(fmt.Sprintf("sit|%d|%d|%d", n.cfg.Seed, d.vrf.epoch, i)))[0]%3 == 0 {
			continue // with compute-only nodes around, a validator sits every third epoch out entirely: its entity may then have a
			// proving compute node and no electable validator
		}
		if lazy {
			// ... while a node whose registration has lapsed (still on record, not electable) is eager to prove
			isLapsed := false
			if nodes, ok := d.lastReg["nodes"].([]map[string]any); ok {
				for _, x := range nodes {
					if exp, _ := x["exp"].(int64); x["id"] == v.name && exp < d.vrf.epoch {
						isLapsed = true
					}
				}
			}
			if !isLapsed && d.rng.Intn(10) < 9 {
				continue
			}
			if isLapsed && !early {
				add(v.name, v.name, "ok", d.vrf.epoch)
				continue
			}
		}
		switch x := d.rng.Intn(20); {
		case early && x > 1:
			continue
		case x == 0 && i != 1:
			continue // this node sits the block out
		case x == 2:
			add(v.name, v.name, "badpi", d.vrf.epoch)
		case x == 3:
			add(v.name, v.name, "wrongepoch", d.vrf.epoch+1)
		case x == 4 && len(n.vrfPrevAlpha) > 0:
			// the proof of the previous epoch once more, declared for the current one: every replica verified these very bytes
			// an epoch ago (a replica restarted since then did not)
			add(v.name, v.name, "stalepi", d.vrf.epoch)
		case early:
			add(v.name, v.name, "premature", d.vrf.epoch)
		default:
			add(v.name, v.name, "ok", d.vrf.epoch)
		}
	}
	if d.rng.Intn(10) == 0 {
		u := n.users[d.rng.Intn(len(n.users))]
		add(u.name, n.vals[0].name, "notanode", d.vrf.epoch)
	}
	return metas
}

// ---- state sync: a new replica joins from a snapshot served by another replica, then catches up ----

type cnLogged struct {
	b      cnBlock
	valset map[int]int64
	app    string
}

// stateSync restores a fresh replica from the newest snapshot a source replica offers (chunks in the order of `order`,
// optionally with a corrupted copy of a chunk first and a duplicate), replays the blocks since then and compares application
// hashes with the observer's.  Returns the event to record (nil if the source offers no usable snapshot yet).
func (d *cnDriver) stateSync(h int64, src *cnReplica, backend, order string) map[string]any {
	n := d.net
	var snap *cmtabci.Snapshot
	for try := 0; try < 40 && snap == nil; try++ {
		for _, s := range src.mux.ListSnapshots(cmtabci.RequestListSnapshots{}).Snapshots {
			if lg, ok := d.blockLog[int64(s.Height)]; ok && lg.app != "" && (snap == nil || s.Height > snap.Height) {
				snap = s
			}
		}
		if snap == nil {
			time.Sleep(10 * time.Millisecond)
		}
	}
	if snap == nil {
		return nil
	}
	ev := map[string]any{"ev": "statesync", "h": h, "snapshot": int64(snap.Height), "chunks": int64(snap.Chunks), "source": src.name,
		"source_backend": src.cfg.Backend, "backend": backend, "order": order}
	d.nSync++
	tgt, err := n.newReplica(fmt.Sprintf("sync%d", d.nSync), cnReplicaCfg{Backend: backend, OnDisk: true, Identity: 0, NoInit: true})
	if err != nil {
		ev["problem"] = "target: " + err.Error()
		return ev
	}
	defer func() {
		tgt.stop()
		os.RemoveAll(tgt.dir)
	}()
	var appHash hash.Hash
	if err = appHash.UnmarshalHex(d.blockLog[int64(snap.Height)].app); err != nil {
		ev["problem"] = "app hash: " + err.Error()
		return ev
	}
	var results []string
	perr := guard(func() {
		off := tgt.mux.OfferSnapshot(cmtabci.RequestOfferSnapshot{Snapshot: snap, AppHash: appHash[:]})
		ev["offer"] = off.Result.String()
		if off.Result != cmtabci.ResponseOfferSnapshot_ACCEPT {
			return
		}
		idx := make([]uint32, snap.Chunks)
		for i := range idx {
			idx[i] = uint32(i)
		}
		switch order {
		case "reverse":
			for i, j := 0, len(idx)-1; i < j; i, j = i+1, j-1 {
				idx[i], idx[j] = idx[j], idx[i]
			}
		case "shuffle":
			d.rng.Shuffle(len(idx), func(i, j int) { idx[i], idx[j] = idx[j], idx[i] })
		}
		for k, i := range idx {
			chunk := src.mux.LoadSnapshotChunk(cmtabci.RequestLoadSnapshotChunk{Height: snap.Height, Format: snap.Format, Chunk: i}).Chunk
			if order == "corrupt-first" && k == 0 && len(chunk) > 0 {
				bad := append([]byte{}, chunk...)
				bad[len(bad)/2] ^= 0x40
				r := tgt.mux.ApplySnapshotChunk(cmtabci.RequestApplySnapshotChunk{Index: i, Chunk: bad, Sender: "corruptor"})
				results = append(results, "corrupt:"+r.Result.String())
			}
			r := tgt.mux.ApplySnapshotChunk(cmtabci.RequestApplySnapshotChunk{Index: i, Chunk: chunk, Sender: src.name})
			results = append(results, r.Result.String())
			if order == "duplicates" && k+1 < len(idx) {
				r2 := tgt.mux.ApplySnapshotChunk(cmtabci.RequestApplySnapshotChunk{Index: i, Chunk: chunk, Sender: src.name})
				results = append(results, "dup:"+r2.Result.String())
			}
		}
	})
	ev["results"] = results
	if perr != nil {
		ev["panic"] = perr.Error()[:min(len(perr.Error()), 1500)]
		return ev
	}
	info := tgt.mux.Info(cmtabci.RequestInfo{})
	ev["restored_height"] = info.LastBlockHeight
	ev["restored_app_ok"] = fmt.Sprintf("%x", info.LastBlockAppHash) == d.blockLog[int64(snap.Height)].app
	// catch up: the blocks decided since the snapshot
	agree, first := true, int64(0)
	for hh := int64(snap.Height) + 1; hh <= h && agree; hh++ {
		lg, ok := d.blockLog[hh]
		if !ok {
			break
		}
		res := tgt.finalize(&lg.b, lg.valset)
		if res.Panic != "" {
			ev["panic"] = res.Panic[:min(len(res.Panic), 1500)]
			agree, first = false, hh
		} else if lg.app != "" && res.AppHash != lg.app {
			agree, first = false, hh
		}
		ev["caught_up_to"] = hh
	}
	ev["agree"] = agree
	if !agree {
		ev["first_difference"] = first
	}
	return ev
}
