package main

// C06 / C07: binding of specs/mkvs/NodeDB.tla to the badger and pathbadger node databases.

import (
	"bytes"
	"context"
	"encoding/json"
	"flag"
	"fmt"
	"os"
	"runtime"
	"sort"
	"strings"
	"sync"
	"sync/atomic"

	"github.com/dgraph-io/badger/v4"
	"github.com/dgraph-io/badger/v4/options"

	"github.com/oasisprotocol/oasis-core/go/storage/mkvs"
	dbapi "github.com/oasisprotocol/oasis-core/go/storage/mkvs/db/api"
	"github.com/oasisprotocol/oasis-core/go/storage/mkvs/node"
)

func init() {
	register("nodedb-replay", "replay NodeDB.tla version histories on badger and pathbadger with full read-back after every step", nodedbReplay)
}

type ndWrite struct {
	K   bstr `json:"k"`
	Del bool `json:"del"`
	V   bstr `json:"v"`
}

type ndRootID struct {
	V  uint64    `json:"v"`
	Ty string    `json:"ty"`
	C  [][2]bstr `json:"c"`
}

func (r ndRootID) key() string { return string(mustJSON(r)) }

type ndOp struct {
	A      string     `json:"a"`
	V      uint64     `json:"v"`
	Ty     string     `json:"ty,omitempty"`
	Parent string     `json:"parent,omitempty"`
	PC     [][2]bstr  `json:"pc,omitempty"`
	Writes []ndWrite  `json:"writes,omitempty"`
	C      [][2]bstr  `json:"c,omitempty"`
	Chosen []ndRootID `json:"chosen,omitempty"`
}

type ndExpect struct {
	Latest    int64      `json:"latest"`
	Earliest  uint64     `json:"earliest"`
	Finalized []ndRootID `json:"finalized"`
	Pending   []ndRootID `json:"pending"`
	Gone      []ndRootID `json:"gone"`
}

type ndStep struct {
	Op     ndOp     `json:"op"`
	Expect ndExpect `json:"expect"`
}

type ndBehaviour struct {
	Steps []ndStep `json:"steps"`
	Crash *struct {
		Backend string `json:"backend"`
		Point   string `json:"point"`
		Step    int    `json:"step"`
	} `json:"crash,omitempty"`
}

func ndType(s string) node.RootType {
	if s == "io" {
		return node.RootTypeIO
	}
	return node.RootTypeState
}

// ndRun drives one real database along a behaviour.
type ndRun struct {
	backend     string
	ndb         dbapi.NodeDB
	ctx         context.Context
	roots       map[string]node.Root // root id -> real root
	extraListed int
	noisy       bool // batches also carry net no-ops (see ndNoise)
	// reuse: a batch built on a root that this run committed itself continues on the SAME tree object (as the consensus
	// state tree does from block to block) instead of a tree re-opened from the database
	reuse bool
	live  map[string]mkvs.Tree
}

// ndNoise adds operations without net effect to a batch built on a parent root: remove + re-insert of an unchanged key,
// overwrite with a temporary value and back, insert + remove of a key outside the model's universe.  The contents the
// batch commits are unchanged; what the databases record about the batch (updated-node indices, write logs) is not.
func (r *ndRun) ndNoise(t mkvs.Tree, op *ndOp) error {
	after := map[string]string{}
	for _, p := range op.C {
		after[string(p[0])] = string(p[1])
	}
	form := int(op.V) + len(op.Writes)
	for _, p := range op.PC {
		if v, ok := after[string(p[0])]; !ok || v != string(p[1]) {
			continue // the batch changes this key itself
		}
		val := []byte(p[1])
		if val == nil {
			val = []byte{}
		}
		switch form % 3 {
		case 0:
			if err := t.Remove(r.ctx, p[0]); err != nil {
				return err
			}
			if err := t.Insert(r.ctx, p[0], val); err != nil {
				return err
			}
		case 1:
			if err := t.Insert(r.ctx, p[0], []byte("tmp-value")); err != nil {
				return err
			}
			if err := t.Insert(r.ctx, p[0], val); err != nil {
				return err
			}
		case 2: // the value it already has, written again
			if err := t.Insert(r.ctx, p[0], val); err != nil {
				return err
			}
		}
		form++
	}
	phantom := []byte{0xee, 0x01}
	if err := t.Insert(r.ctx, phantom, []byte{1}); err != nil {
		return err
	}
	return t.Remove(r.ctx, phantom)
}

type ndFail struct {
	Kind string    `json:"kind"`
	Msg  string    `json:"msg"`
	Root *ndRootID `json:"root,omitempty"` // the root the failure is about (unreadable kinds)
}

func ndFailf(kind, f string, a ...any) *ndFail { return &ndFail{Kind: kind, Msg: fmt.Sprintf(f, a...)} }

func (r *ndRun) applyOp(op *ndOp) *ndFail {
	switch op.A {
	case "commit":
		var t mkvs.Tree
		if op.Parent == "empty" {
			t = mkvs.New(nil, r.ndb, ndType(op.Ty))
		} else {
			pv := op.V
			if op.Parent == "prev" {
				pv = op.V - 1
			}
			pr, ok := r.roots[ndRootID{pv, op.Ty, op.PC}.key()]
			if !ok {
				return ndFailf("harness", "unknown parent root %v", op.PC)
			}
			pk := ndRootID{pv, op.Ty, op.PC}.key()
			if lt := r.live[pk]; r.reuse && lt != nil {
				t = lt
				delete(r.live, pk)
			} else {
				t = mkvs.NewWithRoot(nil, r.ndb, pr)
			}
		}
		keep := false
		defer func() {
			if !keep {
				t.Close()
			}
		}()
		if r.noisy && op.Parent != "empty" {
			if err := r.ndNoise(t, op); err != nil {
				return ndFailf("error", "no-op writes on candidate: %v", err)
			}
		}
		for _, w := range op.Writes {
			var err error
			if w.Del {
				err = t.Remove(r.ctx, w.K)
			} else {
				v := []byte(w.V)
				if v == nil {
					v = []byte{}
				}
				err = t.Insert(r.ctx, w.K, v)
			}
			if err != nil {
				return ndFailf("error", "write on candidate: %v", err)
			}
		}
		_, h, err := t.Commit(r.ctx, mkNs, op.V)
		if err != nil {
			return ndFailf("error", "Commit(v=%d,%s,parent=%s): %v", op.V, op.Ty, op.Parent, err)
		}
		r.roots[ndRootID{op.V, op.Ty, op.C}.key()] = node.Root{Namespace: mkNs, Version: op.V, Type: ndType(op.Ty), Hash: h}
		if r.reuse {
			nk := ndRootID{op.V, op.Ty, op.C}.key()
			if old := r.live[nk]; old != nil {
				old.Close()
			}
			r.live[nk], keep = t, true
		}
	case "finalize":
		var rs []node.Root
		for _, c := range op.Chosen {
			rr, ok := r.roots[c.key()]
			if !ok {
				return ndFailf("harness", "unknown chosen root")
			}
			rs = append(rs, rr)
		}
		if err := r.ndb.Finalize(rs); err != nil {
			return ndFailf("error", "Finalize(v=%d): %v", op.V, err)
		}
	case "prune":
		if err := r.ndb.Prune(op.V); err != nil {
			return ndFailf("error", "Prune(%d): %v", op.V, err)
		}
	default:
		return ndFailf("harness", "unknown op %s", op.A)
	}
	return nil
}

// readBack returns "" if the root reads back exactly as contents c.
func ndReadBack(ctx context.Context, ndb dbapi.NodeDB, root node.Root, c [][2]bstr) string {
	t := mkvs.NewWithRoot(nil, ndb, root)
	defer t.Close()
	it := t.NewIterator(ctx)
	defer it.Close()
	i := 0
	for it.Rewind(); it.Valid(); it.Next() {
		if i >= len(c) || !bytes.Equal(it.Key(), c[i][0]) || !bytes.Equal(it.Value(), c[i][1]) {
			return fmt.Sprintf("item %d = (%x,%x) not in expected contents %v", i, []byte(it.Key()), it.Value(), c)
		}
		i++
	}
	if err := it.Err(); err != nil {
		return "iteration error: " + err.Error()
	}
	if i != len(c) {
		return fmt.Sprintf("%d items, expected %d", i, len(c))
	}
	for _, p := range c {
		v, err := t.Get(ctx, p[0])
		if err != nil || !bytes.Equal(v, p[1]) {
			return fmt.Sprintf("Get(%x) = %x, %v", []byte(p[0]), v, err)
		}
	}
	return ""
}

func (r *ndRun) check(e *ndExpect) *ndFail {
	lv, ok := r.ndb.GetLatestVersion()
	if (e.Latest >= 0) != ok || (ok && int64(lv) != e.Latest) {
		return ndFailf("latest", "GetLatestVersion = (%d,%v), model %d", lv, ok, e.Latest)
	}
	if ev := r.ndb.GetEarliestVersion(); ev != e.Earliest && e.Latest >= 0 {
		return ndFailf("earliest", "GetEarliestVersion = %d, model %d", ev, e.Earliest)
	}
	// roots per version
	byV := map[uint64]map[string]bool{}
	for _, lst := range [][]ndRootID{e.Finalized, e.Pending} {
		for _, id := range lst {
			rr, ok := r.roots[id.key()]
			if !ok {
				return ndFailf("harness", "expected root never committed: %v", id)
			}
			if byV[id.V] == nil {
				byV[id.V] = map[string]bool{}
			}
			byV[id.V][fmt.Sprintf("%s:%s", rr.Type, rr.Hash)] = true
		}
	}
	for v, want := range byV {
		got, err := r.ndb.GetRootsForVersion(v)
		if err != nil {
			return ndFailf("roots", "GetRootsForVersion(%d): %v", v, err)
		}
		gs := map[string]bool{}
		for _, g := range got {
			gs[fmt.Sprintf("%s:%s", g.Type, g.Hash)] = true
		}
		// the implicit empty root may or may not be listed; ignore it on both sides
		for k := range gs {
			if strings.HasSuffix(k, ":c672b8d1ef56ed28ab87c3622c5114069bdd3ad7b8f9737498d0c01ecef0967a") {
				delete(gs, k)
			}
		}
		ws := map[string]bool{}
		for k := range want {
			if !strings.HasSuffix(k, ":c672b8d1ef56ed28ab87c3622c5114069bdd3ad7b8f9737498d0c01ecef0967a") {
				ws[k] = true
			}
		}
		for k := range ws {
			if !gs[k] {
				return ndFailf("roots", "GetRootsForVersion(%d) = %v lacks a root of the model %v", v, keysOf(gs), keysOf(ws))
			}
		}
		// A listed root that the model does not expect must be a discarded candidate: it is then "claimed present"
		// and R2 requires it to read back exactly (checked below through HasRoot); anything else is alien.
		for k := range gs {
			if ws[k] {
				continue
			}
			known := false
			for _, rr := range r.roots {
				if rr.Version == v && fmt.Sprintf("%s:%s", rr.Type, rr.Hash) == k {
					known = true
				}
			}
			if !known {
				return ndFailf("roots", "GetRootsForVersion(%d) lists an unknown root %s", v, k)
			}
			r.extraListed++
		}
	}
	// R1: finalized retained roots fully readable; pending candidates as well
	for _, id := range e.Finalized {
		rr := r.roots[id.key()]
		if !rr.Hash.IsEmpty() && !r.ndb.HasRoot(rr) {
			return ndFailf("finalized-missing", "HasRoot false for finalized root v=%d %s %v", id.V, id.Ty, id.C)
		}
		if msg := ndReadBack(r.ctx, r.ndb, rr, id.C); msg != "" {
			f := ndFailf("finalized-unreadable", "finalized root v=%d %s %v: %s", id.V, id.Ty, id.C, msg)
			f.Root = &ndRootID{id.V, id.Ty, id.C}
			return f
		}
	}
	for _, id := range e.Pending {
		rr := r.roots[id.key()]
		if msg := ndReadBack(r.ctx, r.ndb, rr, id.C); msg != "" {
			f := ndFailf("pending-unreadable", "pending root v=%d %s %v: %s", id.V, id.Ty, id.C, msg)
			f.Root = &ndRootID{id.V, id.Ty, id.C}
			return f
		}
	}
	// R2: a discarded candidate is absent or reads exactly its own contents
	for _, id := range e.Gone {
		rr := r.roots[id.key()]
		if rr.Hash.IsEmpty() {
			continue
		}
		// A discarded candidate with the same hash as a finalized root of that version is that root.
		same := false
		for _, f := range e.Finalized {
			if fr := r.roots[f.key()]; fr.Version == rr.Version && fr.Type == rr.Type && fr.Hash.Equal(&rr.Hash) {
				same = true
			}
		}
		if same || !r.ndb.HasRoot(rr) {
			continue
		}
		if msg := ndReadBack(r.ctx, r.ndb, rr, id.C); msg != "" {
			return ndFailf("gone-wrong", "discarded root v=%d %s %v is claimed present but: %s", id.V, id.Ty, id.C, msg)
		}
	}
	return nil
}

func firstWords(s string) string {
	if i := strings.Index(s, ": "); i >= 0 {
		s = s[i+2:]
	}
	if len(s) > 60 {
		s = s[:60]
	}
	return s
}

func keysOf(m map[string]bool) []string {
	out := make([]string, 0, len(m))
	for k := range m {
		out = append(out, k[:min(len(k), 28)])
	}
	sort.Strings(out)
	return out
}

func ndAccepts(b *ndBehaviour, backend string) bool {
	if backend != "pathbadger" {
		return true
	}
	for i := range b.Steps {
		op := &b.Steps[i].Op
		if op.A == "commit" && (op.Parent == "same" || (op.Ty == "io" && op.Parent != "empty")) {
			return false // documented restrictions of pathbadger: no same-version chains, IO roots have no children
		}
	}
	return true
}

type ndMismatch struct {
	Origin   string   `json:"chain_origin"` // where the same-version chain of the unreadable root starts: "" (no chain) | empty | prev
	SharedKV bool     `json:"shares_kv_with_other_root"`
	Backend  string   `json:"backend"`
	Step     int      `json:"step"`
	Fail     *ndFail  `json:"fail"`
	Steps    []ndStep `json:"steps"`
	Shape    string   `json:"shape"`
	Noisy    bool     `json:"noisy_batches"`
	Reuse    bool     `json:"long_lived_trees"`
	Restart  bool     `json:"restarts_and_compaction"`
}

// ndOrigin follows the same-version parents of the root a failure is about back to the root the chain was started from: a
// finalized root of the previous version ("prev": the chain's roots inherit nodes written by an earlier version) or the empty
// tree ("empty": every node of every root of the chain was written in this version).  "" when the root is not part of a chain.
func ndOrigin(b *ndBehaviour, upto int, root *ndRootID) string {
	if root == nil {
		return ""
	}
	o := ndOriginOf(b, upto, root)
	if o != "" {
		return o
	}
	// The root is not part of a chain itself.  Damage done by the finalization of an earlier chain (a node deleted at that
	// version's timestamp) also shows in later roots that inherit the node, so the history's chains are named instead.
	seenPrev, seenEmpty := false, false
	for i := 0; i <= upto && i < len(b.Steps); i++ {
		op := &b.Steps[i].Op
		if op.A == "commit" && op.Parent == "same" {
			switch ndOriginOf(b, upto, &ndRootID{op.V, op.Ty, op.C}) {
			case "prev":
				seenPrev = true
			case "empty":
				seenEmpty = true
			}
		}
	}
	switch {
	case seenPrev:
		return "hist-prev"
	case seenEmpty:
		return "hist-empty"
	}
	return ""
}

func ndOriginOf(b *ndBehaviour, upto int, root *ndRootID) string {
	inChain := false
	cur := mustJSON(root.C)
	for hops := 0; hops < 16; hops++ {
		var op *ndOp
		for i := 0; i <= upto && i < len(b.Steps); i++ {
			o := &b.Steps[i].Op
			if o.A == "commit" && o.V == root.V && o.Ty == root.Ty && bytes.Equal(mustJSON(o.C), cur) {
				op = o
				break
			}
		}
		if op == nil {
			return "?"
		}
		if op.Parent != "same" {
			// is the root the parent of another candidate of its version?
			if !inChain {
				for i := 0; i <= upto && i < len(b.Steps); i++ {
					o := &b.Steps[i].Op
					if o.A == "commit" && o.V == root.V && o.Ty == root.Ty && o.Parent == "same" && bytes.Equal(mustJSON(o.PC), mustJSON(root.C)) {
						inChain = true
					}
				}
			}
			if !inChain {
				return ""
			}
			if op.Parent == "prev" && len(op.PC) == 0 {
				return "empty" // derived from a previous root without contents: nothing inherited
			}
			return op.Parent
		}
		inChain = true
		cur = mustJSON(op.PC)
	}
	return "?"
}

// ndShape names the history shape of a failure (used to match known findings narrowly).
func ndShape(b *ndBehaviour, upto int) string {
	types := map[string]bool{}
	prunes := 0
	for i := 0; i <= upto && i < len(b.Steps); i++ {
		op := &b.Steps[i].Op
		if op.A == "commit" {
			types[op.Ty] = true
		}
		if op.A == "prune" {
			prunes++
		}
	}
	s := "types="
	if types["state"] {
		s += "S"
	}
	if types["io"] {
		s += "I"
	}
	return fmt.Sprintf("%s,prunes>0=%v,last=%s", s, prunes > 0, b.Steps[min(upto, len(b.Steps)-1)].Op.A)
}

// ndAncestors returns the keys of the roots the given root was derived from (transitively, through the recorded parents).
func ndAncestors(b *ndBehaviour, upto int, root ndRootID) map[string]bool {
	out := map[string]bool{}
	cur := root
	for hops := 0; hops < 32; hops++ {
		var op *ndOp
		for i := 0; i <= upto && i < len(b.Steps); i++ {
			o := &b.Steps[i].Op
			if o.A == "commit" && o.V == cur.V && o.Ty == cur.Ty && bytes.Equal(mustJSON(o.C), mustJSON(cur.C)) {
				op = o
				break
			}
		}
		if op == nil || op.Parent == "empty" {
			break
		}
		pv := op.V
		if op.Parent == "prev" {
			pv = op.V - 1
		}
		cur = ndRootID{pv, op.Ty, op.PC}
		out[cur.key()] = true
	}
	return out
}

// ndSharesKVFor reports whether the given (unreadable) root holds a key/value pair that also occurs in a root that was
// discarded or pruned at or before step i, or in a root of the other type - not counting the roots it was derived from:
// what a root inherits from its own ancestors is protected by the derived-root links of the legacy backend, the recorded
// hash-keyed-node finding is about nodes that an UNRELATED root wrote or removed under the same hash.
func ndSharesKVFor(b *ndBehaviour, i int, root ndRootID) bool {
	anc := ndAncestors(b, i, root)
	anc[root.key()] = true
	seen := map[string]ndRootID{}
	gone := map[string]bool{}
	for j := 0; j <= i && j < len(b.Steps); j++ {
		e := &b.Steps[j].Expect
		cur := map[string]bool{}
		for _, lst := range [][]ndRootID{e.Finalized, e.Pending} {
			for _, id := range lst {
				seen[id.key()] = id
				cur[id.key()] = true
			}
		}
		for k := range seen {
			if !cur[k] {
				gone[k] = true
			}
		}
	}
	mine := map[string]bool{}
	for _, p := range root.C {
		mine[string(p[0])+"="+string(p[1])] = true
	}
	for k, id := range seen {
		if anc[k] || !(gone[k] || id.Ty != root.Ty) {
			continue
		}
		for _, p := range id.C {
			if mine[string(p[0])+"="+string(p[1])] {
				return true
			}
		}
	}
	return false
}

func ndSharedFor(b *ndBehaviour, i int, f *ndFail) bool {
	if f.Root != nil {
		return ndSharesKVFor(b, i, *f.Root)
	}
	return ndSharesKV(b, i)
}

// ndSharesKV reports whether some retained root at step i holds a key/value pair that also occurs in a root that
// was discarded by a finalization or pruned at or before step i (the legacy backend keys nodes by hash only).
func ndSharesKV(b *ndBehaviour, i int) bool {
	removed := map[string]bool{}
	seen := map[string]ndRootID{}
	for j := 0; j <= i && j < len(b.Steps); j++ {
		e := &b.Steps[j].Expect
		cur := map[string]bool{}
		for _, lst := range [][]ndRootID{e.Finalized, e.Pending} {
			for _, id := range lst {
				seen[id.key()] = id
				cur[id.key()] = true
			}
		}
		for k, id := range seen {
			if !cur[k] {
				for _, p := range id.C {
					removed[string(p[0])+"="+string(p[1])] = true
				}
			}
		}
	}
	// key/value pairs ever stored under each root type
	byType := map[string]map[string]bool{"state": {}, "io": {}}
	for _, id := range seen {
		for _, p := range id.C {
			byType[id.Ty][string(p[0])+"="+string(p[1])] = true
		}
	}
	e := &b.Steps[min(i, len(b.Steps)-1)].Expect
	for _, lst := range [][]ndRootID{e.Finalized, e.Pending} {
		for _, id := range lst {
			other := "io"
			if id.Ty == "io" {
				other = "state"
			}
			for _, p := range id.C {
				kv := string(p[0]) + "=" + string(p[1])
				if removed[kv] || byType[other][kv] {
					return true
				}
			}
		}
	}
	return false
}

// ndChurn: environment steps of NodeDB.tla that leave the abstract state alone (Restart, Compact).  The database directory is
// opened and closed `rounds` times by a foreign writer that adds one unrelated key at the metadata timestamp (every close
// flushes one more table to level zero of the LSM tree, as every restart of a node does), then the node database is opened
// again and asked to compact.  With six tables on level zero the compaction runs and badger drops whatever the discard timestamp
// set on open / by Prune allows it to drop.
func ndChurn(dir string, rounds int) error {
	for i := 0; i < rounds; i++ {
		opts := badger.DefaultOptions(dir).WithLogger(nil).WithSyncWrites(false).WithCompression(options.Snappy).WithDetectConflicts(false)
		db, err := badger.OpenManaged(opts)
		if err != nil {
			return err
		}
		tx := db.NewTransactionAt(1, true)
		if err = tx.Set([]byte{0xfe, byte(i)}, []byte{byte(i)}); err == nil {
			err = tx.CommitAt(1, nil)
		}
		if cerr := db.Close(); err == nil {
			err = cerr
		}
		if err != nil {
			return err
		}
	}
	return nil
}

// restartCompact closes the database, lets ndChurn age the directory, re-opens it, compacts, and re-checks the expectations.
func (r *ndRun) restartCompact(dir string, e *ndExpect) *ndFail {
	for k, t := range r.live {
		t.Close()
		delete(r.live, k)
	}
	r.ndb.Close()
	if err := ndChurn(dir, 6); err != nil {
		return ndFailf("harness", "churn: %v", err)
	}
	ndb, err := openNodeDB(r.backend, dir)
	if err != nil {
		return ndFailf("reopen", "open after restarts: %v", err)
	}
	r.ndb = ndb
	if err = ndb.Compact(); err != nil {
		return ndFailf("reopen", "Compact: %v", err)
	}
	if f := r.check(e); f != nil {
		f.Msg = "after restarts and a compaction: " + f.Msg
		return f
	}
	return nil
}

func ndRunBehaviour(b *ndBehaviour, backend, dir string, noisy bool, reuse ...bool) (*ndMismatch, int) {
	ndb, err := openNodeDB(backend, dir)
	if err != nil {
		return &ndMismatch{Backend: backend, Fail: ndFailf("error", "open: %v", err)}, 0
	}
	r := &ndRun{backend: backend, ndb: ndb, ctx: context.Background(), roots: map[string]node.Root{}, noisy: noisy,
		reuse: len(reuse) > 0 && reuse[0], live: map[string]mkvs.Tree{}}
	defer func() {
		for _, t := range r.live {
			t.Close()
		}
		r.ndb.Close()
	}()
	n := 0
	// on-disk runs (dir != ""): the database is restarted and compacted after the first prune and at the end of the history
	churned := false
	for i := range b.Steps {
		n++
		var f *ndFail
		if perr := guard(func() {
			f = r.applyOp(&b.Steps[i].Op)
			if f == nil {
				f = r.check(&b.Steps[i].Expect)
			}
			if f == nil && dir != "" && ((b.Steps[i].Op.A == "prune" && !churned) || i == len(b.Steps)-1) {
				churned = true
				f = r.restartCompact(dir, &b.Steps[i].Expect)
			}
		}); perr != nil {
			f = &ndFail{Kind: "panic", Msg: perr.Error()}
		}
		if f != nil {
			return &ndMismatch{Backend: backend, Step: i, Fail: f, Steps: b.Steps[:i+1], Shape: ndShape(b, i), SharedKV: ndSharedFor(b, i, f), Origin: ndOrigin(b, i, f.Root)}, n
		}
	}
	return nil, n
}

func ndPrunes(b *ndBehaviour) bool {
	for i := range b.Steps {
		if b.Steps[i].Op.A == "prune" {
			return true
		}
	}
	return false
}

func nodedbReplay(args []string) int {
	fs := flag.NewFlagSet("nodedb-replay", flag.ExitOnError)
	in := fs.String("in", "-", "behaviours")
	out := fs.String("out", "-", "summary JSON")
	every := fs.Int("every", 1, "replay only every k-th behaviour")
	gated := fs.Bool("gated", false, "run a full reader at every durable-write point of every operation (hook H1)")
	noise := fs.String("noise", "alt", "batches with net no-op writes: off | alt (every second behaviour) | both (every behaviour is run plain and noisy)")
	reuse := fs.String("reuse", "both", "also run with tree objects kept across commits: off | alt (every second pair of behaviours) | both (every behaviour)")
	restart := fs.Int("restart", 0, "k > 0: every k-th behaviour that prunes also runs on disk, with restarts and a compaction after the first prune and at the end")
	fs.Parse(args)
	r, err := openIn(*in)
	if err != nil {
		return 2
	}
	defer r.Close()
	var (
		mu                          sync.Mutex
		nBeh, nRuns, nSteps, nSkipP int
		classes                     = map[string]int{}
		mism                        []*ndMismatch
		samples                     []json.RawMessage
		opCounts                    = map[string]int{}
		bad                         atomic.Bool
		gatedReads                  int
		gateCounts                  = map[string]int{}
		nRestart                    int
	)
	nWorkers := runtime.NumCPU()
	if *gated {
		nWorkers = 1 // the hook is process-global
	}
	lines := make(chan []byte, 256)
	var wg sync.WaitGroup
	for wk := 0; wk < nWorkers; wk++ {
		wg.Add(1)
		go func() {
			defer wg.Done()
			for line := range lines {
				var b ndBehaviour
				if err := json.Unmarshal(line, &b); err != nil {
					fmt.Fprintf(os.Stderr, "bad behaviour: %v\n", err)
					bad.Store(true)
					continue
				}
				mu.Lock()
				nBeh++
				myIdx := nBeh
				for i := range b.Steps {
					opCounts[b.Steps[i].Op.A]++
				}
				if len(samples) < 2 && len(b.Steps) > 4 {
					var lite []string
					for i := range b.Steps {
						o := b.Steps[i].Op
						lite = append(lite, fmt.Sprintf("%s v%d %s %s %v", o.A, o.V, o.Ty, o.Parent, o.Writes))
					}
					samples = append(samples, mustJSON(lite))
				}
				mu.Unlock()
				for _, be := range []string{"badger", "pathbadger"} {
					if !ndAccepts(&b, be) {
						mu.Lock()
						nSkipP++
						mu.Unlock()
						continue
					}
					var m *ndMismatch
					var n int
					if *gated {
						var g map[string]int
						var reads int
						m, reads, g = ndRunGated(&b, be)
						n = len(b.Steps)
						mu.Lock()
						gatedReads += reads
						for k, v := range g {
							gateCounts[k] += v
						}
						mu.Unlock()
					} else {
						m, n = ndRunBehaviour(&b, be, "", *noise == "alt" && myIdx%2 == 1)
						if m == nil && *noise == "both" {
							var n2 int
							m, n2 = ndRunBehaviour(&b, be, "", true)
							n += n2
							if m != nil {
								m.Noisy = true
							}
						} else if m != nil {
							m.Noisy = *noise == "alt" && myIdx%2 == 1
						}
						if m == nil && *restart > 0 && myIdx%*restart == 0 && ndPrunes(&b) {
							dir, derr := os.MkdirTemp("", "ndrestart-")
							if derr == nil {
								var n2 int
								m, n2 = ndRunBehaviour(&b, be, dir, false)
								n += n2
								os.RemoveAll(dir)
								mu.Lock()
								nRestart++
								mu.Unlock()
								if m != nil {
									m.Restart = true
								}
							}
						}
						if m == nil && *reuse != "off" && (*reuse == "both" || (myIdx/2)%2 == 1) {
							// the same history once more with long-lived tree objects (plain and with no-op writes in turn)
							var n2 int
							m, n2 = ndRunBehaviour(&b, be, "", myIdx%2 == 0, true)
							n += n2
							if m != nil {
								m.Noisy, m.Reuse = myIdx%2 == 0, true
							}
						}
					}
					mu.Lock()
					nRuns++
					nSteps += n
					if m != nil {
						cl := fmt.Sprintf("%s:%s:sharedkv=%v:%s", be, m.Fail.Kind, m.SharedKV, m.Shape)
						if m.Origin != "" {
							cl += ",origin=" + m.Origin
						}
						if m.Fail.Kind == "error" {
							cl = fmt.Sprintf("%s:declined:%s:%s", be, b.Steps[m.Step].Op.A, firstWords(m.Fail.Msg))
						}
						classes[cl]++
						if classes[cl] <= 3 {
							mism = append(mism, m)
						}
					}
					mu.Unlock()
				}
			}
		}()
	}
	sc := lineReader(r)
	k := 0
	total := 0
	for sc.Scan() {
		line := sc.Bytes()
		if len(line) == 0 || line[0] != '{' {
			continue
		}
		total++
		k++
		if k%*every != 0 {
			continue
		}
		lines <- append([]byte{}, line...)
	}
	close(lines)
	wg.Wait()
	if bad.Load() || sc.Err() != nil {
		return 2
	}
	w, err := openOut(*out)
	if err != nil {
		return 2
	}
	defer w.Close()
	nm := 0
	for _, c := range classes {
		nm += c
	}
	w.Write(mustJSON(map[string]any{
		"emitted": total, "behaviours": nBeh, "runs": nRuns, "restart_runs": nRestart, "steps": nSteps, "not_accepted_by_pathbadger": nSkipP,
		"mismatch_count": nm, "classes": classes, "gated_reads": gatedReads, "gates": gateCounts, "mismatches": mism, "samples": samples, "op_counts": opCounts,
	}))
	return 0
}
