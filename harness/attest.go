package main

// C18: binding of specs/attest/Attest.tla to go/common/sgx/pcs (Quote.Verify / QuoteBundle.Verify).
//
// This file: test vectors, the harness' own (independent) reading of the quote layout, of the collateral
// and of the certificates - used only to LABEL cases with ground truth (which region a byte belongs to,
// where a verification time lies relative to each validity window, whether the collateral belongs to the
// quote's platform, what the TCB status is).  Nothing here calls the verification code under test.

import (
	"bytes"
	"crypto/x509"
	"encoding/asn1"
	"encoding/binary"
	"encoding/hex"
	"encoding/json"
	"encoding/pem"
	"fmt"
	"os"
	"path/filepath"
	"sort"
	"strings"
	"time"

	"github.com/oasisprotocol/oasis-core/go/common/crypto/tuplehash"
)

// ---------------------------------------------------------------------------------------------
// vectors

type attColl struct {
	name    string
	tcbBody []byte // SignedTCBInfo.TCBInfo (raw, signed bytes)
	tcbSig  string // SignedTCBInfo.Signature (hex)
	qeBody  []byte // SignedQEIdentity.EnclaveIdentity (raw)
	qeSig   string
	tcb     attTCBInfo
	qe      attQEID
}

type attQuote struct {
	name    string
	tee     string // "sgx" | "tdx"
	raw     []byte
	lay     *attLayout
	nominal int64 // unix time at which the upstream tests verify the vector
	pck     attPCK
	chain   []*x509.Certificate
	origID  [64]byte // MRENCLAVE || MRSIGNER as the verification must return them
	origRD  []byte
}

type attEnv struct {
	quotes map[string]*attQuote
	colls  map[string]*attColl
	certs  []byte // TCB signing chain (PEM), shared by all vectors
	signCh []*x509.Certificate
}

type attScenDef struct{ sid, q, tcb, qe string }

// Scenarios: every known-good quote with its own collateral, and with collateral of another platform / TEE.
var attScenDefs = []attScenDef{
	{"sgx", "sgx", "sgx", "sgx"},
	{"sgx+tcb_tdx", "sgx", "tdx", "sgx"},
	{"sgx+qe_tdx", "sgx", "sgx", "tdx"},
	{"sgx+both_tdx", "sgx", "tdx", "tdx"},
	{"tdx", "tdx", "tdx", "tdx"},
	{"tdx+tcb_ood", "tdx", "ood", "tdx"}, // TDX TCB info of another FMSPC
	{"tdx+tcb_sgx", "tdx", "sgx", "tdx"}, // SGX TCB info
	{"tdx+qe_sgx", "tdx", "tdx", "sgx"},
	{"tdx+qe_old", "tdx", "tdx", "ood"}, // an older issue of the same TD_QE identity: belongs to the platform
	{"tdx+both_sgx", "tdx", "sgx", "sgx"},
	{"ood", "ood", "ood", "ood"}, // known out-of-date platform: its own collateral has no acceptable TCB level
	{"ood+tcb_tdx", "ood", "tdx", "ood"},
	{"ood+qe_sgx", "ood", "ood", "sgx"},
}

func attTestdata() string {
	repo := os.Getenv("REPO")
	if repo == "" {
		repo = "/repo"
	}
	return filepath.Join(repo, "go", "common", "sgx", "pcs", "testdata")
}

func attLoad() (*attEnv, error) {
	td := attTestdata()
	rd := func(n string) ([]byte, error) { return os.ReadFile(filepath.Join(td, n)) }
	env := &attEnv{quotes: map[string]*attQuote{}, colls: map[string]*attColl{}}
	var err error
	if env.certs, err = rd("tcb_info_v3_fmspc_00606A000000_certs.pem"); err != nil {
		return nil, err
	}
	if env.signCh, err = attDecodeChain(env.certs); err != nil || len(env.signCh) != 2 {
		return nil, fmt.Errorf("signing chain: %v (%d certs)", err, len(env.signCh))
	}
	for _, c := range []struct{ name, tcb, qe string }{
		{"sgx", "tcb_info_v3_fmspc_00606A000000.json", "qe_identity_v2.json"},
		{"tdx", "tcb_info_v3_tdx_fmspc_C0806F000000.json", "qe_identity_v2_tdx2.json"},
		{"ood", "tcb_info_v3_tdx_fmspc_50806F000000.json", "qe_identity_v2_tdx.json"},
	} {
		co := &attColl{name: c.name}
		var st struct {
			TCBInfo   json.RawMessage `json:"tcbInfo"`
			Signature string          `json:"signature"`
		}
		b, err := rd(c.tcb)
		if err != nil {
			return nil, err
		}
		if err = json.Unmarshal(b, &st); err != nil {
			return nil, err
		}
		co.tcbBody, co.tcbSig = []byte(st.TCBInfo), st.Signature
		var sq struct {
			EnclaveIdentity json.RawMessage `json:"enclaveIdentity"`
			Signature       string          `json:"signature"`
		}
		if b, err = rd(c.qe); err != nil {
			return nil, err
		}
		if err = json.Unmarshal(b, &sq); err != nil {
			return nil, err
		}
		co.qeBody, co.qeSig = []byte(sq.EnclaveIdentity), sq.Signature
		if err = json.Unmarshal(co.tcbBody, &co.tcb); err != nil {
			return nil, err
		}
		if err = json.Unmarshal(co.qeBody, &co.qe); err != nil {
			return nil, err
		}
		env.colls[c.name] = co
	}
	for _, q := range []struct {
		name, file string
		nominal    int64
	}{
		{"sgx", "quote_v3_ecdsa_p256_pck_chain.bin", 1671497404},
		{"tdx", "quote_v4_tdx_ecdsa_p256.bin", 1725263032},
		{"ood", "quote_v4_tdx_ecdsa_p256_out_of_date.bin", 1687091776},
	} {
		raw, err := rd(q.file)
		if err != nil {
			return nil, err
		}
		aq := &attQuote{name: q.name, raw: raw, nominal: q.nominal}
		if aq.lay, err = attParseLayout(raw); err != nil {
			return nil, fmt.Errorf("%s: %w", q.file, err)
		}
		aq.tee = aq.lay.tee
		if aq.chain, err = attDecodeChain(raw[aq.lay.certData[0]:aq.lay.certData[1]]); err != nil || len(aq.chain) != 3 {
			return nil, fmt.Errorf("%s: PCK chain: %v", q.file, err)
		}
		if aq.pck, err = attParsePCK(aq.chain[0]); err != nil {
			return nil, fmt.Errorf("%s: %w", q.file, err)
		}
		aq.origID, aq.origRD = attIdentity(aq.lay, raw)
		env.quotes[q.name] = aq
	}
	return env, nil
}

// ---------------------------------------------------------------------------------------------
// quote layout (Intel SGX ECDSA quote v3, TDX quote v4), read independently of the code under test

type attRange struct {
	a, b   int // [a, b)
	region string
}

type attLayout struct {
	tee      string
	version  int
	ranges   []attRange // disjoint cover of the whole quote by abstract regions (certificate data excluded)
	body     [2]int
	certData [2]int // the PEM chain inside the certification data (classified by decoding, not by offset)
	padFrom  int    // first byte after the last PEM block
	// structural fields
	sigLenOff, outerSizeOff, authSizeOff, certTypeOff, certSizeOff int
	qsig, attkey, qerep, qesig, authdata                           [2]int
	idRanges, rdRange                                              [][2]int
}

func attParseLayout(q []byte) (*attLayout, error) {
	l := &attLayout{outerSizeOff: -1}
	if len(q) < 48+384+4 {
		return nil, fmt.Errorf("short quote")
	}
	l.version = int(binary.LittleEndian.Uint16(q[0:]))
	add := func(a, b int, r string) { l.ranges = append(l.ranges, attRange{a, b, r}) }
	add(0, 48, "hdr")
	bodyLen := 384
	switch l.version {
	case 3:
		l.tee = "sgx"
	case 4:
		switch binary.LittleEndian.Uint32(q[4:]) {
		case 0:
			l.tee = "sgx"
		case 0x81:
			l.tee, bodyLen = "tdx", 584
		default:
			return nil, fmt.Errorf("unknown TEE type")
		}
	default:
		return nil, fmt.Errorf("unknown version %d", l.version)
	}
	o := 48
	l.body = [2]int{o, o + bodyLen}
	sub := func(parts [][3]any) {
		// parts: relative [a,b) -> region; the rest of the body is body_other
		pos := 0
		for _, p := range parts {
			a, b, r := p[0].(int), p[1].(int), p[2].(string)
			if a > pos {
				add(o+pos, o+a, "body_other")
			}
			add(o+a, o+b, r)
			pos = b
		}
		if pos < bodyLen {
			add(o+pos, o+bodyLen, "body_other")
		}
	}
	if l.tee == "sgx" {
		// cpusvn 0:16, miscselect 16:20, reserved, attributes 48:64, mrenclave 64:96, mrsigner 128:160, prodid/svn 256:260, report data 320:384
		sub([][3]any{{48, 64, "body_attr"}, {64, 96, "body_id"}, {128, 160, "body_id"}, {320, 384, "body_rd"}})
		l.idRanges = [][2]int{{o + 64, o + 96}, {o + 128, o + 160}}
		l.rdRange = [][2]int{{o + 320, o + 384}}
	} else {
		// teeTcbSvn 0:16, mrSeam 16:64, mrSignerSeam 64:112, seamAttr 112:120, tdAttributes 120:128, xfam 128:136,
		// mrTd 136:184, mrConfigId/mrOwner/mrOwnerConfig 184:328, rtmr0..3 328:520, report data 520:584
		sub([][3]any{{120, 128, "body_attr"}, {136, 184, "body_id"}, {328, 520, "body_id"}, {520, 584, "body_rd"}})
		l.idRanges = [][2]int{{o + 136, o + 184}, {o + 328, o + 520}}
		l.rdRange = [][2]int{{o + 520, o + 584}}
	}
	o += bodyLen
	l.sigLenOff = o
	add(o, o+4, "siglen")
	sigLen := int(binary.LittleEndian.Uint32(q[o:]))
	o += 4
	if o+sigLen != len(q) {
		return nil, fmt.Errorf("signature length %d does not end the quote", sigLen)
	}
	l.qsig = [2]int{o, o + 64}
	add(o, o+64, "qsig")
	o += 64
	l.attkey = [2]int{o, o + 64}
	add(o, o+64, "attkey")
	o += 64
	if l.version == 4 {
		l.outerSizeOff = o + 2
		add(o, o+6, "certhdr")
		o += 6
	}
	l.qerep = [2]int{o, o + 384}
	add(o, o+320, "qerep")
	add(o+320, o+384, "qerep_rd")
	o += 384
	l.qesig = [2]int{o, o + 64}
	add(o, o+64, "qesig")
	o += 64
	l.authSizeOff = o
	add(o, o+2, "certhdr")
	an := int(binary.LittleEndian.Uint16(q[o:]))
	o += 2
	l.authdata = [2]int{o, o + an}
	add(o, o+an, "authdata")
	o += an
	l.certTypeOff, l.certSizeOff = o, o+2
	add(o, o+6, "certhdr")
	ct := int(binary.LittleEndian.Uint16(q[o:]))
	cn := int(binary.LittleEndian.Uint32(q[o+2:]))
	o += 6
	if ct != 5 || o+cn != len(q) {
		return nil, fmt.Errorf("certification data type %d size %d", ct, cn)
	}
	l.certData = [2]int{o, len(q)}
	// find the end of the last PEM block
	rest := q[o:]
	for {
		blk, r := pem.Decode(rest)
		if blk == nil {
			break
		}
		rest = r
	}
	l.padFrom = len(q) - len(rest)
	return l, nil
}

// attIdentity reads what a successful verification must return: MRENCLAVE||MRSIGNER and the report data.
func attIdentity(l *attLayout, q []byte) (id [64]byte, rdata []byte) {
	o := l.body[0]
	if l.tee == "sgx" {
		copy(id[:32], q[o+64:o+96])
		copy(id[32:], q[o+128:o+160])
		return id, append([]byte{}, q[o+320:o+384]...)
	}
	// TD: MRENCLAVE = TupleHash256["oasis-core/tdx: TD enclave identity"](MRTD, RTMR0..3), MRSIGNER = 0
	h := tuplehash.New256(32, []byte("oasis-core/tdx: TD enclave identity"))
	_, _ = h.Write(q[o+136 : o+184])
	for i := 0; i < 4; i++ {
		_, _ = h.Write(q[o+328+48*i : o+376+48*i])
	}
	copy(id[:32], h.Sum(nil))
	return id, append([]byte{}, q[o+520:o+584]...)
}

// ---------------------------------------------------------------------------------------------
// certificates

// attDecodeChain decodes a PEM chain the way a careful reader would: every CERTIFICATE block, in order.
func attDecodeChain(data []byte) ([]*x509.Certificate, error) {
	var out []*x509.Certificate
	for len(data) > 0 {
		blk, rest := pem.Decode(data)
		if blk == nil {
			break
		}
		if blk.Type != "CERTIFICATE" {
			return nil, fmt.Errorf("PEM block %q", blk.Type)
		}
		c, err := x509.ParseCertificate(blk.Bytes)
		if err != nil {
			return nil, err
		}
		out = append(out, c)
		data = rest
	}
	return out, nil
}

// attChainEffect classifies a mutated PEM chain against the original one:
// "tbs" (a different set of certificates / to-be-signed content / undecodable), "sig" (only signature
// values or their encoding differ), "enc" (identical certificates: the mutation hit encoding slack).
func attChainEffect(orig []*x509.Certificate, mutated []byte) string {
	got, err := attDecodeChain(mutated)
	if err != nil || len(got) != len(orig) {
		return "tbs"
	}
	eff := "enc"
	for i := range got {
		if !bytes.Equal(got[i].RawTBSCertificate, orig[i].RawTBSCertificate) {
			return "tbs"
		}
		if !bytes.Equal(got[i].Raw, orig[i].Raw) {
			eff = "sig"
		}
	}
	return eff
}

type attPCK struct {
	fmspc   []byte
	compSvn [16]int
	pceSvn  int
}

type attExt struct {
	ID    asn1.ObjectIdentifier
	Value asn1.RawValue
}

func attParsePCK(leaf *x509.Certificate) (attPCK, error) {
	var p attPCK
	oidSGX := asn1.ObjectIdentifier{1, 2, 840, 113741, 1, 13, 1}
	for _, e := range leaf.Extensions {
		if !e.Id.Equal(oidSGX) {
			continue
		}
		var exts []attExt
		if _, err := asn1.Unmarshal(e.Value, &exts); err != nil {
			return p, err
		}
		for _, x := range exts {
			switch {
			case x.ID.Equal(append(append(asn1.ObjectIdentifier{}, oidSGX...), 4)):
				if _, err := asn1.Unmarshal(x.Value.FullBytes, &p.fmspc); err != nil {
					return p, err
				}
			case x.ID.Equal(append(append(asn1.ObjectIdentifier{}, oidSGX...), 2)):
				var tcb []attExt
				if _, err := asn1.Unmarshal(x.Value.FullBytes, &tcb); err != nil {
					return p, err
				}
				for _, t := range tcb {
					id := t.ID[len(t.ID)-1]
					var v int
					if id >= 1 && id <= 17 {
						if _, err := asn1.Unmarshal(t.Value.FullBytes, &v); err != nil {
							return p, err
						}
					}
					if id >= 1 && id <= 16 {
						p.compSvn[id-1] = v
					} else if id == 17 {
						p.pceSvn = v
					}
				}
			}
		}
	}
	if len(p.fmspc) != 6 {
		return p, fmt.Errorf("no FMSPC in PCK certificate")
	}
	return p, nil
}

// window of a chain: intersection of the validity periods (seconds resolution)
func attChainWindow(chain []*x509.Certificate) (lo, hi time.Time) {
	lo, hi = chain[0].NotBefore, chain[0].NotAfter
	for _, c := range chain[1:] {
		if c.NotBefore.After(lo) {
			lo = c.NotBefore
		}
		if c.NotAfter.Before(hi) {
			hi = c.NotAfter
		}
	}
	return
}

// ---------------------------------------------------------------------------------------------
// collateral, read with the harness' own minimal structs

type attLevel struct {
	TCB struct {
		PCESVN int `json:"pcesvn"`
		SGX    []struct {
			SVN int `json:"svn"`
		} `json:"sgxtcbcomponents"`
		TDX []struct {
			SVN int `json:"svn"`
		} `json:"tdxtcbcomponents"`
		ISVSVN int `json:"isvsvn"`
	} `json:"tcb"`
	Status string `json:"tcbStatus"`
}

type attTCBInfo struct {
	ID         string     `json:"id"`
	IssueDate  string     `json:"issueDate"`
	NextUpdate string     `json:"nextUpdate"`
	FMSPC      string     `json:"fmspc"`
	Eval       uint32     `json:"tcbEvaluationDataNumber"`
	Levels     []attLevel `json:"tcbLevels"`
	Modules    []struct {
		ID     string     `json:"id"`
		Levels []attLevel `json:"tcbLevels"`
	} `json:"tdxModuleIdentities"`
}

type attQEID struct {
	ID             string     `json:"id"`
	IssueDate      string     `json:"issueDate"`
	NextUpdate     string     `json:"nextUpdate"`
	Eval           uint32     `json:"tcbEvaluationDataNumber"`
	MiscSelect     string     `json:"miscselect"`
	MiscSelectMask string     `json:"miscselectMask"`
	Attributes     string     `json:"attributes"`
	AttributesMask string     `json:"attributesMask"`
	MRSIGNER       string     `json:"mrsigner"`
	ISVProdID      int        `json:"isvprodid"`
	Levels         []attLevel `json:"tcbLevels"`
}

func attDate(s string) time.Time {
	t, err := time.Parse(time.RFC3339Nano, s)
	if err != nil {
		panic("vector date " + s + ": " + err.Error())
	}
	return t
}

// attPlatformStatus: Intel's TCB level selection (PCS API doc, "Determining TCB status"), own transcription
// of the specification text, returns "ok" only for UpToDate / SWHardeningNeeded (+ UpToDate TDX module).
func attPlatformStatus(q *attQuote, ti *attTCBInfo) (string, string) {
	var tdxSvn []byte
	if q.tee == "tdx" {
		tdxSvn = q.raw[q.lay.body[0] : q.lay.body[0]+16]
	}
	status := ""
	for _, lv := range ti.Levels {
		ok := len(lv.TCB.SGX) == 16
		for i := 0; ok && i < 16; i++ {
			ok = q.pck.compSvn[i] >= lv.TCB.SGX[i].SVN
		}
		ok = ok && q.pck.pceSvn >= lv.TCB.PCESVN
		if ok && tdxSvn != nil && len(lv.TCB.TDX) == 16 {
			from := 0
			if tdxSvn[1] != 0 {
				from = 2
			}
			for i := from; ok && i < 16; i++ {
				ok = int(tdxSvn[i]) >= lv.TCB.TDX[i].SVN
			}
		}
		if ok {
			status = lv.Status
			break
		}
	}
	if status == "" {
		return "bad", "no matching TCB level"
	}
	if ti.ID == "TDX" && tdxSvn != nil && tdxSvn[1] >= 1 {
		want := fmt.Sprintf("TDX_%02d", tdxSvn[1])
		mst := ""
		found := false
		for _, m := range ti.Modules {
			if m.ID != want {
				continue
			}
			found = true
			for _, lv := range m.Levels {
				if lv.TCB.ISVSVN <= int(tdxSvn[0]) {
					mst = lv.Status
					break
				}
			}
			break
		}
		if !found || mst != "UpToDate" {
			return "bad", "TDX module " + want + ": " + mst
		}
	}
	if status == "UpToDate" || status == "SWHardeningNeeded" {
		return "ok", status
	}
	return "bad", status
}

func attQEStatus(q *attQuote, qe *attQEID) (string, string) {
	r := q.raw[q.lay.qerep[0]:q.lay.qerep[1]]
	unhex := func(s string) []byte { b, _ := hex.DecodeString(s); return b }
	if !bytes.Equal(unhex(qe.MRSIGNER), r[128:160]) {
		return "bad", "QE MRSIGNER"
	}
	if int(binary.LittleEndian.Uint16(r[256:])) != qe.ISVProdID {
		return "bad", "QE ISVPRODID"
	}
	ms, mm := unhex(qe.MiscSelect), unhex(qe.MiscSelectMask)
	for i := 0; i < 4; i++ {
		if r[16+i]&mm[i] != ms[i] {
			return "bad", "QE miscselect"
		}
	}
	at, am := unhex(qe.Attributes), unhex(qe.AttributesMask)
	for i := 0; i < 16; i++ {
		if r[48+i]&am[i] != at[i] {
			return "bad", "QE attributes"
		}
	}
	svn := int(binary.LittleEndian.Uint16(r[258:]))
	for _, lv := range qe.Levels {
		if lv.TCB.ISVSVN <= svn {
			if lv.Status == "UpToDate" {
				return "ok", lv.Status
			}
			return "bad", lv.Status
		}
	}
	return "bad", "no matching QE TCB level"
}

// ---------------------------------------------------------------------------------------------
// scenarios (written for TLC as scen.json, and used by the replay)

type attTime struct {
	TID  string            `json:"tid"`
	VP   int               `json:"vp"`
	Pos  map[string]string `json:"pos"`
	NU   map[string]string `json:"nu"`
	Unix int64             `json:"unix"`
	Nsec int64             `json:"nsec"`
	Dev  int               `json:"dev"` // number of windows not strictly inside
	Alt  bool              `json:"alt"` // inside every window, but not the scenario's first such instant
}

type attEval struct {
	EID string `json:"eid"`
	Min uint32 `json:"min"`
	QE  string `json:"qe"`
	TCB string `json:"tcb"`
	Dev int    `json:"dev"`
}

type attScen struct {
	SID     string            `json:"sid"`
	Quote   string            `json:"quote"`
	TcbSet  string            `json:"tcbset"`
	QeSet   string            `json:"qeset"`
	Tee     string            `json:"tee"`
	Coll    map[string]bool   `json:"coll"`
	St      map[string]string `json:"st"`
	StWhy   string            `json:"st_why"`
	CDev    int               `json:"cdev"`
	Times   []attTime         `json:"times"`
	Evals   []attEval         `json:"evals"`
	Regions []string          `json:"regions"`
	BlCase  bool              `json:"blcase"` // the FMSPC has letters, so a case-variant list entry exists
}

func attPos(t, lo, hi time.Time) string {
	switch {
	case t.Before(lo):
		return "before"
	case t.After(hi):
		return "after"
	case t.Equal(lo):
		return "start"
	case t.Equal(hi):
		return "end"
	}
	return "inside"
}

func attRel(min, actual uint32) string {
	switch {
	case min < actual:
		return "lt"
	case min == actual:
		return "eq"
	}
	return "gt"
}

func (env *attEnv) windows(q *attQuote, tcb, qe *attColl, vp int) map[string][2]time.Time {
	w := map[string][2]time.Time{}
	lo, hi := attChainWindow(q.chain)
	w["pck"] = [2]time.Time{lo, hi}
	lo, hi = attChainWindow(env.signCh)
	w["sign"] = [2]time.Time{lo, hi}
	d := time.Duration(vp) * 24 * time.Hour
	w["qe"] = [2]time.Time{attDate(qe.qe.IssueDate), attDate(qe.qe.IssueDate).Add(d)}
	w["tcb"] = [2]time.Time{attDate(tcb.tcb.IssueDate), attDate(tcb.tcb.IssueDate).Add(d)}
	return w
}

var attWindowNames = []string{"pck", "sign", "qe", "tcb"}

func (env *attEnv) classifyTime(q *attQuote, tcb, qe *attColl, vp int, t time.Time) (map[string]string, map[string]string, int) {
	w := env.windows(q, tcb, qe, vp)
	pos := map[string]string{}
	dev := 0
	for _, n := range attWindowNames {
		pos[n] = attPos(t, w[n][0], w[n][1])
		if pos[n] != "inside" {
			dev++
		}
	}
	nu := map[string]string{"qe": "le", "tcb": "le"}
	if t.After(attDate(qe.qe.NextUpdate)) {
		nu["qe"] = "gt"
	}
	if t.After(attDate(tcb.tcb.NextUpdate)) {
		nu["tcb"] = "gt"
	}
	return pos, nu, dev
}

func (env *attEnv) scenarios(vps []int, allInstants bool) ([]*attScen, error) {
	var out []*attScen
	for _, d := range attScenDefs {
		q, tcb, qe := env.quotes[d.q], env.colls[d.tcb], env.colls[d.qe]
		s := &attScen{SID: d.sid, Quote: d.q, TcbSet: d.tcb, QeSet: d.qe, Tee: q.tee}
		wantT, wantQ := "SGX", "QE"
		if q.tee == "tdx" {
			wantT, wantQ = "TDX", "TD_QE"
		}
		fm, err := hex.DecodeString(tcb.tcb.FMSPC)
		if err != nil {
			return nil, err
		}
		s.Coll = map[string]bool{"tcbid": tcb.tcb.ID == wantT, "fmspc": bytes.Equal(fm, q.pck.fmspc), "qeid": qe.qe.ID == wantQ}
		for _, v := range s.Coll {
			if !v {
				s.CDev = 1
			}
		}
		ps, pw := attPlatformStatus(q, &tcb.tcb)
		qs, qw := attQEStatus(q, &qe.qe)
		s.St = map[string]string{"platform": ps, "qe": qs}
		s.StWhy = "platform: " + pw + "; QE: " + qw
		if ps != "ok" || qs != "ok" {
			s.CDev = 1
		}
		s.BlCase = strings.ToUpper(tcb.tcb.FMSPC) != strings.ToLower(tcb.tcb.FMSPC)
		// time instants: the nominal time, every window boundary and its 1ns neighbour, nextUpdate and its neighbour
		seen := map[string]bool{}
		haveBase := false
		for _, vp := range vps {
			w := env.windows(q, tcb, qe, vp)
			type inst struct {
				name string
				t    time.Time
			}
			var ins []inst
			// an instant inside every window, if there is one
			lo, hi := w["pck"][0], w["pck"][1]
			for _, n := range attWindowNames {
				if w[n][0].After(lo) {
					lo = w[n][0]
				}
				if w[n][1].Before(hi) {
					hi = w[n][1]
				}
			}
			nom := time.Unix(q.nominal, 0)
			if nom.After(lo) && nom.Before(hi) {
				ins = append(ins, inst{"nominal", nom})
			} else if hi.Sub(lo) > 2 {
				ins = append(ins, inst{"mid", lo.Add(hi.Sub(lo) / 2)})
			} else {
				ins = append(ins, inst{"nominal", nom})
			}
			for _, n := range attWindowNames {
				ins = append(ins, inst{n + ".start-1ns", w[n][0].Add(-1)}, inst{n + ".start", w[n][0]},
					inst{n + ".end", w[n][1]}, inst{n + ".end+1ns", w[n][1].Add(1)})
				if vp > 0 {
					ins = append(ins, inst{n + ".start+1ns", w[n][0].Add(1)}, inst{n + ".end-1ns", w[n][1].Add(-1)})
				}
			}
			ins = append(ins, inst{"qe.nextUpdate", attDate(qe.qe.NextUpdate)}, inst{"qe.nextUpdate+1ns", attDate(qe.qe.NextUpdate).Add(1)},
				inst{"tcb.nextUpdate", attDate(tcb.tcb.NextUpdate)}, inst{"tcb.nextUpdate+1ns", attDate(tcb.tcb.NextUpdate).Add(1)})
			for _, in := range ins {
				pos, nu, dev := env.classifyTime(q, tcb, qe, vp, in.t)
				key := fmt.Sprintf("%d|%v|%v", vp, pos, nu)
				if allInstants {
					key = fmt.Sprintf("%d|%d", vp, in.t.UnixNano())
				}
				if seen[key] {
					continue
				}
				seen[key] = true
				at := attTime{TID: fmt.Sprintf("vp%d/%s", vp, in.name), VP: vp, Pos: pos, NU: nu,
					Unix: in.t.Unix(), Nsec: int64(in.t.Nanosecond()), Dev: dev}
				if dev == 0 {
					at.Alt = haveBase
					haveBase = true
				}
				s.Times = append(s.Times, at)
			}
		}
		// minimum evaluation numbers around the two actual ones
		mins := map[uint32]bool{}
		for _, m := range []uint32{0, 12, qe.qe.Eval - 1, qe.qe.Eval, qe.qe.Eval + 1, tcb.tcb.Eval - 1, tcb.tcb.Eval, tcb.tcb.Eval + 1, 0xFFFFFFFF} {
			mins[m] = true
		}
		var ml []uint32
		for m := range mins {
			ml = append(ml, m)
		}
		sort.Slice(ml, func(i, j int) bool { return ml[i] < ml[j] })
		for _, m := range ml {
			e := attEval{EID: fmt.Sprintf("min=%d", m), Min: m, QE: attRel(m, qe.qe.Eval), TCB: attRel(m, tcb.tcb.Eval)}
			if m != 0 {
				e.Dev = 1 // min=0 is the permissive base; every other value counts as one deviation
			}
			s.Evals = append(s.Evals, e)
		}
		out = append(out, s)
	}
	return out, nil
}
