package main

// C15 (pool part): replay of LedgerModel.tla pool behaviours on the real staking.SharePool and the real SlashEscrow.

import (
	"encoding/json"
	"flag"
	"fmt"
	"os"
	"runtime"
	"sync"
	"sync/atomic"

	"github.com/oasisprotocol/oasis-core/go/common/quantity"
	cmtapi "github.com/oasisprotocol/oasis-core/go/consensus/cometbft/api"
	stakingState "github.com/oasisprotocol/oasis-core/go/consensus/cometbft/apps/staking/state"
	staking "github.com/oasisprotocol/oasis-core/go/staking/api"
)

func init() {
	register("sharepool-replay", "replay TLC-emitted escrow pool behaviours on the real staking.SharePool / SlashEscrow", sharepoolReplay)
}

type spPool struct {
	G  map[string]int64 `json:"g"`
	Ab int64            `json:"ab"`
	As int64            `json:"as"`
	Db int64            `json:"db"`
	Ds int64            `json:"ds"`
	Sh map[string]int64 `json:"sh"`
}

type spStep struct {
	Epoch int64 `json:"epoch"`
	Op    struct {
		K   string `json:"k"`
		D   string `json:"d"`
		E   string `json:"e"`
		Amt int64  `json:"amt"`
		S   int64  `json:"s"`
	} `json:"op"`
	Pools map[string]spPool `json:"pools"`
}

type spBehaviour struct {
	Ops []spStep `json:"ops"`
}

type spDeb struct {
	d      string
	shares quantity.Quantity
	end    int64
}

func spRun(b *spBehaviour) (int, string) {
	// one escrow account "e"; state held both in real SharePools and (for slashing) in a real staking MutableState
	var acct staking.Account
	gen := map[string]*quantity.Quantity{}
	sh := map[string]*quantity.Quantity{}
	var debq []spDeb
	common := quantity.NewFromUint64(2)
	addr := staking.NewAddress(pkOf("escrow-e"))
	for i := range b.Ops {
		st := &b.Ops[i]
		want := st.Pools["e"]
		var err error
		switch st.Op.K {
		case "normalize":
			for d, g := range want.G {
				gen[d] = quantity.NewFromUint64(uint64(g))
				sh[d] = quantity.NewFromUint64(uint64(want.Sh[d]))
			}
			acct.Escrow.Active.Balance = *quantity.NewFromUint64(uint64(want.Ab))
			acct.Escrow.Active.TotalShares = *quantity.NewFromUint64(uint64(want.As))
		case "escrow":
			_, err = acct.Escrow.Active.Deposit(sh[st.Op.D], gen[st.Op.D], quantity.NewFromUint64(uint64(st.Op.Amt)))
		case "reclaim":
			var base, dsh quantity.Quantity
			if err = acct.Escrow.Active.Withdraw(&base, sh[st.Op.D], quantity.NewFromUint64(uint64(st.Op.S))); err == nil {
				_, err = acct.Escrow.Debonding.Deposit(&dsh, &base, base.Clone())
				debq = append(debq, spDeb{st.Op.D, dsh, st.Epoch + 1})
			}
		case "reward":
			err = quantity.Move(&acct.Escrow.Active.Balance, common, quantity.NewFromUint64(uint64(st.Op.Amt)))
		case "slash":
			appState := cmtapi.NewMockApplicationState(&cmtapi.MockApplicationStateConfig{})
			ctx := appState.NewContext(cmtapi.ContextBeginBlock)
			ms := stakingState.NewMutableState(ctx.State())
			if err = ms.SetAccount(ctx, addr, &acct); err == nil {
				if err = ms.SetCommonPool(ctx, common); err == nil {
					if _, err = ms.SlashEscrow(ctx, addr, quantity.NewFromUint64(uint64(st.Op.Amt))); err == nil {
						var a2 *staking.Account
						if a2, err = ms.Account(ctx, addr); err == nil {
							acct = *a2
							common, err = ms.CommonPool(ctx)
						}
					}
				}
			}
			ctx.Close()
		case "epoch":
			var rest []spDeb
			for _, e := range debq {
				if e.end > st.Epoch {
					rest = append(rest, e)
					continue
				}
				shc := e.shares.Clone()
				if err = acct.Escrow.Debonding.Withdraw(gen[e.d], shc, e.shares.Clone()); err != nil {
					break
				}
			}
			debq = rest
		default:
			return i, "unknown op " + st.Op.K
		}
		if err != nil {
			return i, fmt.Sprintf("%s: real code failed where the model succeeds: %v", st.Op.K, err)
		}
		got := func(x *quantity.Quantity) int64 { return x.ToBigInt().Int64() }
		if got(&acct.Escrow.Active.Balance) != want.Ab || got(&acct.Escrow.Active.TotalShares) != want.As ||
			got(&acct.Escrow.Debonding.Balance) != want.Db || got(&acct.Escrow.Debonding.TotalShares) != want.Ds {
			return i, fmt.Sprintf("%s: pools (ab=%d as=%d db=%d ds=%d), model (ab=%d as=%d db=%d ds=%d)", st.Op.K,
				got(&acct.Escrow.Active.Balance), got(&acct.Escrow.Active.TotalShares), got(&acct.Escrow.Debonding.Balance),
				got(&acct.Escrow.Debonding.TotalShares), want.Ab, want.As, want.Db, want.Ds)
		}
		for d := range want.G {
			if got(gen[d]) != want.G[d] || got(sh[d]) != want.Sh[d] {
				return i, fmt.Sprintf("%s: account %s (general=%d shares=%d), model (general=%d shares=%d)", st.Op.K, d, got(gen[d]), got(sh[d]), want.G[d], want.Sh[d])
			}
		}
	}
	return -1, ""
}

func sharepoolReplay(args []string) int {
	fs := flag.NewFlagSet("sharepool-replay", flag.ExitOnError)
	in := fs.String("in", "-", "behaviours")
	out := fs.String("out", "-", "summary JSON")
	fs.Parse(args)
	r, err := openIn(*in)
	if err != nil {
		return 2
	}
	defer r.Close()
	var (
		mu       sync.Mutex
		nBeh     int
		nOps     int
		kinds    = map[string]int{}
		mism     []map[string]any
		nMis     int
		bad      atomic.Bool
		sample   json.RawMessage
		zeroBalS int
	)
	lines := make(chan []byte, 256)
	var wg sync.WaitGroup
	for wk := 0; wk < runtime.NumCPU(); wk++ {
		wg.Add(1)
		go func() {
			defer wg.Done()
			for line := range lines {
				var b spBehaviour
				if err := json.Unmarshal(line, &b); err != nil {
					fmt.Fprintln(os.Stderr, "bad behaviour:", err)
					bad.Store(true)
					continue
				}
				var step int
				var msg string
				if perr := guard(func() { step, msg = spRun(&b) }); perr != nil {
					step, msg = len(b.Ops)-1, perr.Error()
				}
				mu.Lock()
				nBeh++
				nOps += len(b.Ops)
				last := b.Ops[len(b.Ops)-1]
				kinds[last.Op.K]++
				if p := last.Pools["e"]; p.Ab == 0 && p.As > 0 {
					zeroBalS++
				}
				if sample == nil && len(b.Ops) > 4 {
					sample = append(json.RawMessage{}, line...)
				}
				if step >= 0 {
					nMis++
					if len(mism) < 10 {
						mism = append(mism, map[string]any{"step": step, "msg": msg, "ops": b.Ops[:step+1]})
					}
				}
				mu.Unlock()
			}
		}()
	}
	sc := lineReader(r)
	for sc.Scan() {
		line := sc.Bytes()
		if len(line) == 0 || line[0] != '{' {
			continue
		}
		lines <- append([]byte{}, line...)
	}
	close(lines)
	wg.Wait()
	if bad.Load() {
		return 2
	}
	w, err := openOut(*out)
	if err != nil {
		return 2
	}
	defer w.Close()
	w.Write(mustJSON(map[string]any{"behaviours": nBeh, "ops": nOps, "last_op_kinds": kinds, "mismatch_count": nMis, "mismatches": mism,
		"sample": sample, "zero_balance_with_shares": zeroBalS}))
	return 0
}
