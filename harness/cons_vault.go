package main

// Vault application in the consensus scenarios (specs/consensus/Vault.tla, TraceVault.tla): vault creation, actions authorized
// by the vault's authorities (suspend / resume / withdraw policies / authority updates / messages executed on behalf of the vault),
// cancellations, deposits and withdrawals through the staking account hook.

import (
	"context"
	"fmt"
	"sort"
	"strings"

	"github.com/oasisprotocol/oasis-core/go/common/cbor"
	"github.com/oasisprotocol/oasis-core/go/consensus/api/transaction"
	vaultState "github.com/oasisprotocol/oasis-core/go/consensus/cometbft/apps/vault/state"
	staking "github.com/oasisprotocol/oasis-core/go/staking/api"
	"github.com/oasisprotocol/oasis-core/go/storage/mkvs"
	vault "github.com/oasisprotocol/oasis-core/go/vault/api"
)

// vaultName names the vaults of a scenario V0, V1, ... in the order in which they appear in the state.
func (n *cnNet) vaultName(addr staking.Address) string {
	if s, ok := n.names[addr.String()]; ok && strings.HasPrefix(s, "V") {
		return s
	}
	name := fmt.Sprintf("V%d", len(n.vaultAddr))
	n.vaultAddr[name] = addr
	n.names[addr.String()] = name
	return name
}

func (n *cnNet) addrByName(name string) (staking.Address, bool) {
	if a, ok := n.vaultAddr[name]; ok {
		return a, true
	}
	if a, ok := n.account(name); ok {
		return a.addr, true
	}
	return staking.Address{}, false
}

// parseAuthority reads "<name,name,...>/<threshold>".
func (n *cnNet) parseAuthority(s string) (vault.Authority, error) {
	var a vault.Authority
	i := strings.LastIndexByte(s, '/')
	if i < 0 {
		return a, fmt.Errorf("bad authority %q", s)
	}
	var thr int
	fmt.Sscanf(s[i+1:], "%d", &thr)
	a.Threshold = uint8(thr)
	for _, nm := range strings.Split(s[:i], ",") {
		if nm == "" {
			continue
		}
		addr, ok := n.addrByName(nm)
		if !ok {
			return a, fmt.Errorf("unknown authority member %q", nm)
		}
		a.Addresses = append(a.Addresses, addr)
	}
	return a, nil
}

func (n *cnNet) authorityString(a *vault.Authority) string {
	var names []string
	for _, x := range a.Addresses {
		names = append(names, n.nameOf(x))
	}
	return fmt.Sprintf("%s/%d", strings.Join(names, ","), a.Threshold)
}

// parseAction reads an action descriptor:
//
//	suspend | resume | policy:<account>:<limit>:<interval> | authority:<admin|suspend>:<names>/<threshold>
//	| exec:transfer:<account>:<amount> | exec:badmethod | none (no action set: invalid) | two (two actions set: invalid)
func (n *cnNet) parseAction(s string) (vault.Action, error) {
	var a vault.Action
	p := strings.Split(s, ":")
	switch p[0] {
	case "suspend":
		a.Suspend = &vault.ActionSuspend{}
	case "resume":
		a.Resume = &vault.ActionResume{}
	case "none":
	case "two":
		a.Suspend, a.Resume = &vault.ActionSuspend{}, &vault.ActionResume{}
	case "policy":
		if len(p) != 4 {
			return a, fmt.Errorf("bad action %q", s)
		}
		addr, ok := n.addrByName(p[1])
		if !ok {
			return a, fmt.Errorf("unknown account %q", p[1])
		}
		var lim, iv int64
		fmt.Sscanf(p[2], "%d", &lim)
		fmt.Sscanf(p[3], "%d", &iv)
		a.UpdateWithdrawPolicy = &vault.ActionUpdateWithdrawPolicy{Address: addr, Policy: vault.WithdrawPolicy{LimitAmount: qq(lim), LimitInterval: uint64(iv)}}
	case "authority":
		if len(p) != 3 {
			return a, fmt.Errorf("bad action %q", s)
		}
		au, err := n.parseAuthority(p[2])
		if err != nil {
			return a, err
		}
		ua := &vault.ActionUpdateAuthority{}
		if p[1] == "admin" {
			ua.AdminAuthority = &au
		} else {
			ua.SuspendAuthority = &au
		}
		a.UpdateAuthority = ua
	case "exec":
		switch {
		case len(p) == 4 && p[1] == "transfer":
			addr, ok := n.addrByName(p[2])
			if !ok {
				return a, fmt.Errorf("unknown account %q", p[2])
			}
			var amt int64
			fmt.Sscanf(p[3], "%d", &amt)
			a.ExecuteMessage = &vault.ActionExecuteMessage{Method: staking.MethodTransfer, Body: cbor.Marshal(&staking.Transfer{To: addr, Amount: qq(amt)})}
		case len(p) == 2 && p[1] == "badmethod":
			a.ExecuteMessage = &vault.ActionExecuteMessage{Method: transaction.MethodName("nosuch.Method"), Body: cbor.Marshal(map[string]int{"x": 1})}
		default:
			return a, fmt.Errorf("bad action %q", s)
		}
	default:
		return a, fmt.Errorf("bad action %q", s)
	}
	return a, nil
}

// actionString is the inverse of parseAction for what the state stores.
func (n *cnNet) actionString(a *vault.Action) string {
	switch {
	case a.Suspend != nil && a.Resume != nil:
		return "two"
	case a.Suspend != nil:
		return "suspend"
	case a.Resume != nil:
		return "resume"
	case a.UpdateWithdrawPolicy != nil:
		p := a.UpdateWithdrawPolicy
		return fmt.Sprintf("policy:%s:%d:%d", n.nameOf(p.Address), qi(&p.Policy.LimitAmount), p.Policy.LimitInterval)
	case a.UpdateAuthority != nil:
		if a.UpdateAuthority.AdminAuthority != nil {
			return "authority:admin:" + n.authorityString(a.UpdateAuthority.AdminAuthority)
		}
		if a.UpdateAuthority.SuspendAuthority != nil {
			return "authority:suspend:" + n.authorityString(a.UpdateAuthority.SuspendAuthority)
		}
		return "authority:none"
	case a.ExecuteMessage != nil:
		if a.ExecuteMessage.Method == staking.MethodTransfer {
			var t staking.Transfer
			if cbor.Unmarshal(a.ExecuteMessage.Body, &t) == nil {
				return fmt.Sprintf("exec:transfer:%s:%d", n.nameOf(t.To), qi(&t.Amount))
			}
		}
		return "exec:badmethod"
	}
	return "none"
}

// actionRecord is the uniform record form of an action (every field present) that TraceVault.tla compares and executes.
func (n *cnNet) actionRecord(a *vault.Action) map[string]any {
	r := map[string]any{"k": "none", "addr": "", "limit": int64(0), "interval": int64(0), "which": "", "a": []string{}, "t": int64(0), "amount": int64(0)}
	names := func(au *vault.Authority) []string {
		o := []string{}
		for _, x := range au.Addresses {
			o = append(o, n.nameOf(x))
		}
		return o
	}
	switch {
	case a.Suspend != nil && a.Resume != nil:
		r["k"] = "two"
	case a.Suspend != nil:
		r["k"] = "suspend"
	case a.Resume != nil:
		r["k"] = "resume"
	case a.UpdateWithdrawPolicy != nil:
		p := a.UpdateWithdrawPolicy
		r["k"], r["addr"], r["limit"], r["interval"] = "policy", n.nameOf(p.Address), qi(&p.Policy.LimitAmount), int64(min(p.Policy.LimitInterval, 1<<30))
	case a.UpdateAuthority != nil:
		r["k"] = "authority"
		switch {
		case a.UpdateAuthority.AdminAuthority != nil && a.UpdateAuthority.SuspendAuthority != nil:
			r["which"] = "both" // (not generated)
		case a.UpdateAuthority.AdminAuthority != nil:
			r["which"], r["a"], r["t"] = "admin", names(a.UpdateAuthority.AdminAuthority), int64(a.UpdateAuthority.AdminAuthority.Threshold)
		case a.UpdateAuthority.SuspendAuthority != nil:
			r["which"], r["a"], r["t"] = "suspend", names(a.UpdateAuthority.SuspendAuthority), int64(a.UpdateAuthority.SuspendAuthority.Threshold)
		}
	case a.ExecuteMessage != nil:
		r["k"], r["which"] = "exec", "other"
		if a.ExecuteMessage.Method == staking.MethodTransfer {
			var t staking.Transfer
			if cbor.Unmarshal(a.ExecuteMessage.Body, &t) == nil {
				r["which"], r["addr"], r["amount"] = "transfer", n.nameOf(t.To), qi(&t.Amount)
			}
		}
	}
	return r
}

// vaultRequest is what a vault transaction asks for, in the form TraceVault.tla reads (built from the same parsed values the
// transaction body was built from).
func (n *cnNet) vaultRequest(spec *cnTxSpec) map[string]any {
	auth := func(s string) map[string]any {
		au, err := n.parseAuthority(s)
		if err != nil {
			return map[string]any{"a": []string{}, "t": int64(0)}
		}
		o := []string{}
		for _, x := range au.Addresses {
			o = append(o, n.nameOf(x))
		}
		return map[string]any{"a": o, "t": int64(au.Threshold)}
	}
	switch spec.Kind {
	case "vcreate":
		parts := strings.Split(spec.VAct, ";")
		if len(parts) != 2 {
			return nil
		}
		return map[string]any{"admin": auth(parts[0]), "susp": auth(parts[1])}
	case "vauth":
		act, err := n.parseAction(spec.VAct)
		if err != nil {
			return nil
		}
		return map[string]any{"vault": spec.To, "nonce": spec.Amount, "act": n.actionRecord(&act)}
	case "vcancel":
		return map[string]any{"vault": spec.To, "nonce": spec.Amount}
	}
	return nil
}

// buildVaultTx builds the transactions of the vault application (called from buildTx).
func (n *cnNet) buildVaultTx(spec *cnTxSpec, fee *transaction.Fee) (*transaction.Transaction, error) {
	switch spec.Kind {
	case "vcreate":
		parts := strings.Split(spec.VAct, ";")
		if len(parts) != 2 {
			return nil, fmt.Errorf("bad vcreate %q", spec.VAct)
		}
		adm, err := n.parseAuthority(parts[0])
		if err != nil {
			return nil, err
		}
		sus, err := n.parseAuthority(parts[1])
		if err != nil {
			return nil, err
		}
		return vault.NewCreateTx(spec.Nonce, fee, &vault.Create{AdminAuthority: adm, SuspendAuthority: sus}), nil
	case "vauth":
		va, ok := n.addrByName(spec.To)
		if !ok {
			va = staking.NewModuleAddress(vault.ModuleName, "no such vault "+spec.To)
		}
		act, err := n.parseAction(spec.VAct)
		if err != nil {
			return nil, err
		}
		return vault.NewAuthorizeActionTx(spec.Nonce, fee, &vault.AuthorizeAction{Vault: va, Nonce: uint64(spec.Amount), Action: act}), nil
	case "vcancel":
		va, ok := n.addrByName(spec.To)
		if !ok {
			va = staking.NewModuleAddress(vault.ModuleName, "no such vault "+spec.To)
		}
		return vault.NewCancelActionTx(spec.Nonce, fee, &vault.CancelAction{Vault: va, Nonce: uint64(spec.Amount)}), nil
	}
	return nil, fmt.Errorf("unknown vault tx kind %s", spec.Kind)
}

// vaultProjection reads the complete vault state through the exported immutable-state readers.
func (n *cnNet) vaultProjection(t mkvs.ImmutableKeyValueTree) ([]map[string]any, error) {
	ctx := context.Background()
	st := vaultState.NewImmutableState(t)
	vs, err := st.Vaults(ctx)
	if err != nil {
		return nil, err
	}
	// names are given in a deterministic order: known vaults first, new ones by (creator, id)
	sort.Slice(vs, func(i, j int) bool {
		ci, cj := n.nameOf(vs[i].Creator), n.nameOf(vs[j].Creator)
		if ci != cj {
			return ci < cj
		}
		return vs[i].ID < vs[j].ID
	})
	out := []map[string]any{}
	for _, v := range vs {
		addr := v.Address()
		name := n.vaultName(addr)
		pas, err := st.PendingActions(ctx, addr)
		if err != nil {
			return nil, err
		}
		pend := []map[string]any{}
		for _, pa := range pas {
			by := []string{}
			for _, a := range pa.AuthorizedBy {
				by = append(by, n.nameOf(a))
			}
			pend = append(pend, map[string]any{"nonce": int64(pa.Nonce), "by": by, "act": n.actionRecord(&pa.Action), "desc": n.actionString(&pa.Action)})
		}
		ass, err := st.AddressStates(ctx, addr)
		if err != nil {
			return nil, err
		}
		states := []map[string]any{}
		for a, as := range ass {
			states = append(states, map[string]any{"addr": n.nameOf(a), "limit": qi(&as.WithdrawPolicy.LimitAmount), "interval": int64(min(as.WithdrawPolicy.LimitInterval, 1<<30)),
				"bucket": int64(min(as.CurrentBucket, 1<<30)), "amount": qi(&as.CurrentAmount)})
		}
		sort.Slice(states, func(i, j int) bool { return states[i]["addr"].(string) < states[j]["addr"].(string) })
		names := func(a *vault.Authority) []string {
			o := []string{}
			for _, x := range a.Addresses {
				o = append(o, n.nameOf(x))
			}
			return o
		}
		out = append(out, map[string]any{"id": name, "creator": n.nameOf(v.Creator), "vid": int64(v.ID), "active": v.IsActive(), "nonce": int64(v.Nonce),
			"admin":   map[string]any{"a": names(&v.AdminAuthority), "t": int64(v.AdminAuthority.Threshold)},
			"susp":    map[string]any{"a": names(&v.SuspendAuthority), "t": int64(v.SuspendAuthority.Threshold)},
			"pending": pend, "states": states})
	}
	sort.Slice(out, func(i, j int) bool { return out[i]["id"].(string) < out[j]["id"].(string) })
	return out, nil
}

// genVault proposes vault transactions for this block from the vault state observed at the end of the previous block.
func (d *cnDriver) genVault(nonceBump map[string]uint64) []cnTxMeta {
	n := d.net
	var metas []cnTxMeta
	users := n.users
	uname := func() string { return users[d.rng.Intn(len(users))].name }
	add := func(sp *cnTxSpec) {
		sp.Nonce = uint64(d.acctField(sp.Signer, "n")) + nonceBump[sp.Signer]
		raw, err := n.buildTx(sp, d.rng)
		if err != nil {
			return
		}
		nonceBump[sp.Signer]++
		metas = append(metas, cnTxMeta{sp, raw})
	}
	pick := func(xs []string) string { return xs[d.rng.Intn(len(xs))] }
	members := func(k int) []string {
		perm := d.rng.Perm(len(users))
		var o []string
		for i := 0; i < k && i < len(perm); i++ {
			o = append(o, users[perm[i]].name)
		}
		return o
	}
	if len(d.lastVault) < 2 && d.rng.Intn(5) == 0 || d.rng.Intn(40) == 0 {
		adm := members(1 + d.rng.Intn(2))
		sus := members(1 + d.rng.Intn(2))
		at, st := 1+d.rng.Intn(len(adm)), 1+d.rng.Intn(len(sus))
		validity := "ok"
		switch d.rng.Intn(14) {
		case 0:
			at, validity = 0, "badauthority" // zero threshold
		case 1:
			st, validity = len(sus)+1, "badauthority" // threshold above the number of members
		case 2:
			adm, validity = append(adm, adm[0]), "badauthority" // duplicate member
		case 3:
			sus, st, validity = nil, 1, "badauthority" // no members
		}
		add(&cnTxSpec{Kind: "vcreate", Signer: uname(), VAct: fmt.Sprintf("%s/%d;%s/%d", strings.Join(adm, ","), at, strings.Join(sus, ","), st),
			Fee: int64(d.rng.Intn(3)), Gas: 12000, Validity: validity})
	}
	for _, v := range d.lastVault {
		name := v["id"].(string)
		nonce := v["nonce"].(int64)
		admin := v["admin"].(map[string]any)["a"].([]string)
		susp := v["susp"].(map[string]any)["a"].([]string)
		pend, _ := v["pending"].([]map[string]any)
		bal := d.acctField(name, "g")
		// deposits
		if d.rng.Intn(4) == 0 {
			u := uname()
			add(&cnTxSpec{Kind: "transfer", Signer: u, To: name, Amount: 1 + int64(d.rng.Intn(60)), Gas: 2000, Validity: "ok"})
		}
		// actions
		if d.rng.Intn(2) == 0 {
			who := pick(admin)
			validity := "ok"
			switch d.rng.Intn(8) {
			case 0:
				who = pick(susp)
			case 1:
				who = uname() // maybe without any authority
			}
			var act string
			switch {
			case len(pend) > 0 && d.rng.Intn(3) > 0:
				act = pend[0]["desc"].(string) // a further authorization of the pending action
			default:
				switch d.rng.Intn(12) {
				case 0, 1, 2, 3:
					lim := []int64{0, 5, 20, 20, 200, 1000}[d.rng.Intn(6)]
					iv := []int64{0, 1, 3, 3, 10}[d.rng.Intn(5)]
					act = fmt.Sprintf("policy:%s:%d:%d", uname(), lim, iv)
				case 4:
					act = "suspend"
				case 5, 6:
					act = "resume"
				case 7:
					m := members(1 + d.rng.Intn(2))
					thr := 1 + d.rng.Intn(len(m))
					if d.rng.Intn(5) == 0 {
						thr = len(m) + 1 // invalid: refused when the transaction is checked
						validity = "badaction"
					}
					act = fmt.Sprintf("authority:%s:%s/%d", pick([]string{"admin", "suspend"}), strings.Join(m, ","), thr)
				case 8, 9:
					amt := []int64{0, 1, bal / 2, bal, bal + 1, bal + 50}[d.rng.Intn(6)]
					act = fmt.Sprintf("exec:transfer:%s:%d", uname(), amt)
				case 10:
					act = "exec:badmethod"
				default:
					act, validity = pick([]string{"none", "two"}), "badaction"
				}
			}
			an := nonce
			if d.rng.Intn(10) == 0 {
				an, validity = nonce+int64(1+d.rng.Intn(2)), "badvnonce"
				if nonce > 0 && d.rng.Intn(2) == 0 {
					an = nonce - 1
				}
			}
			gas := uint64(8000)
			if d.rng.Intn(4) == 0 {
				// enough for the transaction's bytes and the authorization itself, not (or just not) for what the action goes on to
				// execute: the size is taken from a first build (gas limits of this magnitude encode in the same number of bytes)
				probe := &cnTxSpec{Kind: "vauth", Signer: who, To: name, Amount: an, VAct: act, Nonce: uint64(d.acctField(who, "n")) + nonceBump[who], Gas: 5300, Validity: validity}
				if raw, err := n.buildTx(probe, d.rng); err == nil {
					gas = uint64(len(raw)) + 5000 + uint64(d.rng.Intn(14))
				}
			}
			add(&cnTxSpec{Kind: "vauth", Signer: who, To: name, Amount: an, VAct: act, Fee: int64(d.rng.Intn(2)), Gas: gas, Validity: validity})
			if d.rng.Intn(4) == 0 && len(admin) > 1 {
				// the other admin authorizes the same action in the same block
				other := admin[0]
				if other == who {
					other = admin[1]
				}
				add(&cnTxSpec{Kind: "vauth", Signer: other, To: name, Amount: an, VAct: act, Gas: 8000, Validity: validity})
			}
		}
		if len(pend) > 0 && d.rng.Intn(6) == 0 || d.rng.Intn(30) == 0 {
			who := pick(append(append([]string{}, admin...), susp...))
			if d.rng.Intn(5) == 0 {
				who = uname()
			}
			add(&cnTxSpec{Kind: "vcancel", Signer: who, To: name, Amount: nonce, Gas: 8000, Validity: "ok"})
		}
		// withdrawals through the account hook: by accounts with and without a policy, within / at / above the remaining quota,
		// above the vault's balance (authorized by the policy, refused by the ledger)
		if d.rng.Intn(2) == 0 {
			who := uname()
			var lim, used int64 = -1, 0
			if sts, ok := v["states"].([]map[string]any); ok {
				if len(sts) > 0 && d.rng.Intn(4) > 0 {
					s := sts[d.rng.Intn(len(sts))]
					who, lim, used = s["addr"].(string), s["limit"].(int64), s["amount"].(int64)
				}
			}
			if _, ok := n.account(who); ok {
				amt := int64(1 + d.rng.Intn(30))
				if lim >= 0 {
					amt = []int64{1, lim / 2, lim - used, lim - used + 1, lim, lim + 1, bal + 1, bal + 7}[d.rng.Intn(8)]
					if amt < 0 {
						amt = 0
					}
				}
				add(&cnTxSpec{Kind: "withdraw", Signer: who, To: name, Amount: amt, Fee: int64(d.rng.Intn(2)), Gas: 2000, Validity: "ok"})
				if d.rng.Intn(3) == 0 {
					add(&cnTxSpec{Kind: "withdraw", Signer: who, To: name, Amount: 1 + int64(d.rng.Intn(10)), Gas: 2000, Validity: "ok"})
				}
			}
		}
	}
	return metas
}
