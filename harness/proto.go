package main

// C16, runtime host protocol: TLC-emitted scripts of HostProto.tla (host calls, cancellations, response frames of the
// untrusted runtime for pending / answered / unknown ids, a peer that stops reading, Close) are replayed on the real
// protocol.Connection over an in-memory pipe with a raw-frame peer.  Whatever the script, Close() must return, every
// Call must return, a caller gets at most the answer to its own request, and nothing may panic.

import (
	"context"
	"encoding/json"
	"flag"
	"fmt"
	"math/rand"
	"net"
	"os"
	"runtime"
	"sync"
	"sync/atomic"
	"time"

	"github.com/oasisprotocol/oasis-core/go/common/cbor"
	"github.com/oasisprotocol/oasis-core/go/common/logging"
	"github.com/oasisprotocol/oasis-core/go/common/version"
	"github.com/oasisprotocol/oasis-core/go/runtime/host/protocol"
)

func init() {
	register("proto-replay", "replay HostProto.tla scripts on the real runtime host protocol connection", protoReplay)
}

type hpStep struct {
	A  string `json:"a"`
	ID uint64 `json:"id"`
}

type hpScript struct {
	Script []hpStep `json:"script"`
}

type hpHandler struct{}

func (hpHandler) Handle(context.Context, *protocol.Body) (*protocol.Body, error) {
	return &protocol.Body{Empty: &protocol.Empty{}}, nil
}

// hpPeer is the untrusted runtime: it speaks raw frames on its end of the pipe.
type hpPeer struct {
	conn    net.Conn
	codec   *cbor.MessageCodec
	mu      sync.Mutex
	reading *sync.Cond
	stalled bool
	seen    atomic.Int64 // request frames read so far
	wmu     sync.Mutex
	replies map[uint64]int // response frames read, by id (answers to the peer's own requests)
}

func (p *hpPeer) readLoop() {
	for {
		p.mu.Lock()
		for p.stalled {
			p.reading.Wait()
		}
		p.mu.Unlock()
		var m protocol.Message
		if err := p.codec.Read(&m); err != nil {
			return
		}
		if m.MessageType == protocol.MessageRequest {
			if m.Body.RuntimeInfoRequest != nil { // the handshake is answered honestly
				_ = p.write(&protocol.Message{ID: m.ID, MessageType: protocol.MessageResponse, Body: protocol.Body{RuntimeInfoResponse: &protocol.RuntimeInfoResponse{
					ProtocolVersion: version.RuntimeHostProtocol, RuntimeVersion: version.Version{Major: 1}}}})
			}
			p.seen.Add(1)
		} else if m.MessageType == protocol.MessageResponse {
			p.mu.Lock()
			p.replies[m.ID]++
			p.mu.Unlock()
		}
	}
}

func (p *hpPeer) write(m *protocol.Message) error {
	p.wmu.Lock()
	defer p.wmu.Unlock()
	_ = p.conn.SetWriteDeadline(time.Now().Add(2 * time.Second))
	return p.codec.Write(m)
}

func (p *hpPeer) setStalled(v bool) {
	p.mu.Lock()
	p.stalled = v
	p.mu.Unlock()
	p.reading.Broadcast()
}

type hpOutcome struct {
	Problem string   `json:"problem,omitempty"`
	Script  []hpStep `json:"script"`
	Calls   []string `json:"calls"`
}

func hpRun(sc *hpScript, settle time.Duration) (out hpOutcome) {
	out.Script = sc.Script
	a, b := net.Pipe()
	peer := &hpPeer{conn: b, codec: cbor.NewMessageCodec(b, "verif-peer"), replies: map[uint64]int{}}
	var preqs []uint64
	peer.reading = sync.NewCond(&peer.mu)
	go peer.readLoop()
	defer b.Close()
	defer peer.setStalled(false)

	conn, err := protocol.NewConnection(logging.GetLogger("verif/hostproto"), runtimeID("R0"), hpHandler{})
	if err != nil {
		out.Problem = "setup: " + err.Error()
		return
	}
	ictx, icancel := context.WithTimeout(context.Background(), 3*time.Second)
	_, err = conn.InitHost(ictx, a, &protocol.HostInfo{ConsensusBackend: "verif", ConsensusChainContext: "verif"})
	icancel()
	if err != nil {
		out.Problem = "setup: InitHost: " + err.Error()
		return
	}
	base := peer.seen.Load()

	type callRec struct {
		cancel context.CancelFunc
		done   chan string
	}
	calls := map[uint64]*callRec{}
	var order []uint64
	nCalls := int64(0)
	closedCh := make(chan struct{})
	closing := false
	for _, st := range sc.Script {
		switch st.A {
		case "call":
			ctx, cancel := context.WithCancel(context.Background())
			rec := &callRec{cancel: cancel, done: make(chan string, 1)}
			calls[st.ID] = rec
			order = append(order, st.ID)
			nCalls++
			go func() {
				res := "ok"
				if perr := guard(func() {
					rsp, cerr := conn.Call(ctx, &protocol.Body{RuntimePingRequest: &protocol.Empty{}})
					switch {
					case cerr != nil:
						res = "err"
					case rsp == nil || rsp.Empty == nil:
						res = "foreign-answer"
					}
				}); perr != nil {
					res = "panic: " + perr.Error()
				}
				rec.done <- res
			}()
			// let the request reach the peer unless the peer is not reading
			deadline := time.Now().Add(300 * time.Millisecond)
			for peer.seen.Load() < base+nCalls && time.Now().Before(deadline) {
				peer.mu.Lock()
				stalled := peer.stalled
				peer.mu.Unlock()
				if stalled {
					break
				}
				time.Sleep(200 * time.Microsecond)
			}
		case "resp":
			// ids of the model: 1.. are the host's calls (the handshake used id 0, an id that was answered long ago)
			if werr := peer.write(&protocol.Message{ID: st.ID, MessageType: protocol.MessageResponse, Body: protocol.Body{Empty: &protocol.Empty{}}}); werr != nil && !closing {
				out.Problem = "peer could not deliver a frame: " + werr.Error()
			}
		case "preq":
			// a request of the runtime to the host (ids far from the host's own): well-formed, or without any body field
			id := 9000 + st.ID
			body := protocol.Body{HostLocalStorageGetRequest: &protocol.HostLocalStorageGetRequest{Key: []byte("k")}}
			if st.ID%2 == 0 {
				body = protocol.Body{}
			}
			preqs = append(preqs, id)
			if werr := peer.write(&protocol.Message{ID: id, MessageType: protocol.MessageRequest, Body: body}); werr != nil && !closing {
				out.Problem = "peer could not deliver a request frame: " + werr.Error()
			}
		case "cancel":
			if rec := calls[st.ID]; rec != nil {
				rec.cancel()
			}
		case "stall":
			peer.setStalled(true)
		case "resume":
			peer.setStalled(false)
		case "close":
			closing = true
			go func() {
				_ = guard(func() { conn.Close() })
				close(closedCh)
			}()
		}
		time.Sleep(settle)
	}
	if !closing {
		go func() {
			_ = guard(func() { conn.Close() })
			close(closedCh)
		}()
	}
	select {
	case <-closedCh:
	case <-time.After(3 * time.Second):
		out.Problem = "hang: Close() did not return within 3s"
	}
	peer.mu.Lock()
	for _, id := range preqs {
		if n := peer.replies[id]; n > 1 && out.Problem == "" {
			out.Problem = fmt.Sprintf("reply: %d responses to one request of the runtime", n)
		}
	}
	peer.mu.Unlock()
	for _, id := range order {
		select {
		case r := <-calls[id].done:
			out.Calls = append(out.Calls, fmt.Sprintf("%d:%s", id, r))
			if r != "ok" && r != "err" && out.Problem == "" {
				out.Problem = fmt.Sprintf("call %d: %s", id, r)
			}
		case <-time.After(2 * time.Second):
			out.Calls = append(out.Calls, fmt.Sprintf("%d:stuck", id))
			if out.Problem == "" {
				out.Problem = fmt.Sprintf("hang: Call %d did not return after Close()", id)
			}
		}
		calls[id].cancel()
	}
	return
}

func protoReplay(args []string) int {
	fs := flag.NewFlagSet("proto-replay", flag.ExitOnError)
	in := fs.String("in", "-", "scripts (ndjson; one JSON string or object per line)")
	out := fs.String("out", "-", "summary JSON")
	every := fs.Int("every", 1, "replay every k-th script")
	random := fs.Int("random", 0, "additional seeded random scripts (longer than the model's)")
	seed := fs.Int64("seed", 1, "seed")
	fs.Parse(args)
	r, err := openIn(*in)
	if err != nil {
		return 2
	}
	defer r.Close()
	var (
		mu        sync.Mutex
		nScripts  int
		nRun      int
		problems  []hpOutcome
		kinds     = map[string]int{}
		callStats = map[string]int{}
	)
	jobs := make(chan *hpScript, 64)
	var wg sync.WaitGroup
	nw := runtime.NumCPU()
	for w := 0; w < nw; w++ {
		wg.Add(1)
		go func() {
			defer wg.Done()
			for sc := range jobs {
				o := hpRun(sc, 300*time.Microsecond)
				mu.Lock()
				nRun++
				for _, c := range o.Calls {
					callStats[c[2:]]++
				}
				if o.Problem != "" {
					kinds[o.Problem[:min(len(o.Problem), 24)]]++
					if len(problems) < 10 {
						problems = append(problems, o)
					}
				}
				mu.Unlock()
			}
		}()
	}
	sc := lineReader(r)
	for sc.Scan() {
		line := sc.Bytes()
		if len(line) == 0 {
			continue
		}
		var s hpScript
		if line[0] == '"' {
			var inner string
			if json.Unmarshal(line, &inner) != nil || json.Unmarshal([]byte(inner), &s) != nil {
				continue
			}
		} else if line[0] == '{' {
			if json.Unmarshal(line, &s) != nil {
				continue
			}
		} else {
			continue
		}
		nScripts++
		if nScripts%*every == 0 {
			cp := s
			jobs <- &cp
		}
	}
	rng := rand.New(rand.NewSource(*seed))
	for i := 0; i < *random; i++ {
		var s hpScript
		ncall := uint64(0)
		npreq := uint64(0)
		for k := 0; k < 6+rng.Intn(14); k++ {
			switch x := rng.Intn(10); {
			case x < 2 && ncall < 4:
				ncall++
				s.Script = append(s.Script, hpStep{"call", ncall})
			case x < 7:
				s.Script = append(s.Script, hpStep{"resp", uint64(rng.Intn(int(ncall) + 2))})
			case x == 7 && ncall > 0:
				s.Script = append(s.Script, hpStep{"cancel", 1 + uint64(rng.Intn(int(ncall)))})
			case x == 8:
				s.Script = append(s.Script, hpStep{[]string{"stall", "resume"}[rng.Intn(2)], 0})
			case x == 9:
				npreq++
				s.Script = append(s.Script, hpStep{"preq", npreq})
			}
		}
		s.Script = append(s.Script, hpStep{"close", 0})
		jobs <- &s
	}
	close(jobs)
	wg.Wait()
	w, err := openOut(*out)
	if err != nil {
		return 2
	}
	defer w.Close()
	w.Write(mustJSON(map[string]any{"scripts": nScripts, "replayed": nRun, "problems": problems, "problem_kinds": kinds, "call_outcomes": callStats}))
	fmt.Fprintln(os.Stderr, "proto-replay:", nRun, "scripts,", len(problems), "problems")
	return 0
}
