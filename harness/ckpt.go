package main

// C12 (+ restore part of C07): binding of specs/mkvs/Checkpoint.tla to go/storage/mkvs/checkpoint and the multipart
// insert paths of the badger and pathbadger node databases.
//
// ckpt-replay reads scenarios (contents, chunk size, chunker threads, restore schedule with corruptions, aborts, concurrent
// callers, crash points) emitted by TLC, executes them on the real code and records an ndjson trace of what happened; it
// also drives seeded large trees (-big).  The verdict is not taken here: specs/mkvs/TraceCheckpoint.tla evaluates the Rule
// on the recorded outcomes.  Differences from the model's predictions are only counted (MODEL-DRIFT).

import (
	"bytes"
	"context"
	"encoding/json"
	"errors"
	"flag"
	"fmt"
	"io"
	"os"
	"os/exec"
	"path/filepath"
	"runtime"
	"sort"
	"strconv"
	"strings"
	"sync"
	"sync/atomic"
	"time"

	"github.com/golang/snappy"

	"github.com/oasisprotocol/oasis-core/go/common/cbor"
	"github.com/oasisprotocol/oasis-core/go/common/crypto/hash"
	"github.com/oasisprotocol/oasis-core/go/storage/mkvs"
	"github.com/oasisprotocol/oasis-core/go/storage/mkvs/checkpoint"
	dbapi "github.com/oasisprotocol/oasis-core/go/storage/mkvs/db/api"
	"github.com/oasisprotocol/oasis-core/go/storage/mkvs/db/verifhook"
	"github.com/oasisprotocol/oasis-core/go/storage/mkvs/node"
	"github.com/oasisprotocol/oasis-core/go/storage/mkvs/syncer"
)

func init() {
	register("ckpt-replay", "replay Checkpoint.tla scenarios (create / restore schedules / corruptions / aborts / crashes) on real checkpoints and node databases", ckptReplay)
	register("ckpt-crashchild", "child process of ckpt-replay: runs a scenario prefix and dies at a hook point", ckptCrashChild)
}

// ---------------------------------------------------------------------------------------------------------------
// scenario records (emitted by Checkpoint.tla, or synthesised by the seeded driver)

type ckPred struct {
	Res      string `json:"res"`
	Latest   int    `json:"latest"`
	Has      []int  `json:"has"`
	Readable []int  `json:"readable"`
}

type ckStep struct {
	A      string  `json:"a"` // start | chunk | bad | par | gate | release | abortrs | startrs | abort | crash | finalize
	V      int     `json:"v,omitempty"`
	I      int     `json:"i,omitempty"`      // chunk index, 1-based
	Forged int     `json:"forged,omitempty"` // start: index whose manifest digest is forged (0 = genuine manifest)
	Kind   string  `json:"kind,omitempty"`   // bad: digest | proof (or a concrete variant)
	Is     []int   `json:"is,omitempty"`     // par: indices restored by concurrent callers
	At     string  `json:"at,omitempty"`     // crash: hook point name
	N      int     `json:"n,omitempty"`      // crash: which hit of the point (0-based)
	Op     *ckStep `json:"op,omitempty"`     // crash: the interrupted operation
	Pred   *ckPred `json:"pred,omitempty"`
}

type ckModelChunk struct {
	Keys   []bstr `json:"keys"`
	Inodes int    `json:"inodes"`
}

type ckScenario struct {
	ID      int            `json:"id"`
	Kind    string         `json:"kind"`
	Backend string         `json:"be"`
	Vs      []int          `json:"vs,omitempty"` // versions the model speaks about (default 1, 2)
	M       [][2]bstr      `json:"m"`
	Size    uint64         `json:"size"`
	Threads int            `json:"threads"`
	Chunks  []ckModelChunk `json:"chunks"` // the model's chunk list (nil: no prediction)
	Steps   []ckStep       `json:"steps"`
	Big     *ckBigSpec     `json:"big,omitempty"`
}

// ---------------------------------------------------------------------------------------------------------------
// checkpoints of a tree

type ckCP struct {
	meta   *checkpoint.Metadata
	chunks [][]byte
}

func (c *ckCP) withVersion(v uint64) *ckCP {
	m := *c.meta
	m.Root.Version = v
	m.Chunks = append([]hash.Hash{}, c.meta.Chunks...)
	return &ckCP{meta: &m, chunks: c.chunks}
}

var ckTmpRoot = os.TempDir()

// source databases are shared between scenarios with the same contents (they are only read)
type ckSrc struct {
	ndb  dbapi.NodeDB
	root node.Root
	refs int
	used int64
}

var (
	ckSrcMu    sync.Mutex
	ckSrcCache = map[string]*ckSrc{}
	ckSrcClock int64
)

const ckSrcCap = 48

func ckAcquire(backend string, m [][2]bstr, v uint64) (*ckSrc, func(), error) {
	if len(m) > 64 {
		ndb, root, err := ckBuild(backend, m, v)
		if err != nil {
			return nil, nil, err
		}
		return &ckSrc{ndb: ndb, root: root}, func() { ndb.Close() }, nil
	}
	key := fmt.Sprintf("%s|%d|%s", backend, v, mustJSON(m))
	ckSrcMu.Lock()
	ckSrcClock++
	if s, ok := ckSrcCache[key]; ok {
		s.refs++
		s.used = ckSrcClock
		ckSrcMu.Unlock()
		return s, func() { ckSrcMu.Lock(); s.refs--; ckSrcMu.Unlock() }, nil
	}
	ckSrcMu.Unlock()
	ndb, root, err := ckBuild(backend, m, v)
	if err != nil {
		return nil, nil, err
	}
	ckSrcMu.Lock()
	defer ckSrcMu.Unlock()
	if s, ok := ckSrcCache[key]; ok { // built concurrently by another worker
		ndb.Close()
		s.refs++
		return s, func() { ckSrcMu.Lock(); s.refs--; ckSrcMu.Unlock() }, nil
	}
	if len(ckSrcCache) >= ckSrcCap {
		var oldK string
		var old *ckSrc
		for k, c := range ckSrcCache {
			if c.refs == 0 && (old == nil || c.used < old.used) {
				oldK, old = k, c
			}
		}
		if old != nil {
			old.ndb.Close()
			delete(ckSrcCache, oldK)
		}
	}
	s := &ckSrc{ndb: ndb, root: root, refs: 1, used: ckSrcClock}
	ckSrcCache[key] = s
	return s, func() { ckSrcMu.Lock(); s.refs--; ckSrcMu.Unlock() }, nil
}

// ckBuild commits the contents as version v of a fresh in-memory database and finalizes it.
func ckBuild(backend string, m [][2]bstr, v uint64) (dbapi.NodeDB, node.Root, error) {
	ndb, err := openNodeDB(backend, "")
	if err != nil {
		return nil, node.Root{}, err
	}
	t := mkvs.New(nil, ndb, node.RootTypeState)
	defer t.Close()
	for _, p := range m {
		val := []byte(p[1])
		if val == nil {
			val = []byte{}
		}
		if err = t.Insert(bgCtx, p[0], val); err != nil {
			ndb.Close()
			return nil, node.Root{}, err
		}
	}
	_, h, err := t.Commit(bgCtx, mkNs, v)
	if err != nil {
		ndb.Close()
		return nil, node.Root{}, err
	}
	root := node.Root{Namespace: mkNs, Version: v, Type: node.RootTypeState, Hash: h}
	if err = ndb.Finalize([]node.Root{root}); err != nil {
		ndb.Close()
		return nil, node.Root{}, err
	}
	return ndb, root, nil
}

var ckCreates atomic.Int64

// ckCreate creates a checkpoint of root in a fresh directory and returns the metadata and the chunk bytes.
func ckCreate(ndb dbapi.NodeDB, root node.Root, size uint64, threads uint16) (*ckCP, error) {
	dir, err := os.MkdirTemp(ckTmpRoot, "ckpt-")
	if err != nil {
		return nil, err
	}
	defer os.RemoveAll(dir)
	fc, err := checkpoint.NewFileCreator(dir, ndb)
	if err != nil {
		return nil, err
	}
	if ckCreates.Add(1)%2 == 0 {
		// every second checkpoint is created in a directory that holds the leftovers of an earlier creation that was killed before
		// it wrote its metadata: the same root chunked with other parameters (larger chunks), metadata file removed
		var stale error
		if perr := guard(func() { _, stale = fc.CreateCheckpoint(bgCtx, root, size*3+17, 0) }); perr == nil && stale == nil {
			_ = filepath.Walk(dir, func(path string, info os.FileInfo, werr error) error {
				if werr == nil && !info.IsDir() && info.Name() == "meta" {
					_ = os.Remove(path)
				}
				return nil
			})
		}
	}
	var meta *checkpoint.Metadata
	if perr := guard(func() { meta, err = fc.CreateCheckpoint(bgCtx, root, size, threads) }); perr != nil {
		return nil, perr
	}
	if err != nil {
		return nil, err
	}
	cp := &ckCP{meta: meta}
	for i := range meta.Chunks {
		cm, err := meta.GetChunkMetadata(uint64(i))
		if err != nil {
			return nil, err
		}
		var buf bytes.Buffer
		if err = fc.GetCheckpointChunk(bgCtx, cm, &buf); err != nil {
			return nil, fmt.Errorf("chunk %d: %w", i, err)
		}
		cp.chunks = append(cp.chunks, buf.Bytes())
	}
	return cp, nil
}

func ckSameMeta(a, b *checkpoint.Metadata, ignoreVersion bool) bool {
	if a.Version != b.Version || !a.Root.Hash.Equal(&b.Root.Hash) || a.Root.Type != b.Root.Type || len(a.Chunks) != len(b.Chunks) {
		return false
	}
	if !ignoreVersion && a.Root.Version != b.Root.Version {
		return false
	}
	for i := range a.Chunks {
		if !a.Chunks[i].Equal(&b.Chunks[i]) {
			return false
		}
	}
	return true
}

// ckEntries decodes the proof entries of a chunk (snappy stream of CBOR byte strings).
func ckEntries(chunk []byte) ([][]byte, error) {
	dec := cbor.NewDecoder(snappy.NewReader(bytes.NewReader(chunk)))
	var out [][]byte
	for {
		var e []byte
		if err := dec.Decode(&e); err != nil {
			if errors.Is(err, io.EOF) {
				return out, nil
			}
			return nil, err
		}
		out = append(out, e)
	}
}

// ckEncode is writeChunk of chunk.go re-stated (needed to forge well-formed chunks).
func ckEncode(entries [][]byte) []byte {
	var buf bytes.Buffer
	sw := snappy.NewBufferedWriter(&buf)
	enc := cbor.NewEncoder(sw)
	for _, e := range entries {
		_ = enc.Encode(e)
	}
	_ = sw.Close()
	return buf.Bytes()
}

type ckDecoded struct {
	keys   [][]byte // keys of all leaves carried by the chunk (stand-alone and embedded), sorted
	inodes int      // fully included internal nodes
	depth  int      // deepest included node
}

// ckDecode lists what a chunk carries by walking its entries in pre-order (no depth limit), and separately asks the real
// proof verifier whether the chunk verifies against the root hash (verr).
func ckDecode(chunk []byte, root hash.Hash) (d *ckDecoded, verr error, err error) {
	entries, err := ckEntries(chunk)
	if err != nil {
		return nil, nil, err
	}
	d = &ckDecoded{}
	pos := 0
	var walk func(depth int) error
	walk = func(depth int) error {
		if pos >= len(entries) {
			return errors.New("malformed proof")
		}
		e := entries[pos]
		pos++
		if e == nil || len(e) == 0 || e[0] == 0x02 {
			return nil
		}
		n, uerr := node.UnmarshalBinary(e[1:])
		if uerr != nil {
			return uerr
		}
		if depth > d.depth {
			d.depth = depth
		}
		switch nd := n.(type) {
		case *node.LeafNode:
			d.keys = append(d.keys, append([]byte{}, nd.Key...))
		case *node.InternalNode:
			d.inodes++
			if nd.LeafNode != nil {
				if lf, ok := nd.LeafNode.Node.(*node.LeafNode); ok {
					d.keys = append(d.keys, append([]byte{}, lf.Key...))
				}
			}
			if werr := walk(depth + 1); werr != nil {
				return werr
			}
			return walk(depth + 1)
		}
		return nil
	}
	if err = walk(1); err != nil {
		return nil, nil, err
	}
	sort.Slice(d.keys, func(i, j int) bool { return bytes.Compare(d.keys[i], d.keys[j]) < 0 })
	var pv syncer.ProofVerifier
	_, verr = pv.VerifyProof(bgCtx, root, &syncer.Proof{V: 0, UntrustedRoot: root, Entries: entries})
	return d, verr, nil
}

// ---------------------------------------------------------------------------------------------------------------
// the world of a scenario: genuine and foreign checkpoints, creation-time rule checks

type ckWorld struct {
	vs       []int
	backend  string
	contents [][2]bstr
	size     uint64
	threads  uint16
	cp       map[int]*ckCP // genuine checkpoint of the tree as version 1 and 2
	foreign  map[int]*ckCP // checkpoint of another tree (same versions)
	root     hash.Hash
	froot    hash.Hash

	det, verify, union bool
	why                string
	model              string // match | differ | none
	depth              int
	chunkKeys          [][][]byte
}

func otherBackend(b string) string {
	if b == "badger" {
		return "pathbadger"
	}
	return "badger"
}

func sortedContents(m [][2]bstr) [][2]bstr {
	c := append([][2]bstr{}, m...)
	sort.Slice(c, func(i, j int) bool { return bytes.Compare(c[i][0], c[j][0]) < 0 })
	return c
}

func ckForeignContents(m [][2]bstr) [][2]bstr {
	f := append([][2]bstr{}, m...)
	f = append(f, [2]bstr{bstr{0xfe, 0xfd, 0x01}, bstr("foreign")})
	return sortedContents(f)
}

// ckNewWorld builds the source databases, creates the checkpoint (twice on the scenario's backend, once on the other backend
// at another version) and evaluates the creation clauses of the Rule: determinism, every chunk verifies against the root,
// the union of the chunks is the whole tree.
func ckNewWorld(sc *ckScenario, cheap bool) (*ckWorld, error) {
	vs := sc.Vs
	if len(vs) == 0 {
		vs = []int{1, 2}
	}
	w := &ckWorld{vs: vs, backend: sc.Backend, contents: sortedContents(sc.M), size: sc.Size, threads: uint16(sc.Threads),
		cp: map[int]*ckCP{}, foreign: map[int]*ckCP{}, det: true, verify: true, union: true, model: "none"}
	srcE, rel, err := ckAcquire(sc.Backend, w.contents, 1)
	if err != nil {
		return nil, fmt.Errorf("build source: %w", err)
	}
	defer rel()
	src, root := srcE.ndb, srcE.root
	w.root = root.Hash
	cp1, err := ckCreate(src, root, w.size, w.threads)
	if err != nil {
		return nil, fmt.Errorf("create checkpoint: %w", err)
	}
	w.cp[1], w.cp[2] = cp1, cp1.withVersion(2)
	// determinism: same backend again, other backend at another version
	cp1b, err := ckCreate(src, root, w.size, w.threads)
	if err != nil {
		return nil, fmt.Errorf("create checkpoint again: %w", err)
	}
	if !ckSameMeta(cp1.meta, cp1b.meta, false) {
		w.det, w.why = false, "second creation on the same database gives different metadata"
	}
	for i := range cp1.chunks {
		if i < len(cp1b.chunks) && !bytes.Equal(cp1.chunks[i], cp1b.chunks[i]) {
			w.det, w.why = false, fmt.Sprintf("second creation gives different bytes for chunk %d", i)
		}
	}
	if !cheap {
		src2E, rel2, err := ckAcquire(otherBackend(sc.Backend), w.contents, 2)
		if err != nil {
			return nil, fmt.Errorf("build source on other backend: %w", err)
		}
		defer rel2()
		src2, root2 := src2E.ndb, src2E.root
		if !root2.Hash.Equal(&root.Hash) {
			w.det, w.why = false, "root hash differs between backends"
		}
		cp2, err := ckCreate(src2, root2, w.size, w.threads)
		if err != nil {
			return nil, fmt.Errorf("create checkpoint on other backend: %w", err)
		}
		if !ckSameMeta(cp1.meta, cp2.meta, true) {
			w.det, w.why = false, fmt.Sprintf("metadata differs on %s at another version (%d vs %d chunks)", otherBackend(sc.Backend), len(cp1.meta.Chunks), len(cp2.meta.Chunks))
		}
	}
	// every chunk verifies; union of leaves = contents
	seen := map[string]bool{}
	for i, ch := range cp1.chunks {
		h := hash.NewFromBytes(ch)
		if !h.Equal(&cp1.meta.Chunks[i]) {
			w.verify, w.why = false, fmt.Sprintf("digest of chunk %d differs from the metadata", i)
		}
		d, verr, err := ckDecode(ch, root.Hash)
		if err != nil {
			w.verify, w.why = false, fmt.Sprintf("chunk %d cannot be decoded: %v", i, err)
			w.chunkKeys = append(w.chunkKeys, nil)
			continue
		}
		if verr != nil {
			w.verify = false
			if w.why == "" {
				w.why = fmt.Sprintf("chunk %d does not verify against the root: %v", i, firstWords(verr.Error()))
			}
		}
		if d.depth > w.depth {
			w.depth = d.depth
		}
		w.chunkKeys = append(w.chunkKeys, d.keys)
		for _, k := range d.keys {
			seen[string(k)] = true
		}
		if sc.Chunks != nil && w.model != "differ" {
			w.model = "match"
			if i >= len(sc.Chunks) || len(sc.Chunks[i].Keys) != len(d.keys) || sc.Chunks[i].Inodes != d.inodes {
				w.model = "differ"
			} else {
				mk := append([]bstr{}, sc.Chunks[i].Keys...)
				sort.Slice(mk, func(a, b int) bool { return bytes.Compare(mk[a], mk[b]) < 0 })
				for j := range mk {
					if !bytes.Equal(mk[j], d.keys[j]) {
						w.model = "differ"
					}
				}
			}
		}
	}
	if sc.Chunks != nil && len(sc.Chunks) != len(cp1.chunks) {
		w.model = "differ"
	}
	if len(seen) != len(w.contents) {
		w.union = false
		if w.why == "" {
			w.why = fmt.Sprintf("chunks carry %d of %d keys", len(seen), len(w.contents))
		}
	}
	for _, p := range w.contents {
		if !seen[string(p[0])] {
			w.union = false
			if w.why == "" {
				w.why = fmt.Sprintf("key %.16x in no chunk", []byte(p[0]))
			}
		}
	}
	// foreign checkpoint (another tree, same parameters)
	fsrcE, relf, err := ckAcquire(sc.Backend, ckForeignContents(w.contents), 1)
	if err != nil {
		return nil, fmt.Errorf("build foreign source: %w", err)
	}
	defer relf()
	fsrc, froot := fsrcE.ndb, fsrcE.root
	w.froot = froot.Hash
	fcp, err := ckCreate(fsrc, froot, w.size, w.threads)
	if err != nil {
		return nil, fmt.Errorf("create foreign checkpoint: %w", err)
	}
	w.foreign[1], w.foreign[2] = fcp, fcp.withVersion(2)
	return w, nil
}

// ---------------------------------------------------------------------------------------------------------------
// corrupted chunk variants

var ckDigestVariants = []string{"flip", "trunc", "swap", "foreign", "empty", "flipfirst"}
var ckProofVariants = []string{"pf-foreign", "pf-value", "pf-flipraw", "pf-drop", "pf-extra", "pf-hashentry"}

// ckCorrupt returns the bytes of a corrupted variant of chunk i (0-based) and the concrete variant used.
func (w *ckWorld) ckCorrupt(v int, i int, variant string) ([]byte, string) {
	cp := w.cp[v]
	good := cp.chunks[i]
	flip := func(pos int) []byte {
		b := append([]byte{}, good...)
		b[pos%len(b)] ^= 0x01
		return b
	}
	switch variant {
	case "flip":
		return flip(len(good) / 2), variant
	case "flipfirst":
		return flip(len(good) - 1), variant
	case "trunc":
		return append([]byte{}, good[:len(good)-1-len(good)/3]...), variant
	case "empty":
		return []byte{}, variant
	case "swap":
		for j := range cp.chunks {
			if j != i && !bytes.Equal(cp.chunks[j], good) {
				return cp.chunks[j], variant
			}
		}
		return flip(len(good) / 2), "flip"
	case "foreign", "pf-foreign":
		f := w.foreign[v].chunks
		for k := range f {
			j := (i + k) % len(f)
			if !bytes.Equal(f[j], good) && (len(cp.chunks) == 0 || !ckIsGenuine(cp, f[j])) {
				return f[j], variant
			}
		}
		return flip(len(good) / 2), map[string]string{"foreign": "flip", "pf-foreign": "pf-flipraw"}[variant]
	case "pf-flipraw":
		return flip(len(good) - 2), variant
	}
	// re-encoded variants
	entries, err := ckEntries(good)
	if err != nil || len(entries) == 0 {
		return flip(len(good) / 2), "pf-flipraw"
	}
	es := make([][]byte, len(entries))
	for k := range entries {
		es[k] = append([]byte(nil), entries[k]...)
		if entries[k] == nil {
			es[k] = nil
		}
	}
	switch variant {
	case "pf-value": // change the last byte of the last full entry (a leaf value or a label)
		for k := len(es) - 1; k >= 0; k-- {
			if len(es[k]) > 1 && es[k][0] == 0x01 {
				es[k][len(es[k])-1] ^= 0x01
				return ckEncode(es), variant
			}
		}
	case "pf-hashentry": // alter a subtree hash
		for k := range es {
			if len(es[k]) > 1 && es[k][0] == 0x02 {
				es[k][len(es[k])-1] ^= 0x01
				return ckEncode(es), variant
			}
		}
	case "pf-drop":
		if len(es) > 1 {
			return ckEncode(es[:len(es)-1]), variant
		}
	case "pf-extra":
		return ckEncode(append(es, nil)), variant
	}
	return ckEncode(append(es, []byte{0x02})), "pf-extra"
}

func ckIsGenuine(cp *ckCP, b []byte) bool {
	for _, c := range cp.chunks {
		if bytes.Equal(c, b) {
			return true
		}
	}
	return false
}

// ---------------------------------------------------------------------------------------------------------------
// executor: one target database + restorer driven by the steps of a scenario

type ckEvent map[string]any

type ckExec struct {
	w       *ckWorld
	id      int
	dir     string // "" = in-memory
	ndb     dbapi.NodeDB
	rs      checkpoint.Restorer
	mp      int // version for which the harness has a multipart insert open (0 none)
	doneV   int // version for which RestoreChunk reported completion in the running multipart insert (0 none)
	rsV     int // version of the manifest handed to the restorer
	forged  int // 1-based index with a forged digest in the current manifest
	fbytes  []byte
	fvar    string
	events  []ckEvent
	gate    *ckGate
	heavy   bool // large tree: observe visibility only at the mandatory points
	hung    bool // concurrent callers never returned: the scenario is abandoned
	salt    int
	pvCount map[string]int
}

type ckGate struct {
	i       int
	release chan struct{}
	reached chan struct{}
	done    chan ckEvent
}

// ckGateDB hands the restorer batches whose Commit, once it has returned, passes ckAfterCommit: the point at which a RestoreChunk
// caller has made its chunk durable and has not yet taken the restorer's lock again (no hook in the repository is needed: the
// restorer takes its node database as an interface).
type ckGateDB struct{ dbapi.NodeDB }

type ckGateBatch struct{ dbapi.Batch }

var ckAfterCommit atomic.Value // func()

func (d ckGateDB) NewBatch(oldRoot node.Root, version uint64, chunk bool) (dbapi.Batch, error) {
	b, err := d.NodeDB.NewBatch(oldRoot, version, chunk)
	if err != nil {
		return nil, err
	}
	return ckGateBatch{b}, nil
}

func (b ckGateBatch) Commit(root node.Root) error {
	err := b.Batch.Commit(root)
	if f, _ := ckAfterCommit.Load().(func()); f != nil {
		f()
	}
	return err
}

func (x *ckExec) open() error {
	ndb, err := openNodeDB(x.w.backend, x.dir)
	if err != nil {
		return err
	}
	x.ndb = ndb
	x.rs, err = checkpoint.NewRestorer(ckGateDB{ndb})
	x.mp, x.rsV, x.forged = 0, 0, 0
	return err
}

func (x *ckExec) close() {
	if x.hung {
		return // stuck callers hold the database's locks: Close would never return
	}
	if x.ndb != nil {
		x.ndb.Close()
		x.ndb = nil
	}
}

func (x *ckExec) rootAt(v int) node.Root {
	return node.Root{Namespace: mkNs, Version: uint64(v), Type: node.RootTypeState, Hash: x.w.root}
}

func ckReadStatus(ndb dbapi.NodeDB, root node.Root, c [][2]bstr) (string, string) {
	var msg string
	if perr := guard(func() { msg = ndReadBack(bgCtx, ndb, root, c) }); perr != nil {
		return "panic", firstWords(perr.Error())
	}
	switch {
	case msg == "":
		return "exact", ""
	case strings.HasPrefix(msg, "iteration error"):
		return "unreadable", msg
	case strings.HasPrefix(msg, "Get(") && !strings.HasSuffix(msg, "<nil>"):
		return "unreadable", msg
	}
	return "wrong", msg
}

// observe records what is visible of the restored root through the public query API.
func (x *ckExec) observe(e ckEvent, full bool) {
	latest := -1
	if v, ok := x.ndb.GetLatestVersion(); ok {
		latest = int(v)
	}
	e["latest"] = latest
	e["obs"] = full
	listed, has, exact, unreadable, wrong := []int{}, []int{}, []int{}, []int{}, []int{}
	foreign := false
	var msgs []string
	if full {
		for _, v := range x.w.vs {
			isListed := false
			roots, err := x.ndb.GetRootsForVersion(uint64(v))
			if err != nil {
				msgs = append(msgs, fmt.Sprintf("GetRootsForVersion(%d): %v", v, err))
			}
			for _, r := range roots {
				if r.Hash.Equal(&x.w.root) {
					isListed = true
				} else {
					foreign = true
					msgs = append(msgs, fmt.Sprintf("version %d lists root %s", v, r.Hash))
				}
			}
			if isListed {
				listed = append(listed, v)
			}
			h := x.ndb.HasRoot(x.rootAt(v))
			if h {
				has = append(has, v)
			}
			fr := node.Root{Namespace: mkNs, Version: uint64(v), Type: node.RootTypeState, Hash: x.w.froot}
			if !x.w.froot.Equal(&x.w.root) && x.ndb.HasRoot(fr) {
				foreign = true
				msgs = append(msgs, fmt.Sprintf("HasRoot(foreign root@%d)", v))
			}
			if h || isListed {
				st, msg := ckReadStatus(x.ndb, x.rootAt(v), x.w.contents)
				switch st {
				case "exact":
					exact = append(exact, v)
				case "unreadable":
					unreadable = append(unreadable, v)
				case "panic":
					e["panic"] = msg
					unreadable = append(unreadable, v)
				default:
					wrong = append(wrong, v)
				}
				if msg != "" {
					msgs = append(msgs, fmt.Sprintf("read@%d: %s", v, firstWords(msg)))
				}
			}
		}
	}
	e["listed"], e["has"], e["exact"], e["unreadable"], e["wrong"], e["foreign"] = listed, has, exact, unreadable, wrong, foreign
	e["inprog"] = x.mp
	if len(msgs) > 0 {
		e["msgs"] = strings.Join(msgs, "; ")
	}
}

func ckClassify(done bool, err error) (string, string) {
	switch {
	case err == nil && done:
		return "done", ""
	case err == nil:
		return "ok", ""
	case done:
		return "done-err", err.Error()
	case errors.Is(err, checkpoint.ErrNoRestoreInProgress):
		return "norestore", ""
	case errors.Is(err, checkpoint.ErrChunkAlreadyRestored):
		return "already", ""
	case errors.Is(err, checkpoint.ErrChunkCorrupted):
		return "corrupted", ""
	case errors.Is(err, checkpoint.ErrChunkProofVerificationFailed):
		return "prooffail", firstWords(err.Error())
	case errors.Is(err, checkpoint.ErrChunkNotFound):
		return "notfound", ""
	}
	return "error", firstWords(err.Error())
}

func (x *ckExec) restore(i int, data []byte) (res, msg string, panicked string) {
	var done bool
	var err error
	if perr := guard(func() { done, err = x.rs.RestoreChunk(bgCtx, uint64(i-1), bytes.NewReader(data)) }); perr != nil {
		return "panic", "", firstWords(perr.Error())
	}
	res, msg = ckClassify(done, err)
	return res, msg, ""
}

// manifest returns the manifest handed to the restorer for version v (forged at index f if f > 0).
func (x *ckExec) manifest(v, f int) *checkpoint.Metadata {
	cp := x.w.cp[v]
	m := *cp.meta
	m.Chunks = append([]hash.Hash{}, cp.meta.Chunks...)
	x.forged, x.fbytes, x.fvar = 0, nil, ""
	if f > 0 && f <= len(m.Chunks) {
		variant := ckProofVariants[(x.id+x.salt)%len(ckProofVariants)]
		x.salt++
		x.fbytes, x.fvar = x.w.ckCorrupt(v, f-1, variant)
		m.Chunks[f-1] = hash.NewFromBytes(x.fbytes)
		x.forged = f
	}
	return &m
}

// chunkBytes: the genuine bytes of chunk i of the manifest currently restored (or of version 1 if none).
func (x *ckExec) chunkBytes(i int) []byte {
	v := x.rsV
	if v == 0 {
		v = 1
	}
	cs := x.w.cp[v].chunks
	if i < 1 || i > len(cs) {
		return []byte{}
	}
	return cs[i-1]
}

func errStr(err error) string {
	if err == nil {
		return ""
	}
	return firstWords(err.Error())
}

// step executes one scenario step and returns its event.
func (x *ckExec) step(s *ckStep) ckEvent {
	e := ckEvent{"ev": s.A, "id": x.id}
	full := false
	perr := guard(func() {
		switch s.A {
		case "start":
			e["v"], e["forged"] = s.V, s.Forged
			err := x.ndb.StartMultipartInsert(uint64(s.V))
			e["mperr"] = errStr(err)
			if err == nil {
				x.mp = s.V
				x.doneV = 0
			}
			m := x.manifest(s.V, s.Forged)
			err = x.rs.StartRestore(bgCtx, m)
			e["rserr"] = errStr(err)
			if err == nil {
				x.rsV = s.V
			}
			e["variant"] = x.fvar
		case "startrs":
			e["v"], e["forged"] = s.V, s.Forged
			m := x.manifest(s.V, s.Forged)
			err := x.rs.StartRestore(bgCtx, m)
			e["rserr"] = errStr(err)
			if err == nil {
				x.rsV = s.V
			}
		case "chunk":
			e["i"] = s.I
			res, msg, p := x.restore(s.I, x.chunkBytes(s.I))
			e["res"], e["msg"] = res, msg
			if p != "" {
				e["panic"] = p
			}
			full = !x.heavy || (res != "ok" && res != "done" && res != "already")
			if res == "done" {
				x.rsV, x.doneV = 0, x.mp
			}
		case "bad":
			e["i"] = s.I
			var data []byte
			variant := s.Kind
			switch s.Kind {
			case "proof":
				data, variant = x.fbytes, x.fvar
				if x.forged != s.I || data == nil {
					// no forged manifest for this index: fall back to a digest corruption
					data, variant = x.w.ckCorrupt(max(x.rsV, 1), s.I-1, "flip")
				}
			case "digest":
				variant = ckDigestVariants[(x.id+x.salt)%len(ckDigestVariants)]
				x.salt++
				fallthrough
			default:
				data, variant = x.w.ckCorrupt(max(x.rsV, 1), s.I-1, variant)
			}
			e["kind"], e["variant"] = s.Kind, variant
			genuine := ckIsGenuine(x.w.cp[1], data)
			e["genuine"] = genuine
			// same: other bytes that decode to exactly the proof entries of the genuine chunk (the snappy encoding is not unique)
			same := false
			if good := x.chunkBytes(s.I); !genuine && len(good) > 0 {
				ea, erra := ckEntries(good)
				eb, errb := ckEntries(data)
				if erra == nil && errb == nil && len(ea) == len(eb) {
					same = true
					for k := range ea {
						if !bytes.Equal(ea[k], eb[k]) || (ea[k] == nil) != (eb[k] == nil) {
							same = false
						}
					}
				}
			}
			e["same"] = same
			res, msg, p := x.restore(s.I, data)
			e["res"], e["msg"] = res, msg
			if p != "" {
				e["panic"] = p
			}
			if res == "prooffail" {
				x.rsV = 0
			}
			if res == "done" {
				x.rsV, x.doneV = 0, x.mp
			}
			full = true
		case "par":
			e["is"] = s.Is
			res := make([]string, len(s.Is))
			var wg sync.WaitGroup
			var pmu sync.Mutex
			for k, i := range s.Is {
				wg.Add(1)
				data := x.chunkBytes(i)
				go func() {
					defer wg.Done()
					r, _, p := x.restore(i, data)
					res[k] = r
					if p != "" {
						pmu.Lock()
						e["panic"] = p
						pmu.Unlock()
					}
				}()
			}
			waited := make(chan struct{})
			go func() { wg.Wait(); close(waited) }()
			select {
			case <-waited:
			case <-time.After(ckHangWait()):
				ckHangs.Add(1)
				// concurrent RestoreChunk callers that never return: the restore cannot complete.  The database is abandoned
				// (its locks are held by the stuck callers); nothing further is observed in this scenario.
				x.hung = true
				pmu.Lock()
				e["panic"] = "hang: concurrent RestoreChunk callers did not return"
				pmu.Unlock()
				hres := make([]string, len(res))
				for k := range res {
					hres[k] = "hang"
				}
				e["res"] = hres
				return
			}
			e["res"] = res
			for _, r := range res {
				if r == "done" {
					x.rsV, x.doneV = 0, x.mp
				}
			}
			full = !x.heavy
		case "gate":
			e["i"] = s.I
			x.startGate(s.I, e, s.Kind == "post")
		case "release":
			if x.gate == nil {
				e["res"] = "nogate"
				break
			}
			close(x.gate.release)
			ge := <-x.gate.done
			e["i"] = x.gate.i
			for k, v := range ge {
				e[k] = v
			}
			if ge["res"] == "done" {
				x.rsV, x.doneV = 0, x.mp
			}
			x.gate = nil
			verifhook.Set(nil)
			ckAfterCommit.Store((func())(nil))
			hookMu.Unlock()
			full = true
		case "abortrs":
			e["err"] = errStr(x.rs.AbortRestore(bgCtx))
			x.rsV = 0
		case "abort":
			err1 := x.rs.AbortRestore(bgCtx)
			err2 := x.ndb.AbortMultipartInsert()
			e["err"] = errStr(err1) + errStr(err2)
			x.rsV, x.mp, x.doneV = 0, 0, 0
			full = true
		case "finalize":
			e["v"] = s.V
			if x.doneV != s.V || x.mp != s.V {
				// the caller finalizes only when RestoreChunk told it the restore is complete
				e["err"] = "skipped: no completion reported"
				full = true
				break
			}
			err := x.ndb.Finalize([]node.Root{x.rootAt(s.V)})
			e["err"] = errStr(err)
			if err == nil {
				x.mp, x.doneV = 0, 0
			}
			full = true
		default:
			e["err"] = "unknown step " + s.A
		}
	})
	if perr != nil {
		e["panic"] = firstWords(perr.Error())
	}
	if x.gate != nil {
		full = false // a caller sits inside the chunk commit holding the database's update lock
	}
	if x.hung {
		e["latest"], e["obs"], e["listed"], e["has"], e["exact"], e["unreadable"], e["wrong"], e["foreign"], e["inprog"] = -1, false, []int{}, []int{}, []int{}, []int{}, []int{}, false, x.mp
		return e
	}
	if operr := guard(func() { x.observe(e, full) }); operr != nil {
		e["panic"] = firstWords(operr.Error())
	}
	return e
}

// ckHangTimeout bounds concurrent RestoreChunk calls (they take milliseconds; VERIF_CK_HANG_S overrides).
var ckHangTimeout = func() time.Duration {
	if v, err := strconv.Atoi(os.Getenv("VERIF_CK_HANG_S")); err == nil && v > 0 {
		return time.Duration(v) * time.Second
	}
	return 60 * time.Second
}()

// ckHangs counts abandoned scenarios; once callers have been seen to hang, later scenarios wait only briefly (a defect that
// deadlocks concurrent callers would otherwise cost the full bound in every concurrent scenario).
var ckHangs atomic.Int32

func ckHangWait() time.Duration {
	if ckHangs.Load() >= 2 && ckHangTimeout > 5*time.Second {
		return 5 * time.Second
	}
	return ckHangTimeout
}

var ckGatePoints = map[string]bool{"badger.commit.mplog_flushed": true, "path.commit.seqno_committed": true}

// startGate starts RestoreChunk(i) in its own goroutine and blocks it at the first durable write of the chunk commit.
// The process-global hook is held until the matching release step.
func (x *ckExec) startGate(i int, e ckEvent, post bool) {
	hookMu.Lock()
	g := &ckGate{i: i, release: make(chan struct{}), reached: make(chan struct{}), done: make(chan ckEvent, 1)}
	x.gate = g
	data := x.chunkBytes(i)
	var gid atomic.Value
	gid.Store("")
	var once sync.Once
	if post {
		// held after the chunk's batch commit has returned (the chunk is durable), before the restorer's lock is taken again
		ckAfterCommit.Store(func() {
			if goid() == gid.Load().(string) {
				first := false
				once.Do(func() { first = true })
				if first {
					close(g.reached)
					<-g.release
				}
			}
		})
	}
	verifhook.Set(func(name string) {
		if !post && ckGatePoints[name] && goid() == gid.Load().(string) {
			first := false
			once.Do(func() { first = true })
			if first {
				close(g.reached)
				<-g.release
			}
		}
	})
	go func() {
		gid.Store(goid())
		res, msg, p := x.restore(i, data)
		ge := ckEvent{"res": res, "msg": msg}
		if p != "" {
			ge["panic"] = p
		}
		once.Do(func() { close(g.reached) }) // finished without reaching a commit (rejected)
		g.done <- ge
	}()
	select {
	case <-g.reached:
		e["gated"] = true
	case <-time.After(20 * time.Second):
		e["gated"] = false
	}
}

func (x *ckExec) abandonGate() {
	if x.gate != nil {
		close(x.gate.release)
		<-x.gate.done
		x.gate = nil
		verifhook.Set(nil)
		ckAfterCommit.Store((func())(nil))
		hookMu.Unlock()
	}
}

// ---------------------------------------------------------------------------------------------------------------
// crash injection (restore part of C07)

type ckCrashJob struct {
	Scenario ckScenario `json:"scenario"`
	First    int        `json:"first"` // first step of the segment this process executes
	Step     int        `json:"step"`  // index of the crash step
	Salt     int        `json:"salt"`
	Dir      string     `json:"dir"`
}

// child: execute the steps of the segment [First, Step) on the on-disk database (as left by the previous crash, or empty),
// writing one event per step to events.ndjson, then run the interrupted operation and die at the named point.
func ckptCrashChild(args []string) int {
	fs := flag.NewFlagSet("ckpt-crashchild", flag.ExitOnError)
	job := fs.String("job", "", "job JSON file")
	fs.Parse(args)
	var j ckCrashJob
	raw, err := os.ReadFile(*job)
	if err != nil || json.Unmarshal(raw, &j) != nil {
		fmt.Fprintln(os.Stderr, "ckpt-crashchild: bad job")
		return 2
	}
	ckTmpRoot = j.Dir
	w, err := ckNewWorldFor(&j.Scenario, true)
	if err != nil {
		fmt.Fprintln(os.Stderr, "ckpt-crashchild: world:", err)
		return 2
	}
	ef, err := os.Create(filepath.Join(j.Dir, "events.ndjson"))
	if err != nil {
		fmt.Fprintln(os.Stderr, "ckpt-crashchild:", err)
		return 2
	}
	x := &ckExec{w: w, id: j.Scenario.ID, dir: filepath.Join(j.Dir, "db"), heavy: j.Scenario.Big != nil, salt: j.Salt}
	if err = x.open(); err != nil {
		fmt.Fprintln(os.Stderr, "ckpt-crashchild: open:", err)
		return 2
	}
	for k := j.First; k < j.Step; k++ {
		e := x.step(&j.Scenario.Steps[k])
		ef.Write(append(mustJSON(e), '\n'))
		if x.hung {
			// concurrent callers never returned: the database's locks are held, nothing further can run on it
			ef.Write(append(mustJSON(ckEvent{"ev": "_state", "mp": x.mp, "salt": x.salt}), '\n'))
			os.Exit(6)
		}
	}
	ef.Write(append(mustJSON(ckEvent{"ev": "_state", "mp": x.mp, "salt": x.salt}), '\n'))
	cs := j.Scenario.Steps[j.Step]
	hits := 0
	verifhook.Set(func(name string) {
		if name == cs.At {
			if hits == cs.N {
				os.Exit(3) // abrupt process death: no deferred functions, no database close
			}
			hits++
		}
	})
	if cs.Op != nil {
		x.step(cs.Op)
	}
	fmt.Fprintln(os.Stderr, "ckpt-crashchild: point not reached")
	return 5
}

// crashSegment lets a child process execute steps [first, k) and die inside step k; it returns the child's events for the
// steps, followed by the crash event observed after reopening the database.
func (x *ckExec) crashSegment(sc *ckScenario, first, k int, self string) ([]ckEvent, string) {
	s := &sc.Steps[k]
	e := ckEvent{"ev": "crash", "id": x.id, "at": s.At, "n": s.N, "op": "", "i": 0, "v": 0, "reopen": "not reopened",
		"latest": -1, "obs": false, "listed": []int{}, "has": []int{}, "exact": []int{}, "unreadable": []int{}, "wrong": []int{}, "foreign": false, "inprog": 0}
	if s.Op != nil {
		e["op"], e["i"], e["v"] = s.Op.A, s.Op.I, s.Op.V
	}
	x.close()
	jdir := filepath.Dir(x.dir)
	jobFile := filepath.Join(jdir, "job.json")
	os.Remove(filepath.Join(jdir, "events.ndjson"))
	if err := os.WriteFile(jobFile, mustJSON(ckCrashJob{Scenario: *sc, First: first, Step: k, Salt: x.salt, Dir: jdir}), 0o644); err != nil {
		return nil, err.Error()
	}
	cctx, cancel := context.WithTimeout(context.Background(), 15*time.Minute) // a child that never ends is an infrastructure failure
	defer cancel()
	cmd := exec.CommandContext(cctx, self, "ckpt-crashchild", "-job", jobFile)
	out, err := cmd.CombinedOutput()
	code := 0
	if ee, ok := err.(*exec.ExitError); ok {
		code = ee.ExitCode()
	} else if err != nil {
		code = -1
	}
	e["child"] = code
	e["reached"] = code == 3
	if code != 3 && code != 5 && code != 6 { // 5: the point is not on the operation's path in this state; the operation completed
		return nil, fmt.Sprintf("child exit %d: %s", code, firstWords(strings.TrimSpace(string(out))))
	}
	var evs []ckEvent
	mp := 0
	raw, _ := os.ReadFile(filepath.Join(jdir, "events.ndjson"))
	for _, ln := range bytes.Split(raw, []byte{'\n'}) {
		if len(bytes.TrimSpace(ln)) == 0 {
			continue
		}
		var ce ckEvent
		dec := json.NewDecoder(bytes.NewReader(ln))
		dec.UseNumber()
		if err := dec.Decode(&ce); err != nil {
			return nil, "child events: " + err.Error()
		}
		if ce["ev"] == "_state" {
			if n, ok := ce["mp"].(json.Number); ok {
				v, _ := n.Int64()
				mp = int(v)
			}
			if n, ok := ce["salt"].(json.Number); ok {
				v, _ := n.Int64()
				x.salt = int(v)
			}
			continue
		}
		evs = append(evs, ckNormalize(ce))
	}
	if code == 6 {
		// the child's concurrent callers hung (recorded in its last event): the scenario ends there
		x.hung = true
		return evs, ""
	}
	if len(evs) != k-first {
		return nil, fmt.Sprintf("child recorded %d events for %d steps", len(evs), k-first)
	}
	if s.Op != nil && (s.Op.A == "abort" || s.Op.A == "chunk") {
		e["v"] = mp
	}
	var oerr error
	if perr := guard(func() { oerr = x.open() }); perr != nil || oerr != nil {
		e["reopen"] = fmt.Sprintf("%v %v", oerr, perr)
		return append(evs, e), ""
	}
	e["reopen"] = ""
	if operr := guard(func() { x.observe(e, true) }); operr != nil {
		e["panic"] = firstWords(operr.Error())
	}
	return append(evs, e), ""
}

// ckNormalize turns the JSON-decoded event of a child back into the types the parent uses ([]int, int, []string).
func ckNormalize(e ckEvent) ckEvent {
	for k, v := range e {
		switch t := v.(type) {
		case json.Number:
			n, _ := t.Int64()
			e[k] = int(n)
		case []any:
			if k == "res" {
				ss := make([]string, len(t))
				for i, a := range t {
					ss[i] = fmt.Sprint(a)
				}
				e[k] = ss
				break
			}
			xs := make([]int, len(t))
			for i, a := range t {
				if n, ok := a.(json.Number); ok {
					v, _ := n.Int64()
					xs[i] = int(v)
				}
			}
			e[k] = xs
		}
	}
	return e
}

// ---------------------------------------------------------------------------------------------------------------
// running a scenario

func ckNewWorldFor(sc *ckScenario, cheap bool) (*ckWorld, error) {
	if sc.Big != nil {
		sc.M = ckBigContents(sc.Big)
	}
	return ckNewWorld(sc, cheap)
}

func ckHasCrash(sc *ckScenario) bool {
	for _, s := range sc.Steps {
		if s.A == "crash" {
			return true
		}
	}
	return false
}

type ckResult struct {
	events []ckEvent
	infra  string
	w      *ckWorld
	drift  map[string]int
}

func ckRunScenario(sc *ckScenario, self, scratch string) *ckResult {
	res := &ckResult{drift: map[string]int{}}
	w, err := ckNewWorldFor(sc, false)
	if err != nil {
		res.infra = err.Error()
		return res
	}
	res.w = w
	if sc.Big != nil && len(sc.Steps) == 0 {
		sc.Steps = ckBigSteps(sc.Big, len(w.cp[1].chunks))
	}
	x := &ckExec{w: w, id: sc.ID, heavy: sc.Big != nil}
	if ckHasCrash(sc) {
		d, err := os.MkdirTemp(scratch, "ckdb-")
		if err != nil {
			res.infra = err.Error()
			return res
		}
		defer os.RemoveAll(d)
		x.dir = filepath.Join(d, "db")
	}
	if err = x.open(); err != nil {
		res.infra = "open target: " + err.Error()
		return res
	}
	defer x.close()
	defer x.abandonGate()
	begin := ckEvent{"ev": "begin", "id": sc.ID, "backend": sc.Backend, "kind": sc.Kind, "nkeys": len(w.contents), "size": sc.Size,
		"threads": sc.Threads, "nchunks": len(w.cp[1].chunks), "det": w.det, "verify": w.verify, "union": w.union, "model": w.model,
		"depth": w.depth, "why": w.why}
	res.events = append(res.events, begin)
	if w.model == "differ" {
		res.drift["chunk-list"]++
	}
	// every segment that ends in a crash is executed by a child process on the on-disk database; only the steps after the
	// last crash run in this process
	first := 0
	record := func(k int, e ckEvent) {
		res.events = append(res.events, e)
		if sc.Steps[k].Pred != nil {
			ckCompare(&sc.Steps[k], e, res.drift)
		}
	}
	for k := range sc.Steps {
		if sc.Steps[k].A != "crash" {
			continue
		}
		evs, infra := x.crashSegment(sc, first, k, self)
		if infra != "" {
			res.infra = infra
			return res
		}
		for i, e := range evs {
			record(first+i, e)
		}
		first = k + 1
		if x.hung {
			break
		}
	}
	for k := first; k < len(sc.Steps) && !x.hung; k++ {
		record(k, x.step(&sc.Steps[k]))
	}
	res.events = append(res.events, ckEvent{"ev": "end", "id": sc.ID})
	return res
}

func intsOf(v any) []int {
	switch t := v.(type) {
	case []int:
		return t
	}
	return nil
}

func sameInts(a, b []int) bool {
	if len(a) != len(b) {
		return false
	}
	x, y := append([]int{}, a...), append([]int{}, b...)
	sort.Ints(x)
	sort.Ints(y)
	for i := range x {
		if x[i] != y[i] {
			return false
		}
	}
	return true
}

// ckCompare counts differences between the model's prediction and the observation (MODEL-DRIFT only).
func ckCompare(s *ckStep, e ckEvent, drift map[string]int) {
	p := s.Pred
	if p.Res != "" {
		if r, ok := e["res"].(string); ok && r != p.Res {
			drift["res:"+s.A+":"+p.Res+"->"+r]++
		}
	}
	if e["obs"] != true {
		return
	}
	if l, ok := e["latest"].(int); ok && l != p.Latest {
		drift["latest:"+s.A]++
	}
	if !sameInts(intsOf(e["has"]), p.Has) {
		drift["has:"+s.A]++
	}
	if !sameInts(intsOf(e["exact"]), p.Readable) {
		drift["readable:"+s.A]++
	}
}

// ---------------------------------------------------------------------------------------------------------------

type ckSummary struct {
	Scenarios   int            `json:"scenarios"`
	Emitted     int            `json:"emitted"`
	Events      int            `json:"events"`
	Kinds       map[string]int `json:"kinds"`
	Backends    map[string]int `json:"backends"`
	Threads     map[string]int `json:"threads"`
	Variants    map[string]int `json:"variants"`
	Results     map[string]int `json:"results"`
	CrashPoints map[string]int `json:"crash_points"`
	Drift       map[string]int `json:"drift"`
	DriftSample []string       `json:"drift_samples"`
	ModelChunks map[string]int `json:"model_chunks"`
	LargestTree int            `json:"largest_tree"`
	MostChunks  int            `json:"most_chunks"`
	DeepestTree int            `json:"deepest_tree"`
	Infra       []string       `json:"infra"`
	Samples     []any          `json:"samples"`
}

func ckptReplay(args []string) int {
	fs := flag.NewFlagSet("ckpt-replay", flag.ExitOnError)
	in := fs.String("in", "-", "scenarios (ndjson) or 'none'")
	out := fs.String("out", "-", "summary JSON")
	trace := fs.String("trace", "", "ndjson trace output")
	scen := fs.String("scen", "", "ndjson file receiving the executed scenarios (for replay files)")
	every := fs.Int("every", 1, "use only every k-th scenario of the input")
	everyCrash := fs.Int("everycrash", 1, "use only every k-th crash scenario of the input")
	maxCrash := fs.Int("maxcrash", 1<<30, "maximal number of crash scenarios")
	big := fs.Int("big", 0, "number of seeded large-tree scenarios")
	bigKeys := fs.Int("bigkeys", 3000, "maximal number of keys of a seeded tree")
	seed := fs.Int64("seed", 1, "seed of the large-tree driver")
	scratch := fs.String("scratch", "", "directory for on-disk databases and checkpoint files")
	workers := fs.Int("workers", runtime.NumCPU(), "parallel scenarios")
	fs.Parse(args)
	self, _ := os.Executable()
	if *scratch == "" {
		d, err := os.MkdirTemp("", "ckpt-scratch-")
		if err != nil {
			fmt.Fprintln(os.Stderr, err)
			return 2
		}
		defer os.RemoveAll(d)
		*scratch = d
	}
	ckTmpRoot = *scratch
	var tw, sw io.WriteCloser
	var err error
	if *trace != "" {
		if tw, err = os.Create(*trace); err != nil {
			fmt.Fprintln(os.Stderr, err)
			return 2
		}
		defer tw.Close()
	}
	if *scen != "" {
		if sw, err = os.Create(*scen); err != nil {
			fmt.Fprintln(os.Stderr, err)
			return 2
		}
		defer sw.Close()
	}
	sum := &ckSummary{Kinds: map[string]int{}, Backends: map[string]int{}, Threads: map[string]int{}, Variants: map[string]int{},
		Results: map[string]int{}, CrashPoints: map[string]int{}, Drift: map[string]int{}, ModelChunks: map[string]int{}}
	var mu sync.Mutex
	jobs := make(chan *ckScenario, 64)
	var wg sync.WaitGroup
	for i := 0; i < *workers; i++ {
		wg.Add(1)
		go func() {
			defer wg.Done()
			for sc := range jobs {
				r := ckRunScenario(sc, self, *scratch)
				mu.Lock()
				if r.infra != "" {
					if len(sum.Infra) < 20 {
						sum.Infra = append(sum.Infra, fmt.Sprintf("scenario %d (%s): %s", sc.ID, sc.Kind, r.infra))
					}
					mu.Unlock()
					continue
				}
				sum.Scenarios++
				sum.Kinds[sc.Kind]++
				sum.Backends[sc.Backend]++
				sum.Threads[fmt.Sprint(sc.Threads)]++
				sum.ModelChunks[r.w.model]++
				if n := len(r.w.contents); n > sum.LargestTree {
					sum.LargestTree = n
				}
				if n := len(r.w.cp[1].chunks); n > sum.MostChunks {
					sum.MostChunks = n
				}
				if r.w.depth > sum.DeepestTree {
					sum.DeepestTree = r.w.depth
				}
				for k, v := range r.drift {
					sum.Drift[k+"@"+sc.Backend] += v
					if len(sum.DriftSample) < 8 {
						sum.DriftSample = append(sum.DriftSample, fmt.Sprintf("scenario %d %s/%s: %s", sc.ID, sc.Kind, sc.Backend, k))
					}
				}
				for _, e := range r.events {
					sum.Events++
					if v, ok := e["variant"].(string); ok && v != "" {
						sum.Variants[v]++
					}
					switch rr := e["res"].(type) {
					case string:
						sum.Results[fmt.Sprint(e["ev"])+":"+rr]++
					case []string:
						for _, r1 := range rr {
							sum.Results["par:"+r1]++
						}
					}
					if e["ev"] == "crash" {
						sum.CrashPoints[fmt.Sprintf("%v@%v:reached=%v", e["op"], e["at"], e["reached"])]++
					}
					if tw != nil {
						tw.Write(append(mustJSON(e), '\n'))
					}
				}
				if sw != nil {
					lite := *sc
					if lite.Big != nil {
						lite.M, lite.Steps = nil, nil
					}
					sw.Write(append(mustJSON(lite), '\n'))
				}
				if len(sum.Samples) < 3 && sc.Big == nil {
					sum.Samples = append(sum.Samples, map[string]any{"scenario": sc, "events": r.events})
				}
				mu.Unlock()
			}
		}()
	}
	id := 0
	if *in != "none" {
		r, err := openIn(*in)
		if err != nil {
			fmt.Fprintln(os.Stderr, err)
			return 2
		}
		lr := lineReader(r)
		nCrash, nPlain, usedCrash := 0, 0, 0
		for lr.Scan() {
			line := lr.Bytes()
			if len(bytes.TrimSpace(line)) == 0 {
				continue
			}
			sum.Emitted++
			sc := &ckScenario{}
			if err := json.Unmarshal(line, sc); err != nil {
				fmt.Fprintln(os.Stderr, "bad scenario:", err, string(line[:min(len(line), 200)]))
				return 2
			}
			if ckHasCrash(sc) {
				nCrash++
				if (nCrash-1)%*everyCrash != 0 || usedCrash >= *maxCrash {
					continue
				}
				usedCrash++
			} else {
				nPlain++
				if (nPlain-1)%*every != 0 {
					continue
				}
			}
			id++
			sc.ID = id
			if sc.Kind == "" {
				sc.Kind = ckKindOf(sc)
			}
			jobs <- sc
		}
		r.Close()
	}
	for _, sc := range ckBigScenarios(*seed, *big, *bigKeys) {
		id++
		sc.ID = id
		jobs <- sc
	}
	close(jobs)
	wg.Wait()
	w, err := openOut(*out)
	if err != nil {
		fmt.Fprintln(os.Stderr, err)
		return 2
	}
	w.Write(mustJSON(sum))
	w.Close()
	return 0
}

// ckKindOf names the schedule kind of a TLC-emitted scenario by what it contains.
func ckKindOf(sc *ckScenario) string {
	var has = map[string]bool{}
	starts := 0
	for _, s := range sc.Steps {
		has[s.A] = true
		if s.A == "start" {
			starts++
		}
	}
	switch {
	case has["crash"]:
		return "crash"
	case has["gate"]:
		return "gated-concurrent"
	case has["par"]:
		return "concurrent"
	case has["abort"] && starts > 1:
		return "abort-restart"
	case has["abort"]:
		return "abort"
	case has["bad"]:
		return "corruption"
	case has["finalize"]:
		return "complete"
	}
	return "partial"
}

var _ = context.Background
