package main

// C19, requests for the LATEST height on the real Core: the untrusted provider is honest about every block but answers
// GetLatestHeight with a scripted sequence (first one height, then another), and serves made-up results for the latest trusted
// height (which the light client cannot bind: results of height h are committed to by the header of h+1).  A composite answer
// - GetTransactionsWithResults - must be bound to ONE verified header: the transactions and the results it returns belong to
// the same height.

import (
	"context"
	"fmt"
	"os"
	"reflect"

	cmtabcitypes "github.com/cometbft/cometbft/abci/types"

	"github.com/oasisprotocol/oasis-core/go/common/cbor"
	consensusAPI "github.com/oasisprotocol/oasis-core/go/consensus/api"
	cmtapi "github.com/oasisprotocol/oasis-core/go/consensus/cometbft/api"
)

// slLatestProvider wraps the honest provider of a universe.
type slLatestProvider struct {
	*slProvider
	script []int64 // answers of GetLatestHeight, cycled
	n      int
	forged map[int64]*consensusAPI.BlockResults // made-up results per height (served instead of the honest ones)
}

func (p *slLatestProvider) GetLatestHeight(context.Context) (int64, error) {
	h := p.script[p.n%len(p.script)]
	p.n++
	return h, nil
}

func (p *slLatestProvider) GetBlockResults(_ context.Context, h int64) (*consensusAPI.BlockResults, error) {
	if f, ok := p.forged[h]; ok {
		return f, nil
	}
	d, err := p.data(h)
	if err != nil || d.results == nil {
		return nil, consensusAPI.ErrVersionNotFound
	}
	return slHonest(d, "results").results, nil
}

func slResultCodes(r *consensusAPI.BlockResults) ([]uint32, bool) {
	m, err := cmtapi.NewBlockResultsMeta(r)
	if err != nil {
		return nil, false
	}
	out := []uint32{}
	for _, x := range m.TxsResults {
		out = append(out, x.Code)
	}
	return out, true
}

// slRunLatest appends "pair" events to the trace.
func slRunLatest(x *slRunner, universes []*slUniverse) (map[string]any, error) {
	ctx, cancel := context.WithCancel(context.Background())
	defer cancel()
	tmp, err := os.MkdirTemp("", "verif-c19-latest-")
	if err != nil {
		return nil, err
	}
	defer os.RemoveAll(tmp)
	cases, accepted := 0, 0
	for _, u0 := range universes {
		u := *u0
		if u.syn == nil {
			u.fixed = 2
		}
		mhs := slModelHeights(&u)
		if len(mhs) < 2 {
			continue
		}
		top := mhs[len(mhs)-1]
		env, err := slNewCoreEnv(ctx, &u, top, tmp)
		if err != nil {
			return nil, fmt.Errorf("light client for %s: %w", u.name, err)
		}
		var hs []int64
		for _, mh := range mhs {
			if d := u.at(0, mh); d != nil && d.txs != nil && d.results != nil {
				hs = append(hs, d.height)
			}
		}
		if len(hs) < 2 {
			continue
		}
		trusted, _ := env.lc.LastTrustedHeight()
		x.begin("latest/" + u.name)
		for _, ha := range hs {
			for _, hb := range hs {
				if ha == hb {
					continue
				}
				lp := &slLatestProvider{slProvider: env.prov, script: []int64{ha, hb}, forged: map[int64]*consensusAPI.BlockResults{}}
				// made-up results for the latest trusted height: as many as the OTHER height has transactions, all failed
				if other := map[int64]int64{ha: hb, hb: ha}[trusted]; other != 0 {
					nd := env.prov.byHeight[other]
					meta := cmtapi.BlockResultsMeta{}
					for range nd.txs {
						meta.TxsResults = append(meta.TxsResults, &cmtabcitypes.ResponseDeliverTx{Code: 77, Codespace: "made-up"})
					}
					lp.forged[trusted] = &consensusAPI.BlockResults{Height: trusted, Meta: cbor.Marshal(meta)}
				}
				saved := env.prov
				c := slNewCoreWith(env, lp)
				var v *consensusAPI.TransactionsWithResults
				var cerr error
				perr := guard(func() { v, cerr = c.GetTransactionsWithResults(ctx, consensusAPI.HeightLatest) })
				env.prov = saved
				e := map[string]any{"ev": "pair", "req": "GetTransactionsWithResults", "universe": u.name, "script": []int64{ha, hb}, "trusted": trusted,
					"accepted": perr == nil && cerr == nil && v != nil, "paired": true, "tx_heights": []int64{}, "res_heights": []int64{}}
				if perr != nil {
					e["panic"] = slShort(perr.Error(), 200)
				}
				if perr == nil && cerr == nil && v != nil {
					accepted++
					var txh, rsh []int64
					got := []uint32{}
					for _, r := range v.Results {
						got = append(got, r.Error.Code)
					}
					for _, h := range hs {
						d := env.prov.byHeight[h]
						if reflect.DeepEqual(slProjTxs(v.Transactions), slProjTxs(d.txs)) {
							txh = append(txh, h)
						}
						served := d.results
						if f, ok := lp.forged[h]; ok {
							served = f // the latest trusted height: bound by height only - what the provider served is all there is
						}
						if codes, ok := slResultCodes(served); ok && reflect.DeepEqual(codes, got) {
							rsh = append(rsh, h)
						}
					}
					paired := false
					for _, a := range txh {
						for _, b := range rsh {
							paired = paired || a == b
						}
					}
					e["paired"], e["tx_heights"], e["res_heights"] = paired, append([]int64{}, txh...), append([]int64{}, rsh...)
				}
				cases++
				x.mu.Lock()
				x.events++
				x.w.Write(mustJSON(e))
				x.w.WriteByte('\n')
				x.mu.Unlock()
			}
		}
	}
	return map[string]any{"cases": cases, "accepted": accepted}, nil
}
