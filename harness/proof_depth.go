package main

// C16 / C04: proofs nested beyond the verifier's depth limit.  Chains of internal nodes are built bottom-up with CORRECT hashes
// (so that nothing but the depth limit can reject them), nested through the left child, the right child and - in version 1
// proofs, where the leaf is a separate entry that the decoder does not constrain to be a leaf - the leaf slot.  The limit as the
// code documents it (maxProofDepth = 128: an entry at depth 129 is refused) is the oracle; very deep chains only have to be
// refused within the time / allocation budget.

import (
	"context"
	"flag"
	"fmt"
	"runtime"
	"time"

	"github.com/oasisprotocol/oasis-core/go/common/crypto/hash"
	"github.com/oasisprotocol/oasis-core/go/storage/mkvs/node"
	"github.com/oasisprotocol/oasis-core/go/storage/mkvs/syncer"
)

func init() {
	register("proof-depth", "proofs nested up to and beyond the depth limit, through every child slot", proofDepth)
}

// pdChain builds a proof whose deepest entry sits at depth d (the root entry is depth 0).
func pdChain(version uint16, slot string, d int) (*syncer.Proof, hash.Hash, error) {
	var h hash.Hash
	h.FromBytes([]byte("verif deep proof"), []byte(slot))
	type lvl struct{ enc []byte }
	lvls := make([]lvl, d)
	cur := h // hash of the subtree below
	for i := d - 1; i >= 0; i-- {
		nd := &node.InternalNode{LabelBitLength: 0}
		p := &node.Pointer{Clean: true, Hash: cur}
		switch slot {
		case "leaf":
			nd.LeafNode = p
		case "left":
			nd.Left = p
		default:
			nd.Right = p
		}
		nd.UpdateHash()
		var enc []byte
		var err error
		if version == 0 {
			if slot == "leaf" {
				return nil, h, fmt.Errorf("version 0 proofs carry the leaf inside the node")
			}
			enc, err = nd.CompactMarshalBinaryV0()
		} else {
			enc, err = nd.CompactMarshalBinaryV1()
		}
		if err != nil {
			return nil, h, err
		}
		lvls[i] = lvl{enc}
		cur = nd.Hash
	}
	root := cur
	var entries [][]byte
	for i := 0; i < d; i++ {
		entries = append(entries, append([]byte{1}, lvls[i].enc...))
		// entries of the slots BEFORE the nested one
		if version == 1 && slot != "leaf" {
			entries = append(entries, nil) // leaf
		}
		if slot == "right" {
			entries = append(entries, nil) // left
		}
	}
	hb, _ := h.MarshalBinary()
	entries = append(entries, append([]byte{2}, hb...))
	for i := 0; i < d; i++ {
		// entries of the slots AFTER the nested one
		if slot == "leaf" {
			entries = append(entries, nil, nil)
		} else if slot == "left" {
			entries = append(entries, nil)
		}
	}
	return &syncer.Proof{V: version, UntrustedRoot: root, Entries: entries}, root, nil
}

func proofDepth(args []string) int {
	fs := flag.NewFlagSet("proof-depth", flag.ExitOnError)
	out := fs.String("out", "-", "summary JSON")
	deep := fs.Int("deep", 200000, "depth of the resource-budget cases")
	fs.Parse(args)
	const limit = 128
	var problems []map[string]any
	cases, accepts, rejects := 0, 0, 0
	for _, version := range []uint16{0, 1} {
		for _, slot := range []string{"left", "right", "leaf"} {
			if version == 0 && slot == "leaf" {
				continue
			}
			for _, d := range []int{1, 2, 64, limit - 1, limit, limit + 1, limit + 2, 200, 1000, *deep} {
				p, root, err := pdChain(version, slot, d)
				if err != nil {
					fmt.Println("setup:", err)
					return 2
				}
				cases++
				var verr error
				var m0, m1 runtime.MemStats
				runtime.ReadMemStats(&m0)
				t0 := time.Now()
				done := make(chan error, 1)
				go func() {
					done <- guard(func() {
						var pv syncer.ProofVerifier
						_, verr = pv.VerifyProof(context.Background(), root, p)
					})
				}()
				note := map[string]any{"proof_version": version, "nested_through": slot, "deepest_entry_at_depth": d}
				select {
				case perr := <-done:
					if perr != nil {
						note["kind"], note["msg"] = "panic", perr.Error()[:min(len(perr.Error()), 600)]
						problems = append(problems, note)
						continue
					}
				case <-time.After(20 * time.Second):
					note["kind"] = "hang"
					problems = append(problems, note)
					continue
				}
				runtime.ReadMemStats(&m1)
				el := time.Since(t0)
				if verr == nil {
					accepts++
				} else {
					rejects++
				}
				switch {
				case d <= limit && verr != nil:
					note["kind"], note["msg"] = "valid-proof-rejected", verr.Error()
					problems = append(problems, note)
				case d > limit && verr == nil:
					note["kind"] = "over-deep-proof-accepted"
					problems = append(problems, note)
				case d > limit && (el > 5*time.Second || m1.TotalAlloc-m0.TotalAlloc > 512<<20):
					note["kind"], note["seconds"], note["alloc"] = "over-deep-proof-expensive", el.Seconds(), m1.TotalAlloc-m0.TotalAlloc
					problems = append(problems, note)
				}
			}
		}
	}
	w, err := openOut(*out)
	if err != nil {
		return 2
	}
	defer w.Close()
	w.Write(mustJSON(map[string]any{"cases": cases, "accepted": accepts, "rejected": rejects, "limit": limit, "problems": problems}))
	return 0
}
