package main

// Driver of the consensus replica network: builds blocks, lets every replica execute them along its assigned ABCI path,
// compares the replicas (C01) and records the observer replica's per-transaction and per-block observations as an ndjson
// trace for TLC (C05, C08, C09, C10, C14, C15, C17).

import (
	"bufio"
	"bytes"
	"encoding/json"
	"flag"
	"fmt"
	"math/rand"
	"os"
	"runtime"
	"slices"
	"sort"
	"strings"

	cmtabci "github.com/cometbft/cometbft/abci/types"

	"github.com/oasisprotocol/oasis-core/go/common/cbor"
	"github.com/oasisprotocol/oasis-core/go/common/crypto/hash"
	"github.com/oasisprotocol/oasis-core/go/common/crypto/signature"
	memorySigner "github.com/oasisprotocol/oasis-core/go/common/crypto/signature/signers/memory"
	"github.com/oasisprotocol/oasis-core/go/common/logging"
	"github.com/oasisprotocol/oasis-core/go/consensus/api/transaction"
	beaconState "github.com/oasisprotocol/oasis-core/go/consensus/cometbft/apps/beacon/state"
	staking "github.com/oasisprotocol/oasis-core/go/staking/api"
	"github.com/oasisprotocol/oasis-core/go/storage/mkvs"
)

func init() {
	register("cons-run", "run a seeded consensus scenario on N real replicas; compare them and record the observer's trace", consRun)
}

type cnDriver struct {
	lastMetaTx []byte // the block metadata transaction of the previous block
	net        *cnNet
	reps       []*cnReplica // reps[0] is the observer (probes, plain replay path); reps[1+i] runs with validator i's identity
	valset     map[int]int64
	height     int64
	rng        *rand.Rand
	w          *bufio.Writer
	nEvents    int
	// bookkeeping for the scenario generator
	lastProj    map[string]any
	lastReg     map[string]any
	sent        [][]byte // previously included raw transactions (for replays)
	diverged    []map[string]any
	panics      []string
	rejects     int
	paths       map[string]int
	txKinds     map[string]int
	sched       [][]string            // optional per-height path assignment (from TLC)
	nodeRts     map[string]string     // runtimes each node is currently registered for
	pendRts     map[*cnTxSpec]string  // proposed runtime lists of not yet executed registrations
	rtOwner     map[string]string     // registered runtimes -> owning entity
	rtDeps      map[string][][2]int64 // registered runtimes -> deployments (version, valid from) as last accepted
	nodeVer     map[string]int64      // "node/runtime" -> runtime version the node last registered successfully
	epoch       int64
	blockLog    map[int64]*cnLogged // decided blocks with the validator set they were executed under and the observer\'s app hash
	nSync       int
	syncEvery   int64
	vrf         vrfView          // VRF backend: epoch, its first height, alpha, proofs seen (end of the previous block)
	lastRh      []*rhView        // round state of the runtimes at the end of the previous block
	rhQuiet     map[string]int64 // runtime -> round for which no further commitments are generated (left to the round timer)
	vaults      bool             // vault transactions are generated
	hugeInBlock bool             // the block carries a commitment that declares a huge number of processed incoming messages
	deregSoon   []string         // entities that were just handed a runtime and will try to deregister
	evidenceAt  int64            // height at which consensus evidence is included (grown-committee pattern)
	txSweep     bool             // all single structural body mutations of the block's transactions at CheckTx / EstimateGas
	sweepInputs int
	otherTxs    []cnBlockResult  // results of the current block on the validator replicas (all paths but the observer's)
	slashedEnts []string         // entities against whose validator evidence was included (their escrow was slashed)
	lastVault   []map[string]any // vault state at the end of the previous block
	noRounds    bool             // do not submit executor commitments
	lastPropH   int64            // height of the last successful proposal
	nProposals  int              // governance proposals submitted successfully so far (their ids are 1..nProposals)
	maxGroup    int              // largest primary committee size requested by runtime registrations
	rhFocus     bool             // runtime rounds in focus: every node joins the runtimes at once, small unconstrained committees, no liveness evaluation
}

func (d *cnDriver) emit(m map[string]any) {
	for k, v := range m { // TLC's JSON module cannot read null
		if mm, ok := v.(map[string]any); v == nil || (ok && mm == nil) {
			delete(m, k)
		}
	}
	if ev, ok := m["evidence"].([]int); ok && ev == nil {
		m["evidence"] = []int{}
	}
	d.nEvents++
	raw := mustJSON(m)
	if bytes.Contains(raw, []byte("null")) {
		var v any
		if json.Unmarshal(raw, &v) == nil {
			raw = mustJSON(dropNulls(v))
		}
	}
	d.w.Write(raw)
	d.w.WriteByte('\n')
}

// valRecords turns "pubkeyhex:power" strings into records TLC can read.
func valRecords(vu []string) []map[string]any {
	out := []map[string]any{}
	for _, u := range vu {
		parts := strings.Split(u, ":")
		var p int64
		fmt.Sscan(parts[1], &p)
		out = append(out, map[string]any{"cons": parts[0], "power": p})
	}
	return out
}

// dropNulls replaces JSON nulls (which TLC's Json module cannot read) by empty lists, recursively.
func dropNulls(v any) any {
	switch x := v.(type) {
	case nil:
		return []any{}
	case map[string]any:
		for k, e := range x {
			x[k] = dropNulls(e)
		}
		return x
	case []any:
		for i, e := range x {
			x[i] = dropNulls(e)
		}
		return x
	}
	return v
}

// nodeActive reports whether the last recorded registry state has the node registered and unexpired at the epoch.
// runtimeNames lists the runtimes registered so far in the scenario, sorted.
func (d *cnDriver) runtimeNames() []string {
	var names []string
	for r := range d.rtOwner {
		names = append(names, r)
	}
	sort.Strings(names)
	return names
}

func (d *cnDriver) nodeActive(name string, epoch int64) bool {
	nodes, _ := d.lastReg["nodes"].([]map[string]any)
	for _, nd := range nodes {
		if nd["id"] == name {
			exp, _ := nd["exp"].(int64)
			return exp >= epoch+1
		}
	}
	return false
}

func consAddrIndex(n *cnNet, pubHex string) int {
	for i, v := range n.vals {
		if fmt.Sprintf("%x", v.consPub.Bytes()) == pubHex {
			return i
		}
	}
	return -1
}

func (d *cnDriver) applyValUpdates(vu []string) {
	for _, u := range vu {
		var pk string
		var p int64
		parts := strings.Split(u, ":")
		pk = parts[0]
		fmt.Sscan(parts[1], &p)
		i := consAddrIndex(d.net, pk)
		if i < 0 {
			continue
		}
		if p == 0 {
			delete(d.valset, i)
		} else {
			d.valset[i] = p
		}
	}
}

func (d *cnDriver) sortedVals() []int {
	var vs []int
	for v := range d.valset {
		vs = append(vs, v)
	}
	sort.Ints(vs)
	return vs
}

func (d *cnDriver) acctField(name, field string) int64 {
	acc, _ := d.lastProj["acc"].(map[string]any)
	a, _ := acc[name].(map[string]any)
	if a == nil {
		return 0
	}
	switch v := a[field].(type) {
	case int64:
		return v
	case float64:
		return int64(v)
	}
	return 0
}

// genSpec produces one abstract transaction from the current ledger.
func (d *cnDriver) genSpec() cnTxSpec {
	accts := d.net.accounts()
	a := accts[d.rng.Intn(len(accts))]
	bal := d.acctField(a.name, "g")
	nonce := uint64(d.acctField(a.name, "n"))
	kinds := []string{"transfer", "transfer", "burn", "escrow", "escrow", "reclaim", "reclaim", "allow", "withdraw", "amend"}
	sp := cnTxSpec{Kind: kinds[d.rng.Intn(len(kinds))], Signer: a.name, Nonce: nonce, Gas: 2000, Validity: "ok"}
	if d.rng.Intn(40) == 0 {
		sp.Kind = "freshness" // registry.ProveFreshness: changes nothing (refused while the TEE feature is not enabled)
	}
	if a.name == "E1" && sp.Kind == "reclaim" {
		sp.Kind = "escrow" // documented precondition: entity 1 keeps its self-delegation, so one validator stays stake-eligible
	}
	other := accts[d.rng.Intn(len(accts))]
	ents := d.net.cfg.Validators
	amtClass := func(limit int64) int64 {
		switch d.rng.Intn(8) {
		case 0:
			return 0
		case 1:
			return 1
		case 2:
			return limit
		case 3:
			return limit + 1
		case 4:
			return limit / 2
		default:
			return 1 + d.rng.Int63n(300)
		}
	}
	switch sp.Kind {
	case "transfer":
		sp.To = other.name
		if d.rng.Intn(12) == 0 {
			sp.To = []string{"POOL", "FEES", "GOV", a.name}[d.rng.Intn(4)]
		}
		sp.Amount = amtClass(bal)
	case "burn":
		sp.Amount = amtClass(bal)
	case "escrow":
		sp.To = fmt.Sprintf("E%d", d.rng.Intn(ents))
		if d.rng.Intn(6) == 0 {
			sp.To = other.name
		}
		if d.rng.Intn(7) == 0 {
			sp.To = []string{"RA0", "RA1"}[d.rng.Intn(2)] // stake for a runtime-governed runtime's own account
		}
		sp.Amount = amtClass(bal)
	case "reclaim":
		sp.To = fmt.Sprintf("E%d", d.rng.Intn(ents))
		if len(d.slashedEnts) > 0 && d.rng.Intn(2) == 0 {
			sp.To = d.slashedEnts[d.rng.Intn(len(d.slashedEnts))] // an escrow whose share price fell below one base unit per share
		}
		var own int64
		if dl, ok := d.lastProj["del"].([][]any); ok {
			for _, e := range dl {
				if e[0] == a.name && e[1] == sp.To {
					own = e[2].(int64)
				}
			}
		}
		sp.Amount = amtClass(own)
	case "allow":
		sp.To = other.name
		sp.Amount = amtClass(500)
		sp.Negative = d.rng.Intn(3) == 0
	case "withdraw":
		sp.To = other.name
		sp.Amount = amtClass(200)
	case "amend":
		sp.Amount = int64(d.rng.Intn(100_000))
	}
	sp.Fee = []int64{0, 0, 1, 5, 20}[d.rng.Intn(5)]
	if mt := d.net.cfg.MinTransact; mt > 0 && (sp.Kind == "transfer" || sp.Kind == "escrow" || sp.Kind == "burn") && d.rng.Intn(3) == 0 && bal > sp.Fee+mt {
		// the fee is paid and the minimum balance is kept at authentication; the operation itself would leave less than the minimum
		sp.Amount = bal - sp.Fee - d.rng.Int63n(mt)
	}
	if sp.Kind == "transfer" && d.rng.Intn(8) == 0 && bal > sp.Fee {
		sp.Amount = bal - sp.Fee // the account is drained to exactly zero (and refilled by others later on)
	}
	switch x := d.rng.Intn(100); {
	case x < 6:
		sp.Validity, sp.Nonce = "badnonce", nonce+uint64(1+d.rng.Intn(3))
		if nonce > 0 && d.rng.Intn(2) == 0 {
			sp.Nonce = nonce - 1
		}
	case x < 10:
		sp.Validity, sp.Gas = "lowgas", uint64(d.rng.Intn(400)) // every exhaustion point below the needed amount
		if d.rng.Intn(4) == 0 {
			sp.Gas = 0 // no gas at all, with and without a fee amount (the gas price is amount / gas)
			if d.rng.Intn(2) == 0 && sp.Fee == 0 {
				sp.Fee = 1
			}
		}
	case x < 13:
		sp.Validity = "badsig"
	case x < 15:
		sp.Validity = "wrongchain"
	case x < 17:
		sp.Validity = "wrongdomain"
	case x < 19:
		sp.Validity = "malformed"
	case x < 21:
		sp.Fee = bal + 1 + int64(d.rng.Intn(5)) // fee not covered
		sp.Validity = "lowfeebalance"
	case x < 33 && d.net.cfg.MinTransact > 0 && bal > 0:
		// the fee is covered, the minimum balance an account must keep to transact is not
		sp.Fee = bal - int64(d.rng.Intn(int(d.net.cfg.MinTransact)))
		if sp.Fee < 0 {
			sp.Fee = 0
		}
		sp.Validity = "minbalance"
	}
	return sp
}

type cnTxMeta struct {
	spec *cnTxSpec
	raw  []byte
}

// decodeEnvelope extracts, independently of the mux, what a raw transaction claims.
func (d *cnDriver) decodeEnvelope(raw []byte) map[string]any {
	m := map[string]any{"decodable": false, "sig_ok": false}
	var st transaction.SignedTransaction
	if err := cbor.Unmarshal(raw, &st); err != nil {
		return m
	}
	m["sig_ok"] = verifyRaw(st.Signature.PublicKey, d.net.chainCtx, st.Blob, st.Signature.Signature[:])
	var tx transaction.Transaction
	if err := cbor.Unmarshal(st.Blob, &tx); err != nil {
		return m
	}
	m["decodable"] = true
	m["signer"] = d.net.nameOf(staking.NewAddress(st.Signature.PublicKey))
	m["nonce_tx"] = int64(tx.Nonce)
	m["method"] = string(tx.Method)
	if tx.Fee != nil {
		m["fee"] = qi(&tx.Fee.Amount)
		m["gas_limit"] = int64(min(uint64(tx.Fee.Gas), 1<<30))
	} else {
		m["fee"], m["gas_limit"] = int64(0), int64(0)
	}
	return m
}

func (d *cnDriver) step() error {
	n := d.net
	d.height++
	h := d.height
	vs := d.sortedVals()
	if len(vs) == 0 {
		return fmt.Errorf("validator set is empty at height %d", h)
	}
	b := &cnBlock{Height: h, Proposer: vs[int(h)%len(vs)], Time: n.blockTime(h)}
	voteMode := d.rng.Intn(10)
	for _, v := range vs {
		signed := d.rng.Intn(100) < 85
		switch voteMode {
		case 0:
			signed = false // all validators absent
		case 1:
			signed = true
		}
		b.Votes = append(b.Votes, cnVote{v, signed})
	}
	if h == 1 {
		b.Votes = nil // CometBFT passes an empty commit info only for the initial height
	}
	if d.rng.Intn(25) == 0 && h > 2 {
		// never against validator 1: the documented precondition needs one stake-eligible validator to remain
		if v := vs[d.rng.Intn(len(vs))]; v != 1 {
			b.Evidence = append(b.Evidence, v)
			if v < n.cfg.Validators {
				if e := fmt.Sprintf("E%d", v); !slices.Contains(d.slashedEnts, e) {
					d.slashedEnts = append(d.slashedEnts, e)
				}
			}
		}
	}
	if d.rng.Intn(40) == 0 && h > 2 {
		b.Evidence = append(b.Evidence, 99) // evidence against an unknown validator
	}
	if d.evidenceAt == h && len(b.Evidence) == 0 {
		// (second half of the "grown committee" pattern below: misbehaviour evidence in the block after the descriptor update, so
		// that the elections are re-run in the middle of the epoch)
		for _, v := range vs {
			if v != 1 {
				b.Evidence = append(b.Evidence, v)
				break
			}
		}
	}
	// mempool
	var metas []cnTxMeta
	nTx := d.rng.Intn(6)
	nonceBump := map[string]uint64{}
	for i := 0; i < nTx; i++ {
		sp := d.genSpec()
		if sp.Validity == "minbalance" && nonceBump[sp.Signer] > 0 {
			continue // computed from the balance at the end of the previous block: only as the signer's first transaction of the block
		}
		if sp.Validity == "ok" || sp.Validity == "lowgas" || sp.Validity == "malformed" || sp.Validity == "lowfeebalance" || sp.Validity == "minbalance" {
			sp.Nonce += nonceBump[sp.Signer]
		}
		raw, err := n.buildTx(&sp, d.rng)
		if err != nil {
			return err
		}
		if sp.Validity == "ok" || sp.Validity == "lowgas" || sp.Validity == "malformed" {
			nonceBump[sp.Signer]++ // these pass authentication (nonce consumed) when the fee is covered
		}
		spc := sp
		metas = append(metas, cnTxMeta{&spc, raw})
		if sp.Kind == "reclaim" && sp.Validity == "ok" && sp.Amount >= 2 && d.rng.Intn(2) == 0 {
			// the same delegator reclaims from the same escrow twice in one block: both debonding entries have the same end
			// epoch and are merged into one
			twin := sp
			twin.Amount, sp.Amount = sp.Amount/2, sp.Amount-sp.Amount/2
			if d.rng.Intn(3) == 0 {
				twin.Amount, sp.Amount = 1, sp.Amount+twin.Amount-1 // the second reclaim is a single share (worth nothing after a slash)
			}
			metas[len(metas)-1].spec.Amount = sp.Amount
			if raw1, err1 := n.buildTx(metas[len(metas)-1].spec, d.rng); err1 == nil {
				metas[len(metas)-1].raw = raw1
			} else {
				return err1
			}
			twin.Nonce = sp.Nonce + 1
			raw2, err2 := n.buildTx(&twin, d.rng)
			if err2 != nil {
				return err2
			}
			nonceBump[twin.Signer]++
			metas = append(metas, cnTxMeta{&twin, raw2})
		}
	}
	if d.rng.Intn(8) == 0 {
		// reclaim burst: every delegator of one escrow account - the account itself included - reclaims a little in this block, and
		// the account reclaims what it delegated elsewhere: all these debonding entries end in the same epoch and are paid in one
		// epoch transition, in the order of the delegators' addresses, with the escrow account also in the role of a delegator
		if dl, ok := d.lastProj["del"].([][]any); ok && len(dl) > 0 {
			target := fmt.Sprintf("E%d", d.rng.Intn(n.cfg.Validators))
			for _, e := range dl {
				who, _ := e[0].(string)
				to, _ := e[1].(string)
				own, _ := e[2].(int64)
				if own < 2 || (to != target && who != target) || (who == "E1" && to == "E1") {
					continue
				}
				if _, isAcct := n.account(who); !isAcct {
					continue // (runtime accounts and vaults do not sign transactions)
				}
				sp := cnTxSpec{Kind: "reclaim", Signer: who, To: to, Amount: 1 + int64(d.rng.Intn(int(min(own-1, 6)))), Gas: 2000, Validity: "ok",
					Nonce: uint64(d.acctField(who, "n")) + nonceBump[who]}
				if raw, err := n.buildTx(&sp, d.rng); err == nil {
					nonceBump[who]++
					spc := sp
					metas = append(metas, cnTxMeta{&spc, raw})
				}
			}
		}
	}
	// keep the documented precondition of C10: nodes re-register before they expire (one node may lapse now and then)
	epochNow := (h - 1) / n.cfg.EpochInterval
	renew := (h-1)%n.cfg.EpochInterval == n.cfg.EpochInterval-2 || n.cfg.EpochInterval < 3
	if n.cfg.VRF {
		// the VRF backend schedules epochs from the state: read epoch, its first height and the proof window from there
		epochNow, renew = d.vrf.epoch, h-d.vrf.epochHeight == n.cfg.EpochInterval-2
		metas = append(metas, d.genProofs(h, nonceBump)...)
	}
	if renew {
		for i, v := range n.vals {
			if i != 1 && d.rng.Intn(12) == 0 {
				continue // let this node lapse for an epoch
			}
			nonce := uint64(d.acctField(v.name, "n")) + nonceBump[v.name]
			rot := []string{"", "", "fresh:p2p", "fresh:tls", "fresh:vrf", "move:tls>p2p", "move:vrf>p2p", "move:tls>vrf", "move:p2p>tls", "swap:p2p:tls", "swap:vrf:tls"}[d.rng.Intn(11)]
			rts := d.nodeRts[v.name]
			validity := "ok"
			switch x := d.rng.Intn(12); {
			case (x < 6 || d.rhFocus) && len(d.rtOwner) > 0 && rts == "" && i != 1:
				// (node 1 stays a plain validator: a compute worker can be frozen for missing liveness, and the documented
				//  precondition of C10 is that one validator stays eligible throughout)
				// join registered runtimes as a compute worker (sorted: map order must not leak into the seeded scenario)
				var names []string
				for r := range d.rtOwner {
					names = append(names, r)
				}
				sort.Strings(names)
				rts = names[d.rng.Intn(len(names))]
				if len(names) > 1 && d.rng.Intn(3) == 0 {
					rts = strings.Join(names, ",")
				}
			case n.computeOnly(i) && rts == "" && len(d.rtOwner) == 0:
				continue // a node without the validator role has nothing to register for before a runtime exists
			case n.computeOnly(i) && rts == "":
				var names []string
				for r := range d.rtOwner {
					names = append(names, r)
				}
				sort.Strings(names)
				rts = strings.Join(names, ",")
				if len(names) > 1 && d.rng.Intn(3) == 0 {
					rts = names[d.rng.Intn(len(names))]
				}
			case x == 3 && rts != "" && i != 1 && d.nodeActive(v.name, epochNow):
				rts, validity = "", "dropruntime" // an active node may not drop a runtime: must fail (node 1 always renews: precondition)
			}
			sp := &cnTxSpec{Kind: "regnode", Signer: v.name, Node: v.name, Amount: epochNow + 2 + int64(d.rng.Intn(2)), Nonce: nonce, Gas: 5000, Validity: validity, Rotate: rot, Runtimes: rts}
			if rts != "" {
				// the version the node runs: mostly the one in force in the next epoch, now and then the superseded or the announced one
				var rv []string
				for _, r := range strings.Split(rts, ",") {
					ver, now := int64(0), int64(0)
					best, bestNow := int64(-1), int64(-1)
					for _, c := range d.rtDeps[r] {
						if c[1] <= epochNow+1 && c[1] > best {
							best, ver = c[1], c[0]
						}
						if c[1] <= epochNow && c[1] > bestNow {
							bestNow, now = c[1], c[0]
						}
					}
					// a version that is in force or announced may not be dropped by an update (registry rule): keep it until superseded
					if c, ok := d.nodeVer[v.name+"/"+r]; ok && c >= now {
						ver = c
					}
					if i != 1 { // node 1 always renews successfully (precondition of C10)
						switch d.rng.Intn(8) {
						case 0:
							if ver > 0 {
								ver--
							}
						case 1:
							ver++
						}
					}
					rv = append(rv, fmt.Sprintf("%s:%d", r, ver))
				}
				sp.RtVers = strings.Join(rv, ",")
				if i != 1 && d.rng.Intn(8) == 0 {
					// the descriptor lists further versions of its first runtime: another version (allowed), the same version again,
					// or another version twice (a repeated version must be refused wherever it stands in the list)
					var r0 string
					var v0 int64
					fmt.Sscanf(strings.Replace(rv[0], ":", " ", 1), "%s %d", &r0, &v0)
					switch d.rng.Intn(4) {
					case 0:
						sp.RtMore = fmt.Sprintf("%s:%d", r0, v0+1)
					case 1:
						sp.RtMore = fmt.Sprintf("%s:%d", r0, v0)
						sp.Validity = "dupversion"
					case 2:
						sp.RtMore = fmt.Sprintf("%s:%d,%s:%d", r0, v0+1, r0, v0+1)
						sp.Validity = "dupversion"
					default:
						sp.RtMore = fmt.Sprintf("%s:%d,%s:%d,%s:%d", r0, v0+1, r0, v0+2, r0, v0+1)
						sp.Validity = "dupversion"
					}
				}
			}
			d.pendRts[sp] = rts
			raw, err := n.buildTx(sp, d.rng)
			if err != nil {
				return err
			}
			nonceBump[v.name]++
			metas = append(metas, cnTxMeta{sp, raw})
		}
	}
	if d.rng.Intn(8) == 0 {
		// runtime registrations and updates: by the owner (incl. governance-model transitions) and by somebody else
		r := []string{"R0", "R1"}[d.rng.Intn(2)]
		owner, exists := d.rtOwner[r]
		// (the owner as the registry recorded it at the end of the previous block: runtimes change hands)
		if rts, ok := d.lastReg["runtimes"].([]map[string]any); ok {
			for _, x := range rts {
				if x["id"] == r {
					if o, ok := x["ent"].(string); ok {
						owner, exists = o, true
					}
				}
			}
		}
		for _, m := range metas {
			if m.spec.Kind == "regruntime" && m.spec.To == r {
				exists = false // another update of this runtime is already in the block: who owns it afterwards is not known here
				owner = ""
			}
		}
		e := fmt.Sprintf("E%d", d.rng.Intn(n.cfg.Validators))
		if exists && strings.HasPrefix(owner, "U") && d.rng.Intn(2) == 0 {
			e = owner
		}
		validity := "ok"
		if exists && owner != e {
			if d.rng.Intn(2) == 0 {
				e = owner
			} else {
				validity = "notowner"
			}
		}
		// deployments: the active one is kept, a superseded one is dropped, now and then an upgrade is announced for a later epoch;
		// the descriptor lists them in either order
		var deps []string
		{
			cur := d.rtDeps[r]
			if len(cur) == 0 {
				cur = [][2]int64{{0, 0}}
			}
			act, maxv := cur[0], cur[0][0]
			var fut *[2]int64
			for i, c := range cur {
				if c[0] > maxv {
					maxv = c[0]
				}
				if c[1] <= epochNow && c[1] >= act[1] {
					act = c
				}
				if c[1] > epochNow {
					fut = &cur[i]
				}
			}
			keep := [][2]int64{act}
			if fut != nil {
				keep = append(keep, *fut)
			} else if exists && d.rng.Intn(2) == 0 {
				keep = append(keep, [2]int64{maxv + 1, epochNow + 1 + int64(d.rng.Intn(2))})
			}
			if len(keep) == 2 && d.rng.Intn(2) == 0 {
				keep[0], keep[1] = keep[1], keep[0]
			}
			for _, k := range keep {
				deps = append(deps, fmt.Sprintf("%d@%d", k[0], k[1]))
			}
		}
		sp := &cnTxSpec{Kind: "regruntime", Signer: e, To: r, Deps: strings.Join(deps, ";"), Gov: []string{"entity", "entity", "runtime"}[d.rng.Intn(3)],
			Shape: fmt.Sprintf("g%db%dm%dp%dv%ds%d", 1+d.rng.Intn(d.maxGroup), d.rng.Intn(3), d.rng.Intn(3), d.rng.Intn(2), btoi(d.rng.Intn(4) < 1+2*btoi(n.cfg.ComputeOnly > 0)), d.rng.Intn(2)), Nonce: uint64(d.acctField(e, "n")) + nonceBump[e], Gas: 5000, Validity: validity}
		if d.rng.Intn(2) == 0 {
			// per-runtime slashing for incorrect results / equivocation with a share of the slashed funds for the runtime's
			// account: shares of 0..100 % are valid, anything above must be refused by the descriptor checks
			pcts := []int{0, 30, 100, 100, 101, 150, 255}
			pe, pb := pcts[d.rng.Intn(4)], pcts[d.rng.Intn(len(pcts))]
			if d.rng.Intn(6) == 0 {
				pe = pcts[4+d.rng.Intn(3)]
			}
			sp.Slash = fmt.Sprintf("%d:%d:%d", 1+d.rng.Intn(6), pe, pb)
			if (pe > 100 || pb > 100) && validity == "ok" {
				sp.Validity = "badpct"
			}
		}
		if d.rhFocus {
			// rounds in focus: small committees that every node can fill, no constraints that leave a runtime without a committee
			sp.Shape = fmt.Sprintf("g%db%dm0p0v0s%d", 2+d.rng.Intn(2), d.rng.Intn(2), d.rng.Intn(2))
		}
		if d.rng.Intn(2) == 0 && !d.rhFocus {
			// liveness of the committee is evaluated when the epoch ends: a worker that committed in too few rounds is suspended
			// for the runtime and, after the tolerated number of failures, slashed and frozen - before the next election reads
			// the candidates
			sp.Live = fmt.Sprintf("%d:%d:%d:%d", 1+d.rng.Intn(2), []int{50, 100}[d.rng.Intn(2)], 1+d.rng.Intn(2), 1+d.rng.Intn(5))
		}
		if exists && e == owner && validity == "ok" && d.rng.Intn(2) == 0 && n.cfg.Validators > 1 {
			// the owner hands the runtime over to another entity (which may then try to deregister)
			sp.Entity = fmt.Sprintf("E%d", d.rng.Intn(n.cfg.Validators))
			if ents, ok := d.lastReg["entities"].(map[string]any); ok {
				var us []string
				for k := range ents {
					if strings.HasPrefix(k, "U") {
						us = append(us, k)
					}
				}
				sort.Strings(us)
				if len(us) > 0 && d.rng.Intn(3) > 0 {
					sp.Entity = us[d.rng.Intn(len(us))] // a user-run entity without nodes: nothing but the runtime keeps it from deregistering
				}
			}
			if sp.Entity != "E1" {
				d.deregSoon = append(d.deregSoon, sp.Entity, sp.Entity) // the new owner will try to deregister (twice: this block or later)
			}
			sp.Gov = "entity"
		}
		if d.rng.Intn(3) > 0 {
			// incoming message queue: small enough to fill up within a scenario (the executor commitments of the scenarios consume nothing)
			sp.InMsgs = fmt.Sprintf("%d:%d", []int{0, 1, 1, 2, 2, 3}[d.rng.Intn(6)], []int{0, 0, 1, 3}[d.rng.Intn(4)])
			if d.rng.Intn(6) == 0 {
				// a queue larger than the roothash application allows (MaxInRuntimeMessages = 32): the descriptor passes every check of
				// the registry and is refused by the roothash application when it is told about the runtime - nothing may remain
				sp.InMsgs = fmt.Sprintf("%d:0", []int{33, 100}[d.rng.Intn(2)])
				if sp.Validity == "ok" {
					sp.Validity = "badmsglimit"
				}
			}
		}
		if raw, err := n.buildTx(sp, d.rng); err == nil {
			nonceBump[e]++
			metas = append(metas, cnTxMeta{sp, raw})
		} else {
			return err
		}
	}
	if d.rng.Intn(10) == 0 {
		// grown committee: the owner of a runtime that has a committee and finalized rounds raises the executor group size; evidence
		// against a validator in the next block makes the scheduler elect again within the epoch (a larger committee takes over
		// while the epoch's per-member statistics are those of the old one)
		for _, v := range d.lastRh {
			owner, ok := d.rtOwner[v.RT]
			if !ok || v.Suspended || len(v.W) == 0 || v.Round < 1 || len(v.W) >= d.maxGroup+1 {
				continue
			}
			var deps []string
			for _, c := range d.rtDeps[v.RT] {
				deps = append(deps, fmt.Sprintf("%d@%d", c[0], c[1]))
			}
			if len(deps) == 0 {
				deps = []string{"0@0"}
			}
			sp := &cnTxSpec{Kind: "regruntime", Signer: owner, To: v.RT, Deps: strings.Join(deps, ";"), Gov: "entity",
				Shape: fmt.Sprintf("g%db%dm0p0v0s0", len(v.W)+1, len(v.B)), Nonce: uint64(d.acctField(owner, "n")) + nonceBump[owner], Gas: 5000, Validity: "ok"}
			if raw, err := n.buildTx(sp, d.rng); err == nil {
				nonceBump[owner]++
				metas = append(metas, cnTxMeta{sp, raw})
				d.evidenceAt = h + 1
			}
			break
		}
	}
	if len(d.rtOwner) > 0 && d.rng.Intn(2) == 0 {
		// messages submitted to a runtime: tokens and fee go to the runtime's account, the message is queued - or, when the queue is
		// full / closed, the fee is below the runtime's minimum, the runtime is suspended or the sender cannot pay: nothing happens
		accts := n.accounts()
		a := accts[d.rng.Intn(len(accts))]
		rts := d.runtimeNames()
		if d.rng.Intn(5) > 0 { // mostly to runtimes that are running
			var act []string
			for _, v := range d.lastRh {
				if !v.Suspended && v.HasComm {
					act = append(act, v.RT)
				}
			}
			if len(act) > 0 {
				rts = act
			}
		}
		bal := d.acctField(a.name, "g")
		sp := &cnTxSpec{Kind: "submitmsg", Signer: a.name, To: rts[d.rng.Intn(len(rts))], Amount: []int64{0, 1, 7, bal / 2, bal + 1}[d.rng.Intn(5)],
			MsgFee: int64(d.rng.Intn(4)), Fee: int64(d.rng.Intn(2)), Nonce: uint64(d.acctField(a.name, "n")) + nonceBump[a.name], Gas: 3000, Validity: "ok"}
		if raw, err := n.buildTx(sp, d.rng); err == nil {
			nonceBump[a.name]++
			metas = append(metas, cnTxMeta{sp, raw})
		}
	}
	if d.rng.Intn(9) == 0 && n.cfg.Validators > 1 {
		// a registered node (active, or expired and not yet removed) tries to change hands: it re-registers, correctly signed,
		// under the previous entity, which lists it.  Refused by the update rules while the node's record exists.
		i := d.rng.Intn(n.cfg.Validators)
		if nodes, ok := d.lastReg["nodes"].([]map[string]any); ok {
			for _, x := range nodes { // prefer a node whose registration has lapsed but is still on record
				var j int
				if exp, _ := x["exp"].(int64); exp < epochNow && d.rng.Intn(2) == 0 {
					if _, err := fmt.Sscanf(x["id"].(string), "N%d", &j); err == nil && j < n.cfg.Validators {
						i = j
					}
				}
			}
		}
		present := false
		if nodes, ok := d.lastReg["nodes"].([]map[string]any); ok {
			for _, x := range nodes {
				present = present || x["id"] == fmt.Sprintf("N%d", i)
			}
		}
		if i != 1 && present {
			v := n.vals[i]
			sp := &cnTxSpec{Kind: "regnode", Signer: v.name, Node: v.name, Entity: fmt.Sprintf("E%d", (i-1+n.cfg.Validators)%n.cfg.Validators),
				Amount: epochNow + 2, Nonce: uint64(d.acctField(v.name, "n")) + nonceBump[v.name], Gas: 5000, Validity: "entitychange", Runtimes: d.nodeRts[v.name]}
			if raw, err := n.buildTx(sp, d.rng); err == nil {
				nonceBump[v.name]++
				metas = append(metas, cnTxMeta{sp, raw})
			}
		}
	}
	{
		// a node claims a key another node is registered with - whenever a registration has lapsed but is still on record, its
		// keys are the target: refused as a duplicate for as long as that record exists
		var lapsed, recorded []int
		if nodes, ok := d.lastReg["nodes"].([]map[string]any); ok {
			for _, x := range nodes {
				var k int
				if _, err := fmt.Sscanf(x["id"].(string), "N%d", &k); err != nil || k >= len(n.vals) {
					continue
				}
				recorded = append(recorded, k)
				if exp, _ := x["exp"].(int64); exp < epochNow {
					lapsed = append(lapsed, k)
				}
			}
		}
		i, j, onRecord := d.rng.Intn(len(n.vals)), 0, false
		switch {
		case len(lapsed) > 0 && d.rng.Intn(2) == 0:
			j, onRecord = lapsed[d.rng.Intn(len(lapsed))], true
		case len(recorded) > 0 && d.rng.Intn(10) == 0:
			j, onRecord = recorded[d.rng.Intn(len(recorded))], true
		}
		if i != j && i != 1 && j != 1 && onRecord {
			v := n.vals[i]
			role := []string{"p2p", "tls", "vrf"}[d.rng.Intn(3)]
			sp := &cnTxSpec{Kind: "regnode", Signer: v.name, Node: v.name, Rotate: fmt.Sprintf("steal:%s:N%d", role, j), Amount: epochNow + 2,
				Nonce: uint64(d.acctField(v.name, "n")) + nonceBump[v.name], Gas: 5000, Validity: "stolenkey", Runtimes: d.nodeRts[v.name]}
			d.pendRts[sp] = sp.Runtimes
			if raw, err := n.buildTx(sp, d.rng); err == nil {
				nonceBump[v.name]++
				metas = append(metas, cnTxMeta{sp, raw})
			}
		}
	}
	if d.rng.Intn(6) == 0 {
		// registry transactions without the required authority
		i := d.rng.Intn(len(n.vals))
		var sp *cnTxSpec
		switch d.rng.Intn(3) {
		case 0: // somebody else signs the transaction carrying a correctly signed descriptor
			u := n.users[d.rng.Intn(len(n.users))]
			sp = &cnTxSpec{Kind: "regnode", Signer: u.name, Node: n.vals[i].name, Amount: epochNow + 2, Nonce: uint64(d.acctField(u.name, "n")) + nonceBump[u.name], Gas: 5000, Validity: "wrongsigner"}
			if d.rng.Intn(2) == 0 {
				// ... or one of the node's own keys that is not its identity: the consensus key signs every descriptor of the node
				ck := n.vals[i].name + ".c"
				sp.Signer, sp.Nonce, sp.Runtimes = ck, uint64(d.acctField(ck, "n"))+nonceBump[ck], d.nodeRts[n.vals[i].name]
			}
		case 1: // descriptor lacks the signature of one of the node's keys
			v := n.vals[i]
			sp = &cnTxSpec{Kind: "regnode", Signer: v.name, Node: v.name, Amount: epochNow + 2, Nonce: uint64(d.acctField(v.name, "n")) + nonceBump[v.name], Gas: 5000, Validity: "missingsig"}
		default: // an entity that still owns nodes tries to deregister
			e := fmt.Sprintf("E%d", d.rng.Intn(n.cfg.Validators))
			sp = &cnTxSpec{Kind: "deregentity", Signer: e, Nonce: uint64(d.acctField(e, "n")) + nonceBump[e], Gas: 5000, Validity: "hasnodes"}
		}
		if raw, err := n.buildTx(sp, d.rng); err == nil {
			nonceBump[sp.Signer]++
			metas = append(metas, cnTxMeta{sp, raw})
		}
	}
	if d.rng.Intn(5) == 0 {
		// entity descriptors: entities rewrite their node lists (dropping a node that is still registered, listing somebody else's
		// node), user accounts register as entities and deregister again, descriptors carried by a transaction of somebody else or
		// signed by somebody else
		allowed := func(e string) []string {
			if ents, ok := d.lastReg["entities"].(map[string]any); ok {
				if x, ok := ents[e].(map[string]any); ok {
					if l, ok := x["allowed_nodes"].([]string); ok {
						return append([]string{}, l...)
					}
				}
			}
			return nil
		}
		ei := d.rng.Intn(n.cfg.Validators)
		ename := fmt.Sprintf("E%d", ei)
		signer, validity := ename, "ok"
		list := allowed(ename)
		switch x := d.rng.Intn(10); {
		case x < 3 && ei != 1 && len(list) > 0: // drop a node from the list (it may still be registered)
			k := d.rng.Intn(len(list))
			list = append(list[:k], list[k+1:]...)
		case x < 5: // list another node
			list = append(list, fmt.Sprintf("N%d", d.rng.Intn(len(n.vals))))
		case x < 7: // a user account runs an entity
			u := n.users[d.rng.Intn(len(n.users))].name
			ename, signer, list = u, u, nil
			if d.acctField(u, "ab") < 100 && d.acctField(u, "g") > 150 && d.rng.Intn(3) > 0 {
				// ... and first puts up the stake an entity needs (a self-delegation)
				esp := &cnTxSpec{Kind: "escrow", Signer: u, To: u, Amount: 120, Nonce: uint64(d.acctField(u, "n")) + nonceBump[u], Gas: 2000, Validity: "ok"}
				if raw, err := n.buildTx(esp, d.rng); err == nil {
					nonceBump[u]++
					metas = append(metas, cnTxMeta{esp, raw})
				}
			}
			if d.rng.Intn(2) == 0 {
				list = []string{fmt.Sprintf("N%d", d.rng.Intn(len(n.vals)))}
			}
		case x == 7:
			signer, validity = n.users[d.rng.Intn(len(n.users))].name, "wrongsigner"
		case x == 8:
			signer, validity = n.users[d.rng.Intn(len(n.users))].name, "badentsig"
		}
		if ei == 1 && ename == "E1" && validity == "ok" {
			list = allowed("E1") // documented precondition: entity 1 keeps its validator
			if len(list) == 0 {
				list = []string{"N1"}
			}
		}
		sp := &cnTxSpec{Kind: "regentity", Signer: signer, Entity: ename, Nodes: strings.Join(list, ","), Nonce: uint64(d.acctField(signer, "n")) + nonceBump[signer],
			Fee: int64(d.rng.Intn(2)), Gas: 6000, Validity: validity}
		if raw, err := n.buildTx(sp, d.rng); err == nil {
			nonceBump[signer]++
			metas = append(metas, cnTxMeta{sp, raw})
		}
		if d.rng.Intn(3) == 0 {
			// ... and a deregistration: by an entity whose list no longer names its registered node, or by a user-run entity
			who := ename
			if d.rng.Intn(2) == 0 {
				who = n.users[d.rng.Intn(len(n.users))].name
			}
			if who != "E1" {
				sp2 := &cnTxSpec{Kind: "deregentity", Signer: who, Nonce: uint64(d.acctField(who, "n")) + nonceBump[who], Gas: 5000, Validity: "hasnodes"}
				if raw, err := n.buildTx(sp2, d.rng); err == nil {
					nonceBump[who]++
					metas = append(metas, cnTxMeta{sp2, raw})
				}
			}
		}
	}
	if len(d.deregSoon) > 0 && d.rng.Intn(2) == 0 {
		// an entity that has just been handed a runtime tries to deregister
		who := d.deregSoon[0]
		d.deregSoon = d.deregSoon[1:]
		sp := &cnTxSpec{Kind: "deregentity", Signer: who, Nonce: uint64(d.acctField(who, "n")) + nonceBump[who], Gas: 5000, Validity: "hasnodes"}
		if raw, err := n.buildTx(sp, d.rng); err == nil {
			nonceBump[who]++
			metas = append(metas, cnTxMeta{sp, raw})
		}
	}
	if d.rng.Intn(5) == 0 {
		// entities try to unfreeze their nodes (fails unless frozen and the freeze period is over)
		i := d.rng.Intn(len(n.vals))
		ename := fmt.Sprintf("E%d", n.entIndex(i))
		sp := cnTxSpec{Kind: "unfreeze", Signer: ename, To: fmt.Sprintf("N%d", i), Nonce: uint64(d.acctField(ename, "n")) + nonceBump[ename], Gas: 2000, Validity: "ok"}
		if raw, err := n.buildTx(&sp, d.rng); err == nil {
			nonceBump[ename]++
			spc := sp
			metas = append(metas, cnTxMeta{&spc, raw})
		}
	}
	if len(d.sent) > 0 && d.rng.Intn(6) == 0 {
		raw := d.sent[d.rng.Intn(len(d.sent))]
		metas = append(metas, cnTxMeta{&cnTxSpec{Kind: "replayed", Validity: "replay"}, raw})
	}
	if !d.noRounds {
		metas = append(metas, d.genCommits(nonceBump)...)
		metas = append(metas, d.genEvidence(nonceBump)...)
	}
	if d.vaults {
		metas = append(metas, d.genVault(nonceBump)...)
	}
	if d.rng.Intn(7) == 0 || (d.nProposals > 0 && h-d.lastPropH <= 2*n.cfg.EpochInterval && d.rng.Intn(2) == 0) {
		// governance: parameter-change proposals (by entities and users, some with unknown modules / empty content / deposits the
		// submitter cannot cover) and votes (by validator entities, by users who may not vote, for proposals that do not exist)
		var sp *cnTxSpec
		if d.rng.Intn(3) == 0 || d.nProposals == 0 {
			who := fmt.Sprintf("E%d", d.rng.Intn(n.cfg.Validators))
			if d.rng.Intn(3) == 0 {
				who = n.users[d.rng.Intn(len(n.users))].name
			}
			content := []string{"gov-deposit", "sched-maxvals", "staking-mintransfer", "gov-deposit", "bad-module", "empty"}[d.rng.Intn(6)]
			validity := "ok"
			if content == "bad-module" || content == "empty" {
				validity = "badcontent"
			}
			sp = &cnTxSpec{Kind: "propose", Signer: who, Gov: content, Amount: int64(d.rng.Intn(50)), Gas: 5000, Validity: validity}
			switch d.rng.Intn(5) {
			case 0, 1:
				// an upgrade at an epoch the minimum distance (3) or more ahead - now and then too soon, or too close to a pending one
				sp.Gov, sp.Amount, sp.Validity = "upgrade", epochNow+3+int64(d.rng.Intn(3)), "ok"
				if d.rng.Intn(5) == 0 {
					sp.Amount, sp.Validity = epochNow+int64(d.rng.Intn(3)), "toosoon"
				}
			case 2:
				// the cancellation of an upgrade: of an earlier proposal (pending upgrade or not), or of one that does not exist
				sp.Gov, sp.Validity = "cancel-upgrade", "ok"
				sp.Amount = int64(1 + d.rng.Intn(d.nProposals+2))
			}
		} else {
			who := fmt.Sprintf("E%d", d.rng.Intn(n.cfg.Validators))
			validity := "ok"
			id := int64(d.nProposals) // the newest proposal is the one most likely still open
			if d.rng.Intn(4) == 0 {
				id = int64(1 + d.rng.Intn(d.nProposals))
			}
			switch d.rng.Intn(8) {
			case 0, 2:
				// users: eligible only as delegators to a current validator and only if the parameters allow voting without an entity
				who, validity = n.users[d.rng.Intn(len(n.users))].name, "noteligible"
			case 1:
				id, validity = int64(d.nProposals+3), "noproposal"
			}
			// odd proposals are popular (so that some pass), even ones divisive
			choices := []string{"yes", "yes", "no", "abstain"}
			if id%2 == 1 {
				choices = []string{"yes", "yes", "yes", "yes", "yes", "no", "abstain"}
			}
			sp = &cnTxSpec{Kind: "vote", Signer: who, Amount: id, Vote: choices[d.rng.Intn(len(choices))], Gas: 5000, Validity: validity}
		}
		sp.Nonce = uint64(d.acctField(sp.Signer, "n")) + nonceBump[sp.Signer]
		if raw, err := n.buildTx(sp, d.rng); err == nil {
			nonceBump[sp.Signer]++
			metas = append(metas, cnTxMeta{sp, raw})
		} else {
			return err
		}
	}
	if d.rng.Intn(4) == 0 {
		// forgeries: an authentic signature under another body.  Source: a transaction this block carries (its signature is
		// verified in this very block, before or after the forgery), or one the replicas verified in an earlier block.
		var src []byte
		fresh := len(d.sent) == 0 || d.rng.Intn(2) == 0
		if fresh && len(metas) > 0 {
			if m := metas[d.rng.Intn(len(metas))]; m.spec.Validity == "ok" {
				src = m.raw
			}
		} else if len(d.sent) > 0 {
			src = d.sent[d.rng.Intn(len(d.sent))]
		}
		if src != nil {
			var st transaction.SignedTransaction
			if cbor.Unmarshal(src, &st) == nil {
				for _, a := range append(n.accounts(), n.nodeAccounts()...) {
					if a.signer.Public().Equal(st.Signature.PublicKey) {
						nonce := uint64(d.acctField(a.name, "n")) + nonceBump[a.name]
						to := n.users[d.rng.Intn(len(n.users))].name
						bitOnly := d.rng.Intn(3) == 0
						if raw, sp, ok := n.forgeFrom(src, nonce, to, bitOnly, d.rng); ok {
							pos := len(metas) // after the authentic transaction and with the nonce that would be current then
							if bitOnly {
								pos = d.rng.Intn(len(metas) + 1)
							}
							metas = append(metas[:pos], append([]cnTxMeta{{sp, raw}}, metas[pos:]...)...)
						}
						break
					}
				}
			}
		}
	}
	if d.rng.Intn(12) == 0 {
		// an envelope under a small-order public key with the signature (identity, 0): valid for ANY message under the
		// permissive (ZIP-215) rules, rejected by the strict rules transactions are verified with
		if raw, sp, ok := n.smallOrderForgery(d.rng); ok {
			metas = append(metas, cnTxMeta{sp, raw})
		}
	}
	if d.rng.Intn(6) == 0 {
		// bytes that are no transaction envelope at all, anywhere in the block (a proposer may put anything into a block): random
		// bytes, an authentic envelope with its CBOR framing broken, an envelope above the size limit
		var junk []byte
		switch k := d.rng.Intn(4); {
		case k == 0 && len(metas) > 0:
			src := metas[d.rng.Intn(len(metas))].raw
			junk = append([]byte{}, src...)
			junk[0] ^= 0xe0 // another CBOR major type
		case k == 1:
			junk = make([]byte, 32768+1+d.rng.Intn(64))
			d.rng.Read(junk)
			if len(metas) > 0 { // an authentic envelope padded beyond the limit
				copy(junk, metas[d.rng.Intn(len(metas))].raw)
			}
		default:
			junk = make([]byte, 1+d.rng.Intn(40))
			d.rng.Read(junk)
		}
		pos := d.rng.Intn(len(metas) + 1)
		if d.rng.Intn(2) == 0 {
			pos = 0
		}
		metas = append(metas[:pos], append([]cnTxMeta{{&cnTxSpec{Kind: "junk", Validity: "junk"}, junk}}, metas[pos:]...)...)
	}
	// structurally mutated bodies under authentic signatures: now and then a well-formed transaction of this block is replaced by
	// itself with one map entry dropped or one value replaced (null, empty, another type) anywhere in its body
	for i := range metas {
		// (not the kinds whose successful transactions a trace specification follows by their recorded request: executor
		// commitments, governance and vault transactions)
		if k := metas[i].spec.Kind; metas[i].spec.Validity == "ok" && k != "junk" && k != "rhcommit" && k != "propose" && k != "vote" &&
			k != "vcreate" && k != "vauth" && k != "vcancel" && !(k == "withdraw" && strings.HasPrefix(metas[i].spec.To, "V")) &&
			// (documented precondition of C10: node 1 / entity 1 keep their registration and stake - their transactions are left alone)
			metas[i].spec.Signer != "N1" && metas[i].spec.Signer != "E1" && metas[i].spec.Node != "N1" && d.rng.Intn(12) == 0 {
			if raw, sp, ok := n.mutateBody(metas[i].raw, d.rng); ok {
				metas[i] = cnTxMeta{sp, raw}
			}
		}
	}
	if d.txSweep && h%3 == 0 {
		// every single structural mutation of the body of every well-formed transaction of this block, correctly signed, at the
		// mempool check of the observer and through gas estimation (simulation) - neither has an effect on the state
		for _, m := range metas {
			if m.spec.Validity != "ok" || m.spec.Kind == "junk" {
				continue
			}
			for _, mt := range n.allBodyMutations(m.raw, 400) {
				d.sweepInputs++
				if perr := guard(func() {
					d.reps[0].mux.CheckTx(cmtabci.RequestCheckTx{Tx: mt, Type: cmtabci.CheckTxType_New})
					d.reps[0].estimate(mt)
				}); perr != nil {
					msg := perr.Error()
					d.panics = append(d.panics, fmt.Sprintf("h=%d CheckTx / EstimateGas of a mutated %s body (%x): %s", h, m.spec.Kind, mt[:min(len(mt), 600)], msg[:min(len(msg), 1500)]))
					d.emit(map[string]any{"ev": "panic", "h": h, "where": "CheckTx(mutated " + m.spec.Kind + ")", "msg": msg[:min(len(msg), 2000)]})
				}
			}
		}
	}
	var mempool [][]byte
	for _, m := range metas {
		mempool = append(mempool, m.raw)
		// mempool admission on the observer (results are local; a panic is not)
		if perr := guard(func() { d.reps[0].mux.CheckTx(cmtabci.RequestCheckTx{Tx: m.raw, Type: cmtabci.CheckTxType_New}) }); perr != nil {
			msg := perr.Error()
			d.panics = append(d.panics, fmt.Sprintf("h=%d CheckTx(%s:%s): %s", h, m.spec.Kind, m.spec.Validity, msg[:min(len(msg), 1500)]))
			d.emit(map[string]any{"ev": "panic", "h": h, "where": "CheckTx", "msg": msg[:min(len(msg), 2000)]})
		}
	}
	// the proposer's replica prepares the proposal
	prop := d.reps[1+b.Proposer]
	txs, perr := prop.prepare(b, mempool, d.valset)
	if perr != nil {
		d.panics = append(d.panics, fmt.Sprintf("h=%d PrepareProposal: %s", h, perr))
		d.emit(map[string]any{"ev": "panic", "h": h, "where": "PrepareProposal", "msg": perr.Error()[:min(len(perr.Error()), 2000)]})
		return fmt.Errorf("prepare panicked")
	}
	if len(txs) == 0 {
		// the multiplexer returns an empty proposal iff executing the candidate block failed inside PrepareProposal
		d.panics = append(d.panics, fmt.Sprintf("h=%d PrepareProposal could not build a block from %d non-system transactions", h, len(mempool)))
		d.emit(map[string]any{"ev": "prepare_failed", "h": h, "ntx": len(mempool)})
		if txs, perr = prop.prepare(b, nil, d.valset); perr != nil || len(txs) == 0 {
			return fmt.Errorf("PrepareProposal fails even for an empty mempool at height %d", h)
		}
		metas = nil
	}
	b.Txs = txs
	b.Hash = blockHash(h, 0, txs)
	// paths
	results := make([]cnBlockResult, len(d.reps))
	pathOf := make([]string, len(d.reps))
	for i, r := range d.reps {
		path := "process"
		switch {
		case i == 0:
			path = "replay" // the observer is driven call by call
		case r == prop:
			path = "propose"
		default:
			if d.sched != nil {
				row := d.sched[(int(h)+int(n.cfg.Seed%1000)*37)%len(d.sched)] // (offset by the seed: short scenarios together still visit every row)
				path = row[i%len(row)]
				if path == "propose" {
					path = "process" // the proposer is fixed by the validator set, not by the schedule
				}
			} else {
				path = []string{"process", "process", "replay", "other_then_process", "other_then_begin", "prepared_then_process", "prepared_then_begin", "restart_process", "restart_replay"}[d.rng.Intn(9)]
			}
		}
		if !r.cfg.OnDisk && strings.HasPrefix(path, "restart") {
			path = "process"
		}
		pathOf[i] = path
		d.paths[path]++
	}
	for i, r := range d.reps {
		if i == 0 {
			continue
		}
		r.bgTxs = append(append([][]byte{}, mempool...), d.sent[:min(len(d.sent), 5)]...)
		path := pathOf[i]
		if r.cfg.Checkpoints && strings.HasPrefix(path, "restart") {
			// (stopping a multiplexer whose checkpointer is at work races with the checkpoint in progress: the harness does not
			// restart state-sync sources; the other replicas of these scenarios, and all replicas elsewhere, do restart)
			path = strings.TrimPrefix(path, "restart_")
			pathOf[i] = path
		}
		if strings.HasPrefix(path, "restart") {
			if err := r.restart(); err != nil {
				return fmt.Errorf("restart: %w", err)
			}
		}
		if strings.HasPrefix(path, "prepared_then") {
			// the replica as proposer of a failed round of this height: it prepares its own block (other transactions, its own
			// metadata transaction) and caches the execution under an empty hash; the decided block is the other proposer's
			ob := *b
			ob.Txs, ob.Proposer = nil, r.cfg.Identity
			alt := mempool
			if len(alt) > 0 {
				alt = alt[:len(alt)-1]
			}
			if _, perr2 := r.prepare(&ob, alt, d.valset); perr2 != nil {
				d.panics = append(d.panics, fmt.Sprintf("h=%d PrepareProposal(own, failed round): %s", h, perr2))
			}
		}
		if strings.HasPrefix(path, "other_then") {
			// a proposal of a failed round for the same height: same transactions minus the last user transaction, other hash
			ob := *b
			ob.Txs = nil
			if len(b.Txs) >= 2 && len(d.lastMetaTx) > 0 && d.rng.Intn(3) == 0 {
				// ... or the decided proposal's user transactions followed by the block metadata transaction of the PREVIOUS block
				// (authentic, but not this proposer's and not for this height): execution is aborted at that transaction, after
				// the user transactions - fee payments included - were delivered and before any EndBlock ran; nothing of it may
				// survive into the execution of the decided block
				ob.Txs = append(append([][]byte{}, b.Txs[:len(b.Txs)-1]...), d.lastMetaTx)
				ob.Hash = blockHash(h, 11, ob.Txs)
				if _, perr3 := r.process(&ob, d.valset); perr3 != nil {
					d.panics = append(d.panics, fmt.Sprintf("h=%d ProcessProposal(foreign metadata): %s", h, perr3))
				}
			} else if len(b.Txs) >= 2 && d.rng.Intn(2) == 0 {
				// ... or the decided proposal with one user transaction left out (or two exchanged) and the proposer's block
				// metadata transaction kept: well-formed and signed, but its state root no longer matches - the replica
				// executes it, rejects it at the metadata check, and must keep nothing of it
				k := d.rng.Intn(len(b.Txs) - 1)
				if len(b.Txs) >= 3 && d.rng.Intn(3) == 0 {
					ob.Txs = append([][]byte{}, b.Txs...)
					j := (k + 1) % (len(b.Txs) - 1)
					ob.Txs[k], ob.Txs[j] = ob.Txs[j], ob.Txs[k]
				} else {
					ob.Txs = append(append([][]byte{}, b.Txs[:k]...), b.Txs[k+1:]...)
				}
				ob.Hash = blockHash(h, 9, ob.Txs)
				if _, perr3 := r.process(&ob, d.valset); perr3 != nil {
					d.panics = append(d.panics, fmt.Sprintf("h=%d ProcessProposal(stale metadata): %s", h, perr3))
				}
			} else if len(mempool) > 0 {
				otxs, perr2 := prop.prepareShadow(&ob, mempool[:len(mempool)-1], d.valset, r)
				if perr2 == nil && otxs != nil {
					ob.Txs = otxs
					ob.Hash = blockHash(h, 7, ob.Txs)
					if _, perr3 := r.process(&ob, d.valset); perr3 != nil {
						d.panics = append(d.panics, fmt.Sprintf("h=%d ProcessProposal(other): %s", h, perr3))
					}
				}
			}
		}
		switch path {
		case "propose", "process", "other_then_process", "prepared_then_process", "restart_process":
			acc, perr := r.process(b, d.valset)
			if perr != nil {
				d.panics = append(d.panics, fmt.Sprintf("h=%d ProcessProposal: %s", h, perr))
			}
			if !acc {
				d.rejects++
				d.emit(map[string]any{"ev": "reject", "h": h, "replica": r.name, "path": path})
			}
		}
		results[i] = r.finalize(b, d.valset)
	}
	// observer: call by call with snapshots
	vcopy := map[int]int64{}
	for k, v := range d.valset {
		vcopy[k] = v
	}
	d.otherTxs = results[1:]
	results[0] = d.observe(b, metas)
	if len(b.Txs) > 0 {
		d.lastMetaTx = append([]byte{}, b.Txs[len(b.Txs)-1]...)
	}
	if d.blockLog != nil {
		d.blockLog[h] = &cnLogged{b: *b, valset: vcopy, app: results[0].AppHash}
		delete(d.blockLog, h-80)
	}
	// C01: compare
	for i := 1; i < len(d.reps); i++ {
		a, c := results[0], results[i]
		same := a.AppHash == c.AppHash && fmt.Sprint(a.ValUpd) == fmt.Sprint(c.ValUpd) && fmt.Sprint(a.Txs) == fmt.Sprint(c.Txs)
		if !same && len(d.diverged) < 5 {
			d.diverged = append(d.diverged, map[string]any{"h": h, "replica": d.reps[i].name, "path": pathOf[i], "observer": a, "other": c})
		}
		if c.Panic != "" {
			d.panics = append(d.panics, fmt.Sprintf("h=%d %s: %s", h, d.reps[i].name, c.Panic[:min(len(c.Panic), 1500)]))
		}
	}
	res := map[string]any{"ev": "agree", "h": h}
	var reps []map[string]any
	for i, r := range d.reps {
		reps = append(reps, map[string]any{"r": r.name, "path": pathOf[i], "apphash": results[i].AppHash[:min(16, len(results[i].AppHash))],
			"txs": fmt.Sprint(results[i].Txs), "valupd": results[i].ValUpd, "backend": r.cfg.Backend, "panic": results[i].Panic != ""})
	}
	res["replicas"] = reps
	d.emit(res)
	d.applyValUpdates(results[0].ValUpd)
	if d.syncEvery > 0 && h%d.syncEvery == d.syncEvery-1 {
		// a new replica joins by state sync from a replica that keeps checkpoints, then catches up with the chain
		src := d.reps[1+int(h/d.syncEvery)%2]
		backend := []string{"pathbadger", "badger"}[int(h/d.syncEvery/2)%2]
		order := []string{"in-order", "reverse", "corrupt-first", "duplicates", "shuffle"}[d.rng.Intn(5)]
		if ev := d.stateSync(h, src, backend, order); ev != nil {
			d.emit(ev)
		}
	}
	for _, t := range mempool {
		if len(d.sent) < 200 {
			d.sent = append(d.sent, t) // user transactions only: system transactions never pass CheckTx into a mempool
		}
	}
	return nil
}

// prepareShadow builds an alternative proposal without disturbing the proposer's cached one: it is prepared by the target
// replica's own mux only when that replica runs with the proposer's identity; otherwise the alternative is just the user
// transactions (no metadata transaction), which ProcessProposal must reject or accept consistently on its own.
func (r *cnReplica) prepareShadow(b *cnBlock, mempool [][]byte, valset map[int]int64, target *cnReplica) ([][]byte, error) {
	return mempool, nil
}

// observe executes the block on the observer replica call by call and records every intermediate state.
func (d *cnDriver) observe(b *cnBlock, metas []cnTxMeta) cnBlockResult {
	r := d.reps[0]
	n := d.net
	var res cnBlockResult
	res.Accepted = true
	specOf := map[string]*cnTxSpec{}
	for _, m := range metas {
		specOf[string(m.raw)] = m.spec
	}
	perr := guard(func() {
		ci := n.commitInfo(b, d.valset)
		votes := []map[string]any{}
		for _, v := range b.Votes {
			votes = append(votes, map[string]any{"val": fmt.Sprintf("N%d", v.Val), "signed": v.Signed})
		}
		d.emit(map[string]any{"ev": "block", "h": b.Height, "proposer": fmt.Sprintf("N%d", b.Proposer), "votes": votes, "evidence": b.Evidence, "ntx": len(b.Txs)})
		bevs := r.beginBlock(b, ci, n.misbehavior(b, d.valset))
		st, done := r.liveState()
		prev := rawSnapshot(st)
		proj, err := n.ledgerProjection(st)
		done()
		if err != nil {
			panic(err)
		}
		rtNames := d.runtimeNames()
		d.emit(map[string]any{"ev": "rhb", "h": b.Height, "rts": n.rhViews(bgCtx, st2(r), rtNames)})
		ep, _, _ := beaconState.NewImmutableState(st2(r)).GetEpoch(bgCtx)
		d.emit(map[string]any{"ev": "begin", "h": b.Height, "epoch": int64(ep), "slashed": len(b.Evidence) > 0 || tookEscrow(bevs), "state": proj})
		for i, tx := range b.Txs {
			env := d.decodeEnvelope(tx)
			resp := r.deliver(tx)
			res.Txs = append(res.Txs, txResult(&resp))
			st, done := r.liveState()
			cur := rawSnapshot(st)
			proj, err = n.ledgerProjection(st)
			done()
			if err != nil {
				panic(err)
			}
			changed := rawDiff(prev, cur)
			prev = cur
			th := hash.NewFromBytes(tx)
			evn := map[string]any{"ev": "tx", "h": b.Height, "i": i, "id": th.String()[:16], "code": int64(resp.Code), "module": resp.Codespace,
				"gas_used": resp.GasUsed, "nraw": len(changed), "state": proj, "env": env}
			{
				// the result codes the same transaction got on the replicas that executed the block on the other paths
				// (proposed, validated as a proposal, replayed, restarted)
				codes := []int64{}
				for _, or := range d.otherTxs {
					if i < len(or.Txs) {
						codes = append(codes, int64(or.Txs[i].Code))
					}
				}
				evn["codes_other"] = codes
			}
			if d.vaults {
				vp, verr := n.vaultProjection(st2(r))
				if verr != nil {
					panic(verr)
				}
				evn["vault"] = vp
			}
			if sp := specOf[string(tx)]; sp != nil {
				if rts, ok := d.pendRts[sp]; ok {
					if resp.Code == 0 {
						d.nodeRts[sp.Node] = rts
						for _, kv := range strings.Split(sp.RtVers, ",") {
							if j := strings.IndexByte(kv, ':'); j > 0 {
								var ver int64
								fmt.Sscanf(kv[j+1:], "%d", &ver)
								d.nodeVer[sp.Node+"/"+kv[:j]] = ver
							}
						}
					}
					delete(d.pendRts, sp)
				}
				if sp.Kind == "propose" && resp.Code == 0 {
					d.nProposals++
					d.lastPropH = b.Height
				}
				if sp.Kind == "regruntime" && resp.Code == 0 {
					d.rtOwner[sp.To] = sp.Signer
					if sp.Entity != "" {
						d.rtOwner[sp.To] = sp.Entity
					}
					var dl [][2]int64
					for _, dv := range strings.Split(sp.Deps, ";") {
						var v, from int64
						if _, err := fmt.Sscanf(dv, "%d@%d", &v, &from); err == nil {
							dl = append(dl, [2]int64{v, from})
						}
					}
					d.rtDeps[sp.To] = dl
				}
				if cand, ok := n.pendingRot[sp]; ok {
					if resp.Code == 0 {
						var idx int
						fmt.Sscanf(sp.Node, "N%d", &idx)
						n.vals[idx].rot = cand
						if parts := strings.Split(sp.Rotate, ":"); len(parts) == 3 && parts[0] == "steal" {
							// (legitimate only once the other node's record is gone: that node continues with a new key)
							var j int
							fmt.Sscanf(parts[2], "N%d", &j)
							seed := hash.NewFromBytes([]byte(fmt.Sprintf("rekey|%d|%d|%s", n.cfg.Seed, b.Height, sp.Rotate)))
							if ns, err := memorySigner.NewFromSeed(seed[:]); err == nil {
								nr := map[string]signature.Signer{"p2p": n.vals[j].rot["p2p"], "vrf": n.vals[j].rot["vrf"], "tls": n.vals[j].rot["tls"]}
								nr[parts[1]] = ns
								n.vals[j].rot = nr
							}
						}
					}
					delete(n.pendingRot, sp)
				}
				evn["spec"] = sp
				if vr := n.vaultRequest(sp); vr != nil {
					evn["vreq"] = vr
				}
				d.txKinds[sp.Kind+":"+sp.Validity]++
			} else {
				evn["spec"] = cnTxSpec{Kind: "system", Validity: "system"}
				d.txKinds["system"]++
			}
			d.emit(evn)
		}
		var ms0 runtime.MemStats
		if d.hugeInBlock {
			runtime.ReadMemStats(&ms0)
		}
		ebr := r.mux.EndBlock(cmtabci.RequestEndBlock{Height: b.Height})
		if d.hugeInBlock {
			// a commitment of this block declares 2^26 processed incoming messages: finalizing the round may not allocate by that count
			var ms1 runtime.MemStats
			runtime.ReadMemStats(&ms1)
			d.hugeInBlock = false
			if grown := ms1.TotalAlloc - ms0.TotalAlloc; grown > 200<<20 {
				msg := fmt.Sprintf("allocation blow-up: EndBlock allocated %d MiB in a block carrying a commitment with a huge declared count of incoming messages", grown>>20)
				d.panics = append(d.panics, fmt.Sprintf("h=%d EndBlock: %s", b.Height, msg))
				d.emit(map[string]any{"ev": "panic", "h": b.Height, "where": "EndBlock", "msg": msg})
			}
		}
		eb := ebr.ValidatorUpdates
		res.ValUpd = valUpdStrings(eb)
		d.vrf = n.vrfViewOf(bgCtx, st2(r))
		d.lastRh = n.rhViews(bgCtx, st2(r), d.runtimeNames())
		d.emit(map[string]any{"ev": "rh", "h": b.Height, "rts": d.lastRh, "disc_events": rhDiscrepancyEvents(n, ebr.Events)})
		st, done = r.liveState()
		proj, err = n.ledgerProjection(st)
		done()
		if err != nil {
			panic(err)
		}
		regp, rerr := n.registryProjection(st2(r))
		if rerr != nil {
			panic(rerr)
		}
		govp, gerr := n.governanceProjection(st2(r))
		if gerr != nil {
			panic(gerr)
		}
		var vltp []map[string]any
		if d.vaults {
			var verr error
			if vltp, verr = n.vaultProjection(st2(r)); verr != nil {
				panic(verr)
			}
		}
		res.AppHash = r.commit()
		d.lastProj = proj
		d.lastReg = regp
		d.lastVault = vltp
		d.emit(map[string]any{"ev": "reg", "h": b.Height, "reg": regp})
		endEv := map[string]any{"ev": "end", "h": b.Height, "state": proj, "gov": govp, "valupd": res.ValUpd, "valupd2": valRecords(res.ValUpd), "apphash": res.AppHash[:16]}
		if d.vaults {
			endEv["vault"] = vltp
		}
		d.emit(endEv)
	})
	if perr != nil {
		res.Panic = perr.Error()
		d.panics = append(d.panics, fmt.Sprintf("h=%d observer: %s", b.Height, perr.Error()[:min(len(perr.Error()), 1500)]))
		d.emit(map[string]any{"ev": "panic", "h": b.Height, "where": "observer", "msg": perr.Error()[:min(len(perr.Error()), 2000)]})
	}
	return res
}

// st2 returns the live state tree (the context is closed lazily: the tree stays valid within the block).
func st2(r *cnReplica) mkvs.KeyValueTree {
	t, _ := r.liveState()
	return t
}

func consRun(args []string) int {
	fs := flag.NewFlagSet("cons-run", flag.ExitOnError)
	out := fs.String("out", "-", "ndjson trace")
	summ := fs.String("summary", "", "summary JSON")
	seed := fs.Int64("seed", 1, "seed")
	blocks := fs.Int("blocks", 30, "number of blocks")
	vals := fs.Int("validators", 3, "validator entities")
	users := fs.Int("users", 3, "user accounts")
	interval := fs.Int64("epoch", 4, "epoch interval in blocks")
	scratch := fs.String("scratch", "", "scratch directory")
	schedFile := fs.String("schedule", "", "JSON file: list of per-height path rows (from TLC)")
	onDisk := fs.Bool("ondisk", true, "validator replicas keep their state on disk (enables restart paths)")
	maxVals := fs.Int("maxvals", 3, "scheduler MaxValidators")
	maxPerEntity := fs.Int("maxperentity", 1, "scheduler MaxValidatorsPerEntity")
	rhFocus := fs.Bool("rhfocus", false, "runtime rounds in focus: nodes join runtimes at their first renewal, small unconstrained committees, no liveness evaluation")
	maxGroup := fs.Int("maxgroup", 2, "largest primary committee size requested by runtime registrations")
	noRounds := fs.Bool("norounds", false, "do not submit executor commitments")
	tiny := fs.Bool("tinystake", false, "stake thresholds of 1-2 base units and escrows around them and around one voting-power unit (16)")
	debond := fs.Int64("debond", 1, "staking DebondingInterval (epochs)")
	syncEvery := fs.Int64("statesync", 0, "every N blocks a fresh replica joins by state sync (validator replicas 0 and 1 then keep checkpoints)")
	minTransact := fs.Int64("mintransact", 0, "staking MinTransactBalance")
	vrfMode := fs.Bool("vrf", false, "VRF beacon backend: nodes submit VRF proofs, elections use them")
	vrfThr := fs.Uint64("vrfthreshold", 2, "VRF backend: proofs needed for a high-quality alpha")
	tied := fs.Bool("tiedstake", false, "all validator entities start with the same escrow (ties at the validator-count cut-off)")
	extraNodes := fs.Int("extranodes", 0, "additional validator nodes run by entity 0 (per-entity limit stays 1)")
	feature := fs.String("feature261", "auto", "consensus feature version 26.1: on | off | auto (on for even seeds)")
	computeOnly := fs.Int("computeonly", 0, "nodes without the validator role (entities in turn), registered once a runtime exists")
	sanity := fs.Bool("sanity", false, "register the in-tree supplementary sanity checker in the observer (it halts the chain on a failure; TLC is the oracle, so it is off by default)")
	concurrent := fs.Bool("concurrent", true, "run CheckTx / EstimateGas / state queries in goroutines while validator replicas execute blocks")
	vaults := fs.Bool("vault", false, "generate vault transactions (creation, actions, deposits, withdrawals through the account hook)")
	txSweep := fs.Bool("txsweep", false, "every 3rd block: all single structural mutations of every transaction body, correctly signed, through CheckTx and EstimateGas of the observer")
	logLevel := fs.String("log", "", "oasis-core log level to stderr (debug|info|warn|error); empty = no logging")
	fs.Parse(args)
	if *logLevel != "" {
		var lvl logging.Level
		_ = lvl.Set(*logLevel)
		_ = logging.Initialize(os.Stderr, logging.FmtLogfmt, lvl, nil)
	}
	if *scratch == "" {
		dir, err := os.MkdirTemp("", "cons-")
		if err != nil {
			return 2
		}
		defer os.RemoveAll(dir)
		*scratch = dir
	}
	w, err := openOut(*out)
	if err != nil {
		return 2
	}
	defer w.Close()
	cfg := cnCfg{Validators: *vals, Users: *users, EpochInterval: *interval, Seed: *seed, ChainID: fmt.Sprintf("verif-chain-%d", *seed),
		MaxValidators: *maxVals, MaxPerEntity: *maxPerEntity, ExtraNodes: *extraNodes, ComputeOnly: *computeOnly, TiedStake: *tied, VRF: *vrfMode, VRFThreshold: *vrfThr, MinTransact: *minTransact, TinyStake: *tiny, Debond: *debond,
		Feature261: *feature == "on" || (*feature == "auto" && *seed%2 == 0)}
	net, err := newNet(cfg, *scratch)
	if err != nil {
		fmt.Fprintln(os.Stderr, "net:", err)
		return 2
	}
	d := &cnDriver{net: net, txSweep: *txSweep, vaults: *vaults, rhQuiet: map[string]int64{}, valset: map[int]int64{}, rng: rand.New(rand.NewSource(*seed)), w: bufio.NewWriterSize(w, 1<<20),
		paths: map[string]int{}, txKinds: map[string]int{}, nodeRts: map[string]string{}, pendRts: map[*cnTxSpec]string{}, rtOwner: map[string]string{}, rtDeps: map[string][][2]int64{}, nodeVer: map[string]int64{}, maxGroup: *maxGroup, rhFocus: *rhFocus, noRounds: *noRounds, syncEvery: *syncEvery}
	if *syncEvery > 0 {
		d.blockLog = map[int64]*cnLogged{}
	}
	defer d.w.Flush()
	if *schedFile != "" {
		raw, err := os.ReadFile(*schedFile)
		if err != nil || json.Unmarshal(raw, &d.sched) != nil {
			fmt.Fprintln(os.Stderr, "bad schedule file")
			return 2
		}
	}
	obs, err := net.newReplica("obs", cnReplicaCfg{Backend: "pathbadger", Identity: 0, Probes: true, Sanity: *sanity})
	if err != nil {
		fmt.Fprintln(os.Stderr, "observer:", err)
		return 2
	}
	obs.probes.sink = d.emit
	d.reps = append(d.reps, obs)
	for i := 0; i < len(net.vals); i++ {
		be := []string{"pathbadger", "badger"}[i%2]
		r, err := net.newReplica(fmt.Sprintf("v%d", i), cnReplicaCfg{Backend: be, OnDisk: *onDisk, Identity: i, KeepN: uint64(2 * (i % 2)), MinGas: uint64(i % 2),
			Checkpoints: *syncEvery > 0 && i < 2})
		if err != nil {
			fmt.Fprintln(os.Stderr, "replica:", err)
			return 2
		}
		r.concurrent = *concurrent
		d.reps = append(d.reps, r)
	}
	defer func() {
		for _, r := range d.reps {
			if r.cfg.Checkpoints {
				// a checkpointer goroutine in the middle of a checkpoint does not survive its database being closed (badger
				// panics in that goroutine); all output is written by now, the caller removes the scratch directory
				continue
			}
			r.stop()
		}
	}()
	// initial validator set = genesis validators elected at InitChain
	vu := obs.initValidators()
	d.applyValUpdates(vu)
	st, err := obs.committedTree()
	if err == nil {
		d.lastProj, _ = net.ledgerProjection(st)
	}
	d.emit(map[string]any{"ev": "begin_chain", "seed": *seed, "validators": *vals, "users": *users, "epoch_interval": *interval, "debond": *debond, "vrf": *vrfMode,
		"state": d.lastProj, "valset": vu, "valset2": valRecords(vu)})
	var runErr string
	for i := 0; i < *blocks; i++ {
		if err := d.step(); err != nil {
			runErr = err.Error()
			break
		}
	}
	d.w.Flush()
	if *summ != "" {
		writeJSONFile(*summ, map[string]any{
			"blocks": d.height, "events": d.nEvents, "sweep_inputs": d.sweepInputs, "diverged": d.diverged, "panics": d.panics, "rejects": d.rejects, "paths": d.paths,
			"tx_kinds": d.txKinds, "runtime_messages_in_commitments": d.net.statRtMsgs, "error": runErr, "replicas": len(d.reps), "concurrent_calls": func() int {
				n := 0
				for _, r := range d.reps {
					n += r.bgCalls
				}
				return n
			}(),
		})
	}
	return 0
}
