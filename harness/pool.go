package main

// C11: binding of specs/roothash/PoolOp.tla + PoolRule.tla to roothash/api/commitment.Pool.

import (
	"bytes"
	"encoding/json"
	"flag"
	"fmt"
	"math/rand"
	"os"
	"runtime"
	"sync"
	"sync/atomic"

	"github.com/oasisprotocol/oasis-core/go/common/cbor"
	"github.com/oasisprotocol/oasis-core/go/common/crypto/hash"
	"github.com/oasisprotocol/oasis-core/go/common/crypto/signature"
	"github.com/oasisprotocol/oasis-core/go/roothash/api/commitment"
	scheduler "github.com/oasisprotocol/oasis-core/go/scheduler/api"
)

func init() {
	register("pool-replay", "replay TLC-emitted PoolOp behaviours on the real commitment pool; record traces", poolReplay)
	register("pool-trace", "drive the real commitment pool randomly (larger committees) and record traces", poolTrace)
}

type poolOp struct {
	A       string `json:"a"`
	N       string `json:"n,omitempty"`
	Sched   string `json:"sched,omitempty"`
	Vote    string `json:"vote,omitempty"`
	Timeout bool   `json:"timeout,omitempty"`
	Ret     string `json:"ret"`
	Res     string `json:"res,omitempty"`
}

type poolBehaviour struct {
	W     []string `json:"w"`
	B     []string `json:"b"`
	S     int      `json:"s"`
	Round uint64   `json:"round"`
	Ops   []poolOp `json:"ops"`
}

type poolEnv struct {
	committee *scheduler.Committee
	pool      *commitment.Pool
	round     uint64
	s         uint16
	names     map[signature.PublicKey]string
	votes     map[hash.Hash]string
	cborRT    bool
}

func pkOf(name string) signature.PublicKey {
	h := hash.NewFromBytes([]byte("verif-node-" + name))
	var pk signature.PublicKey
	copy(pk[:], h[:])
	return pk
}

func voteHash(v string) hash.Hash {
	return hash.NewFromBytes([]byte("verif-result-" + v))
}

func newPoolEnv(w, b []string, s int, round uint64, cborRT bool) *poolEnv {
	e := &poolEnv{round: round, s: uint16(s), names: map[signature.PublicKey]string{}, votes: map[hash.Hash]string{}, cborRT: cborRT}
	c := &scheduler.Committee{Kind: scheduler.KindComputeExecutor}
	for _, n := range w {
		c.Members = append(c.Members, &scheduler.CommitteeNode{Role: scheduler.RoleWorker, PublicKey: pkOf(n)})
		e.names[pkOf(n)] = n
	}
	for _, n := range b {
		c.Members = append(c.Members, &scheduler.CommitteeNode{Role: scheduler.RoleBackupWorker, PublicKey: pkOf(n)})
		e.names[pkOf(n)] = n
	}
	e.committee = c
	e.pool = commitment.NewPool()
	return e
}

func (e *poolEnv) mkCommit(n, sched, vote string) *commitment.ExecutorCommitment {
	e.names[pkOf(n)] = n
	e.names[pkOf(sched)] = sched
	ec := &commitment.ExecutorCommitment{NodeID: pkOf(n)}
	ec.Header.SchedulerID = pkOf(sched)
	ec.Header.Header.Round = e.round
	ec.Header.Header.PreviousHash = hash.NewFromBytes([]byte("prev"))
	if vote == "F" {
		ec.Header.SetFailure(commitment.FailureUnknown)
	} else {
		io := voteHash(vote)
		st := voteHash(vote + "-state")
		var mh, imh hash.Hash
		mh.Empty()
		imh.Empty()
		ec.Header.Header.IORoot = &io
		ec.Header.Header.StateRoot = &st
		ec.Header.Header.MessagesHash = &mh
		ec.Header.Header.InMessagesHash = &imh
		e.votes[ec.ToVote()] = vote
	}
	return ec
}

func classifyPoolErr(err error) string {
	switch err {
	case nil:
		return "ok"
	case commitment.ErrNotInCommittee:
		return "not_in_committee"
	case commitment.ErrBadExecutorCommitment:
		return "bad_commitment"
	case commitment.ErrAlreadyCommitted:
		return "already_committed"
	case commitment.ErrStillWaiting:
		return "waiting"
	case commitment.ErrDiscrepancyDetected:
		return "discrepancy"
	case commitment.ErrNoSchedulerCommitment:
		return "no_scheduler"
	case commitment.ErrBadSchedulerCommitment:
		return "bad_scheduler"
	case commitment.ErrInsufficientVotes:
		return "insufficient"
	}
	return "error:" + err.Error()
}

func (e *poolEnv) roundtrip() {
	if !e.cborRT {
		return
	}
	// The roothash application keeps the pool inside the CBOR-serialised runtime state between transactions.
	raw := cbor.Marshal(e.pool)
	var p commitment.Pool
	if err := cbor.Unmarshal(raw, &p); err != nil {
		panic(fmt.Sprintf("pool does not survive serialisation: %v", err))
	}
	e.pool = &p
}

// apply executes one op and returns the observed record (same field names as the model's history).
func (e *poolEnv) apply(op *poolOp) poolOp {
	obs := poolOp{A: op.A, N: op.N, Sched: op.Sched, Vote: op.Vote, Timeout: op.Timeout}
	switch op.A {
	case "add":
		err := e.pool.AddVerifiedExecutorCommitment(e.committee, e.mkCommit(op.N, op.Sched, op.Vote))
		obs.Ret = classifyPoolErr(err)
	case "process":
		sc, err := e.pool.ProcessCommitments(e.committee, e.s, op.Timeout)
		obs.Ret = classifyPoolErr(err)
		obs.Sched, obs.Res = "none", "none"
		if err == nil {
			obs.Ret = "final"
			if sc == nil || sc.Commitment == nil {
				obs.Sched, obs.Res = "nil", "nil"
			} else {
				obs.Sched = e.names[sc.Commitment.Header.SchedulerID]
				obs.Res = e.votes[sc.Commitment.ToVote()]
			}
		}
	default:
		panic("unknown op " + op.A)
	}
	e.roundtrip()
	return obs
}

func (e *poolEnv) traceRec(o poolOp) map[string]any {
	m := map[string]any{"ev": o.A, "ret": o.Ret}
	if o.A == "add" {
		m["n"], m["sched"], m["vote"] = o.N, o.Sched, o.Vote
	} else {
		m["timeout"], m["sched"], m["res"] = o.Timeout, o.Sched, o.Res
		m["disc"] = e.pool.Discrepancy
	}
	return m
}

func beginRec(w, b []string, s int, round uint64) map[string]any {
	if w == nil {
		w = []string{}
	}
	if b == nil {
		b = []string{}
	}
	return map[string]any{"ev": "begin", "w": w, "b": b, "s": s, "round": round}
}

func poolReplay(args []string) int {
	fs := flag.NewFlagSet("pool-replay", flag.ExitOnError)
	in := fs.String("in", "-", "behaviours")
	out := fs.String("out", "-", "summary JSON")
	trace := fs.String("trace", "", "ndjson trace of what the real pool did (mismatching behaviours + every k-th)")
	every := fs.Int("every", 50, "also record every k-th matching behaviour in the trace")
	fs.Parse(args)
	r, err := openIn(*in)
	if err != nil {
		fmt.Fprintln(os.Stderr, err)
		return 2
	}
	defer r.Close()
	var tw *os.File
	if *trace != "" {
		if tw, err = os.Create(*trace); err != nil {
			fmt.Fprintln(os.Stderr, err)
			return 2
		}
		defer tw.Close()
	}
	var (
		mu                                 sync.Mutex
		nBeh, nOps, nMis, nTraced, nPanics int
		retCounts                          = map[string]int{}
		mism                               []map[string]any
		samples                            []poolBehaviour
	)
	lines := make(chan []byte, 1024)
	var wg sync.WaitGroup
	var bad atomic.Bool
	for wk := 0; wk < runtime.NumCPU(); wk++ {
		wg.Add(1)
		go func() {
			defer wg.Done()
			lRet := map[string]int{}
			var lBeh, lOps, lMis, lTraced, lPanics int
			for line := range lines {
				var b poolBehaviour
				if err := json.Unmarshal(line, &b); err != nil {
					fmt.Fprintf(os.Stderr, "bad behaviour: %v\n", err)
					bad.Store(true)
					continue
				}
				lBeh++
				for _, rt := range []bool{false, true} {
					e := newPoolEnv(b.W, b.B, b.S, b.Round, rt)
					var recs []map[string]any
					mis := -1
					var pan string
					for i := range b.Ops {
						op := &b.Ops[i]
						lOps++
						var obs poolOp
						if perr := guard(func() { obs = e.apply(op) }); perr != nil {
							pan = perr.Error()
							recs = append(recs, map[string]any{"ev": op.A, "panic": pan})
							lPanics++
							mis = i
							break
						}
						lRet[op.A+":"+obs.Ret]++
						recs = append(recs, e.traceRec(obs))
						if mis < 0 && (obs.Ret != op.Ret || (op.A == "process" && (obs.Sched != op.Sched || obs.Res != op.Res))) {
							mis = i
						}
					}
					if mis >= 0 {
						lMis++
						mu.Lock()
						if len(mism) < 20 {
							mism = append(mism, map[string]any{"behaviour": b, "step": mis, "cbor": rt, "observed": recs, "panic": pan})
						}
						mu.Unlock()
					}
					if tw != nil && (mis >= 0 || (lBeh%*every == 0 && !rt)) {
						lTraced++
						var buf bytes.Buffer
						buf.Write(mustJSON(beginRec(b.W, b.B, b.S, b.Round)))
						buf.WriteByte('\n')
						for _, rec := range recs {
							buf.Write(mustJSON(rec))
							buf.WriteByte('\n')
						}
						mu.Lock()
						tw.Write(buf.Bytes())
						mu.Unlock()
					}
				}
				mu.Lock()
				if len(samples) < 2 {
					samples = append(samples, b)
				}
				mu.Unlock()
			}
			mu.Lock()
			nBeh, nOps, nMis, nTraced, nPanics = nBeh+lBeh, nOps+lOps, nMis+lMis, nTraced+lTraced, nPanics+lPanics
			for k, v := range lRet {
				retCounts[k] += v
			}
			mu.Unlock()
		}()
	}
	sc := lineReader(r)
	for sc.Scan() {
		line := sc.Bytes()
		if len(line) == 0 || line[0] != '{' {
			continue
		}
		lines <- append([]byte{}, line...)
	}
	close(lines)
	wg.Wait()
	if bad.Load() || sc.Err() != nil {
		return 2
	}
	w, err := openOut(*out)
	if err != nil {
		return 2
	}
	defer w.Close()
	w.Write(mustJSON(map[string]any{
		"behaviours": nBeh, "ops": nOps, "op_mismatches": nMis, "panics": nPanics, "traced": nTraced,
		"ret_counts": retCounts, "mismatches": mism, "samples": samples,
	}))
	return 0
}

// poolTrace: seeded random rounds with committees larger than the design bound, driven the way the roothash
// application drives the pool (process after every add; timeouts; re-process after a declared discrepancy).
func poolTrace(args []string) int {
	fs := flag.NewFlagSet("pool-trace", flag.ExitOnError)
	out := fs.String("out", "-", "ndjson trace")
	seed := fs.Int64("seed", 1, "seed")
	n := fs.Int("n", 200, "rounds")
	corrupt := fs.Int("corrupt", -1, "self-test: turn the k-th non-final process outcome into final")
	fs.Parse(args)
	w, err := openOut(*out)
	if err != nil {
		return 2
	}
	defer w.Close()
	rng := rand.New(rand.NewSource(*seed))
	all := []string{"n1", "n2", "n3", "n4", "n5", "n6", "n7", "n8"}
	nproc := 0
	for tr := 0; tr < *n; tr++ {
		nw := 1 + rng.Intn(5)
		nb := rng.Intn(5)
		perm := rng.Perm(len(all))
		var ws, bs []string
		for i := 0; i < nw; i++ {
			ws = append(ws, all[perm[i]])
		}
		// backups: overlap with workers with probability 1/3 each
		perm2 := rng.Perm(len(all))
		for _, j := range perm2 {
			if len(bs) >= nb {
				break
			}
			isW := false
			for _, x := range ws {
				if x == all[j] {
					isW = true
				}
			}
			if isW && rng.Intn(3) != 0 {
				continue
			}
			bs = append(bs, all[j])
		}
		s := rng.Intn(3)
		if s > nw {
			s = nw
		}
		round := uint64(rng.Intn(7))
		e := newPoolEnv(ws, bs, s, round, tr%2 == 0)
		emit := func(m map[string]any) {
			w.Write(mustJSON(m))
			w.Write([]byte("\n"))
		}
		emit(beginRec(ws, bs, s, round))
		cand := append(append([]string{}, all...), "x", "y")
		votes := []string{"A", "A", "A", "B", "C", "F"}
		steps := 4 + rng.Intn(14)
		done := false
		for i := 0; i < steps && !done; i++ {
			var op poolOp
			if rng.Intn(10) < 7 {
				// bias: members vote for worker-schedulers
				nn := cand[rng.Intn(len(cand))]
				if rng.Intn(4) != 0 {
					pool := append(append([]string{}, ws...), bs...)
					nn = pool[rng.Intn(len(pool))]
				}
				sd := ws[rng.Intn(len(ws))]
				if rng.Intn(8) == 0 {
					sd = cand[rng.Intn(len(cand))]
				}
				if rng.Intn(3) == 0 {
					sd = nn
				}
				v := votes[rng.Intn(len(votes))]
				if nn == sd && v == "F" {
					v = "A"
				}
				op = poolOp{A: "add", N: nn, Sched: sd, Vote: v}
			} else {
				op = poolOp{A: "process", Timeout: rng.Intn(3) == 0}
			}
			var obs poolOp
			if perr := guard(func() { obs = e.apply(&op) }); perr != nil {
				emit(map[string]any{"ev": op.A, "panic": perr.Error()})
				break
			}
			rec := e.traceRec(obs)
			if op.A == "process" {
				if nproc == *corrupt {
					if obs.Ret != "final" {
						rec["ret"], rec["sched"], rec["res"] = "final", ws[0], "A"
					} else {
						*corrupt++
					}
				}
				nproc++
				if obs.Ret == "final" || obs.Ret == "no_scheduler" || obs.Ret == "bad_scheduler" || obs.Ret == "insufficient" {
					done = true
				}
			}
			emit(rec)
			// the application processes after every accepted commitment
			if op.A == "add" && obs.Ret == "ok" {
				p := poolOp{A: "process", Timeout: false}
				var o2 poolOp
				if perr := guard(func() { o2 = e.apply(&p) }); perr != nil {
					emit(map[string]any{"ev": "process", "panic": perr.Error()})
					break
				}
				emit(e.traceRec(o2))
				if o2.Ret == "discrepancy" {
					p2 := poolOp{A: "process", Timeout: false}
					o3 := e.apply(&p2)
					emit(e.traceRec(o3))
					o2 = o3
				}
				if o2.Ret == "final" || o2.Ret == "bad_scheduler" || o2.Ret == "insufficient" {
					done = true
				}
			}
		}
	}
	return 0
}
